/-
  Towards `parse_valid` (C01): the machine on the pieces of an RFC 8259 document.
  Part 1: conventions, whitespace, the three literals, punctuation steps.
-/
import JsonC.Lemmas.TokenerRun
import JsonC.Spec.Rfc8259
namespace JsonC.Tokener
open JsonC

/-- the call does not validate UTF-8 (flags 0 or STRICT, with or without ALLOW_TRAILING) -/
def NoVal (t : Tok) : Prop := t.flags &&& Generated.tokenerValidateUtf8 = 0

theorem NoVal.validate {t : Tok} (h : NoVal t) : t.validateUtf8 = false := by
  simp [Tok.validateUtf8, NoVal] at *; exact h

/-- `t'` differs from `t` only in the level stack and the scratch fields; no surrogate is pending -/
structure Frm (t t' : Tok) : Prop where
  md : t'.maxDepth = t.maxDepth
  fl : t'.flags = t.flags
  hs : t'.hs = 0

theorem Frm.noVal {t t' : Tok} (f : Frm t t') (h : NoVal t) : NoVal t' := by
  unfold NoVal at *; rw [f.fl]; exact h

theorem Frm.trans {a b c : Tok} (h1 : Frm a b) (h2 : Frm b c) : Frm a c :=
  ⟨h2.md.trans h1.md, h2.fl.trans h1.fl, h2.hs⟩

/-- bytes that may follow a complete value: white space, ',', ']', '}', the terminating NUL, or
(default mode: a comment directly after the value) '/' -/
def Follow (b : UInt8) : Prop := isWs b = true ∨ b = 44 ∨ b = 93 ∨ b = 125 ∨ b = 0 ∨ b = 47

/-- one consumed byte, as a rewriting rule for `run` -/
theorem run_consume (lc : Libc) (t : Tok) (l : Loc) (b : UInt8) (t' : Tok) (l' : Loc) (hv : NoVal t) (hb : b ≠ 0)
    (h : feed lc t l b = .consume t' l') (c : UInt8) (off : Nat) (rs : Bytes) :
    run lc t l c off (b :: rs) = run lc t' l' b (off + 1) rs := by
  have hpk : peek t l b = some l := by simp [peek, hv.validate]
  have hb' : (b == 0) = false := by simpa using hb
  simp [run, hpk, h, hb']

/-! ### whitespace -/

theorem ws_bytes_ws (w : Rfc8259.Ws) : ∀ b ∈ w.text, isWs b = true ∧ b ≠ 0 := by
  intro b hb
  simp only [Rfc8259.Ws.text, List.mem_map] at hb
  obtain ⟨x, _, rfl⟩ := hb
  cases x <;> simp [Rfc8259.WsChar.byte, isWs]

/-- a level in `eatws` swallows any run of white space unchanged -/
theorem run_ws (lc : Libc) (t : Tok) (l : Loc) (sv : St) (cur : JVal) (nm : Option Bytes) (rest : List Level)
    (hs : t.stack = ⟨.eatws, sv, cur, nm⟩ :: rest) (hv : NoVal t) (w : Bytes) (hw : ∀ b ∈ w, isWs b = true ∧ b ≠ 0) :
    ∀ (c : UInt8) (off : Nat) (rs : Bytes), run lc t l c off (w ++ rs) = run lc t l (lastOr c w) (off + w.length) rs := by
  induction w with
  | nil => intro c off rs; simp [lastOr]
  | cons b bs ih =>
    intro c off rs
    have hb := hw b (by simp)
    have hf : feed lc t l b = .consume t l := by
      apply feed_of_disp
      · simp [disp, hs, dEatws, hb.1]
      · intro t' l' h; cases h
    rw [List.cons_append, run_consume lc t l b t l hv hb.2 hf]
    rw [ih (fun x hx => hw x (by simp [hx])) b (off + 1) rs]
    congr 1
    · simp [lastOr, List.getLast?_cons]
    · simp; omega

/-! ### re-stacking: the same levels below, a new top -/

theorem wf_restack {t t' : Tok} {top top' : Level} {rest : List Level} (h : WF t) (hs : t.stack = top :: rest)
    (hs' : t'.stack = top' :: rest) (hm : t'.maxDepth = t.maxDepth) (hok : top'.topOk = true)
    (hp : posOk top'.state t'.stPos) : WF t' := by
  obtain ⟨top0, rest0, hs0, hd, _, _, hb⟩ := h.ex
  rw [hs] at hs0
  cases hs0
  exact wf_top hd hb hs' hm hok hp

theorem topOk_finish (v : JVal) (nm : Option Bytes) : (⟨.eatws, .finish, v, nm⟩ : Level).topOk = true := by
  simp [Level.topOk]; exact shape_finish _ _ _

theorem topOk_token (st : St) (h : st = .null ∨ st = .boolean ∨ st = .number ∨ st = .string ∨ st = .inf)
    (sv : St) (hsv : sv = .start ∨ sv = .string) (cur : JVal) (nm : Option Bytes) :
    (⟨st, sv, cur, nm⟩ : Level).topOk = true := by
  simp only [Level.topOk]
  rcases h with h | h | h | h | h <;> subst h <;> rcases hsv with h' | h' <;> subst h' <;>
    cases isArrV cur <;> cases isObjV cur <;> cases nm.isSome <;> decide

/-- what "this level now holds the value `v`" means for the run: from here on the run continues as
from a tokener whose top level is (eatws, finish, v) over the same lower levels -/
def Parsed (lc : Libc) (t : Tok) (l : Loc) (txt : Bytes) (v : JVal) (nm : Option Bytes) (rest : List Level) : Prop :=
  ∀ nb, Follow nb → (nb = 0 → rest = []) → ∀ (c : UInt8) (off : Nat) (rs : Bytes),
    ∃ t' l', t'.stack = ⟨.eatws, .finish, v, nm⟩ :: rest ∧ Frm t t' ∧ WF t' ∧ l'.num = none ∧
      run lc t l c off (txt ++ nb :: rs) = run lc t' l' (lastOr c txt) (off + txt.length) (nb :: rs)

/-! ### literals -/

theorem parsed_null (lc : Libc) (t : Tok) (l : Loc) (cur : JVal) (nm : Option Bytes) (rest : List Level)
    (hwf : WF t) (hs : t.stack = ⟨.eatws, .start, cur, nm⟩ :: rest) (hv : NoVal t) (hhs : t.hs = 0) (hl0 : l.num = none) :
    Parsed lc t l [110, 117, 108, 108] .null nm rest := by
  intro nb _ _ c off rs
  -- after the four letters
  let t4 : Tok := { t with stack := ⟨.null, .start, cur, nm⟩ :: rest, pb := [110, 117, 108, 108], stPos := 4 }
  have hreach : run lc t l c off ([110, 117, 108, 108] ++ nb :: rs) = run lc t4 l 108 (off + 4) (nb :: rs) := by
    have hv' := hv; unfold NoVal at hv'
    simp [run, peek, hv', feed, fuel, feedN, disp, hs, dEatws, dStart, dNull, isWs, setTop, kwMatch, kwPrefix, nullStr,
      toLowerB, Tok.validateUtf8, t4]
  have hwf4 : WF t4 := wf_restack hwf hs rfl rfl (topOk_token .null (by simp) .start (by simp) cur nm)
    (posOk_of_ne (by simp) (by simp) (by simp))
  -- the byte after the keyword completes it
  let tf : Tok := finishWith { t4 with pb := t4.pb ++ [nb] } ⟨.null, .start, cur, nm⟩ rest .null
  have hd : disp lc t4 l nb = .redo tf l := by
    simp [disp, t4, tf, dNull, kwMatch, kwPrefix, nullStr, toLowerB]
  refine ⟨tf, l, rfl, ⟨rfl, rfl, hhs⟩, ?_, hl0, ?_⟩
  · exact wf_restack hwf hs rfl rfl (topOk_finish _ _) (posOk_of_ne (by simp) (by simp) (by simp))
  · rw [hreach, run_redo lc t4 l nb tf l hwf4 hv.validate hv.validate hd]
    simp [lastOr]
theorem parsed_true (lc : Libc) (t : Tok) (l : Loc) (cur : JVal) (nm : Option Bytes) (rest : List Level)
    (hwf : WF t) (hs : t.stack = ⟨.eatws, .start, cur, nm⟩ :: rest) (hv : NoVal t) (hhs : t.hs = 0) (hl0 : l.num = none) :
    Parsed lc t l [116, 114, 117, 101] (.bool true) nm rest := by
  intro nb _ _ c off rs
  -- after the four letters
  let t4 : Tok := { t with stack := ⟨.boolean, .start, cur, nm⟩ :: rest, pb := [116, 114, 117, 101], stPos := 4 }
  have hreach : run lc t l c off ([116, 114, 117, 101] ++ nb :: rs) = run lc t4 l 101 (off + 4) (nb :: rs) := by
    have hv' := hv; unfold NoVal at hv'
    simp [run, peek, hv', feed, fuel, feedN, disp, hs, dEatws, dStart, dBoolean, isWs, setTop, kwMatch, kwPrefix, trueStr, falseStr,
      toLowerB, Tok.validateUtf8, t4]
  have hwf4 : WF t4 := wf_restack hwf hs rfl rfl (topOk_token .boolean (by simp) .start (by simp) cur nm)
    (posOk_of_ne (by simp) (by simp) (by simp))
  -- the byte after the keyword completes it
  let tf : Tok := finishWith { t4 with pb := t4.pb ++ [nb] } ⟨.boolean, .start, cur, nm⟩ rest (.bool true)
  have hd : disp lc t4 l nb = .redo tf l := by
    simp [disp, t4, tf, dBoolean, kwMatch, kwPrefix, trueStr, falseStr, toLowerB]
  refine ⟨tf, l, rfl, ⟨rfl, rfl, hhs⟩, ?_, hl0, ?_⟩
  · exact wf_restack hwf hs rfl rfl (topOk_finish _ _) (posOk_of_ne (by simp) (by simp) (by simp))
  · rw [hreach, run_redo lc t4 l nb tf l hwf4 hv.validate hv.validate hd]
    simp [lastOr]

theorem parsed_false (lc : Libc) (t : Tok) (l : Loc) (cur : JVal) (nm : Option Bytes) (rest : List Level)
    (hwf : WF t) (hs : t.stack = ⟨.eatws, .start, cur, nm⟩ :: rest) (hv : NoVal t) (hhs : t.hs = 0) (hl0 : l.num = none) :
    Parsed lc t l [102, 97, 108, 115, 101] (.bool false) nm rest := by
  intro nb _ _ c off rs
  -- after the four letters
  let t4 : Tok := { t with stack := ⟨.boolean, .start, cur, nm⟩ :: rest, pb := [102, 97, 108, 115, 101], stPos := 5 }
  have hreach : run lc t l c off ([102, 97, 108, 115, 101] ++ nb :: rs) = run lc t4 l 101 (off + 5) (nb :: rs) := by
    have hv' := hv; unfold NoVal at hv'
    simp [run, peek, hv', feed, fuel, feedN, disp, hs, dEatws, dStart, dBoolean, isWs, setTop, kwMatch, kwPrefix, trueStr, falseStr,
      toLowerB, Tok.validateUtf8, t4]
  have hwf4 : WF t4 := wf_restack hwf hs rfl rfl (topOk_token .boolean (by simp) .start (by simp) cur nm)
    (posOk_of_ne (by simp) (by simp) (by simp))
  -- the byte after the keyword completes it
  let tf : Tok := finishWith { t4 with pb := t4.pb ++ [nb] } ⟨.boolean, .start, cur, nm⟩ rest (.bool false)
  have hd : disp lc t4 l nb = .redo tf l := by
    simp [disp, t4, tf, dBoolean, kwMatch, kwPrefix, trueStr, falseStr, toLowerB]
  refine ⟨tf, l, rfl, ⟨rfl, rfl, hhs⟩, ?_, hl0, ?_⟩
  · exact wf_restack hwf hs rfl rfl (topOk_finish _ _) (posOk_of_ne (by simp) (by simp) (by simp))
  · rw [hreach, run_redo lc t4 l nb tf l hwf4 hv.validate hv.validate hd]
    simp [lastOr]

end JsonC.Tokener
