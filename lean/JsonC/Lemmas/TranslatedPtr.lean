/-
  Model/Pointer.lean's `isValidIndex` computes what `is_valid_index` (json_pointer.c), as translated from the current C
  source (Generated/Translated.lean; the digit loop is the recursive definition `is_valid_index.loop1`), computes: for every
  reference token (a C string: `strlen` answers its length, the loads answer its bytes as signed chars), the C function
  returns 0 with errno = EINVAL exactly when the model refuses the token (empty, a single non-digit, a leading zero, any
  non-digit) and otherwise 1 with `*idx` = the model's index - for a one-character token computed in place, else the value
  `strtoull` returns (the libc hypothesis of C12: it equals `strtoullDigits`).
-/
import JsonC.Model.Pointer
import JsonC.Lemmas.TranslatedPb
namespace JsonC.TranslatedPtr
open JsonC JsonC.Pointer JsonC.Generated JsonC.CSem JsonC.TranslatedPb

/-- the value of a byte read through `const char *` (char is signed here) and promoted to int -/
def schar (c : UInt8) : Int := if c.toNat < 128 then (c.toNat : Int) else (c.toNat : Int) - 256

theorem digit_iff (c : UInt8) : isPlainDigit c = true ↔ (schar c ≥ 48 ∧ schar c ≤ 57) := by
  unfold isPlainDigit schar
  have h1 : (48 ≤ c) ↔ 48 ≤ c.toNat := by exact UInt8.le_iff_toNat_le
  have h2 : (c ≤ 57) ↔ c.toNat ≤ 57 := by exact UInt8.le_iff_toNat_le
  have hb := c.toNat_lt
  simp only [Bool.and_eq_true, decide_eq_true_eq, h1, h2]
  split <;> omega

theorem digit_val (c : UInt8) (h : isPlainDigit c = true) : schar c = (c.toNat : Int) ∧ 48 ≤ c.toNat ∧ c.toNat ≤ 57 := by
  have ⟨ha, hb⟩ := (digit_iff c).mp h
  have hlt := c.toNat_lt
  unfold schar at ha hb ⊢
  split <;> rename_i hc
  · rw [if_pos hc] at ha hb; omega
  · rw [if_neg hc] at ha hb; omega

theorem schar_eq_48 (c : UInt8) : schar c = 48 ↔ c = 48 := by
  unfold schar
  have hb := c.toNat_lt
  constructor
  · intro h
    apply UInt8.toNat_inj.mp
    split at h <;> simp <;> omega
  · intro h; subst h; decide

/-- the digit-check loop from position `i` on: it runs to the end exactly when every remaining byte is a digit -/
theorem loop_agrees (tok : Bytes) (u1 h2 c3 m4 m5 m6 m9 : Int) (fuelP : Nat) (h10 c11 : Int) (mk1 mk2 : Nat → Int)
    (path idx dref : Int) (hlen : (tok.length : Int) < 18446744073709551616) :
    ∀ (rem i : Nat), i + rem = tok.length →
      ∀ (fuel0 it : Nat) (errno : Int) (tr : List (String × List Int)), rem < fuel0 →
        (∀ j (hj : i + j < tok.length), mk1 (it + j) = schar (tok[i + j]'hj) ∧ mk2 (it + j) = schar (tok[i + j]'hj)) →
        ∃ out, Translated.is_valid_index.loop1 u1 h2 c3 m4 m5 m6 m9 fuelP h10 c11 mk1 mk2 fuel0 it path idx errno dref tr i tok.length = .ok out ∧
          (if (tok.drop i).all isPlainDigit then out.ret = 1 ∧ out.deref_idx = c11
           else out.ret = 0 ∧ out.errno = 22 ∧ out.deref_idx = dref) := by
  intro rem
  induction rem with
  | zero =>
    intro i hi fuel0 it errno tr hf hm
    cases fuel0 with
    | zero => omega
    | succ f =>
      unfold Translated.is_valid_index.loop1 Translated.is_valid_index.j1
      rw [if_neg (by omega)]
      have : tok.drop i = [] := by simp; omega
      exact ⟨_, rfl, by simp [this]⟩
  | succ r ih =>
    intro i hi fuel0 it errno tr hf hm
    cases fuel0 with
    | zero => omega
    | succ f =>
      have hi' : i < tok.length := by omega
      have ⟨h1, h2⟩ := hm 0 (by omega)
      simp only [Nat.add_zero] at h1 h2
      have hd : tok.drop i = tok[i] :: tok.drop (i + 1) := by
        rw [List.drop_eq_getElem_cons hi']
      unfold Translated.is_valid_index.loop1
      rw [if_pos (by omega)]
      by_cases hdig : isPlainDigit tok[i] = true
      · have ⟨ha, hb⟩ := (digit_iff _).mp hdig
        rw [if_pos (by omega), if_pos (by omega)]
        have hnext : ((i : Int) + 1) % 18446744073709551616 = ((i + 1 : Nat) : Int) := by omega
        simp only [hnext]
        obtain ⟨out, ho, hres⟩ := ih (i + 1) (by omega) f (it + 1) errno
          (tr ++ [("load1", [path + (i : Int)])] ++ [("load1", [path + (i : Int)])]) (by omega)
          (by intro j hj
              have := hm (j + 1) (by omega)
              simpa [show i + (j + 1) = i + 1 + j by omega, show it + (j + 1) = it + 1 + j by omega] using this)
        refine ⟨out, ho, ?_⟩
        have hall : (tok.drop i).all isPlainDigit = (tok.drop (i + 1)).all isPlainDigit := by
          rw [hd, List.all_cons, hdig, Bool.true_and]
        rw [hall]
        exact hres
      · have hnd : ¬ (schar tok[i] ≥ 48 ∧ schar tok[i] ≤ 57) := fun h => hdig ((digit_iff _).mpr h)
        have hall : (tok.drop i).all isPlainDigit = false := by
          rw [hd, List.all_cons]; simp [hdig]
        rw [hall]
        simp only [Bool.false_eq_true, if_false]
        by_cases ha : mk1 it ≥ 48
        · rw [if_pos ha, if_neg (by omega)]
          exact ⟨_, rfl, by simp⟩
        · rw [if_neg ha]
          exact ⟨_, rfl, by simp⟩

/-- `is_valid_index`: the token is a C string `tok` (so `strlen` answers its length and the loads answer its bytes);
`c11` is what `strtoull(path, NULL, 10)` returns, assumed to be the value the model's `strtoullDigits` computes, converted
to `size_t` (the libc hypothesis of C12) -/
theorem isValidIndex_agrees (tok : Bytes) (hlen : (tok.length : Int) < 18446744073709551616)
    (path idx errno dref u1 h2 h10 c11 b0 : Int) (fuel : Nat) (hfuel : tok.length < fuel) (mk1 mk2 : Nat → Int)
    (hb0 : ∀ (h : 0 < tok.length), b0 = schar (tok[0]'h))
    (hm : ∀ j (hj : j < tok.length), mk1 j = schar (tok[j]'hj) ∧ mk2 j = schar (tok[j]'hj))
    (hc11 : c11 = ((toSizeT (strtoullDigits tok).1 : Nat) : Int)) :
    ∃ out, Translated.is_valid_index path idx errno dref u1 h2 tok.length b0 b0 b0 b0 fuel h10 c11 mk1 mk2 = .ok out ∧
      (match isValidIndex tok with
       | none => out.ret = 0 ∧ out.errno = 22 ∧ out.deref_idx = dref
       | some r => out.ret = 1 ∧ out.deref_idx = (r.1 : Int)) := by
  unfold Translated.is_valid_index isValidIndex
  by_cases h0 : tok.length = 0
  · simp [h0]
  · rw [if_neg (by omega), if_neg h0]
    have hpos : 0 < tok.length := by omega
    have hb := hb0 hpos
    by_cases h1 : tok.length = 1
    · rw [if_pos (by omega), if_pos h1]
      obtain ⟨c, rfl⟩ := List.length_eq_one_iff.mp h1
      simp only [List.getElem_cons_zero] at hb
      simp only []
      by_cases hd : isPlainDigit c = true
      · have ⟨ha, hbb⟩ := (digit_iff c).mp hd
        rw [if_pos (by omega), if_pos (by omega)]
        simp only [ckS32_bind, hd, if_true]
        rw [if_pos (by omega)]
        refine ⟨_, rfl, rfl, ?_⟩
        have ⟨hv, hlo, hhi⟩ := digit_val c hd
        simp only [hb, hv]
        omega
      · have hnd : ¬ (schar c ≥ 48 ∧ schar c ≤ 57) := fun h => hd ((digit_iff _).mpr h)
        simp only [hd, Bool.false_eq_true, if_false]
        by_cases ha : b0 ≥ 48
        · rw [if_pos ha, if_neg (by omega)]
          exact ⟨_, rfl, rfl, rfl, rfl⟩
        · rw [if_neg ha]
          exact ⟨_, rfl, rfl, rfl, rfl⟩
    · rw [if_neg (by omega), if_neg h1]
      have hhead : tok.head? = some (tok[0]'hpos) := by
        cases tok with
        | nil => simp at hpos
        | cons a l => simp
      by_cases hz : tok[0]'hpos = 48
      · have : b0 = 48 := by rw [hb]; exact (schar_eq_48 _).mpr hz
        rw [if_pos this]
        simp only [hhead, hz, if_true]
        exact ⟨_, rfl, rfl, rfl, rfl⟩
      · have hne : b0 ≠ 48 := by
          rw [hb]; intro h; exact hz ((schar_eq_48 _).mp h)
        rw [if_neg hne]
        have hh : ¬ (tok.head? = some 48) := by rw [hhead]; simpa using hz
        simp only [hh, if_false]
        obtain ⟨out, ho, hres⟩ := loop_agrees tok u1 h2 tok.length b0 b0 b0 b0 fuel h10 c11 mk1 mk2 path idx dref hlen
          tok.length 0 (by omega) fuel 0 h2 ([] ++ [("strlen", [path])] ++ [("load1", [path + 0])]) hfuel
          (by intro j hj; simpa using hm j (by omega))
        refine ⟨out, by simpa using ho, ?_⟩
        simp only [List.drop_zero] at hres
        by_cases hall : tok.all isPlainDigit = true
        · simp only [hall, if_true] at hres
          simp only [hall, Bool.not_true, Bool.false_eq_true, if_false]
          exact ⟨hres.1, by rw [hres.2, hc11]⟩
        · simp only [hall, if_false] at hres
          simp only [Bool.not_eq_true] at hall
          simp only [hall, Bool.not_false, if_true]
          exact hres
end JsonC.TranslatedPtr
