/-
  C16, strict mode on documents with extensions, part 5: the induction and the top level.
-/
import JsonC.Lemmas.TokenerXRej4
namespace JsonC.Tokener
open JsonC Rfc8259 Rfc8259X

theorem xdoc_rej (lc : Libc) (hl : LibcSpec lc) (hx : LibcSpecX lc) : ∀ x, XRej lc x := by
  intro x
  induction x using xdoc_induct with
  | hlit k caps =>
    intro t l cur rest hwf hs hv hhs hl0 hst hok _ _ _ hnp nb _ _ c off rs0
    generalize nb :: rs0 = rs
    simp only [XDoc.ok, beq_iff_eq] at hok
    simp only [XDoc.plain] at hnp
    exact strict_lit_rejected lc t l cur none rest hwf hs hv hst k caps hok hnp c off rs
  | hnum n =>
    intro t l cur rest _ hs hv _ _ hst hok _ _ _ hnp nb hnb hnul c off rs
    exact xnum_rej lc hx t l cur none rest hs hv n (by simpa [XDoc.ok] using hok) hst (by simpa [XDoc.plain] using hnp)
      nb hnb hnul c off rs
  | hstr q items =>
    intro t l cur rest hwf hs hv hhs hl0 hst hok _ _ _ hnp nb _ _ c off rs0
    generalize nb :: rs0 = rs
    cases q with
    | dq =>
      have hbad : items.all StrItem.ok = false := by simpa [XDoc.plain] using hnp
      exact strict_ctl_string_err lc t l hwf hv hhs hst cur none rest hs items (by simpa [XDoc.ok] using hok) hbad c off rs
    | sq => exact sq_value_err lc t l hv hst cur none rest hs c off _
  | harr g es tr ih =>
    intro t l cur rest hwf hs hv hhs hl0 hst hok hfit hknf hdepth hnp nb _ _ c off rs0
    generalize nb :: rs0 = rs
    have h1 := open_array lc t l hv cur none rest hs
    let t1 : Tok := { t with stack := ⟨.eatws, .array, .arr [], none⟩ :: rest }
    have hwf1 : WF t1 := wf_restack hwf hs rfl rfl (topOk_open _ _ (Or.inl ⟨rfl, rfl⟩)) (posOk_of_ne (by simp) (by simp) (by simp))
    simp only [XDoc.ok, Bool.and_eq_true] at hok
    cases es with
    | nil =>
      have htr : tr = none := by
        cases tr with
        | none => rfl
        | some g' => have := hok.2; simp at this
      subst htr
      have hg : g.plain = false := by simpa [XDoc.plain] using hnp
      have e : (XDoc.arr g [] none).text ++ rs = [91] ++ (g.text ++ 93 :: rs) := by simp [XDoc.text]
      have hh := h1 c off (g.text ++ 93 :: rs)
      simp only [lastOr, List.getLast?_singleton, Option.getD_some, List.length_singleton] at hh
      rw [e, hh]
      exact gap_err lc t1 l hv hst .array (.arr []) none rest rfl (.array _) g hg _ _ _
    | cons e0 r =>
      have e : (XDoc.arr g (e0 :: r) tr).text ++ rs =
          [91] ++ (intercalateB 44 (xelemsText (e0 :: r)) ++ (trailText tr ++ 93 :: rs)) := by simp [XDoc.text]
      have hh := h1 c off (intercalateB 44 (xelemsText (e0 :: r)) ++ (trailText tr ++ 93 :: rs))
      simp only [lastOr, List.getLast?_singleton, Option.getD_some, List.length_singleton] at hh
      rw [e, hh]
      exact xelems_rej lc hl (e0 :: r) (by simp) ih t1 l .array (Or.inl rfl) [] rest hwf1 rfl hv hhs hl0 hst hok.1.2
        (by simpa [XDoc.erase, Doc.intsFit] using hfit) (by simpa [XDoc.erase, Doc.keysNulFree] using hknf)
        (by simpa [XDoc.erase, Doc.nest] using hdepth) tr (by simpa [XDoc.plain] using hnp) 91 (off + 1) rs
  | hobj g ms tr ih =>
    intro t l cur rest hwf hs hv hhs hl0 hst hok hfit hknf hdepth hnp nb _ _ c off rs0
    generalize nb :: rs0 = rs
    have h1 := open_object lc t l hv cur none rest hs
    let t1 : Tok := { t with stack := ⟨.eatws, .objectFieldStart, .obj [], none⟩ :: rest }
    have hwf1 : WF t1 := wf_restack hwf hs rfl rfl (topOk_open _ _ (Or.inr ⟨rfl, rfl⟩)) (posOk_of_ne (by simp) (by simp) (by simp))
    simp only [XDoc.ok, Bool.and_eq_true] at hok
    cases ms with
    | nil =>
      have htr : tr = none := by
        cases tr with
        | none => rfl
        | some g' => have := hok.2; simp at this
      subst htr
      have hg : g.plain = false := by simpa [XDoc.plain] using hnp
      have e : (XDoc.obj g [] none).text ++ rs = [123] ++ (g.text ++ 125 :: rs) := by simp [XDoc.text]
      have hh := h1 c off (g.text ++ 125 :: rs)
      simp only [lastOr, List.getLast?_singleton, Option.getD_some, List.length_singleton] at hh
      rw [e, hh]
      exact gap_err lc t1 l hv hst .objectFieldStart (.obj []) none rest rfl (.objectFieldStart _) g hg _ _ _
    | cons e0 r =>
      have e : (XDoc.obj g (e0 :: r) tr).text ++ rs =
          [123] ++ (intercalateB 44 (xmembersText (e0 :: r)) ++ (trailText tr ++ 125 :: rs)) := by simp [XDoc.text]
      have hh := h1 c off (intercalateB 44 (xmembersText (e0 :: r)) ++ (trailText tr ++ 125 :: rs))
      simp only [lastOr, List.getLast?_singleton, Option.getD_some, List.length_singleton] at hh
      rw [e, hh]
      exact xmembers_rej lc hl (e0 :: r) (by simp) ih t1 l .objectFieldStart (Or.inl rfl) [] none rest hwf1 rfl hv hhs hl0 hst hok.1.2
        (by simpa [XDoc.erase, Doc.intsFit] using hfit) (by simpa [XDoc.erase, Doc.keysNulFree] using hknf)
        (by simpa [XDoc.erase, Doc.nest] using hdepth) tr (by simpa [XDoc.plain] using hnp) 123 (off + 1) rs

/-- strict mode without ALLOW_TRAILING_CHARS: a comment after the complete top-level value ends the
loop at `finish` with a non-NUL byte pending, which the epilogue turns into "unexpected character" -/
theorem trail_comment_unexpected (lc : Libc) (t : Tok) (l : Loc) (hv : NoVal t) (hst : t.strict = true)
    (hat : t.allowTrailing = false) (v : JVal) (nm : Option Bytes) (hs : t.stack = [⟨.eatws, .finish, v, nm⟩])
    (g : Gap) (hnp : g.plain = false) :
    ∀ (c : UInt8) (off : Nat) (rs : Bytes),
      (epilogue (run lc t l c off (g.text ++ rs))).err = .unexpected ∧ (epilogue (run lc t l c off (g.text ++ rs))).value = none ∧
      (epilogue (run lc t l c off (g.text ++ rs))).stuck = false ∧ (epilogue (run lc t l c off (g.text ++ rs))).fault = none := by
  have slash : ∀ (c : UInt8) (off : Nat) (rs : Bytes),
      (epilogue (run lc t l c off (47 :: rs))).err = .unexpected ∧ (epilogue (run lc t l c off (47 :: rs))).value = none ∧
      (epilogue (run lc t l c off (47 :: rs))).stuck = false ∧ (epilogue (run lc t l c off (47 :: rs))).fault = none := by
    intro c off rs
    have hf : feed lc t l 47 = .done { t with stack := [⟨.finish, .finish, v, nm⟩] } l := by
      simp [feed, fuel, feedN, disp, hs, dEatws, dFinish, isWs, setTop, hst]
    have hpk : peek t l 47 = some l := by simp [peek, hv.validate]
    have hr : run lc t l c off (47 :: rs) = ⟨{ t with stack := [⟨.finish, .finish, v, nm⟩] }, l, 47, off, .done⟩ := by
      simp only [run, hpk, hf]
    rw [hr]
    have hst2 : ({ t with stack := [⟨.finish, .finish, v, nm⟩] } : Tok).strict = true := by simpa [Tok.strict] using hst
    have hat2 : ({ t with stack := [⟨.finish, .finish, v, nm⟩] } : Tok).allowTrailing = false := by simpa [Tok.allowTrailing] using hat
    have hfe : finalErr ⟨{ t with stack := [⟨.finish, .finish, v, nm⟩] }, l, 47, off, .done⟩ = .unexpected := by
      simp [finalErr, topState, hst2, hat2]
    simp [epilogue, hfe]
  induction g with
  | nil => simp [Gap.plain] at hnp
  | cons i r ih =>
    intro c off rs
    cases i with
    | ws w =>
      have hb : isWs w.byte = true ∧ w.byte ≠ 0 := by cases w <;> simp [WsChar.byte, isWs]
      have hf : feed lc t l w.byte = .consume t l := by
        apply feed_of_disp
        · simp [disp, hs, dEatws, hb.1]
        · intro t' l' h; cases h
      have e : Gap.text (GapItem.ws w :: r) ++ rs = w.byte :: (Gap.text r ++ rs) := by simp [Gap.text, GapItem.text]
      rw [e, run_consume lc t l w.byte t l hv hb.2 hf]
      exact ih (by simpa [Gap.plain, GapItem.plain] using hnp) _ _ _
    | block b =>
      have e : Gap.text (GapItem.block b :: r) ++ rs = 47 :: (42 :: (b ++ [42, 47] ++ Gap.text r ++ rs)) := by
        simp [Gap.text, GapItem.text]
      rw [e]; exact slash _ _ _
    | line b =>
      have e : Gap.text (GapItem.line b :: r) ++ rs = 47 :: (47 :: (b ++ [10] ++ Gap.text r ++ rs)) := by
        simp [Gap.text, GapItem.text]
      rw [e]; exact slash _ _ _

/-- **top level, strict mode**: a text with at least one extension is rejected -/
theorem xtop_level_strict (lc : Libc) (hl : LibcSpec lc) (hx : LibcSpecX lc) (t : Tok) (hwf : WF t) (hst0 : t.stack = [⟨.eatws, .start, .null, none⟩])
    (hv : NoVal t) (hhs : t.hs = 0) (hst : t.strict = true) (hat : t.allowTrailing = false) (x : XText) (hok : x.ok = true)
    (hfit : x.doc.erase.intsFit = true) (hknf : x.doc.erase.keysNulFree = true) (hdepth : 1 + x.doc.erase.nest ≤ t.maxDepth)
    (hnp : x.plain = false) :
    let f := parseEx lc t (x.text ++ [0])
    f.err ≠ .success ∧ f.err ≠ .continue_ ∧ f.value = none ∧ f.stuck = false ∧ f.fault = none := by
  simp only [XText.ok, Bool.and_eq_true] at hok
  have hsplit : x.text ++ [0] = x.lead.text ++ (x.doc.text ++ (x.trail.text ++ [0])) := by simp [XText.text]
  unfold parseEx
  rw [hsplit]
  cases h1 : x.lead.plain with
  | false => exact epilogue_errStop _ (gap_err lc t {} hv hst .start .null none [] hst0 (.start _) x.lead h1 _ _ _)
  | true =>
    rw [gap_plain_text x.lead h1, run_ws lc t {} .start .null none [] hst0 hv x.lead.erase.text (ws_bytes_ws x.lead.erase) 1 0 _]
    cases h2 : x.doc.plain with
    | false =>
      obtain ⟨nb, rs, htr, hnb⟩ := xfollow_top x.trail hok.2
      rw [htr]
      exact epilogue_errStop _ (xdoc_rej lc hl hx x.doc t {} .null [] hwf hst0 hv hhs rfl hst hok.1.2 hfit hknf
        (by simpa using hdepth) h2 nb hnb (fun _ => rfl) _ _ _)
    | true =>
      have h3 : x.trail.plain = false := by simpa [XText.plain, h1, h2] using hnp
      obtain ⟨nb, rs', htl, hfol, hnz⟩ := gap_nonplain_head x.trail h3 [0]
      rw [htl, xdoc_plain_text x.doc hok.1.2 h2]
      obtain ⟨t2, l2, hs2, f2, _, _, hrun⟩ := doc_goal lc hl x.doc.erase t {} .null [] hwf hst0 hv hhs rfl
        (xdoc_erase_ok x.doc hok.1.2 h2) (fun _ => hfit) hknf (by simpa using hdepth) nb hfol (fun h => absurd h hnz)
        (lastOr 1 x.lead.erase.text) (0 + x.lead.erase.text.length) rs'
      rw [hrun, ← htl]
      have hst2 : t2.strict = true := by rw [f2.strict]; exact hst
      have hat2 : t2.allowTrailing = false := by simpa [Tok.allowTrailing, f2.fl] using hat
      have := trail_comment_unexpected lc t2 l2 (f2.noVal hv) hst2 hat2 x.doc.erase.denote none hs2 x.trail h3
        (lastOr (lastOr 1 x.lead.erase.text) x.doc.erase.text) (0 + x.lead.erase.text.length + x.doc.erase.text.length) [0]
      refine ⟨?_, ?_, this.2.1, this.2.2.1, this.2.2.2⟩ <;> rw [this.1] <;> simp

end JsonC.Tokener
