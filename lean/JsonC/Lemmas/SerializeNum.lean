/-
  C02 helper lemmas, part 3: integers.  `"%" PRId64` / `"%" PRIu64` into `char sbuf[21]` never
  truncates for a value of the C type, and the text is the RFC number `numOfInt v`, which denotes `v`.
-/
import JsonC.Lemmas.SerializeStr

namespace JsonC.Serialize
open JsonC Generated SerSpec Rfc8259

theorem natDigs_lt (n : Nat) (h : n < 10) : natDigs n = [n] := by
  rw [natDigs]; simp [h]

theorem natDigs_ge (n : Nat) (h : ¬ n < 10) : natDigs n = natDigs (n / 10) ++ [n % 10] := by
  rw [natDigs]; simp [h]

theorem natDigs_ne_nil (n : Nat) : natDigs n ≠ [] := by
  by_cases h : n < 10
  · rw [natDigs_lt n h]; simp
  · rw [natDigs_ge n h]; simp

theorem natDigs_all_lt : ∀ n, ∀ d ∈ natDigs n, d < 10 := by
  intro n
  induction n using natDigs.induct with
  | case1 n h => intro d hd; rw [natDigs_lt n h] at hd; simp at hd; omega
  | case2 n h ih =>
    intro d hd
    rw [natDigs_ge n h] at hd
    simp at hd
    rcases hd with hd | hd
    · exact ih d hd
    · omega

theorem natDigs_ok (n : Nat) : digitsOk (natDigs n) = true := by
  simp only [digitsOk, Bool.and_eq_true, Bool.not_eq_true', List.all_eq_true, decide_eq_true_eq]
  refine ⟨?_, natDigs_all_lt n⟩
  cases h : natDigs n with
  | nil => exact absurd h (natDigs_ne_nil n)
  | cons _ _ => rfl

/-- no superfluous leading zero -/
theorem natDigs_head : ∀ n, (natDigs n).length = 1 ∨ ((natDigs n).head? ≠ some 0 ∧ (natDigs n).head? ≠ none) := by
  intro n
  induction n using natDigs.induct with
  | case1 n h => left; rw [natDigs_lt n h]; rfl
  | case2 n h ih =>
    right
    rw [natDigs_ge n h]
    rcases ih with ih | ih
    · -- n / 10 has one digit, which is n / 10 itself and not 0
      have h10 : n / 10 < 10 := by
        by_cases hh : n / 10 < 10
        · exact hh
        · rw [natDigs_ge _ hh] at ih; simp at ih
          exact absurd ih (natDigs_ne_nil _)
      rw [natDigs_lt _ h10]
      simp; omega
    · cases hd : natDigs (n / 10) with
      | nil => exact absurd hd (natDigs_ne_nil _)
      | cons a r => rw [hd] at ih; simpa using ih.1

theorem natOfDigits_snoc (a : List Nat) (d : Nat) : natOfDigits (a ++ [d]) = natOfDigits a * 10 + d := by
  simp [natOfDigits, List.foldl_append]

theorem natOfDigits_natDigs : ∀ n, natOfDigits (natDigs n) = n := by
  intro n
  induction n using natDigs.induct with
  | case1 n h => rw [natDigs_lt n h]; simp [natOfDigits]
  | case2 n h ih => rw [natDigs_ge n h, natOfDigits_snoc, ih]; omega

theorem decDigits_eq : ∀ n, decDigits n = digitsText (natDigs n) := by
  intro n
  induction n using natDigs.induct with
  | case1 n h => rw [natDigs_lt n h, decDigits]; simp [h, digitsText, digitByte]
  | case2 n h ih =>
    rw [natDigs_ge n h, decDigits]
    simp only [h, dite_false]
    rw [ih]; simp [digitsText, digitByte]

theorem natDigs_length : ∀ (k n : Nat), n < 10 ^ (k + 1) → (natDigs n).length ≤ k + 1 := by
  intro k
  induction k with
  | zero => intro n h; rw [natDigs_lt n (by simpa using h)]; simp
  | succ k ih =>
    intro n h
    by_cases h10 : n < 10
    · rw [natDigs_lt n h10]; simp
    · rw [natDigs_ge n h10]
      have : n / 10 < 10 ^ (k + 1) := by
        rw [Nat.div_lt_iff_lt_mul (by decide)]
        rw [Nat.pow_succ] at h; exact h
      have := ih (n / 10) this
      simp; omega

/-- a digit byte is neither NUL nor ESC nor any other non-digit -/
theorem digitsText_mem {ds : List Nat} (h : ∀ d ∈ ds, d < 10) : ∀ b ∈ digitsText ds, 48 ≤ b ∧ b ≤ 57 := by
  intro b hb
  simp only [digitsText, List.mem_map] at hb
  obtain ⟨d, hd, rfl⟩ := hb
  unfold digitByte
  have := h d hd
  constructor
  · rw [UInt8.le_iff_toNat_le]; simp; omega
  · rw [UInt8.le_iff_toNat_le]; simp; omega

theorem takeWhile_all {α} (p : α → Bool) (l : List α) (h : ∀ x ∈ l, p x = true) : l.takeWhile p = l := by
  induction l with
  | nil => rfl
  | cons a r ih =>
    simp only [List.takeWhile_cons, h a (by simp), if_true]
    rw [ih (fun x hx => h x (by simp [hx]))]

/-- snprintf into a buffer that is large enough, of an output without NUL: the output itself -/
theorem snprintfImage_id (n : Nat) (out : Bytes) (hlen : out.length < n) (hnul : 0 ∉ out) :
    snprintfImage n out = out := by
  unfold snprintfImage
  rw [List.take_of_length_le (by omega)]
  apply takeWhile_all
  intro x hx
  simp only [bne_iff_ne, ne_eq]
  intro h0; subst h0; exact hnul hx

theorem decInt_eq (v : Int) : decInt v = (numOfInt v).text := by
  unfold decInt numOfInt Num.text
  by_cases h : v < 0
  · simp [h, decDigits_eq, signByte, fracText, expText]
  · have : v.toNat = v.natAbs := by omega
    simp [h, decDigits_eq, this, signByte, fracText, expText]

theorem numOfInt_ok (v : Int) : (numOfInt v).ok = true := by
  unfold numOfInt Num.ok
  simp only [natDigs_ok, Bool.true_and, Bool.and_true]
  rcases natDigs_head v.natAbs with h | h
  · simp [h]
  · simp [h.1]

theorem numOfInt_text_bytes (v : Int) : ∀ b ∈ (numOfInt v).text, b = 45 ∨ (48 ≤ b ∧ b ≤ 57) := by
  intro b hb
  unfold numOfInt Num.text at hb
  simp only [fracText, expText, List.append_nil, List.mem_append] at hb
  rcases hb with hb | hb
  · unfold signByte at hb
    split at hb
    · simp at hb; exact Or.inl hb
    · cases hb
  · exact Or.inr (digitsText_mem (natDigs_all_lt _) b hb)

theorem numOfInt_text_length (v : Int) (h : -(10 : Int) ^ 19 < v ∧ v < (10 : Int) ^ 20) : (numOfInt v).text.length ≤ 20 := by
  unfold numOfInt Num.text
  simp only [fracText, expText, signByte, List.append_nil, List.length_append, digitsText, List.length_map]
  by_cases hv : v < 0
  · have : v.natAbs < 10 ^ (18 + 1) := by omega
    have := natDigs_length 18 _ this
    simp [hv]; omega
  · have : v.natAbs < 10 ^ (19 + 1) := by omega
    have := natDigs_length 19 _ this
    simp [hv]; omega

/-- json_object_int_to_json_string on a value in the range of its C type: the full decimal text -/
theorem intText_eq (s : Bool) (v : Int) (h : -(10 : Int) ^ 19 < v ∧ v < (10 : Int) ^ 20) :
    intText s v = (numOfInt v).text := by
  unfold intText
  rw [decInt_eq]
  apply snprintfImage_id
  · have := numOfInt_text_length v h
    have : serIntBuf = 21 := rfl
    omega
  · intro h0
    rcases numOfInt_text_bytes v 0 h0 with h1 | h1
    · cases h1
    · exact absurd h1.1 (by decide)

/-- the RFC number printed for an integer denotes that integer (typed int64 when it fits, else uint64) -/
theorem numOfInt_denote (v : Int) (h : INT64_MIN ≤ v ∧ v ≤ UINT64_MAX) :
    ∃ sg, (numOfInt v).denote = .int sg v := by
  unfold Num.denote numOfInt
  simp only [natOfDigits_natDigs]
  unfold INT64_MIN UINT64_MAX at h
  by_cases hv : v < 0
  · simp only [hv, decide_true, if_true]
    refine ⟨true, ?_⟩
    have : ¬ (-(v.natAbs : Int) < INT64_MIN) := by unfold INT64_MIN; omega
    simp only [this, if_false]
    congr 1; omega
  · simp only [hv, decide_false, Bool.false_eq_true, if_false]
    by_cases h2 : (v.natAbs : Int) ≤ INT64_MAX
    · simp only [h2, if_true]; exact ⟨true, by congr 1; omega⟩
    · simp only [h2, if_false]
      have : ¬ ((v.natAbs : Int) > UINT64_MAX) := by unfold UINT64_MAX; omega
      simp only [this, if_false]; exact ⟨false, by congr 1; omega⟩

end JsonC.Serialize
