/-
  The invariant of the reference-count model under the atomic semantics, preserved by every step of
  every thread (so by every schedule).  `H t n` is the (ghost) number of references thread `t` owns to
  node `n`.
-/
import JsonC.Lemmas.ThreadsBasic

namespace JsonC.Threads
open JsonC Generated

structure Inv (c0 c : Cfg) (H : Nat → Nat → Nat) : Prop where
  nofault : c.fault = none
  nthreads : c.threads.length = c0.threads.length
  nnodes : c.nodes.length = c0.nodes.length
  ok : ∀ t, t < c0.threads.length → OkProg (H t) (progAt c t)
  pcs : ∀ (t : Nat) (th : Thread), c.threads[t]? = some th → ∀ v, th.pc ≠ Pc.loaded v
  dom : ∀ t n, 0 < H t n → t < c0.threads.length ∧ n < c0.nodes.length
  cnt : ∀ n, n < c0.nodes.length → cntAt c n = sumTo c0.threads.length (fun t => H t n)
  pot : ∀ n, n < c0.nodes.length → sumTo c0.threads.length (fun t => H t n + getsIn (progAt c t) n) < U32
  acct : ∀ n, n < c0.nodes.length → cntAt c n + putsOn c.trace n = cntAt c0 n + getsOn c.trace n
  remG : ∀ n, getsOn c.trace n + sumTo c0.threads.length (fun t => getsIn (progAt c t) n)
            = sumTo c0.threads.length (fun t => getsIn (progAt c0 t) n)
  remP : ∀ n, putsOn c.trace n + sumTo c0.threads.length (fun t => putsIn (progAt c t) n)
            = sumTo c0.threads.length (fun t => putsIn (progAt c0 t) n)
  dz : ∀ n, n < c0.nodes.length → destroyedAt c n = zeroPutsOn c.trace n
  d1 : ∀ n, n < c0.nodes.length → destroyedAt c n ≤ 1
  dead : ∀ n, n < c0.nodes.length → destroyedAt c n ≠ 0 → cntAt c n = 0
  alive : ∀ n, n < c0.nodes.length → destroyedAt c n = 0 → cntAt c n = 0 → cntAt c0 n = 0
  tr : okTrace c.trace

theorem inv_start {c0 : Cfg} {H0 : Nat → Nat → Nat} (s : Start c0 H0) : Inv c0 c0 H0 where
  nofault := s.nofault
  nthreads := rfl
  nnodes := rfl
  ok := s.ok
  pcs := fun t th h v e => by have := s.pcs t th h; rw [this] at e; cases e
  dom := s.dom
  cnt := s.cnt
  pot := s.bound
  acct := fun n _ => by rw [s.notrace]; rfl
  remG := fun n => by rw [s.notrace]; simp [getsOn]
  remP := fun n => by rw [s.notrace]; simp [putsOn]
  dz := fun n hn => by rw [s.notrace, s.fresh n hn]; rfl
  d1 := fun n hn => by rw [s.fresh n hn]; omega
  dead := fun n hn h => absurd (s.fresh n hn) h
  alive := fun _ _ _ h => h
  tr := by rw [s.notrace]; trivial

/-- references the thread owns to the node after the operation -/
def ownAfter (op : Op) (h : Nat) : Nat :=
  match op with
  | .get _ => h + 1
  | .put _ => h - 1
  | .work _ => h

theorem okProg_cons {h : Nat → Nat} {op : Op} {rest : List Op} (hok : OkProg h (op :: rest)) :
    0 < h op.node ∧ OkProg (upd h op.node (ownAfter op (h op.node))) rest := by
  cases op with
  | get n => exact hok
  | put n => exact hok
  | work n =>
    refine ⟨hok.1, ?_⟩
    have : upd h n (h n) = h := by funext m; simp only [upd]; split <;> simp_all
    simp only [Op.node, ownAfter]; rw [this]; exact hok.2

theorem nodeAfter_cnt (op : Op) (nd : Node) (new : Nat) : (nodeAfter op nd new).cnt = new := by
  cases op <;> simp only [nodeAfter] <;> (try split) <;> rfl

theorem nodeAfter_destroyed (op : Op) (nd : Node) (new : Nat) :
    (nodeAfter op nd new).destroyed = nd.destroyed + (if op = .put op.node ∧ new = 0 then 1 else 0) := by
  cases op with
  | get n => simp [nodeAfter]
  | work n => simp [nodeAfter]
  | put n =>
    simp only [nodeAfter, Op.node]
    by_cases h : new = 0 <;> simp [h]

/-- the arithmetic of one completed update, generic in the operation:
`ig`/`ip` indicate a get / a put on the operation's node -/
theorem newVal_eq (op : Op) (cnt : Nat) (hpos : 0 < cnt) (hlt : cnt + (if op = .get op.node then 1 else 0) < U32) :
    newVal op cnt cnt + (if op = .put op.node then 1 else 0) = cnt + (if op = .get op.node then 1 else 0) := by
  cases op with
  | get n =>
    have h1 : cnt + 1 < U32 := by simpa [Op.node] using hlt
    simp only [newVal, Op.node, Nat.mod_eq_of_lt h1]
    simp
  | put n =>
    have h1 : cnt < U32 := by simpa [Op.node] using hlt
    have h2 : cnt + U32 - 1 = (cnt - 1) + U32 := by omega
    have h3 : cnt - 1 < U32 := by omega
    simp only [newVal, Op.node, h2, Nat.add_mod_right, Nat.mod_eq_of_lt h3]
    simp; omega
  | work n => simp [newVal, Op.node]

theorem ownAfter_eq (op : Op) (h : Nat) (hpos : 0 < h) :
    ownAfter op h + (if op = .put op.node then 1 else 0) = h + (if op = .get op.node then 1 else 0) := by
  cases op with
  | get n => simp [ownAfter, Op.node]
  | put n => simp [ownAfter, Op.node]; omega
  | work n => simp [ownAfter, Op.node]

theorem not_get_of_ne {op : Op} {m : Nat} (h : m ≠ op.node) : ¬ op = .get m := fun e => h (by rw [e]; rfl)
theorem not_put_of_ne {op : Op} {m : Nat} (h : m ≠ op.node) : ¬ op = .put m := fun e => h (by rw [e]; rfl)


/-- moving the program counter of a thread (assert passed) changes nothing the invariant speaks about -/
theorem inv_setPc {c0 c : Cfg} {H : Nat → Nat → Nat} (h : Inv c0 c H) {t : Nat} {th : Thread}
    (hth : c.threads[t]? = some th) : Inv c0 (setPc c t th.prog .checked) H where
  nofault := h.nofault
  nthreads := by simp only [setPc, List.length_set]; exact h.nthreads
  nnodes := h.nnodes
  ok := fun s hs => by rw [progAt_setPc hth]; exact h.ok s hs
  pcs := fun s th' hs v e => by
    simp only [setPc] at hs
    by_cases hst : t = s
    · subst hst
      rw [List.getElem?_set_self (lt_threads hth)] at hs
      cases hs; cases e
    · rw [List.getElem?_set_ne hst] at hs
      exact h.pcs s th' hs v e
  dom := h.dom
  cnt := h.cnt
  pot := fun n hn => by
    have := h.pot n hn
    rwa [sumTo_congr (g := fun s => H s n + getsIn (progAt c s) n) (fun s _ => by rw [progAt_setPc hth])]
  acct := h.acct
  remG := fun n => by
    rw [sumTo_congr (g := fun s => getsIn (progAt c s) n) (fun s _ => by rw [progAt_setPc hth])]
    exact h.remG n
  remP := fun n => by
    rw [sumTo_congr (g := fun s => putsIn (progAt c s) n) (fun s _ => by rw [progAt_setPc hth])]
    exact h.remP n
  dz := h.dz
  d1 := h.d1
  dead := h.dead
  alive := h.alive
  tr := h.tr

/-- ownership after thread `t` completed `op` -/
def ownStep (H : Nat → Nat → Nat) (t : Nat) (op : Op) : Nat → Nat → Nat :=
  fun s m => if s = t ∧ m = op.node then ownAfter op (H t op.node) else H s m

/-- completing an operation on a live node the thread owns a reference to -/
theorem inv_finish {c0 c : Cfg} {H : Nat → Nat → Nat} (h : Inv c0 c H) {t : Nat} {th : Thread}
    {op : Op} {rest : List Op} {nd : Node}
    (hth : c.threads[t]? = some th) (hp : th.prog = op :: rest) (hnd : c.nodes[op.node]? = some nd) :
    Inv c0 (finishOp c t rest op nd nd.cnt) (ownStep H t op) := by
  have htN : t < c0.threads.length := by have := lt_threads hth; rw [h.nthreads] at this; exact this
  have hok : OkProg (H t) (op :: rest) := by have := h.ok t htN; rwa [progAt_of hth, hp] at this
  obtain ⟨hown, hokr⟩ := okProg_cons hok
  obtain ⟨_, hnM⟩ := h.dom t op.node hown
  have hcnt : nd.cnt = sumTo c0.threads.length (fun s => H s op.node) := by
    rw [← cntAt_of hnd]; exact h.cnt _ hnM
  have hle := le_sumTo (fun s => H s op.node) htN
  have hpos : 0 < nd.cnt := by omega
  have hprog : progAt c t = op :: rest := by rw [progAt_of hth, hp]
  have hPt : progAt (finishOp c t rest op nd nd.cnt) t = rest := by rw [progAt_finishOp hth, if_pos rfl]
  have htrace : (finishOp c t rest op nd nd.cnt).trace = ⟨t, op, newVal op nd.cnt nd.cnt⟩ :: c.trace := rfl
  -- potential: references owned + gets still to come
  have hpot := h.pot op.node hnM
  have hpot2 := le_sumTo (fun s => H s op.node + getsIn (progAt c s) op.node) htN
  rw [sumTo_add] at hpot
  have hgc := getsIn_cons op rest op.node
  have hlt : nd.cnt + (if op = .get op.node then 1 else 0) < U32 := by
    have := le_sumTo (fun s => getsIn (progAt c s) op.node) htN
    simp only [hprog] at this
    omega
  have hnew := newVal_eq op nd.cnt hpos hlt
  have hown' := ownAfter_eq op (H t op.node) hown
  have hd0 : nd.destroyed = 0 := by
    have := h.dead op.node hnM
    rw [destroyedAt_of hnd, cntAt_of hnd] at this
    by_cases hz : nd.destroyed = 0
    · exact hz
    · have := this hz; omega
  -- sums of the new ownership map
  have hsumH : ∀ m, sumTo c0.threads.length (fun s => ownStep H t op s m) + (if m = op.node then H t op.node else 0)
      = sumTo c0.threads.length (fun s => H s m) + (if m = op.node then ownAfter op (H t op.node) else 0) := by
    intro m
    by_cases hm : m = op.node
    · subst hm
      have := sumTo_update (N := c0.threads.length) (t := t) (f := fun s => H s op.node)
        (g := fun s => ownStep H t op s op.node) htN (fun s _ hne => by simp [ownStep, hne])
      simp only [ownStep, if_true, and_self] at this ⊢
      simpa using this
    · simp only [hm, if_false, Nat.add_zero]
      exact sumTo_congr (fun s _ => by simp [ownStep, hm])
  refine
    { nofault := h.nofault, nthreads := ?_, nnodes := ?_, ok := ?_, pcs := ?_, dom := ?_, cnt := ?_, pot := ?_,
      acct := ?_, remG := ?_, remP := ?_, dz := ?_, d1 := ?_, dead := ?_, alive := ?_, tr := ?_ }
  · simp only [finishOp, List.length_set]; exact h.nthreads
  · simp only [finishOp, List.length_set]; exact h.nnodes
  · -- ok
    intro s hs
    rw [progAt_finishOp hth]
    by_cases hst : s = t
    · subst hst
      have : ownStep H s op s = upd (H s) op.node (ownAfter op (H s op.node)) := by
        funext m; simp [ownStep, upd]
      rw [if_pos rfl, this]; exact hokr
    · have : ownStep H t op s = H s := by funext m; simp [ownStep, hst]
      rw [if_neg hst, this]; exact h.ok s hs
  · -- pcs
    intro s th' hs v e
    simp only [finishOp] at hs
    by_cases hst : t = s
    · subst hst
      rw [List.getElem?_set_self (lt_threads hth)] at hs
      cases hs; cases e
    · rw [List.getElem?_set_ne hst] at hs
      exact h.pcs s th' hs v e
  · -- dom
    intro s m hpos'
    by_cases hsm : s = t ∧ m = op.node
    · obtain ⟨rfl, rfl⟩ := hsm; exact ⟨htN, hnM⟩
    · simp only [ownStep, if_neg hsm] at hpos'; exact h.dom s m hpos'
  · -- cnt
    intro m hm
    rw [cntAt_finishOp hnd, nodeAfter_cnt]
    have hs := hsumH m
    by_cases hmn : m = op.node
    · subst hmn
      simp only [if_true] at hs ⊢
      omega
    · simp only [if_neg hmn, Nat.add_zero] at hs ⊢
      rw [hs]; exact h.cnt m hm
  · -- pot
    intro m hm
    have hold := h.pot m hm
    by_cases hmn : m = op.node
    · subst hmn
      have hupd := sumTo_update (N := c0.threads.length) (t := t)
        (f := fun s => H s op.node + getsIn (progAt c s) op.node)
        (g := fun s => ownStep H t op s op.node + getsIn (progAt (finishOp c t rest op nd nd.cnt) s) op.node) htN
        (fun s _ hne => by simp only [ownStep, hne, false_and, if_false]; rw [progAt_finishOp hth, if_neg hne])
      have hGt : ownStep H t op t op.node = ownAfter op (H t op.node) := by simp [ownStep]
      rw [hGt, hPt, hprog, hgc] at hupd
      omega
    · have : sumTo c0.threads.length (fun s => ownStep H t op s m + getsIn (progAt (finishOp c t rest op nd nd.cnt) s) m)
          = sumTo c0.threads.length (fun s => H s m + getsIn (progAt c s) m) := by
        apply sumTo_congr
        intro s _
        rw [progAt_finishOp hth]
        by_cases hst : s = t
        · subst hst
          rw [if_pos rfl, hprog, getsIn_cons, if_neg (not_get_of_ne hmn)]
          simp [ownStep, hmn]
        · rw [if_neg hst]; simp [ownStep, hst]
      rw [this]; exact hold
  · -- acct
    intro m hm
    have hold := h.acct m hm
    rw [cntAt_finishOp hnd, nodeAfter_cnt]
    simp only [finishOp, getsOn_cons, putsOn_cons]
    by_cases hmn : m = op.node
    · subst hmn
      rw [cntAt_of hnd] at hold
      simp only [if_true]
      omega
    · rw [if_neg hmn, if_neg (not_get_of_ne hmn), if_neg (not_put_of_ne hmn)]
      exact hold
  · -- remG
    intro m
    have hold := h.remG m
    have hupd := sumTo_update (N := c0.threads.length) (t := t)
      (f := fun s => getsIn (progAt c s) m)
      (g := fun s => getsIn (progAt (finishOp c t rest op nd nd.cnt) s) m) htN
      (fun s _ hne => by rw [progAt_finishOp hth, if_neg hne])
    rw [hPt, hprog, getsIn_cons] at hupd
    rw [htrace, getsOn_cons]
    dsimp only
    omega
  · -- remP
    intro m
    have hold := h.remP m
    have hupd := sumTo_update (N := c0.threads.length) (t := t)
      (f := fun s => putsIn (progAt c s) m)
      (g := fun s => putsIn (progAt (finishOp c t rest op nd nd.cnt) s) m) htN
      (fun s _ hne => by rw [progAt_finishOp hth, if_neg hne])
    rw [hPt, hprog, putsIn_cons] at hupd
    rw [htrace, putsOn_cons]
    dsimp only
    omega
  · -- dz
    intro m hm
    have hold := h.dz m hm
    rw [destroyedAt_finishOp hnd, nodeAfter_destroyed]
    simp only [finishOp, zeroPutsOn_cons]
    by_cases hmn : m = op.node
    · subst hmn
      rw [destroyedAt_of hnd] at hold
      simp only [if_true]; omega
    · have : ¬ (op = .put m ∧ newVal op nd.cnt nd.cnt = 0) := fun e => not_put_of_ne hmn e.1
      rw [if_neg hmn, if_neg this]; exact hold
  · -- d1
    intro m hm
    rw [destroyedAt_finishOp hnd, nodeAfter_destroyed]
    by_cases hmn : m = op.node
    · simp only [if_pos hmn, hd0]; split <;> omega
    · rw [if_neg hmn]; exact h.d1 m hm
  · -- dead
    intro m hm
    rw [destroyedAt_finishOp hnd, nodeAfter_destroyed, cntAt_finishOp hnd, nodeAfter_cnt]
    by_cases hmn : m = op.node
    · simp only [if_pos hmn, hd0]
      intro hne
      by_cases hz : op = .put op.node ∧ newVal op nd.cnt nd.cnt = 0
      · exact hz.2
      · simp [hz] at hne
    · rw [if_neg hmn, if_neg hmn]; exact h.dead m hm
  · -- alive
    intro m hm
    rw [destroyedAt_finishOp hnd, nodeAfter_destroyed, cntAt_finishOp hnd, nodeAfter_cnt]
    by_cases hmn : m = op.node
    · subst hmn
      simp only [if_true, hd0]
      intro hde hz
      exfalso
      by_cases hpz : op = .put op.node
      · rw [if_pos ⟨hpz, hz⟩] at hde; omega
      · simp only [if_neg hpz] at hnew; omega
    · rw [if_neg hmn, if_neg hmn]; exact h.alive m hm
  · -- tr
    refine ⟨?_, h.tr⟩
    have := h.dz op.node hnM
    rw [destroyedAt_of hnd, hd0] at this
    exact this.symm

/-- the asserts at the head of get / put cannot fail for a thread that owns a reference -/
theorem assert_passes {c0 c : Cfg} {H : Nat → Nat → Nat} (h : Inv c0 c H) {t : Nat} {th : Thread}
    {op : Op} {rest : List Op} {nd : Node}
    (hth : c.threads[t]? = some th) (hp : th.prog = op :: rest) (hnd : c.nodes[op.node]? = some nd) :
    assertOk op nd.cnt = true ∧ nd.destroyed = 0 := by
  have htN : t < c0.threads.length := by have := lt_threads hth; rw [h.nthreads] at this; exact this
  have hok : OkProg (H t) (op :: rest) := by have := h.ok t htN; rwa [progAt_of hth, hp] at this
  obtain ⟨hown, _⟩ := okProg_cons hok
  obtain ⟨_, hnM⟩ := h.dom t op.node hown
  have hcnt : nd.cnt = sumTo c0.threads.length (fun s => H s op.node) := by
    rw [← cntAt_of hnd]; exact h.cnt _ hnM
  have hle := le_sumTo (fun s => H s op.node) htN
  have hprog : progAt c t = op :: rest := by rw [progAt_of hth, hp]
  have hpot := h.pot op.node hnM
  rw [sumTo_add] at hpot
  have hg := le_sumTo (fun s => getsIn (progAt c s) op.node) htN
  simp only [hprog, getsIn_cons] at hg
  constructor
  · cases op with
    | get n =>
      simp only [Op.node, if_true] at hg hcnt hle hpot
      simp only [assertOk, decide_eq_true_eq]
      omega
    | put n => simp only [assertOk, decide_eq_true_eq]; simp only [Op.node] at hcnt hle hown; omega
    | work n => rfl
  · have := h.dead op.node hnM
    rw [destroyedAt_of hnd, cntAt_of hnd] at this
    by_cases hz : nd.destroyed = 0
    · exact hz
    · have := this hz; omega

/-- every step of every thread preserves the invariant (atomic semantics) -/
theorem inv_step {c0 c : Cfg} {H : Nat → Nat → Nat} (h : Inv c0 c H) (t : Nat) :
    ∃ H', Inv c0 (step .atomic c t) H' := by
  cases hth : c.threads[t]? with
  | none => exact ⟨H, by rw [step_nothread hth]; exact h⟩
  | some th =>
    cases hp : th.prog with
    | nil => exact ⟨H, by rw [step_done hth hp]; exact h⟩
    | cons op rest =>
      have htN : t < c0.threads.length := by have := lt_threads hth; rw [h.nthreads] at this; exact this
      have hok : OkProg (H t) (op :: rest) := by have := h.ok t htN; rwa [progAt_of hth, hp] at this
      obtain ⟨hown, _⟩ := okProg_cons hok
      obtain ⟨_, hnM⟩ := h.dom t op.node hown
      have hlen : op.node < c.nodes.length := by rw [h.nnodes]; exact hnM
      have hnd : c.nodes[op.node]? = some c.nodes[op.node] := List.getElem?_eq_getElem hlen
      obtain ⟨hass, hd0⟩ := assert_passes h hth hp hnd
      rw [step_live h.nofault hth hp hnd hd0]
      have hfin := inv_finish h hth hp hnd
      have hset : Inv c0 (setPc c t (op :: rest) .checked) H := by
        have := inv_setPc h hth; rwa [hp] at this
      cases op with
      | work n => exact ⟨_, hfin⟩
      | get n =>
        cases hpc : th.pc with
        | start => simp only [stepOp, hass, if_true]; exact ⟨_, hset⟩
        | checked => exact ⟨_, hfin⟩
        | loaded v => exact absurd hpc (h.pcs t th hth v)
      | put n =>
        cases hpc : th.pc with
        | start => simp only [stepOp, hass, if_true]; exact ⟨_, hset⟩
        | checked => exact ⟨_, hfin⟩
        | loaded v => exact absurd hpc (h.pcs t th hth v)

theorem inv_run {c0 c : Cfg} {H : Nat → Nat → Nat} (h : Inv c0 c H) (sched : List Nat) :
    ∃ H', Inv c0 (run .atomic c sched) H' := by
  induction sched generalizing c H with
  | nil => exact ⟨H, h⟩
  | cons t ts ih =>
    obtain ⟨H1, h1⟩ := inv_step h t
    exact ih h1

end JsonC.Threads
