/-
  C16, default mode on documents with extensions, part 2: the element loop of an array (with an
  optional trailing comma).
-/
import JsonC.Lemmas.TokenerXDoc1
namespace JsonC.Tokener
open JsonC Rfc8259 Rfc8259X

section
variable (lc : Libc) (t : Tok) (l : Loc) (hv : NoVal t) (hns : t.strict = false)
include hv hns

/-- default mode: `]` directly after a comma closes the array -/
theorem close_after_sep_array (xs : List JVal) (nm : Option Bytes) (rest : List Level)
    (hs : t.stack = ⟨.eatws, .arrayAfterSep, .arr xs, nm⟩ :: rest) :
    Reaches lc t l [93] { t with stack := ⟨.eatws, .finish, .arr xs, nm⟩ :: rest } l := by
  have hv' := hv; unfold NoVal at hv'
  have hns' : t.flags &&& Generated.tokenerStrict = 0 := by simpa [Tok.strict] using hns
  intro c off rs
  simp [run, peek, hv', feed, fuel, feedN, disp, hs, dEatws, dArray, isWs, setTop, lastOr, Tok.validateUtf8, Tok.strict, hns']

/-- default mode: `}` directly after a comma closes the object -/
theorem close_after_sep_object (kvs : List (Bytes × JVal)) (nm : Option Bytes) (rest : List Level)
    (hs : t.stack = ⟨.eatws, .objectFieldStartAfterSep, .obj kvs, nm⟩ :: rest) :
    Reaches lc t l [125] { t with stack := ⟨.eatws, .finish, .obj kvs, nm⟩ :: rest } l := by
  have hv' := hv; unfold NoVal at hv'
  have hns' : t.flags &&& Generated.tokenerStrict = 0 := by simpa [Tok.strict] using hns
  intro c off rs
  simp [run, peek, hv', feed, fuel, feedN, disp, hs, dEatws, dObjectFieldStart, isWs, setTop, lastOr, Tok.validateUtf8, Tok.strict, hns']

end

theorem trailText_len_none : (trailText none).length = 0 := rfl

/-- the element loop of a non-empty array, an optional trailing comma, and the closing bracket -/
theorem xelems_run (lc : Libc) (es : List (Gap × XDoc × Gap)) (hne : es ≠ []) (ih : ∀ e ∈ es, XGoal lc e.2.1) :
    ∀ (t : Tok) (l : Loc) (sv : St) (_ : sv = .array ∨ sv = .arrayAfterSep) (xs : List JVal) (rest : List Level),
      WF t → t.stack = ⟨.eatws, sv, .arr xs, none⟩ :: rest → NoVal t → t.hs = 0 → l.num = none → t.strict = false →
      xelemsOk es = true → elemsKNF (xelemsErase es) = true →
      rest.length + 1 + elemsNest (xelemsErase es) ≤ t.maxDepth →
      ∀ (tr : Option Gap) (_ : ∀ g, tr = some g → g.ok = true) (c : UInt8) (off : Nat) (rs : Bytes), ∃ t' l',
        t'.stack = ⟨.eatws, .finish, .arr (xs ++ xelemsDenote es), none⟩ :: rest ∧ Frm t t' ∧ l'.num = none ∧
        run lc t l c off (intercalateB 44 (xelemsText es) ++ (trailText tr ++ 93 :: rs)) =
          run lc t' l' 93 (off + (intercalateB 44 (xelemsText es)).length + (trailText tr).length + 1) rs := by
  induction es with
  | nil => exact absurd rfl hne
  | cons e r ihr =>
    obtain ⟨g1, d, g2⟩ := e
    intro t l sv hsv xs rest hwf hs hv hhs hl0 hns hok hknf hdepth tr htr c off rs
    simp only [xelemsOk, Bool.and_eq_true] at hok
    simp only [xelemsErase, elemsKNF, Bool.and_eq_true] at hknf
    simp only [xelemsErase, elemsNest] at hdepth
    have hsv' : (sv = .array ∧ St.arrayAdd = .arrayAdd) ∨ (sv = .arrayAfterSep ∧ St.arrayAdd = .arrayAdd) ∨
        (sv = .objectValue ∧ St.arrayAdd = .objectValueAdd) := by
      rcases hsv with h | h
      · exact Or.inl ⟨h, rfl⟩
      · exact Or.inr (Or.inl ⟨h, rfl⟩)
    have ihd : XGoal lc d := ih (g1, d, g2) (by simp)
    have hden : ∀ ys, xelemsDenote ((g1, d, g2) :: ys) = d.denote :: xelemsDenote ys := by
      intro ys; simp [xelemsDenote]
    cases r with
    | nil =>
      cases tr with
      | none =>
        have e0 : intercalateB 44 (xelemsText [(g1, d, g2)]) ++ (trailText none ++ 93 :: rs) =
            g1.text ++ (d.text ++ (g2.text ++ 93 :: rs)) := by
          simp [intercalateB, xelemsText, trailText]
        obtain ⟨t2, l2, c2, hs2, f2, _, hl2, hrun⟩ := xchild_value lc d ihd g1 g2 t l hwf hv hhs hl0 hns sv .arrayAdd hsv' (.arr xs)
          none rest hs hok.1.1.1 hok.1.2 hok.1.1.2 hknf.1 (by omega) 93 (by simp) rs c off
        have h3 := after_elem_close lc t2 l2 (f2.noVal hv) d.denote none sv xs none rest hs2 c2
          (off + g1.text.length + d.text.length + g2.text.length) rs
        simp only [List.cons_append, List.nil_append, lastOr, List.getLast?_singleton, Option.getD_some, List.length_singleton] at h3
        rw [e0, hrun, h3, hden]
        refine ⟨{ t2 with stack := ⟨.eatws, .finish, .arr (xs ++ [d.denote]), none⟩ :: rest }, l2, by simp [xelemsDenote],
          ⟨f2.md, f2.fl, f2.hs⟩, hl2, ?_⟩
        simp only [intercalateB, xelemsText, List.length_append, trailText, List.length_nil]
        congr 1
        omega
      | some g =>
        have hg := htr g rfl
        have e0 : intercalateB 44 (xelemsText [(g1, d, g2)]) ++ (trailText (some g) ++ 93 :: rs) =
            g1.text ++ (d.text ++ (g2.text ++ 44 :: (g.text ++ 93 :: rs))) := by
          simp [intercalateB, xelemsText, trailText]
        obtain ⟨t2, l2, c2, hs2, f2, _, hl2, hrun⟩ := xchild_value lc d ihd g1 g2 t l hwf hv hhs hl0 hns sv .arrayAdd hsv' (.arr xs)
          none rest hs hok.1.1.1 hok.1.2 hok.1.1.2 hknf.1 (by omega) 44 (by simp) (g.text ++ 93 :: rs) c off
        have h3 := after_elem_comma lc t2 l2 (f2.noVal hv) d.denote none sv xs none rest hs2 c2
          (off + g1.text.length + d.text.length + g2.text.length) (g.text ++ 93 :: rs)
        simp only [List.cons_append, List.nil_append, lastOr, List.getLast?_singleton, Option.getD_some, List.length_singleton] at h3
        let t3 : Tok := { t2 with stack := ⟨.eatws, .arrayAfterSep, .arr (xs ++ [d.denote]), none⟩ :: rest }
        have f3 : Frm t t3 := ⟨f2.md, f2.fl, f2.hs⟩
        have hwf3 : WF t3 := wf_restack hwf hs rfl f2.md (topOk_container _ _ (Or.inl ⟨rfl, _, rfl⟩))
          (posOk_of_ne (by simp) (by simp) (by simp))
        obtain ⟨t4, c4, hs4, f4, _, hr4⟩ := run_gap lc t3 l2 .arrayAfterSep (.arr (xs ++ [d.denote])) none rest hwf3 rfl
          (f3.noVal hv) f3.hs g hg (Or.inl (by rw [f3.strict]; exact hns)) 44
          (off + g1.text.length + d.text.length + g2.text.length + 1) (93 :: rs)
        have f4' : Frm t t4 := f3.trans f4
        have h5 := close_after_sep_array lc t4 l2 (f4'.noVal hv) (by rw [f4'.strict]; exact hns) (xs ++ [d.denote]) none rest hs4 c4
          (off + g1.text.length + d.text.length + g2.text.length + 1 + g.text.length) rs
        simp only [List.cons_append, List.nil_append, lastOr, List.getLast?_singleton, Option.getD_some, List.length_singleton] at h5
        rw [e0, hrun, h3, hr4, h5]
        refine ⟨{ t4 with stack := ⟨.eatws, .finish, .arr (xs ++ [d.denote]), none⟩ :: rest }, l2, by simp [xelemsDenote],
          ⟨f4'.md, f4'.fl, f4'.hs⟩, hl2, ?_⟩
        simp only [intercalateB, xelemsText, List.length_append, trailText, List.length_cons]
        congr 1
        omega
    | cons e2 r2 =>
      have e0 : intercalateB 44 (xelemsText ((g1, d, g2) :: e2 :: r2)) ++ (trailText tr ++ 93 :: rs) =
          g1.text ++ (d.text ++ (g2.text ++ 44 :: (intercalateB 44 (xelemsText (e2 :: r2)) ++ (trailText tr ++ 93 :: rs)))) := by
        obtain ⟨a1, a2, a3⟩ := e2
        simp [intercalateB, xelemsText]
      obtain ⟨t2, l2, c2, hs2, f2, _, hl2, hrun⟩ := xchild_value lc d ihd g1 g2 t l hwf hv hhs hl0 hns sv .arrayAdd hsv' (.arr xs)
        none rest hs hok.1.1.1 hok.1.2 hok.1.1.2 hknf.1 (by omega) 44 (by simp)
        (intercalateB 44 (xelemsText (e2 :: r2)) ++ (trailText tr ++ 93 :: rs)) c off
      have h3 := after_elem_comma lc t2 l2 (f2.noVal hv) d.denote none sv xs none rest hs2 c2
        (off + g1.text.length + d.text.length + g2.text.length) (intercalateB 44 (xelemsText (e2 :: r2)) ++ (trailText tr ++ 93 :: rs))
      simp only [List.cons_append, List.nil_append, lastOr, List.getLast?_singleton, Option.getD_some, List.length_singleton] at h3
      let t3 : Tok := { t2 with stack := ⟨.eatws, .arrayAfterSep, .arr (xs ++ [d.denote]), none⟩ :: rest }
      have f3 : Frm t t3 := ⟨f2.md, f2.fl, f2.hs⟩
      have hwf3 : WF t3 := wf_restack hwf hs rfl f2.md (topOk_container _ _ (Or.inl ⟨rfl, _, rfl⟩))
        (posOk_of_ne (by simp) (by simp) (by simp))
      obtain ⟨t4, l4, hs4, f4, hl4, hrun4⟩ := ihr (by simp) (fun e he => ih e (by simp [he])) t3 l2 .arrayAfterSep (Or.inr rfl)
        (xs ++ [d.denote]) rest hwf3 rfl (f3.noVal hv) f3.hs hl2 (by rw [f3.strict]; exact hns) hok.2 hknf.2
        (by rw [f3.md]; omega) tr htr 44 (off + g1.text.length + d.text.length + g2.text.length + 1) rs
      rw [e0, hrun, h3, hrun4]
      refine ⟨t4, l4, ?_, f3.trans f4, hl4, ?_⟩
      · rw [hs4, hden]; simp
      · obtain ⟨a1, a2, a3⟩ := e2
        simp only [intercalateB, xelemsText, List.length_append, List.length_cons]
        congr 1
        omega

end JsonC.Tokener
