/-
  Helper lemmas for C12: json_pointer_set_single_path / json_pointer_set / json_pointer_setf
  against their token-level reading (`setToks`), and that reading against the specification's set.
-/
import JsonC.Lemmas.PointerGet

namespace JsonC.Pointer
open JsonC Generated Rfc6901

/-! ### token-level reading of the C code -/

/-- json_pointer_set_single_path on the last token: the new parent, the child's index and the number
of nodes released, or the errno left behind (`.none`: errno not written) -/
def setLastC (mem : Nat → Bool) (parent : JVal) (tok : Bytes) (v : JVal) : Errno ⊕ (JVal × Nat × Nat) :=
  match parent with
  | .arr xs =>
    if tok = [45] then
      match arrayAdd mem xs v .none with
      | .inl e => .inl e
      | .inr xs' => .inr (.arr xs', xs.length, 0)
    else
      match isValidIndex tok with
      | none => .inl .EINVAL
      | some (idx, erange) =>
        match arrayPutIdx mem xs idx v (if erange then .ERANGE else .none) with
        | .inl e => .inl e
        | .inr (xs', freed) => .inr (.arr xs', idx, freed)
  | .obj kvs =>
    let r := objectAdd kvs (unescape tok) v
    .inr (.obj r.1, r.2.1, r.2.2)
  | _ => .inl .ENOENT

def mkSetRes (root : JVal) (ppos : List Nat) : Errno ⊕ (JVal × Nat × Nat) → SetRes
  | .inl e => SetRes.fail root e
  | .inr (np, i, freed) =>
    { rc := 0, tree := replaceAt root ppos np, owned := true, loc := some (ppos ++ [i]), freed := freed }

/-- json_pointer_set on the tokens `init ++ [last]` of a pointer "/…" -/
def setToks (mem : Nat → Bool) (t : JVal) (init : List Bytes) (last : Bytes) (v : JVal) : SetRes :=
  match init with
  | [] => mkSetRes t [] (setLastC mem t last v)
  | _ =>
    if (walkC t init []).rc ≠ 0 then SetRes.fail t (walkC t init []).errno
    else mkSetRes t (walkC t init []).pos (setLastC mem (walkC t init []).val last v)

/-- json_pointer_set on a pointer -/
def setTok (mem : Nat → Bool) (t : JVal) (p : Bytes) (v : JVal) : SetRes :=
  match p with
  | [] => { rc := 0, tree := v, owned := true, loc := some [], freed := liveNodes t }
  | c :: body =>
    if c ≠ 47 then SetRes.fail t .EINVAL
    else setToks mem t (splitSlash body).dropLast ((splitSlash body).getLast?.getD []) v

/-! ### json_pointer_set_single_path -/

theorem isDashC_spec (pre tok post : Bytes) (h0 : (0 : UInt8) ∉ tok) (path : Nat) (hp : path = pre.length) :
    isDashC (pre ++ tok ++ 0 :: post) path = .ok (decide (tok = [45])) := by
  subst hp
  match tok, h0 with
  | [], _ =>
    have : rd (pre ++ [] ++ 0 :: post) pre.length "path[0]" = .ok 0 := by
      simpa using rd_mid pre 0 post pre.length rfl "path[0]"
    simp only [isDashC, this, Outcome.bind_ok]
    rfl
  | c :: rest, h0 =>
    have h1 : rd (pre ++ (c :: rest) ++ 0 :: post) pre.length "path[0]" = .ok c := by
      have := rd_mid pre c (rest ++ 0 :: post) pre.length rfl "path[0]"
      simpa using this
    simp only [isDashC, h1, Outcome.bind_ok]
    by_cases hc : c = 45
    · subst hc
      rw [if_pos rfl]
      match rest, h0 with
      | [], _ =>
        have h2 : rd (pre ++ [45] ++ 0 :: post) (pre.length + 1) "path[1]" = .ok 0 :=
          rd_mid (pre ++ [45]) 0 post _ (by simp) _
        simp only [h2, Outcome.bind_ok]; rfl
      | d :: rest', h0 =>
        have hd : d ≠ 0 := by intro e; apply h0; simp [e]
        have h2 : rd (pre ++ (45 :: d :: rest') ++ 0 :: post) (pre.length + 1) "path[1]" = .ok d := by
          have := rd_mid (pre ++ [45]) d (rest' ++ 0 :: post) (pre.length + 1) (by simp) "path[1]"
          simpa using this
        simp only [h2, Outcome.bind_ok, Outcome.pure_eq]
        have : (d == 0) = false := by simpa using hd
        rw [this]; simp
    · rw [if_neg hc]
      have : ¬ (c :: rest = [45]) := by intro e; injection e with e _; exact hc e
      simp [this]

theorem setSinglePath_spec (mem : Nat → Bool) (root : JVal) (ppos : List Nat) (parent : JVal)
    (pre tok post : Bytes) (h0 : (0 : UInt8) ∉ tok) (path : Nat) (hp : path = pre.length) (v : JVal) :
    setSinglePath mem root ppos parent (pre ++ tok ++ 0 :: post) path v
      = .ok (mkSetRes root ppos (setLastC mem parent tok v)) := by
  cases parent with
  | arr xs =>
    simp only [setSinglePath, isDashC_spec pre tok post h0 path hp, Outcome.bind_ok, setLastC]
    by_cases hd : tok = [45]
    · simp only [hd, decide_true, if_true]
      cases arrayAdd mem xs v .none with
      | inl e => rfl
      | inr xs' => rfl
    · simp only [hd, decide_false, if_false, Bool.false_eq_true]
      rw [cstrAt_mid pre tok post h0 path hp]
      simp only [Outcome.bind_ok]
      cases isValidIndex tok with
      | none => rfl
      | some r =>
        obtain ⟨idx, er⟩ := r
        simp only []
        cases arrayPutIdx mem xs idx v (if er = true then Errno.ERANGE else Errno.none) with
        | inl e => rfl
        | inr r2 => obtain ⟨xs', fr⟩ := r2; rfl
  | obj kvs =>
    obtain ⟨junk, hun, _⟩ := unescapeC_spec ptrSetUnescape rfl [] tok [] h0 0 rfl
    have hun' : unescapeC ptrSetUnescape (tok ++ [0]) 0 = .ok (unescape tok ++ 0 :: junk) := by
      simpa using hun
    have hk : cstrAt (unescape tok ++ 0 :: junk) 0 "json_object_object_add(parent, key, value)" = .ok (unescape tok) := by
      have := cstrAt_mid [] (unescape tok) junk (unescape_no_nul tok h0) 0 rfl "json_object_object_add(parent, key, value)"
      simpa using this
    simp only [setSinglePath, cstrAt_mid pre tok post h0 path hp, Outcome.bind_ok, hun', hk, setLastC, mkSetRes]
    rfl
  | _ => rfl

/-! ### json_pointer_set / json_pointer_setf -/

theorem splitSlash_append_last (a b : Bytes) (hb : (47 : UInt8) ∉ b) :
    splitSlash (a ++ 47 :: b) = splitSlash a ++ [b] := by
  induction a with
  | nil => simp [splitSlash, splitSlash_noslash b hb]
  | cons c a ih =>
    rw [List.cons_append, splitSlash, splitSlash, ih]
    by_cases hc : c = 47
    · rw [if_pos hc, if_pos hc]; rfl
    · rw [if_neg hc, if_neg hc]
      obtain ⟨t, ts, h⟩ := splitSlash_ne_nil a
      rw [h]; rfl

theorem setToks_of_walk (mem : Nat → Bool) (t : JVal) (init : List Bytes) (hne : init ≠ []) (last : Bytes) (v : JVal) :
    setToks mem t init last v =
      if (walkC t init []).rc ≠ 0 then SetRes.fail t (walkC t init []).errno
      else mkSetRes t (walkC t init []).pos (setLastC mem (walkC t init []).val last v) := by
  cases init with
  | nil => exact absurd rfl hne
  | cons a b => rfl

theorem dropLast_snoc {α : Type} (l : List α) (x : α) : (l ++ [x]).dropLast = l := by
  simp

theorem getLast?_snoc {α : Type} (l : List α) (x : α) : (l ++ [x]).getLast? = some x := by
  simp

/-- json_pointer_set = its token-level reading, for every document, value and NUL-free path -/
theorem set_eq (mem : Nat → Bool) (t : JVal) (p : Bytes) (v : JVal) (h0 : (0 : UInt8) ∉ p) :
    set mem t p v = .ok (setTok mem t p v) := by
  match p, h0 with
  | [], _ => rfl
  | c :: body, h0 =>
    have hc0 : c ≠ 0 := by intro e; apply h0; simp [e]
    have h0b : (0 : UInt8) ∉ body := by intro e; apply h0; simp [e]
    have hrd : rd ((c :: body) ++ [0]) 0 "path[0]" = .ok c := rfl
    simp only [set, hrd, Outcome.bind_ok, if_neg hc0, setTok]
    by_cases hc : c = 47
    · subst hc
      have hcs : cstrAt ((47 :: body) ++ [0]) 0 "strrchr(path, '/')" = .ok (47 :: body) := by
        have := cstrAt_mid [] (47 :: body) [] h0 0 rfl "strrchr(path, '/')"
        simpa using this
      simp only [ne_eq, not_true_eq_false, if_false, hcs, Outcome.bind_ok]
      rcases split_last 47 body with hns | ⟨a, b, hbody, hnb⟩
      · have hl : lastIdxOfByte 47 (47 :: body) = some 0 := by
          have := lastIdxOfByte_append 47 [] body hns
          simpa using this
        simp only [hl, if_true]
        have hsp := setSinglePath_spec mem t [] t [47] body [] h0b 1 rfl v
        have hshape : [47] ++ body ++ [0] = (47 :: body) ++ [0] := by simp
        rw [hshape] at hsp
        rw [hsp, splitSlash_noslash body hns]
        rfl
      · have h0a : (0 : UInt8) ∉ a := by intro e; apply h0b; rw [hbody]; simp [e]
        have h0bb : (0 : UInt8) ∉ b := by intro e; apply h0b; rw [hbody]; simp [e]
        have hl : lastIdxOfByte 47 (47 :: body) = some (a.length + 1) := by
          have := lastIdxOfByte_append 47 (47 :: a) b hnb
          rw [hbody]; simpa using this
        simp only [hl]
        rw [if_neg (by omega)]
        have hw : wr ((47 :: body) ++ [0]) (a.length + 1) 0 "path_copy[endp - path] = '\\0'"
            = .ok ((47 :: a) ++ 0 :: (b ++ [0])) := by
          have := wr_mid (47 :: a) 47 0 (b ++ [0]) (a.length + 1) (by simp) "path_copy[endp - path] = '\\0'"
          rw [hbody]; simpa using this
        simp only [hw, Outcome.bind_ok]
        have hg := getRecursive_walk ((47 :: a) ++ 0 :: (b ++ [0])).length t [] a (b ++ [0]) [] h0a (by simp; omega)
        have hshape : [] ++ 47 :: (a ++ 0 :: (b ++ [0])) = (47 :: a) ++ 0 :: (b ++ [0]) := by simp
        rw [hshape] at hg
        simp only [List.length_nil] at hg
        rw [hg]
        simp only [Outcome.bind_ok]
        have hne : splitSlash a ≠ [] := by
          obtain ⟨x, xs, h⟩ := splitSlash_ne_nil a; rw [h]; simp
        rw [hbody, splitSlash_append_last a b hnb, dropLast_snoc, getLast?_snoc, Option.getD_some,
          setToks_of_walk mem t (splitSlash a) hne b v]
        by_cases hrc : (walkC t (splitSlash a) []).rc ≠ 0
        · rw [if_pos hrc, if_pos hrc]; rfl
        · rw [if_neg hrc, if_neg hrc]
          have hsp := setSinglePath_spec mem t (walkC t (splitSlash a) []).pos (walkC t (splitSlash a) []).val
            (47 :: a ++ [47]) b [] h0bb (a.length + 1 + 1) (by simp) v
          have hshape2 : (47 :: a ++ [47]) ++ b ++ [0] = (47 :: (a ++ 47 :: b)) ++ [0] := by simp
          rw [hshape2] at hsp
          exact hsp
    · simp only [ne_eq, hc, not_false_eq_true, if_true]
      rfl

/-- json_pointer_setf = the same token-level reading, on the formatted string -/
theorem setf_eq (mem : Nat → Bool) (t : JVal) (out : Bytes) (v : JVal) (h0 : (0 : UInt8) ∉ out) :
    setf mem t out v = .ok (setTok mem t out v) := by
  match out, h0 with
  | [], _ => rfl
  | c :: body, h0 =>
    have hc0 : c ≠ 0 := by intro e; apply h0; simp [e]
    have h0b : (0 : UInt8) ∉ body := by intro e; apply h0; simp [e]
    have hrd : rd ((c :: body) ++ [0]) 0 "path_copy[0]" = .ok c := rfl
    simp only [setf, hrd, Outcome.bind_ok, if_neg hc0, setTok]
    by_cases hc : c = 47
    · subst hc
      have hcs : cstrAt ((47 :: body) ++ [0]) 0 "strrchr(path_copy, '/')" = .ok (47 :: body) := by
        have := cstrAt_mid [] (47 :: body) [] h0 0 rfl "strrchr(path_copy, '/')"
        simpa using this
      simp only [ne_eq, not_true_eq_false, if_false, hcs, Outcome.bind_ok]
      rcases split_last 47 body with hns | ⟨a, b, hbody, hnb⟩
      · have hl : lastIdxOfByte 47 (47 :: body) = some 0 := by
          have := lastIdxOfByte_append 47 [] body hns
          simpa using this
        simp only [hl, if_true]
        have hsp := setSinglePath_spec mem t [] t [47] body [] h0b (0 + 1) rfl v
        have hshape : [47] ++ body ++ [0] = (47 :: body) ++ [0] := by simp
        rw [hshape] at hsp
        rw [hsp, splitSlash_noslash body hns]
        rfl
      · have h0a : (0 : UInt8) ∉ a := by intro e; apply h0b; rw [hbody]; simp [e]
        have h0bb : (0 : UInt8) ∉ b := by intro e; apply h0b; rw [hbody]; simp [e]
        have hl : lastIdxOfByte 47 (47 :: body) = some (a.length + 1) := by
          have := lastIdxOfByte_append 47 (47 :: a) b hnb
          rw [hbody]; simpa using this
        simp only [hl]
        rw [if_neg (by omega)]
        have hw : wr ((47 :: body) ++ [0]) (a.length + 1) 0 "*endp = '\\0'"
            = .ok ((47 :: a) ++ 0 :: (b ++ [0])) := by
          have := wr_mid (47 :: a) 47 0 (b ++ [0]) (a.length + 1) (by simp) "*endp = '\\0'"
          rw [hbody]; simpa using this
        simp only [hw, Outcome.bind_ok]
        have hg := getRecursive_walk ((47 :: a) ++ 0 :: (b ++ [0])).length t [] a (b ++ [0]) [] h0a (by simp; omega)
        have hshape : [] ++ 47 :: (a ++ 0 :: (b ++ [0])) = (47 :: a) ++ 0 :: (b ++ [0]) := by simp
        rw [hshape] at hg
        simp only [List.length_nil] at hg
        rw [hg]
        simp only [Outcome.bind_ok]
        have hne : splitSlash a ≠ [] := by
          obtain ⟨x, xs, h⟩ := splitSlash_ne_nil a; rw [h]; simp
        rw [hbody, splitSlash_append_last a b hnb, dropLast_snoc, getLast?_snoc, Option.getD_some,
          setToks_of_walk mem t (splitSlash a) hne b v]
        by_cases hrc : (walkC t (splitSlash a) []).rc ≠ 0
        · rw [if_pos hrc, if_pos hrc]; rfl
        · rw [if_neg hrc, if_neg hrc]
          have hsp := setSinglePath_spec mem t (walkC t (splitSlash a) []).pos (walkC t (splitSlash a) []).val
            (47 :: a ++ [0]) b [] h0bb (a.length + 1 + 1) (by simp) v
          have hshape2 : (47 :: a ++ [0]) ++ b ++ [0] = (47 :: a) ++ 0 :: (b ++ [0]) := by simp
          rw [hshape2] at hsp
          exact hsp
    · simp only [ne_eq, hc, not_false_eq_true, if_true]
      rfl

end JsonC.Pointer
