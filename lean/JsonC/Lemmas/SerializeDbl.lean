/-
  C02 helper lemmas, part 4: doubles.  The post-processing of the `%.17g` text on the 128-byte
  buffer (comma→point, looks_numeric, ".0" suffix, NOZERO trimming, truncation) for every text of
  the shape `g17Shape`: no fault, and the bytes appended are the RFC number `numOfG17 t` — the text
  itself, with ".0" appended when it has neither fraction nor exponent; NOZERO changes nothing.
-/
import JsonC.Lemmas.SerializeNum

namespace JsonC.Serialize
open JsonC Generated SerSpec Rfc8259

/-! ### strchr -/

theorem strchr_none {s : Bytes} {c : UInt8} (h : c ∉ s) : strchr s c = none := by
  unfold strchr
  have : s.takeWhile (· != c) = s := by
    apply takeWhile_all
    intro x hx
    simp only [bne_iff_ne, ne_eq]
    intro e; subst e; exact h hx
  simp [this]

theorem strchr_some {a b : Bytes} {c : UInt8} (h : c ∉ a) : strchr (a ++ c :: b) c = some a.length := by
  unfold strchr
  have : (a ++ c :: b).takeWhile (· != c) = a := by
    induction a with
    | nil => simp
    | cons x r ih =>
      have hx : x ≠ c := fun e => h (by simp [e])
      simp only [List.cons_append, List.takeWhile_cons, bne_iff_ne, ne_eq, hx, not_false_eq_true, if_true]
      rw [ih (fun hm => h (by simp [hm]))]
  simp [this]

/-! ### digit bytes -/

theorem digit_byte_facts : ∀ d, d < 10 →
    ((UInt8.ofNat (48 + d) == 101) = false ∧ (UInt8.ofNat (48 + d) == 69) = false ∧
     ((UInt8.ofNat (48 + d) != 48) = decide (d ≠ 0)) ∧ isDigitB (UInt8.ofNat (48 + d)) = true) := by
  decide

theorem digitsText_not_mem {ds : List Nat} (h : ∀ d ∈ ds, d < 10) (c : UInt8) (hc : c < 48 ∨ 57 < c) :
    c ∉ digitsText ds := by
  intro hm
  have := digitsText_mem h c hm
  rcases hc with hc | hc
  · exact absurd this.1 (UInt8.not_le.mpr hc)
  · exact absurd this.2 (UInt8.not_le.mpr hc)

theorem digitsOk_all {ds : List Nat} (h : digitsOk ds = true) : ∀ d ∈ ds, d < 10 := by
  simp only [digitsOk, Bool.and_eq_true, List.all_eq_true, decide_eq_true_eq] at h
  exact h.2

theorem digitsOk_ne_nil {ds : List Nat} (h : digitsOk ds = true) : ds ≠ [] := by
  intro e; subst e; simp [digitsOk] at h

/-! ### the NOZERO scan -/

/-- position of the last non-zero digit (or the start value `p`) -/
def lastNZ : List Nat → Nat → Nat → Nat
  | [], p, _ => p
  | d :: r, p, q => lastNZ r (if d ≠ 0 then q else p) (q + 1)

theorem scanZeros_digits : ∀ (ds : List Nat) (rest : Bytes) (p q : Nat), (∀ d ∈ ds, d < 10) →
    (rest = [] ∨ ∃ r, rest = 101 :: r) →
    scanZeros (digitsText ds ++ rest) p q = (lastNZ ds p q, q + ds.length) := by
  intro ds
  induction ds with
  | nil =>
    intro rest p q _ hr
    rcases hr with rfl | ⟨r, rfl⟩ <;> simp [digitsText, scanZeros, lastNZ]
  | cons d ds ih =>
    intro rest p q hd hr
    have hlt := hd d (by simp)
    obtain ⟨f1, f2, f3, _⟩ := digit_byte_facts d hlt
    have : digitsText (d :: ds) ++ rest = UInt8.ofNat (48 + d) :: (digitsText ds ++ rest) := by simp [digitsText, digitByte]
    rw [this, scanZeros]
    simp only [f1, f2, Bool.or_self, Bool.false_eq_true, if_false, f3]
    rw [ih rest _ _ (fun x hx => hd x (by simp [hx])) hr]
    simp only [lastNZ, List.length_cons, decide_eq_true_eq]
    congr 1; omega

theorem lastNZ_last : ∀ (ds : List Nat) (p q : Nat), ds ≠ [] → ds.getLast? ≠ some 0 →
    lastNZ ds p q = q + ds.length - 1 := by
  intro ds
  induction ds with
  | nil => intro p q h; exact absurd rfl h
  | cons d r ih =>
    intro p q _ hl
    cases r with
    | nil =>
      have : d ≠ 0 := by simpa using hl
      simp [lastNZ, this]
    | cons d' r' =>
      rw [lastNZ, ih _ _ (by simp) (by simpa [List.getLast?_cons_cons] using hl)]
      simp; omega

theorem lastNZ_shape (f : List Nat) (hne : f ≠ []) (h : lastNonZeroOrSingle f = true) :
    lastNZ f 0 0 + 1 = f.length := by
  simp only [lastNonZeroOrSingle, Bool.or_eq_true, beq_iff_eq, bne_iff_ne, ne_eq] at h
  rcases h with h | h
  · match f, h with
    | [d], _ => by_cases hd : d = 0 <;> simp [lastNZ, hd]
  · rw [lastNZ_last f 0 0 hne h]
    have : f.length ≠ 0 := by simpa using hne
    omega

/-! ### the text of an RFC number -/

theorem numOfText_some {t : Bytes} {n : Num} (h : numOfText t = some n) : n.ok = true ∧ n.text = t := by
  unfold numOfText at h
  split at h
  · split at h
    · rename_i hc
      simp only [Bool.and_eq_true, beq_iff_eq] at hc
      cases h; exact hc
    · cases h
  · cases h

theorem Num.text_parts (n : Num) : n.text = signByte n.neg ++ digitsText n.int ++ fracText n.frac ++ expText n.exp := rfl

structure NumFacts (n : Num) : Prop where
  intOk : ∀ d ∈ n.int, d < 10
  intNe : n.int ≠ []
  fracOk : ∀ f, n.frac = some f → (∀ d ∈ f, d < 10) ∧ f ≠ []
  expOk : ∀ up sg e, n.exp = some (up, sg, e) → (∀ d ∈ e, d < 10) ∧ e ≠ []

theorem numFacts {n : Num} (h : n.ok = true) : NumFacts n := by
  unfold Num.ok at h
  simp only [Bool.and_eq_true] at h
  obtain ⟨⟨⟨h1, _⟩, h3⟩, h4⟩ := h
  refine ⟨digitsOk_all h1, digitsOk_ne_nil h1, ?_, ?_⟩
  · intro f hf; rw [hf] at h3; exact ⟨digitsOk_all h3, digitsOk_ne_nil h3⟩
  · intro up sg e he; rw [he] at h4; exact ⟨digitsOk_all h4, digitsOk_ne_nil h4⟩

theorem signText_bytes (sg : Option Bool) : ∀ b ∈ signText sg, b = 45 ∨ b = 43 := by
  intro b hb
  rcases sg with _ | _ | _ <;> simp [signText] at hb <;> simp [hb]

/-- every byte of a number text is one of `- + . e E 0-9` -/
theorem num_text_bytes {n : Num} (h : n.ok = true) : ∀ b ∈ n.text,
    b = 45 ∨ b = 43 ∨ b = 46 ∨ b = 101 ∨ b = 69 ∨ (48 ≤ b ∧ b ≤ 57) := by
  have F := numFacts h
  intro b hb
  rw [Num.text_parts] at hb
  simp only [List.mem_append] at hb
  rcases hb with ((hb | hb) | hb) | hb
  · unfold signByte at hb; split at hb
    · simp at hb; simp [hb]
    · cases hb
  · exact Or.inr (Or.inr (Or.inr (Or.inr (Or.inr (digitsText_mem F.intOk b hb)))))
  · cases hf : n.frac with
    | none => rw [hf] at hb; cases hb
    | some f =>
      rw [hf] at hb
      simp only [fracText, List.mem_cons] at hb
      rcases hb with hb | hb
      · simp [hb]
      · exact Or.inr (Or.inr (Or.inr (Or.inr (Or.inr (digitsText_mem (F.fracOk f hf).1 b hb)))))
  · cases he : n.exp with
    | none => rw [he] at hb; cases hb
    | some x =>
      obtain ⟨up, sg, e⟩ := x
      rw [he] at hb
      simp only [expText, List.mem_cons, List.mem_append] at hb
      rcases hb with hb | hb | hb
      · cases up <;> simp at hb <;> simp [hb]
      · rcases signText_bytes sg b hb with e1 | e1 <;> simp [e1]
      · exact Or.inr (Or.inr (Or.inr (Or.inr (Or.inr (digitsText_mem (F.expOk up sg e he).1 b hb)))))

theorem num_text_not_mem {n : Num} (h : n.ok = true) (c : UInt8)
    (hc : c ≠ 45 ∧ c ≠ 43 ∧ c ≠ 46 ∧ c ≠ 101 ∧ c ≠ 69 ∧ (c < 48 ∨ 57 < c)) : c ∉ n.text := by
  intro hm
  rcases num_text_bytes h c hm with e | e | e | e | e | e
  · exact hc.1 e
  · exact hc.2.1 e
  · exact hc.2.2.1 e
  · exact hc.2.2.2.1 e
  · exact hc.2.2.2.2.1 e
  · rcases hc.2.2.2.2.2 with h1 | h1
    · exact absurd e.1 (UInt8.not_le.mpr h1)
    · exact absurd e.2 (UInt8.not_le.mpr h1)

theorem num_text_no_nul {n : Num} (h : n.ok = true) : 0 ∉ n.text :=
  num_text_not_mem h 0 (by decide)
theorem num_text_no_esc {n : Num} (h : n.ok = true) : 27 ∉ n.text :=
  num_text_not_mem h 27 (by decide)
theorem num_text_no_comma {n : Num} (h : n.ok = true) : 44 ∉ n.text :=
  num_text_not_mem h 44 (by decide)

/-! ### the post-processing steps on a number text -/

theorem head_digits {ds : List Nat} (h : ∀ d ∈ ds, d < 10) (hne : ds ≠ []) (rest : Bytes) :
    isDigitB ((digitsText ds ++ rest).headD 0) = true := by
  cases ds with
  | nil => exact absurd rfl hne
  | cons d r =>
    simp only [digitsText, digitByte, List.map_cons, List.cons_append, List.headD_cons]
    exact (digit_byte_facts d (h d (by simp))).2.2.2

/-- looks_numeric holds for every RFC number text -/
theorem looksNumeric_num {n : Num} (hok : n.ok = true) : looksNumeric n.text.length n.text = true := by
  have F := numFacts hok
  unfold looksNumeric
  rw [Num.text_parts]
  unfold signByte
  by_cases hneg : n.neg = true
  · simp only [hneg, if_true, List.append_assoc, List.cons_append, List.nil_append, List.headD_cons, List.drop_succ_cons, List.drop_zero]
    have := head_digits F.intOk F.intNe (fracText n.frac ++ expText n.exp)
    simp only [this, Bool.and_true]
    have hl : (digitsText n.int).length ≥ 1 := by
      have := F.intNe
      cases hi : n.int with
      | nil => exact absurd hi this
      | cons _ _ => simp [digitsText]
    simp; omega
  · simp only [hneg, Bool.false_eq_true, if_false, List.nil_append, List.append_assoc]
    rw [head_digits F.intOk F.intNe]; rfl

theorem sign_not_mem (n : Num) (c : UInt8) (hc : c ≠ 45) : c ∉ signByte n.neg := by
  unfold signByte; split <;> simp [hc]

theorem exp_not_mem_46 {n : Num} (F : NumFacts n) : 46 ∉ expText n.exp := by
  cases he : n.exp with
  | none => simp [expText]
  | some x =>
    obtain ⟨up, sg, e⟩ := x
    have := digitsText_not_mem (F.expOk up sg e he).1 46 (by decide)
    cases up <;> rcases sg with _ | _ | _ <;> simp [expText, signText, this]

/-- position of the decimal point -/
theorem strchr_point {n : Num} (F : NumFacts n) :
    strchr n.text 46 = (match n.frac with | none => none | some _ => some (signByte n.neg ++ digitsText n.int).length) := by
  rw [Num.text_parts]
  have h1 : 46 ∉ signByte n.neg ++ digitsText n.int := by
    simp only [List.mem_append, not_or]
    exact ⟨sign_not_mem n 46 (by decide), digitsText_not_mem F.intOk 46 (by decide)⟩
  cases hf : n.frac with
  | none =>
    apply strchr_none
    simp only [fracText, List.append_nil, List.mem_append, not_or]
    simp only [List.mem_append, not_or] at h1
    exact ⟨h1, exp_not_mem_46 F⟩
  | some f =>
    simp only [fracText, List.append_assoc, List.cons_append]
    rw [← List.append_assoc]
    exact strchr_some h1

/-- an `e` is found exactly when there is an exponent (written with a lower-case e) -/
theorem strchr_e {n : Num} (F : NumFacts n) (hlow : ∀ up sg e, n.exp = some (up, sg, e) → up = false) :
    (strchr n.text 101).isNone = n.exp.isNone := by
  rw [Num.text_parts]
  have h1 : 101 ∉ signByte n.neg ++ digitsText n.int ++ fracText n.frac := by
    simp only [List.mem_append, not_or]
    refine ⟨⟨sign_not_mem n 101 (by decide), digitsText_not_mem F.intOk 101 (by decide)⟩, ?_⟩
    cases hf : n.frac with
    | none => simp [fracText]
    | some f =>
      have := digitsText_not_mem (F.fracOk f hf).1 101 (by decide)
      simp [fracText, this]
  cases he : n.exp with
  | none =>
    simp only [expText, List.append_nil, Option.isNone_none]
    rw [strchr_none h1]; rfl
  | some x =>
    obtain ⟨up, sg, e⟩ := x
    have := hlow up sg e he
    subst this
    simp only [expText, Bool.false_eq_true, if_false, Option.isNone_some]
    rw [strchr_some h1]; rfl



theorem drop_after (A R : Bytes) (c : UInt8) : (A ++ c :: R).drop (A.length + 1) = R := by
  rw [show A ++ c :: R = (A ++ [c]) ++ R by simp]
  rw [List.drop_append_of_le_length (by simp)]
  simp

theorem take_drop_id (l : Bytes) (k : Nat) : l.take k ++ l.drop k = l := List.take_append_drop k l

theorem expText_head {n : Num} (hlow : ∀ up sg e, n.exp = some (up, sg, e) → up = false) :
    expText n.exp = [] ∨ ∃ r, expText n.exp = 101 :: r := by
  cases he : n.exp with
  | none => left; rfl
  | some x =>
    obtain ⟨up, sg, e⟩ := x
    have := hlow up sg e he; subst this
    right; exact ⟨_, rfl⟩

theorem noZeroTrim_num {n : Num} (F : NumFacts n) (hlow : ∀ up sg e, n.exp = some (up, sg, e) → up = false)
    (hfr : ∀ f, n.frac = some f → lastNonZeroOrSingle f = true) (nz : Bool) :
    noZeroTrim nz (strchr n.text 46) n.text n.text.length = (n.text, n.text.length) := by
  rw [strchr_point F]
  cases hf : n.frac with
  | none => simp [noZeroTrim]
  | some f =>
    cases nz with
    | false => simp [noZeroTrim]
    | true =>
      simp only [noZeroTrim]
      have ht : n.text = (signByte n.neg ++ digitsText n.int) ++ 46 :: (digitsText f ++ expText n.exp) := by
        rw [Num.text_parts, hf]; simp [fracText]
      have hd : n.text.drop ((signByte n.neg ++ digitsText n.int).length + 1) = digitsText f ++ expText n.exp := by
        rw [ht]; exact drop_after _ _ _
      rw [hd, scanZeros_digits f (expText n.exp) 0 0 (F.fracOk f hf).1 (expText_head hlow)]
      have := lastNZ_shape f (F.fracOk f hf).2 (hfr f hf)
      simp only [Nat.zero_add]
      have e1 : (signByte n.neg ++ digitsText n.int).length + 1 + lastNZ f 0 0 + 1 = (signByte n.neg ++ digitsText n.int).length + 1 + f.length := by omega
      rw [e1]
      split
      · rw [take_drop_id]
      · rfl


theorem commaToPoint_num {n : Num} (hok : n.ok = true) : commaToPoint n.text = (n.text, strchr n.text 46) := by
  unfold commaToPoint
  rw [strchr_none (num_text_no_comma hok)]

theorem finalAppend_ok (buf : Bytes) (h : buf.length < serDblBuf) : finalAppend buf buf.length = .ok buf := by
  unfold finalAppend
  have h1 : ¬ (buf.length ≥ serDblBuf) := by omega
  simp only [h1, if_false, if_true]

/-- **Double post-processing.**  For every libc output of the `%.17g` shape and either value of
NOZERO: no fault (the `strcat` stays inside the 128-byte buffer), and the bytes appended are the
text of the RFC number `numOfG17 t`: `t` itself, or `t ++ ".0"` when `t` has neither fraction
nor exponent.  NOZERO is the identity on these texts. -/
theorem doublePost_shape (nz : Bool) (t : Bytes) (h : g17Shape t = true) :
    ∃ n', numOfG17 t = some n' ∧ n'.ok = true ∧ (n'.frac.isSome || n'.exp.isSome) = true ∧
      doublePost nz t = .ok n'.text := by
  have hg := h
  unfold g17Shape at h
  cases hn : numOfText t with
  | none => simp [hn] at h
  | some n =>
    simp only [hn, Bool.and_eq_true, decide_eq_true_eq] at h
    obtain ⟨⟨hlen, hexp⟩, hfrac⟩ := h
    obtain ⟨hok, htext⟩ := numOfText_some hn
    subst htext
    have F := numFacts hok
    have hsz : serDblBuf = 128 := rfl
    have hslack : serDotZeroSlack = 2 := rfl
    have hlow : ∀ up sg e, n.exp = some (up, sg, e) → up = false := by
      intro up sg e he; rw [he] at hexp; simpa using hexp
    have hfr : ∀ f, n.frac = some f → lastNonZeroOrSingle f = true := by
      intro f hf; rw [hf] at hfrac; exact hfrac
    have hbuf : snprintfImage serDblBuf n.text = n.text :=
      snprintfImage_id _ _ (by omega) (num_text_no_nul hok)
    have hck : ckInt n.text.length "double: snprintf result" = .ok n.text.length := by
      unfold ckInt; rw [if_pos]; have : intMax = 2147483647 := rfl; omega
    unfold numOfG17
    simp only [hg, if_true, hn, Option.map_some]
    unfold doublePost
    rw [hck]; simp only [Outcome.bind_ok, hbuf, commaToPoint_num hok]
    by_cases hfe : (n.frac.isNone && n.exp.isNone) = true
    · -- integral spelling: ".0" is appended
      simp only [Bool.and_eq_true, Option.isNone_iff_eq_none] at hfe
      obtain ⟨hf, he⟩ := hfe
      have hp : strchr n.text 46 = none := by rw [strchr_point F, hf]
      have hdz : dotZero n.text.length n.text none = .ok (n.text ++ [46, 48], n.text.length + 2) := by
        unfold dotZero
        have he' : (strchr n.text 101).isNone = true := by rw [strchr_e F hlow, he]; rfl
        simp only [looksNumeric_num hok, he', Option.isNone_none, Bool.and_true]
        rw [if_pos (by simp; omega), if_neg (by omega)]
      simp only [hf, he, Option.isNone_none, Bool.and_self, if_true]
      refine ⟨_, rfl, ?_, by simp, ?_⟩
      · -- still an RFC number
        unfold Num.ok at hok ⊢
        simp only [hf, he, Bool.and_true] at hok
        simp only [hok, Bool.true_and]
        decide
      · rw [hp, hdz]
        simp only [Outcome.bind_ok, noZeroTrim]
        have : (n.text ++ [46, 48]).length = n.text.length + 2 := by simp
        rw [← this, finalAppend_ok _ (by rw [this]; omega)]
        congr 1
        rw [Num.text_parts, Num.text_parts]
        simp [fracText, expText, hf, he, digitsText, digitByte]
    · -- fraction or exponent present: the text goes out unchanged
      simp only [hfe, Bool.false_eq_true, if_false]
      have hfe' : (n.frac.isSome || n.exp.isSome) = true := by
        cases h1 : n.frac <;> cases h2 : n.exp <;> simp [h1, h2] at hfe ⊢
      refine ⟨n, rfl, hok, hfe', ?_⟩
      have hdz : dotZero n.text.length n.text (strchr n.text 46) = .ok (n.text, n.text.length) := by
        unfold dotZero
        rw [if_neg]
        intro hc
        simp only [Bool.and_eq_true] at hc
        obtain ⟨⟨_, hp⟩, he⟩ := hc
        rw [strchr_e F hlow] at he
        rw [strchr_point F] at hp
        cases h1 : n.frac <;> cases h2 : n.exp <;> simp [h1, h2] at hfe hp he
      rw [hdz]
      simp only [Outcome.bind_ok, noZeroTrim_num F hlow hfr nz]
      exact finalAppend_ok _ (by omega)

end JsonC.Serialize
