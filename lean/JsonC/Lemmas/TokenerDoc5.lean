/-
  Towards `parse_valid` (C01), part 5: a whole number token - scanning, termination by the byte that
  follows it, classification against the specification's `Num.denote`.
-/
import JsonC.Lemmas.TokenerDoc4
namespace JsonC.Tokener
open JsonC Rfc8259

theorem digitsText_digit (ds : List Nat) (h : ∀ d ∈ ds, d < 10) : ∀ b ∈ digitsText ds, isDigit b = true := by
  intro b hb
  simp only [digitsText, List.mem_map] at hb
  obtain ⟨d, hd, rfl⟩ := hb
  exact (digit_byte d (h d hd)).1

theorem digitsOk_lt (ds : List Nat) (h : digitsOk ds = true) : (∀ d ∈ ds, d < 10) ∧ ds ≠ [] := by
  simp only [digitsOk, Bool.and_eq_true, Bool.not_eq_true', List.all_eq_true, decide_eq_true_eq] at h
  refine ⟨h.2, ?_⟩
  intro he; rw [he] at h; simp at h

/-- no exponent marker among sign, digits and point -/
def NoE (p : Bytes) : Prop := ∀ b ∈ p, b ≠ 101 ∧ b ≠ 69

theorem noE_isExp (p : Bytes) (h : NoE p) : (deriveNum p).isExp = false := by
  unfold deriveNum
  cases hl : p.getLast? with
  | none => rfl
  | some x =>
    simp only
    rw [Bool.eq_false_iff]
    intro hany
    simp only [List.any_eq_true, Bool.or_eq_true, beq_iff_eq] at hany
    obtain ⟨b, hb, hbe⟩ := hany
    have := h b hb
    rcases hbe with h1 | h1 <;> simp [h1] at this

theorem noE_digits (ds : List Nat) (h : ∀ d ∈ ds, d < 10) : NoE (digitsText ds) := by
  intro b hb
  have := digitsText_digit ds h b hb
  constructor <;> intro he <;> rw [he] at this <;> simp [isDigit] at this

theorem NoE.append {a b : Bytes} (ha : NoE a) (hb : NoE b) : NoE (a ++ b) := by
  intro x hx; rcases List.mem_append.mp hx with h | h
  · exact ha x h
  · exact hb x h

theorem digit_ne (c k : UInt8) (h : isDigit c = true) (hk : isDigit k = false) : (c == k) = false := by
  rw [beq_eq_false_iff_ne]; intro he; subst he; rw [h] at hk; cases hk

/-- the first byte of a number ('-' or a digit) seen from a level waiting for a value -/
theorem num_first (lc : Libc) (t : Tok) (l : Loc) (cur : JVal) (nm : Option Bytes) (rest : List Level)
    (hs : t.stack = ⟨.eatws, .start, cur, nm⟩ :: rest) (hv : NoVal t) (c : UInt8) (hc : c = 45 ∨ isDigit c = true) :
    ∃ t' l', NumSt t t' l' cur nm rest [c] false ∧ Reaches lc t l [c] t' l' := by
  have hv' := hv; unfold NoVal at hv'
  refine ⟨{ t with stack := ⟨.number, .start, cur, nm⟩ :: rest, pb := [c], isDouble := false },
    { l with num := some (numNext (deriveNum []) c) }, ⟨rfl, rfl, rfl, rfl, rfl, rfl, ?_⟩, ?_⟩
  · -- the flags after the first byte are those re-derived from it
    simp only [numFlags]
    rcases hc with h | h
    · subst h; decide
    · have h46 := digit_ne c 46 h (by decide)
      have h101 := digit_ne c 101 h (by decide)
      have h69 := digit_ne c 69 h (by decide)
      simp [numNext, deriveNum, h46, h101, h69]
  · intro c0 off rs
    rcases hc with h | h
    · subst h
      simp [run, peek, hv', feed, fuel, feedN, disp, hs, dEatws, dStart, dNumber, dNumberCore, numFlags, deriveNum,
        numAccepts, numNext, numDouble, isWs, isDigit, setTop, lastOr, Tok.validateUtf8]
    · have hc0 : (c == 0) = false := digit_ne c 0 h (by decide)
      have hc0' : c ≠ 0 := by simpa using hc0
      have e := fun k hk => digit_ne c k h hk
      have e' : ∀ k, isDigit k = false → c ≠ k := fun k hk => by simpa using e k hk
      simp [run, peek, hv', feed, fuel, feedN, disp, hs, dEatws, dStart, dNumber, dNumberCore, numFlags, deriveNum,
        numAccepts, numNext, numDouble, isWs, setTop, lastOr, Tok.validateUtf8, h, hc0, hc0',
        e 32 (by decide), e 9 (by decide), e 10 (by decide), e 13 (by decide), e 47 (by decide), e 123 (by decide),
        e 91 (by decide), e 73 (by decide), e 105 (by decide), e 78 (by decide), e 110 (by decide), e 39 (by decide),
        e 34 (by decide), e 84 (by decide), e 116 (by decide), e 70 (by decide), e 102 (by decide), e 46 (by decide),
        e 101 (by decide), e 69 (by decide),
        e' 32 (by decide), e' 9 (by decide), e' 10 (by decide), e' 13 (by decide), e' 47 (by decide), e' 123 (by decide),
        e' 91 (by decide), e' 73 (by decide), e' 105 (by decide), e' 78 (by decide), e' 110 (by decide), e' 39 (by decide),
        e' 34 (by decide), e' 84 (by decide), e' 116 (by decide), e' 70 (by decide), e' 102 (by decide), e' 46 (by decide),
        e' 101 (by decide), e' 69 (by decide)]

theorem noE_single (c : UInt8) (h1 : c ≠ 101) (h2 : c ≠ 69) : NoE [c] := by
  intro b hb; simp at hb; subst hb; exact ⟨h1, h2⟩

theorem deriveNum_after_e (p : Bytes) (e : UInt8) (he : e = 101 ∨ e = 69) :
    (deriveNum (p ++ [e])).negOk = true ∧ (deriveNum (p ++ [e])).posOk = true := by
  unfold deriveNum
  have : (p ++ [e]).getLast? = some e := by simp
  rcases he with h | h <;> subst h <;> simp [this]

/-- scanning the whole text of a number `-? digits (. digits)? ((e|E) (+|-)? digits)?` - superfluous
leading zeros included: the scanner does not look at them -; without an exponent the text scanned
contains no 'e' / 'E' -/
theorem num_scan_parts (lc : Libc) (t : Tok) (l : Loc) (cur : JVal) (nm : Option Bytes) (rest : List Level)
    (hs : t.stack = ⟨.eatws, .start, cur, nm⟩ :: rest) (hv : NoVal t) (neg : Bool) (ip : List Nat) (frac : Option (List Nat))
    (ex : Option (Bool × Option Bool × List Nat)) (hip : digitsOk ip = true)
    (hfr : (match frac with | none => true | some f => digitsOk f) = true)
    (hex : (match ex with | none => true | some (_, _, e) => digitsOk e) = true) :
    ∃ t' l', NumSt t t' l' cur nm rest (Num.text ⟨neg, ip, frac, ex⟩) (frac.isSome || ex.isSome) ∧
      Reaches lc t l (Num.text ⟨neg, ip, frac, ex⟩) t' l' ∧ (ex = none → NoE (Num.text ⟨neg, ip, frac, ex⟩)) := by
  have hipd := digitsOk_lt ip hip
  -- sign and integer part
  have hint : ∃ t1 l1, NumSt t t1 l1 cur nm rest (signByte neg ++ digitsText ip) false ∧
      NoE (signByte neg ++ digitsText ip) ∧
      Reaches lc t l (signByte neg ++ digitsText ip) t1 l1 := by
    cases neg with
    | true =>
      obtain ⟨ta, la, sa, ra⟩ := num_first lc t l cur nm rest hs hv 45 (Or.inl rfl)
      obtain ⟨tb, lb, sb, rb⟩ := num_digits lc t cur nm rest hv ip hipd.1 ta la [45] false sa
      exact ⟨tb, lb, by simpa [signByte, fracText, expText, signText] using sb, NoE.append (noE_single 45 (by decide) (by decide)) (noE_digits ip hipd.1),
        by simpa [signByte, fracText, expText, signText] using Reaches.trans ra rb⟩
    | false =>
      cases ip with
      | nil => exact absurd rfl hipd.2
      | cons d r =>
        have hd := digit_byte d (hipd.1 d (by simp))
        obtain ⟨ta, la, sa, ra⟩ := num_first lc t l cur nm rest hs hv (digitByte d) (Or.inr hd.1)
        obtain ⟨tb, lb, sb, rb⟩ := num_digits lc t cur nm rest hv r (fun x hx => hipd.1 x (by simp [hx])) ta la _ false sa
        refine ⟨tb, lb, by simpa [signByte, fracText, expText, signText, digitsText] using sb, ?_, by simpa [signByte, fracText, expText, signText, digitsText] using Reaches.trans ra rb⟩
        have := noE_digits (d :: r) hipd.1
        simpa [signByte, fracText, expText, signText] using this
  obtain ⟨t1, l1, s1, ne1, r1⟩ := hint
  -- fraction
  have hfrac : ∃ t2 l2, NumSt t t2 l2 cur nm rest
        (signByte neg ++ digitsText ip ++ fracText frac) frac.isSome ∧
      NoE (signByte neg ++ digitsText ip ++ fracText frac) ∧
      Reaches lc t l (signByte neg ++ digitsText ip ++ fracText frac) t2 l2 := by
    cases frac with
    | none => exact ⟨t1, l1, by simpa [signByte, fracText, expText, signText] using s1, by simpa [signByte, fracText, expText, signText] using ne1, by simpa [signByte, fracText, expText, signText] using r1⟩
    | some f =>
      have hf := digitsOk_lt f (by simpa [signByte, fracText, expText, signText] using hfr)
      obtain ⟨ta, la, sa, ra⟩ := num_accept lc t t1 l1 cur nm rest _ false hv s1 46
        (by simp [numAccepts, s1.d])
      obtain ⟨tb, lb, sb, rb⟩ := num_digits lc t cur nm rest hv f hf.1 ta la _ _ sa
      refine ⟨tb, lb, by simpa [signByte, fracText, expText, signText, List.append_assoc] using sb, ?_, by simpa [signByte, fracText, expText, signText, List.append_assoc] using Reaches.trans r1 (Reaches.trans ra rb)⟩
      exact NoE.append ne1 (NoE.append (noE_single 46 (by decide) (by decide)) (noE_digits f hf.1))
  obtain ⟨t2, l2, s2, ne2, r2⟩ := hfrac
  -- exponent
  cases ex with
  | none => exact ⟨t2, l2, by simpa [signByte, fracText, expText, signText, Num.text] using s2, by simpa [signByte, fracText, expText, signText, Num.text] using r2,
      fun _ => by simpa [signByte, fracText, expText, signText, Num.text] using ne2⟩
  | some e =>
    obtain ⟨up, sg, ed⟩ := e
    have hed := digitsOk_lt ed (by simpa [signByte, fracText, expText, signText] using hex)
    let eb : UInt8 := if up then 69 else 101
    have heb : eb = 101 ∨ eb = 69 := by cases up <;> simp [eb]
    obtain ⟨ta, la, sa, ra⟩ := num_accept lc t t2 l2 cur nm rest _ _ hv s2 eb
      (by have := noE_isExp _ ne2; unfold numAccepts; rw [this]; rcases heb with h | h <;> simp [h])
    have hsign : ∃ tb lb, NumSt t tb lb cur nm rest
          (signByte neg ++ digitsText ip ++ fracText frac ++ [eb] ++
            signText sg) true ∧
        Reaches lc ta la (signText sg) tb lb := by
      have hd : (frac.isSome || eb == 46 || eb == 101 || eb == 69) = true := by rcases heb with h | h <;> simp [h]
      rw [hd] at sa
      have hsg := deriveNum_after_e (signByte neg ++ digitsText ip ++ fracText frac) eb heb
      cases sg with
      | none => exact ⟨ta, la, by simpa [signByte, fracText, expText, signText] using sa, by simpa [signByte, fracText, expText, signText] using Reaches.refl lc ta la⟩
      | some b =>
        cases b with
        | true =>
          obtain ⟨tb, lb, sb, rb⟩ := num_accept lc t ta la cur nm rest _ true hv sa 45 (by unfold numAccepts; rw [hsg.1]; simp)
          exact ⟨tb, lb, by simpa [signByte, fracText, expText, signText] using sb, by simpa [signByte, fracText, expText, signText] using rb⟩
        | false =>
          obtain ⟨tb, lb, sb, rb⟩ := num_accept lc t ta la cur nm rest _ true hv sa 43 (by unfold numAccepts; rw [hsg.2]; simp)
          exact ⟨tb, lb, by simpa [signByte, fracText, expText, signText] using sb, by simpa [signByte, fracText, expText, signText] using rb⟩
    obtain ⟨tb, lb, sb, rb⟩ := hsign
    obtain ⟨tc, lc', sc, rc⟩ := num_digits lc t cur nm rest hv ed hed.1 tb lb _ true sb
    refine ⟨tc, lc', ?_, ?_, fun h => by cases h⟩
    · have : (frac.isSome || true) = true := by simp
      simpa [signByte, fracText, expText, signText, Num.text, eb, List.append_assoc] using sc
    · have := Reaches.trans r2 (Reaches.trans ra (Reaches.trans rb rc))
      simpa [signByte, fracText, expText, signText, Num.text, eb, List.append_assoc] using this

/-- scanning the whole text of a valid JSON number -/
theorem num_scan (lc : Libc) (t : Tok) (l : Loc) (cur : JVal) (nm : Option Bytes) (rest : List Level)
    (hs : t.stack = ⟨.eatws, .start, cur, nm⟩ :: rest) (hv : NoVal t) (n : Num) (hok : n.ok = true) :
    ∃ t' l', NumSt t t' l' cur nm rest n.text (n.frac.isSome || n.exp.isSome) ∧ Reaches lc t l n.text t' l' := by
  obtain ⟨neg, ip, frac, ex⟩ := n
  simp only [Num.ok, Bool.and_eq_true] at hok
  obtain ⟨⟨⟨hip, _⟩, hfr⟩, hex⟩ := hok
  obtain ⟨t', l', h1, h2, _⟩ := num_scan_parts lc t l cur nm rest hs hv neg ip frac ex hip hfr hex
  exact ⟨t', l', h1, h2⟩

/-! ### the byte after the number, and the classification -/

theorem follow_not_accepted (t : Tok) (nl : NumLoc) (nb : UInt8) (h : Follow nb) : numAccepts t nl nb = false := by
  unfold numAccepts
  rcases h with h | h | h | h | h | h
  · simp only [isWs, Bool.or_eq_true, beq_iff_eq] at h
    rcases h with ((h | h) | h) | h <;> subst h <;> simp [isDigit]
  all_goals subst h; simp [isDigit]

theorem getLast_digitsText (ds : List Nat) (h : ds ≠ []) (hd : ∀ d ∈ ds, d < 10) :
    ∃ b, (digitsText ds).getLast? = some b ∧ isDigit b = true := by
  have hne : digitsText ds ≠ [] := by simpa [digitsText] using h
  cases hl : (digitsText ds).getLast? with
  | none => exact absurd (List.getLast?_eq_none_iff.mp hl) hne
  | some b => exact ⟨b, rfl, digitsText_digit ds hd b (List.mem_of_getLast? hl)⟩

/-- trimming only removes trailing e E + -; a text ending in a digit is left alone -/
theorem trimNum_digit_end (pb : Bytes) (b : UInt8) (hl : pb.getLast? = some b) (hb : isDigit b = true) : trimNum pb = pb := by
  unfold trimNum
  obtain ⟨init, rfl⟩ : ∃ init, pb = init ++ [b] := by
    rcases List.getLast?_eq_some_iff.mp hl with ⟨ys, h⟩; exact ⟨ys, h⟩
  have e1 := digit_ne b 101 hb (by decide)
  have e2 := digit_ne b 69 hb (by decide)
  have e3 := digit_ne b 45 hb (by decide)
  have e4 := digit_ne b 43 hb (by decide)
  simp only [List.reverse_append, List.reverse_cons, List.reverse_nil, List.nil_append, List.singleton_append]
  cases hr : init.reverse with
  | nil =>
    have : init = [] := by simpa using hr
    subst this; simp [trimNum.go]
  | cons x xs =>
    have : init = xs.reverse ++ [x] := by
      have := congrArg List.reverse hr; simpa using this
    subst this; simp [trimNum.go, e1, e2, e3, e4]
theorem digit_byte_eq48 (d : Nat) (h : d < 10) : (digitByte d == 48) = (d == 0) := by
  have : d = 0 ∨ d = 1 ∨ d = 2 ∨ d = 3 ∨ d = 4 ∨ d = 5 ∨ d = 6 ∨ d = 7 ∨ d = 8 ∨ d = 9 := by omega
  rcases this with h | h | h | h | h | h | h | h | h | h <;> subst h <;> decide

theorem digit_byte_ne45 (d : Nat) (h : d < 10) : (digitByte d == 45) = false :=
  digit_ne _ 45 (digit_byte d h).1 (by decide)

/-- the part of a number text after the integer digits does not start with a digit -/
theorem tail_not_digit (frac : Option (List Nat)) (ex : Option (Bool × Option Bool × List Nat)) :
    startsWithDigit (fracText frac ++ expText ex) = false := by
  cases frac with
  | some f => simp [fracText, isDigit, startsWithDigit]
  | none =>
    cases ex with
    | none => simp [fracText, expText, startsWithDigit]
    | some e => obtain ⟨up, sg, ed⟩ := e; cases up <;> simp [fracText, expText, isDigit, startsWithDigit]

/-- the strict-mode leading-zero test does not fire on a valid number -/
theorem no_leading_zero (n : Num) (hok : n.ok = true) :
    let pb := n.text
    let digits := if pb.head? == some 45 then pb.drop 1 else pb
    (digits.head? == some 48 && startsWithDigit (digits.drop 1)) = false := by
  obtain ⟨neg, ip, frac, ex⟩ := n
  simp only [Num.ok, Bool.and_eq_true] at hok
  obtain ⟨⟨⟨hip, hlz⟩, _⟩, _⟩ := hok
  have hipd := digitsOk_lt ip hip
  cases ip with
  | nil => exact absurd rfl hipd.2
  | cons d r =>
    have hd := hipd.1 d (by simp)
    have hdig : (if (Num.text ⟨neg, d :: r, frac, ex⟩).head? == some 45 then (Num.text ⟨neg, d :: r, frac, ex⟩).drop 1
        else Num.text ⟨neg, d :: r, frac, ex⟩) = digitByte d :: (digitsText r ++ (fracText frac ++ expText ex)) := by
      have h45 := digit_byte_ne45 d hd
      cases neg <;> simp [Num.text, signByte, digitsText, h45]
    simp only [hdig]
    simp only [List.head?_cons, List.drop_succ_cons, List.drop_zero]
    by_cases h0 : d = 0
    · subst h0
      -- int = [0]: what follows is the fraction / exponent / nothing
      have hr : r = [] := by
        simp only [List.length_cons, List.head?_cons, Bool.or_eq_true, beq_iff_eq, bne_iff_ne, ne_eq] at hlz
        rcases hlz with h | h
        · simpa using h
        · simp at h
      subst hr
      simp only [digitsText, List.map_nil, List.nil_append]
      rw [tail_not_digit]; simp
    · have : (digitByte d == 48) = false := by rw [digit_byte_eq48 d hd]; simpa using h0
      rw [show (some (digitByte d) == some (48 : UInt8)) = false from by simpa using this]; simp

theorem natOfDigits_nonneg (ds : List Nat) : (0 : Int) ≤ natOfDigits ds := Int.natCast_nonneg _

/-- **classification**: on the text of a valid JSON number the tokener's `classifyNum` yields the value
the specification denotes (integers exact / saturating, non-integers the correctly rounded double with
its source text), provided that in strict mode the integer fits 64 bits -/
theorem classify_valid (lc : Libc) (hl : LibcSpec lc) (t : Tok) (n : Num) (hok : n.ok = true)
    (hd : t.isDouble = (n.frac.isSome || n.exp.isSome)) (hfit : t.strict = true → n.fits64 = true) :
    classifyNum lc t n.text = .ok n.denote := by
  have hlz := no_leading_zero n hok
  simp only at hlz
  unfold classifyNum
  simp only
  rw [show (t.strict && (if n.text.head? == some 45 then n.text.drop 1 else n.text).head? == some 48 &&
      startsWithDigit ((if n.text.head? == some 45 then n.text.drop 1 else n.text).drop 1)) = false from by
        rw [Bool.and_assoc, hlz]; simp]
  simp only [Bool.false_eq_true, if_false]
  obtain ⟨neg, ip, frac, ex⟩ := n
  have hok' := hok
  simp only [Num.ok, Bool.and_eq_true] at hok'
  obtain ⟨⟨⟨hip, hlz2⟩, _⟩, _⟩ := hok'
  have hipd := digitsOk_lt ip hip
  cases frac with
  | some f =>
    have hdd : t.isDouble = true := by simpa using hd
    have := hl.dbl ⟨neg, ip, some f, ex⟩ hok (Or.inl rfl)
    simp [hdd, this, Num.denote]
  | none =>
    cases ex with
    | some e =>
      have hdd : t.isDouble = true := by simpa using hd
      have := hl.dbl ⟨neg, ip, none, some e⟩ hok (Or.inr rfl)
      simp [hdd, this, Num.denote]
    | none =>
      have hdd : t.isDouble = false := by simpa using hd
      have htxt : Num.text ⟨neg, ip, none, none⟩ = signByte neg ++ digitsText ip := by simp [Num.text, fracText, expText]
      simp only [hdd, Bool.not_false, Bool.true_and, htxt]
      cases ip with
      | nil => exact absurd rfl hipd.2
      | cons d r =>
        have hdl := hipd.1 d (by simp)
        cases neg with
        | true =>
          have hh : (signByte true ++ digitsText (d :: r)).head? == some 45 := by simp [signByte]
          simp only [hh, if_true]
          have hi := hl.int64 (d :: r) hip
          have : signByte true ++ digitsText (d :: r) = 45 :: digitsText (d :: r) := by simp [signByte]
          rw [this, hi]
          simp only [Num.denote]
          by_cases hlt : -(natOfDigits (d :: r) : Int) < INT64_MIN
          · have hns : t.strict = false := by
              cases hst : t.strict with
              | false => rfl
              | true =>
                have := hfit hst
                simp [Num.fits64] at this
                omega
            simp [hlt, hns]
          · simp [hlt]
        | false =>
          have hh : ((signByte false ++ digitsText (d :: r)).head? == some 45) = false := by
            simp [signByte, digitsText, digit_byte_ne45 d hdl]
          simp only [hh, Bool.false_eq_true, if_false]
          have hu := hl.uint64 (d :: r) hip
          have : signByte false ++ digitsText (d :: r) = digitsText (d :: r) := by simp [signByte]
          rw [this, hu]
          simp only [Num.denote]
          have hnn := natOfDigits_nonneg (d :: r)
          by_cases hgt : (natOfDigits (d :: r) : Int) > UINT64_MAX
          · have hns : t.strict = false := by
              cases hst : t.strict with
              | false => rfl
              | true =>
                have := hfit hst
                simp [Num.fits64] at this
                omega
            rw [if_pos hgt, if_pos hgt]
            have h1 : ¬ ((natOfDigits (d :: r) : Int) ≤ 9223372036854775807) := by
              simp only [UINT64_MAX] at hgt; omega
            simp [hns, UINT64_MAX, INT64_MAX, h1]
          · rw [if_neg hgt, if_neg hgt]
            -- leading "0" with a non-zero value cannot happen
            have hz : ((natOfDigits (d :: r) : Int) != 0 && (digitsText (d :: r)).head? == some 48 && t.strict) = false := by
              by_cases h0 : d = 0
              · subst h0
                have hr : r = [] := by
                  simp only [List.length_cons, List.head?_cons, Bool.or_eq_true, beq_iff_eq, bne_iff_ne, ne_eq] at hlz2
                  rcases hlz2 with h | h
                  · simpa using h
                  · simp at h
                subst hr; simp [natOfDigits]
              · have : (digitByte d == 48) = false := by rw [digit_byte_eq48 d hdl]; simpa using h0
                simp [digitsText, this]
            simp only [Bool.false_and, Bool.false_eq_true, if_false, hz]
            by_cases hle : (natOfDigits (d :: r) : Int) ≤ INT64_MAX
            · simp [hle]
            · simp [hle, hgt]
theorem num_text_last (n : Num) (hok : n.ok = true) : ∃ b, n.text.getLast? = some b ∧ isDigit b = true := by
  obtain ⟨neg, ip, frac, ex⟩ := n
  simp only [Num.ok, Bool.and_eq_true] at hok
  obtain ⟨⟨⟨hip, _⟩, hfr⟩, hex⟩ := hok
  have hipd := digitsOk_lt ip hip
  cases ex with
  | some e =>
    obtain ⟨up, sg, ed⟩ := e
    have hed := digitsOk_lt ed (by simpa using hex)
    obtain ⟨b, hb, hd⟩ := getLast_digitsText ed hed.2 hed.1
    refine ⟨b, ?_, hd⟩
    have hne : digitsText ed ≠ [] := by simpa [digitsText] using hed.2
    simp [Num.text, expText, List.getLast?_append, List.getLast?_cons, hb]
  | none =>
    cases frac with
    | some f =>
      have hf := digitsOk_lt f (by simpa using hfr)
      obtain ⟨b, hb, hd⟩ := getLast_digitsText f hf.2 hf.1
      refine ⟨b, ?_, hd⟩
      have hne : digitsText f ≠ [] := by simpa [digitsText] using hf.2
      simp [Num.text, expText, fracText, List.getLast?_append, List.getLast?_cons, hb]
    | none =>
      obtain ⟨b, hb, hd⟩ := getLast_digitsText ip hipd.2 hipd.1
      refine ⟨b, ?_, hd⟩
      have hne : digitsText ip ≠ [] := by simpa [digitsText] using hipd.2
      simp [Num.text, expText, fracText, List.getLast?_append, hb]

/-- **a number value**: the whole token, ended by the byte that follows it -/
theorem parsed_num (lc : Libc) (hl : LibcSpec lc) (t : Tok) (l : Loc) (cur : JVal) (nm : Option Bytes) (rest : List Level)
    (hwf : WF t) (hs : t.stack = ⟨.eatws, .start, cur, nm⟩ :: rest) (hv : NoVal t) (hhs : t.hs = 0)
    (n : Num) (hok : n.ok = true) (hfit : t.strict = true → n.fits64 = true) :
    Parsed lc t l n.text n.denote nm rest := by
  intro nb hnb hnul c off rs
  obtain ⟨t1, l1, s1, r1⟩ := num_scan lc t l cur nm rest hs hv n hok
  have hv1 := s1.noVal hv
  have hwf1 : WF t1 := wf_restack hwf hs s1.st s1.md (topOk_token .number (by simp) .start (by simp) cur nm)
    (posOk_of_ne (by simp) (by simp) (by simp))
  obtain ⟨lb, hlb, hld⟩ := num_text_last n hok
  -- the tokener after trimming (a no-op) and classification
  let tt : Tok := { t1 with stack := ⟨.number, .start, cur, nm⟩ :: rest, pb := n.text }
  have htrim : (if t1.isDouble && !t1.strict then trimNum t1.pb else t1.pb) = n.text := by
    rw [s1.pb, trimNum_digit_end n.text lb hlb hld]; simp
  have hstrict : tt.strict = t.strict := by simp [tt, Tok.strict, s1.fl]
  have hcls : classifyNum lc tt n.text = .ok n.denote :=
    classify_valid lc hl tt n hok (by simp [tt, s1.d]) (by rw [hstrict]; exact hfit)
  let tf : Tok := finishWith tt ⟨.number, .start, cur, nm⟩ rest n.denote
  have hd : disp lc t1 l1 nb = .redo tf { l1 with num := none } := by
    simp only [disp, s1.st, dNumber, dNumberCore, s1.fg, follow_not_accepted t1 _ nb hnb]
    have hdepth : (!rest.isEmpty && nb != 44 && nb != 93 && nb != 125 && nb != 47 && nb != 73 && nb != 105 && !isWs nb) = false := by
      rcases hnb with h | h | h | h | h | h
      · simp [h]
      · subst h; simp
      · subst h; simp
      · subst h; simp
      · have := hnul h; subst this; simp
      · subst h; simp
    have hinf : (t1.pb.head? == some 45 && t1.pb.length == 1 && (nb == 105 || nb == 73)) = false := by
      rcases hnb with h | h | h | h | h | h
      · have : (nb == 105) = false ∧ (nb == 73) = false := by
          simp only [isWs, Bool.or_eq_true, beq_iff_eq] at h
          rcases h with ((h | h) | h) | h <;> subst h <;> decide
        simp [this.1, this.2]
      all_goals subst h; simp
    simp only [Bool.false_eq_true, if_false, hdepth, hinf]
    rw [htrim]
    show (match classifyNum lc tt n.text with
      | .ok v => Act.redo (finishWith tt ⟨.number, .start, cur, nm⟩ rest v) { l1 with num := none }
      | .error e => Act.err e tt { l1 with num := none }) = _
    rw [hcls]
  refine ⟨tf, { l1 with num := none }, rfl, ⟨s1.md, s1.fl, by simp [tf, finishWith, setTop, tt, s1.hs, hhs]⟩, ?_, rfl, ?_⟩
  · exact wf_restack hwf hs rfl s1.md (topOk_finish _ _) (posOk_of_ne (by simp) (by simp) (by simp))
  · rw [r1 c off (nb :: rs)]
    have hvf : tf.validateUtf8 = false := by
      have := hv1.validate; simpa [tf, finishWith, setTop, tt, Tok.validateUtf8] using this
    rw [run_redo lc t1 l1 nb tf _ hwf1 hv1.validate hvf hd]
end JsonC.Tokener
