/-
  Helper lemmas for C07 (never property statements).
-/
import JsonC.Model.Arraylist
import JsonC.Spec.Seq

namespace JsonC.Arraylist
open JsonC Generated
open JsonC.Seq (Seq maxLen)

/-! ### facts about the regenerated constants (re-checked on every run) -/
theorem consts : alGrowShift = 1 ∧ alHalfDiv = 2 ∧ alPutGuard = 1 ∧ alPutNeed = 1 ∧ alAddGuard = 1 ∧
    alAddNeed = 1 ∧ alInsNeed = 1 ∧ alShrinkMin = 1 := by decide
theorem ptr_pos : 0 < PTR := by decide
theorem maxLen_def : maxLen = SIZE_T_MAX / PTR := rfl
theorem maxLen_pos : 0 < maxLen := by decide
/-- a capacity within `maxLen` is below the `SIZE_T_MAX / 2` threshold of expand_internal -/
theorem maxLen_lt_half : maxLen < SIZE_T_MAX / alHalfDiv := by decide
/-- doubling a capacity within `maxLen` does not wrap -/
theorem maxLen_double : 2 * maxLen + 2 ≤ SIZE_T_MAX := by decide
theorem arrayListDefaultSize_ok : arrayListDefaultSize < maxLen := by decide
theorem intMax_lt_maxLen : intMax < maxLen := by decide

theorem mul_ptr_le (n : Nat) (h : n ≤ maxLen) : n * PTR ≤ SIZE_T_MAX := by
  have h1 : maxLen * PTR ≤ SIZE_T_MAX := Nat.div_mul_le_self _ _
  exact Nat.le_trans (Nat.mul_le_mul_right _ h) h1

theorem mul_ptr_pos (n : Nat) (h : 0 < n) : n * PTR ≠ 0 := by
  have := ptr_pos
  exact Nat.ne_of_gt (Nat.mul_pos h this)

theorem ckSize_ok (x : Nat) (site : String) (h : x ≤ SIZE_T_MAX) : ckSize x site = .ok x := by
  unfold ckSize; rw [if_pos h]

theorem ckSub_ok (a b : Nat) (site : String) (h : b ≤ a) : ckSub a b site = .ok (a - b) := by
  unfold ckSub; rw [if_pos h]

/-! ### the representation invariant / abstraction relation -/

/-- `a` represents the sequence `s`: the first `length` slots are initialised and hold exactly `s`,
the `size` field describes the allocation, the capacity is one the address space can hold. -/
structure Rep (a : Al) (s : Seq) : Prop where
  slots : ∃ tail, a.slots = s.map Slot.val ++ tail
  length : a.length = s.length
  size : a.size = a.slots.length
  cap : a.size ≤ maxLen

theorem Rep.le {a : Al} {s : Seq} (h : Rep a s) : a.length ≤ a.size := by
  obtain ⟨t, ht⟩ := h.slots
  rw [h.size, ht, h.length]; simp

theorem Rep.getElem? {a : Al} {s : Seq} (h : Rep a s) (i : Nat) (hi : i < s.length) :
    a.slots[i]? = some (Slot.val s[i]) := by
  obtain ⟨t, ht⟩ := h.slots
  rw [ht, List.getElem?_append_left (by simpa using hi)]
  simp [hi]

theorem Rep.read {a : Al} {s : Seq} (h : Rep a s) (i : Nat) (hi : i < s.length) (site : String) :
    readSlot a i site = .ok s[i] := by
  unfold readSlot; rw [h.getElem? i hi]

/-- two sequences represented by the same state are equal -/
theorem Rep.unique {a : Al} {s s' : Seq} (h : Rep a s) (h' : Rep a s') : s = s' := by
  obtain ⟨t, ht⟩ := h.slots
  obtain ⟨t', ht'⟩ := h'.slots
  have hl : s.length = s'.length := by rw [← h.length, ← h'.length]
  have := ht.symm.trans ht'
  have h2 := List.append_inj_left this (by simp [hl])
  exact (List.map_inj_right (fun _ _ h => by cases h; rfl)).mp h2

/-! ### list plumbing -/

theorem drop_set_self {α : Type} (t : List α) (g : Nat) (x : α) (h : g < t.length) :
    (t.set g x).drop g = x :: t.drop (g + 1) := by
  rw [List.set_eq_take_append_cons_drop, if_pos h]
  rw [List.drop_append_of_le_length (by simp; omega)]
  rw [List.drop_of_length_le (by simp; omega)]
  simp

theorem insert_shape {α : Type} (P R T : List α) (x : α) (hT : 0 < T.length) :
    (((P ++ R ++ T).take (P.length + 1) ++ ((P ++ R ++ T).drop P.length).take R.length ++
      (P ++ R ++ T).drop (P.length + 1 + R.length)).set P.length x) = P ++ x :: R ++ T.drop 1 := by
  have e1 : (P ++ R ++ T).take (P.length + 1) = P ++ (R ++ T).take 1 := by
    rw [List.append_assoc, List.take_append, List.take_of_length_le (by omega)]; simp
  have e2 : ((P ++ R ++ T).drop P.length).take R.length = R := by
    rw [List.append_assoc, List.drop_left, List.take_left]
  have e3 : (P ++ R ++ T).drop (P.length + 1 + R.length) = T.drop 1 := by
    rw [List.append_assoc, List.drop_append]
    have : P.length + 1 + R.length - P.length = R.length + 1 := by omega
    rw [this, List.drop_of_length_le (by omega), List.nil_append, List.drop_append]
    simp
  rw [e1, e2, e3]
  have hl : ((R ++ T).take 1).length = 1 := by simp; omega
  match h : (R ++ T).take 1, hl with
  | [y], _ =>
    simp

theorem delete_shape {α : Type} (P D R T : List α) :
    (P ++ D ++ R ++ T).take P.length ++ ((P ++ D ++ R ++ T).drop (P.length + D.length)).take R.length ++
      (P ++ D ++ R ++ T).drop (P.length + R.length) = P ++ R ++ (D ++ R ++ T).drop R.length := by
  have e1 : (P ++ D ++ R ++ T).take P.length = P := by simp [List.append_assoc]
  have e2 : ((P ++ D ++ R ++ T).drop (P.length + D.length)).take R.length = R := by
    have : P ++ D ++ R ++ T = (P ++ D) ++ (R ++ T) := by simp [List.append_assoc]
    rw [this, List.drop_left' (by simp), List.take_left]
  have e3 : (P ++ D ++ R ++ T).drop (P.length + R.length) = (D ++ R ++ T).drop R.length := by
    have : P ++ D ++ R ++ T = P ++ (D ++ R ++ T) := by simp [List.append_assoc]
    rw [this, List.drop_append]
    simp
  rw [e1, e2, e3]

theorem readAll_map (s : Seq) (site : String) : readAll (s.map Slot.val) site = .ok s := by
  induction s with
  | nil => rfl
  | cons e es ih => simp [readAll, ih]

theorem Rep.readRange {a : Al} {s : Seq} (h : Rep a s) (site : String) :
    readRange a a.length site = .ok s := by
  obtain ⟨t, ht⟩ := h.slots
  have hle := h.le
  unfold Arraylist.readRange
  rw [if_pos (by rw [← h.size]; exact hle), ht, h.length, List.take_left' (by simp)]
  exact readAll_map s site

theorem flatMap_releaseOf (es : List Elem) : es.flatMap releaseOf = Seq.nonNull es := by
  induction es with
  | nil => rfl
  | cons e es ih =>
    cases e <;> simp [releaseOf, Seq.nonNull, List.flatMap_cons] at ih ⊢ <;> exact ih

theorem Rep.releaseLoop {a : Al} {s : Seq} (h : Rep a s) (n : Nat) : ∀ i, i + n ≤ s.length →
    releaseLoop a i n = .ok (Seq.nonNull ((s.drop i).take n)) := by
  induction n with
  | zero => intro i _; simp [Arraylist.releaseLoop, Seq.nonNull]
  | succ n ih =>
    intro i hi
    unfold Arraylist.releaseLoop
    rw [h.read i (by omega), Outcome.bind_ok, ih (i + 1) (by omega)]
    simp only [Outcome.bind_ok, Outcome.pure_eq]
    have : s.drop i = s[i]'(by omega) :: s.drop (i + 1) := List.drop_eq_getElem_cons (by omega)
    rw [this, List.take_succ_cons]
    cases hs : s[i]'(by omega) <;> simp [releaseOf, Seq.nonNull]

/-- shape of the allocation after put_idx at or beyond the end -/
theorem put_shape (S t : List Slot) (g : Nat) (x : Slot) (hg : g < t.length) :
    ((S ++ t.set g x).take S.length ++ List.replicate g (Slot.val none) ++ (S ++ t.set g x).drop (S.length + g)) =
      S ++ List.replicate g (Slot.val none) ++ x :: t.drop (g + 1) := by
  rw [List.take_left, List.drop_append]
  have : S.length + g - S.length = g := by omega
  rw [this, List.drop_of_length_le (by omega), List.nil_append]
  rw [drop_set_self _ _ _ hg]

/-! ### the specification's verdicts and release sets -/

theorem fits_le (n : Nat) (h : n ≤ maxLen) : Seq.fits n ≠ .mustRefuse := by
  unfold Seq.fits; rw [if_neg (by omega)]; split <;> simp

theorem fits_gt (n : Nat) (h : 2 * n > maxLen) : Seq.fits n ≠ .mustServe := by
  unfold Seq.fits; split
  · simp
  · rw [if_neg (by omega)]; simp

theorem putReleased_eq (s : Seq) (i : Nat) (hi : i < s.length) : Seq.putReleased s i = releaseOf s[i] := by
  unfold Seq.putReleased
  rw [List.getElem?_eq_getElem hi]
  cases s[i] <;> rfl

theorem putReleased_ge (s : Seq) (i : Nat) (hi : s.length ≤ i) : Seq.putReleased s i = [] := by
  unfold Seq.putReleased
  rw [List.getElem?_eq_none hi]

/-! ### array_list_expand_internal -/

theorem reallocSlots_grow (slots : List Slot) (n : Nat) (h : slots.length ≤ n) :
    reallocSlots slots n = slots ++ List.replicate (n - slots.length) .uninit := by
  unfold reallocSlots; rw [List.take_of_length_le h]

/-- array_list_expand_internal(arr, max) for `max ≥ 1`: either the capacity is now at least `max` and the
contents are untouched, or the call refuses and nothing changed -/
theorem expand_spec (alloc : Alloc) (a : Al) (s : Seq) (h : Rep a s) (max : Nat)
    (hmax1 : 1 ≤ max) :
    ∃ a1 rc, expandInternal alloc a max = .ok (a1, rc) ∧
      ((rc = 0 ∧ Rep a1 s ∧ max ≤ a1.size ∧ a1.length = a.length ∧ a.size ≤ a1.size ∧
          (max < a.size → a1 = a)) ∨
       (rc = -1 ∧ a1 = a ∧ a.size ≤ max ∧
          (max > maxLen ∨ 2 * a.size > maxLen ∨ ∃ b, alloc b = false))) := by
  obtain ⟨hG, hH, -⟩ := consts
  have hcap := h.cap
  have hhalf := maxLen_lt_half
  have hdbl := maxLen_double
  unfold expandInternal
  by_cases h1 : max < a.size
  · rw [if_pos h1]
    exact ⟨a, 0, rfl, Or.inl ⟨rfl, h, by omega, rfl, Nat.le_refl _, fun _ => rfl⟩⟩
  · rw [if_neg h1, if_neg (by omega)]
    have hd : a.size <<< alGrowShift = a.size * 2 := by rw [hG, Nat.shiftLeft_eq]
    rw [hd, ckSize_ok _ _ (by omega)]
    simp only [Outcome.bind_ok, Outcome.pure_eq]
    generalize hns : (if a.size * 2 < max then max else a.size * 2) = ns
    have hns1 : max ≤ ns := by rw [← hns]; split <;> omega
    have hns2 : ns = max ∨ ns = a.size * 2 := by rw [← hns]; split <;> simp
    rw [← maxLen_def]
    by_cases h2 : ns > maxLen
    · rw [if_pos h2]
      refine ⟨a, -1, rfl, Or.inr ⟨rfl, rfl, by omega, ?_⟩⟩
      rcases hns2 with e | e
      · left; omega
      · right; left; omega
    · rw [if_neg h2, ckSize_ok _ _ (mul_ptr_le _ (by omega))]
      simp only [Outcome.bind_ok]
      rw [if_neg (mul_ptr_pos _ (by omega))]
      by_cases h3 : alloc (ns * PTR) = true
      · rw [if_pos h3]
        refine ⟨_, 0, rfl, Or.inl ⟨rfl, ?_, by simpa using hns1, rfl, by simp; omega, fun hc => by omega⟩⟩
        obtain ⟨t, ht⟩ := h.slots
        have hsz := h.size
        refine ⟨?_, h.length, ?_, by simp; omega⟩
        · refine ⟨t ++ List.replicate (ns - a.slots.length) .uninit, ?_⟩
          simp only []
          rw [reallocSlots_grow _ _ (by omega), ht, List.append_assoc]
        · simp only []
          rw [reallocSlots_grow _ _ (by omega)]; simp; omega
      · rw [if_neg h3]
        exact ⟨a, -1, rfl, Or.inr ⟨rfl, rfl, by omega, Or.inr (Or.inr ⟨_, by simpa using h3⟩)⟩⟩

/-! ### the reference binary search (glibc's loop) -/

theorem bsearchLoop_some (le : Elem → Elem → Bool) (k : Elem) (s : Seq) (fuel : Nat) :
    ∀ l u i, Seq.bsearchLoop le k s fuel l u = some i →
      ∃ e, s[i]? = some e ∧ Seq.equiv le k e = true := by
  induction fuel with
  | zero => intro l u i h; simp [Seq.bsearchLoop] at h
  | succ f ih =>
    intro l u i h
    unfold Seq.bsearchLoop at h
    by_cases hlu : l < u
    · rw [if_pos hlu] at h
      simp only [] at h
      cases hs : s[(l + u) / 2]? with
      | none => rw [hs] at h; simp at h
      | some e =>
        rw [hs] at h
        simp only [] at h
        by_cases he : (le k e && le e k) = true
        · rw [if_pos he] at h
          cases h
          exact ⟨e, hs, he⟩
        · rw [if_neg he] at h
          by_cases h2 : le k e = true
          · rw [if_pos h2] at h; exact ih _ _ _ h
          · rw [if_neg h2] at h; exact ih _ _ _ h
    · rw [if_neg hlu] at h; simp at h

theorem bsearchLoop_none (le : Elem → Elem → Bool) (hle : Seq.TotalPreorder le) (k : Elem) (s : Seq)
    (hs : Seq.Sorted le s) (fuel : Nat) :
    ∀ l u, u ≤ s.length → u - l < fuel →
      (∀ j e, j < l → s[j]? = some e → le k e = false) →
      (∀ j e, u ≤ j → s[j]? = some e → le e k = false) →
      Seq.bsearchLoop le k s fuel l u = none → ∀ e ∈ s, Seq.equiv le k e = false := by
  have hpw := List.pairwise_iff_getElem.mp hs
  induction fuel with
  | zero => intro l u _ hf; omega
  | succ f ih =>
    intro l u hu hf hlo hhi h e he
    unfold Seq.bsearchLoop at h
    by_cases hlu : l < u
    · rw [if_pos hlu] at h
      simp only [] at h
      have hidx : (l + u) / 2 < s.length := by omega
      rw [List.getElem?_eq_getElem hidx] at h
      simp only [] at h
      by_cases heq : (le k s[(l + u) / 2] && le s[(l + u) / 2] k) = true
      · rw [if_pos heq] at h; simp at h
      · rw [if_neg heq] at h
        by_cases h2 : le k s[(l + u) / 2] = true
        · rw [if_pos h2] at h
          have h3 : le s[(l + u) / 2] k = false := by
            cases hc : le s[(l + u) / 2] k
            · rfl
            · rw [h2, hc] at heq; simp at heq
          refine ih l ((l + u) / 2) (by omega) (by omega) hlo ?_ h e he
          intro j e' hj hje
          have hjl : j < s.length := by
            cases hjl : decide (j < s.length) with
            | true => simpa using hjl
            | false => rw [List.getElem?_eq_none (by simpa using hjl)] at hje; simp at hje
          rw [List.getElem?_eq_getElem hjl] at hje
          cases hje
          by_cases hje2 : j = (l + u) / 2
          · subst hje2; exact h3
          · have := hpw ((l + u) / 2) j hidx hjl (by omega)
            cases hc : le s[j] k
            · rfl
            · have := hle.trans _ _ _ this hc
              rw [this] at h3; simp at h3
        · rw [if_neg h2] at h
          have h2' : le k s[(l + u) / 2] = false := by simpa using h2
          refine ih ((l + u) / 2 + 1) u hu (by omega) ?_ hhi h e he
          intro j e' hj hje
          have hjl : j < s.length := by omega
          rw [List.getElem?_eq_getElem hjl] at hje
          cases hje
          by_cases hje2 : j = (l + u) / 2
          · subst hje2; exact h2'
          · have := hpw j ((l + u) / 2) hjl hidx (by omega)
            cases hc : le k s[j]
            · rfl
            · have := hle.trans _ _ _ hc this
              rw [this] at h2'; simp at h2'
    · -- interval empty: every position is below l or at/above u
      obtain ⟨j, hj, hje⟩ := List.getElem_of_mem he
      unfold Seq.equiv
      by_cases hjl : j < l
      · rw [hlo j e hjl (by rw [List.getElem?_eq_getElem hj, hje])]; simp
      · rw [hhi j e (by omega) (by rw [List.getElem?_eq_getElem hj, hje])]; simp

/-! ### counting elements (conservation) -/

theorem nonNull_append (a b : List Elem) : Seq.nonNull (a ++ b) = Seq.nonNull a ++ Seq.nonNull b := by
  simp [Seq.nonNull, List.filterMap_append]

theorem nonNull_replicate_none (n : Nat) : Seq.nonNull (List.replicate n (none : Elem)) = [] := by
  induction n with
  | zero => rfl
  | succ n ih => simp [Seq.nonNull, List.replicate_succ]

theorem nonNull_singleton (v : Elem) : Seq.nonNull [v] = releaseOf v := by
  cases v <;> rfl

end JsonC.Arraylist
