/-
  Helper lemmas for C07 (never property statements).
-/
import JsonC.Model.Arraylist
import JsonC.Spec.Seq

namespace JsonC.Arraylist
open JsonC Generated
open JsonC.Seq (Seq maxLen)

/-! ### facts about the regenerated constants (re-checked on every run) -/
theorem consts : alGrowShift = 1 ∧ alHalfDiv = 2 ∧ alPutGuard = 1 ∧ alPutNeed = 1 ∧ alAddGuard = 1 ∧
    alAddNeed = 1 ∧ alInsNeed = 1 ∧ alShrinkMin = 1 := by decide
theorem ptr_pos : 0 < PTR := by decide
theorem maxLen_def : maxLen = SIZE_T_MAX / PTR := rfl
theorem maxLen_pos : 0 < maxLen := by decide
/-- a capacity within `maxLen` is below the `SIZE_T_MAX / 2` threshold of expand_internal -/
theorem maxLen_lt_half : maxLen < SIZE_T_MAX / alHalfDiv := by decide
/-- doubling a capacity within `maxLen` does not wrap -/
theorem maxLen_double : 2 * maxLen + 2 ≤ SIZE_T_MAX := by decide
theorem arrayListDefaultSize_ok : arrayListDefaultSize < maxLen := by decide
theorem intMax_lt_maxLen : intMax < maxLen := by decide

theorem mul_ptr_le (n : Nat) (h : n ≤ maxLen) : n * PTR ≤ SIZE_T_MAX := by
  have h1 : maxLen * PTR ≤ SIZE_T_MAX := Nat.div_mul_le_self _ _
  exact Nat.le_trans (Nat.mul_le_mul_right _ h) h1

theorem mul_ptr_pos (n : Nat) (h : 0 < n) : n * PTR ≠ 0 := by
  have := ptr_pos
  exact Nat.ne_of_gt (Nat.mul_pos h this)

theorem ckSize_ok (x : Nat) (site : String) (h : x ≤ SIZE_T_MAX) : ckSize x site = .ok x := by
  unfold ckSize; rw [if_pos h]

theorem ckSub_ok (a b : Nat) (site : String) (h : b ≤ a) : ckSub a b site = .ok (a - b) := by
  unfold ckSub; rw [if_pos h]

/-! ### the representation invariant / abstraction relation -/

/-- `a` represents the sequence `s`: the first `length` slots are initialised and hold exactly `s`,
the `size` field describes the allocation, the capacity is one the address space can hold. -/
structure Rep (a : Al) (s : Seq) : Prop where
  slots : ∃ tail, a.slots = s.map Slot.val ++ tail
  length : a.length = s.length
  size : a.size = a.slots.length
  cap : a.size ≤ maxLen

theorem Rep.le {a : Al} {s : Seq} (h : Rep a s) : a.length ≤ a.size := by
  obtain ⟨t, ht⟩ := h.slots
  rw [h.size, ht, h.length]; simp

theorem Rep.getElem? {a : Al} {s : Seq} (h : Rep a s) (i : Nat) (hi : i < s.length) :
    a.slots[i]? = some (Slot.val s[i]) := by
  obtain ⟨t, ht⟩ := h.slots
  rw [ht, List.getElem?_append_left (by simpa using hi)]
  simp [hi]

theorem Rep.read {a : Al} {s : Seq} (h : Rep a s) (i : Nat) (hi : i < s.length) (site : String) :
    readSlot a i site = .ok s[i] := by
  unfold readSlot; rw [h.getElem? i hi]

/-- two sequences represented by the same state are equal -/
theorem Rep.unique {a : Al} {s s' : Seq} (h : Rep a s) (h' : Rep a s') : s = s' := by
  obtain ⟨t, ht⟩ := h.slots
  obtain ⟨t', ht'⟩ := h'.slots
  have hl : s.length = s'.length := by rw [← h.length, ← h'.length]
  have := ht.symm.trans ht'
  have h2 := List.append_inj_left this (by simp [hl])
  exact (List.map_inj_right (fun _ _ h => by cases h; rfl)).mp h2

end JsonC.Arraylist
