/-
  Helper lemmas for C06 (never property statements): the representation invariant of a linkhash
  table (DESIGN.md Appendix B), the abstraction to an association list, and what lookup, the insert
  probe, delete_entry, value replacement and resize do to both.
-/
import JsonC.Lemmas.LinkhashList
import JsonC.Lemmas.LinkhashLoad
import JsonC.Spec.OrdMap

namespace JsonC.Linkhash
open JsonC Generated

variable {K V : Type}

/-- key and value stored in slot `i` (none when the slot is EMPTY / FREED / outside the table) -/
def entryAt (t : Table K V) (i : Nat) : Option (K × V) :=
  match t.slots[i]? with
  | some (Slot.live k v _) => some (k, v)
  | _ => none

/-- the association list a table stands for, given the order `o` of its linked list -/
def absOf (t : Table K V) (o : List Nat) : List (K × V) := o.filterMap (entryAt t)

/-- slot `p` is reached from the home slot of `k` without crossing an EMPTY slot -/
def Reach (hash : K → Nat) (t : Table K V) (k : K) (p : Nat) : Prop :=
  ∃ i, i < t.size ∧ probe t.size (hash k % t.size) i = p ∧
    ∀ j, j < i → t.slots[probe t.size (hash k % t.size) j]? ≠ some Slot.empty

/-- representation invariant; `o` = the slots of the linked list from head to tail -/
structure Inv (hash : K → Nat) (t : Table K V) (o : List Nat) : Prop where
  size_pos : 0 < t.size
  size_le : t.size ≤ intMax
  len_slots : t.slots.length = t.size
  len_next : t.next.length = t.size
  len_prev : t.prev.length = t.size
  nodup : o.Nodup
  live_iff : ∀ i : Nat, i ∈ o ↔ ∃ (k : K) (v : V) (c : Bool), t.slots[i]? = some (Slot.live k v c)
  count_eq : t.count = (o.length : Int)
  count_le : o.length ≤ t.size
  head_eq : t.head = o.head?
  tail_eq : t.tail = o.getLast?
  next_eq : ∀ i, i < t.size → t.next[i]? = some (succOf o i)
  prev_eq : ∀ i, i < t.size → t.prev[i]? = some (predOf o i)
  chain : ∀ (i : Nat) (k : K) (v : V) (c : Bool), t.slots[i]? = some (Slot.live k v c) → Reach hash t k i
  uniq : ∀ (i j : Nat) (k : K) (v : V) (c : Bool) (v' : V) (c' : Bool), t.slots[i]? = some (Slot.live k v c) → t.slots[j]? = some (Slot.live k v' c') → i = j

theorem Inv.mem_lt {hash : K → Nat} {t : Table K V} {o : List Nat} (h : Inv hash t o) {i : Nat} (hi : i ∈ o) :
    i < t.size := by
  obtain ⟨k, v, c, hs⟩ := (h.live_iff i).mp hi
  have := (List.getElem?_eq_some_iff.mp hs).1
  rw [h.len_slots] at this
  exact this

theorem isLive_iff (s : Slot K V) : s.isLive = true ↔ ∃ k v c, s = .live k v c := by
  cases s <;> simp [Slot.isLive]

theorem not_isLive_iff (s : Slot K V) : s.isLive = false ↔ (s = .empty ∨ s = .freed) := by
  cases s <;> simp [Slot.isLive]

/-! ### lh_table_new -/

theorem new_inv (hash : K → Nat) (n : Nat) (h1 : 0 < n) (h2 : n ≤ intMax) :
    ∃ t : Table K V, new n = .ok t ∧ Inv hash t [] ∧ t.size = n := by
  unfold new
  rw [if_neg (by omega), if_neg (by unfold INT_MAX; omega)]
  refine ⟨_, rfl, ?_, rfl⟩
  refine ⟨h1, h2, (by simp), (by simp), (by simp), List.nodup_nil, ?_, rfl, Nat.zero_le _, rfl, rfl, ?_, ?_, ?_, ?_⟩
  · intro i
    simp only [List.not_mem_nil, false_iff, not_exists]
    intro k v c hs
    rw [List.getElem?_replicate] at hs
    split at hs <;> simp at hs
  · intro i hi
    simp only [succOf]
    rw [List.getElem?_replicate, if_pos hi]
  · intro i hi
    simp only [predOf, predAux]
    rw [List.getElem?_replicate, if_pos hi]
  · intro i k v c hs
    rw [List.getElem?_replicate] at hs
    split at hs <;> simp at hs
  · intro i j k v c v' c' hs
    rw [List.getElem?_replicate] at hs
    split at hs <;> simp at hs

/-! ### lh_table_lookup_entry_w_hash -/

theorem lookupLoop_spec [DecidableEq K] (t : Table K V) (k : K) (home : Nat) (hsz : 0 < t.size)
    (hlen : t.slots.length = t.size) (hb : lhLookupBounded = true) :
    ∀ fuel i, i ≤ t.size → t.size + 1 ≤ fuel + i →
      ∃ r, lookupLoop t k fuel (probe t.size home i) i = .ok r ∧
        (∀ p, r = some p → p < t.size ∧ ∃ v c, t.slots[p]? = some (Slot.live k v c)) ∧
        (r = none → ∀ j, i ≤ j → j < t.size →
          (∀ j', i ≤ j' → j' < j → t.slots[probe t.size home j']? ≠ some Slot.empty) →
          ∀ v c, t.slots[probe t.size home j]? ≠ some (Slot.live k v c)) := by
  intro fuel
  induction fuel with
  | zero => intro i h1 h2; omega
  | succ f ih =>
    intro i h1 h2
    unfold lookupLoop
    by_cases hi : i < t.size
    · have hc : ¬ (lhLookupBounded = true ∧ ¬ i < t.size) := by intro h; exact h.2 hi
      rw [if_neg hc]
      have hp : probe t.size home i < t.slots.length := by rw [hlen]; exact probe_lt _ _ _ hsz
      have hnext := nextIdx_probe t.size home i hsz
      cases hs : t.slots[probe t.size home i]? with
      | none => rw [List.getElem?_eq_none_iff] at hs; omega
      | some s =>
        cases s with
        | empty =>
          refine ⟨none, rfl, (by intro p hp; cases hp), ?_⟩
          intro _ j hj1 hj2 hne v c
          by_cases hji : j = i
          · subst hji; rw [hs]; simp
          · exact absurd hs (hne i (Nat.le_refl _) (by omega))
        | freed =>
          dsimp only
          rw [hnext]
          obtain ⟨r, hr, hsome, hnone⟩ := ih (i + 1) (by omega) (by omega)
          refine ⟨r, hr, hsome, ?_⟩
          intro hrn j hj1 hj2 hne v c
          by_cases hji : j = i
          · subst hji; rw [hs]; simp
          · exact hnone hrn j (by omega) hj2 (fun j' h1 h2 => hne j' (by omega) h2) v c
        | live k' v' c' =>
          dsimp only
          by_cases hk : k' = k
          · rw [if_pos hk]
            subst hk
            refine ⟨some (probe t.size home i), rfl, ?_, (by intro h; cases h)⟩
            intro p hp; cases hp
            exact ⟨probe_lt _ _ _ hsz, v', c', hs⟩
          · rw [if_neg hk, hnext]
            obtain ⟨r, hr, hsome, hnone⟩ := ih (i + 1) (by omega) (by omega)
            refine ⟨r, hr, hsome, ?_⟩
            intro hrn j hj1 hj2 hne v c
            by_cases hji : j = i
            · subst hji; rw [hs]; simp; intro e; exact absurd e hk
            · exact hnone hrn j (by omega) hj2 (fun j' h1 h2 => hne j' (by omega) h2) v c
    · have hc : lhLookupBounded = true ∧ ¬ i < t.size := ⟨hb, hi⟩
      rw [if_pos hc]
      refine ⟨none, rfl, (by intro p hp; cases hp), ?_⟩
      intro _ j hj1 hj2; omega

theorem lookupBounded : lhLookupBounded = true := by decide

/-- lookup answers exactly the live keys, never faults, and its probe loop ends within `size` steps -/
theorem lookupEntry_spec [DecidableEq K] (hash : K → Nat) (t : Table K V) (o : List Nat) (h : Inv hash t o) (k : K) :
    ∃ r, lookupEntryWHash t k (hash k) = .ok r ∧
      (∀ p, r = some p → p < t.size ∧ ∃ v c, t.slots[p]? = some (Slot.live k v c)) ∧
      (r = none → ∀ (p : Nat) (v : V) (c : Bool), t.slots[p]? ≠ some (Slot.live k v c)) := by
  unfold lookupEntryWHash
  rw [if_neg (by have := h.size_pos; omega)]
  obtain ⟨r, hr, hsome, hnone⟩ :=
    lookupLoop_spec t k (hash k % t.size) h.size_pos h.len_slots lookupBounded (t.size + 1) 0 (Nat.zero_le _) (by omega)
  rw [probe_zero _ _ (Nat.mod_lt _ h.size_pos)] at hr
  refine ⟨r, hr, hsome, ?_⟩
  intro hrn p v c hs
  obtain ⟨i0, hi0, hpr, hne⟩ := h.chain p k v c hs
  have := hnone hrn i0 (Nat.zero_le _) hi0 (fun j' _ h2 => hne j' h2) v c
  rw [hpr] at this
  exact this hs

/-! ### the insert probe -/

theorem findFree_spec (t : Table K V) (home : Nat) (hsz : 0 < t.size) (hlen : t.slots.length = t.size) :
    ∀ fuel i, (∃ j, i ≤ j ∧ j < i + fuel ∧ ∀ s, t.slots[probe t.size home j]? = some s → s.isLive = false) →
      ∃ j, findFree t fuel (probe t.size home i) = .ok (probe t.size home j) ∧ i ≤ j ∧ j < i + fuel ∧
        (∀ s, t.slots[probe t.size home j]? = some s → s.isLive = false) ∧
        ∀ j', i ≤ j' → j' < j → ∃ s, t.slots[probe t.size home j']? = some s ∧ s.isLive = true := by
  intro fuel
  induction fuel with
  | zero => intro i ⟨j, h1, h2, _⟩; omega
  | succ f ih =>
    intro i ⟨j0, h1, h2, h3⟩
    unfold findFree
    have hp : probe t.size home i < t.slots.length := by rw [hlen]; exact probe_lt _ _ _ hsz
    cases hs : t.slots[probe t.size home i]? with
    | none => rw [List.getElem?_eq_none_iff] at hs; omega
    | some s =>
      dsimp only
      by_cases hl : s.isLive = true
      · rw [if_pos hl, nextIdx_probe _ _ _ hsz]
        have hne : j0 ≠ i := by
          intro e; subst e
          have := h3 s hs; rw [hl] at this; cases this
        obtain ⟨j, hj, hj1, hj2, hj3, hj4⟩ := ih (i + 1) ⟨j0, by omega, by omega, h3⟩
        refine ⟨j, hj, by omega, by omega, hj3, ?_⟩
        intro j' h4 h5
        by_cases he : j' = i
        · subst he; exact ⟨s, hs, hl⟩
        · exact hj4 j' (by omega) h5
      · rw [if_neg hl]
        refine ⟨i, rfl, Nat.le_refl _, by omega, ?_, ?_⟩
        · intro s' hs'; rw [hs] at hs'; cases hs'; simpa using hl
        · intro j' h4 h5; omega

/-- with fewer live slots than slots, the probe finds a free one within `size` steps -/
theorem findFree_of_room (hash : K → Nat) (t : Table K V) (o : List Nat) (h : Inv hash t o)
    (hroom : o.length < t.size) (home : Nat) (hh : home < t.size) :
    ∃ j, findFree t t.size home = .ok (probe t.size home j) ∧ j < t.size ∧
      (∀ s, t.slots[probe t.size home j]? = some s → s.isLive = false) ∧
      ∀ j', j' < j → ∃ s, t.slots[probe t.size home j']? = some s ∧ s.isLive = true := by
  obtain ⟨p, hp, hpo⟩ := exists_not_mem_of_length_lt t.size o hroom
  obtain ⟨j0, hj0, hpj⟩ := probe_surj t.size home p hh hp
  have hfree : ∀ s, t.slots[probe t.size home j0]? = some s → s.isLive = false := by
    intro s hs
    rw [hpj] at hs
    cases hl : s.isLive with
    | false => rfl
    | true =>
      exfalso
      obtain ⟨k, v, c, e⟩ := (isLive_iff s).mp hl
      exact hpo ((h.live_iff p).mpr ⟨k, v, c, by rw [hs, e]⟩)
  obtain ⟨j, hj, _, hj2, hj3, hj4⟩ :=
    findFree_spec t home h.size_pos h.len_slots t.size 0 ⟨j0, Nat.zero_le _, by omega, hfree⟩
  rw [probe_zero _ _ hh] at hj
  exact ⟨j, hj, by omega, hj3, fun j' h5 => hj4 j' (Nat.zero_le _) h5⟩

/-- emptiness can only shrink: reachability survives -/
theorem Reach.mono {hash : K → Nat} {t t' : Table K V} {k : K} {p : Nat} (hsz : t'.size = t.size)
    (hmono : ∀ q : Nat, t'.slots[q]? = some Slot.empty → t.slots[q]? = some Slot.empty) (h : Reach hash t k p) :
    Reach hash t' k p := by
  obtain ⟨i, hi, hp, hne⟩ := h
  refine ⟨i, by rw [hsz]; exact hi, by rw [hsz]; exact hp, ?_⟩
  intro j hj he
  rw [hsz] at he
  exact hne j hj (hmono _ he)

theorem getElem?_set_live_iff (slots : List (Slot K V)) (n i : Nat) (k : K) (v : V) (c : Bool) (hn : n < slots.length) :
    (slots.set n (Slot.live k v c))[i]? = if n = i then some (Slot.live k v c) else slots[i]? := by
  rw [List.getElem?_set]
  by_cases h : n = i
  · rw [if_pos h, if_pos h, if_pos hn]
  · rw [if_neg h, if_neg h]

/-- a table that differs from `t` by a new live entry in the free slot `n`, linked at the tail -/
theorem inv_place_core (hash : K → Nat) (t t' : Table K V) (o : List Nat) (h : Inv hash t o)
    (k : K) (v : V) (c : Bool) (n : Nat) (hn : n < t.size) (hno : n ∉ o) (hroom : o.length < t.size)
    (hnew : ∀ (p : Nat) (v' : V) (c' : Bool), t.slots[p]? ≠ some (Slot.live k v' c'))
    (hprobe : ∃ j, j < t.size ∧ probe t.size (hash k % t.size) j = n ∧
      ∀ j', j' < j → ∃ s, t.slots[probe t.size (hash k % t.size) j']? = some s ∧ s.isLive = true)
    (hsize : t'.size = t.size) (hslots : t'.slots = t.slots.set n (Slot.live k v c))
    (hcount : t'.count = t.count + 1) (hhead : t'.head = (o ++ [n]).head?) (htail : t'.tail = some n)
    (hnl : t'.next.length = t.size) (hpl : t'.prev.length = t.size)
    (hnext : ∀ i, i < t.size → t'.next[i]? = some (succOf (o ++ [n]) i))
    (hprev : ∀ i, i < t.size → t'.prev[i]? = some (predOf (o ++ [n]) i)) :
    Inv hash t' (o ++ [n]) := by
  have hnl' : n < t.slots.length := by rw [h.len_slots]; exact hn
  have hget : ∀ i, t'.slots[i]? = if n = i then some (Slot.live k v c) else t.slots[i]? := by
    intro i; rw [hslots]; exact getElem?_set_live_iff _ _ _ _ _ _ hnl'
  have hmono : ∀ q : Nat, t'.slots[q]? = some Slot.empty → t.slots[q]? = some Slot.empty := by
    intro q hq
    rw [hget] at hq
    by_cases e : n = q
    · rw [if_pos e] at hq; cases hq
    · rw [if_neg e] at hq; exact hq
  refine ⟨by rw [hsize]; exact h.size_pos, by rw [hsize]; exact h.size_le, ?_, by rw [hsize]; exact hnl,
    by rw [hsize]; exact hpl, ?_, ?_, ?_, ?_, hhead, ?_, ?_, ?_, ?_, ?_⟩
  · rw [hslots, List.length_set, hsize]; exact h.len_slots
  · rw [List.nodup_append]
    refine ⟨h.nodup, (by simp), ?_⟩
    intro a ha b hb
    simp only [List.mem_singleton] at hb
    subst hb
    intro e; subst e; exact hno ha
  · intro i
    rw [List.mem_append, List.mem_singleton, hget]
    by_cases e : n = i
    · rw [if_pos e]
      constructor
      · intro _; exact ⟨k, v, c, rfl⟩
      · intro _; exact Or.inr e.symm
    · rw [if_neg e, ← h.live_iff i]
      constructor
      · rintro (h1 | h1)
        · exact h1
        · exact absurd h1.symm e
      · intro h1; exact Or.inl h1
  · rw [hcount, h.count_eq]; simp
  · rw [hsize]; simp; omega
  · rw [htail]; simp
  · intro i hi; exact hnext i (by rw [hsize] at hi; exact hi)
  · intro i hi; exact hprev i (by rw [hsize] at hi; exact hi)
  · intro i k' v' c' hs
    rw [hget] at hs
    by_cases e : n = i
    · rw [if_pos e] at hs
      cases hs
      subst e
      obtain ⟨j, hj, hpj, hlv⟩ := hprobe
      refine ⟨j, by rw [hsize]; exact hj, by rw [hsize]; exact hpj, ?_⟩
      intro j' hj' he
      rw [hsize] at he
      obtain ⟨s, hs1, hs2⟩ := hlv j' hj'
      have := hmono _ he
      rw [hs1] at this
      cases this
      simp [Slot.isLive] at hs2
    · rw [if_neg e] at hs
      exact Reach.mono hsize hmono (h.chain i k' v' c' hs)
  · intro a b k' va ca vb cb hga hgb
    rw [hget] at hga hgb
    by_cases ea : n = a <;> by_cases eb : n = b
    · omega
    · rw [if_pos ea] at hga; rw [if_neg eb] at hgb
      cases hga
      exact absurd hgb (hnew b vb cb)
    · rw [if_neg ea] at hga; rw [if_pos eb] at hgb
      cases hgb
      exact absurd hga (hnew a va ca)
    · rw [if_neg ea] at hga; rw [if_neg eb] at hgb
      exact h.uniq a b k' va ca vb cb hga hgb

theorem getElem?_set_opt (l : List (Option Nat)) (a i : Nat) (x : Option Nat) (ha : a < l.length) :
    (l.set a x)[i]? = if a = i then some x else l[i]? := by
  rw [List.getElem?_set]
  by_cases h : a = i
  · rw [if_pos h, if_pos h, if_pos ha]
  · rw [if_neg h, if_neg h]

/-- lh_table_insert_w_hash after the load test: with a free slot available and the key absent, the
entry lands in the first EMPTY/FREED slot of its probe sequence and becomes the tail of the list -/
theorem place_spec (hash : K → Nat) (t : Table K V) (o : List Nat) (h : Inv hash t o) (k : K) (v : V) (c : Bool)
    (hroom : o.length < t.size)
    (hnew : ∀ (p : Nat) (v' : V) (c' : Bool), t.slots[p]? ≠ some (Slot.live k v' c')) :
    ∃ n t', place t k v (hash k) c = .ok t' ∧ n < t.size ∧ n ∉ o ∧ Inv hash t' (o ++ [n]) ∧
      t'.size = t.size ∧ t'.slots = t.slots.set n (Slot.live k v c) := by
  obtain ⟨j, hff, hj, hfree, hlive⟩ :=
    findFree_of_room hash t o h hroom (hash k % t.size) (Nat.mod_lt _ h.size_pos)
  have hn : probe t.size (hash k % t.size) j < t.size := probe_lt _ _ _ h.size_pos
  generalize hnd : probe t.size (hash k % t.size) j = n at hff hfree hn
  have hno : n ∉ o := by
    intro hm
    obtain ⟨k', v', c', e⟩ := (h.live_iff n).mp hm
    have := hfree _ e
    simp [Slot.isLive] at this
  have hprobe : ∃ j, j < t.size ∧ probe t.size (hash k % t.size) j = n ∧
      ∀ j', j' < j → ∃ s, t.slots[probe t.size (hash k % t.size) j']? = some s ∧ s.isLive = true :=
    ⟨j, hj, hnd, hlive⟩
  have hcnt : ¬ (t.count + 1 > ((INT_MAX : Nat) : Int)) := by
    have := h.size_le; have := h.count_eq
    unfold INT_MAX; omega
  have hnl := h.len_next
  have hpl := h.len_prev
  unfold place
  rw [if_neg (by have := h.size_pos; omega), hff]
  dsimp only
  rw [if_neg (by rw [hnl, hpl]; exact fun hc => hc ⟨hn, hn⟩), if_neg hcnt]
  cases hh : t.head with
  | none =>
    have ho : o = [] := by
      have := h.head_eq; rw [hh] at this
      exact List.head?_eq_none_iff.mp this.symm
    subst ho
    refine ⟨n, _, rfl, hn, hno, ?_, rfl, rfl⟩
    refine inv_place_core hash t _ [] h k v c n hn hno hroom hnew hprobe ?_ ?_ ?_ ?_ ?_ ?_ ?_ ?_ ?_
    · rfl
    · rfl
    · rfl
    · rfl
    · rfl
    · simp [hnl]
    · simp [hpl]
    · intro i hi
      dsimp only
      rw [getElem?_set_opt _ _ _ _ (by omega), h.next_eq i hi]
      by_cases e : n = i
      · subst e; simp [succOf]
      · rw [if_neg e]; simp [succOf, Ne.symm e]
    · intro i hi
      dsimp only
      rw [getElem?_set_opt _ _ _ _ (by omega), h.prev_eq i hi]
      by_cases e : n = i
      · subst e; simp [predOf, predAux]
      · rw [if_neg e]; simp [predOf, predAux, Ne.symm e]
  | some hd =>
    dsimp only
    have ho : o ≠ [] := by
      intro e; subst e
      have := h.head_eq; rw [hh] at this; simp at this
    obtain ⟨tl, htl⟩ : ∃ tl, o.getLast? = some tl := by
      cases hg : o.getLast? with
      | none => exact absurd (List.getLast?_eq_none_iff.mp hg) ho
      | some x => exact ⟨x, rfl⟩
    have htail : t.tail = some tl := by rw [h.tail_eq, htl]
    have htlo : tl ∈ o := List.mem_of_getLast? htl
    have htls : tl < t.size := h.mem_lt htlo
    have htn : tl ≠ n := fun e => hno (e ▸ htlo)
    rw [htail]
    dsimp only
    rw [if_neg (by rw [hnl]; omega)]
    refine ⟨n, _, rfl, hn, hno, ?_, rfl, rfl⟩
    refine inv_place_core hash t _ o h k v c n hn hno hroom hnew hprobe ?_ ?_ ?_ ?_ ?_ ?_ ?_ ?_ ?_
    · rfl
    · rfl
    · rfl
    · dsimp only
      have hhd : o.head? = some hd := by rw [← h.head_eq]; exact hh
      cases o with
      | nil => exact absurd rfl ho
      | cons a rest => simp at hhd; simp [hhd]
    · rfl
    · simp [hnl]
    · simp [hpl]
    · intro i hi
      dsimp only
      rw [getElem?_set_opt _ _ _ _ (by simp; omega), getElem?_set_opt _ _ _ _ (by omega), h.next_eq i hi,
        succOf_append o n i h.nodup hno, htl]
      by_cases e : n = i
      · subst e
        rw [if_pos rfl, if_neg (by simpa using htn), succOf_not_mem _ _ hno]
      · rw [if_neg e]
        by_cases e2 : tl = i
        · subst e2; rw [if_pos rfl, if_pos rfl]
        · rw [if_neg e2, if_neg (by simpa using e2)]
    · intro i hi
      dsimp only
      rw [getElem?_set_opt _ _ _ _ (by omega), h.prev_eq i hi, predOf_append o n i hno, htl]
      by_cases e : n = i
      · subst e; rw [if_pos rfl, if_pos rfl]
      · rw [if_neg e, if_neg (Ne.symm e)]

/-! ### lh_table_delete_entry -/

theorem getElem?_set_freed (slots : List (Slot K V)) (n i : Nat) (hn : n < slots.length) :
    (slots.set n Slot.freed)[i]? = if n = i then some Slot.freed else slots[i]? := by
  rw [List.getElem?_set]
  by_cases h : n = i
  · rw [if_pos h, if_pos h, if_pos hn]
  · rw [if_neg h, if_neg h]

/-- a table that differs from `t` by the tombstone in slot `n` and by `n` being unlinked -/
theorem inv_delete_core (hash : K → Nat) (t t' : Table K V) (o : List Nat) (h : Inv hash t o)
    (n : Nat) (hno : n ∈ o)
    (hsize : t'.size = t.size) (hslots : t'.slots = t.slots.set n Slot.freed)
    (hcount : t'.count = t.count - 1) (hhead : t'.head = (o.erase n).head?) (htail : t'.tail = (o.erase n).getLast?)
    (hnl : t'.next.length = t.size) (hpl : t'.prev.length = t.size)
    (hnext : ∀ i, i < t.size → t'.next[i]? = some (succOf (o.erase n) i))
    (hprev : ∀ i, i < t.size → t'.prev[i]? = some (predOf (o.erase n) i)) :
    Inv hash t' (o.erase n) := by
  have hn : n < t.size := h.mem_lt hno
  have hnl' : n < t.slots.length := by rw [h.len_slots]; exact hn
  have hget : ∀ i, t'.slots[i]? = if n = i then some Slot.freed else t.slots[i]? := by
    intro i; rw [hslots]; exact getElem?_set_freed _ _ _ hnl'
  have hmono : ∀ q : Nat, t'.slots[q]? = some Slot.empty → t.slots[q]? = some Slot.empty := by
    intro q hq
    rw [hget] at hq
    by_cases e : n = q
    · rw [if_pos e] at hq; cases hq
    · rw [if_neg e] at hq; exact hq
  have hlen : (o.erase n).length = o.length - 1 := List.length_erase_of_mem hno
  have hpos : 0 < o.length := List.length_pos_of_mem hno
  refine ⟨by rw [hsize]; exact h.size_pos, by rw [hsize]; exact h.size_le, ?_, by rw [hsize]; exact hnl,
    by rw [hsize]; exact hpl, h.nodup.erase n, ?_, ?_, ?_, hhead, htail, ?_, ?_, ?_, ?_⟩
  · rw [hslots, List.length_set, hsize]; exact h.len_slots
  · intro i
    rw [h.nodup.mem_erase_iff, hget]
    by_cases e : n = i
    · rw [if_pos e]
      constructor
      · intro h1; exact absurd e.symm h1.1
      · rintro ⟨k, v, c, h1⟩; cases h1
    · rw [if_neg e, ← h.live_iff i]
      constructor
      · intro h1; exact h1.2
      · intro h1; exact ⟨Ne.symm e, h1⟩
  · rw [hcount, h.count_eq, hlen]; omega
  · rw [hsize, hlen]; have := h.count_le; omega
  · intro i hi; exact hnext i (by rw [hsize] at hi; exact hi)
  · intro i hi; exact hprev i (by rw [hsize] at hi; exact hi)
  · intro i k' v' c' hs
    rw [hget] at hs
    by_cases e : n = i
    · rw [if_pos e] at hs; cases hs
    · rw [if_neg e] at hs
      exact Reach.mono hsize hmono (h.chain i k' v' c' hs)
  · intro a b k' va ca vb cb hga hgb
    rw [hget] at hga hgb
    by_cases ea : n = a
    · rw [if_pos ea] at hga; cases hga
    · by_cases eb : n = b
      · rw [if_pos eb] at hgb; cases hgb
      · rw [if_neg ea] at hga; rw [if_neg eb] at hgb
        exact h.uniq a b k' va ca vb cb hga hgb

/-- lh_table_delete_entry on a live entry: tombstone, `count--`, free_fn called on it, unlinked
from the list in each of the four cases (only entry / head / tail / interior) without NULL dereference -/
theorem deleteEntry_spec (hash : K → Nat) (t : Table K V) (o : List Nat) (h : Inv hash t o)
    (n : Nat) (k : K) (v : V) (c : Bool) (hs : t.slots[n]? = some (Slot.live k v c)) :
    ∃ r, deleteEntry t n = .ok r ∧ r.ret = 0 ∧ r.freed = [(k, c, v)] ∧ r.tags = [] ∧ Inv hash r.t (o.erase n) ∧
      r.t.size = t.size ∧ r.t.slots = t.slots.set n Slot.freed := by
  have hno : n ∈ o := (h.live_iff n).mpr ⟨k, v, c, hs⟩
  have hn : n < t.size := h.mem_lt hno
  have hnl := h.len_next
  have hpl := h.len_prev
  have hnd := h.nodup
  have hS : ∀ i, i < t.size → t.next[i]? = some (succOf o i) := h.next_eq
  have hP : ∀ i, i < t.size → t.prev[i]? = some (predOf o i) := h.prev_eq
  unfold deleteEntry
  rw [hs]
  dsimp only
  rw [if_neg (by rw [hnl, hpl]; exact fun hc => hc ⟨hn, hn⟩)]
  by_cases hT : t.tail = some n
  · by_cases hH : t.head = some n
    · -- the only entry
      rw [if_pos ⟨hT, hH⟩]
      have hl : o.getLast? = some n := by rw [← h.tail_eq]; exact hT
      have hh : o.head? = some n := by rw [← h.head_eq]; exact hH
      refine ⟨_, rfl, rfl, rfl, rfl, ?_, rfl, rfl⟩
      refine inv_delete_core hash t _ o h n hno ?_ ?_ ?_ ?_ ?_ ?_ ?_ ?_ ?_
      · rfl
      · rfl
      · rfl
      · dsimp only; rw [head?_erase, if_pos hh, succOf_last o n hnd hl]
      · dsimp only; rw [getLast?_erase o n hnd, if_pos hl, predOf_head o n hh]
      · simp [hnl]
      · simp [hpl]
      · intro i hi
        dsimp only
        rw [getElem?_set_opt _ _ _ _ (by omega), hS i hi, succOf_erase o n i hnd]
        by_cases e : n = i
        · rw [if_pos e, if_pos e.symm]
        · rw [if_neg e, if_neg (Ne.symm e), if_neg (succOf_ne_head o hnd n i hh)]
      · intro i hi
        dsimp only
        rw [getElem?_set_opt _ _ _ _ (by omega), hP i hi, predOf_erase o n i hnd]
        by_cases e : n = i
        · rw [if_pos e, if_pos e.symm]
        · rw [if_neg e, if_neg (Ne.symm e), if_neg (predOf_ne_last o hnd n i hl)]
    · -- the tail, not the head
      rw [if_neg (fun hc => hH hc.2), if_neg hH, if_pos hT]
      have hl : o.getLast? = some n := by rw [← h.tail_eq]; exact hT
      have hh : o.head? ≠ some n := by rw [← h.head_eq]; exact hH
      obtain ⟨pv, hpv⟩ := predOf_some_of_not_head o n hno hh
      have hpvo : pv ∈ o := (predOf_mem o n pv hpv).2
      have hpvs : pv < t.size := h.mem_lt hpvo
      have hsp : succOf o pv = some n := (succ_pred o hnd pv n).mp hpv
      have hpvn : pv ≠ n := by intro e; rw [e] at hsp; exact succOf_ne_self o hnd n hsp
      rw [hP n hn, hpv]
      dsimp only
      rw [if_neg (by rw [hnl]; omega)]
      refine ⟨_, rfl, rfl, rfl, rfl, ?_, rfl, rfl⟩
      refine inv_delete_core hash t _ o h n hno ?_ ?_ ?_ ?_ ?_ ?_ ?_ ?_ ?_
      · rfl
      · rfl
      · rfl
      · dsimp only; rw [head?_erase, if_neg hh]; exact h.head_eq
      · dsimp only; rw [getLast?_erase o n hnd, if_pos hl, hpv]
      · simp [hnl]
      · simp [hpl]
      · intro i hi
        dsimp only
        rw [getElem?_set_opt _ _ _ _ (by simp; omega), getElem?_set_opt _ _ _ _ (by omega), hS i hi,
          succOf_erase o n i hnd]
        by_cases e : n = i
        · rw [if_pos e, if_pos e.symm]
        · rw [if_neg e, if_neg (Ne.symm e)]
          by_cases e2 : pv = i
          · subst e2; rw [if_pos rfl, if_pos hsp, succOf_last o n hnd hl]
          · rw [if_neg e2, if_neg]
            intro hc
            have := (succ_pred o hnd i n).mpr hc
            rw [hpv] at this; cases this; exact e2 rfl
      · intro i hi
        dsimp only
        rw [getElem?_set_opt _ _ _ _ (by omega), hP i hi, predOf_erase o n i hnd]
        by_cases e : n = i
        · rw [if_pos e, if_pos e.symm]
        · rw [if_neg e, if_neg (Ne.symm e), if_neg (predOf_ne_last o hnd n i hl)]
  · by_cases hH : t.head = some n
    · -- the head, not the tail
      rw [if_neg (fun hc => hT hc.1), if_pos hH]
      have hh : o.head? = some n := by rw [← h.head_eq]; exact hH
      have hl : o.getLast? ≠ some n := by rw [← h.tail_eq]; exact hT
      obtain ⟨nx, hnx⟩ := succOf_some_of_not_last o n hno hl
      have hnxo : nx ∈ o := (succOf_mem o n nx hnx).2
      have hnxs : nx < t.size := h.mem_lt hnxo
      have hps : predOf o nx = some n := (succ_pred o hnd n nx).mpr hnx
      have hnxn : nx ≠ n := by intro e; rw [e] at hnx; exact succOf_ne_self o hnd n hnx
      rw [hS n hn, hnx]
      dsimp only
      rw [if_neg (by rw [hpl]; omega)]
      refine ⟨_, rfl, rfl, rfl, rfl, ?_, rfl, rfl⟩
      refine inv_delete_core hash t _ o h n hno ?_ ?_ ?_ ?_ ?_ ?_ ?_ ?_ ?_
      · rfl
      · rfl
      · rfl
      · dsimp only; rw [head?_erase, if_pos hh, hnx]
      · dsimp only; rw [getLast?_erase o n hnd, if_neg hl]; exact h.tail_eq
      · simp [hnl]
      · simp [hpl]
      · intro i hi
        dsimp only
        rw [getElem?_set_opt _ _ _ _ (by omega), hS i hi, succOf_erase o n i hnd]
        by_cases e : n = i
        · rw [if_pos e, if_pos e.symm]
        · rw [if_neg e, if_neg (Ne.symm e), if_neg (succOf_ne_head o hnd n i hh)]
      · intro i hi
        dsimp only
        rw [getElem?_set_opt _ _ _ _ (by simp; omega), getElem?_set_opt _ _ _ _ (by omega), hP i hi,
          predOf_erase o n i hnd]
        by_cases e : n = i
        · rw [if_pos e, if_pos e.symm]
        · rw [if_neg e, if_neg (Ne.symm e)]
          by_cases e2 : nx = i
          · subst e2; rw [if_pos rfl, if_pos hps, predOf_head o n hh]
          · rw [if_neg e2, if_neg]
            intro hc
            have := (succ_pred o hnd n i).mp hc
            rw [hnx] at this; cases this; exact e2 rfl
    · -- an interior entry
      rw [if_neg (fun hc => hT hc.1), if_neg hH, if_neg hT]
      have hh : o.head? ≠ some n := by rw [← h.head_eq]; exact hH
      have hl : o.getLast? ≠ some n := by rw [← h.tail_eq]; exact hT
      obtain ⟨nx, hnx⟩ := succOf_some_of_not_last o n hno hl
      obtain ⟨pv, hpv⟩ := predOf_some_of_not_head o n hno hh
      have hnxo : nx ∈ o := (succOf_mem o n nx hnx).2
      have hnxs : nx < t.size := h.mem_lt hnxo
      have hps : predOf o nx = some n := (succ_pred o hnd n nx).mpr hnx
      have hnxn : nx ≠ n := by intro e; rw [e] at hnx; exact succOf_ne_self o hnd n hnx
      have hpvo : pv ∈ o := (predOf_mem o n pv hpv).2
      have hpvs : pv < t.size := h.mem_lt hpvo
      have hsp : succOf o pv = some n := (succ_pred o hnd pv n).mp hpv
      have hpvn : pv ≠ n := by intro e; rw [e] at hsp; exact succOf_ne_self o hnd n hsp
      rw [hP n hn, hS n hn, hpv, hnx]
      dsimp only
      rw [if_neg (by rw [hnl, hpl]; exact fun hc => hc ⟨hpvs, hnxs⟩)]
      refine ⟨_, rfl, rfl, rfl, rfl, ?_, rfl, rfl⟩
      refine inv_delete_core hash t _ o h n hno ?_ ?_ ?_ ?_ ?_ ?_ ?_ ?_ ?_
      · rfl
      · rfl
      · rfl
      · dsimp only; rw [head?_erase, if_neg hh]; exact h.head_eq
      · dsimp only; rw [getLast?_erase o n hnd, if_neg hl]; exact h.tail_eq
      · simp [hnl]
      · simp [hpl]
      · intro i hi
        dsimp only
        rw [getElem?_set_opt _ _ _ _ (by simp; omega), getElem?_set_opt _ _ _ _ (by omega), hS i hi,
          succOf_erase o n i hnd]
        by_cases e : n = i
        · rw [if_pos e, if_pos e.symm]
        · rw [if_neg e, if_neg (Ne.symm e)]
          by_cases e2 : pv = i
          · subst e2; rw [if_pos rfl, if_pos hsp, hnx]
          · rw [if_neg e2, if_neg]
            intro hc
            have := (succ_pred o hnd i n).mpr hc
            rw [hpv] at this; cases this; exact e2 rfl
      · intro i hi
        dsimp only
        rw [getElem?_set_opt _ _ _ _ (by simp; omega), getElem?_set_opt _ _ _ _ (by omega), hP i hi,
          predOf_erase o n i hnd]
        by_cases e : n = i
        · rw [if_pos e, if_pos e.symm]
        · rw [if_neg e, if_neg (Ne.symm e)]
          by_cases e2 : nx = i
          · subst e2; rw [if_pos rfl, if_pos hps, hpv]
          · rw [if_neg e2, if_neg]
            intro hc
            have := (succ_pred o hnd n i).mp hc
            rw [hnx] at this; cases this; exact e2 rfl

/-- lh_table_delete_entry on a slot that holds no entry: -1, nothing changes -/
theorem deleteEntry_dead (t : Table K V) (n : Nat) (s : Slot K V) (hs : t.slots[n]? = some s) (hl : s.isLive = false) :
    deleteEntry t n = .ok { t := t, ret := -1 } := by
  unfold deleteEntry
  rw [hs]
  cases s with
  | empty => rfl
  | freed => rfl
  | live k v c => simp [Slot.isLive] at hl

/-! ### the abstraction: how `absOf` follows the slot array -/

theorem entryAt_live (t : Table K V) (i : Nat) (k : K) (v : V) (c : Bool) (h : t.slots[i]? = some (Slot.live k v c)) :
    entryAt t i = some (k, v) := by
  unfold entryAt; rw [h]

theorem entryAt_eq_some (t : Table K V) (i : Nat) (k : K) (v : V) (h : entryAt t i = some (k, v)) :
    ∃ c, t.slots[i]? = some (Slot.live k v c) := by
  unfold entryAt at h
  split at h
  · rename_i k' v' c' heq; cases h; exact ⟨c', heq⟩
  · cases h

theorem entryAt_congr (t t' : Table K V) (i : Nat) (h : t'.slots[i]? = t.slots[i]?) : entryAt t' i = entryAt t i := by
  unfold entryAt; rw [h]

theorem absOf_congr (t t' : Table K V) (o : List Nat) (h : ∀ i, i ∈ o → t'.slots[i]? = t.slots[i]?) :
    absOf t' o = absOf t o := by
  unfold absOf
  induction o with
  | nil => rfl
  | cons a rest ih =>
    simp only [List.filterMap_cons]
    rw [entryAt_congr t t' a (h a (by simp)), ih (fun i hi => h i (by simp [hi]))]

theorem absOf_length (hash : K → Nat) (t : Table K V) (o : List Nat) (h : Inv hash t o) :
    (absOf t o).length = o.length := by
  unfold absOf
  have : ∀ l : List Nat, (∀ i, i ∈ l → i ∈ o) → (l.filterMap (entryAt t)).length = l.length := by
    intro l
    induction l with
    | nil => intro _; rfl
    | cons a rest ih =>
      intro hl
      obtain ⟨k, v, c, hs⟩ := (h.live_iff a).mp (hl a (by simp))
      simp only [List.filterMap_cons, entryAt_live t a k v c hs, List.length_cons]
      rw [ih (fun i hi => hl i (by simp [hi]))]
  exact this o (fun _ hi => hi)

theorem absOf_place (t t' : Table K V) (o : List Nat) (n : Nat) (k : K) (v : V) (c : Bool)
    (hn : n < t.slots.length) (hno : n ∉ o) (hslots : t'.slots = t.slots.set n (Slot.live k v c)) :
    absOf t' (o ++ [n]) = absOf t o ++ [(k, v)] := by
  have hget : ∀ i, t'.slots[i]? = if n = i then some (Slot.live k v c) else t.slots[i]? := by
    intro i; rw [hslots]; exact getElem?_set_live_iff _ _ _ _ _ _ hn
  unfold absOf
  rw [List.filterMap_append]
  congr 1
  · exact absOf_congr t t' o (fun i hi => by rw [hget, if_neg]; intro e; exact hno (e ▸ hi))
  · simp only [List.filterMap_cons, List.filterMap_nil]
    rw [entryAt_live t' n k v c (by rw [hget, if_pos rfl])]

theorem mem_keys_absOf (t : Table K V) (o : List Nat) (k : K) :
    k ∈ OrdMap.keys (absOf t o) ↔ ∃ i, i ∈ o ∧ ∃ v c, t.slots[i]? = some (Slot.live k v c) := by
  unfold OrdMap.keys absOf
  simp only [List.mem_map, List.mem_filterMap]
  constructor
  · rintro ⟨⟨k', v⟩, ⟨i, hi, he⟩, hk⟩
    simp at hk; subst hk
    obtain ⟨c, hc⟩ := entryAt_eq_some t i k' v he
    exact ⟨i, hi, v, c, hc⟩
  · rintro ⟨i, hi, v, c, hs⟩
    exact ⟨(k, v), ⟨i, hi, entryAt_live t i k v c hs⟩, rfl⟩

/-- the keys of the abstraction are pairwise distinct -/
theorem absOf_wf (hash : K → Nat) (t : Table K V) (o : List Nat) (h : Inv hash t o) : OrdMap.WF (absOf t o) := by
  unfold OrdMap.WF
  have : ∀ l : List Nat, l.Nodup → (∀ i, i ∈ l → i ∈ o) → (OrdMap.keys (absOf t l)).Nodup := by
    intro l
    induction l with
    | nil => intro _ _; simp [OrdMap.keys, absOf]
    | cons a rest ih =>
      intro hn hl
      rw [List.nodup_cons] at hn
      obtain ⟨k, v, c, hs⟩ := (h.live_iff a).mp (hl a (by simp))
      have e : absOf t (a :: rest) = (k, v) :: absOf t rest := by
        unfold absOf; simp only [List.filterMap_cons, entryAt_live t a k v c hs]
      rw [e]
      show (k :: OrdMap.keys (absOf t rest)).Nodup
      rw [List.nodup_cons]
      refine ⟨?_, ih hn.2 (fun i hi => hl i (by simp [hi]))⟩
      intro hk
      obtain ⟨i, hi, v', c', hs'⟩ := (mem_keys_absOf t rest k).mp hk
      have := h.uniq a i k v c v' c' hs hs'
      subst this
      exact hn.1 hi
  exact this o h.nodup (fun _ hi => hi)

section
variable [DecidableEq K]

theorem lookup_absOf_none (t : Table K V) (o : List Nat) (k : K)
    (h : ∀ (p : Nat) (v : V) (c : Bool), t.slots[p]? ≠ some (Slot.live k v c)) :
    OrdMap.lookup (absOf t o) k = none := by
  unfold absOf
  induction o with
  | nil => rfl
  | cons a rest ih =>
    simp only [List.filterMap_cons]
    cases he : entryAt t a with
    | none => exact ih
    | some kv =>
      obtain ⟨k', v'⟩ := kv
      obtain ⟨c, hc⟩ := entryAt_eq_some t a k' v' he
      have : k' ≠ k := by intro e; subst e; exact h a v' c hc
      simp only [OrdMap.lookup, if_neg this]
      exact ih

theorem lookup_absOf_some (hash : K → Nat) (t : Table K V) (o : List Nat) (h : Inv hash t o) (n : Nat) (k : K) (v : V) (c : Bool)
    (hs : t.slots[n]? = some (Slot.live k v c)) : OrdMap.lookup (absOf t o) k = some v := by
  have hno : n ∈ o := (h.live_iff n).mpr ⟨k, v, c, hs⟩
  unfold absOf
  have : ∀ l : List Nat, n ∈ l → OrdMap.lookup (l.filterMap (entryAt t)) k = some v := by
    intro l
    induction l with
    | nil => intro hm; simp at hm
    | cons a rest ih =>
      intro hm
      simp only [List.filterMap_cons]
      by_cases e : a = n
      · subst e
        rw [entryAt_live t a k v c hs]
        simp [OrdMap.lookup]
      · have hm' : n ∈ rest := by
          rcases List.mem_cons.mp hm with h1 | h1
          · exact absurd h1.symm e
          · exact h1
        cases he : entryAt t a with
        | none => exact ih hm'
        | some kv =>
          obtain ⟨k', v'⟩ := kv
          obtain ⟨c', hc⟩ := entryAt_eq_some t a k' v' he
          have : k' ≠ k := by
            intro e2; subst e2
            exact e (h.uniq a n k' v' c' v c hc hs)
          simp only [OrdMap.lookup, if_neg this]
          exact ih hm'
  exact this o hno

theorem contains_absOf_false (t : Table K V) (o : List Nat) (k : K) (h : OrdMap.contains (absOf t o) k = false)
    (hash : K → Nat) (hi : Inv hash t o) :
    ∀ (p : Nat) (v : V) (c : Bool), t.slots[p]? ≠ some (Slot.live k v c) := by
  intro p v c hs
  have := lookup_absOf_some hash t o hi p k v c hs
  unfold OrdMap.contains at h
  rw [this] at h
  cases h

theorem absOf_delete (hash : K → Nat) (t t' : Table K V) (o : List Nat) (h : Inv hash t o) (n : Nat) (k : K) (v : V) (c : Bool)
    (hs : t.slots[n]? = some (Slot.live k v c)) (hslots : t'.slots = t.slots.set n Slot.freed) :
    absOf t' (o.erase n) = OrdMap.del (absOf t o) k := by
  have hnl : n < t.slots.length := (List.getElem?_eq_some_iff.mp hs).1
  have hget : ∀ i, t'.slots[i]? = if n = i then some Slot.freed else t.slots[i]? := by
    intro i; rw [hslots]; exact getElem?_set_freed _ _ _ hnl
  have key : ∀ l : List Nat, l.Nodup →
      absOf t' (l.erase n) = OrdMap.del (absOf t l) k := by
    intro l
    induction l with
    | nil => intro _; rfl
    | cons a rest ih =>
      intro hn
      rw [List.nodup_cons] at hn
      rw [List.erase_cons]
      by_cases e : a = n
      · subst e
        rw [if_pos (by simp)]
        have e1 : absOf t (a :: rest) = (k, v) :: absOf t rest := by
          unfold absOf; simp only [List.filterMap_cons, entryAt_live t a k v c hs]
        rw [e1]
        unfold OrdMap.del
        rw [List.filter_cons, if_neg (by simp)]
        rw [absOf_congr t t' rest (fun i hi => by rw [hget, if_neg]; intro e; exact hn.1 (e ▸ hi))]
        -- nothing else in `rest` has key k
        symm
        rw [List.filter_eq_self]
        intro kv hkv
        unfold absOf at hkv
        rw [List.mem_filterMap] at hkv
        obtain ⟨i, hi, he⟩ := hkv
        obtain ⟨k', v'⟩ := kv
        obtain ⟨c', hc⟩ := entryAt_eq_some t i k' v' he
        simp only [decide_eq_true_eq]
        intro e2; subst e2
        have := h.uniq a i k' v c v' c' hs hc
        subst this
        exact hn.1 hi
      · have e' : ¬ (a == n) = true := by simpa using e
        rw [if_neg e']
        have ha : t'.slots[a]? = t.slots[a]? := by rw [hget, if_neg (Ne.symm e)]
        have ih' := ih hn.2
        unfold absOf at ih' ⊢
        simp only [List.filterMap_cons]
        rw [entryAt_congr t t' a ha]
        cases he : entryAt t a with
        | none => exact ih'
        | some kv =>
          obtain ⟨k', v'⟩ := kv
          obtain ⟨c', hc⟩ := entryAt_eq_some t a k' v' he
          have hk : k' ≠ k := by
            intro e2; subst e2
            exact e (h.uniq a n k' v' c' v c hc hs)
          dsimp only
          unfold OrdMap.del at ih' ⊢
          rw [List.filter_cons, if_pos (by simpa using hk), ih']
  exact key o h.nodup

/-- deleting an absent key leaves the map alone -/
theorem del_absOf_absent (t : Table K V) (o : List Nat) (k : K)
    (h : ∀ (p : Nat) (v : V) (c : Bool), t.slots[p]? ≠ some (Slot.live k v c)) :
    OrdMap.del (absOf t o) k = absOf t o := by
  unfold OrdMap.del
  rw [List.filter_eq_self]
  intro kv hkv
  unfold absOf at hkv
  rw [List.mem_filterMap] at hkv
  obtain ⟨i, hi, he⟩ := hkv
  obtain ⟨k', v'⟩ := kv
  obtain ⟨c', hc⟩ := entryAt_eq_some t i k' v' he
  simp only [decide_eq_true_eq]
  intro e2; subst e2
  exact h i v' c' hc

theorem absOf_replace (hash : K → Nat) (t t' : Table K V) (o : List Nat) (h : Inv hash t o) (n : Nat)
    (k : K) (v0 v : V) (c : Bool)
    (hs : t.slots[n]? = some (Slot.live k v0 c)) (hslots : t'.slots = t.slots.set n (Slot.live k v c)) :
    absOf t' o = OrdMap.replace (absOf t o) k v := by
  have hnl : n < t.slots.length := (List.getElem?_eq_some_iff.mp hs).1
  have hget : ∀ i, t'.slots[i]? = if n = i then some (Slot.live k v c) else t.slots[i]? := by
    intro i; rw [hslots]; exact getElem?_set_live_iff _ _ _ _ _ _ hnl
  have key : ∀ l : List Nat, l.Nodup → absOf t' l = OrdMap.replace (absOf t l) k v := by
    intro l
    induction l with
    | nil => intro _; rfl
    | cons a rest ih =>
      intro hn
      rw [List.nodup_cons] at hn
      unfold absOf
      simp only [List.filterMap_cons]
      by_cases e : a = n
      · subst e
        rw [entryAt_live t a k v0 c hs, entryAt_live t' a k v c (by rw [hget, if_pos rfl])]
        simp only [OrdMap.replace, if_pos]
        congr 1
        exact absOf_congr t t' rest (fun i hi => by rw [hget, if_neg]; intro e; exact hn.1 (e ▸ hi))
      · have ha : t'.slots[a]? = t.slots[a]? := by rw [hget, if_neg (Ne.symm e)]
        rw [entryAt_congr t t' a ha]
        have ih' := ih hn.2
        unfold absOf at ih'
        cases he : entryAt t a with
        | none => exact ih'
        | some kv =>
          obtain ⟨k', v'⟩ := kv
          obtain ⟨c', hc⟩ := entryAt_eq_some t a k' v' he
          have hk : k' ≠ k := by
            intro e2; subst e2
            exact e (h.uniq a n k' v' c' v0 c hc hs)
          simp only [OrdMap.replace, if_neg hk]
          rw [ih']
  exact key o h.nodup

end

/-! ### exchanging the value of an entry (json_object_object_add_ex on an existing key) -/

theorem inv_replace (hash : K → Nat) (t : Table K V) (o : List Nat) (h : Inv hash t o) (n : Nat)
    (k : K) (v0 v : V) (c : Bool) (hs : t.slots[n]? = some (Slot.live k v0 c)) :
    Inv hash { t with slots := t.slots.set n (Slot.live k v c) } o := by
  have hnl : n < t.slots.length := (List.getElem?_eq_some_iff.mp hs).1
  have hget : ∀ i, (t.slots.set n (Slot.live k v c))[i]? = if n = i then some (Slot.live k v c) else t.slots[i]? := by
    intro i; exact getElem?_set_live_iff _ _ _ _ _ _ hnl
  have hmono : ∀ q : Nat, (t.slots.set n (Slot.live k v c))[q]? = some Slot.empty → t.slots[q]? = some Slot.empty := by
    intro q hq
    rw [hget] at hq
    by_cases e : n = q
    · rw [if_pos e] at hq; cases hq
    · rw [if_neg e] at hq; exact hq
  refine ⟨h.size_pos, h.size_le, ?_, h.len_next, h.len_prev, h.nodup, ?_, h.count_eq, h.count_le, h.head_eq,
    h.tail_eq, h.next_eq, h.prev_eq, ?_, ?_⟩
  · dsimp only; rw [List.length_set]; exact h.len_slots
  · intro i
    dsimp only
    rw [hget, h.live_iff i]
    by_cases e : n = i
    · subst e; rw [if_pos rfl]
      constructor
      · intro _; exact ⟨k, v, c, rfl⟩
      · intro _; exact ⟨k, v0, c, hs⟩
    · rw [if_neg e]
  · intro i k' v' c' hs'
    dsimp only at hs'
    rw [hget] at hs'
    have hr : Reach hash t k' i := by
      by_cases e : n = i
      · rw [if_pos e] at hs'
        simp only [Option.some.injEq, Slot.live.injEq] at hs'
        obtain ⟨rfl, rfl, rfl⟩ := hs'
        subst e; exact h.chain n k v0 c hs
      · rw [if_neg e] at hs'; exact h.chain i k' v' c' hs'
    exact Reach.mono (t := t) (t' := { t with slots := t.slots.set n (Slot.live k v c) }) rfl hmono hr
  · intro a b k' va ca vb cb hga hgb
    dsimp only at hga hgb
    rw [hget] at hga hgb
    have ha : ∃ va' , t.slots[a]? = some (Slot.live k' va' ca) := by
      by_cases e : n = a
      · rw [if_pos e] at hga
        simp only [Option.some.injEq, Slot.live.injEq] at hga
        obtain ⟨rfl, rfl, rfl⟩ := hga
        subst e; exact ⟨v0, hs⟩
      · rw [if_neg e] at hga; exact ⟨va, hga⟩
    have hb : ∃ vb' , t.slots[b]? = some (Slot.live k' vb' cb) := by
      by_cases e : n = b
      · rw [if_pos e] at hgb
        simp only [Option.some.injEq, Slot.live.injEq] at hgb
        obtain ⟨rfl, rfl, rfl⟩ := hgb
        subst e; exact ⟨v0, hs⟩
      · rw [if_neg e] at hgb; exact ⟨vb, hgb⟩
    obtain ⟨va', ha⟩ := ha
    obtain ⟨vb', hb⟩ := hb
    exact h.uniq a b k' va' ca vb' cb ha hb

end JsonC.Linkhash
