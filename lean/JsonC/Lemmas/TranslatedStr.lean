/-
  The memory discipline of `_json_object_set_string_len` (json_object.c), proved on the definition translated from the current C
  source for every node state, every length and either answer of `malloc` - C11's clauses "a failed set leaves the previous
  contents intact" and "no storage is leaked or used after release across transitions between inline and separately allocated
  storage" as theorems about the code itself.  `jlen` is the node's length field (negative: the contents live in the separately
  allocated buffer `pd`), `dst` what `get_string_component_mutable` answers (the node's current storage), `cmalloc` what
  `malloc` answers.  The four cases are exhaustive.
-/
import JsonC.Lemmas.TranslatedNum
namespace JsonC.TranslatedStr
open JsonC JsonC.Generated JsonC.CSem JsonC.TranslatedPb JsonC.TranslatedNum

/-- the capacity the current storage is known to have: `|len field|` -/
def curCap (jlen : Int) : Int := if jlen < 0 then -jlen else jlen

/-- the length field after the `len == 0` release of a separately allocated buffer -/
def lenAfterRelease (jlen len : Int) : Int := if jlen < 0 ∧ len = 0 then 0 else jlen

theorem typeString_val : ((typeString : Nat) : Int) = 6 := by decide

/-- too long for the `int` length accessor: refused, nothing read, nothing changed -/
theorem set_too_long (jso s len jlen pd u1 u2 u3 h5 h6 h7 dst cm cmalloc : Int) (hj : jso ≠ 0) (hl : len ≥ 2147483646) :
    Translated._json_object_set_string_len jso s len (typeString : Nat) jlen pd u1 u2 u3 h5 h6 h7 dst cm cmalloc =
      .ok { ret := 0, jso_o_type := (typeString : Nat), jso_len := jlen, jso_c_string := pd, calls := [] } := by
  unfold Translated._json_object_set_string_len
  rw [typeString_val, if_neg hj, if_neg (by omega), if_pos hl]; rfl

/-- the new contents do not fit and `malloc` fails: 0 is returned, the length field and the data pointer are as they were, and
nothing was freed (a non-empty request cannot have triggered the `len == 0` release either) -/
theorem set_grow_refused (jso s len jlen pd u1 u2 u3 dst cm : Int) (hj : jso ≠ 0) (h0 : 0 ≤ len) (hl : len < 2147483646)
    (hjl : -9223372036854775807 ≤ jlen ∧ jlen ≤ 9223372036854775807) (hg : len > curCap jlen) :
    Translated._json_object_set_string_len jso s len (typeString : Nat) jlen pd u1 u2 u3 (typeString : Nat) jlen pd dst cm 0 =
      .ok { ret := 0, jso_o_type := (typeString : Nat), jso_len := jlen, jso_c_string := pd,
            calls := [("get_string_component_mutable", [jso]), ("malloc", [len + 1])] } := by
  unfold Translated._json_object_set_string_len Translated._json_object_set_string_len.j3
  unfold curCap at hg
  rw [typeString_val]
  simp only [ckS64_bind]
  by_cases hneg : jlen < 0
  · rw [if_pos hneg] at hg
    resolve_ifs
    have hm : (len + 1) % 18446744073709551616 = len + 1 := by omega
    simp [hm]
  · rw [if_neg hneg] at hg
    resolve_ifs
    have hm : (len + 1) % 18446744073709551616 = len + 1 := by omega
    simp [hm]

/-- the new contents do not fit and `malloc` delivers: the old separately allocated buffer (if there was one) is freed only
AFTER the new one is there; the bytes and the NUL go to the new buffer; the length field is `-len`, the data pointer the new buffer -/
theorem set_grow_served (jso s len jlen pd u1 u2 u3 dst cm cmalloc : Int) (hj : jso ≠ 0) (h0 : 0 ≤ len) (hl : len < 2147483646)
    (hjl : -9223372036854775807 ≤ jlen ∧ jlen ≤ 9223372036854775807) (hg : len > curCap jlen) (hc : cmalloc ≠ 0)
    (hcr : 0 ≤ cmalloc ∧ cmalloc ≤ 18446744073709551615) :
    Translated._json_object_set_string_len jso s len (typeString : Nat) jlen pd u1 u2 u3 (typeString : Nat) jlen pd dst cm cmalloc =
      .ok { ret := 1, jso_o_type := (typeString : Nat), jso_len := -len, jso_c_string := cmalloc,
            calls := [("get_string_component_mutable", [jso]), ("malloc", [len + 1])] ++
                     (if jlen < 0 then [("free", [pd])] else []) ++
                     [("memcpy", [cmalloc, s, len]), ("store1", [cmalloc + len, 0])] } := by
  unfold Translated._json_object_set_string_len Translated._json_object_set_string_len.j3
    Translated._json_object_set_string_len.j2 Translated._json_object_set_string_len.j1
  unfold curCap at hg
  rw [typeString_val]
  simp only [ckS64_bind]
  have hm : (len + 1) % 18446744073709551616 = len + 1 := by omega
  have hs : (len + 9223372036854775808) % 18446744073709551616 - 9223372036854775808 = len := by omega
  have hcm : cmalloc % 18446744073709551616 = cmalloc := by omega
  by_cases hneg : jlen < 0
  · rw [if_pos hneg] at hg
    resolve_ifs
    simp [hm, hs, hcm, hneg]
  · rw [if_neg hneg] at hg
    resolve_ifs
    simp [hm, hs, hcm, hneg]

/-- the new contents fit the current storage: no allocation; a separately allocated buffer is released exactly when the new
contents are empty (the node goes back to its inline storage); the bytes and the NUL go to the current storage; the length
field is `-len` when the separately allocated buffer stays in use, else `len` -/
theorem set_fits (jso s len jlen pd u1 u2 u3 dst cm cmalloc : Int) (hj : jso ≠ 0) (h0 : 0 ≤ len) (hl : len < 2147483646)
    (hjl : -9223372036854775807 ≤ jlen ∧ jlen ≤ 9223372036854775807) (hf : len ≤ curCap jlen) :
    Translated._json_object_set_string_len jso s len (typeString : Nat) jlen pd u1 u2 u3 (typeString : Nat) (lenAfterRelease jlen len) pd dst cm cmalloc =
      .ok { ret := 1, jso_o_type := (typeString : Nat), jso_len := (if jlen < 0 ∧ len ≠ 0 then -len else len), jso_c_string := pd,
            calls := (if jlen < 0 ∧ len = 0 then [("free", [pd])] else []) ++
                     [("get_string_component_mutable", [jso]), ("memcpy", [dst, s, len]), ("store1", [dst + len, 0])] } := by
  unfold Translated._json_object_set_string_len Translated._json_object_set_string_len.j3
    Translated._json_object_set_string_len.j2 Translated._json_object_set_string_len.j1
  unfold curCap at hf
  unfold lenAfterRelease
  rw [typeString_val]
  simp only [ckS64_bind]
  have hs : (len + 9223372036854775808) % 18446744073709551616 - 9223372036854775808 = len := by omega
  by_cases hneg : jlen < 0
  · rw [if_pos hneg] at hf
    by_cases hz : len = 0
    · subst hz
      resolve_ifs
      simp [hneg]
    · have h1 : ¬ (jlen < 0 ∧ len = 0) := fun h => hz h.2
      rw [if_neg h1]
      resolve_ifs
      simp [hs, hneg, hz]
  · rw [if_neg hneg] at hf
    have h1 : ¬ (jlen < 0 ∧ len = 0) := fun h => hneg h.1
    rw [if_neg h1]
    resolve_ifs
    simp [hs, hneg]

/-- `_json_object_get_string_len`: the byte count, whichever sign the length field has -/
theorem get_len_abs (jso lenField u1 : Int) (n : Nat) (hn : (n : Int) ≤ 2147483646)
    (hl : lenField = (n : Int) ∨ lenField = -(n : Int)) :
    Translated._json_object_get_string_len jso lenField u1 = .ok { ret := n, calls := [] } := by
  unfold Translated._json_object_get_string_len
  simp only [TranslatedNum.ckS64_bind]
  rcases hl with h | h <;> subst h
  · by_cases hz : (n : Int) < 0
    · omega
    · resolve_ifs; rfl
  · by_cases hz : n = 0
    · subst hz; simp
    · resolve_ifs
      simp

/-- `json_object_get_string_len`: 0 for NULL and non-strings; for a string what `_json_object_get_string_len` answers, as an
`int` (exact: a string node never holds `INT_MAX - 1` bytes or more, `set_too_long`) -/
theorem get_string_len_public (jso ty c : Int) (n : Nat) (hn : (n : Int) ≤ 2147483646) (hc : c = n) (hj : jso ≠ 0) :
    Translated.json_object_get_string_len jso (typeString : Nat) c = .ok { ret := n, calls := [("_json_object_get_string_len", [jso])] } := by
  unfold Translated.json_object_get_string_len
  rw [typeString_val, if_pos hj, if_pos rfl]
  subst hc
  have : ((n : Int) + 2147483648) % 4294967296 - 2147483648 = n := by omega
  simp [this]

end JsonC.TranslatedStr
