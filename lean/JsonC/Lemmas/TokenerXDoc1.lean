/-
  C16, default mode on documents with extensions (`Spec/Rfc8259X.lean`), part 1: induction
  principle, first bytes, the generalised child step and the loops of arrays and objects.
-/
import JsonC.Lemmas.TokenerDoc10
import JsonC.Lemmas.TokenerXGap
import JsonC.Lemmas.TokenerXLit
import JsonC.Lemmas.TokenerQStr
import JsonC.Lemmas.TokenerXCtl
import JsonC.Lemmas.TokenerXNum
namespace JsonC.Tokener
open JsonC Rfc8259 Rfc8259X

/-- induction over extended documents with membership hypotheses -/
theorem xdoc_induct {P : XDoc → Prop} (hlit : ∀ k caps, P (.lit k caps)) (hnum : ∀ n, P (.num n))
    (hstr : ∀ q items, P (.str q items))
    (harr : ∀ g es tr, (∀ e ∈ es, P e.2.1) → P (.arr g es tr))
    (hobj : ∀ g ms tr, (∀ m ∈ ms, P m.2.2.2.2.2.1) → P (.obj g ms tr)) : ∀ d, P d
  | .lit k caps => hlit k caps
  | .num n => hnum n
  | .str q items => hstr q items
  | .arr g es tr => harr g es tr (fun e he =>
      match e, he with
      | (_, d, _), _ => xdoc_induct hlit hnum hstr harr hobj d)
  | .obj g ms tr => hobj g ms tr (fun m hm =>
      match m, hm with
      | (_, _, _, _, _, d, _), _ => xdoc_induct hlit hnum hstr harr hobj d)
termination_by d => sizeOf d
decreasing_by
  all_goals simp_wf
  · rename_i he
    have := List.sizeOf_lt_of_mem he
    simp at this
    omega
  · rename_i hm
    have := List.sizeOf_lt_of_mem hm
    simp at this
    omega

/-- default mode: a level waiting for a value, fed the text of `x`, ends holding the value of the
RFC 8259 document `x` stands for -/
def XGoal (lc : Libc) (x : XDoc) : Prop :=
  ∀ (t : Tok) (l : Loc) (cur : JVal) (rest : List Level), WF t → t.stack = ⟨.eatws, .start, cur, none⟩ :: rest →
    NoVal t → t.hs = 0 → l.num = none → t.strict = false → x.ok = true → x.erase.keysNulFree = true →
    rest.length + 1 + x.erase.nest ≤ t.maxDepth → Parsed lc t l x.text x.denote none rest

theorem capsText_cons (b : UInt8) (bs : Bytes) (c : Bool) (cs : List Bool) :
    capsText (b :: bs) (c :: cs) = (if c then b - 32 else b) :: capsText bs cs := rfl

/-- the first byte of a number with number extensions: '-' or a digit -/
theorem xnum_first (x : XNum) (hok : x.ok = true) : ∃ b r, x.text = b :: r ∧ ValueStart b := by
  obtain ⟨hb, _⟩ := xnum_ok_parts x hok
  obtain ⟨hi, _, _⟩ := num_ok_parts x.base hb
  have hz := digitsOk_lt _ (digitsOk_zeros x.zeros x.base.int hi)
  have htxt : x.text = signByte x.base.neg ++ (digitsText (List.replicate x.zeros 0 ++ x.base.int) ++
      (fracText x.base.frac ++ (expText x.base.exp ++ bareText x.bare))) := by
    simp [XNum.text, XNum.lit, digitsText_zeros, List.append_assoc]
  cases hneg : x.base.neg with
  | true => exact ⟨45, _, by rw [htxt, hneg]; rfl, by decide⟩
  | false =>
    cases hds : List.replicate x.zeros 0 ++ x.base.int with
    | nil => exact absurd hds hz.2
    | cons d r =>
      refine ⟨digitByte d, _, by rw [htxt, hneg, hds]; simp only [signByte, digitsText, List.map_cons]; rfl, ?_⟩
      exact digitByte_start d (hz.1 d (by rw [hds]; simp))

/-- the first byte of an extended value -/
theorem xdoc_first (d : XDoc) (hok : d.ok = true) : ∃ b r, d.text = b :: r ∧ ValueStart b := by
  cases d with
  | lit k caps =>
    simp only [XDoc.ok, beq_iff_eq] at hok
    cases k <;> (cases caps with
      | nil => simp [LitKind.word] at hok
      | cons c cs => cases c <;> exact ⟨_, _, by simp only [XDoc.text, LitKind.word, capsText_cons]; rfl, by decide⟩)
  | str q items => cases q <;> exact ⟨_, _, rfl, by decide⟩
  | arr g es tr => cases es <;> exact ⟨91, _, rfl, by decide⟩
  | obj g ms tr => cases ms <;> exact ⟨123, _, rfl, by decide⟩
  | num n =>
    obtain ⟨b, r, h, hb⟩ := xnum_first n (by simpa [XDoc.ok] using hok)
    exact ⟨b, r, by simpa [XDoc.text] using h, hb⟩

theorem gap_len (g : Gap) : True := trivial

/-- the first byte after a value, up to and including the separator: white space, '/', or the separator -/
theorem xfollow_head (g : Gap) (hok : g.ok = true) (s : UInt8) (hs : s = 44 ∨ s = 93 ∨ s = 125) (X : Bytes) :
    ∃ nb rs, g.text ++ s :: X = nb :: rs ∧ Follow nb ∧ nb ≠ 0 := by
  cases g with
  | nil => refine ⟨s, X, by simp [Gap.text], ?_, ?_⟩ <;> rcases hs with h | h | h <;> subst h <;> simp [Follow]
  | cons i r =>
    cases i with
    | ws c =>
      refine ⟨c.byte, Gap.text r ++ s :: X, by simp [Gap.text, GapItem.text], ?_, ?_⟩ <;> cases c <;> simp [Follow, WsChar.byte, isWs]
    | block b => exact ⟨47, _, by simp [Gap.text, GapItem.text]; rfl, by simp [Follow], by decide⟩
    | line b => exact ⟨47, _, by simp [Gap.text, GapItem.text]; rfl, by simp [Follow], by decide⟩

/-- gap, value, gap: the value ends up completed on a child level above the waiting parent -/
theorem xchild_value (lc : Libc) (d : XDoc) (ihd : XGoal lc d) (g1 g2 : Gap) (t : Tok) (l : Loc) (hwf : WF t) (hv : NoVal t)
    (hhs : t.hs = 0) (hl0 : l.num = none) (hns : t.strict = false) (sv pst : St)
    (hsv : (sv = .array ∧ pst = .arrayAdd) ∨ (sv = .arrayAfterSep ∧ pst = .arrayAdd) ∨ (sv = .objectValue ∧ pst = .objectValueAdd))
    (cur : JVal) (nm : Option Bytes) (rest : List Level) (hs : t.stack = ⟨.eatws, sv, cur, nm⟩ :: rest)
    (hg1 : g1.ok = true) (hg2 : g2.ok = true)
    (hok : d.ok = true) (hknf : d.erase.keysNulFree = true)
    (hdepth : rest.length + 2 + d.erase.nest ≤ t.maxDepth) (s : UInt8) (hsep : s = 44 ∨ s = 93 ∨ s = 125) (X : Bytes)
    (c : UInt8) (off : Nat) :
    ∃ t2 l2 c2, t2.stack = ⟨.eatws, .finish, d.denote, none⟩ :: ⟨pst, sv, cur, nm⟩ :: rest ∧ Frm t t2 ∧ WF t2 ∧ l2.num = none ∧
      run lc t l c off (g1.text ++ (d.text ++ (g2.text ++ s :: X))) =
        run lc t2 l2 c2 (off + g1.text.length + d.text.length + g2.text.length) (s :: X) := by
  obtain ⟨ta, ca, hsa, fa, hwfa, hra⟩ := run_gap lc t l sv cur nm rest hwf hs hv hhs g1 hg1 (Or.inl hns) c off
    (d.text ++ (g2.text ++ s :: X))
  rw [hra]
  have hva := fa.noVal hv
  have hnsa : ta.strict = false := by rw [fa.strict]; exact hns
  obtain ⟨b, dr, hdt, hb⟩ := xdoc_first d hok
  obtain ⟨hwfp, hpush⟩ := push_child lc ta l hwfa hva sv pst hsv cur nm rest hsa b hb (by rw [fa.md]; omega)
  obtain ⟨nb, rs', htl, hfol, hnz⟩ := xfollow_head g2 hg2 s hsep X
  have e1 : d.text ++ (g2.text ++ s :: X) = b :: (dr ++ (g2.text ++ s :: X)) := by rw [hdt]; rfl
  rw [e1, hpush, ← e1, htl]
  obtain ⟨t2, l2, hs2, f2, hwf2, hl2, hrun⟩ :=
    ihd { ta with stack := freshLevel :: ⟨pst, sv, cur, nm⟩ :: rest } l .null (⟨pst, sv, cur, nm⟩ :: rest) hwfp rfl hva fa.hs hl0
      hnsa hok hknf (by simp only [List.length_cons]; rw [fa.md]; omega) nb hfol (fun h => absurd h hnz)
      ca (off + g1.text.length) rs'
  rw [hrun, ← htl]
  have f2' : Frm t t2 := fa.trans ⟨f2.md, f2.fl, f2.hs⟩
  obtain ⟨tb, cb, hsb, fb, hwfb, hrb⟩ := run_gap lc t2 l2 .finish d.denote none _ hwf2 hs2 (f2'.noVal hv) f2'.hs g2 hg2
    (Or.inl (by rw [f2'.strict]; exact hns)) (lastOr ca d.text) (off + g1.text.length + d.text.length) (s :: X)
  rw [hrb]
  exact ⟨tb, l2, cb, hsb, f2'.trans fb, hwfb, hl2, rfl⟩

end JsonC.Tokener
