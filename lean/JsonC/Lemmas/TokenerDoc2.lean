/-
  Towards `parse_valid` (C01), part 2: strings and member names.  The machine in the states
  string / object_field / string_escape / escape_unicode / need_escape / need_u against the
  specification's `decodeItems` (escapes decoded, surrogate pairs combined, unpaired → U+FFFD).
-/
import JsonC.Lemmas.TokenerDoc1
namespace JsonC.Tokener
open JsonC Rfc8259

/-- the machine inside a string (`sst = string`) or member name (`sst = objectField`): `acc` decoded so
far; `pend` = a high surrogate waiting for its partner (then the state is need_escape) -/
structure StrSt (t0 t : Tok) (sst : St) (cur : JVal) (nm : Option Bytes) (rest : List Level)
    (pend : Option Nat) (acc : Bytes) : Prop where
  md : t.maxDepth = t0.maxDepth
  fl : t.flags = t0.flags
  pb : t.pb = acc
  q : t.quote = 34
  st : match pend with
    | none => (∃ sv, t.stack = ⟨sst, sv, cur, nm⟩ :: rest) ∧ t.hs = 0
    | some hi => t.stack = ⟨.needEscape, sst, cur, nm⟩ :: rest ∧ t.hs = hi ∧ isHigh hi = true ∧ t.stPos = 0 ∧ t.ucs = 0

theorem StrSt.noVal {t0 t sst cur nm rest pend acc} (s : StrSt t0 t sst cur nm rest pend acc) (h : NoVal t0) : NoVal t := by
  unfold NoVal at *; rw [s.fl]; exact h

/-- spec-side transducer: what one item adds, given a pending high surrogate -/
def itemStep : Option Nat → StrItem → Option Nat × Bytes
  | none, .raw b => (none, [b])
  | none, .esc e => (none, [e.value])
  | none, .u a b c d =>
    let x := unitOf a b c d
    if isHigh x then (some x, []) else if isLow x then (none, Rfc8259.replacement) else (none, utf8 x)
  | some _, .raw b => (none, Rfc8259.replacement ++ [b])
  | some _, .esc e => (none, Rfc8259.replacement ++ [e.value])
  | some hi, .u a b c d =>
    let x := unitOf a b c d
    if isLow x then (none, utf8 (0x10000 + (hi - 0xD800) * 1024 + (x - 0xDC00)))
    else if isHigh x then (some x, Rfc8259.replacement)
    else (none, Rfc8259.replacement ++ utf8 x)

def itemsFold : Option Nat → List StrItem → Option Nat × Bytes
  | p, [] => (p, [])
  | p, i :: r => let (p1, o1) := itemStep p i; let (p2, o2) := itemsFold p1 r; (p2, o1 ++ o2)

/-- flush a pending surrogate at the closing quote -/
def flush : Option Nat → Bytes
  | none => []
  | some _ => Rfc8259.replacement

/-! ### the machine, item by item -/

/-- the two string-like states -/
def IsStrState (sst : St) : Prop := sst = .string ∨ sst = .objectField

theorem hex_facts : ∀ v, v < 16 → ∀ up : Bool,
    isHex (HexDigit.byte ⟨v, up⟩) = true ∧ hexDigitVal (HexDigit.byte ⟨v, up⟩) = v ∧ HexDigit.byte ⟨v, up⟩ ≠ 0 := by
  decide

theorem hexd (d : HexDigit) (h : d.ok = true) : isHex d.byte = true ∧ hexDigitVal d.byte = d.val ∧ d.byte ≠ 0 := by
  obtain ⟨v, up⟩ := d
  exact hex_facts v (by simpa [HexDigit.ok] using h) up

theorem or_shift (a i b : Nat) (h : b < 2 ^ i) : (a <<< i) ||| b = a * 2 ^ i + b := by
  rw [← Nat.shiftLeft_add_eq_or_of_lt h a, Nat.shiftLeft_eq]

theorem ucs_unit (a b c d : Nat) (hb : b < 16) (hc : c < 16) (hd : d < 16) :
    (((0 ||| a <<< 12) ||| b <<< 8) ||| c <<< 4) ||| d <<< 0 = a * 4096 + b * 256 + c * 16 + d := by
  have e1 : (0 ||| a <<< 12) = a <<< 12 := by simp
  have e2 : a <<< 12 ||| b <<< 8 = (a * 16 + b) <<< 8 := by
    have : a <<< 12 = (a <<< 4) <<< 8 := by rw [← Nat.shiftLeft_add]
    rw [this, ← Nat.shiftLeft_or_distrib, or_shift a 4 b (by omega)]
  have e3 : (a * 16 + b) <<< 8 ||| c <<< 4 = ((a * 16 + b) * 16 + c) <<< 4 := by
    have : (a * 16 + b) <<< 8 = ((a * 16 + b) <<< 4) <<< 4 := by rw [← Nat.shiftLeft_add]
    rw [this, ← Nat.shiftLeft_or_distrib, or_shift _ 4 c (by omega)]
  rw [e1, e2, e3, Nat.shiftLeft_zero, or_shift _ 4 d (by omega)]
  omega


theorem ucs_unit' (a b c d : Nat) (hb : b < 16) (hc : c < 16) (hd : d < 16) :
    (a <<< 12 ||| b <<< 8 ||| c <<< 4) ||| d <<< ((3 - 3) * 4) = a * 4096 + b * 256 + c * 16 + d := by
  have := ucs_unit a b c d hb hc hd
  simpa using this

theorem isHighSurrogate_eq (u : Nat) : isHighSurrogate u = isHigh u := by
  unfold isHighSurrogate isHigh
  by_cases h : 0xD800 ≤ u ∧ u < 0xDC00
  · have : u / 1024 * 1024 = 0xD800 := by omega
    simp [this, h.1, h.2]
  · have : u / 1024 * 1024 ≠ 0xD800 := by omega
    have h' : ¬ (55296 ≤ u ∧ u < 56320) := h
    have e1 : (u / 1024 * 1024 == 0xD800) = false := by simpa using this
    rw [e1]
    cases h1 : decide (0xD800 ≤ u) <;> cases h2 : decide (u < 56320) <;> simp_all <;> omega

theorem isLowSurrogate_eq (u : Nat) : isLowSurrogate u = isLow u := by
  unfold isLowSurrogate isLow
  by_cases h : 0xDC00 ≤ u ∧ u < 0xE000
  · have : u / 1024 * 1024 = 0xDC00 := by omega
    simp [this, h.1, h.2]
  · have : u / 1024 * 1024 ≠ 0xDC00 := by omega
    have h' : ¬ (56320 ≤ u ∧ u < 57344) := h
    have e1 : (u / 1024 * 1024 == 0xDC00) = false := by simpa using this
    rw [e1]
    cases h1 : decide (0xDC00 ≤ u) <;> cases h2 : decide (u < 57344) <;> simp_all <;> omega

theorem decodePair_eq (hi lo : Nat) (h1 : isHigh hi = true) (h2 : isLow lo = true) :
    decodePair hi lo = 0x10000 + (hi - 0xD800) * 1024 + (lo - 0xDC00) := by
  unfold decodePair
  have e1 : hi &&& 0x3FF = hi % 1024 := Nat.and_two_pow_sub_one_eq_mod hi 10
  have e2 : lo &&& 0x3FF = lo % 1024 := Nat.and_two_pow_sub_one_eq_mod lo 10
  simp only [isHigh, isLow, Bool.and_eq_true, decide_eq_true_eq] at h1 h2
  rw [e1, e2, Nat.shiftLeft_eq]
  omega

theorem unitOf_lt (a b c d : HexDigit) (ha : a.ok = true) (hb : b.ok = true) (hc : c.ok = true) (hd : d.ok = true) :
    unitOf a b c d < 0x10000 := by
  simp only [HexDigit.ok, decide_eq_true_eq] at ha hb hc hd
  unfold unitOf; omega

/-- four hex digits from the escape_unicode state with a clean accumulator: the machine arrives at
`unicodeUnit` with the unit's value (whatever that then does is `hu`) -/
theorem reaches_digits (lc : Libc) (t : Tok) (l : Loc) (sv : St) (cur : JVal) (nm : Option Bytes) (rest : List Level)
    (hst : t.stack = ⟨.escapeUnicode, sv, cur, nm⟩ :: rest) (hv : NoVal t) (hsp : t.stPos = 0) (hucs : t.ucs = 0)
    (a b c d : HexDigit) (ha : a.ok = true) (hb : b.ok = true) (hc : c.ok = true) (hd : d.ok = true)
    (t' : Tok) (l' : Loc)
    (hu : unicodeUnit { t with ucs := unitOf a b c d, stPos := 3 } l ⟨.escapeUnicode, sv, cur, nm⟩ rest (unitOf a b c d)
            = .consume t' l') :
    Reaches lc t l [a.byte, b.byte, c.byte, d.byte] t' l' := by
  have hv' := hv; unfold NoVal at hv'
  obtain ⟨ia, va, na⟩ := hexd a ha
  obtain ⟨ib, vb, nb⟩ := hexd b hb
  obtain ⟨ic, vc, nc⟩ := hexd c hc
  obtain ⟨id, vd, nd⟩ := hexd d hd
  have hbl : b.val < 16 := by simpa [HexDigit.ok] using hb
  have hcl : c.val < 16 := by simpa [HexDigit.ok] using hc
  have hdl : d.val < 16 := by simpa [HexDigit.ok] using hd
  have na' : (a.byte == 0) = false := by simpa using na
  have nb' : (b.byte == 0) = false := by simpa using nb
  have nc' : (c.byte == 0) = false := by simpa using nc
  let t3 : Tok := { t with ucs := a.val <<< 12 ||| b.val <<< 8 ||| c.val <<< 4, stPos := 3 }
  have h3 : Reaches lc t l [a.byte, b.byte, c.byte] t3 l := by
    intro c0 off rs
    simp [run, peek, hv', feed, fuel, feedN, disp, hst, dEscapeUnicode, ia, ib, ic, va, vb, vc,
      na', nb', nc', Tok.validateUtf8, lastOr, t3, hsp, hucs]
  have h1 : Reaches lc t3 l [d.byte] t' l' := by
    apply reaches_one lc t3 l d.byte t' l' (by simpa [Tok.validateUtf8, t3] using hv') nd
    apply feed_of_disp
    · have hval : (a.val <<< 12 ||| b.val <<< 8 ||| c.val <<< 4) ||| d.val <<< ((3 - 3) * 4) = unitOf a b c d := by
        rw [ucs_unit' a.val b.val c.val d.val hbl hcl hdl]; rfl
      simp only [disp, t3, hst, dEscapeUnicode, id, vd]
      simp only [hval]
      simp [nd]
      exact hu
    · intro t'' l'' h; cases h
  have := Reaches.trans h3 h1
  simpa using this


/-! ### the specification's decoder as a left-to-right transducer -/

theorem itemStep_pending_u (hi : Nat) (a b c d : HexDigit) (h : isLow (unitOf a b c d) = false) :
    itemStep (some hi) (.u a b c d) =
      ((itemStep none (.u a b c d)).1, Rfc8259.replacement ++ (itemStep none (.u a b c d)).2) := by
  simp only [itemStep, h]
  cases isHigh (unitOf a b c d) <;> simp

theorem fold_pending_cons_u (hi : Nat) (a b c d : HexDigit) (r : List StrItem) (h : isLow (unitOf a b c d) = false) :
    itemsFold (some hi) (.u a b c d :: r) =
      ((itemsFold none (.u a b c d :: r)).1, Rfc8259.replacement ++ (itemsFold none (.u a b c d :: r)).2) := by
  simp only [itemsFold, itemStep_pending_u hi a b c d h]
  simp

theorem pending_flush (hi : Nat) (r : List StrItem)
    (h : ∀ a b c d r', r = .u a b c d :: r' → isLow (unitOf a b c d) = false) :
    (itemsFold (some hi) r).2 ++ flush (itemsFold (some hi) r).1 =
      Rfc8259.replacement ++ ((itemsFold none r).2 ++ flush (itemsFold none r).1) := by
  cases r with
  | nil => simp [itemsFold, flush]
  | cons i r' =>
    cases i with
    | raw b => simp [itemsFold, itemStep]
    | esc e => simp [itemsFold, itemStep]
    | u a b c d =>
      rw [fold_pending_cons_u hi a b c d r' (h a b c d r' rfl)]
      simp

theorem fold_none_u (a b c d : HexDigit) (r : List StrItem) :
    (itemsFold none (.u a b c d :: r)).2 ++ flush (itemsFold none (.u a b c d :: r)).1 =
      if isHigh (unitOf a b c d) then (itemsFold (some (unitOf a b c d)) r).2 ++ flush (itemsFold (some (unitOf a b c d)) r).1
      else if isLow (unitOf a b c d) then Rfc8259.replacement ++ ((itemsFold none r).2 ++ flush (itemsFold none r).1)
      else utf8 (unitOf a b c d) ++ ((itemsFold none r).2 ++ flush (itemsFold none r).1) := by
  simp only [itemsFold, itemStep]
  split
  · simp
  · split <;> simp

set_option maxRecDepth 20000 in
theorem decode_eq_fold (items : List StrItem) :
    decodeItems items = (itemsFold none items).2 ++ flush (itemsFold none items).1 := by
  fun_induction decodeItems items with
  | case1 => simp [itemsFold, flush]
  | case2 b r ih => simp [itemsFold, itemStep, ih]
  | case3 e r ih => simp [itemsFold, itemStep, ih]
  | case4 a b c d a' b' c' d' r' hi lo hh hl ih =>
    simp [itemsFold, itemStep, hh, hl, ih, hi, lo]
  | case5 a b c d a' b' c' d' r' hi lo hh hl ih =>
    have hl' : isLow (unitOf a' b' c' d') = false := by simpa [lo] using hl
    rw [ih, fold_none_u a b c d, if_pos hh]
    rw [pending_flush _ _ (by intro a2 b2 c2 d2 r2 he; cases he; exact hl')]
  | case6 a b c d a' b' c' d' r' hi hh hl ih =>
    rw [ih, fold_none_u a b c d, if_neg hh, if_pos hl]
  | case7 a b c d a' b' c' d' r' hi hh hl ih =>
    rw [ih, fold_none_u a b c d, if_neg hh, if_neg hl]
  | case8 a b c d r hnu hi hh ih =>
    rw [ih, fold_none_u a b c d]
    by_cases h1 : isHigh hi = true
    · rw [if_pos h1, pending_flush _ _ (by intro a2 b2 c2 d2 r2 he; exact (hnu a2 b2 c2 d2 r2 he).elim)]
    · have h2 : isLow hi = true := by simpa [h1] using hh
      rw [if_neg h1, if_pos h2]
  | case9 a b c d r hnu hi hh ih =>
    have h1 : ¬ isHigh hi = true := by intro h; simp [h] at hh
    have h2 : ¬ isLow hi = true := by intro h; simp [h] at hh
    rw [ih, fold_none_u a b c d, if_neg h1, if_neg h2]

end JsonC.Tokener
