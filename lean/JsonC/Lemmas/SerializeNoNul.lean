/-
  C02 helper lemmas, part 9: whatever the tree (any bytes, any doubles, any libc output), a text
  the serializer returns contains no NUL byte — so its `strlen` is the reported length.
-/
import JsonC.Lemmas.SerializeTokens

namespace JsonC.Serialize
open JsonC Generated SerSpec Rfc8259

variable (fmt : UInt64 → Bytes)

theorem takeWhile_ne_no (l : Bytes) : 0 ∉ l.takeWhile (· != 0) := by
  induction l with
  | nil => simp
  | cons c r ih =>
    simp only [List.takeWhile_cons]
    split
    · rename_i hc
      simp only [List.mem_cons, not_or]
      refine ⟨?_, ih⟩
      intro e; subst e; simp at hc
    · simp

theorem finalAppend_inv {buf t : Bytes} {size : Nat} (h : finalAppend buf size = .ok t) : t = buf := by
  unfold finalAppend at h
  simp only [] at h
  by_cases hc : (if size ≥ serDblBuf then serDblBuf - 1 else size) = buf.length
  · rw [if_pos hc] at h; cases h; rfl
  · rw [if_neg hc] at h; cases h

theorem snprintfImage_no_nul (n : Nat) (out : Bytes) : 0 ∉ snprintfImage n out := takeWhile_ne_no _

theorem withColor_no_nul (f : Fl) (col body : Bytes) (hc : 0 ∉ col) (hb : 0 ∉ body) : 0 ∉ withColor f col body := by
  unfold withColor
  split
  · simp only [List.mem_append, not_or]; exact ⟨⟨hc, hb⟩, by decide⟩
  · exact hb

theorem doublePost_no_nul (nz : Bool) (out t : Bytes) (h : doublePost nz out = .ok t) : 0 ∉ t := by
  unfold doublePost at h
  obtain ⟨size0, _, h⟩ := bind_ok_inv h
  obtain ⟨r, hr, h⟩ := bind_ok_inv h
  have h0 := snprintfImage_no_nul serDblBuf out
  generalize snprintfImage serDblBuf out = img at h0 hr h
  -- comma → point
  have h1 : 0 ∉ (commaToPoint img).1 := by
    unfold commaToPoint
    split
    · intro hm
      rcases List.mem_or_eq_of_mem_set hm with hm | hm
      · exact h0 hm
      · cases hm
    · exact h0
  -- ".0"
  have h2 : 0 ∉ r.1 := by
    unfold dotZero at hr
    split at hr
    · split at hr
      · cases hr
      · cases hr
        simp only [List.mem_append, not_or]; exact ⟨h1, by decide⟩
    · cases hr; exact h1
  -- NOZERO
  have h3 : 0 ∉ (noZeroTrim nz (commaToPoint img).2 r.1 r.2).1 := by
    unfold noZeroTrim
    split
    · simp only []
      split
      · simp only [List.mem_append, not_or]
        exact ⟨fun hm => h2 (List.mem_of_mem_take hm), fun hm => h2 (List.mem_of_mem_drop hm)⟩
      · exact h2
    · exact h2
  rw [finalAppend_inv h]; exact h3

theorem doubleText_no_nul (f : Fl) (bits : UInt64) (t : Bytes) (h : doubleText fmt f bits = .ok t) : 0 ∉ t := by
  unfold doubleText at h
  split at h
  · cases h; exact snprintfImage_no_nul _ _
  · split at h
    · cases h; exact snprintfImage_no_nul _ _
    · exact doublePost_no_nul _ _ _ h

theorem indent_no_nul (f : Fl) (level : Nat) (t : Bytes) (h : indent f level = .ok t) : 0 ∉ t := by
  unfold indent at h
  split at h
  · split at h
    · cases h; simp
    · obtain ⟨n, _, h⟩ := bind_ok_inv h
      cases h; simp
  · cases h; simp

theorem sepBytes_no_nul (f : Fl) (had : Bool) : 0 ∉ sepBytes f had := by
  unfold sepBytes
  cases had <;> cases f.pretty <;> cases f.spacedOnly <;> decide

theorem closeBytes_no_nul (f : Fl) (level : Nat) (had : Bool) (c : UInt8) (hc : c ≠ 0) (t : Bytes)
    (h : closeBytes f level had c = .ok t) : 0 ∉ t := by
  have hcl : 0 ∉ (if f.spacedOnly then [32, c] else [c] : Bytes) := by
    split <;> simp [Ne.symm hc]
  unfold closeBytes at h
  split at h
  · obtain ⟨i, hi, h⟩ := bind_ok_inv h
    cases h
    simp only [List.mem_append, List.mem_singleton, not_or]
    exact ⟨⟨by decide, indent_no_nul f level i hi⟩, hcl⟩
  · cases h; exact hcl

theorem quoted_no_nul (ns : Bool) (s : Bytes) : 0 ∉ ([34] ++ escBytes ns s ++ [34] : Bytes) := by
  simp only [List.mem_append, List.mem_singleton, not_or]
  exact ⟨⟨by decide, escBytes_no_nul ns s⟩, by decide⟩

theorem no_nul_all :
    (∀ v, ∀ (f : Fl) (level : Nat) (t : Bytes), serChild fmt f level v = .ok t → 0 ∉ t) ∧
    (∀ xs, ∀ (f : Fl) (level : Nat) (had : Bool) (t : Bytes), serElems fmt f level xs had = .ok t → 0 ∉ t) ∧
    (∀ kvs, ∀ (f : Fl) (level : Nat) (had : Bool) (t : Bytes), serMembers fmt f level kvs had = .ok t → 0 ∉ t) := by
  refine tree_ind ?_ ?_ ?_ ?_ ?_ ?_ ?_ ?_ ?_ ?_ ?_
  · intro f level t h
    simp only [serChild] at h; cases h
    exact withColor_no_nul f _ _ (by decide) (by decide)
  · intro b f level t h
    simp only [serChild] at h; cases h
    unfold boolText
    cases b <;> exact withColor_no_nul f _ _ (by decide) (by decide)
  · intro s v f level t h
    simp only [serChild] at h; cases h
    exact snprintfImage_no_nul _ _
  · intro bits tx f level t h
    cases tx with
    | none => simp only [serChild] at h; exact doubleText_no_nul fmt f bits t h
    | some tx =>
      simp only [serChild, userdataText] at h
      obtain ⟨_, _, h⟩ := bind_ok_inv h
      cases h; exact takeWhile_ne_no _
  · intro s f level t h
    simp only [serChild, stringText, escapeStr_eq, Outcome.bind_ok, Outcome.pure_eq] at h
    cases h
    exact withColor_no_nul f _ _ (by decide) (quoted_no_nul _ _)
  · intro xs ih f level t h
    simp only [serChild] at h
    obtain ⟨body, hb, h⟩ := bind_ok_inv h
    obtain ⟨cl, hc, h⟩ := bind_ok_inv h
    cases h
    simp only [List.mem_append, List.mem_singleton, not_or]
    exact ⟨⟨by decide, ih f level false body hb⟩, closeBytes_no_nul f level _ 93 (by decide) cl hc⟩
  · intro kvs ih f level t h
    simp only [serChild] at h
    obtain ⟨body, hb, h⟩ := bind_ok_inv h
    obtain ⟨cl, hc, h⟩ := bind_ok_inv h
    cases h
    simp only [List.mem_append, List.mem_singleton, not_or]
    exact ⟨⟨by decide, ih f level false body hb⟩, closeBytes_no_nul f level _ 125 (by decide) cl hc⟩
  · intro f level had t h
    simp only [serElems] at h; cases h; simp
  · intro x xs ihx ihxs f level had t h
    simp only [serElems] at h
    obtain ⟨l1, _, h⟩ := bind_ok_inv h
    obtain ⟨ind, hi, h⟩ := bind_ok_inv h
    obtain ⟨v, hv, h⟩ := bind_ok_inv h
    obtain ⟨rest, hr, h⟩ := bind_ok_inv h
    cases h
    simp only [List.mem_append, not_or]
    exact ⟨⟨⟨sepBytes_no_nul f had, indent_no_nul f l1 ind hi⟩, ihx f l1 v hv⟩, ihxs f level true rest hr⟩
  · intro f level had t h
    simp only [serMembers] at h; cases h; simp
  · intro k x kvs ihx ihkvs f level had t h
    simp only [serMembers, escapeStr_eq, Outcome.bind_ok] at h
    obtain ⟨l1, _, h⟩ := bind_ok_inv h
    obtain ⟨ind, hi, h⟩ := bind_ok_inv h
    obtain ⟨v, hv, h⟩ := bind_ok_inv h
    obtain ⟨rest, hr, h⟩ := bind_ok_inv h
    cases h
    simp only [List.mem_append, not_or]
    refine ⟨⟨⟨⟨⟨sepBytes_no_nul f had, indent_no_nul f l1 ind hi⟩, ?_⟩, ?_⟩, ihx f l1 v hv⟩, ihkvs f level true rest hr⟩
    · exact withColor_no_nul f _ _ (by decide) (quoted_no_nul _ _)
    · split <;> decide

end JsonC.Serialize
