/-
  C16 (documented extensions), literals: `null` / `true` / `false` with any letters in upper case are
  accepted in non-strict mode (`strncasecmp`) and denote the same value; with JSON_TOKENER_STRICT any
  upper-case letter makes the parser stop with an error.

  Main statements: `parsed_lit`, `strict_lit_rejected`.
-/
import JsonC.Lemmas.TokenerDoc1
import JsonC.Spec.Rfc8259X
namespace JsonC.Tokener
open JsonC Rfc8259 Rfc8259X

/-! ### the keyword states, one byte at a time -/

/-- the tokener inside a keyword: level state `st` (null / boolean), `p` collected, `i` bytes matched -/
def litTok (t : Tok) (st : St) (cur : JVal) (nm : Option Bytes) (rest : List Level) (p : Bytes) (i : Nat) : Tok :=
  { t with stack := ⟨st, .start, cur, nm⟩ :: rest, pb := p, stPos := i }

theorem strict_flags {t : Tok} {s : Bool} (h : t.strict = s) (a : List Level) (b : Nat) (c : Bytes) (d : Nat) (e : Bool)
    (f g : Nat) (q : UInt8) : (Tok.mk a b c d e f g q t.flags).strict = s := h

section steps
variable (lc : Libc) (t : Tok) (l : Loc) (cur : JVal) (nm : Option Bytes) (rest : List Level)

theorem null_consume (s : Bool) (hst : t.strict = s) (p : Bytes) (i : Nat) (b : UInt8) (hi : i < 4)
    (hk : kwMatch s nullStr (p ++ [b]) (i + 1) = true) :
    feed lc (litTok t .null cur nm rest p i) l b = .consume (litTok t .null cur nm rest (p ++ [b]) (i + 1)) l := by
  apply feed_of_disp
  · have hm : min (i + 1) 4 = i + 1 := by omega
    have hne : ¬ i = 4 := by omega
    have hl : nullStr.length = 4 := rfl
    simp only [disp, litTok, dNull, strict_flags hst, hl, hm, hk]
    simp [hne]
  · intro _ _ h; cases h

theorem null_nan_consume (s : Bool) (hst : t.strict = s) (p : Bytes) (i : Nat) (b : UInt8) (hi : i < 3)
    (hk0 : kwMatch s nullStr (p ++ [b]) (i + 1) = false)
    (hk : kwMatch s nanStr (p ++ [b]) (i + 1) = true) :
    feed lc (litTok t .null cur nm rest p i) l b = .consume (litTok t .null cur nm rest (p ++ [b]) (i + 1)) l := by
  apply feed_of_disp
  · have hm : min (i + 1) 4 = i + 1 := by omega
    have hm' : min (i + 1) 3 = i + 1 := by omega
    have hne : ¬ i = 3 := by omega
    have hl : nullStr.length = 4 := rfl
    have hl' : nanStr.length = 3 := rfl
    simp only [disp, litTok, dNull, strict_flags hst, hl, hl', hm, hm', hk0, hk]
    simp [hne]
  · intro _ _ h; cases h

theorem null_err (s : Bool) (hst : t.strict = s) (p : Bytes) (i : Nat) (b : UInt8) (hi : i < 3)
    (hk0 : kwMatch s nullStr (p ++ [b]) (i + 1) = false)
    (hk : kwMatch s nanStr (p ++ [b]) (i + 1) = false) :
    ∃ t', feed lc (litTok t .null cur nm rest p i) l b = .err .null t' l := by
  refine ⟨{ litTok t .null cur nm rest p i with pb := p ++ [b] }, ?_⟩
  apply feed_of_disp
  · have hm : min (i + 1) 4 = i + 1 := by omega
    have hm' : min (i + 1) 3 = i + 1 := by omega
    have hl : nullStr.length = 4 := rfl
    have hl' : nanStr.length = 3 := rfl
    simp only [disp, litTok, dNull, strict_flags hst, hl, hl', hm, hm', hk0, hk]
    simp
  · intro _ _ h; cases h

/-- "nul" is there, the fourth byte is not (N)aN territory any more -/
theorem null_err4 (s : Bool) (hst : t.strict = s) (p : Bytes) (b : UInt8)
    (hk0 : kwMatch s nullStr (p ++ [b]) 4 = false)
    (hk : kwMatch s nanStr (p ++ [b]) 3 = false) :
    ∃ t', feed lc (litTok t .null cur nm rest p 3) l b = .err .null t' l := by
  refine ⟨{ litTok t .null cur nm rest p 3 with pb := p ++ [b] }, ?_⟩
  apply feed_of_disp
  · have hl : nullStr.length = 4 := rfl
    have hl' : nanStr.length = 3 := rfl
    simp only [disp, litTok, dNull, strict_flags hst, hl, hl']
    simp [hk0, hk]
  · intro _ _ h; cases h

theorem null_finish (s : Bool) (hst : t.strict = s) (p : Bytes) (b : UInt8)
    (hk : kwMatch s nullStr (p ++ [b]) 4 = true) :
    disp lc (litTok t .null cur nm rest p 4) l b =
      .redo (finishWith { litTok t .null cur nm rest p 4 with pb := p ++ [b] } ⟨.null, .start, cur, nm⟩ rest .null) l := by
  have hl : nullStr.length = 4 := rfl
  simp only [disp, litTok, dNull, strict_flags hst, hl]
  simp [hk]

theorem true_consume (s : Bool) (hst : t.strict = s) (p : Bytes) (i : Nat) (b : UInt8) (hi : i < 4)
    (hk : kwMatch s trueStr (p ++ [b]) (i + 1) = true) :
    feed lc (litTok t .boolean cur nm rest p i) l b = .consume (litTok t .boolean cur nm rest (p ++ [b]) (i + 1)) l := by
  apply feed_of_disp
  · have hm : min (i + 1) 4 = i + 1 := by omega
    have hne : ¬ i = 4 := by omega
    have hl : trueStr.length = 4 := rfl
    simp only [disp, litTok, dBoolean, strict_flags hst, hl, hm, hk]
    simp [hne]
  · intro _ _ h; cases h

theorem true_finish (s : Bool) (hst : t.strict = s) (p : Bytes) (b : UInt8)
    (hk : kwMatch s trueStr (p ++ [b]) 4 = true) :
    disp lc (litTok t .boolean cur nm rest p 4) l b =
      .redo (finishWith { litTok t .boolean cur nm rest p 4 with pb := p ++ [b] } ⟨.boolean, .start, cur, nm⟩ rest (.bool true)) l := by
  have hl : trueStr.length = 4 := rfl
  simp only [disp, litTok, dBoolean, strict_flags hst, hl]
  simp [hk]

theorem false_consume (s : Bool) (hst : t.strict = s) (p : Bytes) (i : Nat) (b : UInt8) (hi : i < 5)
    (hk0 : kwMatch s trueStr (p ++ [b]) (min (i + 1) 4) = false)
    (hk : kwMatch s falseStr (p ++ [b]) (i + 1) = true) :
    feed lc (litTok t .boolean cur nm rest p i) l b = .consume (litTok t .boolean cur nm rest (p ++ [b]) (i + 1)) l := by
  apply feed_of_disp
  · have hm : min (i + 1) 5 = i + 1 := by omega
    have hne : ¬ i = 5 := by omega
    have hl : trueStr.length = 4 := rfl
    have hl' : falseStr.length = 5 := rfl
    simp only [disp, litTok, dBoolean, strict_flags hst, hl, hl', hm, hk0, hk]
    simp [hne]
  · intro _ _ h; cases h

theorem false_finish (s : Bool) (hst : t.strict = s) (p : Bytes) (b : UInt8)
    (hk0 : kwMatch s trueStr (p ++ [b]) 4 = false)
    (hk : kwMatch s falseStr (p ++ [b]) 5 = true) :
    disp lc (litTok t .boolean cur nm rest p 5) l b =
      .redo (finishWith { litTok t .boolean cur nm rest p 5 with pb := p ++ [b] } ⟨.boolean, .start, cur, nm⟩ rest (.bool false)) l := by
  have hl : trueStr.length = 4 := rfl
  have hl' : falseStr.length = 5 := rfl
  simp only [disp, litTok, dBoolean, strict_flags hst, hl, hl']
  simp [hk0, hk]

theorem bool_err (s : Bool) (hst : t.strict = s) (p : Bytes) (i : Nat) (b : UInt8)
    (hk0 : kwMatch s trueStr (p ++ [b]) (min (i + 1) 4) = false)
    (hk : kwMatch s falseStr (p ++ [b]) (min (i + 1) 5) = false) :
    ∃ t', feed lc (litTok t .boolean cur nm rest p i) l b = .err .boolean t' l := by
  refine ⟨{ litTok t .boolean cur nm rest p i with pb := p ++ [b] }, ?_⟩
  apply feed_of_disp
  · have hl : trueStr.length = 4 := rfl
    have hl' : falseStr.length = 5 := rfl
    simp only [disp, litTok, dBoolean, strict_flags hst, hl, hl', hk0, hk]
    simp
  · intro _ _ h; cases h

/-- the first letter: `eatws` hands over to `start`, `start` to the keyword state `st` -/
theorem start_route (hwf : WF t) (hs : t.stack = ⟨.eatws, .start, cur, nm⟩ :: rest) (x : UInt8) (st : St)
    (hws : isWs x = false) (h47 : (x == 47) = false)
    (hx : disp lc (setTop t ⟨.start, .start, cur, nm⟩ rest) l x = .redo (litTok t st cur nm rest [] 0) l) :
    feed lc t l x = feed lc (litTok t st cur nm rest [] 0) l x := by
  have h1 : disp lc t l x = .redo (setTop t ⟨.start, .start, cur, nm⟩ rest) l := by
    simp [disp, hs, dEatws, hws, h47]
  have hok := disp_ok lc t l x hwf
  rw [h1] at hok
  rw [feed_redo lc t l x _ _ hwf h1, feed_redo lc _ l x _ _ hok.1 hx]

theorem route_null (x : UInt8) (hx : x = 78 ∨ x = 110) :
    disp lc (setTop t ⟨.start, .start, cur, nm⟩ rest) l x = .redo (litTok t .null cur nm rest [] 0) l := by
  rcases hx with rfl | rfl <;> simp [disp, setTop, dStart, litTok]

theorem route_bool (x : UInt8) (hx : x = 84 ∨ x = 116 ∨ x = 70 ∨ x = 102) :
    disp lc (setTop t ⟨.start, .start, cur, nm⟩ rest) l x = .redo (litTok t .boolean cur nm rest [] 0) l := by
  rcases hx with rfl | rfl | rfl | rfl <;> simp [disp, setTop, dStart, litTok]

/-- an error stops the run -/
theorem run_err (hv : NoVal t) (b : UInt8) (e : PErr) (t' : Tok) (l' : Loc) (h : feed lc t l b = .err e t' l')
    (c : UInt8) (off : Nat) (rs : Bytes) : (run lc t l c off (b :: rs)).stop = .err e := by
  have hpk : peek t l b = some l := by simp [peek, hv.validate]
  simp [run, hpk, h]

end steps

/-! ### the letters -/

/-- letter `b` in upper case if `c` -/
def capB (c : Bool) (b : UInt8) : UInt8 := if c then b - 32 else b

theorem capsText4 (w0 w1 w2 w3 : UInt8) (a b c d : Bool) :
    capsText [w0, w1, w2, w3] [a, b, c, d] = [capB a w0] ++ ([capB b w1] ++ ([capB c w2] ++ [capB d w3])) := rfl

theorem capsText5 (w0 w1 w2 w3 w4 : UInt8) (a b c d e : Bool) :
    capsText [w0, w1, w2, w3, w4] [a, b, c, d, e] =
      [capB a w0] ++ ([capB b w1] ++ ([capB c w2] ++ ([capB d w3] ++ [capB e w4]))) := rfl

theorem len4 {α : Type} (xs : List α) (h : xs.length = 4) : ∃ a b c d, xs = [a, b, c, d] := by
  rcases xs with _ | ⟨a, _ | ⟨b, _ | ⟨c, _ | ⟨d, _ | ⟨e, r⟩⟩⟩⟩⟩ <;> simp at h
  exact ⟨a, b, c, d, rfl⟩

theorem len5 {α : Type} (xs : List α) (h : xs.length = 5) : ∃ a b c d e, xs = [a, b, c, d, e] := by
  rcases xs with _ | ⟨a, _ | ⟨b, _ | ⟨c, _ | ⟨d, _ | ⟨e, _ | ⟨f, r⟩⟩⟩⟩⟩⟩ <;> simp at h
  exact ⟨a, b, c, d, e, rfl⟩

/-- bytes beyond the compared length do not matter -/
theorem kwPrefix_append (ci : Bool) : ∀ (n : Nat) (kw p e : Bytes), n ≤ p.length →
    kwPrefix ci kw (p ++ e) n = kwPrefix ci kw p n := by
  intro n
  induction n with
  | zero => intro kw p e _; simp [kwPrefix]
  | succ n ih =>
    intro kw p e h
    cases p with
    | nil => simp at h
    | cons b bs =>
      cases kw with
      | nil => simp [kwPrefix]
      | cons k ks =>
        have h' : n ≤ bs.length := by simp at h; omega
        simp only [List.cons_append, kwPrefix, ih ks bs e h']

theorem kwMatch_append (s : Bool) (kw p e : Bytes) (n : Nat) (h : n ≤ p.length) :
    kwMatch s kw (p ++ e) n = kwMatch s kw p n := by
  simp only [kwMatch, kwPrefix_append _ n kw p e h]

/-- a word that does not start with t/T is not `true` -/
theorem not_true_of_f (s : Bool) (x : UInt8) (hx : x = 70 ∨ x = 102) (r : Bytes) (n : Nat) :
    kwMatch s trueStr (x :: r) (n + 1) = false := by
  rcases hx with rfl | rfl <;> simp [kwMatch, kwPrefix, trueStr, toLowerB]

/-! ### non-strict: any capitalisation is the keyword -/

section accept
variable (lc : Libc) (t : Tok) (l : Loc) (cur : JVal) (nm : Option Bytes) (rest : List Level)

theorem litTok_noVal (hv : NoVal t) (st : St) (p : Bytes) (i : Nat) : NoVal (litTok t st cur nm rest p i) := hv

/-- all letters consumed, and any next byte completes the keyword: the value is parsed -/
theorem parsed_of_reach (hwf : WF t) (hs : t.stack = ⟨.eatws, .start, cur, nm⟩ :: rest) (hv : NoVal t) (hhs : t.hs = 0)
    (hl0 : l.num = none) (txt : Bytes) (st : St) (hst : st = .null ∨ st = .boolean) (v : JVal) (p : Bytes) (i : Nat)
    (hr : Reaches lc t l txt (litTok t st cur nm rest p i) l)
    (hd : ∀ nb, disp lc (litTok t st cur nm rest p i) l nb =
      .redo (finishWith { litTok t st cur nm rest p i with pb := p ++ [nb] } ⟨st, .start, cur, nm⟩ rest v) l) :
    Parsed lc t l txt v nm rest := by
  intro nb _ _ c off rs
  have hwf4 : WF (litTok t st cur nm rest p i) :=
    wf_restack hwf hs rfl rfl
      (topOk_token st (by rcases hst with h | h <;> simp [h]) .start (by simp) cur nm)
      (posOk_of_ne (by rcases hst with h | h <;> simp [h]) (by rcases hst with h | h <;> simp [h])
        (by rcases hst with h | h <;> simp [h]))
  let tf : Tok := finishWith { litTok t st cur nm rest p i with pb := p ++ [nb] } ⟨st, .start, cur, nm⟩ rest v
  refine ⟨tf, l, rfl, ⟨rfl, rfl, hhs⟩, ?_, hl0, ?_⟩
  · exact wf_restack hwf hs rfl rfl (topOk_finish _ _) (posOk_of_ne (by simp) (by simp) (by simp))
  · rw [hr c off (nb :: rs), run_redo lc _ l nb tf l hwf4 hv.validate hv.validate (hd nb)]

theorem lit_null_ns (hwf : WF t) (hs : t.stack = ⟨.eatws, .start, cur, nm⟩ :: rest) (hv : NoVal t) (hhs : t.hs = 0)
    (hl0 : l.num = none) (hst : t.strict = false) (a b c d : Bool) :
    Parsed lc t l (capsText [110, 117, 108, 108] [a, b, c, d]) .null nm rest := by
  have k0 : kwMatch false nullStr ([] ++ [capB a 110]) (0 + 1) = true := by cases a <;> decide
  have k1 : kwMatch false nullStr ([] ++ [capB a 110] ++ [capB b 117]) (1 + 1) = true := by
    cases a <;> cases b <;> decide
  have k2 : kwMatch false nullStr ([] ++ [capB a 110] ++ [capB b 117] ++ [capB c 108]) (2 + 1) = true := by
    cases a <;> cases b <;> cases c <;> decide
  have k3 : kwMatch false nullStr ([] ++ [capB a 110] ++ [capB b 117] ++ [capB c 108] ++ [capB d 108]) (3 + 1) = true := by
    cases a <;> cases b <;> cases c <;> cases d <;> decide
  have f0 : feed lc t l (capB a 110) = .consume (litTok t .null cur nm rest ([] ++ [capB a 110]) (0 + 1)) l := by
    rw [start_route lc t l cur nm rest hwf hs _ .null (by cases a <;> decide) (by cases a <;> decide)
      (route_null lc t l cur nm rest _ (by cases a <;> simp [capB]))]
    exact null_consume lc t l cur nm rest false hst [] 0 _ (by omega) k0
  have f1 := null_consume lc t l cur nm rest false hst _ 1 _ (by omega) k1
  have f2 := null_consume lc t l cur nm rest false hst _ 2 _ (by omega) k2
  have f3 := null_consume lc t l cur nm rest false hst _ 3 _ (by omega) k3
  have hv' : ∀ st p i, (litTok t st cur nm rest p i).validateUtf8 = false := fun _ _ _ => hv.validate
  have r := (reaches_one lc _ l _ _ l hv.validate (by cases a <;> decide) f0).trans
    ((reaches_one lc _ l _ _ l (hv' _ _ _) (by cases b <;> decide) f1).trans
    ((reaches_one lc _ l _ _ l (hv' _ _ _) (by cases c <;> decide) f2).trans
    (reaches_one lc _ l _ _ l (hv' _ _ _) (by cases d <;> decide) f3)))
  rw [capsText4]
  refine parsed_of_reach lc t l cur nm rest hwf hs hv hhs hl0 _ .null (by simp) .null _ _ r ?_
  intro nb
  exact null_finish lc t l cur nm rest false hst _ nb (by rw [kwMatch_append _ _ _ _ _ (by simp)]; exact k3)

theorem lit_true_ns (hwf : WF t) (hs : t.stack = ⟨.eatws, .start, cur, nm⟩ :: rest) (hv : NoVal t) (hhs : t.hs = 0)
    (hl0 : l.num = none) (hst : t.strict = false) (a b c d : Bool) :
    Parsed lc t l (capsText [116, 114, 117, 101] [a, b, c, d]) (.bool true) nm rest := by
  have k0 : kwMatch false trueStr ([] ++ [capB a 116]) (0 + 1) = true := by cases a <;> decide
  have k1 : kwMatch false trueStr ([] ++ [capB a 116] ++ [capB b 114]) (1 + 1) = true := by
    cases a <;> cases b <;> decide
  have k2 : kwMatch false trueStr ([] ++ [capB a 116] ++ [capB b 114] ++ [capB c 117]) (2 + 1) = true := by
    cases a <;> cases b <;> cases c <;> decide
  have k3 : kwMatch false trueStr ([] ++ [capB a 116] ++ [capB b 114] ++ [capB c 117] ++ [capB d 101]) (3 + 1) = true := by
    cases a <;> cases b <;> cases c <;> cases d <;> decide
  have f0 : feed lc t l (capB a 116) = .consume (litTok t .boolean cur nm rest ([] ++ [capB a 116]) (0 + 1)) l := by
    rw [start_route lc t l cur nm rest hwf hs _ .boolean (by cases a <;> decide) (by cases a <;> decide)
      (route_bool lc t l cur nm rest _ (by cases a <;> simp [capB]))]
    exact true_consume lc t l cur nm rest false hst [] 0 _ (by omega) k0
  have f1 := true_consume lc t l cur nm rest false hst _ 1 _ (by omega) k1
  have f2 := true_consume lc t l cur nm rest false hst _ 2 _ (by omega) k2
  have f3 := true_consume lc t l cur nm rest false hst _ 3 _ (by omega) k3
  have hv' : ∀ st p i, (litTok t st cur nm rest p i).validateUtf8 = false := fun _ _ _ => hv.validate
  have r := (reaches_one lc _ l _ _ l hv.validate (by cases a <;> decide) f0).trans
    ((reaches_one lc _ l _ _ l (hv' _ _ _) (by cases b <;> decide) f1).trans
    ((reaches_one lc _ l _ _ l (hv' _ _ _) (by cases c <;> decide) f2).trans
    (reaches_one lc _ l _ _ l (hv' _ _ _) (by cases d <;> decide) f3)))
  rw [capsText4]
  refine parsed_of_reach lc t l cur nm rest hwf hs hv hhs hl0 _ .boolean (by simp) (.bool true) _ _ r ?_
  intro nb
  exact true_finish lc t l cur nm rest false hst _ nb (by rw [kwMatch_append _ _ _ _ _ (by simp)]; exact k3)

theorem capB_f (a : Bool) : capB a 102 = 70 ∨ capB a 102 = 102 := by cases a <;> simp [capB]

theorem lit_false_ns (hwf : WF t) (hs : t.stack = ⟨.eatws, .start, cur, nm⟩ :: rest) (hv : NoVal t) (hhs : t.hs = 0)
    (hl0 : l.num = none) (hst : t.strict = false) (a b c d e : Bool) :
    Parsed lc t l (capsText [102, 97, 108, 115, 101] [a, b, c, d, e]) (.bool false) nm rest := by
  have k0 : kwMatch false falseStr ([] ++ [capB a 102]) (0 + 1) = true := by cases a <;> decide
  have k1 : kwMatch false falseStr ([] ++ [capB a 102] ++ [capB b 97]) (1 + 1) = true := by
    cases a <;> cases b <;> decide
  have k2 : kwMatch false falseStr ([] ++ [capB a 102] ++ [capB b 97] ++ [capB c 108]) (2 + 1) = true := by
    cases a <;> cases b <;> cases c <;> decide
  have k3 : kwMatch false falseStr ([] ++ [capB a 102] ++ [capB b 97] ++ [capB c 108] ++ [capB d 115]) (3 + 1) = true := by
    cases a <;> cases b <;> cases c <;> cases d <;> decide
  have k4 : kwMatch false falseStr ([] ++ [capB a 102] ++ [capB b 97] ++ [capB c 108] ++ [capB d 115] ++ [capB e 101])
      (4 + 1) = true := by
    cases a <;> cases b <;> cases c <;> cases d <;> cases e <;> decide
  have n : ∀ (r : Bytes) (m : Nat), kwMatch false trueStr (capB a 102 :: r) (m + 1) = false :=
    fun r m => not_true_of_f false _ (capB_f a) r m
  have f0 : feed lc t l (capB a 102) = .consume (litTok t .boolean cur nm rest ([] ++ [capB a 102]) (0 + 1)) l := by
    rw [start_route lc t l cur nm rest hwf hs _ .boolean (by cases a <;> decide) (by cases a <;> decide)
      (route_bool lc t l cur nm rest _ (by cases a <;> simp [capB]))]
    exact false_consume lc t l cur nm rest false hst [] 0 _ (by omega) (n _ 0) k0
  have f1 := false_consume lc t l cur nm rest false hst _ 1 _ (by omega) (n _ 1) k1
  have f2 := false_consume lc t l cur nm rest false hst _ 2 _ (by omega) (n _ 2) k2
  have f3 := false_consume lc t l cur nm rest false hst _ 3 _ (by omega) (n _ 3) k3
  have f4 := false_consume lc t l cur nm rest false hst _ 4 _ (by omega) (n _ 3) k4
  have hv' : ∀ st p i, (litTok t st cur nm rest p i).validateUtf8 = false := fun _ _ _ => hv.validate
  have r := (reaches_one lc _ l _ _ l hv.validate (by cases a <;> decide) f0).trans
    ((reaches_one lc _ l _ _ l (hv' _ _ _) (by cases b <;> decide) f1).trans
    ((reaches_one lc _ l _ _ l (hv' _ _ _) (by cases c <;> decide) f2).trans
    ((reaches_one lc _ l _ _ l (hv' _ _ _) (by cases d <;> decide) f3).trans
    (reaches_one lc _ l _ _ l (hv' _ _ _) (by cases e <;> decide) f4))))
  rw [capsText5]
  refine parsed_of_reach lc t l cur nm rest hwf hs hv hhs hl0 _ .boolean (by simp) (.bool false) _ _ r ?_
  intro nb
  exact false_finish lc t l cur nm rest false hst _ nb (n _ 3)
    (by rw [kwMatch_append _ _ _ _ _ (by simp)]; exact k4)

end accept

theorem doc_null : LitKind.null.doc.denote = JVal.null := by simp [LitKind.doc, Doc.denote]
theorem doc_true : LitKind.true_.doc.denote = JVal.bool true := by simp [LitKind.doc, Doc.denote]
theorem doc_false : LitKind.false_.doc.denote = JVal.bool false := by simp [LitKind.doc, Doc.denote]

/-- C16, literals: `null` / `true` / `false` in any capitalisation (non-strict mode; in strict mode only
the lower-case spelling) is parsed as the literal -/
theorem parsed_lit (lc : Libc) (t : Tok) (l : Loc) (cur : JVal) (nm : Option Bytes) (rest : List Level)
    (hwf : WF t) (hs : t.stack = ⟨.eatws, .start, cur, nm⟩ :: rest) (hv : NoVal t) (hhs : t.hs = 0) (hl0 : l.num = none)
    (k : LitKind) (caps : List Bool) (hlen : caps.length = k.word.length)
    (hmode : t.strict = false ∨ caps.all (· == false) = true) :
    Parsed lc t l (capsText k.word caps) k.doc.denote nm rest := by
  cases k with
  | null =>
    obtain ⟨a, b, c, d, rfl⟩ := len4 caps hlen
    rw [doc_null]
    rcases hmode with hst | hall
    · exact lit_null_ns lc t l cur nm rest hwf hs hv hhs hl0 hst a b c d
    · simp at hall
      obtain ⟨rfl, rfl, rfl, rfl⟩ := hall
      exact parsed_null lc t l cur nm rest hwf hs hv hhs hl0
  | true_ =>
    obtain ⟨a, b, c, d, rfl⟩ := len4 caps hlen
    rw [doc_true]
    rcases hmode with hst | hall
    · exact lit_true_ns lc t l cur nm rest hwf hs hv hhs hl0 hst a b c d
    · simp at hall
      obtain ⟨rfl, rfl, rfl, rfl⟩ := hall
      exact parsed_true lc t l cur nm rest hwf hs hv hhs hl0
  | false_ =>
    obtain ⟨a, b, c, d, e, rfl⟩ := len5 caps hlen
    rw [doc_false]
    rcases hmode with hst | hall
    · exact lit_false_ns lc t l cur nm rest hwf hs hv hhs hl0 hst a b c d e
    · simp at hall
      obtain ⟨rfl, rfl, rfl, rfl, rfl⟩ := hall
      exact parsed_false lc t l cur nm rest hwf hs hv hhs hl0

/-! ### strict: an upper-case letter is an error -/

/-- the run over `bs` (and whatever follows) stops with an error -/
def Dies (lc : Libc) (t : Tok) (l : Loc) (bs : Bytes) : Prop :=
  ∀ (c : UInt8) (off : Nat) (rs : Bytes), ∃ pe, (run lc t l c off (bs ++ rs)).stop = .err pe

theorem dies_err {lc : Libc} {t : Tok} {l : Loc} (hv : NoVal t) {b : UInt8} {e : PErr} {l' : Loc}
    (h : ∃ t', feed lc t l b = .err e t' l') (bs : Bytes) : Dies lc t l (b :: bs) := by
  intro c off rs
  obtain ⟨t', h⟩ := h
  exact ⟨e, run_err lc t l hv b e t' l' h c off (bs ++ rs)⟩

theorem dies_consume {lc : Libc} {t : Tok} {l : Loc} (hv : NoVal t) {b : UInt8} {t' : Tok} {l' : Loc} (hb : b ≠ 0)
    (h : feed lc t l b = .consume t' l') {bs : Bytes} (hd : Dies lc t' l' bs) : Dies lc t l (b :: bs) := by
  intro c off rs
  rw [List.cons_append, run_consume lc t l b t' l' hv hb h]
  exact hd b (off + 1) rs

section reject
variable (lc : Libc) (t : Tok) (l : Loc) (cur : JVal) (nm : Option Bytes) (rest : List Level)

theorem null_dies (hwf : WF t) (hs : t.stack = ⟨.eatws, .start, cur, nm⟩ :: rest) (hv : NoVal t) (hst : t.strict = true)
    (a b c d : Bool) (hcaps : [a, b, c, d].all (· == false) = false) :
    Dies lc t l (capsText [110, 117, 108, 108] [a, b, c, d]) := by
  have hv' : ∀ p i, NoVal (litTok t .null cur nm rest p i) := fun _ _ => hv
  have r0 : feed lc t l (capB a 110) = feed lc (litTok t .null cur nm rest [] 0) l (capB a 110) :=
    start_route lc t l cur nm rest hwf hs _ .null (by cases a <;> decide) (by cases a <;> decide)
      (route_null lc t l cur nm rest _ (by cases a <;> simp [capB]))
  rw [capsText4]
  cases a with
  | true =>
    -- 'N' could still become NaN; the next letter cannot
    have f0 := null_nan_consume lc t l cur nm rest true hst [] 0 (capB true 110) (by omega) (by decide) (by decide)
    have f1 := null_err lc t l cur nm rest true hst ([] ++ [capB true 110]) 1 (capB b 117) (by omega)
      (by cases b <;> decide) (by cases b <;> decide)
    exact dies_consume hv (by decide) (r0.trans f0) (dies_err (hv' _ _) f1 _)
  | false =>
    have f0 := null_consume lc t l cur nm rest true hst [] 0 (capB false 110) (by omega) (by decide)
    refine dies_consume hv (by decide) (r0.trans f0) ?_
    cases b with
    | true =>
      exact dies_err (hv' _ _) (null_err lc t l cur nm rest true hst _ 1 _ (by omega) (by decide) (by decide)) _
    | false =>
      have f1 := null_consume lc t l cur nm rest true hst ([] ++ [capB false 110]) 1 (capB false 117) (by omega) (by decide)
      refine dies_consume (hv' _ _) (by decide) f1 ?_
      cases c with
      | true =>
        exact dies_err (hv' _ _) (null_err lc t l cur nm rest true hst _ 2 _ (by omega) (by decide) (by decide)) _
      | false =>
        have f2 := null_consume lc t l cur nm rest true hst ([] ++ [capB false 110] ++ [capB false 117]) 2 (capB false 108)
          (by omega) (by decide)
        refine dies_consume (hv' _ _) (by decide) f2 ?_
        cases d with
        | true =>
          exact dies_err (hv' _ _) (null_err4 lc t l cur nm rest true hst _ _ (by decide) (by decide)) _
        | false => simp at hcaps

theorem true_dies (hwf : WF t) (hs : t.stack = ⟨.eatws, .start, cur, nm⟩ :: rest) (hv : NoVal t) (hst : t.strict = true)
    (a b c d : Bool) (hcaps : [a, b, c, d].all (· == false) = false) :
    Dies lc t l (capsText [116, 114, 117, 101] [a, b, c, d]) := by
  have hv' : ∀ p i, NoVal (litTok t .boolean cur nm rest p i) := fun _ _ => hv
  have r0 : feed lc t l (capB a 116) = feed lc (litTok t .boolean cur nm rest [] 0) l (capB a 116) :=
    start_route lc t l cur nm rest hwf hs _ .boolean (by cases a <;> decide) (by cases a <;> decide)
      (route_bool lc t l cur nm rest _ (by cases a <;> simp [capB]))
  rw [capsText4]
  cases a with
  | true =>
    obtain ⟨t', f0⟩ := bool_err lc t l cur nm rest true hst [] 0 (capB true 116) (by decide) (by decide)
    exact dies_err hv ⟨t', r0.trans f0⟩ _
  | false =>
    have f0 := true_consume lc t l cur nm rest true hst [] 0 (capB false 116) (by omega) (by decide)
    refine dies_consume hv (by decide) (r0.trans f0) ?_
    cases b with
    | true => exact dies_err (hv' _ _) (bool_err lc t l cur nm rest true hst _ 1 _ (by decide) (by decide)) _
    | false =>
      have f1 := true_consume lc t l cur nm rest true hst ([] ++ [capB false 116]) 1 (capB false 114) (by omega) (by decide)
      refine dies_consume (hv' _ _) (by decide) f1 ?_
      cases c with
      | true => exact dies_err (hv' _ _) (bool_err lc t l cur nm rest true hst _ 2 _ (by decide) (by decide)) _
      | false =>
        have f2 := true_consume lc t l cur nm rest true hst ([] ++ [capB false 116] ++ [capB false 114]) 2 (capB false 117)
          (by omega) (by decide)
        refine dies_consume (hv' _ _) (by decide) f2 ?_
        cases d with
        | true => exact dies_err (hv' _ _) (bool_err lc t l cur nm rest true hst _ 3 _ (by decide) (by decide)) _
        | false => simp at hcaps

theorem false_dies (hwf : WF t) (hs : t.stack = ⟨.eatws, .start, cur, nm⟩ :: rest) (hv : NoVal t) (hst : t.strict = true)
    (a b c d e : Bool) (hcaps : [a, b, c, d, e].all (· == false) = false) :
    Dies lc t l (capsText [102, 97, 108, 115, 101] [a, b, c, d, e]) := by
  have hv' : ∀ p i, NoVal (litTok t .boolean cur nm rest p i) := fun _ _ => hv
  have r0 : feed lc t l (capB a 102) = feed lc (litTok t .boolean cur nm rest [] 0) l (capB a 102) :=
    start_route lc t l cur nm rest hwf hs _ .boolean (by cases a <;> decide) (by cases a <;> decide)
      (route_bool lc t l cur nm rest _ (by cases a <;> simp [capB]))
  rw [capsText5]
  cases a with
  | true =>
    obtain ⟨t', f0⟩ := bool_err lc t l cur nm rest true hst [] 0 (capB true 102) (by decide) (by decide)
    exact dies_err hv ⟨t', r0.trans f0⟩ _
  | false =>
    have f0 := false_consume lc t l cur nm rest true hst [] 0 (capB false 102) (by omega) (by decide) (by decide)
    refine dies_consume hv (by decide) (r0.trans f0) ?_
    cases b with
    | true => exact dies_err (hv' _ _) (bool_err lc t l cur nm rest true hst _ 1 _ (by decide) (by decide)) _
    | false =>
      have f1 := false_consume lc t l cur nm rest true hst ([] ++ [capB false 102]) 1 (capB false 97) (by omega)
        (by decide) (by decide)
      refine dies_consume (hv' _ _) (by decide) f1 ?_
      cases c with
      | true => exact dies_err (hv' _ _) (bool_err lc t l cur nm rest true hst _ 2 _ (by decide) (by decide)) _
      | false =>
        have f2 := false_consume lc t l cur nm rest true hst ([] ++ [capB false 102] ++ [capB false 97]) 2 (capB false 108)
          (by omega) (by decide) (by decide)
        refine dies_consume (hv' _ _) (by decide) f2 ?_
        cases d with
        | true => exact dies_err (hv' _ _) (bool_err lc t l cur nm rest true hst _ 3 _ (by decide) (by decide)) _
        | false =>
          have f3 := false_consume lc t l cur nm rest true hst ([] ++ [capB false 102] ++ [capB false 97] ++ [capB false 108]) 3
            (capB false 115) (by omega) (by decide) (by decide)
          refine dies_consume (hv' _ _) (by decide) f3 ?_
          cases e with
          | true => exact dies_err (hv' _ _) (bool_err lc t l cur nm rest true hst _ 4 _ (by decide) (by decide)) _
          | false => simp at hcaps

end reject

/-- C16, literals, the strict-mode converse: with JSON_TOKENER_STRICT a literal with an upper-case letter
makes the parser stop with an error (inside the literal, whatever follows) -/
theorem strict_lit_rejected (lc : Libc) (t : Tok) (l : Loc) (cur : JVal) (nm : Option Bytes) (rest : List Level)
    (hwf : WF t) (hs : t.stack = ⟨.eatws, .start, cur, nm⟩ :: rest) (hv : NoVal t) (hst : t.strict = true)
    (k : LitKind) (caps : List Bool) (hlen : caps.length = k.word.length)
    (hcaps : caps.all (· == false) = false) :
    ∀ (c : UInt8) (off : Nat) (rs : Bytes), ∃ pe, (run lc t l c off (capsText k.word caps ++ rs)).stop = .err pe := by
  cases k with
  | null =>
    obtain ⟨a, b, c, d, rfl⟩ := len4 caps hlen
    exact null_dies lc t l cur nm rest hwf hs hv hst a b c d hcaps
  | true_ =>
    obtain ⟨a, b, c, d, rfl⟩ := len4 caps hlen
    exact true_dies lc t l cur nm rest hwf hs hv hst a b c d hcaps
  | false_ =>
    obtain ⟨a, b, c, d, e, rfl⟩ := len5 caps hlen
    exact false_dies lc t l cur nm rest hwf hs hv hst a b c d e hcaps

end JsonC.Tokener
