/-
  Model/Linkhash.lean's lookup computes what `lh_table_lookup_entry_w_hash` (linkhash.c), as translated from the current C
  source (Generated/Translated.lean: the probe loop is the recursive definition `...loop1` over explicit fuel; the loads of
  `t->table[n].k` and the verdicts of `t->equal_fn` are inputs, one per iteration), computes: started at `h % size`, for any
  table contents, the C function returns NULL exactly when the model's lookup answers `none` and otherwise the address of
  the very slot the model finds, provided the memory answers what the table holds (`Answers`: the `k` field of the slot
  visited in iteration j is LH_EMPTY = (void *)-1 for an empty slot, LH_FREED = (void *)-2 for a tombstone, the key pointer
  otherwise, and equal_fn says "equal" exactly for the key looked up).  Proof: induction over the model's fuel; `size + 1`
  iterations of fuel suffice.  The wrap-around `(int)++n == t->size` and the `count < t->size` bound are part of what is
  proved equal (no signed overflow of `count`, no index outside the table).
-/
import JsonC.Model.Linkhash
import JsonC.Lemmas.TranslatedPb
namespace JsonC.TranslatedLh
open JsonC JsonC.Linkhash JsonC.Generated JsonC.CSem JsonC.TranslatedPb

variable {K V : Type}

/-- the pointer the C function returns for the model's answer: NULL, or the address of slot `j` of the table at `tbl`
(40 = sizeof(struct lh_entry), as clang evaluates it for the current source) -/
def slotAddr (tbl : Int) : Option Nat → Int
  | none => 0
  | some j => tbl + (j : Int) * 40

/-- the slots the probe visits: `probe size n j` is the index after `j` steps from `n` -/
def probe (size : Nat) : Nat → Nat → Nat
  | n, 0 => n
  | n, j + 1 => probe size (nextIdx size n) j

/-- what the memory of the table answers during the probe that starts at slot `n` in iteration `it`: the `k` field of the
slot visited in iteration `it + j` (`code`), and `equal_fn`'s verdict on it -/
structure Answers [DecidableEq K] (t : Table K V) (k : K) (code : Slot K V → Int) (mk1 mk2 mk3 ceq : Nat → Int) (n it : Nat) : Prop where
  k1 : ∀ j s, t.slots[probe t.size n j]? = some s → mk1 (it + j) = code s
  k2 : ∀ j s, t.slots[probe t.size n j]? = some s → mk2 (it + j) = code s
  eq : ∀ j k' v c, t.slots[probe t.size n j]? = some (.live k' v c) → (ceq (it + j) ≠ 0 ↔ k' = k)

theorem Answers.next [DecidableEq K] {t : Table K V} {k : K} {code : Slot K V → Int} {mk1 mk2 mk3 ceq : Nat → Int} {n it : Nat}
    (h : Answers t k code mk1 mk2 mk3 ceq n it) : Answers t k code mk1 mk2 mk3 ceq (nextIdx t.size n) (it + 1) where
  k1 := fun j s hs => by have := h.k1 (j + 1) s (by simpa [probe] using hs); rwa [show it + (j + 1) = it + 1 + j by omega] at this
  k2 := fun j s hs => by have := h.k2 (j + 1) s (by simpa [probe] using hs); rwa [show it + (j + 1) = it + 1 + j by omega] at this
  eq := fun j k' v c hs => by have := h.eq (j + 1) k' v c (by simpa [probe] using hs); rwa [show it + (j + 1) = it + 1 + j by omega] at this

theorem lookupLoop_agrees [DecidableEq K] (t : Table K V) (k : K) (hpos : 0 < t.size) (hsz : (t.size : Int) ≤ 2147483647)
    (code : Slot K V → Int)
    (hce : code .empty = 18446744073709551615) (hcf : code .freed = 18446744073709551614)
    (hcl : ∀ k' v c, code (.live k' v c) ≠ 18446744073709551615 ∧ code (.live k' v c) ≠ 18446744073709551614)
    (fuelP : Nat) (mk1 mk2 mk3 ceq : Nat → Int) (tp kp hp tbl eqf : Int) :
    ∀ (fuel n cnt : Nat) (res : Option Nat), lookupLoop t k fuel n cnt = .ok res → n < t.size → cnt ≤ t.size →
      ∀ (fuel0 it : Nat) (tr : List (String × List Int)), fuel ≤ fuel0 →
        Answers t k code mk1 mk2 mk3 ceq n it →
        ∃ out, Translated.lh_table_lookup_entry_w_hash.loop1 fuelP mk1 mk2 mk3 ceq fuel0 it tp kp hp t.size tbl eqf tr n cnt = .ok out ∧
          out.ret = slotAddr tbl res := by
  intro fuel
  induction fuel with
  | zero => intro n cnt res h; simp [lookupLoop] at h
  | succ f ih =>
    intro n cnt res h hn hc fuel0 it tr hf ha
    cases fuel0 with
    | zero => omega
    | succ f0 =>
    unfold lookupLoop at h
    unfold Translated.lh_table_lookup_entry_w_hash.loop1 Translated.lh_table_lookup_entry_w_hash.j1
    simp only [lhLookupBounded, true_and] at h
    split at h
    · rename_i hge
      cases h
      rw [if_neg (by omega)]
      exact ⟨_, rfl, rfl⟩
    · rename_i hlt
      rw [if_pos (by omega)]
      have hstep : ∀ res', lookupLoop t k f (nextIdx t.size n) (cnt + 1) = .ok res' →
          ∀ tr', ∃ out, Translated.lh_table_lookup_entry_w_hash.loop1 fuelP mk1 mk2 mk3 ceq f0 (it + 1) tp kp hp t.size tbl eqf tr'
              (nextIdx t.size n) ((cnt + 1 : Nat) : Int) = .ok out ∧
            out.ret = slotAddr tbl res' := by
        intro res' hr tr'
        have hn' : nextIdx t.size n < t.size := by unfold nextIdx; split <;> omega
        exact ih _ _ res' hr hn' (by omega) f0 (it + 1) tr' (by omega) ha.next
      -- one step of the C loop onwards, for either shape of `++n == size`
      have hgo : ∀ res' (tr' : List (String × List Int)), lookupLoop t k f (nextIdx t.size n) (cnt + 1) = .ok res' →
          ∃ out, (if (((n : Int) + 1) % 18446744073709551616 + 2147483648) % 4294967296 - 2147483648 = (t.size : Int) then
                (ckS 32 ((cnt : Int) + 1) "lh_table_lookup_entry_w_hash#2 signed +" >>= fun v4_add =>
                  Translated.lh_table_lookup_entry_w_hash.loop1 fuelP mk1 mk2 mk3 ceq f0 (it + 1) tp kp hp t.size tbl eqf tr' 0 v4_add)
              else
                (ckS 32 ((cnt : Int) + 1) "lh_table_lookup_entry_w_hash#2 signed +" >>= fun v4_add =>
                  Translated.lh_table_lookup_entry_w_hash.loop1 fuelP mk1 mk2 mk3 ceq f0 (it + 1) tp kp hp t.size tbl eqf tr'
                    (((n : Int) + 1) % 18446744073709551616) v4_add)) = .ok out ∧
            out.ret = slotAddr tbl res' := by
        intro res' tr' hr
        obtain ⟨out, ho, hret⟩ := hstep res' hr tr'
        refine ⟨out, ?_, hret⟩
        simp only [ckS32_bind]
        by_cases hw : n + 1 = t.size
        · rw [if_pos (by omega), if_pos (by omega)]
          simpa [nextIdx, hw] using ho
        · rw [if_neg (by omega), if_pos (by omega)]
          have hm : ((n : Int) + 1) % 18446744073709551616 = ((n + 1 : Nat) : Int) := by omega
          rw [hm]
          simpa [nextIdx, hw] using ho
      split at h
      · cases h
      · -- empty
        rename_i hs
        cases h
        have h1 := ha.k1 0 _ (by simpa [probe] using hs)
        simp only [Nat.add_zero, hce] at h1
        rw [if_pos h1]
        exact ⟨_, rfl, rfl⟩
      · -- freed
        rename_i hs
        have h1 := ha.k1 0 _ (by simpa [probe] using hs)
        have h2 := ha.k2 0 _ (by simpa [probe] using hs)
        simp only [Nat.add_zero, hcf] at h1 h2
        rw [if_neg (by omega), if_neg (by omega)]
        exact hgo res _ h
      · -- live
        rename_i k' v c hs
        have h1 := ha.k1 0 _ (by simpa [probe] using hs)
        have h2 := ha.k2 0 _ (by simpa [probe] using hs)
        have h3 := ha.eq 0 k' v c (by simpa [probe] using hs)
        have ⟨hl1, hl2⟩ := hcl k' v c
        simp only [Nat.add_zero] at h1 h2 h3
        rw [if_neg (by omega), if_pos (by omega)]
        split at h
        · rename_i hk
          cases h
          rw [if_pos (h3.mpr hk)]
          exact ⟨_, rfl, rfl⟩
        · rename_i hk
          rw [if_neg (by intro hc; exact hk (h3.mp hc))]
          exact hgo res _ h

/-- `lh_table_lookup_entry_w_hash`: NULL or the address of the slot the model finds -/
theorem lookupEntryWHash_agrees [DecidableEq K] (t : Table K V) (k : K) (h : Nat) (hsz : (t.size : Int) ≤ 2147483647)
    (code : Slot K V → Int)
    (hce : code .empty = 18446744073709551615) (hcf : code .freed = 18446744073709551614)
    (hcl : ∀ k' v c, code (.live k' v c) ≠ 18446744073709551615 ∧ code (.live k' v c) ≠ 18446744073709551614)
    (fuel : Nat) (hfuel : t.size + 1 ≤ fuel) (mk1 mk2 mk3 ceq : Nat → Int) (tp kp tbl eqf : Int)
    (res : Option Nat) (hm : lookupEntryWHash t k h = .ok res)
    (ha : Answers t k code mk1 mk2 mk3 ceq (h % t.size) 0) :
    ∃ out, Translated.lh_table_lookup_entry_w_hash tp kp h t.size tbl eqf fuel mk1 mk2 mk3 ceq = .ok out ∧
      out.ret = slotAddr tbl res := by
  unfold lookupEntryWHash at hm
  split at hm
  · cases hm
  · rename_i hne
    have hpos : 0 < t.size := Nat.pos_of_ne_zero hne
    unfold Translated.lh_table_lookup_entry_w_hash
    have hmod : cmod 64 false (h : Int) ((t.size : Int) % 18446744073709551616) "lh_table_lookup_entry_w_hash#1 division"
        = .ok (((h % t.size : Nat) : Int)) := by
      have hs : (t.size : Int) % 18446744073709551616 = t.size := by omega
      rw [hs]
      unfold cmod
      rw [if_neg (by omega), if_neg (by simp)]
      congr 1
    rw [hmod]
    simp only [Outcome.bind_ok]
    simpa using lookupLoop_agrees t k hpos hsz code hce hcf hcl fuel mk1 mk2 mk3 ceq tp kp h tbl eqf (t.size + 1) (h % t.size) 0 res hm
      (Nat.mod_lt _ hpos) (Nat.zero_le _) fuel 0 [] hfuel ha

end JsonC.TranslatedLh
