/-
  Towards `parse_valid` (C01), part 4: whole strings and member names, numbers.
-/
import JsonC.Lemmas.TokenerDoc3
import JsonC.Lemmas.TokenerSplit
namespace JsonC.Tokener
open JsonC Rfc8259

theorem isStr_string : IsStrState .string := Or.inl rfl
theorem isStr_field : IsStrState .objectField := Or.inr rfl

/-- a `Reaches` to a finished level gives `Parsed` (no look-ahead needed) -/
theorem parsed_of_reaches (lc : Libc) (t : Tok) (l : Loc) (txt : Bytes) (v : JVal) (nm : Option Bytes) (rest : List Level)
    (top : Level) (hwf : WF t) (hs : t.stack = top :: rest) (t' : Tok)
    (hs' : t'.stack = ⟨.eatws, .finish, v, nm⟩ :: rest) (hf : Frm t t') (hl0 : l.num = none)
    (hr : Reaches lc t l txt t' l) :
    Parsed lc t l txt v nm rest := by
  intro nb _ _ c off rs
  exact ⟨t', l, hs', hf, wf_restack hwf hs hs' hf.md (topOk_finish _ _) (posOk_of_ne (by simp) (by simp) (by simp)),
    hl0, hr c off (nb :: rs)⟩

/-- a string value: `"` items `"` parses to the bytes the specification's `decodeItems` gives -/
theorem parsed_string (lc : Libc) (t : Tok) (l : Loc) (cur : JVal) (nm : Option Bytes) (rest : List Level)
    (hwf : WF t) (hs : t.stack = ⟨.eatws, .start, cur, nm⟩ :: rest) (hv : NoVal t) (hhs : t.hs = 0) (hl0 : l.num = none)
    (items : List StrItem) (hok : ∀ i ∈ items, i.ok = true) :
    Parsed lc t l (strText items) (.str (decodeItems items)) nm rest := by
  have hv' := hv; unfold NoVal at hv'
  -- the opening quote
  let t1 : Tok := { t with stack := ⟨.string, .start, cur, nm⟩ :: rest, pb := [], quote := 34 }
  have h1 : Reaches lc t l [34] t1 l := by
    intro c off rs
    simp [run, peek, hv', feed, fuel, feedN, disp, hs, dEatws, dStart, isWs, setTop, lastOr, Tok.validateUtf8, t1]
  have s1 : StrSt t t1 .string cur nm rest none [] := ⟨rfl, rfl, rfl, rfl, ⟨⟨.start, rfl⟩, hhs⟩⟩
  obtain ⟨t2, s2, h2⟩ := items_reach lc t l .string isStr_string cur nm rest hv items none t1 [] s1 hok
  obtain ⟨t3, hs3, f3, h3⟩ := close_string lc t t2 l .string isStr_string cur nm rest _ hv _ s2
  have hdec : [] ++ (itemsFold none items).2 ++ flush (itemsFold none items).1 = decodeItems items := by
    rw [decode_eq_fold]; simp
  rw [hdec] at hs3
  apply parsed_of_reaches lc t l _ _ nm rest _ hwf hs t3 hs3 f3 hl0
  have := Reaches.trans (Reaches.trans h1 h2) h3
  simpa [strText] using this

/-- a member name in `object_field_start[_after_sep]`: `"` items `"` leaves the level waiting for ':' with
the name (cut at a NUL, as `strdup` does) -/
theorem reaches_name (lc : Libc) (t : Tok) (l : Loc) (st : St) (hst : st = .objectFieldStart ∨ st = .objectFieldStartAfterSep)
    (cur : JVal) (nm : Option Bytes) (rest : List Level)
    (hs : t.stack = ⟨.eatws, st, cur, nm⟩ :: rest) (hv : NoVal t) (hhs : t.hs = 0)
    (items : List StrItem) (hok : ∀ i ∈ items, i.ok = true) :
    ∃ t', t'.stack = ⟨.eatws, .objectFieldEnd, cur, some (cstr (decodeItems items))⟩ :: rest ∧ Frm t t' ∧
      Reaches lc t l (strText items) t' l := by
  have hv' := hv; unfold NoVal at hv'
  let t1 : Tok := { t with stack := ⟨.objectField, st, cur, nm⟩ :: rest, pb := [], quote := 34 }
  have h1 : Reaches lc t l [34] t1 l := by
    intro c off rs
    rcases hst with h | h <;> subst h <;>
      simp [run, peek, hv', feed, fuel, feedN, disp, hs, dEatws, dObjectFieldStart, isWs, setTop, lastOr, Tok.validateUtf8, t1]
  have s1 : StrSt t t1 .objectField cur nm rest none [] := ⟨rfl, rfl, rfl, rfl, ⟨⟨st, rfl⟩, hhs⟩⟩
  obtain ⟨t2, s2, h2⟩ := items_reach lc t l .objectField isStr_field cur nm rest hv items none t1 [] s1 hok
  obtain ⟨t3, hs3, f3, h3⟩ := close_name lc t t2 l .objectField isStr_field cur nm rest _ hv _ s2
  have hdec : [] ++ (itemsFold none items).2 ++ flush (itemsFold none items).1 = decodeItems items := by
    rw [decode_eq_fold]; simp
  rw [hdec] at hs3
  refine ⟨t3, hs3, f3, ?_⟩
  have := Reaches.trans (Reaches.trans h1 h2) h3
  simpa [strText] using this

/-! ### numbers -/

/-- what the theorems assume of libc on the text of a valid JSON number (named hypotheses, never
axioms; the correspondence runs compare the reference `refLibc` with glibc on every number parsed) -/
structure LibcSpec (lc : Libc) : Prop where
  /-- strtoll on `-digits`: the exact value, or INT64_MIN with ERANGE below the range -/
  int64 : ∀ ds : List Nat, digitsOk ds = true →
    lc.parseInt64 (45 :: digitsText ds) =
      some (if -(natOfDigits ds : Int) < INT64_MIN then (INT64_MIN, true) else (-(natOfDigits ds : Int), false))
  /-- strtoull on `digits`: the exact value, or UINT64_MAX with ERANGE above the range -/
  uint64 : ∀ ds : List Nat, digitsOk ds = true →
    lc.parseUint64 (digitsText ds) =
      some (if (natOfDigits ds : Int) > UINT64_MAX then (UINT64_MAX, true) else ((natOfDigits ds : Int), false))
  /-- strtod consumes the whole text of a JSON number and rounds it correctly (`Dbl.strtod` is the
  exact round-to-nearest-even reference) -/
  dbl : ∀ n : Num, n.ok = true → (n.frac.isSome ∨ n.exp.isSome) → lc.strtod n.text = ((Dbl.strtod n.text).1, n.text.length)

/-- the machine in the middle of a number: `p` scanned so far -/
structure NumSt (t0 t : Tok) (l : Loc) (cur : JVal) (nm : Option Bytes) (rest : List Level) (p : Bytes) (dbl : Bool) : Prop where
  md : t.maxDepth = t0.maxDepth
  fl : t.flags = t0.flags
  hs : t.hs = t0.hs
  st : t.stack = ⟨.number, .start, cur, nm⟩ :: rest
  pb : t.pb = p
  d : t.isDouble = dbl
  fg : numFlags t l = deriveNum p

theorem NumSt.noVal {t0 t l cur nm rest p dbl} (s : NumSt t0 t l cur nm rest p dbl) (h : NoVal t0) : NoVal t := by
  unfold NoVal at *; rw [s.fl]; exact h

/-- one accepted byte -/
theorem num_accept (lc : Libc) (t0 t : Tok) (l : Loc) (cur : JVal) (nm : Option Bytes) (rest : List Level) (p : Bytes)
    (dbl : Bool) (hv : NoVal t0) (s : NumSt t0 t l cur nm rest p dbl) (c : UInt8)
    (hacc : numAccepts t (deriveNum p) c = true) :
    ∃ t' l', NumSt t0 t' l' cur nm rest (p ++ [c]) (dbl || c == 46 || c == 101 || c == 69) ∧ Reaches lc t l [c] t' l' := by
  have hc0 : c ≠ 0 := by
    intro h; subst h; simp [numAccepts] at hacc
  refine ⟨{ t with pb := t.pb ++ [c], isDouble := numDouble t c }, { l with num := some (numNext (deriveNum p) c) },
    ⟨s.md, s.fl, s.hs, s.st, by simp [s.pb], by simp [numDouble, s.d], ?_⟩, ?_⟩
  · simp only [numFlags]
    have := deriveNum_snoc t c (by rw [s.pb]; exact hacc)
    rw [s.pb] at this
    exact this
  · apply reaches_one lc t l c _ _ (s.noVal hv).validate hc0
    apply feed_of_disp
    · simp only [disp, s.st, dNumber, dNumberCore, s.fg, hacc, if_true]
    · intro t' l' h; cases h

theorem digit_byte (d : Nat) (h : d < 10) : isDigit (digitByte d) = true ∧ digitByte d ≠ 46 ∧
    digitByte d ≠ 101 ∧ digitByte d ≠ 69 := by
  have : d = 0 ∨ d = 1 ∨ d = 2 ∨ d = 3 ∨ d = 4 ∨ d = 5 ∨ d = 6 ∨ d = 7 ∨ d = 8 ∨ d = 9 := by omega
  rcases this with h | h | h | h | h | h | h | h | h | h <;> subst h <;> decide

/-- a run of digits -/
theorem num_digits (lc : Libc) (t0 : Tok) (cur : JVal) (nm : Option Bytes) (rest : List Level) (hv : NoVal t0) :
    ∀ (ds : List Nat), (∀ d ∈ ds, d < 10) → ∀ (t : Tok) (l : Loc) (p : Bytes) (dbl : Bool),
    NumSt t0 t l cur nm rest p dbl →
    ∃ t' l', NumSt t0 t' l' cur nm rest (p ++ digitsText ds) dbl ∧ Reaches lc t l (digitsText ds) t' l' := by
  intro ds
  induction ds with
  | nil => intro _ t l p dbl s; exact ⟨t, l, by simpa [digitsText] using s, by simpa [digitsText] using Reaches.refl lc t l⟩
  | cons d r ih =>
    intro hd t l p dbl s
    have hb := digit_byte d (hd d (by simp))
    have htxt : digitsText (d :: r) = digitByte d :: digitsText r := by simp [digitsText]
    rw [htxt]
    generalize digitByte d = b at hb ⊢
    have hne0 : b ≠ 0 := by intro h; rw [h] at hb; simp [isDigit] at hb
    obtain ⟨t1, l1, s1, r1⟩ := num_accept lc t0 t l cur nm rest p dbl hv s b
      (by simp [numAccepts, hb.1, hne0])
    have hd' : (dbl || b == 46 || b == 101 || b == 69) = dbl := by
      have e1 : (b == 46) = false := by simpa using hb.2.1
      have e2 : (b == 101) = false := by simpa using hb.2.2.1
      have e3 : (b == 69) = false := by simpa using hb.2.2.2
      rw [e1, e2, e3]; simp
    rw [hd'] at s1
    obtain ⟨t2, l2, s2, r2⟩ := ih (fun x hx => hd x (by simp [hx])) t1 l1 _ dbl s1
    refine ⟨t2, l2, by simpa [List.append_assoc] using s2, ?_⟩
    have := Reaches.trans r1 r2
    simpa using this

end JsonC.Tokener
