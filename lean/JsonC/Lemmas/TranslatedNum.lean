/-
  Model/Num.lean's `intInc` computes what `json_object_int_inc` as translated from the current C source
  (Generated/Translated.lean, tools/extract/c2lean.py) computes: for an int node in either representation (tag 0 =
  int64, 1 = uint64 - the values of the enumeration as clang evaluates them; the union as its 64-bit pattern), every
  int64 increment: same return value, same resulting representation and the same 64-bit pattern.  The model's checked
  arithmetic (`ckRange`) and the translated code's signed-overflow checks (`ckS 64`) fault on the same inputs - none,
  by C10's `inc_no_fault`.
-/
import JsonC.Model.Num
import JsonC.Lemmas.TranslatedPb
namespace JsonC.TranslatedNum
open JsonC JsonC.Num JsonC.Generated JsonC.CSem
open JsonC.TranslatedPb

theorem ckS64_bind {β : Type} (x : Int) (s : String) (f : Int → Outcome β) :
    (ckS 64 x s >>= f) = if -9223372036854775808 ≤ x ∧ x ≤ 9223372036854775807 then f x else .fault ("signed overflow: " ++ s) := by
  unfold ckS; split <;> rename_i h <;> simp at h <;> split <;> first | rfl | omega

theorem ckRange_bind {β : Type} (lo hi x : Int) (s : String) (f : Int → Outcome β) :
    (ckRange lo hi x s >>= f) = if lo ≤ x ∧ x ≤ hi then f x else .fault s := by
  unfold ckRange; split <;> rfl

/-- the C representation of an int node: the tag and the 64-bit pattern of the union -/
def tagOf (signed : Bool) : Int := if signed then 0 else 1
def bitsOf (v : Int) : Int := v % 18446744073709551616

/-- the tie for C10's increment clauses -/
theorem intInc_agrees (sgn : Bool) (c val : Int) (hwf : (JVal.int sgn c).NumWF) (hval : IsI64 val)
    (jso u1 : Int) (hj : jso ≠ 0) (r : Int × JVal) (h : intInc (.int sgn c) val = .ok r) :
    ∃ out, Translated.json_object_int_inc jso val (typeInt : Nat) (tagOf sgn) (bitsOf c) u1 = .ok out ∧
      out.ret = r.1 ∧ out.calls = [] ∧
      ∃ s' c', r.2 = .int s' c' ∧ out.jsoint_cint_type = tagOf s' ∧ out.jsoint_cint = bitsOf c' := by
  unfold intInc at h
  unfold Translated.json_object_int_inc Translated.json_object_int_inc.j5 Translated.json_object_int_inc.j4
    Translated.json_object_int_inc.j3 Translated.json_object_int_inc.j2 Translated.json_object_int_inc.j1
  simp only [JVal.NumWF, IsI64, INT64_MIN, INT64_MAX, UINT64_MAX] at hwf hval
  have hj' : (jso = 0) = False := by simp [hj]
  simp only [negMag, hj', numIncNegatesUnsigned, if_true, toU64, ckRange_bind, ckS64_bind, INT64_MIN, INT64_MAX, UINT64_MAX,
    Outcome.pure_eq, Outcome.bind_ok, wrapU, wrapS, Nat.reduceSub, Int.reducePow, ne_eq, not_false_eq_true, typeInt, tagOf, bitsOf, ] at h ⊢
  cases sgn
  · -- uint64 node
    simp only [Bool.false_eq_true, if_false] at hwf h ⊢
    repeat' split at h
    all_goals cases h
    all_goals (by_cases hv0 : val > 0 <;> by_cases hv1 : val < 0 <;> try omega)
    all_goals resolve_ifs
    all_goals exact ⟨_, rfl, rfl, rfl, _, _, rfl, by simp, by simp <;> omega⟩
  · simp only [if_true] at hwf h ⊢
    repeat' split at h
    all_goals cases h
    all_goals (by_cases hv0 : val > 0 <;> by_cases hv1 : val < 0 <;> try omega)
    all_goals resolve_ifs
    all_goals exact ⟨_, rfl, rfl, rfl, _, _, rfl, by simp, by simp <;> omega⟩
/-- NULL and nodes of another type: 0 is returned and nothing is written (no call, fields as they were) -/
theorem intInc_other (jso val ty tag bits u1 : Int) (h : jso = 0 ∨ ty ≠ (typeInt : Nat)) :
    Translated.json_object_int_inc jso val ty tag bits u1 =
      .ok { ret := 0, jsoint_cint := bits, jsoint_cint_type := tag, calls := [] } := by
  unfold Translated.json_object_int_inc
  have h3 : ((typeInt : Nat) : Int) = 3 := by decide
  rw [h3] at h
  rcases h with h | h
  · simp [h]
  · by_cases hj : jso = 0
    · simp [hj]
    · rw [if_pos hj, if_pos h]
      rfl


/-- errno as strtoll leaves it: 0 (it was cleared before the call) or the code of the class the libc model reports -/
def errnoCode : Errno → Int
  | .none => 0
  | .ERANGE => (eRANGE : Nat)
  | .EINVAL => (eINVAL : Nat)
  | _ => 1

theorem errnoCode_zero (e : Errno) (h : e = .ERANGE ∨ e = .EINVAL ∨ e = .none) : errnoCode e = 0 ↔ e = .none := by
  rcases h with h | h | h <;> subst h <;> simp [errnoCode, eRANGE, eINVAL]

/-- `json_parse_int64`: `r` is what the libc model says strtoll does on the text (value, bytes consumed, errno class); the C
function is given exactly that answer (`end = buf + consumed`).  Same return code, `*retval` written exactly when something
was consumed, errno = EINVAL on refusal and strtoll's own otherwise. -/
theorem parseInt64_agrees (r : Libc.StrRes) (hre : r.errno = .ERANGE ∨ r.errno = .EINVAL ∨ r.errno = .none)
    (buf rp errno0 old u1 : Int) :
    ∃ out, Translated.json_parse_int64 buf rp errno0 old u1 (errnoCode r.errno) (buf + (r.consumed : Int)) r.val = .ok out ∧
      out.ret = (parseTail r []).rc ∧
      out.deref_retval = ((parseTail r []).retval.getD old) ∧
      (if (parseTail r []).rc = 1 then out.errno = (eINVAL : Nat) else out.errno = errnoCode r.errno) ∧
      out.calls = [("strtoll", [buf, CSem.addrOf "end_c", 10])] := by
  unfold Translated.json_parse_int64 Translated.json_parse_int64.j2 Translated.json_parse_int64.j1 parseTail
  have hz := errnoCode_zero r.errno hre
  by_cases hc : r.consumed = 0
  · simp only [hc, Int.natCast_zero, Int.add_zero, ne_eq, not_true_eq_false, if_false, or_true, if_true]
    by_cases hv : r.val = 0
    · by_cases he : errnoCode r.errno = 0
      · simp [hv, he, eINVAL]
      · simp [hv, he, eINVAL]
    · simp [hv, eINVAL]
  · have hne : buf + (r.consumed : Int) ≠ buf := by omega
    simp only [hc, ne_eq, not_false_eq_true, if_true, or_false, hne]
    by_cases hv : r.val = 0
    · by_cases he : r.errno = .none
      · have : errnoCode r.errno = 0 := hz.mpr he
        simp [hv, he, this, errnoCode]
      · have : errnoCode r.errno ≠ 0 := fun h => he (hz.mp h)
        simp [hv, he, this, eINVAL]
    · simp [hv]


/-- `json_object_get_boolean` on a string node: true exactly when the string is not empty - whichever representation it is in
(`lenField` is `len` for inline storage and `-len` for a separately allocated buffer) -/
theorem getBoolean_string (jso lenField cty ci cb f : Int) (hj : jso ≠ 0) (s : Bytes)
    (hl : lenField = (s.length : Int) ∨ lenField = -(s.length : Int)) :
    ∃ out, Translated.json_object_get_boolean jso (typeString : Nat) lenField cty ci cb f = .ok out ∧
      getBoolean (.str s) = .ok ⟨decide (out.ret ≠ 0), .keep, []⟩ ∧ (out.ret = 0 ∨ out.ret = 1) ∧ out.calls = [] := by
  unfold Translated.json_object_get_boolean getBoolean
  have h6 : ((typeString : Nat) : Int) = 6 := by decide
  rw [h6, if_pos hj, if_neg (by omega), if_neg (by omega), if_neg (by omega), if_pos rfl]
  by_cases hz : s.length = 0
  · have : lenField = 0 := by rcases hl with h | h <;> omega
    rw [if_neg (by omega)]
    exact ⟨_, rfl, by simp [hz], by simp, rfl⟩
  · have : lenField ≠ 0 := by rcases hl with h | h <;> omega
    rw [if_pos this]
    exact ⟨_, rfl, by simp [hz], by simp, rfl⟩

/-- on an int node (either representation; the union as its 64-bit pattern) -/
theorem getBoolean_int (jso ln cb f : Int) (hj : jso ≠ 0) (sgn : Bool) (v : Int) (hwf : (JVal.int sgn v).NumWF) :
    ∃ out, Translated.json_object_get_boolean jso (typeInt : Nat) ln (tagOf sgn) (bitsOf v) cb f = .ok out ∧
      getBoolean (.int sgn v) = .ok ⟨decide (out.ret ≠ 0), .keep, []⟩ ∧ out.calls = [] := by
  unfold Translated.json_object_get_boolean getBoolean tagOf bitsOf
  have h3 : ((typeInt : Nat) : Int) = 3 := by decide
  simp only [JVal.NumWF, INT64_MIN, INT64_MAX, UINT64_MAX] at hwf
  rw [h3, if_pos hj, if_neg (by omega), if_pos rfl]
  cases sgn
  · simp only [Bool.false_eq_true, if_false] at hwf ⊢
    by_cases hz : v = 0
    · resolve_ifs; exact ⟨_, rfl, by simp [hz], rfl⟩
    · resolve_ifs; exact ⟨_, rfl, by simp [hz], rfl⟩
  · simp only [if_true] at hwf ⊢
    by_cases hz : v = 0
    · resolve_ifs; exact ⟨_, rfl, by simp [hz], rfl⟩
    · resolve_ifs; exact ⟨_, rfl, by simp [hz], rfl⟩

/-- NULL, and nodes that are neither boolean, int, double nor string: false -/
theorem getBoolean_other (jso ty ln cty ci cb f : Int)
    (h : jso = 0 ∨ (ty ≠ (typeBoolean : Nat) ∧ ty ≠ (typeInt : Nat) ∧ ty ≠ (typeDouble : Nat) ∧ ty ≠ (typeString : Nat))) :
    Translated.json_object_get_boolean jso ty ln cty ci cb f = .ok { ret := 0, calls := [] } := by
  unfold Translated.json_object_get_boolean
  have h1 : ((typeBoolean : Nat) : Int) = 1 := by decide
  have h2 : ((typeDouble : Nat) : Int) = 2 := by decide
  have h3 : ((typeInt : Nat) : Int) = 3 := by decide
  have h6 : ((typeString : Nat) : Int) = 6 := by decide
  rw [h1, h2, h3, h6] at h
  rcases h with h | ⟨a, b, c, d⟩
  · simp [h]
  · by_cases hj : jso = 0
    · simp [hj]
    · simp [hj, a, b, c, d]

/-- a boolean node: the stored value -/
theorem getBoolean_bool (jso ln cty ci f : Int) (hj : jso ≠ 0) (b : Bool) :
    Translated.json_object_get_boolean jso (typeBoolean : Nat) ln cty ci (if b then 1 else 0) f =
      .ok { ret := if b then 1 else 0, calls := [] } := by
  unfold Translated.json_object_get_boolean
  have h1 : ((typeBoolean : Nat) : Int) = 1 := by decide
  rw [h1, if_pos hj, if_pos rfl]
  rfl

end JsonC.TranslatedNum
