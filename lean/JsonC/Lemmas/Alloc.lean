/-
  Helper lemmas for C08 (no property statements): a weakest-precondition calculus for the
  allocation monad of Model/Alloc.lean, the heap well-formedness invariant, list facts about
  `filter (· != b)`, and the structural induction principle for `Node`.
-/
import JsonC.Model.Alloc

namespace JsonC.Alloc
open JsonC Generated

/-- live blocks are pairwise distinct and were created by calls already made -/
def WF (h : Heap) : Prop := h.live.Nodup ∧ ∀ b ∈ h.live, b.id ≤ h.next

/-- some allocator call made between `h` and `h'` was refused by the oracle -/
def Failed (g : Oracle) (h h' : Heap) : Prop := ∃ k, h.next < k ∧ k ≤ h'.next ∧ g k = false

/-- the computation does not fault and its result satisfies `Q` -/
def Post {α : Type} (x : A α) (g : Oracle) (h : Heap) (Q : α → Heap → Prop) : Prop :=
  ∃ a h', x g h = .ok (a, h') ∧ Q a h'

@[simp] theorem pure_run {α : Type} (a : α) (g : Oracle) (h : Heap) : (Pure.pure a : A α) g h = .ok (a, h) := rfl
@[simp] theorem bind_run {α β : Type} (x : A α) (f : α → A β) (g : Oracle) (h : Heap) :
    (x >>= f) g h = match x g h with | .ok (a, h') => f a g h' | .fault w => .fault w := rfl

theorem beq_blk (x b : Blk) : (x == b) = decide (x = b) := by
  by_cases h : x = b
  · simp [h]
  · simp [h]

theorem Post.pure {α : Type} {a : α} {g : Oracle} {h : Heap} {Q : α → Heap → Prop} (hq : Q a h) :
    Post (Pure.pure a : A α) g h Q := ⟨a, h, rfl, hq⟩

theorem Post.bind {α β : Type} {x : A α} {f : α → A β} {g : Oracle} {h : Heap} {Q : β → Heap → Prop}
    (hx : Post x g h (fun a h' => Post (f a) g h' Q)) : Post (x >>= f) g h Q := by
  obtain ⟨a, h', e, b, h'', e2, hq⟩ := hx
  refine ⟨b, h'', ?_, hq⟩
  show (match x g h with | .ok (a, h') => f a g h' | .fault w => .fault w) = _
  rw [e]; exact e2

theorem Post.mono {α : Type} {x : A α} {g : Oracle} {h : Heap} {Q R : α → Heap → Prop}
    (hx : Post x g h Q) (hqr : ∀ a h', Q a h' → R a h') : Post x g h R := by
  obtain ⟨a, h', e, hq⟩ := hx
  exact ⟨a, h', e, hqr a h' hq⟩

/-- sequencing through a spec already proved for the first computation -/
theorem Post.seq {α β : Type} {x : A α} {f : α → A β} {g : Oracle} {h : Heap} {R : α → Heap → Prop}
    {Q : β → Heap → Prop} (hx : Post x g h R) (hf : ∀ a h', R a h' → Post (f a) g h' Q) :
    Post (x >>= f) g h Q :=
  Post.bind (Post.mono hx hf)

theorem Post.liftO {α : Type} {o : Outcome α} {a : α} {g : Oracle} {h : Heap} {Q : α → Heap → Prop}
    (ho : o = .ok a) (hq : Q a h) : Post (liftO o) g h Q := by
  subst ho
  exact ⟨a, h, rfl, hq⟩

theorem fresh_not_mem {h : Heap} (hwf : WF h) (size : Nat) : (⟨h.next + 1, size⟩ : Blk) ∉ h.live := by
  intro hm
  have := hwf.2 _ hm
  simp only at this
  omega

theorem WF.step {h h1 : Heap} (hwf : WF h) (hn : h.next ≤ h1.next) (hl : h1.live = h.live) : WF h1 := by
  refine ⟨by rw [hl]; exact hwf.1, ?_⟩
  intro b hb
  rw [hl] at hb
  exact Nat.le_trans (hwf.2 b hb) hn

theorem WF.push {h h1 : Heap} (hwf : WF h) (size : Nat) (hn : h1.next = h.next + 1)
    (hl : h1.live = h.live ++ [⟨h.next + 1, size⟩]) : WF h1 := by
  refine ⟨?_, ?_⟩
  · rw [hl, List.nodup_append]
    refine ⟨hwf.1, by simp, ?_⟩
    intro a ha b hb
    simp at hb; subst hb
    intro e; subst e; exact fresh_not_mem hwf size ha
  · intro b hb
    rw [hl, List.mem_append] at hb
    rcases hb with hb | hb
    · rw [hn]; exact Nat.le_succ_of_le (hwf.2 b hb)
    · simp at hb; subst hb; rw [hn]; exact Nat.le_refl _

theorem WF.filter {h h1 : Heap} (hwf : WF h) (p : Blk → Bool) (hn : h.next ≤ h1.next)
    (hl : h1.live = h.live.filter p) : WF h1 := by
  refine ⟨by rw [hl]; exact hwf.1.filter _, ?_⟩
  intro a ha
  rw [hl] at ha
  exact Nat.le_trans (hwf.2 a (List.mem_filter.mp ha).1) hn

/-- malloc / calloc / strdup -/
theorem Post.alloc {mk : Nat → Option Nat → Ev} {size : Nat} {g : Oracle} {h : Heap}
    {Q : Option Blk → Heap → Prop} (hwf : WF h)
    (hok : g (h.next + 1) = true → ∀ h1 : Heap, h1.next = h.next + 1 → h1.live = h.live ++ [⟨h.next + 1, size⟩] →
      h1.errno = h.errno → WF h1 → Q (some ⟨h.next + 1, size⟩) h1)
    (hfail : g (h.next + 1) = false → ∀ h1 : Heap, h1.next = h.next + 1 → h1.live = h.live →
      h1.errno = .ENOMEM → WF h1 → Q none h1) :
    Post (allocCall mk size) g h Q := by
  unfold Post allocCall
  cases hg : g (h.next + 1)
  · simp only [hg, Bool.false_eq_true, ↓reduceIte]
    refine ⟨_, _, rfl, ?_⟩
    exact hfail hg _ rfl rfl rfl (hwf.step (Nat.le_succ _) rfl)
  · simp only [hg, ↓reduceIte]
    refine ⟨_, _, rfl, ?_⟩
    exact hok hg _ rfl rfl rfl (hwf.push size rfl rfl)

theorem Post.free {b : Blk} {site : String} {g : Oracle} {h : Heap} {Q : Unit → Heap → Prop} (hwf : WF h)
    (hb : b ∈ h.live)
    (hq : ∀ h1 : Heap, h1.next = h.next → h1.live = h.live.filter (· != b) → h1.errno = h.errno → WF h1 → Q () h1) :
    Post (free b site) g h Q := by
  unfold Post Alloc.free
  simp only [hb, ↓reduceIte]
  refine ⟨_, _, rfl, ?_⟩
  exact hq _ rfl rfl rfl (hwf.filter _ (Nat.le_refl _) rfl)

theorem filter_ne_fresh {l : List Blk} {b : Blk} (h : b ∉ l) : l.filter (· != b) = l := by
  rw [List.filter_eq_self]
  intro a ha
  simp
  intro e; subst e; exact h ha

theorem filter_append_self {l : List Blk} {b : Blk} (h : b ∉ l) : (l ++ [b]).filter (· != b) = l := by
  rw [List.filter_append, filter_ne_fresh h]; simp

theorem mem_filter_ne {l : List Blk} {a b : Blk} : a ∈ l.filter (· != b) ↔ a ∈ l ∧ a ≠ b := by
  simp [List.mem_filter]

theorem WF.realloc {h h1 : Heap} (hwf : WF h) (b : Blk) (size : Nat) (hn : h1.next = h.next + 1)
    (hl : h1.live = h.live.filter (· != b) ++ [⟨h.next + 1, size⟩]) : WF h1 := by
  have hw : WF { h with live := h.live.filter (· != b) } := hwf.filter _ (Nat.le_refl _) rfl
  exact hw.push size hn hl

/-- realloc -/
theorem Post.realloc {b : Blk} {size : Nat} {site : String} {g : Oracle} {h : Heap}
    {Q : Option Blk → Heap → Prop} (hwf : WF h) (hb : b ∈ h.live)
    (hok : g (h.next + 1) = true → ∀ h1 : Heap, h1.next = h.next + 1 →
      h1.live = h.live.filter (· != b) ++ [⟨h.next + 1, size⟩] → h1.errno = h.errno → WF h1 →
      Q (some ⟨h.next + 1, size⟩) h1)
    (hfail : g (h.next + 1) = false → ∀ h1 : Heap, h1.next = h.next + 1 → h1.live = h.live →
      h1.errno = .ENOMEM → WF h1 → Q none h1) :
    Post (realloc b size site) g h Q := by
  unfold Post Alloc.realloc
  simp only [hb, ↓reduceIte]
  cases hg : g (h.next + 1)
  · simp only [Bool.false_eq_true, ↓reduceIte]
    refine ⟨_, _, rfl, ?_⟩
    exact hfail hg _ rfl rfl rfl (hwf.step (Nat.le_succ _) rfl)
  · simp only [↓reduceIte]
    refine ⟨_, _, rfl, ?_⟩
    exact hok hg _ rfl rfl rfl (hwf.realloc b size rfl rfl)

theorem Post.setErrno {e : Errno} {g : Oracle} {h : Heap} {Q : Unit → Heap → Prop}
    (hq : ∀ h1 : Heap, h1.next = h.next → h1.live = h.live → h1.errno = e → Q () h1) :
    Post (setErrno e) g h Q :=
  ⟨(), _, rfl, hq _ rfl rfl rfl⟩

theorem Failed.of_next {g : Oracle} {h h' : Heap} {k : Nat} (h1 : h.next < k) (h2 : k ≤ h'.next) (hg : g k = false) :
    Failed g h h' := ⟨k, h1, h2, hg⟩

theorem Failed.widen {g : Oracle} {h0 h h' h1 : Heap} (hf : Failed g h h') (ha : h0.next ≤ h.next) (hb : h'.next ≤ h1.next) :
    Failed g h0 h1 := by
  obtain ⟨k, k1, k2, kg⟩ := hf
  exact ⟨k, by omega, by omega, kg⟩

/-- with every call granted nothing fails -/
theorem not_failed_of_granted {g : Oracle} {h h' : Heap} (hall : ∀ k, h.next < k → g k = true) : ¬ Failed g h h' := by
  rintro ⟨k, k1, _, kg⟩
  rw [hall k k1] at kg
  cases kg

/-- the single fault of the property: only call `k` can have failed -/
theorem failed_failAt {k : Nat} {h h' : Heap} (hf : Failed (failAt k) h h') : h.next < k ∧ k ≤ h'.next := by
  obtain ⟨i, i1, i2, ig⟩ := hf
  have : i = k := by simpa [failAt] using ig
  subst this
  exact ⟨i1, i2⟩

/-! ### structural induction on `Node` -/

theorem Node.induct {P : Node → Prop}
    (hnull : P .null) (hprim : ∀ k b, P (.prim k b)) (hdbls : ∀ b ud, P (.dbls b ud))
    (hstr : ∀ b s pd, P (.str b s pd))
    (harr : ∀ b al es, (∀ e ∈ es, P e) → P (.arr b al es))
    (hobj : ∀ b lh ms, (∀ m ∈ ms, P m.2.2) → P (.obj b lh ms)) : ∀ n, P n := by
  intro n
  refine Node.rec (motive_1 := P) (motive_2 := fun es => ∀ e ∈ es, P e)
    (motive_3 := fun ms => ∀ m ∈ ms, P m.2.2) (motive_4 := fun m => P m.2.2) (motive_5 := fun m => P m.2)
    hnull hprim hdbls hstr (fun b al es ih => harr b al es ih) (fun b lh ms ih => hobj b lh ms ih)
    ?_ ?_ ?_ ?_ ?_ ?_ n
  · intro x h; cases h
  · intro hd tl h1 h2 x hx
    cases hx with
    | head => exact h1
    | tail _ h => exact h2 x h
  · intro x h; cases h
  · intro hd tl h1 h2 x hx
    cases hx with
    | head => exact h1
    | tail _ h => exact h2 x h
  · intro k m h; exact h
  · intro kb v h; exact h

end JsonC.Alloc
