/-
  Helper lemmas for C05: reachability, the model's cycle check, acyclicity as a rank function.
-/
import JsonC.Lemmas.HeapRelease

namespace JsonC.Heap
open JsonC

/-- `b` is `a` or a descendant of `a` through container slots -/
inductive Reach (h : Heap) : Id → Id → Prop where
  | refl (a : Id) : Reach h a a
  | step {a c b : Id} : c ∈ h.childrenOf a → Reach h c b → Reach h a b

/-- no node is its own descendant: children have strictly smaller rank -/
def Acyclic (h : Heap) : Prop :=
  ∃ r : Id → Nat, ∀ p n, h.get? p = some n → ∀ c ∈ n.body.children, r c < r p

theorem mem_childrenOf (h : Heap) (a c : Id) :
    c ∈ h.childrenOf a ↔ ∃ n, h.get? a = some n ∧ c ∈ n.body.children := by
  unfold Heap.childrenOf
  cases hg : h.get? a with
  | none => simp
  | some n => simp

/-- the conservative depth-first search of the model: `false` means unreachable -/
theorem reachB_false (h : Heap) (b : Id) : ∀ (fuel : Nat) (a : Id), reachB fuel h a b = false → ¬ Reach h a b := by
  intro fuel
  induction fuel with
  | zero => intro a hf; simp [reachB] at hf
  | succ fuel ih =>
    intro a hf hr
    simp only [reachB, Bool.or_eq_false_iff, beq_eq_false_iff_ne, List.any_eq_false] at hf
    cases hr with
    | refl => exact hf.1 rfl
    | step hc hcb =>
      rename_i c
      have := hf.2 c hc
      exact ih c (by simpa using this) hcb

theorem Acyclic.nil : Acyclic [] := ⟨fun _ => 0, by intro p n hg; simp at hg⟩

theorem Acyclic.sub {h h' : Heap} (ha : Acyclic h) (hs : Sub h h') : Acyclic h' := by
  obtain ⟨r, hr⟩ := ha
  refine ⟨r, ?_⟩
  intro p n' hg c hc
  obtain ⟨n, hn, hb, _⟩ := hs p n' hg
  exact hr p n hn c (hb ▸ hc)

/-- a node is not below itself -/
theorem Acyclic.no_self_edge {h : Heap} (ha : Acyclic h) (p : Id) (n : Node) (hg : h.get? p = some n) :
    p ∉ n.body.children := by
  obtain ⟨r, hr⟩ := ha
  intro hc
  exact Nat.lt_irrefl _ (hr p n hg p hc)

theorem Reach.rank_le {h : Heap} {r : Id → Nat}
    (hr : ∀ p n, h.get? p = some n → ∀ c ∈ n.body.children, r c < r p) {a b : Id} (hab : Reach h a b) :
    r b ≤ r a := by
  induction hab with
  | refl => exact Nat.le_refl _
  | step hc _ ih =>
    obtain ⟨n, hn, hcn⟩ := (mem_childrenOf h _ _).mp hc
    have := hr _ n hn _ hcn
    omega

/-- Changing the payload of `p`: the new children are old children or the node `j` handed over by the
caller, and `p` is not below `j`.  Acyclicity is kept. -/
theorem Acyclic.set_body {h : Heap} (ha : Acyclic h) (p : Id) (n : Node) (hg : h.get? p = some n)
    (n' : Node) (given : Option Id)
    (hsub : ∀ c ∈ n'.body.children, c ∈ n.body.children ∨ given = some c)
    (hno : ∀ j, given = some j → ¬ Reach h j p) : Acyclic (h.set p n') := by
  classical
  obtain ⟨r, hr⟩ := ha
  cases given with
  | none =>
    refine ⟨r, ?_⟩
    intro q m hq c hc
    rw [Heap.get?_set] at hq
    by_cases e : q = p
    · subst e
      simp [hg] at hq
      subst hq
      rcases hsub c hc with h1 | h1
      · exact hr q n hg c h1
      · cases h1
    · simp [e] at hq
      exact hr q m hq c hc
  | some j =>
    have hnj := hno j rfl
    refine ⟨fun x => if Reach h x p then r x + r j + 1 else r x, ?_⟩
    have old : ∀ a m c, h.get? a = some m → c ∈ m.body.children →
        (if Reach h c p then r c + r j + 1 else r c) < (if Reach h a p then r a + r j + 1 else r a) := by
      intro a m c hm hc
      have hlt := hr a m hm c hc
      by_cases hcp : Reach h c p
      · have hap : Reach h a p := Reach.step ((mem_childrenOf h a c).mpr ⟨m, hm, hc⟩) hcp
        rw [if_pos hcp, if_pos hap]; omega
      · rw [if_neg hcp]
        by_cases hap : Reach h a p
        · rw [if_pos hap]; omega
        · rw [if_neg hap]; exact hlt
    intro q m hq c hc
    rw [Heap.get?_set] at hq
    by_cases e : q = p
    · subst e
      simp [hg] at hq
      subst hq
      rcases hsub c hc with h1 | h1
      · exact old q n c hg h1
      · cases h1
        simp only
        rw [if_neg hnj, if_pos (Reach.refl q)]
        omega
    · simp [e] at hq
      exact old q m c hq hc

/-- a new node without children -/
theorem Acyclic.append_leaf {h : Heap} (ha : Acyclic h) (i : Id) (n : Node) (hc : n.body.children = []) :
    Acyclic (h ++ [(i, n)]) := by
  obtain ⟨r, hr⟩ := ha
  refine ⟨r, ?_⟩
  intro p m hp c hcm
  rw [Heap.get?_append_single] at hp
  cases hg : h.get? p with
  | some x =>
    simp [hg] at hp
    subst hp
    exact hr p x hg c hcm
  | none =>
    simp [hg] at hp
    obtain ⟨_, rfl⟩ := hp
    rw [hc] at hcm
    simp at hcm

end JsonC.Heap
