/-
  The reference libc model `refLibc` satisfies `LibcSpec`, the named hypothesis of `parse_valid` (C01):
  the hypothesis is therefore not vacuous.
-/
import JsonC.Lemmas.TokenerDoc5
namespace JsonC.Tokener
open JsonC Rfc8259

/-! ### digit runs -/

/-- every byte is an ASCII digit -/
def AllDig (D : Bytes) : Prop := ∀ b ∈ D, isDigit b = true

theorem allDig_text (ds : List Nat) (h : digitsOk ds = true) : AllDig (digitsText ds) ∧ digitsText ds ≠ [] := by
  obtain ⟨hlt, hne⟩ := digitsOk_lt ds h
  refine ⟨digitsText_digit ds hlt, ?_⟩
  intro he
  apply hne
  simpa [digitsText] using he

theorem digitByte_val (d : Nat) (h : d < 10) : (digitByte d).toNat - 48 = d := by
  have : d = 0 ∨ d = 1 ∨ d = 2 ∨ d = 3 ∨ d = 4 ∨ d = 5 ∨ d = 6 ∨ d = 7 ∨ d = 8 ∨ d = 9 := by omega
  rcases this with h | h | h | h | h | h | h | h | h | h <;> subst h <;> decide

theorem digitsVal_fold (ds : List Nat) (h : ∀ d ∈ ds, d < 10) : ∀ a : Nat,
    (digitsText ds).foldl (fun a c => a * 10 + (c.toNat - 48)) a = ds.foldl (fun a d => a * 10 + d) a := by
  induction ds with
  | nil => intro a; rfl
  | cons d r ih =>
    intro a
    have hd := digitByte_val d (h d (by simp))
    have := ih (fun x hx => h x (by simp [hx])) (a * 10 + d)
    simpa [digitsText, hd] using this

theorem digitsVal_text (ds : List Nat) (h : ∀ d ∈ ds, d < 10) : digitsVal (digitsText ds) = natOfDigits ds :=
  digitsVal_fold ds h 0

theorem takeWhile_allDig (D : Bytes) (h : AllDig D) : D.takeWhile isDigit = D := by
  induction D with
  | nil => rfl
  | cons b r ih =>
    have hb := h b (by simp)
    rw [List.takeWhile_cons, hb]
    simp only [if_true]
    rw [ih (fun x hx => h x (by simp [hx]))]

/-! ### strtoll / strtoull -/

theorem refParseInt64_minus (D : Bytes) (hD : AllDig D) (hne : D ≠ []) :
    refParseInt64 (45 :: D) =
      some (if -(digitsVal D : Int) < INT64_MIN then (INT64_MIN, true) else (-(digitsVal D : Int), false)) := by
  have hsp : isSpaceC 45 = false := by decide
  have hemp : D.isEmpty = false := by cases D with | nil => exact absurd rfl hne | cons _ _ => rfl
  have e1 : INT64_MAX = 9223372036854775807 := rfl
  have hle : ¬ (-(digitsVal D : Int) > INT64_MAX) := by
    have : (0 : Int) ≤ (digitsVal D : Int) := Int.natCast_nonneg _
    omega
  simp only [refParseInt64, List.dropWhile_cons, hsp]
  simp only [takeWhile_allDig D hD, hemp, Bool.false_eq_true, if_false, if_true]
  rw [if_neg hle]
  split <;> rfl

theorem refLibc_int64 (ds : List Nat) (h : digitsOk ds = true) :
    refLibc.parseInt64 (45 :: digitsText ds) =
      some (if -(natOfDigits ds : Int) < INT64_MIN then (INT64_MIN, true) else (-(natOfDigits ds : Int), false)) := by
  obtain ⟨hD, hne⟩ := allDig_text ds h
  have := refParseInt64_minus (digitsText ds) hD hne
  rw [digitsVal_text ds (digitsOk_lt ds h).1] at this
  exact this

theorem digit_not_space (b : UInt8) (h : isDigit b = true) : isSpaceC b = false := by
  simp only [isDigit, Bool.and_eq_true, decide_eq_true_eq] at h
  have h1 : ¬ (b ≤ 13) := by
    intro h13
    have := UInt8.le_trans h.1 h13
    revert this; decide
  have h2 : (b == 32) = false := by
    rw [beq_eq_false_iff_ne]; intro he; subst he; revert h; decide
  simp [isSpaceC, h1, h2]

theorem refParseUint64_digits (D : Bytes) (hD : AllDig D) (hne : D ≠ []) :
    refParseUint64 D =
      some (if (digitsVal D : Int) > UINT64_MAX then (UINT64_MAX, true) else ((digitsVal D : Int), false)) := by
  cases D with
  | nil => exact absurd rfl hne
  | cons b r =>
    have hb := hD b (by simp)
    have h32 : (b == 32) = false := digit_ne b 32 hb (by decide)
    have h45 : b ≠ 45 := by intro he; subst he; revert hb; decide
    have h43 : b ≠ 43 := by intro he; subst he; revert hb; decide
    have hsp := digit_not_space b hb
    have htw := takeWhile_allDig (b :: r) hD
    have hdw : List.dropWhile isSpaceC (b :: r) = b :: r := by
      simp only [List.dropWhile_cons, hsp, Bool.false_eq_true, if_false]
    simp only [refParseUint64, List.dropWhile_cons, h32]
    simp only [Bool.false_eq_true, if_false]
    split
    · rename_i heq; injection heq with h1 _; exact absurd h1 h45
    · split
      · rename_i heq; rw [hdw] at heq; injection heq with h1 _; exact absurd h1 h45
      · rename_i heq; rw [hdw] at heq; injection heq with h1 _; exact absurd h1 h43
      · rw [hdw, htw]
        simp only [List.isEmpty_cons, Bool.false_eq_true, if_false]
        split <;> rfl

theorem refLibc_uint64 (ds : List Nat) (h : digitsOk ds = true) :
    refLibc.parseUint64 (digitsText ds) =
      some (if (natOfDigits ds : Int) > UINT64_MAX then (UINT64_MAX, true) else ((natOfDigits ds : Int), false)) := by
  obtain ⟨hD, hne⟩ := allDig_text ds h
  have := refParseUint64_digits (digitsText ds) hD hne
  rw [digitsVal_text ds (digitsOk_lt ds h).1] at this
  exact this

/-! ### strtod: `scanDec` consumes the whole text of a JSON number

`scanDec` is cut into its three sections (sign, fraction, exponent); the cut is definitional. -/

def signPart (s : Bytes) : Bool × Bytes × Nat :=
  match s with
  | 45 :: t => (true, t, 1)
  | 43 :: t => (false, t, 1)
  | t => (false, t, 0)

def fracPart (s2 : Bytes) : Bytes × Bytes × Nat :=
  match s2 with
  | 46 :: t => let f := t.takeWhile Dbl.isDigit; (f, t.drop f.length, 1)
  | t => ([], t, 0)

def expPart (s3 : Bytes) : Int × Nat :=
  match s3 with
  | c :: t =>
    if c == 101 || c == 69 then
      let p := signPart t
      let ed := p.2.1.takeWhile Dbl.isDigit
      if ed.isEmpty then (0, 0) else
      let v : Int := ed.foldl (fun a c => a * 10 + (c.toNat - 48)) 0
      ((if p.1 then -v else v), 1 + p.2.2 + ed.length)
    else (0, 0)
  | [] => (0, 0)

def scanDec' (s : Bytes) : Option (Bool × Nat × Int × Nat) :=
  let p := signPart s
  let ip := p.2.1.takeWhile Dbl.isDigit
  let q := fracPart (p.2.1.drop ip.length)
  if ip.isEmpty && q.1.isEmpty then none else
  let x := expPart q.2.1
  some (p.1, (ip ++ q.1).foldl (fun a c => a * 10 + (c.toNat - 48)) 0, x.1 - q.1.length,
    p.2.2 + ip.length + q.2.2 + q.1.length + x.2)

theorem scanDec_eq (s : Bytes) : Dbl.scanDec s = scanDec' s := rfl

/-- the rest of the input does not start with a digit -/
def Stops (r : Bytes) : Prop := ∀ c t, r = c :: t → isDigit c = false

theorem stops_nil : Stops [] := by intro c t h; cases h
theorem stops_cons (c : UInt8) (t : Bytes) (h : isDigit c = false) : Stops (c :: t) := by
  intro c' t' he; injection he with h1 _; rw [← h1]; exact h

theorem takeWhile_stops (r : Bytes) (h : Stops r) : r.takeWhile Dbl.isDigit = [] := by
  cases r with
  | nil => rfl
  | cons c t =>
    have hc : Dbl.isDigit c = false := h c t rfl
    rw [List.takeWhile_cons, hc]; rfl

/-- a digit run followed by a non-digit: `takeWhile` takes exactly the run -/
theorem takeWhile_run (D r : Bytes) (hD : AllDig D) (hr : Stops r) : (D ++ r).takeWhile Dbl.isDigit = D := by
  rw [List.takeWhile_append_of_pos (p := Dbl.isDigit) (fun a ha => hD a ha), takeWhile_stops r hr, List.append_nil]

theorem drop_run (D r : Bytes) : (D ++ r).drop D.length = r := List.drop_left

theorem signPart_minus (t : Bytes) : signPart (45 :: t) = (true, t, 1) := rfl
theorem signPart_plus (t : Bytes) : signPart (43 :: t) = (false, t, 1) := rfl
theorem signPart_nil : signPart [] = (false, [], 0) := rfl
theorem signPart_digit (b : UInt8) (t : Bytes) (hb : isDigit b = true) : signPart (b :: t) = (false, b :: t, 0) := by
  have h45 : b ≠ 45 := by intro he; subst he; revert hb; decide
  have h43 : b ≠ 43 := by intro he; subst he; revert hb; decide
  unfold signPart
  split
  · rename_i heq; injection heq with h1 _; exact absurd h1 h45
  · rename_i heq; injection heq with h1 _; exact absurd h1 h43
  · rfl

/-- a non-empty digit run (followed by anything) has no sign -/
theorem signPart_run (D r : Bytes) (hD : AllDig D) (hne : D ≠ []) : signPart (D ++ r) = (false, D ++ r, 0) := by
  cases D with
  | nil => exact absurd rfl hne
  | cons b D' => exact signPart_digit b (D' ++ r) (hD b (by simp))

theorem fracPart_nil : fracPart [] = ([], [], 0) := rfl
theorem fracPart_dot (D r : Bytes) (hD : AllDig D) (hr : Stops r) : fracPart (46 :: (D ++ r)) = (D, r, 1) := by
  simp only [fracPart, takeWhile_run D r hD hr, drop_run]
theorem fracPart_other (c : UInt8) (t : Bytes) (hc : c ≠ 46) : fracPart (c :: t) = ([], c :: t, 0) := by
  unfold fracPart
  split
  · rename_i heq; injection heq with h1 _; exact absurd h1 hc
  · rfl

theorem expPart_nil : expPart [] = (0, 0) := rfl

/-- an exponent marker, then a sign part consuming `ks` bytes, then a non-empty digit run up to the end -/
theorem expPart_run (c : UInt8) (t D : Bytes) (neg : Bool) (ks : Nat) (hc : c = 101 ∨ c = 69)
    (hs : signPart t = (neg, D, ks)) (hD : AllDig D) (hne : D ≠ []) :
    (expPart (c :: t)).2 = 1 + ks + D.length := by
  have hce : (c == 101 || c == 69) = true := by rcases hc with h | h <;> subst h <;> rfl
  have htw : D.takeWhile Dbl.isDigit = D := takeWhile_allDig D hD
  have hemp : D.isEmpty = false := by cases D with | nil => exact absurd rfl hne | cons _ _ => rfl
  simp only [expPart, hce, hs, if_true]
  simp only [htw, hemp, Bool.false_eq_true, if_false]

/-- `scanDec` from the results of its three sections -/
theorem scanDec'_of (s : Bytes) (neg : Bool) (k0 kdot : Nat) (I R Fd E : Bytes)
    (h1 : signPart s = (neg, I ++ R, k0)) (hI : AllDig I) (hne : I ≠ []) (hR : Stops R)
    (h2 : fracPart R = (Fd, E, kdot)) :
    ∃ m x, scanDec' s = some (neg, m, x, k0 + I.length + kdot + Fd.length + (expPart E).2) := by
  have hemp : I.isEmpty = false := by cases I with | nil => exact absurd rfl hne | cons _ _ => rfl
  refine ⟨(I ++ Fd).foldl (fun a c => a * 10 + (c.toNat - 48)) 0, (expPart E).1 - Fd.length, ?_⟩
  simp only [scanDec', h1, takeWhile_run I R hI hR, drop_run, h2, hemp, Bool.false_and, Bool.false_eq_true, if_false]

/-! #### the sections on the text of a `Num` -/

theorem signText_part (sg : Option Bool) (D : Bytes) (hD : AllDig D) (hne : D ≠ []) :
    ∃ neg, signPart (signText sg ++ D) = (neg, D, (signText sg).length) := by
  cases sg with
  | none =>
    have := signPart_run D [] hD hne
    rw [List.append_nil] at this
    exact ⟨false, by simpa [signText] using this⟩
  | some b => cases b with
    | true => exact ⟨true, rfl⟩
    | false => exact ⟨false, rfl⟩

theorem expText_stops (ex : Option (Bool × Option Bool × List Nat)) : Stops (expText ex) := by
  cases ex with
  | none => exact stops_nil
  | some p =>
    obtain ⟨up, sg, e⟩ := p
    cases up
    · exact stops_cons _ _ (by decide)
    · exact stops_cons _ _ (by decide)

theorem expText_ne46 (ex : Option (Bool × Option Bool × List Nat)) : ∀ c t, expText ex = c :: t → c ≠ 46 := by
  intro c t h
  cases ex with
  | none => cases h
  | some p =>
    obtain ⟨up, sg, e⟩ := p
    cases up <;> (simp only [expText] at h; injection h with h1 _; rw [← h1]; decide)

theorem expPart_text (ex : Option (Bool × Option Bool × List Nat))
    (hok : ∀ up sg e, ex = some (up, sg, e) → digitsOk e = true) :
    (expPart (expText ex)).2 = (expText ex).length := by
  cases ex with
  | none => rfl
  | some p =>
    obtain ⟨up, sg, e⟩ := p
    obtain ⟨hD, hne⟩ := allDig_text e (hok up sg e rfl)
    obtain ⟨neg, hs⟩ := signText_part sg (digitsText e) hD hne
    have hc : (if up then (69 : UInt8) else 101) = 101 ∨ (if up then (69 : UInt8) else 101) = 69 := by
      cases up
      · exact Or.inl rfl
      · exact Or.inr rfl
    have := expPart_run _ _ _ neg _ hc hs hD hne
    simp only [expText]
    rw [this]
    simp only [List.length_cons, List.length_append]
    omega

theorem fracText_stops (frac : Option (List Nat)) (ex : Option (Bool × Option Bool × List Nat)) :
    Stops (fracText frac ++ expText ex) := by
  cases frac with
  | none => simpa [fracText] using expText_stops ex
  | some f => exact stops_cons _ _ (by decide)

theorem fracPart_text (frac : Option (List Nat)) (ex : Option (Bool × Option Bool × List Nat))
    (hok : ∀ f, frac = some f → digitsOk f = true) :
    ∃ Fd kdot, fracPart (fracText frac ++ expText ex) = (Fd, expText ex, kdot) ∧
      kdot + Fd.length = (fracText frac).length := by
  cases frac with
  | none =>
    refine ⟨[], 0, ?_, rfl⟩
    simp only [fracText, List.nil_append]
    cases he : expText ex with
    | nil => rfl
    | cons c t => exact fracPart_other c t (expText_ne46 ex c t he)
  | some f =>
    obtain ⟨hD, _⟩ := allDig_text f (hok f rfl)
    refine ⟨digitsText f, 1, ?_, ?_⟩
    · exact fracPart_dot (digitsText f) (expText ex) hD (expText_stops ex)
    · simp only [fracText, List.length_cons]; omega

theorem signByte_part (neg : Bool) (D r : Bytes) (hD : AllDig D) (hne : D ≠ []) :
    signPart (signByte neg ++ (D ++ r)) = (neg, D ++ r, (signByte neg).length) := by
  cases neg with
  | true => rfl
  | false => simpa [signByte] using signPart_run D r hD hne

theorem num_ok_parts (n : Num) (h : n.ok = true) :
    digitsOk n.int = true ∧ (∀ f, n.frac = some f → digitsOk f = true) ∧
      (∀ up sg e, n.exp = some (up, sg, e) → digitsOk e = true) := by
  simp only [Num.ok, Bool.and_eq_true] at h
  obtain ⟨⟨⟨h1, _⟩, h3⟩, h4⟩ := h
  refine ⟨h1, ?_, ?_⟩
  · intro f hf; rw [hf] at h3; exact h3
  · intro up sg e he; rw [he] at h4; exact h4

/-- `scanDec` consumes the whole text of every valid JSON number -/
theorem scanDec_num (n : Num) (h : n.ok = true) :
    ∃ m x, Dbl.scanDec n.text = some (n.neg, m, x, n.text.length) := by
  obtain ⟨hi, hf, he⟩ := num_ok_parts n h
  obtain ⟨hI, hIne⟩ := allDig_text n.int hi
  obtain ⟨Fd, kdot, h2, hk⟩ := fracPart_text n.frac n.exp hf
  have h1 := signByte_part n.neg (digitsText n.int) (fracText n.frac ++ expText n.exp) hI hIne
  have htxt : n.text = signByte n.neg ++ (digitsText n.int ++ (fracText n.frac ++ expText n.exp)) := by
    simp only [Num.text, List.append_assoc]
  obtain ⟨m, x, hsc⟩ := scanDec'_of _ n.neg _ kdot _ _ Fd _ h1 hI hIne (fracText_stops n.frac n.exp) h2
  refine ⟨m, x, ?_⟩
  rw [scanDec_eq, htxt, hsc, expPart_text n.exp he]
  simp only [List.length_append]
  have : (signByte n.neg).length + (digitsText n.int).length + kdot + Fd.length + (expText n.exp).length =
      (signByte n.neg).length + ((digitsText n.int).length + ((fracText n.frac).length + (expText n.exp).length)) := by
    omega
  rw [this]

theorem strtod_num (n : Num) (h : n.ok = true) : (Dbl.strtod n.text).2 = n.text.length := by
  obtain ⟨m, x, hsc⟩ := scanDec_num n h
  simp only [Dbl.strtod, hsc]

theorem refLibc_dbl (n : Num) (h : n.ok = true) : refLibc.strtod n.text = ((Dbl.strtod n.text).1, n.text.length) := by
  show Dbl.strtod n.text = _
  rw [← strtod_num n h]

/-- the reference libc satisfies everything `parse_valid` assumes of libc -/
theorem refLibc_ok : LibcSpec refLibc :=
  ⟨refLibc_int64, refLibc_uint64, fun n h _ => refLibc_dbl n h⟩

end JsonC.Tokener
