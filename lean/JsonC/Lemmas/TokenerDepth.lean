/-
  Where the nesting error comes from: only `pushLevel` (the `depth >= max_depth - 1` test of the
  array / array_after_sep / object_value states) raises `error_depth`.  Helper lemmas for C15.
-/
import JsonC.Model.Tokener
namespace JsonC.Tokener
open JsonC

/-- the action is not the nesting error -/
def NoDepthErr : Act → Prop
  | .err e _ _ => e ≠ .depth
  | _ => True

section
variable (t : Tok) (l : Loc) (top : Level) (rest : List Level) (c : UInt8)
local macro "nd_tac" : tactic => `(tactic| (repeat' split) <;> simp [NoDepthErr])

theorem dEatws_nd : NoDepthErr (dEatws t l top rest c) := by unfold dEatws; nd_tac
theorem dStart_nd : NoDepthErr (dStart t l top rest c) := by unfold dStart; nd_tac
theorem dFinish_nd : NoDepthErr (dFinish t l top rest) := by unfold dFinish; nd_tac
theorem dInf_nd : NoDepthErr (dInf t l top rest c) := by unfold dInf; nd_tac
theorem dNull_nd : NoDepthErr (dNull t l top rest c) := by unfold dNull; simp only; nd_tac
theorem dBoolean_nd : NoDepthErr (dBoolean t l top rest c) := by unfold dBoolean; simp only; nd_tac
theorem dCommentStart_nd : NoDepthErr (dCommentStart t l top rest c) := by unfold dCommentStart; nd_tac
theorem dComment_nd : NoDepthErr (dComment t l top rest c) := by unfold dComment; nd_tac
theorem dCommentEol_nd : NoDepthErr (dCommentEol t l top rest c) := by unfold dCommentEol; nd_tac
theorem dCommentEnd_nd : NoDepthErr (dCommentEnd t l top rest c) := by unfold dCommentEnd; simp only; nd_tac
theorem dString_nd : NoDepthErr (dString t l top rest c) := by unfold dString; nd_tac
theorem dObjectField_nd : NoDepthErr (dObjectField t l top rest c) := by unfold dObjectField; nd_tac
theorem dStringEscape_nd : NoDepthErr (dStringEscape t l top rest c) := by unfold dStringEscape; simp only; nd_tac
theorem emitUnit_nd (u : Nat) (pb : Bytes) : NoDepthErr (emitUnit t l top rest u pb) := by
  unfold emitUnit; simp only; nd_tac
set_option maxRecDepth 4000 in
theorem unicodeUnit_nd (u : Nat) : NoDepthErr (unicodeUnit t l top rest u) := by
  unfold unicodeUnit
  split
  · split
    · exact emitUnit_nd t l top rest _ _
    · exact emitUnit_nd t l top rest _ _
  · exact emitUnit_nd t l top rest _ _
theorem dEscapeUnicode_nd : NoDepthErr (dEscapeUnicode t l top rest c) := by
  unfold dEscapeUnicode
  split
  · simp [NoDepthErr]
  · split
    · simp [NoDepthErr]
    · split
      · simp [NoDepthErr]
      · exact unicodeUnit_nd _ l top rest _
theorem dNeedEscape_nd : NoDepthErr (dNeedEscape t l top rest c) := by unfold dNeedEscape; nd_tac
theorem dNeedU_nd : NoDepthErr (dNeedU t l top rest c) := by unfold dNeedU; nd_tac
theorem dArraySep_nd : NoDepthErr (dArraySep t l top rest c) := by unfold dArraySep; nd_tac
theorem dObjectFieldStart_nd (b : Bool) : NoDepthErr (dObjectFieldStart t l top rest c b) := by
  unfold dObjectFieldStart; nd_tac
theorem dObjectFieldEnd_nd : NoDepthErr (dObjectFieldEnd t l top rest c) := by unfold dObjectFieldEnd; nd_tac
theorem dObjectSep_nd : NoDepthErr (dObjectSep t l top rest c) := by unfold dObjectSep; nd_tac
theorem dNumber_nd (lc : Libc) : NoDepthErr (dNumber lc t l top rest c) := by
  unfold dNumber dNumberCore
  split
  · simp [NoDepthErr]
  · split
    · simp [NoDepthErr]
    · split
      · simp [NoDepthErr]
      · simp only
        cases h : classifyNum lc _ _ with
        | ok v => simp [NoDepthErr]
        | error e =>
          simp only [NoDepthErr]
          unfold classifyNum at h
          simp only at h
          repeat' split at h
          all_goals first | (cases h; done) | (cases h; simp)
end

/-- `pushLevel` in exact terms: the nesting error iff the level stack is full -/
theorem pushLevel_depth (t : Tok) (l : Loc) (top : Level) (rest : List Level) (st : St) (hm : 1 ≤ t.maxDepth) :
    (pushLevel t l top rest st = .err .depth t l ↔ t.maxDepth ≤ rest.length + 1) ∧
    (rest.length + 1 < t.maxDepth →
      pushLevel t l top rest st = .redo { t with stack := freshLevel :: { top with state := st } :: rest } l) := by
  unfold pushLevel
  constructor
  · constructor
    · intro h
      split at h
      · omega
      · split at h <;> cases h
    · intro h
      rw [if_pos (by omega)]
  · intro h
    rw [if_neg (by omega), if_neg (by omega)]

end JsonC.Tokener
