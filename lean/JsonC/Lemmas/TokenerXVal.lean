/-
  C16: how the value default mode returns for a document with extensions (`XDoc.denote`) relates to
  the value of the original RFC 8259 document (`XDoc.erase`): identical when no number is written with
  a number extension; identical up to the source text retained by doubles when the only number
  extensions are superfluous leading zeros or digit-less exponents on numbers that are doubles anyway.
  Pure statements about the specification (no tokener).
-/
import JsonC.Spec.Rfc8259X
namespace JsonC.Rfc8259X
open JsonC Rfc8259

/-! ### without number extensions -/

theorem XNum.denote_plain (n : XNum) (hp : n.plain = true) : n.denote = n.base.denote := by
  simp only [XNum.plain, Bool.and_eq_true, beq_iff_eq] at hp
  have hb : n.bare = none := by cases h : n.bare <;> simp_all
  have hlit : n.lit = n.base.text := by simp [XNum.lit, hp.1, Num.text]
  unfold XNum.denote XNum.isDouble
  rw [hb, hlit]
  cases hf : n.base.frac <;> cases he : n.base.exp <;> simp [Num.denote, hf, he]

theorem xdenote_induct {P : XDoc → Prop} (hlit : ∀ k caps, P (.lit k caps)) (hnum : ∀ n, P (.num n))
    (hstr : ∀ q items, P (.str q items))
    (harr : ∀ g es tr, (∀ e ∈ es, P e.2.1) → P (.arr g es tr))
    (hobj : ∀ g ms tr, (∀ m ∈ ms, P m.2.2.2.2.2.1) → P (.obj g ms tr)) : ∀ d, P d
  | .lit k caps => hlit k caps
  | .num n => hnum n
  | .str q items => hstr q items
  | .arr g es tr => harr g es tr (fun e he =>
      match e, he with
      | (_, d, _), _ => xdenote_induct hlit hnum hstr harr hobj d)
  | .obj g ms tr => hobj g ms tr (fun m hm =>
      match m, hm with
      | (_, _, _, _, _, d, _), _ => xdenote_induct hlit hnum hstr harr hobj d)
termination_by d => sizeOf d
decreasing_by
  all_goals simp_wf
  · rename_i he
    have := List.sizeOf_lt_of_mem he
    simp at this
    omega
  · rename_i hm
    have := List.sizeOf_lt_of_mem hm
    simp at this
    omega

theorem xelems_denote_plain (es : List (Gap × XDoc × Gap))
    (ih : ∀ e ∈ es, e.2.1.numsPlain = true → e.2.1.denote = e.2.1.erase.denote) (hp : xelemsNumsPlain es = true) :
    xelemsDenote es = elemsDenote (xelemsErase es) := by
  induction es with
  | nil => rfl
  | cons e r ihr =>
    obtain ⟨g1, d, g2⟩ := e
    simp only [xelemsNumsPlain, Bool.and_eq_true] at hp
    simp only [xelemsDenote, xelemsErase, elemsDenote]
    rw [ih (g1, d, g2) (by simp) hp.1, ihr (fun e he => ih e (by simp [he])) hp.2]

theorem xmembers_denote_plain (ms : List (Gap × Quote × List StrItem × Gap × Gap × XDoc × Gap))
    (ih : ∀ m ∈ ms, m.2.2.2.2.2.1.numsPlain = true → m.2.2.2.2.2.1.denote = m.2.2.2.2.2.1.erase.denote)
    (hp : xmembersNumsPlain ms = true) : ∀ acc, xmembersDenote ms acc = membersDenote (xmembersErase ms) acc := by
  induction ms with
  | nil => intro acc; rfl
  | cons m r ihr =>
    obtain ⟨g1, q, k, g2, g3, d, g4⟩ := m
    intro acc
    simp only [xmembersNumsPlain, Bool.and_eq_true] at hp
    simp only [xmembersDenote, xmembersErase, membersDenote]
    rw [ih (g1, q, k, g2, g3, d, g4) (by simp) hp.1, ihr (fun e he => ih e (by simp [he])) hp.2]

/-- **no number extension: the value is exactly the value of the original document** -/
theorem denote_eq_erase : ∀ (x : XDoc), x.numsPlain = true → x.denote = x.erase.denote := by
  intro x
  induction x using xdenote_induct with
  | hlit k caps => intro _; simp [XDoc.denote, XDoc.erase]
  | hnum n => intro hp; simpa [XDoc.denote, XDoc.erase, Doc.denote] using XNum.denote_plain n (by simpa [XDoc.numsPlain] using hp)
  | hstr q items => intro _; simp [XDoc.denote, XDoc.erase, Doc.denote]
  | harr g es tr ih =>
    intro hp
    simp only [XDoc.denote, XDoc.erase, Doc.denote]
    rw [xelems_denote_plain es ih (by simpa [XDoc.numsPlain] using hp)]
  | hobj g ms tr ih =>
    intro hp
    simp only [XDoc.denote, XDoc.erase, Doc.denote]
    rw [xmembers_denote_plain ms ih (by simpa [XDoc.numsPlain] using hp)]

/-! ### with number extensions: the same numbers, up to the text a double retains -/

mutual
  /-- forget the source text retained by doubles -/
  def dropText : JVal → JVal
    | .dbl b _ => .dbl b none
    | .arr xs => .arr (dropTextList xs)
    | .obj kvs => .obj (dropTextMembers kvs)
    | .null => .null
    | .bool b => .bool b
    | .int s v => .int s v
    | .str s => .str s
  def dropTextList : List JVal → List JVal
    | [] => []
    | x :: xs => dropText x :: dropTextList xs
  def dropTextMembers : List (Bytes × JVal) → List (Bytes × JVal)
    | [] => []
    | (k, v) :: kvs => (k, dropText v) :: dropTextMembers kvs
end

/-- the number is read as the same kind (integer / double) as the original: every number extension
except a digit-less exponent on a number without fraction -/
def XNum.kindKept (x : XNum) : Bool := x.isDouble == (x.base.frac.isSome || x.base.exp.isSome)

mutual
  def XDoc.kindsKept : XDoc → Bool
    | .num n => n.kindKept
    | .arr _ es _ => xelemsKindsKept es
    | .obj _ ms _ => xmembersKindsKept ms
    | _ => true
  def xelemsKindsKept : List (Gap × XDoc × Gap) → Bool
    | [] => true
    | (_, d, _) :: r => XDoc.kindsKept d && xelemsKindsKept r
  def xmembersKindsKept : List (Gap × Quote × List StrItem × Gap × Gap × XDoc × Gap) → Bool
    | [] => true
    | (_, _, _, _, _, d, _) :: r => XDoc.kindsKept d && xmembersKindsKept r
end

theorem XNum.denote_same (n : XNum) (hk : n.kindKept = true) : dropText n.denote = dropText n.base.denote := by
  simp only [XNum.kindKept, beq_iff_eq] at hk
  unfold XNum.denote
  rw [hk]
  cases hf : n.base.frac <;> cases he : n.base.exp <;> simp [Num.denote, hf, he, dropText]

theorem dropTextMembers_append (a b : List (Bytes × JVal)) :
    dropTextMembers (a ++ b) = dropTextMembers a ++ dropTextMembers b := by
  induction a with
  | nil => rfl
  | cons p r ih => obtain ⟨k, v⟩ := p; simp [dropTextMembers, ih]

theorem dropTextMembers_any (kvs : List (Bytes × JVal)) (k : Bytes) :
    (dropTextMembers kvs).any (·.1 == k) = kvs.any (·.1 == k) := by
  induction kvs with
  | nil => rfl
  | cons p r ih => obtain ⟨k', v⟩ := p; simp [dropTextMembers, ih]

theorem dropTextMembers_map (kvs : List (Bytes × JVal)) (k : Bytes) (v : JVal) :
    dropTextMembers (kvs.map (fun kv => if kv.1 == k then (k, v) else kv)) =
      (dropTextMembers kvs).map (fun kv => if kv.1 == k then (k, dropText v) else kv) := by
  induction kvs with
  | nil => rfl
  | cons p r ih =>
    obtain ⟨k', v'⟩ := p
    simp only [List.map_cons]
    by_cases h : (k' == k) = true
    · simp only [h, if_true, dropTextMembers, List.map_cons, ih]
    · simp only [h, Bool.false_eq_true, if_false, dropTextMembers, List.map_cons, ih]

theorem dropText_addOrReplace (kvs : List (Bytes × JVal)) (k : Bytes) (v : JVal) :
    dropTextMembers (addOrReplace kvs k v) = addOrReplace (dropTextMembers kvs) k (dropText v) := by
  unfold addOrReplace
  rw [dropTextMembers_any]
  split
  · exact dropTextMembers_map kvs k v
  · rw [dropTextMembers_append]; rfl

theorem xelems_denote_same (es : List (Gap × XDoc × Gap))
    (ih : ∀ e ∈ es, e.2.1.kindsKept = true → dropText e.2.1.denote = dropText e.2.1.erase.denote)
    (hp : xelemsKindsKept es = true) :
    dropTextList (xelemsDenote es) = dropTextList (elemsDenote (xelemsErase es)) := by
  induction es with
  | nil => rfl
  | cons e r ihr =>
    obtain ⟨g1, d, g2⟩ := e
    simp only [xelemsKindsKept, Bool.and_eq_true] at hp
    simp only [xelemsDenote, xelemsErase, elemsDenote, dropTextList]
    rw [ih (g1, d, g2) (by simp) hp.1, ihr (fun e he => ih e (by simp [he])) hp.2]

theorem xmembers_denote_same (ms : List (Gap × Quote × List StrItem × Gap × Gap × XDoc × Gap))
    (ih : ∀ m ∈ ms, m.2.2.2.2.2.1.kindsKept = true → dropText m.2.2.2.2.2.1.denote = dropText m.2.2.2.2.2.1.erase.denote)
    (hp : xmembersKindsKept ms = true) : ∀ acc acc', dropTextMembers acc = dropTextMembers acc' →
      dropTextMembers (xmembersDenote ms acc) = dropTextMembers (membersDenote (xmembersErase ms) acc') := by
  induction ms with
  | nil => intro acc acc' h; exact h
  | cons m r ihr =>
    obtain ⟨g1, q, k, g2, g3, d, g4⟩ := m
    intro acc acc' h
    simp only [xmembersKindsKept, Bool.and_eq_true] at hp
    simp only [xmembersDenote, xmembersErase, membersDenote]
    apply ihr (fun e he => ih e (by simp [he])) hp.2
    rw [dropText_addOrReplace, dropText_addOrReplace, h, ih (g1, q, k, g2, g3, d, g4) (by simp) hp.1]

/-- **number extensions that keep the kind of every number: the same value as the original document,
up to the source text doubles retain** (`01.5` is the double 1.5 retaining "01.5") -/
theorem denote_same_numbers : ∀ (x : XDoc), x.kindsKept = true → dropText x.denote = dropText x.erase.denote := by
  intro x
  induction x using xdenote_induct with
  | hlit k caps => intro _; simp [XDoc.denote, XDoc.erase]
  | hnum n => intro hp; simpa [XDoc.denote, XDoc.erase, Doc.denote] using XNum.denote_same n (by simpa [XDoc.kindsKept] using hp)
  | hstr q items => intro _; simp [XDoc.denote, XDoc.erase, Doc.denote]
  | harr g es tr ih =>
    intro hp
    simp only [XDoc.denote, XDoc.erase, Doc.denote, dropText]
    rw [xelems_denote_same es ih (by simpa [XDoc.kindsKept] using hp)]
  | hobj g ms tr ih =>
    intro hp
    simp only [XDoc.denote, XDoc.erase, Doc.denote, dropText]
    rw [xmembers_denote_same ms ih (by simpa [XDoc.kindsKept] using hp) [] [] rfl]

/-- a digit-less exponent on an integer changes the kind: `1e` is read as the double 1.0 -/
example : (XNum.mk ⟨false, [1], none, none⟩ 0 (some (false, none))).kindKept = false ∧
    (XNum.mk ⟨false, [1], some [5], none⟩ 2 (some (true, some true))).kindKept = true := by decide

end JsonC.Rfc8259X
