/-
  Helper lemmas for C11 (never property statements).
-/
import JsonC.Model.StrStore
import JsonC.Spec.ByteStr

namespace JsonC.StrStore
open JsonC Generated
open JsonC.ByteStr (Ev)

/-! ### facts about the regenerated constants (re-checked on every run) -/
theorem c_union_le : sizeofStringUnion ≤ sizeofJsonObjectString := by decide
theorem c_off_le_hdr : offsetofStringData ≤ sizeofJsonObjectString - sizeofStringUnion := by decide
theorem c_hdr_small : sizeofJsonObjectString + sizeofPtr + strNewNulRoom + strNewGuardSlack ≤ intMax := by decide
theorem c_int_le_ssize : intMax ≤ ssizeMax := by decide
theorem c_ssize_le_size : ssizeMax ≤ sizeMax := by decide
theorem c_new_nul : 1 ≤ strNewNulRoom ∧ strNewNulRoom ≤ strNewGuardSlack := by decide
theorem c_grow_nul : 1 ≤ strGrowNulRoom ∧ strGrowNulRoom + intMax ≤ sizeMax := by decide
theorem c_ptr_pos : 1 ≤ sizeofPtr := by decide

/-- sizeof(*jso) - sizeof(jso->c_string) -/
def hdr : Nat := sizeofJsonObjectString - sizeofStringUnion

/-! ### list plumbing -/
theorem writeAt_length (cells : List (Option UInt8)) (o : Nat) (cs : List (Option UInt8))
    (h : o + cs.length ≤ cells.length) : (writeAt cells o cs).length = cells.length := by
  simp [writeAt]; omega

theorem writeAt_get_lt (cells : List (Option UInt8)) (o : Nat) (cs : List (Option UInt8)) (i : Nat)
    (h : o + cs.length ≤ cells.length) (hi : i < o) : (writeAt cells o cs)[i]? = cells[i]? := by
  unfold writeAt
  rw [List.append_assoc, List.getElem?_append_left (by simp; omega)]
  simp [hi]

theorem writeAt_get_mid (cells : List (Option UInt8)) (o : Nat) (cs : List (Option UInt8)) (i : Nat)
    (h : o + cs.length ≤ cells.length) (hi : o ≤ i) (hi2 : i < o + cs.length) :
    (writeAt cells o cs)[i]? = cs[i - o]? := by
  unfold writeAt
  rw [List.append_assoc, List.getElem?_append_right (by simp; omega)]
  rw [List.getElem?_append_left (by simp; omega)]
  simp
  have : min o cells.length = o := by omega
  rw [this]

theorem writeAt_get_ge (cells : List (Option UInt8)) (o : Nat) (cs : List (Option UInt8)) (i : Nat)
    (h : o + cs.length ≤ cells.length) (hi : o + cs.length ≤ i) :
    (writeAt cells o cs)[i]? = cells[i]? := by
  unfold writeAt
  rw [List.getElem?_append_right (by simp; omega)]
  simp
  have : min o cells.length = o := by omega
  rw [this]
  congr 1; omega

/-- a slice described pointwise -/
theorem slice_eq_of_pointwise (cells : List (Option UInt8)) (o : Nat) (xs : List (Option UInt8))
    (h : ∀ i, i < xs.length → cells[o + i]? = xs[i]?) (_hb : o + xs.length ≤ cells.length) :
    (cells.drop o).take xs.length = xs := by
  apply List.ext_getElem?
  intro i
  simp only [List.getElem?_take, List.getElem?_drop]
  by_cases hi : i < xs.length
  · simp only [hi, if_true]; exact h i hi
  · simp only [hi, if_false]
    rw [List.getElem?_eq_none (by omega)]

theorem allSome_map_some (bs : Bytes) : allSome (bs.map some) = some bs := by
  induction bs with
  | nil => rfl
  | cons b bs ih => simp [allSome, ih]

theorem scanNul_holds (s : Bytes) (rest : List (Option UInt8)) :
    scanNul ((s ++ [0]).map some ++ rest) = some (ByteStr.cPrefix s).length := by
  induction s with
  | nil => simp [scanNul, ByteStr.cPrefix]
  | cons b s ih =>
    by_cases hb : b = 0
    · subst hb; simp [scanNul, ByteStr.cPrefix]
    · have : (b != 0) = true := by simp [hb]
      simp only [List.cons_append, List.map_cons, scanNul, hb, if_false, ByteStr.cPrefix,
        List.takeWhile_cons, this, if_true, List.length_cons]
      simp only [List.map_append, List.map_cons, List.map_nil] at ih
      simp only [List.map_append, List.map_cons, List.map_nil, ByteStr.cPrefix] at ih ⊢
      rw [ih]; rfl

theorem cstrlen_terminated (s : Bytes) (rest : Bytes) :
    cstrlen (s ++ 0 :: rest) = some (ByteStr.cPrefix s).length := by
  induction s with
  | nil => simp [cstrlen, ByteStr.cPrefix]
  | cons b s ih =>
    by_cases hb : b = 0
    · subst hb; simp [cstrlen, ByteStr.cPrefix]
    · have : (b != 0) = true := by simp [hb]
      simp only [List.cons_append, cstrlen, hb, if_false, ByteStr.cPrefix, List.takeWhile_cons, this,
        if_true, List.length_cons]
      simp only [ByteStr.cPrefix] at ih
      rw [ih]; rfl

theorem cPrefix_take (s rest : Bytes) :
    (s ++ 0 :: rest).take (ByteStr.cPrefix s).length = ByteStr.cPrefix s := by
  induction s with
  | nil => simp [ByteStr.cPrefix]
  | cons b s ih =>
    by_cases hb : b = 0
    · subst hb; simp [ByteStr.cPrefix]
    · have : (b != 0) = true := by simp [hb]
      simp only [ByteStr.cPrefix, List.takeWhile_cons, this, if_true, List.length_cons, List.cons_append,
        List.take_succ_cons]
      simp only [ByteStr.cPrefix] at ih
      rw [ih]

theorem cPrefix_length_le (s : Bytes) : (ByteStr.cPrefix s).length ≤ s.length := by
  unfold ByteStr.cPrefix
  exact (List.takeWhile_sublist _).length_le

/-! ### event-log discipline -/
theorem nouaf_snoc (t : List Ev) (e : Ev) (h : ByteStr.NoUseAfterFree t)
    (he : ∀ id, (e = .read id ∨ e = .write id ∨ e = .free id) → Ev.free id ∉ t) :
    ByteStr.NoUseAfterFree (t ++ [e]) := by
  intro t1 t2 id heq
  rcases List.eq_nil_or_concat t2 with h2 | ⟨t2', e', h2⟩
  · subst h2; simp
  · rw [List.concat_eq_append] at h2
    subst h2
    have heq' : t ++ [e] = (t1 ++ Ev.free id :: t2') ++ [e'] := by simp [heq]
    have := List.append_inj' heq' rfl
    obtain ⟨ht, he'⟩ := this
    have he'' : e = e' := by simpa using he'
    subst he''
    obtain ⟨h1, h2, h3⟩ := h t1 t2' id ht
    have hmem : Ev.free id ∈ t := by rw [ht]; simp
    refine ⟨?_, ?_, ?_⟩
    · intro hc
      rcases List.mem_append.mp hc with hc | hc
      · exact h1 hc
      · simp at hc; exact he id (Or.inl hc.symm) hmem
    · intro hc
      rcases List.mem_append.mp hc with hc | hc
      · exact h2 hc
      · simp at hc; exact he id (Or.inr (Or.inl hc.symm)) hmem
    · intro hc
      rcases List.mem_append.mp hc with hc | hc
      · exact h3 hc
      · simp at hc; exact he id (Or.inr (Or.inr hc.symm)) hmem


/-! ### memory invariant -/
def liveAt (heap : List Block) (id : Nat) : Option Bool := (heap[id]?).map (·.live)

def freesFor : Option Bool → Nat
  | some false => 1
  | _ => 0

structure MemInv (m : Mem) : Prop where
  cells : ∀ (id : Nat) (b : Block), m.heap[id]? = some b → b.cells.length = b.size
  frees : ∀ id, m.trace.count (Ev.free id) = freesFor (liveAt m.heap id)
  mallocs : ∀ id, (m.trace.filter (Ev.isMallocOf id)).length = if id < m.heap.length then 1 else 0
  nouaf : ByteStr.NoUseAfterFree m.trace

theorem MemInv.empty : MemInv {} := by
  refine ⟨?_, ?_, ?_, ?_⟩
  · intro id b h; simp at h
  · intro id; simp [liveAt, freesFor]
  · intro id; simp
  · intro t1 t2 id h; simp at h

theorem liveAt_some {heap : List Block} {id : Nat} {b : Block} (h : heap[id]? = some b) :
    liveAt heap id = some b.live := by simp [liveAt, h]

theorem free_notin_of_live {m : Mem} (h : MemInv m) {id : Nat} {b : Block} (hb : m.heap[id]? = some b)
    (hl : b.live = true) : Ev.free id ∉ m.trace := by
  have := h.frees id
  rw [liveAt_some hb, hl] at this
  simp only [freesFor] at this
  exact List.count_eq_zero.mp this

/-- appending a read/write of a live block; the heap may change but keeps lengths, liveness, sizes -/
theorem MemInv.access {m : Mem} (h : MemInv m) (e : Ev) (id : Nat) (b : Block) (heap' : List Block)
    (he : e = .read id ∨ e = .write id) (hb : m.heap[id]? = some b) (hl : b.live = true)
    (hlen : heap'.length = m.heap.length) (hlive : ∀ i, liveAt heap' i = liveAt m.heap i)
    (hcells : ∀ (i : Nat) (b' : Block), heap'[i]? = some b' → b'.cells.length = b'.size) :
    MemInv { heap := heap', trace := m.trace ++ [e] } := by
  refine ⟨hcells, ?_, ?_, ?_⟩
  · intro i
    dsimp only
    rw [hlive i, ← h.frees i, List.count_append]
    rcases he with he | he <;> subst he <;> simp
  · intro i
    dsimp only
    rw [hlen, ← h.mallocs i, List.filter_append]
    rcases he with he | he <;> subst he <;> simp [Ev.isMallocOf]
  · dsimp only
    apply nouaf_snoc _ _ h.nouaf
    intro j hj
    have hnot := free_notin_of_live h hb hl
    rcases he with he | he <;> subst he <;> rcases hj with hj | hj | hj <;> simp at hj <;> subst hj <;> exact hnot

theorem malloc_ok (m : Mem) (sz : Nat) (h : MemInv m) :
    ∃ m', m.malloc sz true = (m', some m.heap.length) ∧
      m'.heap = m.heap ++ [{ size := sz, cells := List.replicate sz none, live := true }] ∧ MemInv m' := by
  refine ⟨{ heap := m.heap ++ [{ size := sz, cells := List.replicate sz none, live := true }],
            trace := m.trace ++ [.malloc m.heap.length sz] }, by simp [Mem.malloc], rfl, ?_, ?_, ?_, ?_⟩
  · intro id b hb
    dsimp only at hb
    rcases Nat.lt_or_ge id m.heap.length with hlt | hge
    · rw [List.getElem?_append_left hlt] at hb; exact h.cells id b hb
    · rw [List.getElem?_append_right hge] at hb
      rcases Nat.eq_zero_or_pos (id - m.heap.length) with h0 | hp
      · rw [h0] at hb; simp at hb; subst hb; simp
      · rw [List.getElem?_eq_none (by simp; omega)] at hb; simp at hb
  · intro id
    dsimp only
    rw [List.count_append]
    have : List.count (Ev.free id) [Ev.malloc m.heap.length sz] = 0 := by simp
    rw [this, Nat.add_zero, h.frees id]
    unfold liveAt
    rcases Nat.lt_or_ge id m.heap.length with hlt | hge
    · rw [List.getElem?_append_left hlt]
    · rw [List.getElem?_eq_none hge, List.getElem?_append_right hge]
      rcases Nat.eq_zero_or_pos (id - m.heap.length) with h0 | hp
      · rw [h0]; simp [freesFor]
      · rw [List.getElem?_eq_none (by simp; omega)]
  · intro id
    dsimp only
    rw [List.filter_append, List.length_append, h.mallocs id]
    by_cases hid : m.heap.length = id
    · subst hid; simp [Ev.isMallocOf]
    · simp [Ev.isMallocOf, hid]
      split <;> split <;> omega
  · dsimp only
    apply nouaf_snoc _ _ h.nouaf
    intro j hj
    rcases hj with hj | hj | hj <;> simp at hj

theorem malloc_fail (m : Mem) (sz : Nat) (h : MemInv m) :
    ∃ m', m.malloc sz false = (m', none) ∧ m'.heap = m.heap ∧ MemInv m' := by
  refine ⟨{ m with trace := m.trace ++ [.mallocFail sz] }, by simp [Mem.malloc], rfl, h.cells, ?_, ?_, ?_⟩
  · intro id; dsimp only; rw [List.count_append, h.frees id]; simp
  · intro id; dsimp only; rw [List.filter_append, List.length_append, h.mallocs id]; simp [Ev.isMallocOf]
  · dsimp only
    apply nouaf_snoc _ _ h.nouaf
    intro j hj
    rcases hj with hj | hj | hj <;> simp at hj

theorem liveAt_set (heap : List Block) (id : Nat) (b' : Block) (i : Nat) (hid : id < heap.length) :
    liveAt (heap.set id b') i = if i = id then some b'.live else liveAt heap i := by
  unfold liveAt
  by_cases hi : i = id
  · subst hi; simp [hid]
  · rw [List.getElem?_set_ne (Ne.symm hi)]; simp [hi]

theorem free_ok (m : Mem) (id : Nat) (b : Block) (site : String) (h : MemInv m)
    (hb : m.heap[id]? = some b) (hl : b.live = true) :
    ∃ m', m.free id site = .ok m' ∧ m'.heap = m.heap.set id { b with live := false } ∧ MemInv m' := by
  have hid : id < m.heap.length := by
    rcases Nat.lt_or_ge id m.heap.length with hlt | hge
    · exact hlt
    · rw [List.getElem?_eq_none hge] at hb; simp at hb
  refine ⟨{ heap := m.heap.set id { b with live := false }, trace := m.trace ++ [.free id] },
    by simp [Mem.free, hb, hl], rfl, ?_, ?_, ?_, ?_⟩
  · intro i b' hb'
    dsimp only at hb'
    by_cases hi : i = id
    · subst hi; rw [List.getElem?_set_self hid] at hb'; simp at hb'; subst hb'; exact h.cells _ b hb
    · rw [List.getElem?_set_ne (Ne.symm hi)] at hb'; exact h.cells _ _ hb'
  · intro i
    dsimp only
    rw [List.count_append, h.frees i, liveAt_set _ _ _ _ hid]
    by_cases hi : i = id
    · subst hi; simp [liveAt_some hb, hl, freesFor]
    · have : Ev.free id ≠ Ev.free i := by intro hc; injection hc with hc; exact hi hc.symm
      simp [hi, this]
  · intro i
    dsimp only
    rw [List.filter_append, List.length_append, h.mallocs i, List.length_set]; simp [Ev.isMallocOf]
  · dsimp only
    apply nouaf_snoc _ _ h.nouaf
    intro j hj
    have hnot := free_notin_of_live h hb hl
    rcases hj with hj | hj | hj <;> simp at hj
    subst hj; exact hnot

theorem store_ok (m : Mem) (id o : Nat) (cs : List (Option UInt8)) (b : Block) (site : String) (h : MemInv m)
    (hb : m.heap[id]? = some b) (hl : b.live = true) (hbd : o + cs.length ≤ b.size) :
    ∃ m', m.store id o cs site = .ok m' ∧
      m'.heap = m.heap.set id { b with cells := writeAt b.cells o cs } ∧ MemInv m' := by
  have hid : id < m.heap.length := by
    rcases Nat.lt_or_ge id m.heap.length with hlt | hge
    · exact hlt
    · rw [List.getElem?_eq_none hge] at hb; simp at hb
  have hc := h.cells id b hb
  refine ⟨{ heap := m.heap.set id { b with cells := writeAt b.cells o cs }, trace := m.trace ++ [.write id] }, ?_, rfl, ?_⟩
  · unfold Mem.store
    simp only [hb, hl]
    rw [if_neg (by simp), if_neg (by omega)]
  · apply MemInv.access h (.write id) id b _ (Or.inr rfl) hb hl (by simp)
    · intro i
      rw [liveAt_set _ _ _ _ hid]
      by_cases hi : i = id
      · subst hi; simp [liveAt_some hb]
      · simp [hi]
    · intro i b' hb'
      by_cases hi : i = id
      · subst hi; rw [List.getElem?_set_self hid] at hb'; simp at hb'; subst hb'
        dsimp only; rw [writeAt_length _ _ _ (by omega)]; exact hc
      · rw [List.getElem?_set_ne (Ne.symm hi)] at hb'; exact h.cells _ _ hb'

theorem load_ok (m : Mem) (id o n : Nat) (b : Block) (site : String) (bs : Bytes) (h : MemInv m)
    (hb : m.heap[id]? = some b) (hl : b.live = true) (hbd : o + n ≤ b.size)
    (hs : (b.cells.drop o).take n = bs.map some) :
    ∃ m', m.load id o n site = .ok (m', bs) ∧ m'.heap = m.heap ∧ MemInv m' := by
  have hc := h.cells id b hb
  refine ⟨{ m with trace := m.trace ++ [.read id] }, ?_, rfl, ?_⟩
  · unfold Mem.load
    simp only [hb, hl]
    rw [if_neg (by simp), if_neg (by omega), hs, allSome_map_some]
  · exact MemInv.access h (.read id) id b _ (Or.inl rfl) hb hl rfl (fun _ => rfl) h.cells

theorem strlen_ok (m : Mem) (id o : Nat) (b : Block) (site : String) (s : Bytes) (rest : List (Option UInt8))
    (h : MemInv m) (hb : m.heap[id]? = some b) (hl : b.live = true) (hbd : o ≤ b.size)
    (hs : b.cells.drop o = (s ++ [0]).map some ++ rest) :
    ∃ m', m.strlen id o site = .ok (m', (ByteStr.cPrefix s).length) ∧ m'.heap = m.heap ∧ MemInv m' := by
  have hc := h.cells id b hb
  refine ⟨{ m with trace := m.trace ++ [.read id] }, ?_, rfl, ?_⟩
  · unfold Mem.strlen
    simp only [hb, hl]
    rw [if_neg (by simp), if_neg (by omega), hs, scanNul_holds]
  · exact MemInv.access h (.read id) id b _ (Or.inl rfl) hb hl rfl (fun _ => rfl) h.cells

end JsonC.StrStore
