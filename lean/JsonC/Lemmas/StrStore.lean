/-
  Helper lemmas for C11 (never property statements).
-/
import JsonC.Model.StrStore
import JsonC.Spec.ByteStr

namespace JsonC.StrStore
open JsonC Generated
open JsonC.ByteStr (Ev)

/-! ### facts about the regenerated constants (re-checked on every run) -/
theorem c_union_le : sizeofStringUnion ≤ sizeofJsonObjectString := by decide
theorem c_off_le_hdr : offsetofStringData ≤ sizeofJsonObjectString - sizeofStringUnion := by decide
theorem c_hdr_small : sizeofJsonObjectString + sizeofPtr + strNewNulRoom + strNewGuardSlack ≤ intMax := by decide
theorem c_int_le_ssize : intMax ≤ ssizeMax := by decide
theorem c_ssize_le_size : ssizeMax ≤ sizeMax := by decide
theorem c_new_nul : 1 ≤ strNewNulRoom ∧ strNewNulRoom ≤ strNewGuardSlack := by decide
theorem c_grow_nul : 1 ≤ strGrowNulRoom ∧ strGrowNulRoom + intMax ≤ sizeMax := by decide
theorem c_ptr_pos : 1 ≤ sizeofPtr := by decide

/-- sizeof(*jso) - sizeof(jso->c_string) -/
def hdr : Nat := sizeofJsonObjectString - sizeofStringUnion

/-! ### list plumbing -/
theorem writeAt_length (cells : List (Option UInt8)) (o : Nat) (cs : List (Option UInt8))
    (h : o + cs.length ≤ cells.length) : (writeAt cells o cs).length = cells.length := by
  simp [writeAt]; omega

theorem writeAt_get_lt (cells : List (Option UInt8)) (o : Nat) (cs : List (Option UInt8)) (i : Nat)
    (h : o + cs.length ≤ cells.length) (hi : i < o) : (writeAt cells o cs)[i]? = cells[i]? := by
  unfold writeAt
  rw [List.append_assoc, List.getElem?_append_left (by simp; omega)]
  simp [hi]

theorem writeAt_get_mid (cells : List (Option UInt8)) (o : Nat) (cs : List (Option UInt8)) (i : Nat)
    (h : o + cs.length ≤ cells.length) (hi : o ≤ i) (hi2 : i < o + cs.length) :
    (writeAt cells o cs)[i]? = cs[i - o]? := by
  unfold writeAt
  rw [List.append_assoc, List.getElem?_append_right (by simp; omega)]
  rw [List.getElem?_append_left (by simp; omega)]
  simp
  have : min o cells.length = o := by omega
  rw [this]

theorem writeAt_get_ge (cells : List (Option UInt8)) (o : Nat) (cs : List (Option UInt8)) (i : Nat)
    (h : o + cs.length ≤ cells.length) (hi : o + cs.length ≤ i) :
    (writeAt cells o cs)[i]? = cells[i]? := by
  unfold writeAt
  rw [List.getElem?_append_right (by simp; omega)]
  simp
  have : min o cells.length = o := by omega
  rw [this]
  congr 1; omega

/-- a slice described pointwise -/
theorem slice_eq_of_pointwise (cells : List (Option UInt8)) (o : Nat) (xs : List (Option UInt8))
    (h : ∀ i, i < xs.length → cells[o + i]? = xs[i]?) (_hb : o + xs.length ≤ cells.length) :
    (cells.drop o).take xs.length = xs := by
  apply List.ext_getElem?
  intro i
  simp only [List.getElem?_take, List.getElem?_drop]
  by_cases hi : i < xs.length
  · simp only [hi, if_true]; exact h i hi
  · simp only [hi, if_false]
    rw [List.getElem?_eq_none (by omega)]

theorem allSome_map_some (bs : Bytes) : allSome (bs.map some) = some bs := by
  induction bs with
  | nil => rfl
  | cons b bs ih => simp [allSome, ih]

theorem scanNul_holds (s : Bytes) (rest : List (Option UInt8)) :
    scanNul ((s ++ [0]).map some ++ rest) = some (ByteStr.cPrefix s).length := by
  induction s with
  | nil => simp [scanNul, ByteStr.cPrefix]
  | cons b s ih =>
    by_cases hb : b = 0
    · subst hb; simp [scanNul, ByteStr.cPrefix]
    · have : (b != 0) = true := by simp [hb]
      simp only [List.cons_append, List.map_cons, scanNul, hb, if_false, ByteStr.cPrefix,
        List.takeWhile_cons, this, if_true, List.length_cons]
      simp only [List.map_append, List.map_cons, List.map_nil] at ih
      simp only [List.map_append, List.map_cons, List.map_nil, ByteStr.cPrefix] at ih ⊢
      rw [ih]; rfl

theorem cstrlen_terminated (s : Bytes) (rest : Bytes) :
    cstrlen (s ++ 0 :: rest) = some (ByteStr.cPrefix s).length := by
  induction s with
  | nil => simp [cstrlen, ByteStr.cPrefix]
  | cons b s ih =>
    by_cases hb : b = 0
    · subst hb; simp [cstrlen, ByteStr.cPrefix]
    · have : (b != 0) = true := by simp [hb]
      simp only [List.cons_append, cstrlen, hb, if_false, ByteStr.cPrefix, List.takeWhile_cons, this,
        if_true, List.length_cons]
      simp only [ByteStr.cPrefix] at ih
      rw [ih]; rfl

theorem cPrefix_take (s rest : Bytes) :
    (s ++ 0 :: rest).take (ByteStr.cPrefix s).length = ByteStr.cPrefix s := by
  induction s with
  | nil => simp [ByteStr.cPrefix]
  | cons b s ih =>
    by_cases hb : b = 0
    · subst hb; simp [ByteStr.cPrefix]
    · have : (b != 0) = true := by simp [hb]
      simp only [ByteStr.cPrefix, List.takeWhile_cons, this, if_true, List.length_cons, List.cons_append,
        List.take_succ_cons]
      simp only [ByteStr.cPrefix] at ih
      rw [ih]

theorem cPrefix_length_le (s : Bytes) : (ByteStr.cPrefix s).length ≤ s.length := by
  unfold ByteStr.cPrefix
  exact (List.takeWhile_sublist _).length_le

/-! ### event-log discipline -/
theorem nouaf_snoc (t : List Ev) (e : Ev) (h : ByteStr.NoUseAfterFree t)
    (he : ∀ id, (e = .read id ∨ e = .write id ∨ e = .free id) → Ev.free id ∉ t) :
    ByteStr.NoUseAfterFree (t ++ [e]) := by
  intro t1 t2 id heq
  rcases List.eq_nil_or_concat t2 with h2 | ⟨t2', e', h2⟩
  · subst h2; simp
  · rw [List.concat_eq_append] at h2
    subst h2
    have heq' : t ++ [e] = (t1 ++ Ev.free id :: t2') ++ [e'] := by simp [heq]
    have := List.append_inj' heq' rfl
    obtain ⟨ht, he'⟩ := this
    have he'' : e = e' := by simpa using he'
    subst he''
    obtain ⟨h1, h2, h3⟩ := h t1 t2' id ht
    have hmem : Ev.free id ∈ t := by rw [ht]; simp
    refine ⟨?_, ?_, ?_⟩
    · intro hc
      rcases List.mem_append.mp hc with hc | hc
      · exact h1 hc
      · simp at hc; exact he id (Or.inl hc.symm) hmem
    · intro hc
      rcases List.mem_append.mp hc with hc | hc
      · exact h2 hc
      · simp at hc; exact he id (Or.inr (Or.inl hc.symm)) hmem
    · intro hc
      rcases List.mem_append.mp hc with hc | hc
      · exact h3 hc
      · simp at hc; exact he id (Or.inr (Or.inr hc.symm)) hmem


theorem onlyalloc_snoc (t : List Ev) (e : Ev) (h : ByteStr.OnlyAllocated t)
    (he : ∀ id, (e = .free id ∨ e = .read id ∨ e = .write id) → ∃ sz, Ev.malloc id sz ∈ t) :
    ByteStr.OnlyAllocated (t ++ [e]) := by
  intro t1 t2 e' id heq hk
  rcases List.eq_nil_or_concat t2 with h2 | ⟨t2', e'', h2⟩
  · subst h2
    obtain ⟨ht, he'⟩ := List.append_inj' heq rfl
    have he'' : e = e' := by simpa using he'
    subst he''; subst ht
    exact he id hk
  · rw [List.concat_eq_append] at h2
    subst h2
    have heq' : t ++ [e] = (t1 ++ e' :: t2') ++ [e''] := by simp [heq]
    obtain ⟨ht, _⟩ := List.append_inj' heq' rfl
    exact h t1 t2' e' id ht hk

/-! ### memory invariant -/
def liveAt (heap : List Block) (id : Nat) : Option Bool := (heap[id]?).map (·.live)

def freesFor : Option Bool → Nat
  | some false => 1
  | _ => 0

structure MemInv (m : Mem) : Prop where
  cells : ∀ (id : Nat) (b : Block), m.heap[id]? = some b → b.cells.length = b.size
  frees : ∀ id, m.trace.count (Ev.free id) = freesFor (liveAt m.heap id)
  mallocs : ∀ id, (m.trace.filter (Ev.isMallocOf id)).length = if id < m.heap.length then 1 else 0
  nouaf : ByteStr.NoUseAfterFree m.trace
  alloc : ByteStr.OnlyAllocated m.trace

theorem MemInv.empty : MemInv {} := by
  refine ⟨?_, ?_, ?_, ?_, ?_⟩
  · intro id b h; simp at h
  · intro id; simp [liveAt, freesFor]
  · intro id; simp
  · intro t1 t2 id h; simp at h
  · intro t1 t2 e id h; simp at h

theorem liveAt_some {heap : List Block} {id : Nat} {b : Block} (h : heap[id]? = some b) :
    liveAt heap id = some b.live := by simp [liveAt, h]

theorem free_notin_of_live {m : Mem} (h : MemInv m) {id : Nat} {b : Block} (hb : m.heap[id]? = some b)
    (hl : b.live = true) : Ev.free id ∉ m.trace := by
  have := h.frees id
  rw [liveAt_some hb, hl] at this
  simp only [freesFor] at this
  exact List.count_eq_zero.mp this

theorem lt_of_getElem?_some' {α : Type} {l : List α} {i : Nat} {a : α} (h : l[i]? = some a) : i < l.length := by
  rcases Nat.lt_or_ge i l.length with hlt | hge
  · exact hlt
  · rw [List.getElem?_eq_none hge] at h; simp at h

theorem malloc_mem_of_lt {m : Mem} (h : MemInv m) {id : Nat} (hid : id < m.heap.length) :
    ∃ sz, Ev.malloc id sz ∈ m.trace := by
  have := h.mallocs id
  rw [if_pos hid] at this
  have hne : m.trace.filter (Ev.isMallocOf id) ≠ [] := by
    intro hc; rw [hc] at this; simp at this
  obtain ⟨e, he⟩ := List.exists_mem_of_ne_nil _ hne
  rw [List.mem_filter] at he
  obtain ⟨hmem, hp⟩ := he
  cases e with
  | malloc i sz =>
    simp [Ev.isMallocOf] at hp; subst hp; exact ⟨sz, hmem⟩
  | mallocFail _ => simp [Ev.isMallocOf] at hp
  | free _ => simp [Ev.isMallocOf] at hp
  | read _ => simp [Ev.isMallocOf] at hp
  | write _ => simp [Ev.isMallocOf] at hp

/-- appending a read/write of a live block; the heap may change but keeps lengths, liveness, sizes -/
theorem MemInv.access {m : Mem} (h : MemInv m) (e : Ev) (id : Nat) (b : Block) (heap' : List Block)
    (he : e = .read id ∨ e = .write id) (hb : m.heap[id]? = some b) (hl : b.live = true)
    (hlen : heap'.length = m.heap.length) (hlive : ∀ i, liveAt heap' i = liveAt m.heap i)
    (hcells : ∀ (i : Nat) (b' : Block), heap'[i]? = some b' → b'.cells.length = b'.size) :
    MemInv { heap := heap', trace := m.trace ++ [e] } := by
  refine ⟨hcells, ?_, ?_, ?_, ?_⟩
  rotate_left 3
  · dsimp only
    apply onlyalloc_snoc _ _ h.alloc
    intro j hj
    have hmal := malloc_mem_of_lt h (lt_of_getElem?_some' hb)
    rcases he with he | he <;> subst he <;> rcases hj with hj | hj | hj <;> simp at hj <;> subst hj <;> exact hmal
  · intro i
    dsimp only
    rw [hlive i, ← h.frees i, List.count_append]
    rcases he with he | he <;> subst he <;> simp
  · intro i
    dsimp only
    rw [hlen, ← h.mallocs i, List.filter_append]
    rcases he with he | he <;> subst he <;> simp [Ev.isMallocOf]
  · dsimp only
    apply nouaf_snoc _ _ h.nouaf
    intro j hj
    have hnot := free_notin_of_live h hb hl
    rcases he with he | he <;> subst he <;> rcases hj with hj | hj | hj <;> simp at hj <;> subst hj <;> exact hnot

theorem malloc_ok (m : Mem) (sz : Nat) (h : MemInv m) :
    ∃ m', m.malloc sz true = (m', some m.heap.length) ∧
      m'.heap = m.heap ++ [{ size := sz, cells := List.replicate sz none, live := true }] ∧ MemInv m' := by
  refine ⟨{ heap := m.heap ++ [{ size := sz, cells := List.replicate sz none, live := true }],
            trace := m.trace ++ [.malloc m.heap.length sz] }, by simp [Mem.malloc], rfl, ?_, ?_, ?_, ?_, ?_⟩
  rotate_left 4
  · dsimp only
    apply onlyalloc_snoc _ _ h.alloc
    intro j hj
    rcases hj with hj | hj | hj <;> simp at hj
  · intro id b hb
    dsimp only at hb
    rcases Nat.lt_or_ge id m.heap.length with hlt | hge
    · rw [List.getElem?_append_left hlt] at hb; exact h.cells id b hb
    · rw [List.getElem?_append_right hge] at hb
      rcases Nat.eq_zero_or_pos (id - m.heap.length) with h0 | hp
      · rw [h0] at hb; simp at hb; subst hb; simp
      · rw [List.getElem?_eq_none (by simp; omega)] at hb; simp at hb
  · intro id
    dsimp only
    rw [List.count_append]
    have : List.count (Ev.free id) [Ev.malloc m.heap.length sz] = 0 := by simp
    rw [this, Nat.add_zero, h.frees id]
    unfold liveAt
    rcases Nat.lt_or_ge id m.heap.length with hlt | hge
    · rw [List.getElem?_append_left hlt]
    · rw [List.getElem?_eq_none hge, List.getElem?_append_right hge]
      rcases Nat.eq_zero_or_pos (id - m.heap.length) with h0 | hp
      · rw [h0]; simp [freesFor]
      · rw [List.getElem?_eq_none (by simp; omega)]
  · intro id
    dsimp only
    rw [List.filter_append, List.length_append, h.mallocs id]
    by_cases hid : m.heap.length = id
    · subst hid; simp [Ev.isMallocOf]
    · simp [Ev.isMallocOf, hid]
      split <;> split <;> omega
  · dsimp only
    apply nouaf_snoc _ _ h.nouaf
    intro j hj
    rcases hj with hj | hj | hj <;> simp at hj

theorem malloc_fail (m : Mem) (sz : Nat) (h : MemInv m) :
    ∃ m', m.malloc sz false = (m', none) ∧ m'.heap = m.heap ∧ MemInv m' := by
  refine ⟨{ m with trace := m.trace ++ [.mallocFail sz] }, by simp [Mem.malloc], rfl, h.cells, ?_, ?_, ?_, ?_⟩
  rotate_left 3
  · dsimp only
    apply onlyalloc_snoc _ _ h.alloc
    intro j hj
    rcases hj with hj | hj | hj <;> simp at hj
  · intro id; dsimp only; rw [List.count_append, h.frees id]; simp
  · intro id; dsimp only; rw [List.filter_append, List.length_append, h.mallocs id]; simp [Ev.isMallocOf]
  · dsimp only
    apply nouaf_snoc _ _ h.nouaf
    intro j hj
    rcases hj with hj | hj | hj <;> simp at hj

theorem liveAt_set (heap : List Block) (id : Nat) (b' : Block) (i : Nat) (hid : id < heap.length) :
    liveAt (heap.set id b') i = if i = id then some b'.live else liveAt heap i := by
  unfold liveAt
  by_cases hi : i = id
  · subst hi; simp [hid]
  · rw [List.getElem?_set_ne (Ne.symm hi)]; simp [hi]

theorem free_ok (m : Mem) (id : Nat) (b : Block) (site : String) (h : MemInv m)
    (hb : m.heap[id]? = some b) (hl : b.live = true) :
    ∃ m', m.free id site = .ok m' ∧ m'.heap = m.heap.set id { b with live := false } ∧ MemInv m' := by
  have hid : id < m.heap.length := by
    rcases Nat.lt_or_ge id m.heap.length with hlt | hge
    · exact hlt
    · rw [List.getElem?_eq_none hge] at hb; simp at hb
  refine ⟨{ heap := m.heap.set id { b with live := false }, trace := m.trace ++ [.free id] },
    by simp [Mem.free, hb, hl], rfl, ?_, ?_, ?_, ?_, ?_⟩
  rotate_left 4
  · dsimp only
    apply onlyalloc_snoc _ _ h.alloc
    intro j hj
    have hmal := malloc_mem_of_lt h hid
    rcases hj with hj | hj | hj <;> simp at hj
    subst hj; exact hmal
  · intro i b' hb'
    dsimp only at hb'
    by_cases hi : i = id
    · subst hi; rw [List.getElem?_set_self hid] at hb'; simp at hb'; subst hb'; exact h.cells _ b hb
    · rw [List.getElem?_set_ne (Ne.symm hi)] at hb'; exact h.cells _ _ hb'
  · intro i
    dsimp only
    rw [List.count_append, h.frees i, liveAt_set _ _ _ _ hid]
    by_cases hi : i = id
    · subst hi; simp [liveAt_some hb, hl, freesFor]
    · have : Ev.free id ≠ Ev.free i := by intro hc; injection hc with hc; exact hi hc.symm
      simp [hi, this]
  · intro i
    dsimp only
    rw [List.filter_append, List.length_append, h.mallocs i, List.length_set]; simp [Ev.isMallocOf]
  · dsimp only
    apply nouaf_snoc _ _ h.nouaf
    intro j hj
    have hnot := free_notin_of_live h hb hl
    rcases hj with hj | hj | hj <;> simp at hj
    subst hj; exact hnot

theorem store_ok (m : Mem) (id o : Nat) (cs : List (Option UInt8)) (b : Block) (site : String) (h : MemInv m)
    (hb : m.heap[id]? = some b) (hl : b.live = true) (hbd : o + cs.length ≤ b.size) :
    ∃ m', m.store id o cs site = .ok m' ∧
      m'.heap = m.heap.set id { b with cells := writeAt b.cells o cs } ∧ MemInv m' := by
  have hid : id < m.heap.length := by
    rcases Nat.lt_or_ge id m.heap.length with hlt | hge
    · exact hlt
    · rw [List.getElem?_eq_none hge] at hb; simp at hb
  have hc := h.cells id b hb
  refine ⟨{ heap := m.heap.set id { b with cells := writeAt b.cells o cs }, trace := m.trace ++ [.write id] }, ?_, rfl, ?_⟩
  · unfold Mem.store
    simp only [hb, hl]
    rw [if_neg (by simp), if_neg (by omega)]
  · apply MemInv.access h (.write id) id b _ (Or.inr rfl) hb hl (by simp)
    · intro i
      rw [liveAt_set _ _ _ _ hid]
      by_cases hi : i = id
      · subst hi; simp [liveAt_some hb]
      · simp [hi]
    · intro i b' hb'
      by_cases hi : i = id
      · subst hi; rw [List.getElem?_set_self hid] at hb'; simp at hb'; subst hb'
        dsimp only; rw [writeAt_length _ _ _ (by omega)]; exact hc
      · rw [List.getElem?_set_ne (Ne.symm hi)] at hb'; exact h.cells _ _ hb'

theorem load_ok (m : Mem) (id o n : Nat) (b : Block) (site : String) (bs : Bytes) (h : MemInv m)
    (hb : m.heap[id]? = some b) (hl : b.live = true) (hbd : o + n ≤ b.size)
    (hs : (b.cells.drop o).take n = bs.map some) :
    ∃ m', m.load id o n site = .ok (m', bs) ∧ m'.heap = m.heap ∧ MemInv m' := by
  have hc := h.cells id b hb
  refine ⟨{ m with trace := m.trace ++ [.read id] }, ?_, rfl, ?_⟩
  · unfold Mem.load
    simp only [hb, hl]
    rw [if_neg (by simp), if_neg (by omega), hs, allSome_map_some]
  · exact MemInv.access h (.read id) id b _ (Or.inl rfl) hb hl rfl (fun _ => rfl) h.cells

theorem strlen_ok (m : Mem) (id o : Nat) (b : Block) (site : String) (s : Bytes) (rest : List (Option UInt8))
    (h : MemInv m) (hb : m.heap[id]? = some b) (hl : b.live = true) (hbd : o ≤ b.size)
    (hs : b.cells.drop o = (s ++ [0]).map some ++ rest) :
    ∃ m', m.strlen id o site = .ok (m', (ByteStr.cPrefix s).length) ∧ m'.heap = m.heap ∧ MemInv m' := by
  have hc := h.cells id b hb
  refine ⟨{ m with trace := m.trace ++ [.read id] }, ?_, rfl, ?_⟩
  · unfold Mem.strlen
    simp only [hb, hl]
    rw [if_neg (by simp), if_neg (by omega), hs, scanNul_holds]
  · exact MemInv.access h (.read id) id b _ (Or.inl rfl) hb hl rfl (fun _ => rfl) h.cells

/-! ### representation -/

/-- block `b` holds `s` followed by a NUL from offset `o` -/
def Holds (b : Block) (o : Nat) (s : Bytes) : Prop :=
  o + s.length + 1 ≤ b.size ∧ ∀ i, i < s.length + 1 → b.cells[o + i]? = ((s ++ [0])[i]?).map some

/-- node `n` represents the value `s` in `heap` -/
def Rep (heap : List Block) (n : Node) (s : Bytes) : Prop :=
  ∃ b, heap[n.blk]? = some b ∧ b.live = true ∧ off + ptrSize + 1 ≤ b.size ∧
    ((s.length : Int) ≤ SSIZE_MAX ∧ (s.length : Int) < INT_MAX - strSetGuardSlack) ∧
    ((n.len = (s.length : Int) ∧ Holds b off s) ∨
     (n.len = -(s.length : Int) ∧ 1 ≤ s.length ∧
        ∃ p bp, n.pdata = some p ∧ p ≠ n.blk ∧ heap[p]? = some bp ∧ bp.live = true ∧ Holds bp 0 s))

/-- the blocks a node is responsible for -/
def owns (n : Node) (id : Nat) : Prop := id = n.blk ∨ (n.len < 0 ∧ n.pdata = some id)

theorem lt_of_getElem?_some {α : Type} {l : List α} {i : Nat} {a : α} (h : l[i]? = some a) : i < l.length := by
  rcases Nat.lt_or_ge i l.length with hlt | hge
  · exact hlt
  · rw [List.getElem?_eq_none hge] at h; simp at h

theorem Holds.slice {b : Block} {o : Nat} {s : Bytes} (h : Holds b o s) (hc : b.cells.length = b.size)
    (k : Nat) (hk : k ≤ s.length + 1) :
    (b.cells.drop o).take k = ((s ++ [0]).take k).map some := by
  have hlen : (((s ++ [0]).take k).map some).length = k := by simp; omega
  have := slice_eq_of_pointwise b.cells o (((s ++ [0]).take k).map some) (by
    intro i hi
    rw [hlen] at hi
    rw [h.2 i (by omega), List.getElem?_map, List.getElem?_take, if_pos hi]) (by rw [hlen]; have := h.1; omega)
  rw [hlen] at this
  exact this

theorem Holds.slice_bytes {b : Block} {o : Nat} {s : Bytes} (h : Holds b o s) (hc : b.cells.length = b.size)
    (k : Nat) (hk : k ≤ s.length) :
    (b.cells.drop o).take k = (s.take k).map some := by
  rw [h.slice hc k (by omega), List.take_append_of_le_length hk]

theorem Holds.cell {b : Block} {o : Nat} {s : Bytes} (h : Holds b o s) (hc : b.cells.length = b.size)
    (k : Nat) (hk : k ≤ s.length) :
    ∃ t, (s ++ [0])[k]? = some t ∧ (b.cells.drop (o + k)).take 1 = [t].map some := by
  have hk' : k < (s ++ [0]).length := by simp; omega
  refine ⟨(s ++ [0])[k], List.getElem?_eq_getElem hk', ?_⟩
  have := slice_eq_of_pointwise b.cells (o + k) [some (s ++ [0])[k]] (by
    intro i hi
    simp at hi; subst hi
    rw [Nat.add_zero, h.2 k (by omega), List.getElem?_eq_getElem hk']; simp) (by simp; have := h.1; omega)
  simpa using this

theorem Holds.drop_eq {b : Block} {o : Nat} {s : Bytes} (h : Holds b o s) (hc : b.cells.length = b.size) :
    ∃ rest, b.cells.drop o = (s ++ [0]).map some ++ rest := by
  refine ⟨(b.cells.drop o).drop (s.length + 1), ?_⟩
  have := h.slice hc (s.length + 1) (Nat.le_refl _)
  have e : (s ++ [0]).take (s.length + 1) = s ++ [0] := List.take_of_length_le (by simp)
  rw [e] at this
  rw [← this, List.take_append_drop]

/-- memcpy of the bytes followed by the NUL store establish `Holds` -/
theorem holds_after_writes (cells : List (Option UInt8)) (size o : Nat) (live : Bool) (bs : Bytes)
    (hc : cells.length = size) (hbd : o + bs.length + 1 ≤ size) :
    Holds { size := size, cells := writeAt (writeAt cells o (bs.map some)) (o + bs.length) [some 0], live := live } o bs := by
  refine ⟨hbd, ?_⟩
  intro i hi
  dsimp only
  have h1 : (writeAt cells o (bs.map some)).length = cells.length := writeAt_length _ _ _ (by simp; omega)
  by_cases hlt : i < bs.length
  · rw [writeAt_get_lt _ _ _ _ (by simp; omega) (by omega)]
    rw [writeAt_get_mid _ _ _ _ (by simp; omega) (by omega) (by simp; omega)]
    rw [List.getElem?_append_left hlt]
    simp
  · have : i = bs.length := by omega
    subst this
    rw [writeAt_get_mid _ _ _ _ (by simp; omega) (by omega) (by simp)]
    simp

theorem Rep.frame {heap heap' : List Block} {n : Node} {s : Bytes} (h : Rep heap n s)
    (hf : ∀ id, owns n id → heap'[id]? = heap[id]?) : Rep heap' n s := by
  obtain ⟨b, hb, hl, hsz, hss, hcase⟩ := h
  refine ⟨b, by rw [hf _ (Or.inl rfl)]; exact hb, hl, hsz, hss, ?_⟩
  rcases hcase with hi | ⟨hlen, h1, p, bp, hp, hne, hbp, hlp, hh⟩
  · exact Or.inl hi
  · refine Or.inr ⟨hlen, h1, p, bp, hp, hne, ?_, hlp, hh⟩
    rw [hf p (Or.inr ⟨by omega, hp⟩)]; exact hbp

theorem Rep.owned_lt {heap : List Block} {n : Node} {s : Bytes} (h : Rep heap n s) {id : Nat}
    (ho : owns n id) : id < heap.length := by
  obtain ⟨b, hb, _, _, _, hcase⟩ := h
  rcases ho with ho | ⟨hneg, hp⟩
  · subst ho; exact lt_of_getElem?_some hb
  · rcases hcase with ⟨hlen, _⟩ | ⟨_, _, p, bp, hp', _, hbp, _, _⟩
    · omega
    · rw [hp] at hp'; injection hp' with hp'; subst hp'; exact lt_of_getElem?_some hbp

theorem Rep.owned_live {heap : List Block} {n : Node} {s : Bytes} (h : Rep heap n s) {id : Nat} {b' : Block}
    (ho : owns n id) (hb' : heap[id]? = some b') : b'.live = true := by
  obtain ⟨b, hb, hl, _, _, hcase⟩ := h
  rcases ho with ho | ⟨hneg, hp⟩
  · subst ho; rw [hb] at hb'; injection hb' with hb'; subst hb'; exact hl
  · rcases hcase with ⟨hlen, _⟩ | ⟨_, _, p, bp, hp', _, hbp, hlp, _⟩
    · omega
    · rw [hp] at hp'; injection hp' with hp'; subst hp'
      rw [hbp] at hb'; injection hb' with hb'; subst hb'; exact hlp

/-- effect of an operation on the heap: blocks outside `pre` are untouched, blocks inside `pre` or new
are live exactly when `post` names them -/
structure Frame (heap : List Block) (pre : Nat → Prop) (heap' : List Block) (post : Nat → Prop) : Prop where
  len_le : heap.length ≤ heap'.length
  untouched : ∀ id, id < heap.length → ¬ pre id → heap'[id]? = heap[id]?
  live_iff : ∀ (id : Nat) (b' : Block), heap'[id]? = some b' → (heap.length ≤ id ∨ pre id) → (b'.live = true ↔ post id)
  post_in : ∀ id, post id → heap.length ≤ id ∨ pre id

theorem Frame.same {heap : List Block} {n : Node} {s : Bytes} (h : Rep heap n s) :
    Frame heap (owns n) heap (owns n) := by
  refine ⟨Nat.le_refl _, fun _ _ _ => rfl, ?_, fun id h => Or.inr h⟩
  intro id b' hb' hor
  rcases hor with hge | ho
  · have := lt_of_getElem?_some hb'; omega
  · exact ⟨fun _ => ho, fun _ => h.owned_live ho hb'⟩

theorem Frame.trans {h0 h1 h2 : List Block} {P Q R : Nat → Prop} (f1 : Frame h0 P h1 Q) (f2 : Frame h1 Q h2 R) :
    Frame h0 P h2 R := by
  refine ⟨Nat.le_trans f1.len_le f2.len_le, ?_, ?_, ?_⟩
  · intro id hid hnp
    have hq : ¬ Q id := by
      intro hq; rcases f1.post_in id hq with h | h
      · omega
      · exact hnp h
    rw [f2.untouched id (by have := f1.len_le; omega) hq, f1.untouched id hid hnp]
  · intro id b' hb' hor
    by_cases hq : h1.length ≤ id ∨ Q id
    · exact f2.live_iff id b' hb' hq
    · have hlt : id < h1.length := by omega
      have hnq : ¬ Q id := fun h => hq (Or.inr h)
      have hb1 : h1[id]? = some b' := by rw [← f2.untouched id hlt hnq]; exact hb'
      have := f1.live_iff id b' hb1 hor
      rw [this]
      constructor
      · intro h; exact absurd h hnq
      · intro hr; rcases f2.post_in id hr with h | h
        · omega
        · exact absurd h hnq
  · intro id hr
    rcases f2.post_in id hr with h | h
    · by_cases hlt : id < h0.length
      · right
        -- id is an old block that the second step did not create: impossible since h1.length ≤ id
        have := f1.len_le; omega
      · left; omega
    · exact f1.post_in id h

/-- liveness of every block of the world, carried through a framed operation; `R` names blocks of
other nodes, disjoint from the operated one -/
theorem Frame.world {heap heap' : List Block} {P Q R : Nat → Prop} (f : Frame heap P heap' Q)
    (hw : ∀ (id : Nat) (b : Block), heap[id]? = some b → (b.live = true ↔ (R id ∨ P id)))
    (hR : ∀ id, R id → id < heap.length ∧ ¬ P id) :
    ∀ (id : Nat) (b' : Block), heap'[id]? = some b' → (b'.live = true ↔ (R id ∨ Q id)) := by
  intro id b' hb'
  by_cases hor : heap.length ≤ id ∨ P id
  · rw [f.live_iff id b' hb' hor]
    constructor
    · exact Or.inr
    · intro h; rcases h with h | h
      · have := hR id h; rcases hor with hor | hor
        · omega
        · exact absurd hor this.2
      · exact h
  · have hlt : id < heap.length := by omega
    have hnp : ¬ P id := fun h => hor (Or.inr h)
    have hb : heap[id]? = some b' := by rw [← f.untouched id hlt hnp]; exact hb'
    rw [hw id b' hb]
    constructor
    · intro h; rcases h with h | h
      · exact Or.inl h
      · exact absurd h hnp
    · intro h; rcases h with h | h
      · exact Or.inl h
      · rcases f.post_in id h with h' | h'
        · omega
        · exact absurd h' hnp

/-! ### accessors -/
theorem ckSsize_ok (x : Int) (site : String) (h1 : -SSIZE_MAX - 1 ≤ x) (h2 : x ≤ SSIZE_MAX) :
    ckSsize x site = .ok x := by
  unfold ckSsize; rw [if_pos ⟨h1, h2⟩]

theorem ckSize_ok (x : Int) (site : String) (h1 : 0 ≤ x) (h2 : x ≤ SIZE_MAX) :
    ckSize x site = .ok x.toNat := by
  unfold ckSize; rw [if_pos ⟨h1, h2⟩]

theorem liveNode_ok (m : Mem) (n : Node) (site : String) (b : Block) (hb : m.heap[n.blk]? = some b)
    (hl : b.live = true) : liveNode m n site = .ok () := by
  unfold liveNode; simp [hb, hl]

theorem Rep.liveNode {m : Mem} {n : Node} {s : Bytes} (h : Rep m.heap n s) (site : String) :
    liveNode m n site = .ok () := by
  obtain ⟨b, hb, hl, _⟩ := h
  exact liveNode_ok m n site b hb hl

theorem ssize_pos : 0 ≤ SSIZE_MAX := by unfold SSIZE_MAX; omega

theorem absLen_spec {m : Mem} {n : Node} {s : Bytes} (h : Rep m.heap n s) (site : String) :
    absLen m n site = .ok (s.length : Int) := by
  unfold absLen
  rw [h.liveNode]
  simp only [Outcome.bind_ok]
  obtain ⟨b, hb, hl, hsz, hss, hcase⟩ := h
  rcases hcase with ⟨hlen, _⟩ | ⟨hlen, h1, _⟩
  · rw [if_neg (by omega), hlen]; rfl
  · rw [if_pos (by omega), hlen, ckSsize_ok _ _ (by omega) (by omega)]; simp

theorem stringComponent_spec {m : Mem} {n : Node} {s : Bytes} (h : Rep m.heap n s) (site : String) :
    ∃ id o b, stringComponent m n site = .ok (id, o) ∧ m.heap[id]? = some b ∧ b.live = true ∧
      Holds b o s ∧ owns n id := by
  unfold stringComponent
  rw [h.liveNode]
  simp only [Outcome.bind_ok]
  obtain ⟨b, hb, hl, hsz, hss, hcase⟩ := h
  rcases hcase with ⟨hlen, hh⟩ | ⟨hlen, h1, p, bp, hp, hne, hbp, hlp, hh⟩
  · rw [if_neg (by omega)]
    exact ⟨n.blk, off, b, rfl, hb, hl, hh, Or.inl rfl⟩
  · rw [if_pos (by omega)]
    simp only [readPdata, hp, Outcome.bind_ok]
    exact ⟨p, 0, bp, rfl, hbp, hlp, hh, Or.inr ⟨by omega, hp⟩⟩

/-- what a caller reads from a node holding `s` (for every length; the reported length is the `int`
conversion of the real one) -/
def viewOf (s : Bytes) : View :=
  let r := toInt s.length
  if r.1 < 0 then { len := r.1, bytes := [], term := none, strlen := (ByteStr.cPrefix s).length, wrapped := r.2 }
  else { len := r.1, bytes := s.take r.1.toNat, term := (s ++ [0])[r.1.toNat]?,
         strlen := (ByteStr.cPrefix s).length, wrapped := r.2 }

theorem toInt_small (x : Int) (h0 : 0 ≤ x) (h : x ≤ INT_MAX) : toInt x = (x, false) := by
  unfold toInt
  rw [if_pos ⟨by unfold INT_MIN; unfold INT_MAX at h; omega, h⟩]

theorem toInt_le (x : Int) (h0 : 0 ≤ x) : (toInt x).1 ≤ x := by
  unfold toInt
  split
  · exact Int.le_refl _
  · rename_i hn
    simp only [INT_MAX, INT_MIN, intMax] at hn ⊢
    omega

theorem viewOf_small (s : Bytes) (h : (s.length : Int) ≤ INT_MAX) :
    viewOf s = { len := s.length, bytes := s, term := some 0, strlen := (ByteStr.cPrefix s).length, wrapped := false } := by
  unfold viewOf
  rw [toInt_small _ (by omega) h]
  simp

theorem observe_spec {m : Mem} {n : Node} {s : Bytes} (hm : MemInv m) (h : Rep m.heap n s) :
    ∃ m', observe m n = .ok (m', viewOf s) ∧ m'.heap = m.heap ∧ MemInv m' := by
  unfold observe getStringLen
  rw [absLen_spec h]
  simp only [Outcome.bind_ok, Outcome.pure_eq]
  obtain ⟨id, o, b, hsc, hb, hl, hh, _⟩ := stringComponent_spec h "json_object_get_string"
  rw [hsc]
  simp only [Outcome.bind_ok]
  have hc := hm.cells id b hb
  obtain ⟨rest, hrest⟩ := hh.drop_eq hc
  obtain ⟨m1, h1, hm1h, hm1⟩ := strlen_ok m id o b "caller: strlen(ptr)" s rest hm hb hl (by have := hh.1; omega) hrest
  rw [h1]
  simp only [Outcome.bind_ok]
  have hle := toInt_le (s.length : Int) (by omega)
  unfold viewOf
  by_cases hneg : (toInt (s.length : Int)).1 < 0
  · simp only [hneg, if_true]
    exact ⟨m1, rfl, hm1h, hm1⟩
  · simp only [hneg, if_false]
    have hk : (toInt (s.length : Int)).1.toNat ≤ s.length := by omega
    have hb1 : m1.heap[id]? = some b := by rw [hm1h]; exact hb
    obtain ⟨m2, h2, hm2h, hm2⟩ := load_ok m1 id o _ b "caller: ptr[0..len)" (s.take (toInt (s.length : Int)).1.toNat) hm1 hb1 hl
      (by have := hh.1; omega) (hh.slice_bytes hc _ hk)
    rw [h2]
    simp only [Outcome.bind_ok]
    obtain ⟨t, ht, hcell⟩ := hh.cell hc _ hk
    have hb2 : m2.heap[id]? = some b := by rw [hm2h]; exact hb1
    obtain ⟨m3, h3, hm3h, hm3⟩ := load_ok m2 id (o + (toInt (s.length : Int)).1.toNat) 1 b "caller: ptr[len]" [t] hm2 hb2 hl
      (by have := hh.1; omega) hcell
    rw [h3]
    simp only [Outcome.bind_ok]
    refine ⟨m3, ?_, by rw [hm3h, hm2h, hm1h], hm3⟩
    rw [ht]; rfl

/-- one step of the `Outcome` monad, by rewriting (a `simp`/`rfl` step would make the kernel unfold the
continuation's range checks on symbolic sizes) -/
macro "ostep" : tactic => `(tactic| (rw [Outcome.bind_ok]; try dsimp only))

/-! ### writing a value -/
theorem write_value (m : Mem) (hm : MemInv m) (id o : Nat) (b : Block) (bs : Bytes) (k : Nat) (s1 s2 : String)
    (hb : m.heap[id]? = some b) (hl : b.live = true) (hk : k = o + bs.length) (hbd : o + bs.length + 1 ≤ b.size) :
    ∃ m1 m2 b', m.store id o (bs.map some) s1 = .ok m1 ∧ m1.store id k [some 0] s2 = .ok m2 ∧
      m2.heap = m.heap.set id b' ∧ b'.live = true ∧ b'.size = b.size ∧ Holds b' o bs ∧ MemInv m2 := by
  subst hk
  have hid := lt_of_getElem?_some hb
  have hc := hm.cells id b hb
  obtain ⟨m1, h1, hm1h, hm1⟩ := store_ok m id o (bs.map some) b s1 hm hb hl (by simp; omega)
  have hb1 : m1.heap[id]? = some { b with cells := writeAt b.cells o (bs.map some) } := by
    rw [hm1h, List.getElem?_set_self hid]
  obtain ⟨m2, h2, hm2h, hm2⟩ := store_ok m1 id (o + bs.length) [some 0] _ s2 hm1 hb1 hl (by simp; omega)
  refine ⟨m1, m2, { size := b.size, cells := writeAt (writeAt b.cells o (bs.map some)) (o + bs.length) [some 0],
                    live := b.live }, h1, h2, ?_, ?_, ?_, ?_, hm2⟩
  · rw [hm2h, hm1h, List.set_set]
  · exact hl
  · rfl
  · have := holds_after_writes b.cells b.size o b.live bs hc hbd
    exact this

/-! ### sources of memcpy -/
def SrcOK (heap : List Block) (src : Src) (n : Nat) (bs : Bytes) : Prop :=
  match src with
  | .caller obj => n ≤ obj.length ∧ bs = obj.take n
  | .block id o => ∃ b, heap[id]? = some b ∧ b.live = true ∧ o + n ≤ b.size ∧
      (b.cells.drop o).take n = bs.map some ∧ bs.length = n

theorem SrcOK.length {heap : List Block} {src : Src} {n : Nat} {bs : Bytes} (h : SrcOK heap src n bs) :
    bs.length = n := by
  cases src with
  | caller obj => obtain ⟨h1, h2⟩ := h; subst h2; simp; omega
  | block id o => obtain ⟨b, _, _, _, _, h5⟩ := h; exact h5

theorem SrcOK.mono {heap heap' : List Block} {src : Src} {n : Nat} {bs : Bytes} (h : SrcOK heap src n bs)
    (hf : ∀ (id : Nat) (b : Block), heap[id]? = some b → heap'[id]? = some b) : SrcOK heap' src n bs := by
  cases src with
  | caller obj => exact h
  | block id o =>
    obtain ⟨b, h1, h2, h3, h4, h5⟩ := h
    exact ⟨b, hf id b h1, h2, h3, h4, h5⟩

theorem fetch_ok (m : Mem) (src : Src) (n : Nat) (bs : Bytes) (site : String) (hm : MemInv m)
    (h : SrcOK m.heap src n bs) : ∃ m', fetch m src n site = .ok (m', bs) ∧ m'.heap = m.heap ∧ MemInv m' := by
  cases src with
  | caller obj =>
    obtain ⟨h1, h2⟩ := h
    refine ⟨m, ?_, rfl, hm⟩
    unfold fetch; simp only; rw [if_neg (by omega), h2]
  | block id o =>
    obtain ⟨b, h1, h2, h3, h4, h5⟩ := h
    exact load_ok m id o n b site bs hm h1 h2 h3 h4

/-! ### constructor -/
theorem hdr_ck (site : String) :
    ckSize ((sizeofJsonObjectString : Int) - sizeofStringUnion) site = .ok hdr := by
  unfold ckSize; rw [if_pos (by decide)]; rfl

theorem hdr_facts : hdr + sizeofPtr + strNewNulRoom + strNewGuardSlack ≤ intMax ∧ off ≤ hdr ∧
    intMax ≤ ssizeMax ∧ ssizeMax ≤ sizeMax ∧ 1 ≤ strNewNulRoom ∧ strNewNulRoom ≤ strNewGuardSlack ∧ 1 ≤ sizeofPtr := by
  decide

theorem lim1_ck (site : String) : ckSize (SSIZE_MAX - (hdr : Nat)) site = .ok (ssizeMax - hdr) := by
  obtain ⟨f1, f2, f3, f4, f5, f6, f7⟩ := hdr_facts
  have hS : SSIZE_MAX = (ssizeMax : Int) := rfl
  have hZ : SIZE_MAX = (sizeMax : Int) := rfl
  rw [ckSize_ok _ _ (by omega) (by omega)]
  congr 1

theorem lim_ck (site : String) :
    ckSize (((ssizeMax - hdr : Nat) : Int) - strNewGuardSlack) site = .ok (ssizeMax - hdr - strNewGuardSlack) := by
  obtain ⟨f1, f2, f3, f4, f5, f6, f7⟩ := hdr_facts
  have hZ : SIZE_MAX = (sizeMax : Int) := rfl
  rw [ckSize_ok _ _ (by omega) (by omega)]
  congr 1

/-- the request is beyond what `_json_object_new_string` accepts -/
def bigLen (len : Nat) : Prop :=
  len > ssizeMax - hdr - strNewGuardSlack ∨ (len : Int) ≥ INT_MAX - strNewIntGuardSlack

/-- both constructors of a value (new, set) refuse the same lengths -/
theorem new_int_guard : strNewIntGuardSlack = strSetGuardSlack := by decide

theorem newString_spec (m : Mem) (src : Src) (len : Nat) (ok : Bool) (bs : Bytes) (hm : MemInv m)
    (hsrc : ¬ bigLen len → ok = true → SrcOK m.heap src len bs) :
    (bigLen len → newString m src len ok = .ok (m, none)) ∧
    (¬ bigLen len → ok = false → ∃ m', newString m src len ok = .ok (m', none) ∧ m'.heap = m.heap ∧ MemInv m') ∧
    (¬ bigLen len → ok = true → ∃ m' n b, newString m src len ok = .ok (m', some n) ∧ MemInv m' ∧
        n.blk = m.heap.length ∧ n.len = (len : Int) ∧ n.pdata = none ∧ m'.heap = m.heap ++ [b] ∧ Rep m'.heap n bs) := by
  obtain ⟨f1, f2, f3, f4, f5, f6, f7⟩ := hdr_facts
  have hS : SSIZE_MAX = (ssizeMax : Int) := rfl
  have hZ : SIZE_MAX = (sizeMax : Int) := rfl
  unfold newString
  rw [hdr_ck]; ostep
  rw [lim1_ck]; ostep
  rw [lim_ck]; ostep
  refine ⟨?_, ?_, ?_⟩
  · intro hbig
    unfold bigLen at hbig
    by_cases h1 : len > ssizeMax - hdr - strNewGuardSlack
    · rw [if_pos h1]
    · rw [if_neg h1, if_pos (by rcases hbig with h | h; exact absurd h h1; exact h)]
  · intro hbig hok
    unfold bigLen at hbig
    have hb1 : ¬ len > ssizeMax - hdr - strNewGuardSlack := fun h => hbig (Or.inl h)
    have hb2 : ¬ (len : Int) ≥ INT_MAX - strNewIntGuardSlack := fun h => hbig (Or.inr h)
    rw [if_neg hb1, if_neg hb2]
    rw [ckSize_ok _ _ (by omega) (by omega)]; ostep
    rw [ckSize_ok _ _ (by omega) (by omega)]; ostep
    subst hok
    by_cases hsm : len < ptrSize
    · rw [if_pos hsm]
      have hp : ptrSize = sizeofPtr := rfl
      rw [ckSize_ok _ _ (by omega) (by omega)]; ostep
      obtain ⟨m', h1, h2, h3⟩ := malloc_fail m ((((hdr : Int) + len).toNat + (strNewNulRoom : Int)).toNat + ((ptrSize : Int) - len)).toNat hm
      rw [h1]
      exact ⟨m', rfl, h2, h3⟩
    · rw [if_neg hsm]
      rw [Outcome.pure_eq]; ostep
      obtain ⟨m', h1, h2, h3⟩ := malloc_fail m (((hdr : Int) + len).toNat + (strNewNulRoom : Int)).toNat hm
      rw [h1]
      exact ⟨m', rfl, h2, h3⟩
  · intro hbig hok
    have hs := hsrc hbig hok
    have hbl := hs.length
    unfold bigLen at hbig
    have hb1 : ¬ len > ssizeMax - hdr - strNewGuardSlack := fun h => hbig (Or.inl h)
    have hb2 : ¬ (len : Int) ≥ INT_MAX - strNewIntGuardSlack := fun h => hbig (Or.inr h)
    have hng := new_int_guard
    have hI : INT_MAX = (intMax : Int) := rfl
    rw [if_neg hb1, if_neg hb2]
    rw [ckSize_ok _ _ (by omega) (by omega)]; ostep
    rw [ckSize_ok _ _ (by omega) (by omega)]; ostep
    subst hok
    have hp : ptrSize = sizeofPtr := rfl
    -- whatever the object size, it leaves room for the bytes, the NUL and a pointer
    have key : ∀ objsize : Nat, off + len + 1 ≤ objsize → off + ptrSize + 1 ≤ objsize →
        ∃ m' n b, (match m.malloc objsize true with
          | (m, none) => (Outcome.ok (m, none) : Outcome (Mem × Option Node))
          | (m, some id) => do
            let l ← ckSsize len "new: jso->len = len"
            let (m, bs) ← fetch m src len "new: memcpy(jso->c_string.idata, s, len)"
            let m ← m.store id off (bs.map some) "new: memcpy(jso->c_string.idata, s, len)"
            let m ← m.store id (off + len) [some 0] "new: idata[len] = 0"
            .ok (m, some { blk := id, len := l, pdata := none })) = .ok (m', some n) ∧ MemInv m' ∧
          n.blk = m.heap.length ∧ n.len = (len : Int) ∧ n.pdata = none ∧ m'.heap = m.heap ++ [b] ∧ Rep m'.heap n bs := by
      intro objsize hsz1 hsz2
      obtain ⟨m1, h1, hm1h, hm1⟩ := malloc_ok m objsize hm
      rw [h1]
      simp only
      rw [ckSsize_ok _ _ (by omega) (by omega)]; ostep
      have hs1 : SrcOK m1.heap src len bs := hs.mono (by
        intro id b hb; rw [hm1h, List.getElem?_append_left (lt_of_getElem?_some hb)]; exact hb)
      obtain ⟨m2, h2, hm2h, hm2⟩ := fetch_ok m1 src len bs "new: memcpy(jso->c_string.idata, s, len)" hm1 hs1
      rw [h2]; ostep
      have hb2 : m2.heap[m.heap.length]? = some { size := objsize, cells := List.replicate objsize none, live := true } := by
        rw [hm2h, hm1h, List.getElem?_append_right (Nat.le_refl _)]; simp
      obtain ⟨m3, m4, b', h3, h4, hm4h, hl', hsz', hh, hm4⟩ := write_value m2 hm2 m.heap.length off _ bs (off + len)
        "new: memcpy(jso->c_string.idata, s, len)" "new: idata[len] = 0" hb2 rfl (by omega) (by dsimp only; omega)
      rw [h3]; ostep
      rw [h4]; ostep
      have hheap : m4.heap = m.heap ++ [b'] := by
        rw [hm4h, hm2h, hm1h]
        rw [List.set_append_right _ _ (Nat.le_refl _)]; simp
      refine ⟨m4, _, b', rfl, hm4, rfl, rfl, rfl, hheap, ?_⟩
      refine ⟨b', ?_, hl', ?_, ?_, Or.inl ⟨?_, hh⟩⟩
      · rw [hheap, List.getElem?_append_right (Nat.le_refl _)]; simp
      · rw [hsz']; exact hsz2
      · rw [hbl]; omega
      · dsimp only; rw [hbl]
    by_cases hsm : len < ptrSize
    · rw [if_pos hsm]
      rw [ckSize_ok _ _ (by omega) (by omega)]; ostep
      exact key _ (by omega) (by omega)
    · rw [if_neg hsm]
      rw [Outcome.pure_eq]; ostep
      exact key _ (by omega) (by omega)

/-! ### _json_object_set_string_len -/
theorem set_facts : 1 ≤ strGrowNulRoom ∧ strGrowNulRoom + intMax ≤ sizeMax ∧ intMax ≤ ssizeMax ∧ ssizeMax ≤ sizeMax := by
  decide

theorem getElem?_set_self' {α : Type} (l : List α) (i : Nat) (a : α) (h : i < l.length) : (l.set i a)[i]? = some a :=
  List.getElem?_set_self h

/-- the growing path after the new buffer exists and the old one (if any) is gone -/
theorem grow_finish (m1 : Mem) (hm1 : MemInv m1) (n : Node) (id len : Nat) (b nb : Block) (bs : Bytes)
    (hb : m1.heap[n.blk]? = some b) (hl : b.live = true) (hsz : off + ptrSize + 1 ≤ b.size)
    (hnb : m1.heap[id]? = some nb) (hnl : nb.live = true) (hnsz : len + 1 ≤ nb.size) (hne : id ≠ n.blk)
    (hbs : bs.length = len) :
    ∃ m2 m3 m4 b2 nb', m1.store n.blk off (List.replicate ptrSize none) "set: c_string.pdata = dstbuf" = .ok m2 ∧
      m2.store id 0 (bs.map some) "set: memcpy(dstbuf, s, len)" = .ok m3 ∧
      m3.store id len [some 0] "set: dstbuf[len] = 0" = .ok m4 ∧
      m4.heap = (m1.heap.set n.blk b2).set id nb' ∧ MemInv m4 ∧
      b2.live = true ∧ b2.size = b.size ∧ nb'.live = true ∧ Holds nb' 0 bs := by
  have hidn := lt_of_getElem?_some hb
  obtain ⟨m2, h2, hm2h, hm2⟩ := store_ok m1 n.blk off (List.replicate ptrSize none) b _ hm1 hb hl (by simp; omega)
  have hnb2 : m2.heap[id]? = some nb := by rw [hm2h, List.getElem?_set_ne (Ne.symm hne)]; exact hnb
  obtain ⟨m3, m4, nb', h3, h4, hm4h, hl', hsz', hh, hm4⟩ := write_value m2 hm2 id 0 nb bs len _ _ hnb2 hnl (by omega) (by omega)
  refine ⟨m2, m3, m4, { b with cells := writeAt b.cells off (List.replicate ptrSize none) }, nb', h2, h3, h4, ?_, hm4, hl, rfl, hl', hh⟩
  rw [hm4h, hm2h]


theorem fetch_caller (m : Mem) (obj : Bytes) (len : Nat) (site : String) (h : len ≤ obj.length) :
    fetch m (.caller obj) len site = .ok (m, obj.take len) := by
  unfold fetch; simp only; rw [if_neg (by omega)]

theorem owns_blk (n : Node) : owns n n.blk := Or.inl rfl

theorem setString_spec (m : Mem) (n : Node) (s obj : Bytes) (len : Nat) (ok : Bool) (hm : MemInv m)
    (hr : Rep m.heap n s) (hsrc : (len : Int) < INT_MAX - strSetGuardSlack → len ≤ obj.length) :
    ∃ m' n' ret, setString m n (.caller obj) len ok = .ok (m', n', ret) ∧ MemInv m' ∧
      Frame m.heap (owns n) m'.heap (owns n') ∧
      ((ret = 1 ∧ Rep m'.heap n' (obj.take len) ∧ (len : Int) < INT_MAX - strSetGuardSlack ∧
          (ok = true ∨ len ≤ s.length)) ∨
       (ret = 0 ∧ n' = n ∧ m'.heap = m.heap ∧
          ((len : Int) ≥ INT_MAX - strSetGuardSlack ∨ (ok = false ∧ s.length < len)))) := by
  obtain ⟨g1, g2, g3, g4⟩ := set_facts
  have hS : SSIZE_MAX = (ssizeMax : Int) := rfl
  have hZ : SIZE_MAX = (sizeMax : Int) := rfl
  have hI : INT_MAX = (intMax : Int) := rfl
  unfold setString
  rw [hr.liveNode]; ostep
  by_cases hg : (len : Int) ≥ INT_MAX - strSetGuardSlack
  · rw [if_pos hg]
    exact ⟨m, n, 0, rfl, hm, Frame.same hr, Or.inr ⟨rfl, rfl, rfl, Or.inl hg⟩⟩
  · rw [if_neg hg]
    have hlo := hsrc (by omega)
    have hbl : (obj.take len).length = len := by simp; omega
    have hsrcok : ∀ heap, SrcOK heap (.caller obj) len (obj.take len) := fun _ => ⟨hlo, rfl⟩
    have hrr := hr
    obtain ⟨b, hb, hl, hsz, hss, hcase⟩ := hr
    have hnblk := lt_of_getElem?_some hb
    rcases hcase with ⟨hlen, hh⟩ | ⟨hlen, h1, p, bp, hp, hne, hbp, hlp, hh⟩
    · -- inline
      have hnn : ¬ n.len < 0 := by omega
      rw [if_neg hnn, Outcome.pure_eq]; ostep
      rw [ckSsize_ok _ _ (by omega) (by omega)]; ostep
      obtain ⟨id, o, b', hsc, hb', hl', hh', _⟩ := stringComponent_spec hrr "set: get_string_component_mutable"
      have hsc' : stringComponent m n "set: get_string_component_mutable" = .ok (n.blk, off) := by
        unfold stringComponent; rw [hrr.liveNode]; ostep; rw [if_neg (by omega)]; rfl
      rw [hsc']; ostep
      rw [ckSsize_ok _ _ (by omega) (by omega)]; ostep
      by_cases hgrow : (len : Int) > n.len
      · rw [if_pos hgrow]
        rw [ckSize_ok _ _ (by omega) (by omega)]; ostep
        have hszv : len + 1 ≤ ((len : Int) + (strGrowNulRoom : Int)).toNat := by omega
        generalize ((len : Int) + (strGrowNulRoom : Int)).toNat = sz at hszv ⊢
        cases ok
        · obtain ⟨m1, h1, hm1h, hm1⟩ := malloc_fail m sz hm
          rw [h1]; dsimp only
          exact ⟨m1, n, 0, rfl, hm1, by rw [hm1h]; exact Frame.same hrr, Or.inr ⟨rfl, rfl, hm1h, Or.inr ⟨rfl, by omega⟩⟩⟩
        · obtain ⟨m1, h1, hm1h, hm1⟩ := malloc_ok m sz hm
          rw [h1]; dsimp only
          rw [if_neg hnn, Outcome.pure_eq]; ostep
          have hb1 : m1.heap[n.blk]? = some b := by rw [hm1h, List.getElem?_append_left hnblk]; exact hb
          have hnb1 : m1.heap[m.heap.length]? = some { size := sz, cells := List.replicate sz none, live := true } := by
            rw [hm1h, List.getElem?_append_right (Nat.le_refl _)]; simp
          obtain ⟨m2, m3, m4, b2, nb', h2, h3, h4, hm4h, hm4, hl2, hsz2, hlnb, hhnb⟩ :=
            grow_finish m1 hm1 n m.heap.length len b _ (obj.take len) hb1 hl hsz hnb1 rfl (by dsimp only; omega) (by omega) hbl
          rw [h2]; ostep
          rw [ckSsize_ok _ _ (by omega) (by omega)]; ostep
          rw [fetch_caller _ _ _ _ hlo]; ostep
          rw [h3]; ostep
          rw [h4]; ostep
          have hlen4 : m4.heap.length = m.heap.length + 1 := by rw [hm4h, hm1h]; simp
          have hg4n : m4.heap[n.blk]? = some b2 := by
            rw [hm4h, hm1h, List.getElem?_set_ne (by omega), List.getElem?_set_self (by simp; omega)]
          have hg4i : m4.heap[m.heap.length]? = some nb' := by
            rw [hm4h, hm1h, List.getElem?_set_self (by simp)]
          refine ⟨m4, _, 1, rfl, hm4, ?_, Or.inl ⟨rfl, ?_, by omega, Or.inl rfl⟩⟩
          · refine ⟨by omega, ?_, ?_, ?_⟩
            · intro i hi hno
              have : i ≠ n.blk := fun hc => hno (Or.inl hc)
              rw [hm4h, hm1h, List.getElem?_set_ne (by omega), List.getElem?_set_ne (Ne.symm this), List.getElem?_append_left hi]
            · intro i b'' hb'' hor
              by_cases hi1 : i = n.blk
              · subst hi1; rw [hg4n] at hb''; injection hb'' with hb''; subst hb''
                exact ⟨fun _ => Or.inl rfl, fun _ => hl2⟩
              · by_cases hi2 : i = m.heap.length
                · subst hi2; rw [hg4i] at hb''; injection hb'' with hb''; subst hb''
                  exact ⟨fun _ => Or.inr ⟨by dsimp only; omega, rfl⟩, fun _ => hlnb⟩
                · exfalso
                  have := lt_of_getElem?_some hb''
                  rcases hor with hge | ho
                  · omega
                  · rcases ho with ho | ⟨hneg, _⟩
                    · exact hi1 ho
                    · omega
            · intro i ho
              rcases ho with ho | ⟨_, hpd⟩
              · exact Or.inr (Or.inl ho)
              · dsimp only at hpd; injection hpd with hpd; left; omega
          · refine ⟨b2, hg4n, hl2, by omega, by rw [hbl]; omega, Or.inr ⟨by simp [hbl], by rw [hbl]; omega, m.heap.length, nb', rfl, by dsimp only; omega, hg4i, hlnb, hhnb⟩⟩
      · rw [if_neg hgrow]
        rw [if_neg (by omega)]; rw [Outcome.pure_eq]; ostep
        obtain ⟨m1, hf, hm1h, hm1⟩ := fetch_ok m (.caller obj) len _ "set: memcpy(dstbuf, s, len)" hm (hsrcok _)
        rw [hf]; ostep
        have hb1 : m1.heap[n.blk]? = some b := by rw [hm1h]; exact hb
        obtain ⟨m2, m3, b3, h2, h3, hm3h, hl3, hsz3, hh3, hm3⟩ := write_value m1 hm1 n.blk off b (obj.take len) (off + len)
          "set: memcpy(dstbuf, s, len)" "set: dstbuf[len] = 0" hb1 hl (by omega) (by have := hh.1; omega)
        rw [h2]; ostep
        rw [h3]; ostep
        rw [if_neg (by omega)]
        have hheap : m3.heap = m.heap.set n.blk b3 := by rw [hm3h, hm1h]
        refine ⟨m3, _, 1, rfl, hm3, ?_, Or.inl ⟨rfl, ?_, by omega, Or.inr (by omega)⟩⟩
        · rw [hheap]
          refine ⟨by simp, ?_, ?_, ?_⟩
          · intro i hi hno
            rw [List.getElem?_set_ne]
            intro hc; exact hno (Or.inl hc.symm)
          · intro i b'' hb'' hor
            rcases hor with hge | ho
            · have := lt_of_getElem?_some hb''; simp at this; omega
            · rcases ho with ho | ⟨hneg, _⟩
              · subst ho
                rw [List.getElem?_set_self hnblk] at hb''
                injection hb'' with hb''; subst hb''
                exact ⟨fun _ => Or.inl rfl, fun _ => hl3⟩
              · omega
          · intro i ho
            rcases ho with ho | ⟨hneg, _⟩
            · exact Or.inr (Or.inl ho)
            · simp at hneg; omega
        · refine ⟨b3, by rw [hheap, List.getElem?_set_self hnblk], hl3, by omega, by rw [hbl]; omega, Or.inl ⟨by simp [hbl], hh3⟩⟩
    · -- separately allocated buffer
      have hneg : n.len < 0 := by omega
      have hpl := lt_of_getElem?_some hbp
      have hrp : readPdata n "set: free(pdata), len == 0" = .ok p := by unfold readPdata; rw [hp]
      have hrp2 : readPdata n "set: free(old pdata)" = .ok p := by unfold readPdata; rw [hp]
      rw [if_pos hneg]
      by_cases hz : len = 0
      · -- shrink to the empty string: the buffer is released, the bytes go inline
        rw [if_pos hz, hrp]; ostep
        obtain ⟨m1, h1, hm1h, hm1⟩ := free_ok m p bp "set: free(pdata), len == 0" hm hbp hlp
        rw [h1]; ostep
        rw [Outcome.pure_eq]; ostep
        rw [ckSsize_ok _ _ (by omega) (by omega)]; ostep
        have hb1 : m1.heap[n.blk]? = some b := by rw [hm1h, List.getElem?_set_ne hne]; exact hb
        have hsc' : stringComponent m1 { blk := n.blk, len := 0, pdata := n.pdata } "set: get_string_component_mutable" = .ok (n.blk, off) := by
          unfold stringComponent
          rw [liveNode_ok m1 { blk := n.blk, len := 0, pdata := n.pdata } _ b hb1 hl]; ostep
          rw [if_neg (by omega)]; rfl
        rw [hsc']; ostep
        rw [ckSsize_ok _ _ (by omega) (by omega)]; ostep
        rw [if_neg (by omega), if_neg (by omega), Outcome.pure_eq]; ostep
        rw [fetch_caller _ _ _ _ hlo]; ostep
        obtain ⟨m2, m3, b3, h2, h3, hm3h, hl3, hsz3, hh3, hm3⟩ := write_value m1 hm1 n.blk off b (obj.take len) (off + len)
          "set: memcpy(dstbuf, s, len)" "set: dstbuf[len] = 0" hb1 hl (by omega) (by omega)
        rw [h2]; ostep
        rw [h3]; ostep
        rw [if_neg (by omega)]
        have hg3n : m3.heap[n.blk]? = some b3 := by
          rw [hm3h, List.getElem?_set_self (by rw [hm1h]; simp; omega)]
        have hg3p : m3.heap[p]? = some { bp with live := false } := by
          rw [hm3h, hm1h, List.getElem?_set_ne (Ne.symm hne), List.getElem?_set_self hpl]
        refine ⟨m3, _, 1, rfl, hm3, ?_, Or.inl ⟨rfl, ?_, by omega, Or.inr (by omega)⟩⟩
        · refine ⟨by rw [hm3h, hm1h]; simp, ?_, ?_, ?_⟩
          · intro i hi hno
            have h1' : i ≠ n.blk := fun hc => hno (Or.inl hc)
            have h2' : i ≠ p := fun hc => hno (Or.inr ⟨hneg, by rw [hp, hc]⟩)
            rw [hm3h, hm1h, List.getElem?_set_ne (Ne.symm h1'), List.getElem?_set_ne (Ne.symm h2')]
          · intro i b'' hb'' hor
            by_cases hi1 : i = n.blk
            · subst hi1; rw [hg3n] at hb''; injection hb'' with hb''; subst hb''
              exact ⟨fun _ => Or.inl rfl, fun _ => hl3⟩
            · by_cases hi2 : i = p
              · subst hi2; rw [hg3p] at hb''; injection hb'' with hb''; subst hb''
                constructor
                · intro hc; simp at hc
                · intro ho; rcases ho with ho | ⟨hc, _⟩
                  · exact absurd ho hi1
                  · dsimp only at hc; omega
              · exfalso
                have := lt_of_getElem?_some hb''
                rw [hm3h, hm1h] at this; simp at this
                rcases hor with hge | ho
                · omega
                · rcases ho with ho | ⟨_, hpd⟩
                  · exact hi1 ho
                  · rw [hp] at hpd; injection hpd with hpd; exact hi2 hpd.symm
          · intro i ho
            rcases ho with ho | ⟨hc, _⟩
            · exact Or.inr (Or.inl ho)
            · dsimp only at hc; omega
        · refine ⟨b3, hg3n, hl3, by omega, by rw [hbl]; omega, Or.inl ⟨by simp [hbl], hh3⟩⟩
      · rw [if_neg hz]
        rw [ckSsize_ok _ _ (by omega) (by omega)]; ostep
        rw [Outcome.pure_eq]; ostep
        rw [ckSsize_ok _ _ (by omega) (by omega)]; ostep
        have hsc' : stringComponent m n "set: get_string_component_mutable" = .ok (p, 0) := by
          unfold stringComponent
          rw [hrr.liveNode]; ostep
          rw [if_pos hneg]
          unfold readPdata; rw [hp]; rfl
        rw [hsc']; ostep
        rw [ckSsize_ok _ _ (by omega) (by omega)]; ostep
        by_cases hgrow : (len : Int) > -n.len
        · rw [if_pos hgrow]
          rw [ckSize_ok _ _ (by omega) (by omega)]; ostep
          have hszv : len + 1 ≤ ((len : Int) + (strGrowNulRoom : Int)).toNat := by omega
          generalize ((len : Int) + (strGrowNulRoom : Int)).toNat = sz at hszv ⊢
          cases ok
          · obtain ⟨m1, h1, hm1h, hm1⟩ := malloc_fail m sz hm
            rw [h1]; dsimp only
            exact ⟨m1, n, 0, rfl, hm1, by rw [hm1h]; exact Frame.same hrr, Or.inr ⟨rfl, rfl, hm1h, Or.inr ⟨rfl, by omega⟩⟩⟩
          · obtain ⟨m1, h1, hm1h, hm1⟩ := malloc_ok m sz hm
            rw [h1]; dsimp only
            rw [if_pos hneg, hrp2]; ostep
            have hbp1 : m1.heap[p]? = some bp := by rw [hm1h, List.getElem?_append_left hpl]; exact hbp
            obtain ⟨m1', h1', hm1h', hm1'⟩ := free_ok m1 p bp "set: free(old pdata)" hm1 hbp1 hlp
            rw [h1']; ostep
            have hb1 : m1'.heap[n.blk]? = some b := by
              rw [hm1h', List.getElem?_set_ne hne, hm1h, List.getElem?_append_left hnblk]; exact hb
            have hnb1 : m1'.heap[m.heap.length]? = some { size := sz, cells := List.replicate sz none, live := true } := by
              rw [hm1h', List.getElem?_set_ne (by omega), hm1h, List.getElem?_append_right (Nat.le_refl _)]; simp
            obtain ⟨m2, m3, m4, b2, nb', h2, h3, h4, hm4h, hm4, hl2, hsz2, hlnb, hhnb⟩ :=
              grow_finish m1' hm1' n m.heap.length len b _ (obj.take len) hb1 hl hsz hnb1 rfl (by dsimp only; omega) (by omega) hbl
            rw [h2]; ostep
            rw [ckSsize_ok _ _ (by omega) (by omega)]; ostep
            rw [fetch_caller _ _ _ _ hlo]; ostep
            rw [h3]; ostep
            rw [h4]; ostep
            have hlen4 : m4.heap.length = m.heap.length + 1 := by rw [hm4h, hm1h', hm1h]; simp
            have hg4n : m4.heap[n.blk]? = some b2 := by
              rw [hm4h, List.getElem?_set_ne (by omega), List.getElem?_set_self (by rw [hm1h', hm1h]; simp; omega)]
            have hg4i : m4.heap[m.heap.length]? = some nb' := by
              rw [hm4h, List.getElem?_set_self (by rw [hm1h', hm1h]; simp)]
            have hg4p : m4.heap[p]? = some { bp with live := false } := by
              rw [hm4h, List.getElem?_set_ne (by omega), List.getElem?_set_ne (Ne.symm hne), hm1h',
                List.getElem?_set_self (by rw [hm1h]; simp; omega)]
            refine ⟨m4, _, 1, rfl, hm4, ?_, Or.inl ⟨rfl, ?_, by omega, Or.inl rfl⟩⟩
            · refine ⟨by omega, ?_, ?_, ?_⟩
              · intro i hi hno
                have h1'' : i ≠ n.blk := fun hc => hno (Or.inl hc)
                have h2'' : i ≠ p := fun hc => hno (Or.inr ⟨hneg, by rw [hp, hc]⟩)
                rw [hm4h, List.getElem?_set_ne (by omega), List.getElem?_set_ne (Ne.symm h1''), hm1h',
                  List.getElem?_set_ne (Ne.symm h2''), hm1h, List.getElem?_append_left hi]
              · intro i b'' hb'' hor
                by_cases hi1 : i = n.blk
                · subst hi1; rw [hg4n] at hb''; injection hb'' with hb''; subst hb''
                  exact ⟨fun _ => Or.inl rfl, fun _ => hl2⟩
                · by_cases hi2 : i = m.heap.length
                  · subst hi2; rw [hg4i] at hb''; injection hb'' with hb''; subst hb''
                    exact ⟨fun _ => Or.inr ⟨by dsimp only; omega, rfl⟩, fun _ => hlnb⟩
                  · by_cases hi3 : i = p
                    · subst hi3; rw [hg4p] at hb''; injection hb'' with hb''; subst hb''
                      constructor
                      · intro hc; simp at hc
                      · intro ho; rcases ho with ho | ⟨_, hpd⟩
                        · exact absurd ho hi1
                        · dsimp only at hpd; injection hpd with hpd; omega
                    · exfalso
                      have := lt_of_getElem?_some hb''
                      rcases hor with hge | ho
                      · omega
                      · rcases ho with ho | ⟨_, hpd⟩
                        · exact hi1 ho
                        · rw [hp] at hpd; injection hpd with hpd; exact hi3 hpd.symm
              · intro i ho
                rcases ho with ho | ⟨_, hpd⟩
                · exact Or.inr (Or.inl ho)
                · dsimp only at hpd; injection hpd with hpd; left; omega
            · refine ⟨b2, hg4n, hl2, by omega, by rw [hbl]; omega, Or.inr ⟨by simp [hbl], by rw [hbl]; omega, m.heap.length, nb', rfl, by dsimp only; omega, hg4i, hlnb, hhnb⟩⟩
        · rw [if_neg hgrow, if_pos hneg]
          rw [ckSsize_ok _ _ (by omega) (by omega)]; ostep
          rw [fetch_caller _ _ _ _ hlo]; ostep
          obtain ⟨m2, m3, b3, h2, h3, hm3h, hl3, hsz3, hh3, hm3⟩ := write_value m hm p 0 bp (obj.take len) (0 + len)
            "set: memcpy(dstbuf, s, len)" "set: dstbuf[len] = 0" hbp hlp (by omega) (by have := hh.1; omega)
          rw [h2]; ostep
          rw [h3]; ostep
          rw [if_pos hneg]
          have hg3p : m3.heap[p]? = some b3 := by rw [hm3h, List.getElem?_set_self hpl]
          have hg3n : m3.heap[n.blk]? = some b := by rw [hm3h, List.getElem?_set_ne hne]; exact hb
          refine ⟨m3, _, 1, rfl, hm3, ?_, Or.inl ⟨rfl, ?_, by omega, Or.inr (by omega)⟩⟩
          · refine ⟨by rw [hm3h]; simp, ?_, ?_, ?_⟩
            · intro i hi hno
              have h2' : i ≠ p := fun hc => hno (Or.inr ⟨hneg, by rw [hp, hc]⟩)
              rw [hm3h, List.getElem?_set_ne (Ne.symm h2')]
            · intro i b'' hb'' hor
              by_cases hi1 : i = n.blk
              · subst hi1; rw [hg3n] at hb''; injection hb'' with hb''; subst hb''
                exact ⟨fun _ => Or.inl rfl, fun _ => hl⟩
              · by_cases hi2 : i = p
                · subst hi2; rw [hg3p] at hb''; injection hb'' with hb''; subst hb''
                  exact ⟨fun _ => Or.inr ⟨by dsimp only; omega, hp⟩, fun _ => hl3⟩
                · exfalso
                  have := lt_of_getElem?_some hb''
                  rw [hm3h] at this; simp at this
                  rcases hor with hge | ho
                  · omega
                  · rcases ho with ho | ⟨_, hpd⟩
                    · exact hi1 ho
                    · rw [hp] at hpd; injection hpd with hpd; exact hi2 hpd.symm
            · intro i ho
              rcases ho with ho | ⟨_, hpd⟩
              · exact Or.inr (Or.inl ho)
              · dsimp only at hpd; exact Or.inr (Or.inr ⟨hneg, hpd⟩)
          · refine ⟨b, hg3n, hl, hsz, by rw [hbl]; omega, Or.inr ⟨by simp [hbl], by rw [hbl]; omega, p, b3, hp, hne, hg3p, hl3, hh3⟩⟩

/-! ### delete, equality, copy, serializer reads -/
theorem stringDelete_spec (m : Mem) (n : Node) (s : Bytes) (hm : MemInv m) (hr : Rep m.heap n s) :
    ∃ m', stringDelete m n = .ok m' ∧ MemInv m' ∧ Frame m.heap (owns n) m'.heap (fun _ => False) := by
  unfold stringDelete
  rw [hr.liveNode]; ostep
  have hrr := hr
  obtain ⟨b, hb, hl, hsz, hss, hcase⟩ := hr
  have hnblk := lt_of_getElem?_some hb
  rcases hcase with ⟨hlen, hh⟩ | ⟨hlen, h1, p, bp, hp, hne, hbp, hlp, hh⟩
  · have hnn : ¬ n.len < 0 := by omega
    rw [if_neg hnn, Outcome.pure_eq]; ostep
    obtain ⟨m1, h1, hm1h, hm1⟩ := free_ok m n.blk b "delete: free(jso)" hm hb hl
    refine ⟨m1, h1, hm1, ?_⟩
    refine ⟨by rw [hm1h]; simp, ?_, ?_, fun _ h => h.elim⟩
    · intro i hi hno
      have : i ≠ n.blk := fun hc => hno (Or.inl hc)
      rw [hm1h, List.getElem?_set_ne (Ne.symm this)]
    · intro i b'' hb'' hor
      have hlt := lt_of_getElem?_some hb''
      rw [hm1h] at hlt; simp at hlt
      have hi : i = n.blk := by
        rcases hor with hge | ho
        · omega
        · rcases ho with ho | ⟨hneg, _⟩
          · exact ho
          · omega
      subst hi
      rw [hm1h, List.getElem?_set_self hnblk] at hb''
      injection hb'' with hb''; subst hb''
      simp
  · have hneg : n.len < 0 := by omega
    have hpl := lt_of_getElem?_some hbp
    rw [if_pos hneg]
    have hrp : readPdata n "delete: free(pdata)" = .ok p := by unfold readPdata; rw [hp]
    rw [hrp]; ostep
    obtain ⟨m1, h1, hm1h, hm1⟩ := free_ok m p bp "delete: free(pdata)" hm hbp hlp
    rw [h1]; ostep
    have hb1 : m1.heap[n.blk]? = some b := by rw [hm1h, List.getElem?_set_ne hne]; exact hb
    obtain ⟨m2, h2, hm2h, hm2⟩ := free_ok m1 n.blk b "delete: free(jso)" hm1 hb1 hl
    refine ⟨m2, h2, hm2, ?_⟩
    refine ⟨by rw [hm2h, hm1h]; simp, ?_, ?_, fun _ h => h.elim⟩
    · intro i hi hno
      have h1' : i ≠ n.blk := fun hc => hno (Or.inl hc)
      have h2' : i ≠ p := fun hc => hno (Or.inr ⟨hneg, by rw [hp, hc]⟩)
      rw [hm2h, List.getElem?_set_ne (Ne.symm h1'), hm1h, List.getElem?_set_ne (Ne.symm h2')]
    · intro i b'' hb'' hor
      have hlt := lt_of_getElem?_some hb''
      rw [hm2h, hm1h] at hlt; simp at hlt
      by_cases hi1 : i = n.blk
      · subst hi1
        rw [hm2h, List.getElem?_set_self (by rw [hm1h]; simp; omega)] at hb''
        injection hb'' with hb''; subst hb''; simp
      · have hi : i = p := by
          rcases hor with hge | ho
          · omega
          · rcases ho with ho | ⟨_, hpd⟩
            · exact absurd ho hi1
            · rw [hp] at hpd; injection hpd with hpd; exact hpd.symm
        subst hi
        rw [hm2h, List.getElem?_set_ne (Ne.symm hi1), hm1h, List.getElem?_set_self hpl] at hb''
        injection hb'' with hb''; subst hb''; simp

theorem equalStr_spec (m : Mem) (n1 n2 : Node) (s1 s2 : Bytes) (hm : MemInv m)
    (h1 : Rep m.heap n1 s1) (h2 : Rep m.heap n2 s2) :
    ∃ m', equalStr m n1 n2 = .ok (m', ByteStr.equal s1 s2) ∧ m'.heap = m.heap ∧ MemInv m' := by
  have hS : SSIZE_MAX = (ssizeMax : Int) := rfl
  have hZ : SIZE_MAX = (sizeMax : Int) := rfl
  have g4 : ssizeMax ≤ sizeMax := c_ssize_le_size
  unfold equalStr
  rw [absLen_spec h1]; ostep
  rw [absLen_spec h2]; ostep
  by_cases hne : (s1.length : Int) ≠ s2.length
  · rw [if_pos hne]
    refine ⟨m, ?_, rfl, hm⟩
    have : s1 ≠ s2 := by intro hc; subst hc; exact hne rfl
    unfold ByteStr.equal
    rw [beq_eq_false_iff_ne.mpr this]
  · rw [if_neg hne]
    have hleq : s1.length = s2.length := by omega
    obtain ⟨id1, o1, b1, hsc1, hb1, hl1, hh1, _⟩ := stringComponent_spec h1 "equal: get_string_component(jso1)"
    obtain ⟨id2, o2, b2, hsc2, hb2, hl2, hh2, _⟩ := stringComponent_spec h2 "equal: get_string_component(jso2)"
    rw [hsc1]; ostep
    rw [hsc2]; ostep
    rw [absLen_spec h1]; ostep
    have hss1 : (s1.length : Int) ≤ SSIZE_MAX := by obtain ⟨_, _, _, _, hss, _⟩ := h1; exact hss.1
    rw [ckSize_ok _ _ (by omega) (by omega)]; ostep
    have htn : (s1.length : Int).toNat = s1.length := by omega
    rw [htn]
    have hc1 := hm.cells id1 b1 hb1
    obtain ⟨m1, hl1', hm1h, hm1⟩ := load_ok m id1 o1 s1.length b1 "equal: memcmp" s1 hm hb1 hl1
      (by have := hh1.1; omega) (by rw [hh1.slice_bytes hc1 _ (Nat.le_refl _), List.take_length])
    rw [hl1']; ostep
    have hb2' : m1.heap[id2]? = some b2 := by rw [hm1h]; exact hb2
    have hc2 := hm.cells id2 b2 hb2
    obtain ⟨m2, hl2', hm2h, hm2⟩ := load_ok m1 id2 o2 s1.length b2 "equal: memcmp" s2 hm1 hb2' hl2
      (by have := hh2.1; omega) (by rw [hleq, hh2.slice_bytes hc2 _ (Nat.le_refl _), List.take_length])
    rw [hl2']; ostep
    exact ⟨m2, rfl, by rw [hm2h, hm1h], hm2⟩

theorem serializePayload_spec (m : Mem) (n : Node) (s : Bytes) (hm : MemInv m) (h : Rep m.heap n s) :
    ∃ m', serializePayload m n = .ok (m', s) ∧ m'.heap = m.heap ∧ MemInv m' := by
  have hS : SSIZE_MAX = (ssizeMax : Int) := rfl
  have hZ : SIZE_MAX = (sizeMax : Int) := rfl
  have g4 : ssizeMax ≤ sizeMax := c_ssize_le_size
  unfold serializePayload
  rw [h.liveNode]; ostep
  obtain ⟨id, o, b, hsc, hb, hl, hh, _⟩ := stringComponent_spec h "serialize: get_string_component"
  rw [hsc]; ostep
  have hss : (s.length : Int) ≤ SSIZE_MAX := by obtain ⟨_, _, _, _, hss, _⟩ := h; exact hss.1
  have hc := hm.cells id b hb
  have htn : (s.length : Int).toNat = s.length := by omega
  have fin : ∃ m', (do
      let cnt ← ckSize (s.length : Int) "serialize: len as size_t"
      m.load id o cnt "serialize: json_escape_str reads str[0..len)") = .ok (m', s) ∧ m'.heap = m.heap ∧ MemInv m' := by
    rw [ckSize_ok _ _ (by omega) (by omega)]; ostep
    rw [htn]
    exact load_ok m id o s.length b _ s hm hb hl (by have := hh.1; omega)
      (by rw [hh.slice_bytes hc _ (Nat.le_refl _), List.take_length])
  obtain ⟨_, _, _, _, _, hcase⟩ := h
  rcases hcase with ⟨hlen, _⟩ | ⟨hlen, h1, _⟩
  · rw [if_neg (by omega), Outcome.pure_eq]; ostep
    rw [hlen]; exact fin
  · rw [if_pos (by omega), hlen, ckSsize_ok _ _ (by omega) (by omega)]; ostep
    rw [Int.neg_neg]; exact fin


theorem toInt_range (x : Int) : INT_MIN ≤ (toInt x).1 ∧ (toInt x).1 ≤ INT_MAX := by
  unfold toInt
  split
  · rename_i h; exact h
  · simp only [INT_MAX, INT_MIN, intMax]
    omega

theorem copy_facts : ssizeMax + intMax + 1 ≤ sizeMax ∧ intMax + hdr + strNewGuardSlack ≤ ssizeMax := by decide

theorem shallowCopy_spec (m : Mem) (n : Node) (s : Bytes) (ok : Bool) (hm : MemInv m) (h : Rep m.heap n s) :
    ((toInt s.length).1 < 0 ∨ ok = false →
        ∃ m', shallowCopy m n ok = .ok (m', none, (toInt s.length).2) ∧ m'.heap = m.heap ∧ MemInv m') ∧
    (0 ≤ (toInt s.length).1 → ok = true →
        ∃ m' c b, shallowCopy m n ok = .ok (m', some c, (toInt s.length).2) ∧ MemInv m' ∧
          c.blk = m.heap.length ∧ c.pdata = none ∧ m'.heap = m.heap ++ [b] ∧
          Rep m'.heap c (s.take (toInt s.length).1.toNat)) := by
  obtain ⟨f1, f2, f3, f4, f5, f6, f7⟩ := hdr_facts
  have hS : SSIZE_MAX = (ssizeMax : Int) := rfl
  have hZ : SIZE_MAX = (sizeMax : Int) := rfl
  have hI : INT_MAX = (intMax : Int) := rfl
  have hIm : INT_MIN = -(intMax : Int) - 1 := rfl
  obtain ⟨k1, k2⟩ := copy_facts
  obtain ⟨r1, r2⟩ := toInt_range (s.length : Int)
  have hle := toInt_le (s.length : Int) (by omega)
  have hng := new_int_guard
  have hfit : (s.length : Int) < INT_MAX - strSetGuardSlack := by
    obtain ⟨_, _, _, _, hss, _⟩ := h; exact hss.2
  unfold shallowCopy
  obtain ⟨id, o, b, hsc, hb, hl, hh, _⟩ := stringComponent_spec h "copy: get_string_component(src)"
  rw [hsc]; ostep
  rw [absLen_spec h]; ostep
  unfold newStringLen
  generalize hli : (toInt (s.length : Int)).1 = li at r1 r2 hle ⊢
  generalize (toInt (s.length : Int)).2 = w
  have hc := hm.cells id b hb
  refine ⟨?_, ?_⟩
  · intro hcase
    by_cases hneg : li < 0
    · have hbig : bigLen (toSizeT li) := by
        unfold bigLen toSizeT; rw [if_pos hneg]; omega
      have := (newString_spec m (.block id o) (toSizeT li) ok [] hm (fun hnb => absurd hbig hnb)).1 hbig
      rw [this]; ostep
      exact ⟨m, rfl, rfl, hm⟩
    · have hok : ok = false := by rcases hcase with hc' | hc'; exact absurd hc' hneg; exact hc'
      have hnbig : ¬ bigLen (toSizeT li) := by
        unfold bigLen toSizeT; rw [if_neg hneg]; omega
      obtain ⟨m', h1, h2, h3⟩ := (newString_spec m (.block id o) (toSizeT li) ok [] hm
        (fun _ hc' => by rw [hok] at hc'; exact absurd hc' (by simp))).2.1 hnbig hok
      rw [h1]; ostep
      exact ⟨m', rfl, h2, h3⟩
  · intro hpos hok
    have hts : toSizeT li = li.toNat := by unfold toSizeT; rw [if_neg (by omega)]
    have hnbig : ¬ bigLen (toSizeT li) := by
      unfold bigLen; rw [hts]; omega
    have hk : li.toNat ≤ s.length := by omega
    have hsrc : SrcOK m.heap (.block id o) (toSizeT li) (s.take li.toNat) := by
      rw [hts]
      exact ⟨b, hb, hl, by have := hh.1; omega, hh.slice_bytes hc _ hk, by simp; omega⟩
    obtain ⟨m', c, b', h1, h2, h3, _, h5, h6, h7⟩ := (newString_spec m (.block id o) (toSizeT li) ok (s.take li.toNat) hm
      (fun _ _ => hsrc)).2.2 hnbig hok
    rw [h1]; ostep
    exact ⟨m', c, b', rfl, h2, h3, h5, h6, h7⟩

/-! ### worlds -/

/-- world invariant: `v` is the value the node holds (`none`: there is no node); the live blocks are
exactly the node's -/
def WInv (w : World) (v : Option Bytes) : Prop :=
  MemInv w.mem ∧
  match w.node, v with
  | none, none => ∀ (id : Nat) (b : Block), w.mem.heap[id]? = some b → b.live = false
  | some n, some s => Rep w.mem.heap n s ∧
      ∀ (id : Nat) (b : Block), w.mem.heap[id]? = some b → (b.live = true ↔ owns n id)
  | _, _ => False

theorem Frame.ofNew {heap heap' : List Block} {n : Node} {b : Block} {s : Bytes}
    (hh : heap' = heap ++ [b]) (hblk : n.blk = heap.length) (hpd : n.pdata = none) (hr : Rep heap' n s) :
    Frame heap (fun _ => False) heap' (owns n) := by
  have hown : ∀ id, owns n id → id = heap.length := by
    intro id ho; rcases ho with ho | ⟨_, hp⟩
    · omega
    · rw [hpd] at hp; simp at hp
  refine ⟨by rw [hh]; simp, ?_, ?_, ?_⟩
  · intro id hid _; rw [hh, List.getElem?_append_left hid]
  · intro id b' hb' hor
    have hlt := lt_of_getElem?_some hb'
    rw [hh] at hlt; simp at hlt
    have hid : id = n.blk := by rcases hor with h | h; omega; exact h.elim
    subst hid
    exact ⟨fun _ => Or.inl rfl, fun _ => hr.owned_live (Or.inl rfl) hb'⟩
  · intro id ho; left; have := hown id ho; omega

theorem Rep.of_frame_false {heap heap' : List Block} {Q : Nat → Prop} {n : Node} {s : Bytes}
    (f : Frame heap (fun _ => False) heap' Q) (h : Rep heap n s) : Rep heap' n s :=
  h.frame (fun id ho => f.untouched id (h.owned_lt ho) (fun hc => hc))

theorem Frame.refl_false (heap : List Block) : Frame heap (fun _ => False) heap (fun _ => False) :=
  ⟨Nat.le_refl _, fun _ _ _ => rfl, fun id b' hb' hor => by
    rcases hor with h | h
    · have := lt_of_getElem?_some hb'; omega
    · exact h.elim, fun _ h => h.elim⟩

/-- the request fits `_json_object_set_string_len`'s length guard -/
def fitsSet (k : Nat) : Prop := (k : Int) < INT_MAX - strSetGuardSlack

instance (k : Nat) : Decidable (fitsSet k) := by unfold fitsSet; infer_instance

/-- outcome of a constructor asked to hold the `len` bytes `val` -/
def NewDesc (val : Bytes) (len : Nat) (ok : Bool) (r : Res) (v' : Option Bytes) : Prop :=
  (bigLen len ∨ ok = false → r = .made false none ∧ v' = none) ∧
  (¬ bigLen len → ok = true → r = .made true (some (viewOf val)) ∧ v' = some val)

/-- outcome of a setter asked to store the `len` bytes `new` over `s` -/
def SetDesc (s new : Bytes) (len : Nat) (ok : Bool) (r : Res) (v' : Option Bytes) : Prop :=
  (r = .did 1 (viewOf new) ∧ v' = some new ∧ fitsSet len ∧ (ok = true ∨ len ≤ s.length)) ∨
  (r = .did 0 (viewOf s) ∧ v' = some s ∧ (¬ fitsSet len ∨ (ok = false ∧ s.length < len)))

/-- the second operand of the `eq` op: `new(a)`, then `set(b)` when given (refused when too long) -/
def eqOther (a : Bytes) (b : Option Bytes) : Bytes :=
  match b with
  | none => a
  | some b' => if fitsSet b'.length then b' else a

/-- what `step` does, in terms of the value held before (`v`) and after (`v'`) -/
def Desc (v : Option Bytes) (op : Op) (r : Res) (v' : Option Bytes) : Prop :=
  match v, op with
  | some _, .new _ _ => r = .busy ∧ v' = v
  | some _, .newn _ => r = .busy ∧ v' = v
  | some _, .newz _ _ => r = .busy ∧ v' = v
  | none, .new obj ok => NewDesc obj obj.length ok r v'
  | none, .newn k => NewDesc (claimSource.take (toSizeT k)) (toSizeT k) true r v'
  | none, .newz obj ok => NewDesc (ByteStr.cPrefix obj) (ByteStr.cPrefix obj).length ok r v'
  | none, _ => r = .noNode ∧ v' = none
  | some s, .set obj ok => SetDesc s obj obj.length ok r v'
  | some s, .setn k => SetDesc s (claimSource.take (toSizeT k)) (toSizeT k) true r v'
  | some s, .setz obj ok => SetDesc s (ByteStr.cPrefix obj) (ByteStr.cPrefix obj).length ok r v'
  | some s, .get => r = .saw (viewOf s) ∧ v' = v
  | some s, .eq a b => r = .cmp (ByteStr.equal s (eqOther a b)) (ByteStr.equal (eqOther a b) s) ∧ v' = v
  | some s, .copy ok =>
      ((toInt s.length).1 < 0 ∨ ok = false → r = .copied none false false) ∧
      (¬ ((toInt s.length).1 < 0 ∨ ok = false) → r = .copied (some (viewOf (s.take (toInt s.length).1.toNat)))
              (ByteStr.equal s (s.take (toInt s.length).1.toNat)) (ByteStr.equal (s.take (toInt s.length).1.toNat) s)) ∧ v' = v
  | some s, .ser => r = .payload s ∧ v' = v
  | some _, .del => r = .deleted ∧ v' = none

/-- requests a C caller may make: `int` arguments are ints, claimed sizes stay inside the 8-byte
source object unless the call refuses them before reading -/
def Op.WF : Op → Prop
  | .new obj _ => (obj.length : Int) ≤ INT_MAX
  | .newn k => INT_MIN ≤ k ∧ k ≤ INT_MAX ∧ (k ≤ claimSource.length ∨ k ≥ INT_MAX - strNewIntGuardSlack)
  | .set obj _ => (obj.length : Int) ≤ INT_MAX
  | .setn k => INT_MIN ≤ k ∧ k ≤ INT_MAX ∧ (k ≤ claimSource.length ∨ k ≥ INT_MAX - strSetGuardSlack)
  | .eq a b => (a.length : Int) < INT_MAX - strNewIntGuardSlack ∧ ∀ b', b = some b' → fitsSet b'.length
  | _ => True

theorem toSizeT_nat (k : Nat) : toSizeT (k : Int) = k := by
  unfold toSizeT; rw [if_neg (by omega)]; omega

theorem WInv.of_heap_eq {m m' : Mem} {node : Option Node} {v : Option Bytes}
    (h : WInv { mem := m, node := node } v) (hh : m'.heap = m.heap) (hm' : MemInv m') :
    WInv { mem := m', node := node } v := by
  obtain ⟨_, h2⟩ := h
  refine ⟨hm', ?_⟩
  dsimp only at h2 ⊢
  rw [hh]; exact h2

/-- constructor on a world without node -/
theorem ctor_gen (m : Mem) (src : Src) (len : Nat) (ok : Bool) (val : Bytes) (hm : MemInv m)
    (hdead : ∀ (id : Nat) (b : Block), m.heap[id]? = some b → b.live = false)
    (hsrc : ¬ bigLen len → ok = true → SrcOK m.heap src len val) :
    ∃ w' r v', (newString m src len ok >>= afterNew) = .ok (w', r) ∧ WInv w' v' ∧ NewDesc val len ok r v' := by
  obtain ⟨c1, c2, c3⟩ := newString_spec m src len ok val hm hsrc
  by_cases hbig : bigLen len
  · rw [c1 hbig]; ostep
    refine ⟨_, _, none, rfl, ⟨hm, hdead⟩, ?_, ?_⟩
    · intro _; exact ⟨rfl, rfl⟩
    · intro h; exact absurd hbig h
  · cases ok
    · obtain ⟨m', h1, h2, h3⟩ := c2 hbig rfl
      rw [h1]; ostep
      refine ⟨_, _, none, rfl, ⟨h3, ?_⟩, ?_, ?_⟩
      · dsimp only; rw [h2]; exact hdead
      · intro _; exact ⟨rfl, rfl⟩
      · intro _ h; simp at h
    · obtain ⟨m', n, b, h1, h2, h3, h4, h5, h6, h7⟩ := c3 hbig rfl
      rw [h1]; ostep
      unfold afterNew; dsimp only
      obtain ⟨m'', ho, hoh, hom⟩ := observe_spec h2 h7
      rw [ho]; ostep
      have fr : Frame m.heap (fun _ => False) m'.heap (owns n) := Frame.ofNew h6 h3 h5 h7
      have hlive := fr.world (R := fun _ => False) (by
        intro id b' hb'; rw [hdead id b' hb']; simp) (fun _ h => h.elim)
      refine ⟨_, _, some val, rfl, ⟨hom, ?_, ?_⟩, ?_, ?_⟩
      · dsimp only; rw [hoh]; exact h7
      · dsimp only; rw [hoh]
        intro id b' hb'; rw [hlive id b' hb']; simp
      · intro h; rcases h with h | h
        · exact absurd h hbig
        · simp at h
      · intro _ _; exact ⟨rfl, rfl⟩

/-- setter on a world with a node -/
theorem setter_gen (m : Mem) (n : Node) (s obj : Bytes) (len : Nat) (ok : Bool)
    (hw : WInv { mem := m, node := some n } (some s)) (hsrc : fitsSet len → len ≤ obj.length) :
    ∃ w' r v', (setString m n (.caller obj) len ok >>= afterSet) = .ok (w', r) ∧ WInv w' v' ∧
      SetDesc s (obj.take len) len ok r v' := by
  obtain ⟨hm, hr, hlive⟩ := hw
  dsimp only at hr hlive
  obtain ⟨m', n', ret, h1, hm', fr, hcase⟩ := setString_spec m n s obj len ok hm hr hsrc
  rw [h1]; ostep
  unfold afterSet; dsimp only
  have hlive' := fr.world (R := fun _ => False) (by
    intro id b hb; rw [hlive id b hb]; simp) (fun _ h => h.elim)
  rcases hcase with ⟨hret, hrep, hfit, hor⟩ | ⟨hret, hn, hh, hor⟩
  · obtain ⟨m'', ho, hoh, hom⟩ := observe_spec hm' hrep
    rw [ho]; ostep
    refine ⟨_, _, some (obj.take len), rfl, ⟨hom, ?_, ?_⟩, Or.inl ⟨by rw [hret], rfl, hfit, hor⟩⟩
    · dsimp only; rw [hoh]; exact hrep
    · dsimp only; rw [hoh]; intro id b hb; rw [hlive' id b hb]; simp
  · subst hn
    have hrep : Rep m'.heap n' s := by rw [hh]; exact hr
    obtain ⟨m'', ho, hoh, hom⟩ := observe_spec hm' hrep
    rw [ho]; ostep
    refine ⟨_, _, some s, rfl, ⟨hom, ?_, ?_⟩, Or.inr ⟨by rw [hret], rfl, ?_⟩⟩
    · dsimp only; rw [hoh]; exact hrep
    · dsimp only; rw [hoh]; intro id b hb; rw [hlive' id b hb]; simp
    · rcases hor with h | h
      · left; unfold fitsSet; omega
      · right; exact h


theorem claim_len : claimSource.length = 8 := rfl

/-- the `eq` op: a temporary second node is built, optionally mutated, compared both ways, released -/
theorem eq_gen (m : Mem) (n : Node) (s a : Bytes) (b : Option Bytes)
    (hw : WInv { mem := m, node := some n } (some s)) (ha : (a.length : Int) < INT_MAX - strNewIntGuardSlack) :
    ∃ w' r, step { mem := m, node := some n } (.eq a b) = .ok (w', r) ∧ WInv w' (some s) ∧
      r = .cmp (ByteStr.equal s (eqOther a b)) (ByteStr.equal (eqOther a b) s) := by
  obtain ⟨f1, f2, f3, f4, f5, f6, f7⟩ := hdr_facts
  obtain ⟨k1, k2⟩ := copy_facts
  have hI : INT_MAX = (intMax : Int) := rfl
  obtain ⟨hm, hr, hlive⟩ := hw
  dsimp only at hr hlive
  unfold step; dsimp only
  unfold newStringLen
  rw [toSizeT_nat]
  have hnbig : ¬ bigLen a.length := by unfold bigLen; omega
  obtain ⟨m1, f, bf, h1, hm1, hfblk, _, hfpd, hm1h, hrf⟩ :=
    (newString_spec m (.caller a) a.length true a hm (fun _ _ => ⟨Nat.le_refl _, by simp⟩)).2.2 hnbig rfl
  rw [h1]; ostep
  have F1 : Frame m.heap (fun _ => False) m1.heap (owns f) := Frame.ofNew hm1h hfblk hfpd hrf
  -- comparison both ways, then release of the second node
  have tail : ∀ (m2 : Mem) (f' : Node) (val : Bytes), MemInv m2 → Frame m.heap (fun _ => False) m2.heap (owns f') →
      Rep m2.heap f' val →
      ∃ w' r, (do
          let (m, ab) ← equalStr m2 n f'
          let (m, ba) ← equalStr m f' n
          let m ← stringDelete m f'
          pure (({ mem := m, node := some n } : World), Res.cmp ab ba)) = .ok (w', r) ∧ WInv w' (some s) ∧
        r = .cmp (ByteStr.equal s val) (ByteStr.equal val s) := by
    intro m2 f' val hm2 F12 hrf'
    have hrn2 : Rep m2.heap n s := Rep.of_frame_false F12 hr
    obtain ⟨m3, h3, hm3h, hm3⟩ := equalStr_spec m2 n f' s val hm2 hrn2 hrf'
    rw [h3]; ostep
    obtain ⟨m4, h4, hm4h, hm4⟩ := equalStr_spec m3 f' n val s hm3 (by rw [hm3h]; exact hrf') (by rw [hm3h]; exact hrn2)
    rw [h4]; ostep
    obtain ⟨m5, h5, hm5, F3⟩ := stringDelete_spec m4 f' val hm4 (by rw [hm4h, hm3h]; exact hrf')
    rw [h5]; ostep
    have F123 : Frame m.heap (fun _ => False) m5.heap (fun _ => False) := by
      have := F12.trans (by rw [hm4h, hm3h] at F3; exact F3)
      exact this
    refine ⟨_, _, rfl, ⟨hm5, Rep.of_frame_false F123 hr, ?_⟩, rfl⟩
    dsimp only
    have := F123.world (R := owns n) (by intro id b' hb'; rw [hlive id b' hb']; simp)
      (fun id ho => ⟨hr.owned_lt ho, fun hc => hc⟩)
    intro id b' hb'; rw [this id b' hb']; simp
  cases b with
  | none =>
    dsimp only
    rw [Outcome.pure_eq]; ostep
    exact tail m1 f a hm1 F1 hrf
  | some b' =>
    dsimp only
    unfold setStringLen
    rw [toSizeT_nat]
    obtain ⟨m2, f', ret, h2, hm2, fr2, hcase⟩ := setString_spec m1 f a b' b'.length true hm1 hrf (fun _ => Nat.le_refl _)
    rw [h2]; ostep
    rw [Outcome.pure_eq]; ostep
    have hrep : Rep m2.heap f' (eqOther a (some b')) := by
      unfold eqOther; dsimp only
      rcases hcase with ⟨_, hrep, hfit, _⟩ | ⟨_, hn, hh, hor⟩
      · rw [if_pos (by unfold fitsSet; exact hfit)]; simpa using hrep
      · rcases hor with h | h
        · rw [if_neg (by unfold fitsSet; omega)]; subst hn; rw [hh]; exact hrf
        · simp at h
    exact tail m2 f' _ hm2 (F1.trans fr2) hrep

/-- the `copy` op -/
theorem copy_gen (m : Mem) (n : Node) (s : Bytes) (ok : Bool)
    (hw : WInv { mem := m, node := some n } (some s)) :
    ∃ w' r, step { mem := m, node := some n } (.copy ok) = .ok (w', r) ∧ WInv w' (some s) ∧
      ((toInt s.length).1 < 0 ∨ ok = false → r = .copied none false false) ∧
      (¬ ((toInt s.length).1 < 0 ∨ ok = false) → r = .copied (some (viewOf (s.take (toInt s.length).1.toNat)))
              (ByteStr.equal s (s.take (toInt s.length).1.toNat)) (ByteStr.equal (s.take (toInt s.length).1.toNat) s)) := by
  obtain ⟨hm, hr, hlive⟩ := hw
  dsimp only at hr hlive
  unfold step; dsimp only
  obtain ⟨c1, c2⟩ := shallowCopy_spec m n s ok hm hr
  by_cases hc : (toInt s.length).1 < 0 ∨ ok = false
  · obtain ⟨m1, h1, hm1h, hm1⟩ := c1 hc
    rw [h1]; ostep
    exact ⟨_, _, rfl, WInv.of_heap_eq ⟨hm, hr, hlive⟩ hm1h hm1, fun _ => rfl, fun h => absurd hc h⟩
  · have hpos : 0 ≤ (toInt s.length).1 := by omega
    have hok : ok = true := by cases ok <;> simp_all
    obtain ⟨m1, c, bc, h1, hm1, hcblk, hcpd, hm1h, hrc⟩ := c2 hpos hok
    rw [h1]; ostep
    have F1 : Frame m.heap (fun _ => False) m1.heap (owns c) := Frame.ofNew hm1h hcblk hcpd hrc
    have hrn1 : Rep m1.heap n s := Rep.of_frame_false F1 hr
    obtain ⟨m2, h2, hm2h, hm2⟩ := observe_spec hm1 hrc
    rw [h2]; ostep
    obtain ⟨m3, h3, hm3h, hm3⟩ := equalStr_spec m2 n c s _ hm2 (by rw [hm2h]; exact hrn1) (by rw [hm2h]; exact hrc)
    rw [h3]; ostep
    obtain ⟨m4, h4, hm4h, hm4⟩ := equalStr_spec m3 c n _ s hm3 (by rw [hm3h, hm2h]; exact hrc) (by rw [hm3h, hm2h]; exact hrn1)
    rw [h4]; ostep
    obtain ⟨m5, h5, hm5, F3⟩ := stringDelete_spec m4 c _ hm4 (by rw [hm4h, hm3h, hm2h]; exact hrc)
    rw [h5]; ostep
    have F13 : Frame m.heap (fun _ => False) m5.heap (fun _ => False) := by
      have := F1.trans (by rw [hm4h, hm3h, hm2h] at F3; exact F3)
      exact this
    refine ⟨_, _, rfl, ⟨hm5, Rep.of_frame_false F13 hr, ?_⟩, fun h => absurd h hc, fun _ => rfl⟩
    dsimp only
    have := F13.world (R := owns n) (by intro id b' hb'; rw [hlive id b' hb']; simp)
      (fun id ho => ⟨hr.owned_lt ho, fun hc => hc⟩)
    intro id b' hb'; rw [this id b' hb']; simp


theorem cstrlen_z (obj : Bytes) : cstrlen (obj ++ [0]) = some (ByteStr.cPrefix obj).length := by
  have := cstrlen_terminated obj []
  simpa using this

theorem take_z (obj : Bytes) : (obj ++ [0]).take (ByteStr.cPrefix obj).length = ByteStr.cPrefix obj := by
  have := cPrefix_take obj []
  simpa using this

/-- one step of any well-formed request from any world satisfying the invariant: no fault, invariant
kept, result described by `Desc` -/
theorem step_gen (w : World) (v : Option Bytes) (op : Op) (hw : WInv w v) (hwf : op.WF) :
    ∃ w' r v', step w op = .ok (w', r) ∧ WInv w' v' ∧ Desc v op r v' := by
  have hI : INT_MAX = (intMax : Int) := rfl
  have hIm : INT_MIN = -(intMax : Int) - 1 := rfl
  have hZ : SIZE_MAX = (sizeMax : Int) := rfl
  obtain ⟨f1, f2, f3, f4, f5, f6, f7⟩ := hdr_facts
  obtain ⟨k1, k2⟩ := copy_facts
  obtain ⟨m, node⟩ := w
  cases node with
  | none =>
    cases v with
    | some s => exact absurd hw.2 (by simp)
    | none =>
      have hm : MemInv m := hw.1
      have hdead : ∀ (id : Nat) (b : Block), m.heap[id]? = some b → b.live = false := hw.2
      cases op with
      | new obj ok =>
        have := ctor_gen m (.caller obj) obj.length ok obj hm hdead (fun _ _ => ⟨Nat.le_refl _, by simp⟩)
        obtain ⟨w', r, v', h1, h2, h3⟩ := this
        refine ⟨w', r, v', ?_, h2, h3⟩
        unfold step newStringLen; dsimp only
        rw [toSizeT_nat]; exact h1
      | newn k =>
        obtain ⟨hk1, hk2, hk3⟩ := hwf
        rw [claim_len] at hk3
        have hsrc : ¬ bigLen (toSizeT k) → true = true → SrcOK m.heap (.caller claimSource) (toSizeT k) (claimSource.take (toSizeT k)) := by
          intro hnb _
          refine ⟨?_, rfl⟩
          rw [claim_len]
          unfold bigLen toSizeT at hnb
          unfold toSizeT
          by_cases hneg : k < 0
          · rw [if_pos hneg] at hnb; omega
          · rw [if_neg hneg] at hnb ⊢; omega
        obtain ⟨w', r, v', h1, h2, h3⟩ := ctor_gen m (.caller claimSource) (toSizeT k) true _ hm hdead hsrc
        refine ⟨w', r, v', ?_, h2, h3⟩
        unfold step newStringLen; dsimp only
        exact h1
      | newz obj ok =>
        have := ctor_gen m (.caller (obj ++ [0])) (ByteStr.cPrefix obj).length ok (ByteStr.cPrefix obj) hm hdead
          (fun _ _ => ⟨by have := cPrefix_length_le obj; simp; omega, (take_z obj).symm⟩)
        obtain ⟨w', r, v', h1, h2, h3⟩ := this
        refine ⟨w', r, v', ?_, h2, h3⟩
        unfold step newStringZ; dsimp only
        rw [cstrlen_z]; exact h1
      | set _ _ => exact ⟨_, _, none, rfl, hw, rfl, rfl⟩
      | setn _ => exact ⟨_, _, none, rfl, hw, rfl, rfl⟩
      | setz _ _ => exact ⟨_, _, none, rfl, hw, rfl, rfl⟩
      | get => exact ⟨_, _, none, rfl, hw, rfl, rfl⟩
      | eq _ _ => exact ⟨_, _, none, rfl, hw, rfl, rfl⟩
      | copy _ => exact ⟨_, _, none, rfl, hw, rfl, rfl⟩
      | ser => exact ⟨_, _, none, rfl, hw, rfl, rfl⟩
      | del => exact ⟨_, _, none, rfl, hw, rfl, rfl⟩
  | some n =>
    cases v with
    | none => exact absurd hw.2 (by simp)
    | some s =>
      have hm : MemInv m := hw.1
      have hr : Rep m.heap n s := hw.2.1
      cases op with
      | new _ _ => exact ⟨_, _, some s, rfl, hw, rfl, rfl⟩
      | newn _ => exact ⟨_, _, some s, rfl, hw, rfl, rfl⟩
      | newz _ _ => exact ⟨_, _, some s, rfl, hw, rfl, rfl⟩
      | set obj ok =>
        obtain ⟨w', r, v', h1, h2, h3⟩ := setter_gen m n s obj obj.length ok hw (fun _ => Nat.le_refl _)
        refine ⟨w', r, v', ?_, h2, by rw [List.take_length] at h3; exact h3⟩
        unfold step setStringLen; dsimp only
        rw [toSizeT_nat]; exact h1
      | setn k =>
        obtain ⟨hk1, hk2, hk3⟩ := hwf
        rw [claim_len] at hk3
        have hsrc : fitsSet (toSizeT k) → toSizeT k ≤ claimSource.length := by
          intro hfit
          rw [claim_len]
          unfold fitsSet toSizeT at hfit
          unfold toSizeT
          by_cases hneg : k < 0
          · rw [if_pos hneg] at hfit; omega
          · rw [if_neg hneg] at hfit ⊢; omega
        obtain ⟨w', r, v', h1, h2, h3⟩ := setter_gen m n s claimSource (toSizeT k) true hw hsrc
        refine ⟨w', r, v', ?_, h2, h3⟩
        unfold step setStringLen; dsimp only
        exact h1
      | setz obj ok =>
        obtain ⟨w', r, v', h1, h2, h3⟩ := setter_gen m n s (obj ++ [0]) (ByteStr.cPrefix obj).length ok hw
          (fun _ => by have := cPrefix_length_le obj; simp; omega)
        refine ⟨w', r, v', ?_, h2, by rw [take_z] at h3; exact h3⟩
        unfold step setStringZ; dsimp only
        rw [cstrlen_z]; exact h1
      | get =>
        obtain ⟨m', h1, h2, h3⟩ := observe_spec hm hr
        refine ⟨_, _, some s, ?_, WInv.of_heap_eq hw h2 h3, rfl, rfl⟩
        unfold step; dsimp only
        rw [h1]; ostep; rfl
      | eq a b =>
        obtain ⟨w', r, h1, h2, h3⟩ := eq_gen m n s a b hw hwf.1
        exact ⟨w', r, some s, h1, h2, h3, rfl⟩
      | copy ok =>
        obtain ⟨w', r, h1, h2, h3, h4⟩ := copy_gen m n s ok hw
        exact ⟨w', r, some s, h1, h2, h3, h4, rfl⟩
      | ser =>
        obtain ⟨m', h1, h2, h3⟩ := serializePayload_spec m n s hm hr
        refine ⟨_, _, some s, ?_, WInv.of_heap_eq hw h2 h3, rfl, rfl⟩
        unfold step; dsimp only
        rw [h1]; ostep; rfl
      | del =>
        obtain ⟨m', h1, h2, fr⟩ := stringDelete_spec m n s hm hr
        have hlive := fr.world (R := fun _ => False) (by
          intro id b hb; rw [hw.2.2 id b hb]; simp) (fun _ h => h.elim)
        refine ⟨{ mem := m', node := none }, .deleted, none, ?_, ⟨h2, ?_⟩, rfl, rfl⟩
        · unfold step; dsimp only
          rw [h1]; ostep; rfl
        · intro id b hb
          have := hlive id b hb
          cases hbl : b.live
          · rfl
          · rw [hbl] at this; simp at this


/-! ### histories -/
def RunDesc : Option Bytes → List Op → List Res → Option Bytes → Prop
  | v, [], [], v' => v' = v
  | v, op :: ops, r :: rs, v' => ∃ v1, Desc v op r v1 ∧ RunDesc v1 ops rs v'
  | _, _, _, _ => False

theorem run_gen (ops : List Op) : ∀ (w : World) (v : Option Bytes), WInv w v → (∀ op ∈ ops, op.WF) →
    ∃ w' rs v', run w ops = .ok (w', rs) ∧ WInv w' v' ∧ RunDesc v ops rs v' := by
  induction ops with
  | nil => intro w v hw _; exact ⟨w, [], v, rfl, hw, rfl⟩
  | cons op ops ih =>
    intro w v hw hwf
    obtain ⟨w1, r, v1, h1, hw1, hd⟩ := step_gen w v op hw (hwf op (by simp))
    obtain ⟨w2, rs, v2, h2, hw2, hds⟩ := ih w1 v1 hw1 (fun o ho => hwf o (by simp [ho]))
    refine ⟨w2, r :: rs, v2, ?_, hw2, v1, hd, hds⟩
    unfold run
    rw [h1]; ostep
    rw [h2]; ostep
    rfl

theorem WInv.empty : WInv {} none := ⟨MemInv.empty, fun id b h => by simp at h⟩

/-! ### facts used by the property statements -/
theorem set_guard_le_one : strSetGuardSlack ≤ 1 := by decide

/-- every value a node holds is short enough for `json_object_get_string_len` (both constructors of
values refuse `len >= INT_MAX - 1`) -/
theorem WInv.small {w : World} {s : Bytes} (h : WInv w (some s)) :
    (s.length : Int) < INT_MAX - strSetGuardSlack := by
  obtain ⟨_, h2⟩ := h
  cases hn : w.node with
  | none => rw [hn] at h2; exact h2.elim
  | some n =>
    rw [hn] at h2
    obtain ⟨⟨_, _, _, _, hss, _⟩, _⟩ := h2
    exact hss.2

end JsonC.StrStore
