/-
  Helper lemmas for C11 (never property statements).
-/
import JsonC.Model.StrStore
import JsonC.Spec.ByteStr

namespace JsonC.StrStore
open JsonC Generated
open JsonC.ByteStr (Ev)

/-! ### facts about the regenerated constants (re-checked on every run) -/
theorem c_union_le : sizeofStringUnion ≤ sizeofJsonObjectString := by decide
theorem c_off_le_hdr : offsetofStringData ≤ sizeofJsonObjectString - sizeofStringUnion := by decide
theorem c_hdr_small : sizeofJsonObjectString + sizeofPtr + strNewNulRoom + strNewGuardSlack ≤ intMax := by decide
theorem c_int_le_ssize : intMax ≤ ssizeMax := by decide
theorem c_ssize_le_size : ssizeMax ≤ sizeMax := by decide
theorem c_new_nul : 1 ≤ strNewNulRoom ∧ strNewNulRoom ≤ strNewGuardSlack := by decide
theorem c_grow_nul : 1 ≤ strGrowNulRoom ∧ strGrowNulRoom + intMax ≤ sizeMax := by decide
theorem c_ptr_pos : 1 ≤ sizeofPtr := by decide

/-- sizeof(*jso) - sizeof(jso->c_string) -/
def hdr : Nat := sizeofJsonObjectString - sizeofStringUnion

/-! ### list plumbing -/
theorem writeAt_length (cells : List (Option UInt8)) (o : Nat) (cs : List (Option UInt8))
    (h : o + cs.length ≤ cells.length) : (writeAt cells o cs).length = cells.length := by
  simp [writeAt]; omega

/-- the written range reads back -/
theorem writeAt_slice (cells : List (Option UInt8)) (o : Nat) (cs : List (Option UInt8))
    (h : o + cs.length ≤ cells.length) : ((writeAt cells o cs).drop o).take cs.length = cs := by
  unfold writeAt
  rw [List.append_assoc, List.drop_append_of_le_length (by simp; omega)]
  have : (List.take o cells).length = o := by simp; omega
  rw [List.drop_of_length_le (by omega), List.nil_append, List.take_left']
  rfl

/-- a range before the written one is untouched -/
theorem writeAt_slice_before (cells : List (Option UInt8)) (o : Nat) (cs : List (Option UInt8)) (o' k : Nat)
    (h : o + cs.length ≤ cells.length) (hk : o' + k ≤ o) :
    ((writeAt cells o cs).drop o').take k = (cells.drop o').take k := by
  apply List.ext_getElem?
  intro i
  simp only [List.getElem?_take, List.getElem?_drop]
  by_cases hi : i < k
  · simp only [hi, if_true]
    unfold writeAt
    rw [List.append_assoc, List.getElem?_append_left (by simp; omega)]
    rw [List.getElem?_take]; simp; omega
  · simp [hi]

/-- two adjacent writes are one write -/
theorem writeAt_writeAt (cells : List (Option UInt8)) (o : Nat) (xs ys : List (Option UInt8))
    (h : o + xs.length + ys.length ≤ cells.length) :
    writeAt (writeAt cells o xs) (o + xs.length) ys = writeAt cells o (xs ++ ys) := by
  unfold writeAt
  have h1 : (List.take o cells).length = o := by simp; omega
  rw [List.take_append_of_le_length (by simp; omega)]
  rw [List.take_append_of_le_length (by simp; omega)]
  rw [List.take_of_length_le (by simp; omega)]
  rw [List.drop_append_of_le_length (by simp; omega)]
  rw [List.drop_of_length_le (by simp; omega), List.nil_append]
  simp only [List.length_append, List.append_assoc, List.drop_drop]
  congr 3
  rw [List.drop_of_length_le (by simp; omega), List.nil_append]
  congr 1; simp; omega

theorem allSome_map_some (bs : Bytes) : allSome (bs.map some) = some bs := by
  induction bs with
  | nil => rfl
  | cons b bs ih => simp [allSome, ih]

theorem scanNul_holds (s : Bytes) (rest : List (Option UInt8)) :
    scanNul ((s ++ [0]).map some ++ rest) = some (ByteStr.cPrefix s).length := by
  induction s with
  | nil => simp [scanNul, ByteStr.cPrefix]
  | cons b s ih =>
    by_cases hb : b = 0
    · subst hb; simp [scanNul, ByteStr.cPrefix]
    · have : (b != 0) = true := by simp [hb]
      simp only [List.cons_append, List.map_cons, scanNul, hb, if_false, ByteStr.cPrefix,
        List.takeWhile_cons, this, if_true, List.length_cons]
      simp only [List.map_append, List.map_cons, List.map_nil] at ih
      simp only [List.map_append, List.map_cons, List.map_nil, ByteStr.cPrefix] at ih ⊢
      rw [ih]; rfl

theorem cstrlen_terminated (s : Bytes) (rest : Bytes) :
    cstrlen (s ++ 0 :: rest) = some (ByteStr.cPrefix s).length := by
  induction s with
  | nil => simp [cstrlen, ByteStr.cPrefix]
  | cons b s ih =>
    by_cases hb : b = 0
    · subst hb; simp [cstrlen, ByteStr.cPrefix]
    · have : (b != 0) = true := by simp [hb]
      simp only [List.cons_append, cstrlen, hb, if_false, ByteStr.cPrefix, List.takeWhile_cons, this,
        if_true, List.length_cons]
      simp only [ByteStr.cPrefix] at ih
      rw [ih]; rfl

theorem cPrefix_take (s rest : Bytes) :
    (s ++ 0 :: rest).take (ByteStr.cPrefix s).length = ByteStr.cPrefix s := by
  induction s with
  | nil => simp [ByteStr.cPrefix]
  | cons b s ih =>
    by_cases hb : b = 0
    · subst hb; simp [ByteStr.cPrefix]
    · have : (b != 0) = true := by simp [hb]
      simp only [ByteStr.cPrefix, List.takeWhile_cons, this, if_true, List.length_cons, List.cons_append,
        List.take_succ_cons]
      simp only [ByteStr.cPrefix] at ih
      rw [ih]

theorem cPrefix_length_le (s : Bytes) : (ByteStr.cPrefix s).length ≤ s.length := by
  unfold ByteStr.cPrefix
  exact List.length_takeWhile_le _ _

end JsonC.StrStore
