/-
  Helper lemmas for C13, part 6: the loop of json_patch_apply against sequential RFC 6902
  application, and malformed patch elements.
-/
import JsonC.Lemmas.PatchStep

namespace JsonC.Patch
open JsonC

/-- every document RFC 6902 evaluation passes through (before each operation) has only arrays of
fewer than 2^32 elements -/
def SmallRun : JVal → List Rfc6902.Op → Prop
  | _, [] => True
  | doc, op :: ops => small doc = true ∧ ∀ d, Rfc6902.applyOp doc op = .ok d → SmallRun d ops

theorem applyLoop_tags_prefix (ser : JVal → Bytes) (eq : JVal → JVal → Bool) (patch : JVal) (elems : List JVal) :
    ∀ (i : Nat) (last : Option Nat) (doc : JVal) (tags : List String) (r : ApplyRes),
      applyLoop ser eq patch i last doc tags elems = .ok r → ∃ t, r.tags = tags ++ t := by
  induction elems with
  | nil =>
    intro i last doc tags r h
    simp only [applyLoop, Outcome.ok.injEq] at h
    subst h; exact ⟨[], by simp⟩
  | cons e es ih =>
    intro i last doc tags r h
    obtain ⟨o, ho⟩ := step_total ser eq doc e
    simp only [applyLoop, ho] at h
    split at h
    · simp only [Outcome.ok.injEq] at h; subst h; exact ⟨o.tags, rfl⟩
    · obtain ⟨t, ht⟩ := ih _ _ _ _ r h
      exact ⟨o.tags ++ t, by rw [ht, List.append_assoc]⟩

theorem decodeAll_cons (e : JVal) (es : List JVal) (ops : List Rfc6902.Op) (h : Rfc6902.decodeAll (e :: es) = some ops) :
    ∃ o os, ops = o :: os ∧ Rfc6902.decodeOp e = some o ∧ Rfc6902.decodeAll es = some os := by
  simp only [Rfc6902.decodeAll] at h
  split at h
  · rename_i o os ho hos; simp at h; exact ⟨o, os, h.symm, ho, hos⟩
  · simp at h

theorem applyLoop_refines (ser : JVal → Bytes) (eq : JVal → JVal → Bool) (patch : JVal) (elems : List JVal) :
    ∀ (ops : List Rfc6902.Op) (i : Nat) (last : Option Nat) (doc : JVal) (tags : List String) (r : ApplyRes),
      Rfc6902.decodeAll elems = some ops → SmallRun doc ops →
      applyLoop ser eq patch i last doc tags elems = .ok r → r.tags = [] →
      match Rfc6902.applyFrom i doc ops with
      | .ok d => r.rc = 0 ∧ r.doc = d
      | .error (j, _) => r.rc = -1 ∧ r.idx = some j := by
  induction elems with
  | nil =>
    intro ops i last doc tags r hd _ h _
    simp only [Rfc6902.decodeAll, Option.some.injEq] at hd
    subst hd
    simp only [applyLoop, Outcome.ok.injEq] at h
    subst h
    simp [Rfc6902.applyFrom]
  | cons e es ih =>
    intro ops i last doc tags r hd hsm h ht
    obtain ⟨op, ops', rfl, hde, hdes⟩ := decodeAll_cons e es ops hd
    obtain ⟨hsd, hnext⟩ := hsm
    obtain ⟨o, ho, hag⟩ := step_refines ser eq doc e op hde hsd
    simp only [applyLoop, ho] at h
    simp only [Rfc6902.applyFrom]
    split at h
    · rename_i hneg
      simp only [Outcome.ok.injEq] at h
      subst h
      simp only [List.append_eq_nil_iff] at ht
      have hag' := hag ht.2
      unfold OpAgrees at hag'
      cases hap : Rfc6902.applyOp doc op with
      | ok d => rw [hap] at hag'; simp only at hag'; omega
      | error err => rw [hap] at hag'; simp only at hag' ⊢; exact ⟨hag', trivial⟩
    · rename_i hnn
      obtain ⟨t, hpre⟩ := applyLoop_tags_prefix ser eq patch es _ _ _ _ r h
      rw [ht] at hpre
      have hpre' := hpre.symm
      simp only [List.append_eq_nil_iff] at hpre'
      have hag' := hag hpre'.1.2
      unfold OpAgrees at hag'
      cases hap : Rfc6902.applyOp doc op with
      | error err => rw [hap] at hag'; simp only at hag'; omega
      | ok d =>
        rw [hap] at hag'
        simp only at hag' ⊢
        obtain ⟨_, hdoc⟩ := hag'
        rw [hdoc] at h
        exact ih ops' (i + 1) (some i) d _ r hdes (hnext d hap) h ht

/-! ### malformed patch elements -/

/-- a non-empty text without the leading '/' (the string form of every non-string JSON value is
of this kind: it starts with a digit, '-', '[', '{', 't', 'f', 'N' or 'I') -/
def NotPointer (s : Bytes) : Prop := ∃ c r, s = c :: r ∧ c ≠ 0x2f

/-- a `path` the pointer functions refuse without looking at the document -/
def BadPath (path : Option Bytes) : Prop := path = none ∨ ∃ s, path = some s ∧ NotPointer s

theorem getInternal_bad (doc : JVal) (path : Option Bytes) (h : BadPath path) : ∃ e, getInternal doc path = .err e := by
  rcases h with rfl | ⟨s, rfl, c, r, rfl, hc⟩
  · exact ⟨_, rfl⟩
  · unfold getInternal
    simp only
    split
    · exact ⟨_, rfl⟩
    · simp [rawTokens, hc]

theorem setWithCb_bad (doc : JVal) (path : Option Bytes) (v : JVal) (mode : SetMode) (h : BadPath path) :
    ∃ e, setWithCb doc path v mode = .err e := by
  rcases h with rfl | ⟨s, rfl, c, r, rfl, hc⟩
  · exact ⟨_, rfl⟩
  · simp [setWithCb, rawTokens, hc]

theorem opTest_bad (eq : JVal → JVal → Bool) (doc elem : JVal) (path : Option Bytes) (h : BadPath path) :
    ∃ o, opTest eq doc elem path = .ok o ∧ o.rc = -1 := by
  obtain ⟨e, he⟩ := getInternal_bad doc path h
  simp only [opTest, he]
  split <;> exact ⟨_, rfl, rfl⟩

theorem opRemove_bad (doc : JVal) (path : Option Bytes) (h : BadPath path) :
    ∃ o, opRemove doc path = .ok o ∧ o.rc = -1 := by
  obtain ⟨e, he⟩ := getInternal_bad doc path h
  simp only [opRemove, he]
  exact ⟨_, rfl, rfl⟩

theorem opAddReplace_bad (doc elem : JVal) (path : Option Bytes) (add : Bool) (h : BadPath path) :
    ∃ o, opAddReplace doc elem path add = .ok o ∧ o.rc = -1 := by
  obtain ⟨e, he⟩ := getInternal_bad doc path h
  cases hv : objGet elem kValue with
  | none => simp only [opAddReplace, hv]; exact ⟨_, rfl, rfl⟩
  | some value =>
    cases add with
    | true =>
      obtain ⟨e2, he2⟩ := setWithCb_bad doc path value .insert h
      simp only [opAddReplace, hv, if_true, he2]; exact ⟨_, rfl, rfl⟩
    | false => simp only [opAddReplace, hv, Bool.false_eq_true, if_false, he, R.map']; exact ⟨_, rfl, rfl⟩

theorem opAddReplace_novalue (doc elem : JVal) (path : Option Bytes) (add : Bool) (h : objGet elem kValue = none) :
    ∃ o, opAddReplace doc elem path add = .ok o ∧ o.rc = -1 := by
  simp only [opAddReplace, h]; exact ⟨_, rfl, rfl⟩

theorem opTest_novalue (eq : JVal → JVal → Bool) (doc elem : JVal) (path : Option Bytes) (h : objGet elem kValue = none) :
    ∃ o, opTest eq doc elem path = .ok o ∧ o.rc = -1 := by
  simp only [opTest, h]; exact ⟨_, rfl, rfl⟩

/-- move / copy with a bad `path`, or a `from` that is missing, null or not a pointer -/
theorem opMoveCopy_bad (ser : JVal → Bytes) (doc elem : JVal) (path : Option Bytes) (move : Bool)
    (h : BadPath path ∨ objGet elem kFrom = none ∨
      (∃ jf, objGet elem kFrom = some jf ∧ BadPath (getString ser jf))) :
    ∃ o, opMoveCopy ser doc elem path move = .ok o ∧ o.rc = -1 := by
  simp only [opMoveCopy]
  cases hf : objGet elem kFrom with
  | none => exact ⟨_, rfl, rfl⟩
  | some jfrom =>
    simp only
    cases hgs : getString ser jfrom with
    | none => exact ⟨_, rfl, rfl⟩
    | some fromS =>
      simp only
      cases path with
      | none => exact ⟨_, rfl, rfl⟩
      | some p =>
        simp only
        -- either `p` or `fromS` is refused by the pointer functions
        have hbad : NotPointer p ∨ NotPointer fromS := by
          rcases h with hb | hn | ⟨jf, hjf, hb⟩
          · rcases hb with hb | ⟨s, hs, hnp⟩
            · simp at hb
            · simp only [Option.some.injEq] at hs; subst hs; exact Or.inl hnp
          · rw [hf] at hn; simp at hn
          · rw [hf] at hjf; simp only [Option.some.injEq] at hjf; subst hjf
            rw [hgs] at hb
            rcases hb with hb | ⟨s, hs, hnp⟩
            · simp at hb
            · simp only [Option.some.injEq] at hs; subst hs; exact Or.inr hnp
        split
        · -- same location
          rename_i hc
          simp only [Bool.and_eq_true, beq_iff_eq] at hc
          have hsame : fromS = p := isPrefixOf_eq_of_length fromS p (fromIsPrefix_isPrefixOf fromS p hc.1.1) hc.2
          have hb : BadPath (some fromS) := by
            rcases hbad with hb | hb
            · exact Or.inr ⟨fromS, rfl, hsame ▸ hb⟩
            · exact Or.inr ⟨fromS, rfl, hb⟩
          obtain ⟨e, he⟩ := getInternal_bad doc (some fromS) hb
          simp only [he]; exact ⟨_, rfl, rfl⟩
        · split
          · exact ⟨_, rfl, rfl⟩
          · cases hg : getInternal doc (some fromS) with
            | fault w => exact absurd hg (getInternal_nofault _ _ w)
            | err e => exact ⟨_, rfl, rfl⟩
            | ok g =>
              have hp : BadPath (some p) := by
                rcases hbad with hb | hb
                · exact Or.inr ⟨p, rfl, hb⟩
                · obtain ⟨e, he⟩ := getInternal_bad doc (some fromS) (Or.inr ⟨fromS, rfl, hb⟩)
                  rw [he] at hg; simp at hg
              simp only
              split
              · obtain ⟨e, he⟩ := setWithCb_bad doc (some p) g.obj .insert hp
                simp only [he]; exact ⟨_, rfl, rfl⟩
              · cases hr : removeAt doc g with
                | fault w => exact absurd hr (removeAt_nofault doc _ g hg w)
                | err e => exact ⟨_, rfl, rfl⟩
                | ok dd =>
                  obtain ⟨d1, obj⟩ := dd
                  obtain ⟨e, he⟩ := setWithCb_bad d1 (some p) obj .move hp
                  simp only [he]; exact ⟨_, rfl, rfl⟩

theorem dispatch_bad (ser : JVal → Bytes) (eq : JVal → JVal → Bool) (doc elem : JVal) (op : Bytes) (path : Option Bytes)
    (h : BadPath path) : ∃ o, dispatch ser eq doc elem op path = .ok o ∧ o.rc = -1 := by
  simp only [dispatch]
  split
  · exact opTest_bad eq doc elem path h
  · split
    · exact opRemove_bad doc path h
    · split
      · exact opAddReplace_bad doc elem path true h
      · split
        · exact opAddReplace_bad doc elem path false h
        · split
          · exact opMoveCopy_bad ser doc elem path true (Or.inl h)
          · split
            · exact opMoveCopy_bad ser doc elem path false (Or.inl h)
            · exact ⟨_, rfl, rfl⟩

def opNames : List Bytes := [sTest, sRemove, sAdd, sReplace, sMove, sCopy]

theorem dispatch_unknown (ser : JVal → Bytes) (eq : JVal → JVal → Bool) (doc elem : JVal) (op : Bytes) (path : Option Bytes)
    (h : op ∉ opNames) : ∃ o, dispatch ser eq doc elem op path = .ok o ∧ o.rc = -1 := by
  simp only [opNames, List.mem_cons, List.not_mem_nil, or_false, not_or] at h
  obtain ⟨h1, h2, h3, h4, h5, h6⟩ := h
  simp only [dispatch, if_neg h1, if_neg h2, if_neg h3, if_neg h4, if_neg h5, if_neg h6]
  exact ⟨_, rfl, rfl⟩

/-- Elements that are not RFC 6902 operation objects, by cause.  `ser` is the string form
json_object_get_string gives a non-string value; for an ill-typed `op` the clause `opUnknown`
applies (no serialization is one of the six names) and for an ill-typed `path` / `from` the
clauses `pathNotPointer` / `fromNotPointer` (no serialization is empty or starts with '/'). -/
inductive Malformed (ser : JVal → Bytes) : JVal → Prop where
  | notObject (e : JVal) : (∀ kvs, e ≠ .obj kvs) → Malformed ser e
  | opMissing (kvs : List (Bytes × JVal)) : objLookup kOp kvs = none → Malformed ser (.obj kvs)
  | opNull (kvs : List (Bytes × JVal)) : objLookup kOp kvs = some .null → Malformed ser (.obj kvs)
  | opUnknown (kvs : List (Bytes × JVal)) (j : JVal) (s : Bytes) : objLookup kOp kvs = some j →
      getString ser j = some s → s ∉ opNames → Malformed ser (.obj kvs)
  | pathMissing (kvs : List (Bytes × JVal)) : objLookup kPath kvs = none → Malformed ser (.obj kvs)
  | pathNull (kvs : List (Bytes × JVal)) : objLookup kPath kvs = some .null → Malformed ser (.obj kvs)
  | pathNotPointer (kvs : List (Bytes × JVal)) (j : JVal) (s : Bytes) : objLookup kPath kvs = some j →
      getString ser j = some s → NotPointer s → Malformed ser (.obj kvs)
  | valueMissing (kvs : List (Bytes × JVal)) (j : JVal) (s : Bytes) : objLookup kOp kvs = some j →
      getString ser j = some s → (s = sAdd ∨ s = sReplace ∨ s = sTest) → objLookup kValue kvs = none →
      Malformed ser (.obj kvs)
  | fromMissing (kvs : List (Bytes × JVal)) (j : JVal) (s : Bytes) : objLookup kOp kvs = some j →
      getString ser j = some s → (s = sMove ∨ s = sCopy) → objLookup kFrom kvs = none → Malformed ser (.obj kvs)
  | fromNull (kvs : List (Bytes × JVal)) (j : JVal) (s : Bytes) : objLookup kOp kvs = some j →
      getString ser j = some s → (s = sMove ∨ s = sCopy) → objLookup kFrom kvs = some .null → Malformed ser (.obj kvs)
  | fromNotPointer (kvs : List (Bytes × JVal)) (j jf : JVal) (s f : Bytes) : objLookup kOp kvs = some j →
      getString ser j = some s → (s = sMove ∨ s = sCopy) → objLookup kFrom kvs = some jf →
      getString ser jf = some f → NotPointer f → Malformed ser (.obj kvs)

theorem step_early (ser : JVal → Bytes) (eq : JVal → JVal → Bool) (doc : JVal) (kvs : List (Bytes × JVal))
    (h : objLookup kOp kvs = none ∨ (∃ j, objLookup kOp kvs = some j ∧ getString ser j = none) ∨
      objLookup kPath kvs = none) :
    ∃ o, step ser eq doc (.obj kvs) = .ok o ∧ o.rc = -1 := by
  simp only [step, objGet]
  cases hop : objLookup kOp kvs with
  | none => exact ⟨_, rfl, rfl⟩
  | some j =>
    simp only
    cases hgs : getString ser j with
    | none => exact ⟨_, rfl, rfl⟩
    | some s =>
      simp only
      cases hp : objLookup kPath kvs with
      | none => exact ⟨_, rfl, rfl⟩
      | some jp =>
        rcases h with h | ⟨j', hj', hn⟩ | h
        · rw [hop] at h; simp at h
        · rw [hop] at hj'; simp only [Option.some.injEq] at hj'; subst hj'; rw [hgs] at hn; simp at hn
        · rw [hp] at h; simp at h

theorem step_malformed (ser : JVal → Bytes) (eq : JVal → JVal → Bool) (doc elem : JVal) (h : Malformed ser elem) :
    ∃ o, step ser eq doc elem = .ok o ∧ o.rc = -1 := by
  -- whenever the three fields can be fetched, `step` has the return code of `dispatch`
  have viaDispatch : ∀ (kvs : List (Bytes × JVal)) (j jp : JVal) (s : Bytes), objLookup kOp kvs = some j →
      getString ser j = some s → objLookup kPath kvs = some jp →
      (∃ o', dispatch ser eq doc (.obj kvs) s (getString ser jp) = .ok o' ∧ o'.rc = -1) →
      ∃ o, step ser eq doc (.obj kvs) = .ok o ∧ o.rc = -1 := by
    intro kvs j jp s hop hgs hp ⟨o', hd, hrc⟩
    obtain ⟨o, ho⟩ := step_total ser eq doc (.obj kvs)
    obtain ⟨o2, hd2, hrc2, _⟩ := step_obj ser eq doc kvs j jp s hop hgs hp o ho
    rw [hd] at hd2; simp only [Outcome.ok.injEq] at hd2; subst hd2
    exact ⟨o, ho, by rw [hrc2, hrc]⟩
  -- fetch the path member, or fail early
  have withPath : ∀ (kvs : List (Bytes × JVal)) (j : JVal) (s : Bytes), objLookup kOp kvs = some j →
      getString ser j = some s →
      (∀ jp, ∃ o', dispatch ser eq doc (.obj kvs) s (getString ser jp) = .ok o' ∧ o'.rc = -1) →
      ∃ o, step ser eq doc (.obj kvs) = .ok o ∧ o.rc = -1 := by
    intro kvs j s hop hgs hall
    cases hp : objLookup kPath kvs with
    | none => exact step_early ser eq doc kvs (Or.inr (Or.inr hp))
    | some jp => exact viaDispatch kvs j jp s hop hgs hp (hall jp)
  cases h with
  | notObject _ hne =>
    have hget : ∀ (e : JVal), (∀ kvs, e ≠ .obj kvs) → objGet e kOp = none := by
      intro e he
      cases e with
      | obj kvs => exact absurd rfl (he kvs)
      | null => rfl
      | bool b => rfl
      | int s n => rfl
      | dbl b t => rfl
      | str s => rfl
      | arr xs => rfl
    simp only [step, hget elem hne]; exact ⟨_, rfl, rfl⟩
  | opMissing kvs h1 => exact step_early ser eq doc kvs (Or.inl h1)
  | opNull kvs h1 => exact step_early ser eq doc kvs (Or.inr (Or.inl ⟨.null, h1, rfl⟩))
  | opUnknown kvs j s h1 h2 h3 => exact withPath kvs j s h1 h2 (fun jp => dispatch_unknown ser eq doc _ s _ h3)
  | pathMissing kvs h1 => exact step_early ser eq doc kvs (Or.inr (Or.inr h1))
  | pathNull kvs h1 =>
    cases hop : objLookup kOp kvs with
    | none => exact step_early ser eq doc kvs (Or.inl hop)
    | some j =>
      cases hgs : getString ser j with
      | none => exact step_early ser eq doc kvs (Or.inr (Or.inl ⟨j, hop, hgs⟩))
      | some s => exact viaDispatch kvs j .null s hop hgs h1 (dispatch_bad ser eq doc _ s _ (Or.inl rfl))
  | pathNotPointer kvs jp sp h1 h2 h3 =>
    cases hop : objLookup kOp kvs with
    | none => exact step_early ser eq doc kvs (Or.inl hop)
    | some j =>
      cases hgs : getString ser j with
      | none => exact step_early ser eq doc kvs (Or.inr (Or.inl ⟨j, hop, hgs⟩))
      | some s => exact viaDispatch kvs j jp s hop hgs h1 (dispatch_bad ser eq doc _ s _ (Or.inr ⟨sp, h2, h3⟩))
  | valueMissing kvs j s h1 h2 h3 h4 =>
    apply withPath kvs j s h1 h2
    intro jp
    have hv : objGet (.obj kvs) kValue = none := h4
    rcases h3 with rfl | rfl | rfl
    · exact opAddReplace_novalue doc _ _ true hv
    · exact opAddReplace_novalue doc _ _ false hv
    · exact opTest_novalue eq doc _ _ hv
  | fromMissing kvs j s h1 h2 h3 h4 =>
    apply withPath kvs j s h1 h2
    intro jp
    have hv : objGet (.obj kvs) kFrom = none := h4
    rcases h3 with rfl | rfl
    · exact opMoveCopy_bad ser doc _ _ true (Or.inr (Or.inl hv))
    · exact opMoveCopy_bad ser doc _ _ false (Or.inr (Or.inl hv))
  | fromNull kvs j s h1 h2 h3 h4 =>
    apply withPath kvs j s h1 h2
    intro jp
    have hv : objGet (.obj kvs) kFrom = some .null := h4
    rcases h3 with rfl | rfl
    · exact opMoveCopy_bad ser doc _ _ true (Or.inr (Or.inr ⟨.null, hv, Or.inl rfl⟩))
    · exact opMoveCopy_bad ser doc _ _ false (Or.inr (Or.inr ⟨.null, hv, Or.inl rfl⟩))
  | fromNotPointer kvs j jf s f h1 h2 h3 h4 h5 h6 =>
    apply withPath kvs j s h1 h2
    intro jp
    have hv : objGet (.obj kvs) kFrom = some jf := h4
    rcases h3 with rfl | rfl
    · exact opMoveCopy_bad ser doc _ _ true (Or.inr (Or.inr ⟨jf, hv, Or.inr ⟨f, h5, h6⟩⟩))
    · exact opMoveCopy_bad ser doc _ _ false (Or.inr (Or.inr ⟨jf, hv, Or.inr ⟨f, h5, h6⟩⟩))

/-- the loop stops at or before a malformed element -/
theorem applyLoop_malformed (ser : JVal → Bytes) (eq : JVal → JVal → Bool) (patch : JVal) (pre : List JVal) :
    ∀ (bad : JVal) (post : List JVal) (i : Nat) (last : Option Nat) (doc : JVal) (tags : List String),
      Malformed ser bad →
      ∃ r, applyLoop ser eq patch i last doc tags (pre ++ bad :: post) = .ok r ∧ r.rc < 0 ∧
        ∃ j, r.idx = some j ∧ i ≤ j ∧ j ≤ i + pre.length := by
  induction pre with
  | nil =>
    intro bad post i last doc tags hb
    obtain ⟨o, ho, hrc⟩ := step_malformed ser eq doc bad hb
    have hneg : o.rc < 0 := by rw [hrc]; decide
    simp only [List.nil_append, applyLoop, ho, if_pos hneg]
    exact ⟨_, rfl, hneg, i, rfl, Nat.le_refl _, by simp⟩
  | cons e es ih =>
    intro bad post i last doc tags hb
    obtain ⟨o, ho⟩ := step_total ser eq doc e
    simp only [List.cons_append, applyLoop, ho]
    split
    · rename_i hneg
      exact ⟨_, rfl, hneg, i, rfl, Nat.le_refl _, by simp⟩
    · obtain ⟨r, hr, hrc, j, hj, h1, h2⟩ := ih bad post (i + 1) (some i) o.doc (tags ++ o.tags) hb
      exact ⟨r, hr, hrc, j, hj, by omega, by simp only [List.length_cons]; omega⟩

theorem applyLoop_patch (ser : JVal → Bytes) (eq : JVal → JVal → Bool) (patch : JVal) (elems : List JVal) :
    ∀ (i : Nat) (last : Option Nat) (doc : JVal) (tags : List String) (r : ApplyRes),
      applyLoop ser eq patch i last doc tags elems = .ok r → r.patch = patch := by
  induction elems with
  | nil => intro i last doc tags r h; simp only [applyLoop, Outcome.ok.injEq] at h; subst h; rfl
  | cons e es ih =>
    intro i last doc tags r h
    obtain ⟨o, ho⟩ := step_total ser eq doc e
    simp only [applyLoop, ho] at h
    split at h
    · simp only [Outcome.ok.injEq] at h; subst h; rfl
    · exact ih _ _ _ _ r h

theorem isNull_null : isNull JVal.null = true := rfl

/-- the `*base` calling convention on a real document -/
theorem applyC_base (ser : JVal → Bytes) (eq : JVal → JVal → Bool) (doc : JVal) (elems : List JVal)
    (hdoc : isNull doc = false) :
    applyC ser eq .null doc (.arr elems) = applyLoop ser eq (.arr elems) 0 none doc [] elems := by
  simp [applyC, hdoc, isNull_null]

/-- the `copy_from` calling convention on a real document -/
theorem applyC_copy (ser : JVal → Bytes) (eq : JVal → JVal → Bool) (doc : JVal) (elems : List JVal)
    (hdoc : isNull doc = false) :
    applyC ser eq doc .null (.arr elems) = applyLoop ser eq (.arr elems) 0 none doc [] elems := by
  simp [applyC, hdoc, isNull_null]

theorem smallRun_cons (doc : JVal) (op : Rfc6902.Op) (ops : List Rfc6902.Op) (d0 : JVal)
    (hs : small doc = true) (h0 : Rfc6902.applyOp doc op = .ok d0) (hrest : SmallRun d0 ops) :
    SmallRun doc (op :: ops) :=
  ⟨hs, fun d h => by rw [h0] at h; cases h; exact hrest⟩

theorem smallRun_cons_err (doc : JVal) (op : Rfc6902.Op) (ops : List Rfc6902.Op) (e : Rfc6902.Err)
    (hs : small doc = true) (h0 : Rfc6902.applyOp doc op = .error e) : SmallRun doc (op :: ops) :=
  ⟨hs, fun d h => by rw [h0] at h; cases h⟩

end JsonC.Patch
