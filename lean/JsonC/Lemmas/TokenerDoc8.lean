/-
  Towards `parse_valid` (C01), part 8: pushing a child level; the element loop of an array.
-/
import JsonC.Lemmas.TokenerDoc7
namespace JsonC.Tokener
open JsonC Rfc8259

/-- the induction goal: a level waiting for a value, fed the text of `d`, ends holding `d.denote` -/
def DocGoal (lc : Libc) (d : Doc) : Prop :=
  ∀ (t : Tok) (l : Loc) (cur : JVal) (rest : List Level), WF t → t.stack = ⟨.eatws, .start, cur, none⟩ :: rest →
    NoVal t → t.hs = 0 → l.num = none → d.ok = true → (t.strict = true → d.intsFit = true) → d.keysNulFree = true →
    rest.length + 1 + d.nest ≤ t.maxDepth → Parsed lc t l d.text d.denote none rest

theorem lastOr_snoc (c : UInt8) (w : Bytes) (b : UInt8) : lastOr c (w ++ [b]) = b := by
  simp [lastOr]

/-- the first byte after an element or member value, up to and including the separator -/
theorem follow_head (w : Ws) (s : UInt8) (hs : s = 44 ∨ s = 93 ∨ s = 125) (X : Bytes) :
    ∃ nb rs, w.text ++ s :: X = nb :: rs ∧ Follow nb ∧ nb ≠ 0 := by
  cases hw : w.text with
  | nil => refine ⟨s, X, by simp, ?_, ?_⟩ <;> rcases hs with h | h | h <;> subst h <;> simp [Follow]
  | cons b bs =>
    have := ws_bytes_ws w b (by simp [hw])
    exact ⟨b, bs ++ s :: X, by simp, Or.inl this.1, this.2⟩

/-- a value's first byte, arriving at a level that expects an element or a member value, opens a child level -/
theorem push_child (lc : Libc) (t : Tok) (l : Loc) (hwf : WF t) (hv : NoVal t) (sv pst : St)
    (hsv : (sv = .array ∧ pst = .arrayAdd) ∨ (sv = .arrayAfterSep ∧ pst = .arrayAdd) ∨ (sv = .objectValue ∧ pst = .objectValueAdd))
    (cur : JVal) (nm : Option Bytes) (rest : List Level) (hs : t.stack = ⟨.eatws, sv, cur, nm⟩ :: rest)
    (b : UInt8) (hb : ValueStart b) (hd : rest.length + 2 ≤ t.maxDepth) :
    WF { t with stack := freshLevel :: ⟨pst, sv, cur, nm⟩ :: rest } ∧
    ∀ (c : UInt8) (off : Nat) (rs : Bytes),
      run lc t l c off (b :: rs) = run lc { t with stack := freshLevel :: ⟨pst, sv, cur, nm⟩ :: rest } l c off (b :: rs) := by
  obtain ⟨hws, h93, _, h47, _, _⟩ := hb
  have e47 : (b == 47) = false := by simpa using h47
  have e93 : (b == 93) = false := by simpa using h93
  let t1 : Tok := { t with stack := ⟨sv, sv, cur, nm⟩ :: rest }
  let tp : Tok := { t with stack := freshLevel :: ⟨pst, sv, cur, nm⟩ :: rest }
  have d1 : disp lc t l b = .redo t1 l := by
    simp [disp, hs, dEatws, hws, e47, setTop, t1]
  have hd1 : ¬ ((rest.length : Int) ≥ (t.maxDepth : Int) - 1) := by omega
  have hd2 : ¬ (rest.length + 1 ≥ t.maxDepth) := by omega
  have d2 : disp lc t1 l b = .redo tp l := by
    rcases hsv with ⟨h1, h2⟩ | ⟨h1, h2⟩ | ⟨h1, h2⟩ <;> subst h1 <;> subst h2 <;>
      simp [disp, t1, tp, dArray, e93, pushLevel, hd1, hd2]
  have ok1 := disp_ok lc t l b hwf
  rw [d1] at ok1
  have ok2 := disp_ok lc t1 l b ok1.1
  rw [d2] at ok2
  refine ⟨ok2.1, ?_⟩
  intro c off rs
  rw [run_redo lc t l b t1 l hwf hv.validate hv.validate d1, run_redo lc t1 l b tp l ok1.1 hv.validate hv.validate d2]

theorem topOk_container (sv : St) (cur : JVal)
    (h : (sv = .arrayAfterSep ∧ ∃ xs, cur = .arr xs) ∨ (sv = .objectFieldStartAfterSep ∧ ∃ kvs, cur = .obj kvs)) :
    (⟨.eatws, sv, cur, none⟩ : Level).topOk = true := by
  rcases h with ⟨h, xs, hc⟩ | ⟨h, xs, hc⟩ <;> subst h <;> subst hc <;> simp [Level.topOk, isArrV, isObjV] <;> decide

end JsonC.Tokener

namespace JsonC.Tokener
open JsonC Rfc8259

theorem Frm.strict {t t' : Tok} (f : Frm t t') : t'.strict = t.strict := by
  simp [Tok.strict, f.fl]

theorem Frm.refl' (t : Tok) (h : t.hs = 0) : Frm t t := ⟨rfl, rfl, h⟩

/-- white space, a value, white space: the value ends up completed on a child level above the waiting parent -/
theorem child_value (lc : Libc) (d : Doc) (ihd : DocGoal lc d) (w1 w2 : Ws) (t : Tok) (l : Loc) (hwf : WF t) (hv : NoVal t)
    (hhs : t.hs = 0) (hl0 : l.num = none) (sv pst : St)
    (hsv : (sv = .array ∧ pst = .arrayAdd) ∨ (sv = .arrayAfterSep ∧ pst = .arrayAdd) ∨ (sv = .objectValue ∧ pst = .objectValueAdd))
    (cur : JVal) (nm : Option Bytes) (rest : List Level) (hs : t.stack = ⟨.eatws, sv, cur, nm⟩ :: rest)
    (hok : d.ok = true) (hfit : t.strict = true → d.intsFit = true) (hknf : d.keysNulFree = true)
    (hdepth : rest.length + 2 + d.nest ≤ t.maxDepth) (s : UInt8) (hsep : s = 44 ∨ s = 93 ∨ s = 125) (X : Bytes)
    (c : UInt8) (off : Nat) :
    ∃ t2 l2 c2, t2.stack = ⟨.eatws, .finish, d.denote, none⟩ :: ⟨pst, sv, cur, nm⟩ :: rest ∧ Frm t t2 ∧ l2.num = none ∧
      run lc t l c off (w1.text ++ (d.text ++ (w2.text ++ s :: X))) =
        run lc t2 l2 c2 (off + w1.text.length + d.text.length + w2.text.length) (s :: X) := by
  rw [run_ws lc t l sv cur nm rest hs hv w1.text (ws_bytes_ws w1) c off _]
  obtain ⟨b, dr, hdt, hb⟩ := doc_first d hok
  obtain ⟨hwfp, hpush⟩ := push_child lc t l hwf hv sv pst hsv cur nm rest hs b hb (by omega)
  obtain ⟨nb, rs', htl, hfol, hnz⟩ := follow_head w2 s hsep X
  have e1 : d.text ++ (w2.text ++ s :: X) = b :: (dr ++ (w2.text ++ s :: X)) := by rw [hdt]; rfl
  rw [e1, hpush, ← e1, htl]
  obtain ⟨t2, l2, hs2, f2, _, hl2, hrun⟩ :=
    ihd { t with stack := freshLevel :: ⟨pst, sv, cur, nm⟩ :: rest } l .null (⟨pst, sv, cur, nm⟩ :: rest) hwfp rfl hv hhs hl0
      hok hfit hknf (by simp only [List.length_cons]; omega) nb hfol (fun h => absurd h hnz)
      (lastOr c w1.text) (off + w1.text.length) rs'
  rw [hrun, ← htl]
  have f2' : Frm t t2 := ⟨f2.md, f2.fl, f2.hs⟩
  rw [run_ws lc t2 l2 .finish d.denote none _ hs2 (f2'.noVal hv) w2.text (ws_bytes_ws w2)]
  exact ⟨t2, l2, _, hs2, f2', hl2, rfl⟩

/-- the element loop of a non-empty array, up to and including the closing bracket -/
theorem elems_run (lc : Libc) (es : List (Ws × Doc × Ws)) (hne : es ≠ []) (ih : ∀ e ∈ es, DocGoal lc e.2.1) :
    ∀ (t : Tok) (l : Loc) (sv : St) (_ : sv = .array ∨ sv = .arrayAfterSep) (xs : List JVal) (rest : List Level),
      WF t → t.stack = ⟨.eatws, sv, .arr xs, none⟩ :: rest → NoVal t → t.hs = 0 → l.num = none →
      elemsOk es = true → (t.strict = true → elemsFit es = true) → elemsKNF es = true →
      rest.length + 1 + elemsNest es ≤ t.maxDepth →
      ∀ (c : UInt8) (off : Nat) (rs : Bytes), ∃ t' l',
        t'.stack = ⟨.eatws, .finish, .arr (xs ++ elemsDenote es), none⟩ :: rest ∧ Frm t t' ∧ l'.num = none ∧
        run lc t l c off (intercalateB 44 (elemsText es) ++ 93 :: rs) =
          run lc t' l' 93 (off + (intercalateB 44 (elemsText es)).length + 1) rs := by
  induction es with
  | nil => exact absurd rfl hne
  | cons e r ihr =>
    obtain ⟨w1, d, w2⟩ := e
    intro t l sv hsv xs rest hwf hs hv hhs hl0 hok hfit hknf hdepth c off rs
    simp only [elemsOk, Bool.and_eq_true] at hok
    simp only [elemsKNF, Bool.and_eq_true] at hknf
    simp only [elemsNest] at hdepth
    have hfit' : t.strict = true → d.intsFit = true ∧ elemsFit r = true := by
      intro h; have := hfit h; simpa [elemsFit] using this
    have hsv' : (sv = .array ∧ St.arrayAdd = .arrayAdd) ∨ (sv = .arrayAfterSep ∧ St.arrayAdd = .arrayAdd) ∨
        (sv = .objectValue ∧ St.arrayAdd = .objectValueAdd) := by
      rcases hsv with h | h
      · exact Or.inl ⟨h, rfl⟩
      · exact Or.inr (Or.inl ⟨h, rfl⟩)
    have ihd : DocGoal lc d := ih (w1, d, w2) (by simp)
    cases r with
    | nil =>
      have e0 : intercalateB 44 (elemsText [(w1, d, w2)]) ++ 93 :: rs = w1.text ++ (d.text ++ (w2.text ++ 93 :: rs)) := by
        simp [intercalateB, elemsText]
      obtain ⟨t2, l2, c2, hs2, f2, hl2, hrun⟩ := child_value lc d ihd w1 w2 t l hwf hv hhs hl0 sv .arrayAdd hsv' (.arr xs) none rest hs
        hok.1 (fun h => (hfit' h).1) hknf.1 (by omega) 93 (by simp) rs c off
      have h3 := after_elem_close lc t2 l2 (f2.noVal hv) d.denote none sv xs none rest hs2 c2
        (off + w1.text.length + d.text.length + w2.text.length) rs
      simp only [List.cons_append, List.nil_append, lastOr, List.getLast?_singleton, Option.getD_some, List.length_singleton] at h3
      rw [e0, hrun, h3]
      have ed : elemsDenote [(w1, d, w2)] = [d.denote] := by simp [elemsDenote]
      rw [ed]
      refine ⟨{ t2 with stack := ⟨.eatws, .finish, .arr (xs ++ [d.denote]), none⟩ :: rest }, l2, rfl,
        ⟨f2.md, f2.fl, f2.hs⟩, hl2, ?_⟩
      simp only [intercalateB, elemsText, List.length_append]
      congr 1
      omega
    | cons e2 r2 =>
      have e0 : intercalateB 44 (elemsText ((w1, d, w2) :: e2 :: r2)) ++ 93 :: rs =
          w1.text ++ (d.text ++ (w2.text ++ 44 :: (intercalateB 44 (elemsText (e2 :: r2)) ++ 93 :: rs))) := by
        obtain ⟨a1, a2, a3⟩ := e2
        simp [intercalateB, elemsText]
      obtain ⟨t2, l2, c2, hs2, f2, hl2, hrun⟩ := child_value lc d ihd w1 w2 t l hwf hv hhs hl0 sv .arrayAdd hsv' (.arr xs) none rest hs
        hok.1 (fun h => (hfit' h).1) hknf.1 (by omega) 44 (by simp) (intercalateB 44 (elemsText (e2 :: r2)) ++ 93 :: rs) c off
      have h3 := after_elem_comma lc t2 l2 (f2.noVal hv) d.denote none sv xs none rest hs2 c2
        (off + w1.text.length + d.text.length + w2.text.length) (intercalateB 44 (elemsText (e2 :: r2)) ++ 93 :: rs)
      simp only [List.cons_append, List.nil_append, lastOr, List.getLast?_singleton, Option.getD_some, List.length_singleton] at h3
      let t3 : Tok := { t2 with stack := ⟨.eatws, .arrayAfterSep, .arr (xs ++ [d.denote]), none⟩ :: rest }
      have f3 : Frm t t3 := ⟨f2.md, f2.fl, f2.hs⟩
      have hwf3 : WF t3 := wf_restack hwf hs rfl f2.md (topOk_container _ _ (Or.inl ⟨rfl, _, rfl⟩))
        (posOk_of_ne (by simp) (by simp) (by simp))
      obtain ⟨t4, l4, hs4, f4, hl4, hrun4⟩ := ihr (by simp) (fun e he => ih e (by simp [he])) t3 l2 .arrayAfterSep (Or.inr rfl)
        (xs ++ [d.denote]) rest hwf3 rfl (f3.noVal hv) f3.hs hl2 hok.2 (fun h => (hfit' (by rw [← f3.strict]; exact h)).2) hknf.2
        (by rw [f3.md]; omega) 44 (off + w1.text.length + d.text.length + w2.text.length + 1) rs
      rw [e0, hrun, h3, hrun4]
      refine ⟨t4, l4, ?_, f3.trans f4, hl4, ?_⟩
      · rw [hs4]; simp [elemsDenote]
      · obtain ⟨a1, a2, a3⟩ := e2
        simp only [intercalateB, elemsText, List.length_append, List.length_cons]
        congr 1
        omega

end JsonC.Tokener
