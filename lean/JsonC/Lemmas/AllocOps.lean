/-
  Helper lemmas for C08 (no property statements): the integer side conditions of the allocation
  model (printbuf / array_list growth sizes never overflow under the guards the C code applies),
  and the fact that re-filling a doubled hash table never triggers a nested resize.
-/
import JsonC.Lemmas.Alloc
import JsonC.Lemmas.Arraylist
import JsonC.Lemmas.LinkhashLoad

namespace JsonC.Alloc
open JsonC Generated

theorem intMax_val : INT_MAX = 2147483647 := by decide
theorem intMax_nat : intMax = 2147483647 := by decide
theorem sizeMax_val : SIZE_T_MAX = 18446744073709551615 := by decide
theorem ptr_val : PTR = 8 := by decide

/-- the source has the shapes the model transcribes (regenerated on every run by st_alloc.py) -/
theorem shape_facts : allocSetStrFreeAfterMalloc = true ∧ allocAlExpandChecksTemp = true ∧
    allocAlShrinkChecksTemp = true ∧ allocPbExtendChecksTemp = true ∧ allocTokAttachPutsChild = true ∧
    allocObjAddFreesKeyOnFail = true ∧ allocObjAddChecksStrdup = true ∧ allocDeepCopyPutsPartial = true ∧
    allocDeepCopyPutsChild = true ∧ allocPtrSetFreesKey = true ∧ allocPtrSetFreesPathCopy = true := by decide

theorem pb_consts : pbExtendSlack = 8 ∧ pbExtendGuard = 8 := by decide

/-! ### printbuf -/

theorem pbNewSize_ok (size : Nat) (m : Int) (hm : 0 ≤ m) (hg : ¬ m > INT_MAX - pbExtendGuard) (hlt : (size : Int) < m) :
    ∃ n, pbNewSize size m = .ok n ∧ 0 < n ∧ m ≤ n ∧ (size : Int) ≤ n := by
  have hI := intMax_val
  obtain ⟨hs, hgd⟩ := pb_consts
  have hPI : Printbuf.INT_MAX = 2147483647 := by decide
  unfold pbNewSize Printbuf.ckInt
  rw [hs, hPI]; rw [hgd] at hg
  by_cases h1 : (size : Int) > INT_MAX / 2
  · rw [if_pos h1, if_pos (by omega)]
    exact ⟨_, rfl, by omega, by omega, by omega⟩
  · rw [if_neg h1, if_pos (by omega)]
    simp only [Outcome.bind_ok]
    rw [if_pos (by omega)]
    simp only [Outcome.bind_ok, Outcome.pure_eq]
    refine ⟨_, rfl, ?_, ?_, ?_⟩ <;> split <;> omega

/-! ### array_list -/

theorem al_consts : alGrowShift = 1 ∧ alHalfDiv = 2 ∧ alAddGuard = 1 ∧ alAddNeed = 1 ∧ alPutGuard = 1 ∧
    alPutNeed = 1 ∧ alInsNeed = 1 ∧ alShrinkMin = 1 := by decide

theorem ckSize_ok (x : Nat) (site : String) (h : x ≤ SIZE_T_MAX) : Arraylist.ckSize x site = .ok x :=
  Arraylist.ckSize_ok x site h

theorem alNewSize_ok (size max : Nat) :
    ∃ n, alNewSize size max = .ok n ∧ max ≤ n ∧ (n = max ∨ n = size * 2) := by
  obtain ⟨hsh, hhd, _⟩ := al_consts
  have hS := sizeMax_val
  unfold alNewSize
  by_cases h1 : size ≥ SIZE_T_MAX / alHalfDiv
  · rw [if_pos h1]; exact ⟨_, rfl, Nat.le_refl _, Or.inl rfl⟩
  · rw [if_neg h1]
    have hshift : size <<< alGrowShift = size * 2 := by rw [hsh, Nat.shiftLeft_eq]
    rw [hshift, ckSize_ok _ _ (by rw [hhd] at h1; omega)]
    simp only [Outcome.bind_ok, Outcome.pure_eq]
    by_cases h2 : size * 2 < max
    · rw [if_pos h2]; exact ⟨_, rfl, Nat.le_refl _, Or.inl rfl⟩
    · rw [if_neg h2]; exact ⟨_, rfl, by omega, Or.inr rfl⟩

theorem bytes_ok (n : Nat) (site : String) (h : ¬ n > SIZE_T_MAX / PTR) :
    Arraylist.ckSize (n * PTR) site = .ok (n * PTR) := by
  apply ckSize_ok
  have hS := sizeMax_val
  have hP := ptr_val
  rw [hP] at h ⊢
  omega

/-! ### lh_table -/

/-- a table that fails the load test is at least half full: `size <= 2 * count + 1` -/
theorem size_le_of_loadTest (count size : Nat) (hsz : size ≤ intMax) (h : Linkhash.loadTest count size = true) :
    size ≤ 2 * count + 1 := by
  unfold Linkhash.loadTest at h
  have h' : ((count : Nat) : Int) * (lhLoadDen : Int) ≥ ((Linkhash.roundDouble (size * lhLoadNum) : Nat) : Int) := by
    simpa using h
  have hden := Linkhash.loadDen_eq
  have hn := Linkhash.loadDen_le_two_num
  have hn1 := Linkhash.loadNum_le_den
  have him := Linkhash.intMax_lt
  have hbig : size * lhLoadNum < 2 ^ 113 := by
    have h1 : size * lhLoadNum ≤ size * lhLoadDen := Nat.mul_le_mul_left _ hn1
    have h2 : size * lhLoadDen < 2 ^ 31 * 2 ^ 60 := by
      rw [hden]; exact Nat.mul_lt_mul_of_pos_right (by omega) (Nat.two_pow_pos _)
    have : (2:Nat) ^ 31 * 2 ^ 60 ≤ 2 ^ 113 := by decide
    omega
  have hle : (size / 2) * 2 ^ 60 ≤ size * lhLoadNum := by
    rw [hden] at hn
    have h1 : (size / 2) * 2 ^ 60 ≤ (size / 2) * (2 * lhLoadNum) := Nat.mul_le_mul_left _ hn
    have h2 : (size / 2) * (2 * lhLoadNum) = (size / 2 * 2) * lhLoadNum := by rw [Nat.mul_assoc]
    have h3 : size / 2 * 2 ≤ size := Nat.div_mul_le_self _ _
    have h4 : (size / 2 * 2) * lhLoadNum ≤ size * lhLoadNum := Nat.mul_le_mul_right _ h3
    omega
  have hr := Linkhash.le_roundDouble _ (size / 2) hbig hle
  rw [hden] at h'
  have hr' : (((size / 2 : Nat)) : Int) * ((2 ^ 60 : Nat) : Int) ≤ ((Linkhash.roundDouble (size * lhLoadNum) : Nat) : Int) := by
    exact_mod_cast hr
  have hp : (0 : Int) < ((2 ^ 60 : Nat) : Int) := by decide
  have h5 : (((size / 2 : Nat)) : Int) * ((2 ^ 60 : Nat) : Int) ≤ (count : Int) * ((2 ^ 60 : Nat) : Int) := by omega
  have h6 : (((size / 2 : Nat)) : Int) ≤ (count : Int) := Int.le_of_mul_le_mul_right h5 hp
  omega


/-- re-filling a table of `2 * S` slots with at most `S` entries never reaches the load factor:
the loop of lh_table_resize makes no allocator call -/
theorem lhRebuild_noalloc (f : Nat) (S : Nat) (hS : S ≤ intMax) : ∀ (n : Nat) (nt : LhA), nt.size = S * 2 →
    nt.count + n ≤ S → ∀ (g : Oracle) (h : Heap),
    lhRebuild (lhInsertN f) n nt g h = .ok (some { nt with count := nt.count + n }, h) := by
  intro n
  induction n with
  | zero => intro nt _ _ g h; rfl
  | succ n ih =>
    intro nt hsz hc g h
    have hlt : Linkhash.loadTest nt.count nt.size = false := by
      rw [hsz]; exact Linkhash.loadTest_double _ S hS (by omega)
    have hins : lhInsertN f nt g h = .ok (({ nt with count := nt.count + 1 }, 0), h) := by
      unfold lhInsertN; rw [hlt]; rfl
    rw [lhRebuild]
    simp only [bind_run, hins]
    refine (ih { nt with count := nt.count + 1 } hsz (by show nt.count + 1 + n ≤ S; omega) g h).trans ?_
    have : nt.count + 1 + n = nt.count + (n + 1) := by omega
    simp only [this]

/-! ### filtering out freed blocks -/

/-- the predicate "not one of the blocks in `S`" -/
def keep (S : List Blk) : Blk → Bool := fun b => !S.contains b

theorem filter_ne_eq_keep (l : List Blk) (b : Blk) : l.filter (· != b) = l.filter (keep [b]) := by
  apply List.filter_congr
  intro x _
  simp [keep, bne, beq_blk]

theorem filter_keep_keep (l : List Blk) (S T : List Blk) : (l.filter (keep S)).filter (keep T) = l.filter (keep (S ++ T)) := by
  rw [List.filter_filter]
  apply List.filter_congr
  intro x _
  simp only [keep, List.contains_append, Bool.not_or]
  rw [Bool.and_comm]

theorem filter_keep_congr (l : List Blk) (S T : List Blk) (hst : ∀ b, b ∈ S ↔ b ∈ T) : l.filter (keep S) = l.filter (keep T) := by
  apply List.filter_congr
  intro x _
  simp only [keep]
  congr 1
  rw [Bool.eq_iff_iff]
  simp [hst x]

theorem filter_keep_nil (l : List Blk) : l.filter (keep []) = l := by
  rw [List.filter_eq_self]; intro a _; simp [keep]

theorem mem_filter_keep {l S : List Blk} {a : Blk} : a ∈ l.filter (keep S) ↔ a ∈ l ∧ a ∉ S := by
  simp [List.mem_filter, keep]

/-- blocks allocated after `h` are none of the blocks `h` knows -/
theorem filter_keep_of_disjoint (l S : List Blk) (hd : ∀ b ∈ l, b ∉ S) : l.filter (keep S) = l := by
  rw [List.filter_eq_self]
  intro a ha
  simp [keep, hd a ha]

theorem filter_keep_all (l S : List Blk) (hs : ∀ b ∈ l, b ∈ S) : l.filter (keep S) = [] := by
  rw [List.filter_eq_nil_iff]
  intro a ha
  simp [keep, hs a ha]


theorem Post.of_eq {α : Type} {x : A α} {g : Oracle} {h h' : Heap} {a : α} {Q : α → Heap → Prop}
    (e : x g h = .ok (a, h')) (hq : Q a h') : Post x g h Q := ⟨a, h', e, hq⟩

theorem ne_of_fresh {h : Heap} (hwf : WF h) {b : Blk} (hb : b ∈ h.live) (k size : Nat) (hk : h.next < k) :
    (⟨k, size⟩ : Blk) ≠ b := by
  intro e; subst e
  have := hwf.2 _ hb
  simp only at this
  omega

/-- the live list after lh_table_resize: new table struct and entry array pushed, old entry array and
new table struct freed -/
theorem resize_live (l : List Blk) (old ns nt : Blk) (h1 : ns ∉ l) (h2 : ns ≠ old) (h3 : nt ≠ old) (h4 : nt ≠ ns) :
    ((l ++ [ns, nt]).filter (· != old)).filter (· != ns) = l.filter (· != old) ++ [nt] := by
  rw [List.filter_append, List.filter_append]
  have e1 : (l.filter (· != old)).filter (· != ns) = l.filter (· != old) :=
    filter_ne_fresh (fun hm => h1 (List.mem_filter.mp hm).1)
  rw [e1]
  congr 1
  simp [h2, h3, h4]


/-! ### shapes of the heap effect of the container operations (used to state C08) -/

/-- the slot array was kept, or replaced by a fresh block (realloc): nothing else moved -/
def AlKeptOrMoved (h : Heap) (a a' : AlA) (h' : Heap) : Prop :=
  a'.self = a.self ∧
  ((a'.array = a.array ∧ a'.size = a.size ∧ h'.live = h.live ∧ h'.next = h.next) ∨
   (h'.live = h.live.filter (· != a.array) ++ [a'.array] ∧ h'.next = h.next + 1 ∧ a'.array.id = h.next + 1))

/-- a table as json_object keeps it: not over-full, small enough for the doubling to stay an int -/
def LhOK (t : LhA) : Prop := 0 < t.size ∧ t.count ≤ t.size ∧ t.size ≤ intMax / 2

/-- what a successful insertion of a new member leaves -/
def ObjAdded (h : Heap) (b : Blk) (lh : LhA) (ms : List (Bytes × Option Blk × Node)) (key : Bytes) (val : Node)
    (constKey : Bool) (r : Node) (h' : Heap) : Prop :=
  ∃ kb lh', r = .obj b lh' (ms ++ [(key, kb, val)]) ∧ lh'.self = lh.self ∧ lh'.count = lh.count + 1 ∧
    lh'.count ≤ lh'.size ∧ (constKey = true ↔ kb = none) ∧ (∀ k, kb = some k → k.id = h.next + 1 ∧ k.size = key.length + 1) ∧
    ((lh'.table = lh.table ∧ lh'.size = lh.size ∧ h'.live = h.live ++ kb.toList ∧ h'.next = h.next + kb.toList.length) ∨
     (lh'.size = lh.size * 2 ∧ h'.live = h.live.filter (· != lh.table) ++ kb.toList ++ [lh'.table] ∧
        h'.next = h.next + kb.toList.length + 2 ∧ lh'.table.id = h'.next ∧ lh.size ≤ 2 * lh.count + 1))

end JsonC.Alloc
