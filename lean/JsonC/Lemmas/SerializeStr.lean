/-
  C02 helper lemmas, part 2: strings.  The emitted string body is the rendering of the items
  `itemsOf` (byte by byte), those items are well-formed, and they denote the original bytes.
-/
import JsonC.Lemmas.SerializeEsc

namespace JsonC.Serialize
open JsonC Generated SerSpec Rfc8259

set_option maxRecDepth 100000 in
theorem escByte_item (ns : Bool) : ∀ c : UInt8, escByte ns c = (itemOf ns c).text := by
  cases ns
  · apply forall_byte; decide
  · apply forall_byte; decide

set_option maxRecDepth 100000 in
theorem itemOf_ok (ns : Bool) : ∀ c : UInt8, (itemOf ns c).ok = true := by
  cases ns
  · apply forall_byte; decide
  · apply forall_byte; decide

/-- the emitted bytes are the rendering of the items -/
theorem items_text (ns : Bool) (s : Bytes) : (itemsOf ns s).flatMap StrItem.text = escBytes ns s := by
  induction s with
  | nil => rfl
  | cons c r ih =>
    simp only [itemsOf, List.map_cons, List.flatMap_cons] at ih ⊢
    rw [ih, escBytes_cons, escByte_item]

theorem items_ok (ns : Bool) (s : Bytes) : (itemsOf ns s).all StrItem.ok = true := by
  simp [itemsOf, itemOf_ok]

/-! ### the items denote the bytes -/

theorem decodeItems_u {a b c d : HexDigit} (r : List StrItem)
    (h : isHigh (unitOf a b c d) = false) (h' : isLow (unitOf a b c d) = false) :
    decodeItems (.u a b c d :: r) = utf8 (unitOf a b c d) ++ decodeItems r := by
  cases r with
  | nil => simp [decodeItems, h, h']
  | cons x r =>
    cases x <;> simp [decodeItems, h, h']

/-- decidable form of "the item for byte `c` is a raw `c`, an escape with value `c`, or `\u00XX` with unit `c` < 32" -/
def itemDenotes (ns : Bool) (c : UInt8) : Bool :=
  match itemOf ns c with
  | .raw b => b == c
  | .esc e => e.value == c
  | .u a b c' d => unitOf a b c' d == c.toNat && decide (c.toNat < 32)

set_option maxRecDepth 100000 in
theorem itemDenotes_all (ns : Bool) : ∀ c : UInt8, itemDenotes ns c = true := by
  cases ns
  · apply forall_byte; decide
  · apply forall_byte; decide

theorem utf8_ascii (n : Nat) (h : n < 128) : utf8 n = [UInt8.ofNat n] := by
  simp [utf8, utf8Encode, h]

theorem decodeItems_itemOf (ns : Bool) (c : UInt8) (r : List StrItem) :
    decodeItems (itemOf ns c :: r) = c :: decodeItems r := by
  have h := itemDenotes_all ns c
  unfold itemDenotes at h
  split at h
  · rename_i b hi; rw [hi]; simp at h; simp [decodeItems, h]
  · rename_i e hi; rw [hi]; simp at h; simp [decodeItems, h]
  · rename_i a b c' d hi
    rw [hi]
    simp at h
    rw [decodeItems_u r (by simp [isHigh, h.1]; omega) (by simp [isLow, h.1]; omega), h.1,
      utf8_ascii _ (by omega)]
    simp

/-- the items denote exactly the string's bytes (whatever NOSLASHESCAPE says) -/
theorem decodeItems_itemsOf (ns : Bool) (s : Bytes) : decodeItems (itemsOf ns s) = s := by
  induction s with
  | nil => simp [itemsOf, decodeItems]
  | cons c r ih =>
    simp only [itemsOf, List.map_cons] at ih ⊢
    rw [decodeItems_itemOf, ih]

end JsonC.Serialize
