/-
  Helper lemmas for C17 (no property statements here): induction over `JVal` trees, the value
  tables of the switches of json_visit.c, facts about the event list of the specification
  (labels, depths), and the simulation between `_json_c_visit` and the reference machine.
-/
import JsonC.Model.Visit
import JsonC.Spec.Traversal

namespace JsonC.Visit
open JsonC JsonC.Traversal Generated

/-! ### induction over trees -/
section
variable {P : JVal → Prop} {PL : List JVal → Prop} {PM : List (Bytes × JVal) → Prop}
  (hleaf : ∀ v, isContainer v = false → P v)
  (harr : ∀ xs, PL xs → P (.arr xs))
  (hobj : ∀ kvs, PM kvs → P (.obj kvs))
  (hnil : PL []) (hcons : ∀ x xs, P x → PL xs → PL (x :: xs))
  (hmnil : PM []) (hmcons : ∀ k v kvs, P v → PM kvs → PM ((k, v) :: kvs))
set_option linter.unusedSectionVars false in
include hleaf harr hobj hnil hcons hmnil hmcons in
mutual
  theorem ind_val : ∀ v, P v
    | .arr xs => harr xs (ind_elems xs)
    | .obj kvs => hobj kvs (ind_members kvs)
    | .null => hleaf _ rfl
    | .bool _ => hleaf _ rfl
    | .int _ _ => hleaf _ rfl
    | .dbl _ _ => hleaf _ rfl
    | .str _ => hleaf _ rfl
  theorem ind_elems : ∀ xs, PL xs
    | [] => hnil
    | x :: xs => hcons x xs (ind_val x) (ind_elems xs)
  theorem ind_members : ∀ kvs, PM kvs
    | [] => hmnil
    | (k, v) :: kvs => hmcons k v kvs (ind_val v) (ind_members kvs)
end
end

theorem tree_ind {P : JVal → Prop} {PL : List JVal → Prop} {PM : List (Bytes × JVal) → Prop}
    (hleaf : ∀ v, isContainer v = false → P v)
    (harr : ∀ xs, PL xs → P (.arr xs))
    (hobj : ∀ kvs, PM kvs → P (.obj kvs))
    (hnil : PL []) (hcons : ∀ x xs, P x → PL xs → PL (x :: xs))
    (hmnil : PM []) (hmcons : ∀ k v kvs, P v → PM kvs → PM ((k, v) :: kvs)) :
    (∀ v, P v) ∧ (∀ xs, PL xs) ∧ (∀ kvs, PM kvs) :=
  ⟨ind_val hleaf harr hobj hnil hcons hmnil hmcons, ind_elems hleaf harr hobj hnil hcons hmnil hmcons,
   ind_members hleaf harr hobj hnil hcons hmnil hmcons⟩

/-! ### the return codes -/
theorem codes_pairwise : [visitContinue, visitSkip, visitPop, visitStop, visitError].Pairwise (· ≠ ·) := by
  decide

theorem second_ne_zero : visitSecond ≠ 0 := by decide
theorem error_neg : visitError < 0 := by decide

theorem ne_cs : visitContinue ≠ visitSkip := by decide
theorem ne_cp : visitContinue ≠ visitPop := by decide
theorem ne_ct : visitContinue ≠ visitStop := by decide
theorem ne_ce : visitContinue ≠ visitError := by decide
theorem ne_sp : visitSkip ≠ visitPop := by decide
theorem ne_st : visitSkip ≠ visitStop := by decide
theorem ne_se : visitSkip ≠ visitError := by decide
theorem ne_pt : visitPop ≠ visitStop := by decide
theorem ne_pe : visitPop ≠ visitError := by decide
theorem ne_te : visitStop ≠ visitError := by decide

/-- the five documented codes -/
def Valid5 (r : Int) : Prop :=
  r = visitContinue ∨ r = visitSkip ∨ r = visitPop ∨ r = visitStop ∨ r = visitError


theorem code_cases (r : Int) :
    r = visitContinue ∨ r = visitSkip ∨ r = visitPop ∨ r = visitStop ∨ r = visitError ∨
    (r ≠ visitContinue ∧ r ≠ visitSkip ∧ r ≠ visitPop ∧ r ≠ visitStop ∧ r ≠ visitError) := by
  by_cases h1 : r = visitContinue; · exact Or.inl h1
  by_cases h2 : r = visitSkip; · exact Or.inr (Or.inl h2)
  by_cases h3 : r = visitPop; · exact Or.inr (Or.inr (Or.inl h3))
  by_cases h4 : r = visitStop; · exact Or.inr (Or.inr (Or.inr (Or.inl h4)))
  by_cases h5 : r = visitError; · exact Or.inr (Or.inr (Or.inr (Or.inr (Or.inl h5))))
  exact Or.inr (Or.inr (Or.inr (Or.inr (Or.inr ⟨h1, h2, h3, h4, h5⟩))))

/-- simp with the distinctness facts -/
macro "codes" : tactic =>
  `(tactic| simp [ne_cs, ne_cp, ne_ct, ne_ce, ne_sp, ne_st, ne_se, ne_pt, ne_pe, ne_te,
      ne_cs.symm, ne_cp.symm, ne_ct.symm, ne_ce.symm, ne_sp.symm, ne_st.symm, ne_se.symm,
      ne_pt.symm, ne_pe.symm, ne_te.symm, *])

/-! ### value tables of the switches -/
@[simp] theorem firstSwitch_continue : firstSwitch visitContinue = none := by simp [firstSwitch]
@[simp] theorem firstSwitch_skip : firstSwitch visitSkip = some visitSkip := by unfold firstSwitch; codes
@[simp] theorem firstSwitch_pop : firstSwitch visitPop = some visitPop := by unfold firstSwitch; codes
@[simp] theorem firstSwitch_stop : firstSwitch visitStop = some visitStop := by unfold firstSwitch; codes
@[simp] theorem firstSwitch_error : firstSwitch visitError = some visitError := by unfold firstSwitch; codes
theorem firstSwitch_invalid {r : Int} (h1 : r ≠ visitContinue) (h2 : r ≠ visitSkip) (h3 : r ≠ visitPop)
    (h4 : r ≠ visitStop) (h5 : r ≠ visitError) : firstSwitch r = some visitError := by
  unfold firstSwitch; codes

@[simp] theorem afterChild_continue : afterChild visitContinue = .next := by unfold afterChild; codes
@[simp] theorem afterChild_skip : afterChild visitSkip = .next := by unfold afterChild; codes
@[simp] theorem afterChild_pop : afterChild visitPop = .brk := by unfold afterChild; codes
@[simp] theorem afterChild_stop : afterChild visitStop = .ret visitStop := by unfold afterChild; codes
@[simp] theorem afterChild_error : afterChild visitError = .ret visitError := by unfold afterChild; codes
theorem afterChild_invalid {r : Int} (h1 : r ≠ visitContinue) (h2 : r ≠ visitSkip) (h3 : r ≠ visitPop)
    (h4 : r ≠ visitStop) (h5 : r ≠ visitError) : afterChild r = .ret visitError := by
  unfold afterChild; codes

@[simp] theorem secondSwitch_continue : secondSwitch visitContinue = visitContinue := by unfold secondSwitch; codes
@[simp] theorem secondSwitch_skip : secondSwitch visitSkip = visitContinue := by unfold secondSwitch; codes
@[simp] theorem secondSwitch_pop : secondSwitch visitPop = visitContinue := by unfold secondSwitch; codes
@[simp] theorem secondSwitch_stop : secondSwitch visitStop = visitStop := by unfold secondSwitch; codes
@[simp] theorem secondSwitch_error : secondSwitch visitError = visitError := by unfold secondSwitch; codes
theorem secondSwitch_invalid {r : Int} (h1 : r ≠ visitContinue) (h2 : r ≠ visitSkip) (h3 : r ≠ visitPop)
    (h4 : r ≠ visitStop) (h5 : r ≠ visitError) : secondSwitch r = visitError := by
  unfold secondSwitch; codes

@[simp] theorem finalSwitch_continue : finalSwitch visitContinue = 0 := by unfold finalSwitch; codes
@[simp] theorem finalSwitch_skip : finalSwitch visitSkip = 0 := by unfold finalSwitch; codes
@[simp] theorem finalSwitch_pop : finalSwitch visitPop = 0 := by unfold finalSwitch; codes
@[simp] theorem finalSwitch_stop : finalSwitch visitStop = 0 := by unfold finalSwitch; codes
@[simp] theorem finalSwitch_error : finalSwitch visitError = visitError := by unfold finalSwitch; codes


theorem firstSwitch_some_valid {r c : Int} (h : firstSwitch r = some c) :
    c = visitSkip ∨ c = visitPop ∨ c = visitStop ∨ c = visitError := by
  rcases code_cases r with h1 | h1 | h1 | h1 | h1 | ⟨h1, h2, h3, h4, h5⟩
  · subst h1; simp at h
  · subst h1; simp at h; simp [← h]
  · subst h1; simp at h; simp [← h]
  · subst h1; simp at h; simp [← h]
  · subst h1; simp at h; simp [← h]
  · rw [firstSwitch_invalid h1 h2 h3 h4 h5] at h; simp at h; simp [← h]

theorem afterChild_ret {r c : Int} (h : afterChild r = .ret c) : c = visitStop ∨ c = visitError := by
  rcases code_cases r with h1 | h1 | h1 | h1 | h1 | ⟨h1, h2, h3, h4, h5⟩
  · subst h1; simp at h
  · subst h1; simp at h
  · subst h1; simp at h
  · subst h1; simp at h; simp [← h]
  · subst h1; simp at h; simp [← h]
  · rw [afterChild_invalid h1 h2 h3 h4 h5] at h; simp at h; simp [← h]

theorem secondSwitch_valid (r : Int) :
    secondSwitch r = visitContinue ∨ secondSwitch r = visitStop ∨ secondSwitch r = visitError := by
  rcases code_cases r with h1 | h1 | h1 | h1 | h1 | ⟨h1, h2, h3, h4, h5⟩
  · subst h1; simp
  · subst h1; simp
  · subst h1; simp
  · subst h1; simp
  · subst h1; simp
  · rw [secondSwitch_invalid h1 h2 h3 h4 h5]; simp

/-! ### the loops return only STOP or ERROR from inside -/
theorem visitElems_ret {σ : Type} (cb : Cb σ) : ∀ (xs : List JVal) (s : σ) (pid ii cid : Nat) (c : Int),
    (visitElems cb s xs pid ii cid).1 = .ret c → c = visitStop ∨ c = visitError := by
  intro xs
  induction xs with
  | nil => intro s pid ii cid c h; simp [visitElems] at h
  | cons x xs ih =>
    intro s pid ii cid c h
    rw [visitElems] at h
    split at h
    · simp at h
    · next c' hc => simp at h; subst h; exact afterChild_ret hc
    · exact ih _ _ _ _ _ h

theorem visitMembers_ret {σ : Type} (cb : Cb σ) : ∀ (kvs : List (Bytes × JVal)) (s : σ) (pid cid : Nat) (c : Int),
    (visitMembers cb s kvs pid cid).1 = .ret c → c = visitStop ∨ c = visitError := by
  intro kvs
  induction kvs with
  | nil => intro s pid cid c h; simp [visitMembers] at h
  | cons kv kvs ih =>
    obtain ⟨k, v⟩ := kv
    intro s pid cid c h
    rw [visitMembers] at h
    split at h
    · simp at h
    · next c' hc => simp at h; subst h; exact afterChild_ret hc
    · exact ih _ _ _ _ h

theorem visitNode_leaf {σ : Type} (cb : Cb σ) (s : σ) (v : JVal) (hv : isContainer v = false) (id : Nat)
    (parent : Option Nat) (slot : Slot) :
    visitNode cb s v id parent slot =
      match firstSwitch (cb s ⟨id, v, 0, parent, slot⟩).1 with
      | some c => (c, (cb s ⟨id, v, 0, parent, slot⟩).2)
      | none => (visitContinue, (cb s ⟨id, v, 0, parent, slot⟩).2) := by
  cases v <;> first
    | (simp [isContainer] at hv; done)
    | (rw [visitNode]
       · split <;> split <;> simp_all
       · intro _ h; cases h
       · intro _ h; cases h)

theorem flatten_leaf (v : JVal) (hv : isContainer v = false) (d : Nat) (p : Option Nat) (sl : Slot) (n : Nat) :
    flatten v d p sl n = ([⟨false, d, n, v, p, sl⟩], n + 1) := by
  cases v <;> simp [isContainer] at hv <;> simp [flatten]

theorem afterLoop_valid {σ : Type} (cb : Cb σ) (l : LoopEnd × σ) (c2 : Call)
    (hl : ∀ c, l.1 = .ret c → c = visitStop ∨ c = visitError) : Valid5 (afterLoop cb l c2).1 := by
  unfold afterLoop Valid5
  split
  · next c hc => rcases hl c hc with h | h <;> simp [h]
  · rcases secondSwitch_valid (cb l.2 c2).1 with h | h | h <;> simp [h]

/-- `_json_c_visit` returns one of the five codes, whatever the callback does -/
theorem visitNode_valid {σ : Type} (cb : Cb σ) (s : σ) (v : JVal) (id : Nat) (parent : Option Nat) (slot : Slot) :
    Valid5 (visitNode cb s v id parent slot).1 := by
  cases v with
  | arr xs =>
    rw [visitNode]
    split
    · next c hc => unfold Valid5; rcases firstSwitch_some_valid hc with h | h | h | h <;> simp [h]
    · exact afterLoop_valid _ _ _ (visitElems_ret cb _ _ _ _ _)
  | obj kvs =>
    rw [visitNode]
    split
    · next c hc => unfold Valid5; rcases firstSwitch_some_valid hc with h | h | h | h <;> simp [h]
    · exact afterLoop_valid _ _ _ (visitMembers_ret cb _ _ _ _)
  | _ =>
    rw [visitNode_leaf _ _ _ rfl]
    unfold Valid5
    split
    · next c hc => rcases firstSwitch_some_valid hc with h | h | h | h <;> simp [h]
    · simp


/-! ### the reference machine: absorbing modes -/
abbrev run {σ : Type} (cb : Cb σ) (m : MSt σ) (l : List Ev) : MSt σ := l.foldl (step cb) m

theorem run_halted {σ : Type} (cb : Cb σ) (r : Result) (s : σ) (l : List Ev) :
    run cb ⟨.halted r, s⟩ l = ⟨.halted r, s⟩ := by
  induction l with
  | nil => rfl
  | cons e l ih => simpa [run, List.foldl_cons, step] using ih

theorem run_skip {σ : Type} (cb : Cb σ) (d : Nat) (s : σ) (l : List Ev) (h : ∀ e ∈ l, e.depth > d) :
    run cb ⟨.skip d, s⟩ l = ⟨.skip d, s⟩ := by
  induction l with
  | nil => rfl
  | cons e l ih =>
    have he : e.depth > d := h e (by simp)
    have : step cb ⟨.skip d, s⟩ e = ⟨.skip d, s⟩ := by simp [step, he]
    simp only [run, List.foldl_cons, this]
    exact ih (fun e' he' => h e' (by simp [he']))

theorem run_pop {σ : Type} (cb : Cb σ) (d : Nat) (s : σ) (l : List Ev) (h : ∀ e ∈ l, e.depth ≥ d) :
    run cb ⟨.pop d, s⟩ l = ⟨.pop d, s⟩ := by
  induction l with
  | nil => rfl
  | cons e l ih =>
    have he : e.depth ≥ d := h e (by simp)
    have : step cb ⟨.pop d, s⟩ e = ⟨.pop d, s⟩ := by simp [step, he]
    simp only [run, List.foldl_cons, this]
    exact ih (fun e' he' => h e' (by simp [he']))

theorem run_append {σ : Type} (cb : Cb σ) (m : MSt σ) (l1 l2 : List Ev) :
    run cb m (l1 ++ l2) = run cb (run cb m l1) l2 := by
  simp [run, List.foldl_append]

/-! ### facts about the flattening: labels and depths -/
theorem flatten_next_all :
    (∀ v d p sl n, (flatten v d p sl n).2 = n + v.size) ∧
    (∀ xs d pid i n, (flattenElems xs d pid i n).2 = n + JVal.sizeList xs) ∧
    (∀ kvs d pid n, (flattenMembers kvs d pid n).2 = n + JVal.sizeMembers kvs) := by
  refine tree_ind ?_ ?_ ?_ ?_ ?_ ?_ ?_
  · intro v hv d p sl n
    rw [flatten_leaf v hv]
    cases v <;> simp [isContainer] at hv <;> simp [JVal.size]
  · intro xs ih d p sl n
    simp [flatten, JVal.size, ih]; omega
  · intro kvs ih d p sl n
    simp [flatten, JVal.size, ih]; omega
  · intro d pid i n; simp [flattenElems, JVal.sizeList]
  · intro x xs ihx ihxs d pid i n
    simp [flattenElems, JVal.sizeList, ihx, ihxs]; omega
  · intro d pid n; simp [flattenMembers, JVal.sizeMembers]
  · intro k v kvs ihv ihkvs d pid n
    simp [flattenMembers, JVal.sizeMembers, ihv, ihkvs]; omega

theorem flatten_next (v : JVal) (d : Nat) (p : Option Nat) (sl : Slot) (n : Nat) :
    (flatten v d p sl n).2 = n + v.size := flatten_next_all.1 v d p sl n

theorem flatten_depth_all :
    (∀ v d p sl n, ∀ e ∈ (flatten v d p sl n).1, e.depth ≥ d) ∧
    (∀ xs d pid i n, ∀ e ∈ (flattenElems xs d pid i n).1, e.depth ≥ d) ∧
    (∀ kvs d pid n, ∀ e ∈ (flattenMembers kvs d pid n).1, e.depth ≥ d) := by
  refine tree_ind ?_ ?_ ?_ ?_ ?_ ?_ ?_
  · intro v hv d p sl n e he
    rw [flatten_leaf v hv] at he
    simp at he; subst he; simp
  · intro xs ih d p sl n e he
    simp [flatten] at he
    rcases he with he | he | he
    · subst he; simp
    · have := ih _ _ _ _ e he; omega
    · subst he; simp
  · intro kvs ih d p sl n e he
    simp [flatten] at he
    rcases he with he | he | he
    · subst he; simp
    · have := ih _ _ _ e he; omega
    · subst he; simp
  · intro d pid i n e he; simp [flattenElems] at he
  · intro x xs ihx ihxs d pid i n e he
    simp [flattenElems] at he
    rcases he with he | he
    · exact ihx _ _ _ _ e he
    · exact ihxs _ _ _ _ e he
  · intro d pid n e he; simp [flattenMembers] at he
  · intro k v kvs ihv ihkvs d pid n e he
    simp [flattenMembers] at he
    rcases he with he | he
    · exact ihv _ _ _ _ e he
    · exact ihkvs _ _ _ e he


/-! ### model ↔ reference machine -/

/-- the machine mode that corresponds to `_json_c_visit` returning `r` for a node at depth `d` -/
def modeOf (r : Int) (d : Nat) : Mode :=
  if r = visitPop then .pop d
  else if r = visitStop then .halted .success
  else if r = visitError then .halted .failure
  else .run

/-- the machine mode after the events of a child loop at depth `d` that ended as `l` -/
def loopMode : LoopEnd → Nat → Mode
  | .fin, _ => .run
  | .brk, d => .pop d
  | .ret c, _ => if c = visitStop then .halted .success else .halted .failure

@[simp] theorem modeOf_continue (d : Nat) : modeOf visitContinue d = .run := by unfold modeOf; codes
@[simp] theorem modeOf_skip (d : Nat) : modeOf visitSkip d = .run := by unfold modeOf; codes
@[simp] theorem modeOf_pop (d : Nat) : modeOf visitPop d = .pop d := by unfold modeOf; codes
@[simp] theorem modeOf_stop (d : Nat) : modeOf visitStop d = .halted .success := by unfold modeOf; codes
@[simp] theorem modeOf_error (d : Nat) : modeOf visitError d = .halted .failure := by unfold modeOf; codes

theorem run_cons {σ : Type} (cb : Cb σ) (m : MSt σ) (e : Ev) (l : List Ev) :
    run cb m (e :: l) = run cb (step cb m e) l := rfl

theorem step_run {σ : Type} (cb : Cb σ) (s : σ) (e : Ev) :
    step cb ⟨.run, s⟩ e = ⟨react e (cb s e.call).1, (cb s e.call).2⟩ := rfl

/-- arrival at a container whose first call does not return CONTINUE -/
theorem container_first_some {σ : Type} (cb : Cb σ) (s : σ) (d n : Nat) (v : JVal) (p : Option Nat) (sl : Slot)
    (hv : isContainer v = true) (ch : List Ev) (hch : ∀ e ∈ ch, e.depth ≥ d + 1) (c : Int)
    (h : firstSwitch (cb s ⟨n, v, 0, p, sl⟩).1 = some c) :
    run cb ⟨.run, s⟩ (⟨false, d, n, v, p, sl⟩ :: ch ++ [⟨true, d, n, v, p, sl⟩]) =
      ⟨modeOf c d, (cb s ⟨n, v, 0, p, sl⟩).2⟩ := by
  have hcall : (⟨false, d, n, v, p, sl⟩ : Ev).call = ⟨n, v, 0, p, sl⟩ := by simp [Ev.call]
  have hch' : ∀ e ∈ ch ++ [(⟨true, d, n, v, p, sl⟩ : Ev)], e.depth ≥ d := by
    intro e he
    rcases List.mem_append.1 he with he | he
    · have := hch e he; omega
    · simp at he; subst he; simp
  rw [List.cons_append, run_cons, step_run, hcall]
  generalize cb s ⟨n, v, 0, p, sl⟩ = r at h ⊢
  obtain ⟨c1, s1⟩ := r
  dsimp only at h ⊢
  rcases code_cases c1 with h1 | h1 | h1 | h1 | h1 | ⟨h1, h2, h3, h4, h5⟩
  · subst h1; simp at h
  · subst h1; simp at h; subst h
    have : react ⟨false, d, n, v, p, sl⟩ visitSkip = .skip d := by unfold react; codes
    rw [this, run_append, run_skip cb d s1 ch (fun e he => by have := hch e he; omega)]
    simp [run, step]
  · subst h1; simp at h; subst h
    have : react ⟨false, d, n, v, p, sl⟩ visitPop = .pop d := by unfold react; codes
    rw [this, run_pop cb d s1 _ hch']; simp
  · subst h1; simp at h; subst h
    have : react ⟨false, d, n, v, p, sl⟩ visitStop = .halted .success := by unfold react; codes
    rw [this, run_halted]; simp
  · subst h1; simp at h; subst h
    have : react ⟨false, d, n, v, p, sl⟩ visitError = .halted .failure := by unfold react; codes
    rw [this, run_halted]; simp
  · rw [firstSwitch_invalid h1 h2 h3 h4 h5] at h; simp at h; subst h
    have : react ⟨false, d, n, v, p, sl⟩ c1 = .halted .failure := by unfold react; codes
    rw [this, run_halted]; simp

/-- arrival at a container whose first call returns CONTINUE -/
theorem container_first_none {σ : Type} (cb : Cb σ) (s : σ) (d n : Nat) (v : JVal) (p : Option Nat) (sl : Slot)
    (ch : List Ev) (h : firstSwitch (cb s ⟨n, v, 0, p, sl⟩).1 = none) :
    run cb ⟨.run, s⟩ (⟨false, d, n, v, p, sl⟩ :: ch ++ [⟨true, d, n, v, p, sl⟩]) =
      step cb (run cb ⟨.run, (cb s ⟨n, v, 0, p, sl⟩).2⟩ ch) ⟨true, d, n, v, p, sl⟩ := by
  have hcall : (⟨false, d, n, v, p, sl⟩ : Ev).call = ⟨n, v, 0, p, sl⟩ := by simp [Ev.call]
  rw [List.cons_append, run_cons, step_run, hcall]
  generalize cb s ⟨n, v, 0, p, sl⟩ = r at h ⊢
  obtain ⟨c1, s1⟩ := r
  dsimp only at h ⊢
  have hc : c1 = visitContinue := by
    rcases code_cases c1 with h1 | h1 | h1 | h1 | h1 | ⟨h1, h2, h3, h4, h5⟩
    · exact h1
    all_goals first | (subst h1; simp at h) | (rw [firstSwitch_invalid h1 h2 h3 h4 h5] at h; simp at h)
  subst hc
  have : react ⟨false, d, n, v, p, sl⟩ visitContinue = .run := by simp [react]
  rw [this, run_append]; rfl

/-- departure from a container after its child loop ended as `l` -/
theorem container_leave {σ : Type} (cb : Cb σ) (l : LoopEnd × σ) (d n : Nat) (v : JVal) (p : Option Nat) (sl : Slot)
    (hl : ∀ c, l.1 = .ret c → c = visitStop ∨ c = visitError) :
    step cb ⟨loopMode l.1 (d + 1), l.2⟩ ⟨true, d, n, v, p, sl⟩ =
      ⟨modeOf (afterLoop cb l ⟨n, v, visitSecond, p, sl⟩).1 d, (afterLoop cb l ⟨n, v, visitSecond, p, sl⟩).2⟩ := by
  have hcall : (⟨true, d, n, v, p, sl⟩ : Ev).call = ⟨n, v, visitSecond, p, sl⟩ := by simp [Ev.call]
  have hfire : ∀ s, fire cb s ⟨true, d, n, v, p, sl⟩ =
      ⟨modeOf (secondSwitch (cb s ⟨n, v, visitSecond, p, sl⟩).1) d, (cb s ⟨n, v, visitSecond, p, sl⟩).2⟩ := by
    intro s
    unfold fire
    rw [hcall]
    generalize cb s ⟨n, v, visitSecond, p, sl⟩ = r
    obtain ⟨c2, s2⟩ := r
    dsimp only
    rcases code_cases c2 with h1 | h1 | h1 | h1 | h1 | ⟨h1, h2, h3, h4, h5⟩
    · subst h1; simp [react]
    · subst h1; simp [react]
    · subst h1; simp [react]
    · subst h1; unfold react; codes
    · subst h1; unfold react; codes
    · rw [secondSwitch_invalid h1 h2 h3 h4 h5]; unfold react; codes
  obtain ⟨le, s⟩ := l
  cases le with
  | fin => simp only [loopMode, afterLoop]; exact hfire s
  | brk =>
    simp only [loopMode, afterLoop, step]
    rw [if_neg (by simp)]
    exact hfire s
  | ret c =>
    rcases hl c rfl with h | h <;> subst h <;> simp [loopMode, afterLoop, step] <;> codes


/-- what a child's result does to the rest of the loop's events (all at depth ≥ d) -/
theorem loop_step {σ : Type} (cb : Cb σ) (d : Nat) (r : Int × σ) (hr : Valid5 r.1) (rest : List Ev)
    (hrest : ∀ e ∈ rest, e.depth ≥ d) (cont : LoopEnd × σ)
    (hcont : run cb ⟨.run, r.2⟩ rest = ⟨loopMode cont.1 d, cont.2⟩) :
    run cb ⟨modeOf r.1 d, r.2⟩ rest =
      ⟨loopMode (match afterChild r.1 with | .brk => (LoopEnd.brk, r.2) | .ret c => (.ret c, r.2) | .next => cont).1 d,
       (match afterChild r.1 with | .brk => (LoopEnd.brk, r.2) | .ret c => (.ret c, r.2) | .next => cont).2⟩ := by
  obtain ⟨c, s⟩ := r
  dsimp only at hr hcont ⊢
  rcases hr with h | h | h | h | h <;> subst h
  · simp [hcont]
  · simp [hcont]
  · simp [loopMode]; exact run_pop cb d s rest hrest
  · simp [loopMode, run_halted]
  · simp [loopMode, run_halted]; codes

theorem sim_all {σ : Type} (cb : Cb σ) :
    (∀ v (s : σ) d p sl n, run cb ⟨.run, s⟩ (flatten v d p sl n).1 =
        ⟨modeOf (visitNode cb s v n p sl).1 d, (visitNode cb s v n p sl).2⟩) ∧
    (∀ xs (s : σ) d pid i n, run cb ⟨.run, s⟩ (flattenElems xs d pid i n).1 =
        ⟨loopMode (visitElems cb s xs pid i n).1 d, (visitElems cb s xs pid i n).2⟩) ∧
    (∀ kvs (s : σ) d pid n, run cb ⟨.run, s⟩ (flattenMembers kvs d pid n).1 =
        ⟨loopMode (visitMembers cb s kvs pid n).1 d, (visitMembers cb s kvs pid n).2⟩) := by
  refine tree_ind ?_ ?_ ?_ ?_ ?_ ?_ ?_
  · -- scalars
    intro v hv s d p sl n
    rw [flatten_leaf v hv, visitNode_leaf cb s v hv, run_cons, step_run]
    have hcall : (⟨false, d, n, v, p, sl⟩ : Ev).call = ⟨n, v, 0, p, sl⟩ := by simp [Ev.call]
    rw [hcall]
    generalize cb s ⟨n, v, 0, p, sl⟩ = r
    obtain ⟨c1, s1⟩ := r
    dsimp only
    rcases code_cases c1 with h1 | h1 | h1 | h1 | h1 | ⟨h1, h2, h3, h4, h5⟩
    · subst h1; simp [run, react]
    · subst h1; simp [run]; unfold react; codes
    · subst h1; simp [run]; unfold react; codes
    · subst h1; simp [run]; unfold react; codes
    · subst h1; simp [run]; unfold react; codes
    · rw [firstSwitch_invalid h1 h2 h3 h4 h5]; simp [run]; unfold react; codes
  · -- arrays
    intro xs ih s d p sl n
    rw [flatten, visitNode]
    dsimp only
    split
    · next c hc =>
      exact container_first_some cb s d n (.arr xs) p sl rfl _ (flatten_depth_all.2.1 xs (d + 1) n 0 (n + 1)) c hc
    · next hc =>
      rw [container_first_none cb s d n (.arr xs) p sl _ hc, ih]
      exact container_leave cb _ d n (.arr xs) p sl (visitElems_ret cb _ _ _ _ _)
  · -- objects
    intro kvs ih s d p sl n
    rw [flatten, visitNode]
    dsimp only
    split
    · next c hc =>
      exact container_first_some cb s d n (.obj kvs) p sl rfl _ (flatten_depth_all.2.2 kvs (d + 1) n (n + 1)) c hc
    · next hc =>
      rw [container_first_none cb s d n (.obj kvs) p sl _ hc, ih]
      exact container_leave cb _ d n (.obj kvs) p sl (visitMembers_ret cb _ _ _ _)
  · intro s d pid i n; simp [flattenElems, visitElems, run, loopMode]
  · intro x xs ihx ihxs s d pid i n
    rw [flattenElems, visitElems]
    dsimp only
    rw [run_append, ihx, flatten_next]
    exact loop_step cb d _ (visitNode_valid cb s x n (some pid) (.idx i)) _
      (flatten_depth_all.2.1 xs d pid (i + 1) (n + x.size)) _ (ihxs _ d pid (i + 1) (n + x.size))
  · intro s d pid n; simp [flattenMembers, visitMembers, run, loopMode]
  · intro k v kvs ihv ihkvs s d pid n
    rw [flattenMembers, visitMembers]
    dsimp only
    rw [run_append, ihv, flatten_next]
    exact loop_step cb d _ (visitNode_valid cb s v n (some pid) (.key k)) _
      (flatten_depth_all.2.2 kvs d pid (n + v.size)) _ (ihkvs _ d pid (n + v.size))

/-! ### labels -/
theorem flatten_range_all :
    (∀ v d p sl n, ∀ e ∈ (flatten v d p sl n).1, n ≤ e.node ∧ e.node < n + v.size) ∧
    (∀ xs d pid i n, ∀ e ∈ (flattenElems xs d pid i n).1, n ≤ e.node ∧ e.node < n + JVal.sizeList xs) ∧
    (∀ kvs d pid n, ∀ e ∈ (flattenMembers kvs d pid n).1, n ≤ e.node ∧ e.node < n + JVal.sizeMembers kvs) := by
  refine tree_ind ?_ ?_ ?_ ?_ ?_ ?_ ?_
  · intro v hv d p sl n e he
    rw [flatten_leaf v hv] at he
    simp at he; subst he
    cases v <;> simp [isContainer] at hv <;> simp [JVal.size]
  · intro xs ih d p sl n e he
    simp [flatten] at he
    rcases he with he | he | he
    · subst he; simp [JVal.size]; omega
    · have := ih _ _ _ _ e he; simp [JVal.size]; omega
    · subst he; simp [JVal.size]; omega
  · intro kvs ih d p sl n e he
    simp [flatten] at he
    rcases he with he | he | he
    · subst he; simp [JVal.size]; omega
    · have := ih _ _ _ e he; simp [JVal.size]; omega
    · subst he; simp [JVal.size]; omega
  · intro d pid i n e he; simp [flattenElems] at he
  · intro x xs ihx ihxs d pid i n e he
    simp [flattenElems] at he
    rcases he with he | he
    · have := ihx _ _ _ _ e he; simp [JVal.sizeList]; omega
    · rw [flatten_next] at he; have := ihxs _ _ _ _ e he; simp [JVal.sizeList]; omega
  · intro d pid n e he; simp [flattenMembers] at he
  · intro k v kvs ihv ihkvs d pid n e he
    simp [flattenMembers] at he
    rcases he with he | he
    · have := ihv _ _ _ _ e he; simp [JVal.sizeMembers]; omega
    · rw [flatten_next] at he; have := ihkvs _ _ _ e he; simp [JVal.sizeMembers]; omega

theorem preorder_leaf (v : JVal) (hv : isContainer v = false) : preorder v = [v] := by
  cases v <;> simp [isContainer] at hv <;> simp [preorder]

theorem preorder_length_all :
    (∀ v, (preorder v).length = v.size) ∧
    (∀ xs, (preorderElems xs).length = JVal.sizeList xs) ∧
    (∀ kvs, (preorderMembers kvs).length = JVal.sizeMembers kvs) := by
  refine tree_ind ?_ ?_ ?_ ?_ ?_ ?_ ?_
  · intro v hv; rw [preorder_leaf v hv]; cases v <;> simp [isContainer] at hv <;> simp [JVal.size]
  · intro xs ih; simp [preorder, JVal.size, ih]; omega
  · intro kvs ih; simp [preorder, JVal.size, ih]; omega
  · simp [preorderElems, JVal.sizeList]
  · intro x xs ihx ihxs; simp [preorderElems, JVal.sizeList, ihx, ihxs]
  · simp [preorderMembers, JVal.sizeMembers]
  · intro k v kvs ihv ihkvs; simp [preorderMembers, JVal.sizeMembers, ihv, ihkvs]

theorem arrivals_append (a b : List Ev) : arrivals (a ++ b) = arrivals a ++ arrivals b := by
  simp [arrivals]

theorem flatten_arrivals_all :
    (∀ v d p sl n, (arrivals (flatten v d p sl n).1).map (·.val) = preorder v ∧
        (arrivals (flatten v d p sl n).1).map (·.node) = List.range' n v.size) ∧
    (∀ xs d pid i n, (arrivals (flattenElems xs d pid i n).1).map (·.val) = preorderElems xs ∧
        (arrivals (flattenElems xs d pid i n).1).map (·.node) = List.range' n (JVal.sizeList xs)) ∧
    (∀ kvs d pid n, (arrivals (flattenMembers kvs d pid n).1).map (·.val) = preorderMembers kvs ∧
        (arrivals (flattenMembers kvs d pid n).1).map (·.node) = List.range' n (JVal.sizeMembers kvs)) := by
  refine tree_ind ?_ ?_ ?_ ?_ ?_ ?_ ?_
  · intro v hv d p sl n
    rw [flatten_leaf v hv, preorder_leaf v hv]
    have : v.size = 1 := by cases v <;> simp [isContainer] at hv <;> simp [JVal.size]
    simp [arrivals, this]
  · intro xs ih d p sl n
    obtain ⟨h1, h2⟩ := ih (d + 1) n 0 (n + 1)
    have hs : (JVal.arr xs).size = JVal.sizeList xs + 1 := by simp [JVal.size]; omega
    rw [flatten]; dsimp only
    rw [← List.singleton_append, arrivals_append, arrivals_append, hs, List.range'_succ]
    simp [arrivals, preorder] at h1 h2 ⊢
    exact ⟨h1, h2⟩
  · intro kvs ih d p sl n
    obtain ⟨h1, h2⟩ := ih (d + 1) n (n + 1)
    have hs : (JVal.obj kvs).size = JVal.sizeMembers kvs + 1 := by simp [JVal.size]; omega
    rw [flatten]; dsimp only
    rw [← List.singleton_append, arrivals_append, arrivals_append, hs, List.range'_succ]
    simp [arrivals, preorder] at h1 h2 ⊢
    exact ⟨h1, h2⟩
  · intro d pid i n; simp [flattenElems, arrivals, preorderElems, JVal.sizeList]
  · intro x xs ihx ihxs d pid i n
    obtain ⟨a1, a2⟩ := ihx d (some pid) (.idx i) n
    obtain ⟨b1, b2⟩ := ihxs d pid (i + 1) (n + x.size)
    rw [flattenElems]; dsimp only
    rw [flatten_next, arrivals_append, List.map_append, List.map_append, a1, a2, b1, b2]
    simp [preorderElems, JVal.sizeList]
  · intro d pid n; simp [flattenMembers, arrivals, preorderMembers, JVal.sizeMembers]
  · intro k v kvs ihv ihkvs d pid n
    obtain ⟨a1, a2⟩ := ihv d (some pid) (.key k) n
    obtain ⟨b1, b2⟩ := ihkvs d pid (n + v.size)
    rw [flattenMembers]; dsimp only
    rw [flatten_next, arrivals_append, List.map_append, List.map_append, a1, a2, b1, b2]
    simp [preorderMembers, JVal.sizeMembers]


theorem flatten_sound_all :
    (∀ v d p sl n (L pre post : List JVal), L = pre ++ preorder v ++ post → pre.length = n →
        SlotSound L n v p sl → ∀ e ∈ (flatten v d p sl n).1, Ev.Sound L e) ∧
    (∀ xs d pid i n (L pre post : List JVal) (done : List JVal), L = pre ++ preorderElems xs ++ post →
        pre.length = n → L[pid]? = some (.arr (done ++ xs)) → done.length = i → pid < n →
        ∀ e ∈ (flattenElems xs d pid i n).1, Ev.Sound L e) ∧
    (∀ kvs d pid n (L pre post : List JVal) (done : List (Bytes × JVal)), L = pre ++ preorderMembers kvs ++ post →
        pre.length = n → L[pid]? = some (.obj (done ++ kvs)) → pid < n →
        ∀ e ∈ (flattenMembers kvs d pid n).1, Ev.Sound L e) := by
  refine tree_ind ?_ ?_ ?_ ?_ ?_ ?_ ?_
  · intro v hv d p sl n L pre post hL hn hs e he
    rw [flatten_leaf v hv] at he
    simp at he; subst he
    refine ⟨?_, hs⟩
    rw [preorder_leaf v hv] at hL
    subst hL; subst hn; simp
  · intro xs ih d p sl n L pre post hL hn hs e he
    have hLn : L[n]? = some (.arr xs) := by subst hL; subst hn; simp [preorder]
    simp [flatten] at he
    rcases he with he | he | he
    · subst he; exact ⟨hLn, hs⟩
    · refine ih (d + 1) n 0 (n + 1) L (pre ++ [.arr xs]) post [] ?_ ?_ ?_ rfl (by omega) e he
      · rw [hL]; simp [preorder]
      · simp [hn]
      · simpa using hLn
    · subst he; exact ⟨hLn, hs⟩
  · intro kvs ih d p sl n L pre post hL hn hs e he
    have hLn : L[n]? = some (.obj kvs) := by subst hL; subst hn; simp [preorder]
    simp [flatten] at he
    rcases he with he | he | he
    · subst he; exact ⟨hLn, hs⟩
    · refine ih (d + 1) n (n + 1) L (pre ++ [.obj kvs]) post [] ?_ ?_ ?_ (by omega) e he
      · rw [hL]; simp [preorder]
      · simp [hn]
      · simpa using hLn
    · subst he; exact ⟨hLn, hs⟩
  · intro d pid i n L pre post done _ _ _ _ _ e he; simp [flattenElems] at he
  · intro x xs ihx ihxs d pid i n L pre post done hL hn hp hi hlt e he
    simp [flattenElems] at he
    rcases he with he | he
    · refine ihx d (some pid) (.idx i) n L pre (preorderElems xs ++ post) ?_ hn ?_ e he
      · rw [hL]; simp [preorderElems]
      · exact ⟨pid, done ++ x :: xs, rfl, hlt, hp, by subst hi; simp⟩
    · rw [flatten_next] at he
      refine ihxs d pid (i + 1) (n + x.size) L (pre ++ preorder x) post (done ++ [x]) ?_ ?_ ?_ ?_ (by omega) e he
      · rw [hL]; simp [preorderElems]
      · simp [hn, preorder_length_all.1 x]
      · simpa using hp
      · simp [hi]
  · intro d pid n L pre post done _ _ _ _ e he; simp [flattenMembers] at he
  · intro k v kvs ihv ihkvs d pid n L pre post done hL hn hp hlt e he
    simp [flattenMembers] at he
    rcases he with he | he
    · refine ihv d (some pid) (.key k) n L pre (preorderMembers kvs ++ post) ?_ hn ?_ e he
      · rw [hL]; simp [preorderMembers]
      · exact ⟨pid, done ++ (k, v) :: kvs, done.length, rfl, hlt, hp, by simp⟩
    · rw [flatten_next] at he
      refine ihkvs d pid (n + v.size) L (pre ++ preorder v) post (done ++ [(k, v)]) ?_ ?_ ?_ (by omega) e he
      · rw [hL]; simp [preorderMembers]
      · simp [hn, preorder_length_all.1 v]
      · simpa using hp


/-! ### logs of the reference machine -/

theorem step_withLog_cases {σ : Type} (cb : Cb σ) (m : MSt (σ × List (Call × Int))) (e : Ev) :
    step (withLog cb) m e = m ∨ step (withLog cb) m e = { m with mode := .run } ∧ (∃ d, m.mode = .skip d) ∨
    (step (withLog cb) m e = ⟨react e (cb m.st.1 e.call).1, ((cb m.st.1 e.call).2, m.st.2 ++ [(e.call, (cb m.st.1 e.call).1)])⟩
      ∧ ∀ r, m.mode ≠ .halted r) := by
  obtain ⟨mode, st⟩ := m
  cases mode with
  | halted r => left; rfl
  | skip d =>
    by_cases h : e.depth > d
    · left; simp [step, h]
    · right; left; exact ⟨by simp [step, h], d, rfl⟩
  | pop d =>
    by_cases h : e.depth ≥ d
    · left; simp [step, h]
    · right; right; exact ⟨by simp [step, h, fire, withLog], by intro r; simp⟩
  | run => right; right; exact ⟨by simp [step, fire, withLog], by intro r; simp⟩

/-- every call the machine makes is the call of an event, in list order -/
theorem run_log_sublist {σ : Type} (cb : Cb σ) (l : List Ev) (m : MSt (σ × List (Call × Int))) :
    ∃ l', (run (withLog cb) m l).st.2 = m.st.2 ++ l' ∧ (l'.map (·.1)).Sublist (l.map Ev.call) := by
  induction l generalizing m with
  | nil => exact ⟨[], by simp [run], by simp⟩
  | cons e l ih =>
    rw [run_cons]
    rcases step_withLog_cases cb m e with h | ⟨h, _⟩ | ⟨h, _⟩
    · rw [h]
      obtain ⟨l', h1, h2⟩ := ih m
      exact ⟨l', h1, by simpa using h2.cons _⟩
    · rw [h]
      obtain ⟨l', h1, h2⟩ := ih { m with mode := .run }
      exact ⟨l', h1, by simpa using h2.cons _⟩
    · rw [h]
      obtain ⟨l', h1, h2⟩ := ih _
      refine ⟨(e.call, (cb m.st.1 e.call).1) :: l', ?_, ?_⟩
      · rw [h1]; simp
      · simpa using h2.cons_cons e.call

/-- when the user function always answers CONTINUE the machine makes the call of every event -/
theorem run_log_continue {σ : Type} (cb : Cb σ) (hc : ∀ s c, (cb s c).1 = visitContinue) (l : List Ev)
    (s : σ) (log : List (Call × Int)) :
    (run (withLog cb) ⟨.run, (s, log)⟩ l).mode = .run ∧
    (run (withLog cb) ⟨.run, (s, log)⟩ l).st.2 = log ++ l.map (fun e => (e.call, visitContinue)) := by
  induction l generalizing s log with
  | nil => simp [run]
  | cons e l ih =>
    rw [run_cons]
    have : step (withLog cb) ⟨.run, (s, log)⟩ e = ⟨.run, ((cb s e.call).2, log ++ [(e.call, visitContinue)])⟩ := by
      simp [step, fire, withLog, hc, react]
    rw [this]
    obtain ⟨h1, h2⟩ := ih (cb s e.call).2 (log ++ [(e.call, visitContinue)])
    exact ⟨h1, by rw [h2]; simp⟩

/-- codes that let the traversal go on -/
def GoesOn (r : Int) : Prop := r = visitContinue ∨ r = visitSkip ∨ r = visitPop

theorem react_goesOn (e : Ev) (r : Int) (h : GoesOn r) : ∀ res, react e r ≠ .halted res := by
  intro res
  rcases h with h | h | h <;> subst h <;> unfold react <;> split <;> codes
  all_goals split <;> simp

theorem react_not_goesOn (e : Ev) (r : Int) (h : ¬ GoesOn r) :
    react e r = .halted (if r = visitStop then .success else .failure) := by
  unfold GoesOn at h
  have h1 : r ≠ visitContinue := fun h' => h (Or.inl h')
  have h2 : r ≠ visitSkip := fun h' => h (Or.inr (Or.inl h'))
  have h3 : r ≠ visitPop := fun h' => h (Or.inr (Or.inr h'))
  unfold react
  by_cases hs : r = visitStop
  · subst hs; codes
  · simp [h1, h2, h3, hs]

/-- log invariant: only the last recorded call can carry a code that ends the traversal, and it does so
exactly when the machine has halted -/
def LogInv {σ : Type} (m : MSt (σ × List (Call × Int))) : Prop :=
  match m.mode with
  | .halted res => ∃ init c r, m.st.2 = init ++ [(c, r)] ∧ (∀ x ∈ init, GoesOn x.2) ∧ ¬ GoesOn r ∧
      res = (if r = visitStop then .success else .failure)
  | _ => ∀ x ∈ m.st.2, GoesOn x.2

theorem step_logInv {σ : Type} (cb : Cb σ) (m : MSt (σ × List (Call × Int))) (e : Ev) (h : LogInv m) :
    LogInv (step (withLog cb) m e) := by
  rcases step_withLog_cases cb m e with h' | ⟨h', d, hd⟩ | ⟨h', hnh⟩
  · rw [h']; exact h
  · rw [h']; obtain ⟨mode, st⟩ := m; dsimp only at hd; subst hd; exact h
  · rw [h']
    have hall : ∀ x ∈ m.st.2, GoesOn x.2 := by
      obtain ⟨mode, st⟩ := m
      cases mode with
      | halted r => exact absurd rfl (hnh r)
      | _ => exact h
    by_cases hg : GoesOn (cb m.st.1 e.call).1
    · have := react_goesOn e _ hg
      unfold LogInv
      split
      · next res hres => exact absurd hres (this res)
      · intro x hx
        simp at hx
        rcases hx with hx | hx
        · exact hall x hx
        · subst hx; exact hg
    · unfold LogInv
      rw [react_not_goesOn e _ hg]
      exact ⟨m.st.2, e.call, _, rfl, hall, hg, rfl⟩

theorem run_logInv {σ : Type} (cb : Cb σ) (l : List Ev) (m : MSt (σ × List (Call × Int))) (h : LogInv m) :
    LogInv (run (withLog cb) m l) := by
  induction l generalizing m with
  | nil => exact h
  | cons e l ih => rw [run_cons]; exact ih _ (step_logInv cb m e h)


/-- what the log invariant says about a whole reference traversal: either every recorded code lets the
traversal go on and the result is success, or the last recorded code (and only it) does not, and the result is
success for STOP and failure for anything else -/
theorem traverse_log_cases {σ : Type} (cb : Cb σ) (s : σ) (t : JVal) :
    ((traverse (withLog cb) (s, []) t).1.toInt = 0 ∧ ∀ x ∈ (traverse (withLog cb) (s, []) t).2.2, GoesOn x.2) ∨
    (∃ init c r, (traverse (withLog cb) (s, []) t).2.2 = init ++ [(c, r)] ∧ (∀ x ∈ init, GoesOn x.2) ∧ ¬ GoesOn r ∧
      (traverse (withLog cb) (s, []) t).1.toInt = if r = visitStop then 0 else visitError) := by
  have hinv := run_logInv cb (events t) ⟨.run, (s, [])⟩ (by intro x hx; simp at hx)
  unfold traverse
  unfold run at hinv
  dsimp only
  generalize (events t).foldl (step (withLog cb)) ⟨.run, (s, [])⟩ = m at hinv
  obtain ⟨mode, st⟩ := m
  cases mode with
  | halted res =>
    right
    obtain ⟨init, c, r, h1, h2, h3, h4⟩ := hinv
    refine ⟨init, c, r, h1, h2, h3, ?_⟩
    dsimp only [Mode.result]
    rw [h4]; split <;> rfl
  | _ => left; exact ⟨rfl, hinv⟩

/-! ### unfolding `_json_c_visit` -/
theorem visitNode_first_some {σ : Type} (cb : Cb σ) (s : σ) (v : JVal) (id : Nat) (p : Option Nat) (sl : Slot)
    (c : Int) (h : firstSwitch (cb s ⟨id, v, 0, p, sl⟩).1 = some c) :
    visitNode cb s v id p sl = (c, (cb s ⟨id, v, 0, p, sl⟩).2) := by
  cases v with
  | arr xs => rw [visitNode]; simp only [h]
  | obj kvs => rw [visitNode]; simp only [h]
  | _ => rw [visitNode_leaf _ _ _ rfl]; simp only [h]

theorem visitNode_arr_continue {σ : Type} (cb : Cb σ) (s : σ) (xs : List JVal) (id : Nat) (p : Option Nat) (sl : Slot)
    (h : (cb s ⟨id, .arr xs, 0, p, sl⟩).1 = visitContinue) :
    visitNode cb s (.arr xs) id p sl =
      afterLoop cb (visitElems cb (cb s ⟨id, .arr xs, 0, p, sl⟩).2 xs id 0 (id + 1)) ⟨id, .arr xs, visitSecond, p, sl⟩ := by
  rw [visitNode]; simp only [h, firstSwitch_continue]

theorem visitNode_obj_continue {σ : Type} (cb : Cb σ) (s : σ) (kvs : List (Bytes × JVal)) (id : Nat) (p : Option Nat)
    (sl : Slot) (h : (cb s ⟨id, .obj kvs, 0, p, sl⟩).1 = visitContinue) :
    visitNode cb s (.obj kvs) id p sl =
      afterLoop cb (visitMembers cb (cb s ⟨id, .obj kvs, 0, p, sl⟩).2 kvs id (id + 1)) ⟨id, .obj kvs, visitSecond, p, sl⟩ := by
  rw [visitNode]; simp only [h, firstSwitch_continue]

theorem afterLoop_not_ret {σ : Type} (cb : Cb σ) (l : LoopEnd × σ) (c2 : Call) (h : ∀ c, l.1 ≠ .ret c) :
    afterLoop cb l c2 = (secondSwitch (cb l.2 c2).1, (cb l.2 c2).2) := by
  obtain ⟨le, s⟩ := l
  cases le with
  | ret c => exact absurd rfl (h c)
  | _ => rfl

theorem visitElems_cons_next {σ : Type} (cb : Cb σ) (s : σ) (x : JVal) (xs : List JVal) (pid ii cid : Nat)
    (h : afterChild (visitNode cb s x cid (some pid) (.idx ii)).1 = .next) :
    visitElems cb s (x :: xs) pid ii cid =
      visitElems cb (visitNode cb s x cid (some pid) (.idx ii)).2 xs pid (ii + 1) (cid + x.size) := by
  rw [visitElems]; simp only [h]

theorem visitElems_cons_brk {σ : Type} (cb : Cb σ) (s : σ) (x : JVal) (xs : List JVal) (pid ii cid : Nat)
    (h : afterChild (visitNode cb s x cid (some pid) (.idx ii)).1 = .brk) :
    visitElems cb s (x :: xs) pid ii cid = (.brk, (visitNode cb s x cid (some pid) (.idx ii)).2) := by
  rw [visitElems]; simp only [h]

theorem visitMembers_cons_next {σ : Type} (cb : Cb σ) (s : σ) (k : Bytes) (v : JVal) (kvs : List (Bytes × JVal))
    (pid cid : Nat) (h : afterChild (visitNode cb s v cid (some pid) (.key k)).1 = .next) :
    visitMembers cb s ((k, v) :: kvs) pid cid =
      visitMembers cb (visitNode cb s v cid (some pid) (.key k)).2 kvs pid (cid + v.size) := by
  rw [visitMembers]; simp only [h]

theorem visitMembers_cons_brk {σ : Type} (cb : Cb σ) (s : σ) (k : Bytes) (v : JVal) (kvs : List (Bytes × JVal))
    (pid cid : Nat) (h : afterChild (visitNode cb s v cid (some pid) (.key k)).1 = .brk) :
    visitMembers cb s ((k, v) :: kvs) pid cid = (.brk, (visitNode cb s v cid (some pid) (.key k)).2) := by
  rw [visitMembers]; simp only [h]

/-- a loop that ran off the end of `pre` goes on with what follows -/
theorem visitElems_append {σ : Type} (cb : Cb σ) (rest : List JVal) :
    ∀ (pre : List JVal) (s s' : σ) (pid ii cid : Nat), visitElems cb s pre pid ii cid = (.fin, s') →
      visitElems cb s (pre ++ rest) pid ii cid =
        visitElems cb s' rest pid (ii + pre.length) (cid + JVal.sizeList pre) := by
  intro pre
  induction pre with
  | nil => intro s s' pid ii cid h; simp [visitElems] at h; subst h; simp [JVal.sizeList]
  | cons x pre ih =>
    intro s s' pid ii cid h
    rw [visitElems] at h
    rw [List.cons_append, visitElems]
    split at h
    · exact absurd (congrArg Prod.fst h) (by simp)
    · exact absurd (congrArg Prod.fst h) (by simp)
    · next hn =>
      rw [ih _ _ _ _ _ h]
      simp [JVal.sizeList]; congr 1 <;> omega

theorem visitMembers_append {σ : Type} (cb : Cb σ) (rest : List (Bytes × JVal)) :
    ∀ (pre : List (Bytes × JVal)) (s s' : σ) (pid cid : Nat), visitMembers cb s pre pid cid = (.fin, s') →
      visitMembers cb s (pre ++ rest) pid cid = visitMembers cb s' rest pid (cid + JVal.sizeMembers pre) := by
  intro pre
  induction pre with
  | nil => intro s s' pid cid h; simp [visitMembers] at h; subst h; simp [JVal.sizeMembers]
  | cons kv pre ih =>
    obtain ⟨k, v⟩ := kv
    intro s s' pid cid h
    rw [visitMembers] at h
    rw [List.cons_append, visitMembers]
    split at h
    · exact absurd (congrArg Prod.fst h) (by simp)
    · exact absurd (congrArg Prod.fst h) (by simp)
    · next hn =>
      rw [ih _ _ _ _ h]
      simp [JVal.sizeMembers]; congr 1; omega

/-! ### user functions that agree on every event give the same traversal -/
theorem run_congr {σ : Type} (cb cb' : Cb σ) (h : ∀ s e, fire cb s e = fire cb' s e) (l : List Ev) (m : MSt σ) :
    run cb m l = run cb' m l := by
  induction l generalizing m with
  | nil => rfl
  | cons e l ih =>
    rw [run_cons, run_cons]
    have : step cb m e = step cb' m e := by
      obtain ⟨mode, s⟩ := m
      cases mode <;> simp [step, h]
    rw [this]; exact ih _

end JsonC.Visit
