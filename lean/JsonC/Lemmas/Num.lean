/-
  Helper lemmas for C10 (Props/C10.lean): one lemma per (accessor, node kind) saying that the
  model computes without fault what Spec/Coerce.lean prescribes; facts about decoded doubles;
  the increment.  No property statements here.
-/
import JsonC.Model.Num
import JsonC.Spec.Coerce

set_option exponentiation.threshold 2000

namespace JsonC.Num
open JsonC JsonC.Dbl JsonC.Libc Generated JsonC.Coerce

/-! ### clamp -/

theorem clamp_lo {lo hi x : Int} (h : x ≤ lo) (hh : lo ≤ hi) : clamp lo hi x = lo := by
  unfold clamp; split
  · rfl
  · split <;> omega

theorem clamp_hi {lo hi x : Int} (h : hi ≤ x) (hh : lo ≤ hi) : clamp lo hi x = hi := by
  unfold clamp; split
  · omega
  · split <;> omega

theorem clamp_id {lo hi x : Int} (h1 : lo ≤ x) (h2 : x ≤ hi) : clamp lo hi x = x := by
  unfold clamp; split
  · omega
  · split
    · omega
    · rfl

theorem clamp_mem {lo hi x : Int} (hh : lo ≤ hi) : lo ≤ clamp lo hi x ∧ clamp lo hi x ≤ hi := by
  unfold clamp; split
  · omega
  · split <;> omega

/-! ### decoded doubles -/

theorem decode_den_pos {b : Nat} {neg : Bool} {num den : Nat} (h : decode b = .fin neg num den) :
    0 < den := by
  unfold decode at h
  simp only at h
  split at h
  · split at h <;> cases h
  · split at h
    · cases h; exact Nat.two_pow_pos _
    · split at h
      · cases h; exact Nat.one_pos
      · cases h; exact Nat.two_pow_pos _

/-- a finite double is an integer or smaller than 2^53 -/
theorem decode_int_or_small {b : Nat} {neg : Bool} {num den : Nat} (h : decode b = .fin neg num den) :
    den = 1 ∨ num < 2 ^ 53 := by
  unfold decode at h
  simp only at h
  split at h
  · split at h <;> cases h
  · split at h
    · cases h; right; omega
    · split at h
      · cases h; left; rfl
      · cases h; right; omega

/-! ### doubles read as integers -/

theorem getInt64_dbl (L : LibcNum) (bits : UInt64) (text : Option Bytes) :
    ∃ r, getInt64 L (.dbl bits text) = .ok r ∧ r.tags = [] ∧
      (ofDouble int64 bits.toNat).allows r.val (r.err.after .none) := by
  unfold getInt64 ofDouble
  simp only [numI64DblHiIncl, numI64DblLoStrict, if_true]
  generalize hd : decode bits.toNat = d
  cases d with
  | nan => simp [Dec.ge, Dec.lt, Dec.isNan, Ans.allows, ErrEff.after, int64]
  | inf neg => cases neg <;> simp [Dec.ge, Dec.lt, Ans.allows, ErrEff.after, int64]
  | fin neg num den =>
    have hden := decode_den_pos hd
    have hs := decode_int_or_small hd
    have f1 := @Nat.le_div_iff_mul_le den 9223372036854775808 num hden
    have f2 := @Nat.le_div_iff_mul_le den 9223372036854775809 num hden
    generalize hqq : num / den = q at f1 f2
    cases neg
    · simp only [Dec.ge, Dec.lt, Dec.isNan, sgnNum, TWO63, Dec.cast, ckRange, INT64_MIN, INT64_MAX, int64,
        Ans.allows, ErrEff.after, truncToZero, decide_eq_true_eq, Bool.false_eq_true, if_false, hqq]
      by_cases h1 : (num : Int) ≥ 9223372036854775808 * (den : Int)
      · rw [if_pos h1]
        refine ⟨_, rfl, rfl, ?_, ?_⟩
        · simp only []; rw [clamp_hi (by omega) (by omega)]
        · right; rw [if_neg (by omega)]; simp
      · rw [if_neg h1, if_neg (by omega), if_neg (by omega), if_pos (by omega)]
        refine ⟨_, rfl, rfl, ?_, ?_⟩
        · simp only []; rw [clamp_id (by omega) (by omega)]
        · right; rw [if_pos (by omega)]; simp
    · simp only [Dec.ge, Dec.lt, Dec.isNan, sgnNum, TWO63, Dec.cast, ckRange, INT64_MIN, INT64_MAX, int64,
        Ans.allows, ErrEff.after, truncToZero, decide_eq_true_eq, if_true, Bool.false_eq_true, if_false, hqq]
      rw [if_neg (by omega)]
      by_cases h1 : -(num : Int) < -9223372036854775808 * (den : Int)
      · rw [if_pos h1]
        refine ⟨_, rfl, rfl, ?_, ?_⟩
        · simp only []; rw [clamp_lo (by omega) (by omega)]
        · right; rw [if_neg (by omega)]; simp
      · rw [if_neg h1, if_neg (by omega), if_pos (by omega)]
        refine ⟨_, rfl, rfl, ?_, ?_⟩
        · simp only []; rw [clamp_id (by omega) (by omega)]
        · right; rw [if_pos (by omega)]; simp

theorem getUint64_dbl (L : LibcNum) (bits : UInt64) (text : Option Bytes) :
    ∃ r, getUint64 L (.dbl bits text) = .ok r ∧ r.tags = [] ∧
      (ofDouble uint64 bits.toNat).allows r.val (r.err.after .none) := by
  unfold getUint64 ofDouble
  simp only [numU64DblHiIncl, numU64DblLoStrict, if_true]
  generalize hd : decode bits.toNat = d
  cases d with
  | nan => simp [Dec.ge, Dec.lt, Dec.isNan, Ans.allows, ErrEff.after, uint64]
  | inf neg => cases neg <;> simp [Dec.ge, Dec.lt, Ans.allows, ErrEff.after, uint64]
  | fin neg num den =>
    have hden := decode_den_pos hd
    have hs := decode_int_or_small hd
    have f1 := @Nat.le_div_iff_mul_le den 18446744073709551616 num hden
    have f0 := @Nat.le_div_iff_mul_le den 1 num hden
    generalize hqq : num / den = q at f1 f0
    cases neg
    · simp only [Dec.ge, Dec.lt, Dec.isNan, sgnNum, TWO64, Dec.cast, ckRange, UINT64_MAX, uint64,
        Ans.allows, ErrEff.after, truncToZero, decide_eq_true_eq, Bool.false_eq_true, if_false, hqq]
      by_cases h1 : (num : Int) ≥ 18446744073709551616 * (den : Int)
      · rw [if_pos h1]
        refine ⟨_, rfl, rfl, ?_, ?_⟩
        · simp only []; rw [clamp_hi (by omega) (by omega)]
        · right; rw [if_neg (by omega)]; simp
      · rw [if_neg h1, if_neg (by omega), if_neg (by omega), if_pos (by omega)]
        refine ⟨_, rfl, rfl, ?_, ?_⟩
        · simp only []; rw [clamp_id (by omega) (by omega)]
        · right; rw [if_pos (by omega)]; simp
    · simp only [Dec.ge, Dec.lt, Dec.isNan, sgnNum, TWO64, Dec.cast, ckRange, UINT64_MAX, uint64,
        Ans.allows, ErrEff.after, truncToZero, decide_eq_true_eq, if_true, Bool.false_eq_true, if_false, hqq]
      rw [if_neg (by omega)]
      by_cases h1 : -(num : Int) < 0 * (den : Int)
      · rw [if_pos h1]
        refine ⟨_, rfl, rfl, ?_, ?_⟩
        · simp only []; rw [clamp_lo (by omega) (by omega)]
        · right; rw [if_neg (by omega)]; simp
      · rw [if_neg h1, if_neg (by omega), if_pos (by omega)]
        have hq0 : q = 0 := by omega
        refine ⟨_, rfl, rfl, ?_, ?_⟩
        · simp only []; rw [clamp_id (by omega) (by omega)]
        · right; rw [if_pos (by omega)]; simp

theorem getInt_dbl (L : LibcNum) (bits : UInt64) (text : Option Bytes) :
    ∃ r, getInt L (.dbl bits text) = .ok r ∧ r.tags = [] ∧
      (ofDouble int32 bits.toNat).allows r.val (r.err.after .none) := by
  unfold getInt ofDouble
  simp only [numI32DblLoStrict, numI32DblHiStrict, if_true]
  generalize hd : decode bits.toNat = d
  cases d with
  | nan => simp [Dec.gt, Dec.lt, Dec.isNan, Ans.allows, ErrEff.after, int32]
  | inf neg => cases neg <;> simp [Dec.gt, Dec.lt, Ans.allows, ErrEff.after, int32]
  | fin neg num den =>
    have hden := decode_den_pos hd
    have f1 := @Nat.le_div_iff_mul_le den 2147483647 num hden
    have f2 := @Nat.le_div_iff_mul_le den 2147483648 num hden
    have f3 := @Nat.le_div_iff_mul_le den 2147483649 num hden
    generalize hqq : num / den = q at f1 f2 f3
    cases neg
    · simp only [Dec.gt, Dec.lt, Dec.isNan, sgnNum, Dec.cast, ckRange, INT32_MIN, INT32_MAX, int32,
        Ans.allows, ErrEff.after, truncToZero, decide_eq_true_eq, Bool.false_eq_true, if_false, hqq]
      rw [if_neg (by omega)]
      by_cases h1 : (num : Int) > 2147483647 * (den : Int)
      · rw [if_pos h1]
        refine ⟨_, rfl, rfl, ?_, ?_⟩
        · simp only []; rw [clamp_hi (by omega) (by omega)]
        · right; rw [if_neg (by omega)]; simp
      · rw [if_neg h1, if_neg (by omega), if_pos (by omega)]
        refine ⟨_, rfl, rfl, ?_, ?_⟩
        · simp only []; rw [clamp_id (by omega) (by omega)]
        · right; rw [if_pos (by omega)]; simp
    · simp only [Dec.gt, Dec.lt, Dec.isNan, sgnNum, Dec.cast, ckRange, INT32_MIN, INT32_MAX, int32,
        Ans.allows, ErrEff.after, truncToZero, decide_eq_true_eq, if_true, Bool.false_eq_true, if_false, hqq]
      by_cases h1 : -(num : Int) < -2147483648 * (den : Int)
      · rw [if_pos h1]
        refine ⟨_, rfl, rfl, ?_, ?_⟩
        · simp only []; rw [clamp_lo (by omega) (by omega)]
        · right; rw [if_neg (by omega)]; simp
      · rw [if_neg h1, if_neg (by omega), if_neg (by omega), if_pos (by omega)]
        refine ⟨_, rfl, rfl, ?_, ?_⟩
        · simp only []; rw [clamp_id (by omega) (by omega)]
        · right; rw [if_pos (by omega)]; simp

/-! ### integers read as integers -/

theorem ofInt_in (t : IntTy) (v : Int) (h1 : t.lo ≤ v) (h2 : v ≤ t.hi) : ofInt t v = ⟨v, [.none]⟩ := by
  unfold ofInt; rw [clamp_id h1 h2]; simp [h1, h2]

theorem ofInt_below (t : IntTy) (v : Int) (h : v < t.lo) (hh : t.lo ≤ t.hi) : ofInt t v = ⟨t.lo, [.ERANGE]⟩ := by
  unfold ofInt; rw [clamp_lo (by omega) hh]
  have : ¬(t.lo ≤ v ∧ v ≤ t.hi) := by omega
  simp [this]

theorem ofInt_above (t : IntTy) (v : Int) (h : t.hi < v) (hh : t.lo ≤ t.hi) : ofInt t v = ⟨t.hi, [.ERANGE]⟩ := by
  unfold ofInt; rw [clamp_hi (by omega) hh]
  have : ¬(t.lo ≤ v ∧ v ≤ t.hi) := by omega
  simp [this]

theorem allows_mk (v : Int) (e : Errno) (es : List Errno) (h : e ∈ es) : (Ans.mk v es).allows v e :=
  ⟨rfl, Or.inr h⟩

theorem getInt64_int (L : LibcNum) (s : Bool) (v : Int) (h : (JVal.int s v).NumWF) :
    ∃ r, getInt64 L (.int s v) = .ok r ∧ r.tags = [] ∧ (ofInt int64 v).allows r.val (r.err.after .none) := by
  have e1 : INT64_MAX = 9223372036854775807 := rfl
  have e2 : INT64_MIN = -9223372036854775808 := rfl
  have e3 : UINT64_MAX = 18446744073709551615 := rfl
  cases s
  · simp only [JVal.NumWF] at h
    unfold getInt64
    simp only [ckRange]
    by_cases h1 : v > INT64_MAX
    · rw [if_pos h1, ofInt_above int64 v (by show INT64_MAX < v; omega) (by decide)]
      exact ⟨_, rfl, rfl, allows_mk _ _ _ (by simp [ErrEff.after])⟩
    · rw [if_neg h1, if_pos (by omega), ofInt_in int64 v (by show INT64_MIN ≤ v; omega) (by show v ≤ INT64_MAX; omega)]
      exact ⟨_, rfl, rfl, allows_mk _ _ _ (by simp [ErrEff.after])⟩
  · simp only [JVal.NumWF] at h
    unfold getInt64
    rw [ofInt_in int64 v (by show INT64_MIN ≤ v; omega) (by show v ≤ INT64_MAX; omega)]
    exact ⟨_, rfl, rfl, allows_mk _ _ _ (by simp [ErrEff.after])⟩

theorem getUint64_int (L : LibcNum) (s : Bool) (v : Int) (h : (JVal.int s v).NumWF) :
    ∃ r, getUint64 L (.int s v) = .ok r ∧ r.tags = [] ∧ (ofInt uint64 v).allows r.val (r.err.after .none) := by
  have e1 : INT64_MAX = 9223372036854775807 := rfl
  have e2 : INT64_MIN = -9223372036854775808 := rfl
  have e3 : UINT64_MAX = 18446744073709551615 := rfl
  cases s
  · simp only [JVal.NumWF] at h
    unfold getUint64
    rw [ofInt_in uint64 v (by show 0 ≤ v; omega) (by show v ≤ UINT64_MAX; omega)]
    exact ⟨_, rfl, rfl, allows_mk _ _ _ (by simp [ErrEff.after])⟩
  · simp only [JVal.NumWF] at h
    unfold getUint64
    simp only [ckRange]
    by_cases h1 : v < 0
    · rw [if_pos h1, ofInt_below uint64 v (by show v < 0; omega) (by decide)]
      exact ⟨_, rfl, rfl, allows_mk _ _ _ (by simp [ErrEff.after])⟩
    · rw [if_neg h1, if_pos (by omega), ofInt_in uint64 v (by show 0 ≤ v; omega) (by show v ≤ UINT64_MAX; omega)]
      exact ⟨_, rfl, rfl, allows_mk _ _ _ (by simp [ErrEff.after])⟩

/-- the int64 → int32 tail, for a value that is `clamp INT64_MIN INT64_MAX v` of the exact `v` -/
theorem clampInt32_spec (c v : Int) (e0 : Errno) (tags : List String)
    (hc : c = clamp INT64_MIN INT64_MAX v)
    (he : e0 = .none ∨ (e0 = .ERANGE ∧ (v < INT64_MIN ∨ v > INT64_MAX))) :
    ∃ r, clampInt32 c e0 tags = .ok r ∧ r.tags = tags ∧ (ofInt int32 v).allows r.val (r.err.after .none) := by
  have e1 : INT64_MAX = 9223372036854775807 := rfl
  have e2 : INT64_MIN = -9223372036854775808 := rfl
  have e4 : INT32_MAX = 2147483647 := rfl
  have e5 : INT32_MIN = -2147483648 := rfl
  unfold clampInt32
  have hcv : (v < INT64_MIN ∧ c = INT64_MIN) ∨ (v > INT64_MAX ∧ c = INT64_MAX) ∨ (INT64_MIN ≤ v ∧ v ≤ INT64_MAX ∧ c = v) := by
    by_cases hv : v < INT64_MIN
    · left; rw [clamp_lo (by omega) (by omega)] at hc; exact ⟨hv, hc⟩
    · by_cases hv2 : v > INT64_MAX
      · right; left; rw [clamp_hi (by omega) (by omega)] at hc; exact ⟨hv2, hc⟩
      · right; right; rw [clamp_id (by omega) (by omega)] at hc; exact ⟨by omega, by omega, hc⟩
  by_cases h1 : c < INT32_MIN
  · rw [if_pos h1, ofInt_below int32 v (by show v < INT32_MIN; omega) (by decide)]
    exact ⟨_, rfl, rfl, allows_mk _ _ _ (by simp [ErrEff.after])⟩
  · rw [if_neg h1]
    by_cases h2 : c > INT32_MAX
    · rw [if_pos h2, ofInt_above int32 v (by show INT32_MAX < v; omega) (by decide)]
      exact ⟨_, rfl, rfl, allows_mk _ _ _ (by simp [ErrEff.after])⟩
    · rw [if_neg h2, ofInt_in int32 v (by show INT32_MIN ≤ v; omega) (by show v ≤ INT32_MAX; omega)]
      have he0 : e0 = .none := by
        rcases he with he | ⟨_, he⟩
        · exact he
        · omega
      have hcv' : c = v := by omega
      subst he0; subst hcv'
      exact ⟨_, rfl, rfl, allows_mk _ _ _ (by simp [ErrEff.after])⟩

theorem getInt_int (L : LibcNum) (s : Bool) (v : Int) (h : (JVal.int s v).NumWF) :
    ∃ r, getInt L (.int s v) = .ok r ∧ r.tags = [] ∧ (ofInt int32 v).allows r.val (r.err.after .none) := by
  have e1 : INT64_MAX = 9223372036854775807 := rfl
  have e2 : INT64_MIN = -9223372036854775808 := rfl
  have e3 : UINT64_MAX = 18446744073709551615 := rfl
  cases s
  · simp only [JVal.NumWF] at h
    simp only [getInt]
    by_cases h1 : v ≥ INT64_MAX
    · rw [if_pos h1]
      exact clampInt32_spec _ v .none [] (by rw [clamp_hi (by omega) (by omega)]) (Or.inl rfl)
    · rw [if_neg h1]
      simp only [ckRange]
      rw [if_pos (by omega)]
      simp only [Outcome.bind_ok]
      exact clampInt32_spec _ v .none [] (by rw [clamp_id (by omega) (by omega)]) (Or.inl rfl)
  · simp only [JVal.NumWF] at h
    simp only [getInt]
    exact clampInt32_spec _ v .none [] (by rw [clamp_id (by omega) (by omega)]) (Or.inl rfl)

/-! ### strings read as signed integers (strtoll reference) -/

theorem scanBody_used_pos {s : Bytes} {neg : Bool} {mag k : Nat} (h : scanBody s = some (neg, mag, k)) : 0 < k := by
  unfold scanBody at h
  split at h <;> (simp only [] at h; split at h) <;> (try cases h) <;> omega

theorem scanInt_consumed_pos {s : Bytes} {r : IntScan} (h : scanInt s = some r) : 0 < r.consumed := by
  unfold scanInt at h
  simp only [] at h
  split at h
  · cases h
  · rename_i neg mag k hb
    cases h
    have := scanBody_used_pos hb
    simp only; omega

/-- json_parse_int64 over the reference strtoll, in closed form -/
theorem parseInt64_eq (L : LibcNum) (hL : ∀ t, L.strtoll t = Libc.strtoll t) (t : Bytes) :
    parseInt64 L t =
      match scanInt t with
      | none => ⟨1, none, .EINVAL, []⟩
      | some r => ⟨0, some (clamp INT64_MIN INT64_MAX r.value),
                   if INT64_MIN ≤ r.value ∧ r.value ≤ INT64_MAX then .none else .ERANGE, []⟩ := by
  have e1 : INT64_MAX = 9223372036854775807 := rfl
  have e2 : INT64_MIN = -9223372036854775808 := rfl
  simp only [parseInt64, parseTail, hL]
  unfold Libc.strtoll
  cases hsc : scanInt t with
  | none => simp
  | some r =>
    have hc := scanInt_consumed_pos hsc
    have hne : r.consumed ≠ 0 := by omega
    simp only []
    by_cases h1 : r.value < INT64_MIN
    · have : ¬(INT64_MIN ≤ r.value ∧ r.value ≤ INT64_MAX) := by omega
      rw [if_pos h1, clamp_lo (by omega) (by omega), if_neg this]
      simp [hne, e2]
    · rw [if_neg h1]
      by_cases h2 : r.value > INT64_MAX
      · have : ¬(INT64_MIN ≤ r.value ∧ r.value ≤ INT64_MAX) := by omega
        rw [if_pos h2, clamp_hi (by omega) (by omega), if_neg this]
        simp [hne, e1]
      · have : (INT64_MIN ≤ r.value ∧ r.value ≤ INT64_MAX) := by omega
        rw [if_neg h2, clamp_id (by omega) (by omega), if_pos this]
        simp [hne]

theorem getInt64_str (L : LibcNum) (hL : ∀ t, L.strtoll t = Libc.strtoll t) (s : Bytes) :
    ∃ r, getInt64 L (.str s) = .ok r ∧ r.tags = [] ∧
      (ofTextSigned int64 s).allows r.val (r.err.after .none) := by
  simp only [getInt64, useParsed, parseInt64_eq L hL]
  unfold ofTextSigned
  cases hsc : scanInt (cstr s) with
  | none => simp [ErrEff.after, Ans.allows]
  | some r =>
    simp only []
    by_cases h1 : r.value < INT64_MIN
    · have : ¬(INT64_MIN ≤ r.value ∧ r.value ≤ INT64_MAX) := by omega
      rw [ofInt_below int64 _ (by show r.value < INT64_MIN; omega) (by decide), clamp_lo (by omega) (by decide), if_neg this]
      simp [Ans.allows, ErrEff.after, int64]
    · by_cases h2 : r.value > INT64_MAX
      · have : ¬(INT64_MIN ≤ r.value ∧ r.value ≤ INT64_MAX) := by omega
        rw [ofInt_above int64 _ (by show INT64_MAX < r.value; omega) (by decide), clamp_hi (by omega) (by decide), if_neg this]
        simp [Ans.allows, ErrEff.after, int64]
      · have : (INT64_MIN ≤ r.value ∧ r.value ≤ INT64_MAX) := by omega
        rw [ofInt_in int64 _ (by show INT64_MIN ≤ r.value; omega) (by show r.value ≤ INT64_MAX; omega), clamp_id (by omega) (by omega), if_pos this]
        simp [Ans.allows, ErrEff.after]

theorem getInt_str (L : LibcNum) (hL : ∀ t, L.strtoll t = Libc.strtoll t) (s : Bytes) :
    ∃ r, getInt L (.str s) = .ok r ∧ r.tags = [] ∧
      (ofTextSigned int32 s).allows r.val (r.err.after .none) := by
  simp only [getInt, parseInt64_eq L hL]
  unfold ofTextSigned
  cases hsc : scanInt (cstr s) with
  | none => simp [ErrEff.after, Ans.allows]
  | some r =>
    simp only [ne_eq, not_true_eq_false, if_false, Option.getD_some]
    apply clampInt32_spec _ r.value _ [] rfl
    by_cases h : INT64_MIN ≤ r.value ∧ r.value ≤ INT64_MAX
    · left; rw [if_pos h]
    · right; rw [if_neg h]; exact ⟨rfl, by omega⟩

/-! ### strings read as uint64 (strtoull reference) -/

theorem dropWhile_isSpace_idem (t : Bytes) :
    (t.dropWhile isSpace).dropWhile isSpace = t.dropWhile isSpace := by
  induction t with
  | nil => rfl
  | cons c t ih =>
    by_cases hc : isSpace c = true
    · simp only [List.dropWhile_cons, hc, if_true, ih]
    · simp only [List.dropWhile_cons, hc, Bool.false_eq_true, if_false]

/-- leading white space does not change what the integer grammar finds -/
theorem scanInt_spaces (t : Bytes) :
    (scanInt t).map (fun r => (r.neg, r.mag)) = (scanInt (t.dropWhile isSpace)).map (fun r => (r.neg, r.mag)) := by
  unfold scanInt
  simp only [dropWhile_isSpace_idem]
  cases scanBody (t.dropWhile isSpace) with
  | none => rfl
  | some x => obtain ⟨a, b, c⟩ := x; rfl

theorem scanInt_neg_head {b : Bytes} {r : IntScan} (h : scanInt b = some r) :
    r.neg = true ↔ (b.dropWhile isSpace).head? = some 45 := by
  unfold scanInt at h
  simp only [] at h
  generalize b.dropWhile isSpace = s1 at h
  unfold scanBody at h
  split at h
  · cases h
  · rename_i neg mag k hb
    cases h
    simp only []
    split at hb
    · simp only [] at hb; split at hb
      · cases hb
      · cases hb; simp
    · simp only [] at hb; split at hb
      · cases hb
      · cases hb; simp
    · rename_i h45 _
      simp only [] at hb; split at hb
      · cases hb
      · cases hb
        simp only [Bool.false_eq_true, false_iff]
        cases s1 with
        | nil => simp
        | cons c t =>
          simp only [List.head?_cons, Option.some.injEq]
          intro hc; exact h45 t (by rw [hc])

theorem scanInt_of_spaces {t : Bytes} {sc : IntScan} (h : scanInt (t.dropWhile isSpace) = some sc) :
    ∃ r, scanInt t = some r ∧ r.neg = sc.neg ∧ r.mag = sc.mag := by
  have := scanInt_spaces t
  rw [h] at this
  cases hs : scanInt t with
  | none => rw [hs] at this; cases this
  | some r =>
    rw [hs] at this
    simp only [Option.map_some, Option.some.injEq, Prod.mk.injEq] at this
    exact ⟨r, rfl, this.1, this.2⟩

theorem scanInt_none_of_spaces {t : Bytes} (h : scanInt (t.dropWhile isSpace) = none) : scanInt t = none := by
  have := scanInt_spaces t
  rw [h] at this
  cases hs : scanInt t with
  | none => rfl
  | some r => rw [hs] at this; cases this

theorem parseTail_noconv (r : StrRes) (tags : List String) (h : r.consumed = 0) :
    parseTail r tags = ⟨1, none, .EINVAL, []⟩ := by
  unfold parseTail; simp [h]

theorem parseTail_conv (r : StrRes) (tags : List String) (h : r.consumed ≠ 0)
    (h2 : r.val ≠ 0 ∨ r.errno = .none) : parseTail r tags = ⟨0, some r.val, r.errno, tags⟩ := by
  unfold parseTail
  have : ¬((r.val = 0 ∧ r.errno ≠ .none) ∨ r.consumed = 0) := by
    rintro (⟨a, b⟩ | c)
    · rcases h2 with h2 | h2
      · exact h2 a
      · exact b h2
    · exact h c
  simp only []
  rw [if_neg this, if_pos h]

/-- a successful parse has stored its value: the accessor never reads it uninitialised -/
theorem useParsed_parseTail_ok (r : StrRes) (tags : List String) (site : String) :
    ∃ x, useParsed (parseTail r tags) site = .ok x := by
  by_cases h : r.consumed = 0
  · rw [parseTail_noconv r tags h]; exact ⟨_, rfl⟩
  · by_cases h2 : r.val ≠ 0 ∨ r.errno = .none
    · rw [parseTail_conv r tags h h2]; exact ⟨_, rfl⟩
    · unfold parseTail
      have : (r.val = 0 ∧ r.errno ≠ .none) ∨ r.consumed = 0 := by
        left; constructor
        · by_cases hv : r.val = 0
          · exact hv
          · exact absurd (Or.inl hv) h2
        · intro he; exact h2 (Or.inr he)
      simp only []
      rw [if_pos this]
      exact ⟨_, rfl⟩

/-- the reference strtoull in closed form -/
theorem strtoull_some {b : Bytes} {sc : IntScan} (h : scanInt b = some sc) :
    Libc.strtoull b =
      if (sc.mag : Int) > UINT64_MAX then ⟨UINT64_MAX, sc.consumed, .ERANGE⟩
      else if sc.neg ∧ sc.mag ≠ 0 then ⟨UINT64_MAX + 1 - sc.mag, sc.consumed, .none⟩
      else ⟨sc.mag, sc.consumed, .none⟩ := by
  unfold Libc.strtoull; rw [h]

theorem getUint64_str (L : LibcNum) (hL : ∀ t, L.strtoull t = Libc.strtoull t) (s : Bytes) :
    ∃ r, getUint64 L (.str s) = .ok r ∧ r.tags = [] ∧
      (ofTextUnsigned s).allows r.val (r.err.after .none) := by
  have e3 : UINT64_MAX = 18446744073709551615 := rfl
  simp only [getUint64, parseUint64, hL]
  unfold ofTextUnsigned
  generalize hb : (cstr s).dropWhile isSpace = b
  split
  · -- b = '-' :: _ : refused with EINVAL
    rename_i rest
    simp only [useParsed]
    refine ⟨_, rfl, rfl, ?_⟩
    cases hsc : scanInt (cstr s) with
    | none => exact ⟨rfl, Or.inr (by simp [ErrEff.after])⟩
    | some r =>
      have hidem : (45 :: rest).dropWhile isSpace = 45 :: rest := by rw [← hb]; exact dropWhile_isSpace_idem _
      have hneg : r.neg = true := by
        rw [scanInt_neg_head hsc, hb]; rfl
      simp only [hneg, if_true]
      split <;> exact ⟨rfl, Or.inr (by simp [ErrEff.after])⟩
  · rename_i hnot
    cases hsc : scanInt b with
    | none =>
      have hr : Libc.strtoull b = ⟨0, 0, .none⟩ := by unfold Libc.strtoull; rw [hsc]
      rw [hr, parseTail_noconv _ _ rfl]
      rw [← hb] at hsc
      rw [scanInt_none_of_spaces hsc]
      simp [useParsed, ErrEff.after, Ans.allows]
    | some sc =>
      have hc := scanInt_consumed_pos hsc
      have hne : sc.consumed ≠ 0 := by omega
      have hnh := scanInt_neg_head hsc
      have hidem : b.dropWhile isSpace = b := by rw [← hb]; exact dropWhile_isSpace_idem _
      -- the text does not start with '-', so the scan found no minus sign
      have hng : sc.neg = false := by
        cases hsn : sc.neg with
        | false => rfl
        | true =>
          rw [hsn, hidem] at hnh
          have h45 := hnh.mp rfl
          cases b with
          | nil => cases h45
          | cons c t =>
            simp only [List.head?_cons, Option.some.injEq] at h45
            exact absurd (by rw [h45]) (hnot t)
      have hsc' := hsc
      rw [← hb] at hsc'
      obtain ⟨r, hr, hn, hm⟩ := scanInt_of_spaces hsc'
      rw [hr, strtoull_some hsc]
      simp only [hn, hng, hm, Bool.false_eq_true, if_false, false_and]
      by_cases h1 : (sc.mag : Int) > UINT64_MAX
      · rw [if_pos h1, parseTail_conv _ _ hne (Or.inl (by simp [e3]))]
        simp only [useParsed, if_true]
        rw [ofInt_above uint64 _ (by show UINT64_MAX < (sc.mag : Int); omega) (by decide)]
        exact ⟨_, rfl, rfl, rfl, Or.inr (by simp [ErrEff.after])⟩
      · rw [if_neg h1, parseTail_conv _ _ hne (Or.inr rfl)]
        simp only [useParsed, if_true]
        rw [ofInt_in uint64 _ (by show (0:Int) ≤ (sc.mag : Int); omega) (by show (sc.mag : Int) ≤ UINT64_MAX; omega)]
        exact ⟨_, rfl, rfl, rfl, Or.inr (by simp [ErrEff.after])⟩

end JsonC.Num
