/-
  Helper lemmas for C20 (never property statements): the loop invariants of the write loop and of
  the read loop, plumbing about C strings / message formatting, facts about the regenerated
  constants.  The print buffer is handled through the C19 theorems (memappend_refines, new_refines).
-/
import JsonC.Model.FdIO
import JsonC.Spec.FdIO
import JsonC.Props.C19

namespace JsonC.FdIO
open JsonC Generated FdSpec
open JsonC.Printbuf (Pb Inv contents memappend_refines new_refines contents_length)

/-! ### facts about the regenerated constants (re-checked on every run) -/
theorem fileBuf_pos : 1 ≤ fileBufSize := by decide
theorem fileBuf_le_intMax : fileBufSize ≤ intMax := by decide
theorem lastErr_room : 2 ≤ lastErrSize := by decide
theorem depth_default_pos : 1 ≤ tokenerDefaultDepth := by decide

/-- the format starts with a literal character (not a conversion, not the end of the string) -/
def startsLit (f : Bytes) : Bool :=
  match f with
  | c :: _ => c != 37 && c != 0
  | [] => false

theorem fmtFromFdTokNew_lit : startsLit fmtFromFdTokNew = true := by decide
theorem fmtFromFdAppend_lit : startsLit fmtFromFdAppend = true := by decide
theorem fmtFromFdRead_lit : startsLit fmtFromFdRead = true := by decide
theorem fmtFromFdParse_lit : startsLit fmtFromFdParse = true := by decide
theorem fmtFromFileOpen_lit : startsLit fmtFromFileOpen = true := by decide
theorem fmtToFileNull_lit : startsLit fmtToFileNull = true := by decide
theorem fmtToFileOpen_lit : startsLit fmtToFileOpen = true := by decide
theorem fmtToFdNull_lit : startsLit fmtToFdNull = true := by decide
theorem fmtToFdWrite_lit : startsLit fmtToFdWrite = true := by decide

/-! ### the vocabulary shared by lemmas and property statements -/

/-- forget the strerror text: the OS answer as the specification sees it -/
def WRes.ans : WRes → Option Nat
  | .n k => some k
  | .err _ => none

def RRes.ans : RRes → Option Bytes
  | .data b => some b
  | .err _ => none

/-- the assumption under which the write loop terminates: a successful write accepts at least one byte -/
def WRes.Progress : WRes → Prop
  | .n k => 1 ≤ k
  | .err _ => True

/-- Each call starts where the previous one stopped, offers everything that is left, and the bytes
accepted are the bytes of `c` at that offset; nothing follows a failed call. -/
def Chained (c : Bytes) : Nat → List WCall → Prop
  | _, [] => True
  | off, call :: rest =>
    call.off = off ∧ off < c.length ∧ call.req = c.length - off ∧
    match call.got with
    | some b => b = (c.drop off).take b.length ∧ b.length ≤ call.req ∧ Chained c (off + b.length) rest
    | none => rest = []

/-- the read(2) calls a schedule causes: always `sizeof(buf)` bytes requested -/
def readLog : List RRes → List (Nat × Int)
  | [] => []
  | .err _ :: _ => [(fileBufSize, -1)]
  | .data [] :: _ => [(fileBufSize, 0)]
  | .data (b :: p) :: r => (fileBufSize, ((b :: p).length : Int)) :: readLog r

/-- bytes the schedule hands over before the first end of file / failure -/
def totalData : List RRes → Nat
  | .data (b :: p) :: r => (b :: p).length + totalData r
  | _ => 0

/-- the OS keeps its contract on the answers the loop gets to see (up to the first end of file or
failure): it never stores more than the `sizeof(buf)` bytes it was asked for -/
def PiecesOk : List RRes → Prop
  | .data (b :: p) :: r => (b :: p).length ≤ fileBufSize ∧ PiecesOk r
  | _ => True

/-- a piece a read(2) call may deliver before end of file: 1 .. sizeof(buf) bytes -/
def Piece (p : Bytes) : Prop := 1 ≤ p.length ∧ p.length ≤ fileBufSize

/-! ### C strings and messages -/

theorem takeWhile_eq_take (p : UInt8 → Bool) (s : Bytes) : s.take (s.takeWhile p).length = s.takeWhile p := by
  induction s with
  | nil => rfl
  | cons a t ih =>
    by_cases h : p a
    · simp [h, ih]
    · simp [h]

theorem length_takeWhile_le (p : UInt8 → Bool) (s : Bytes) : (s.takeWhile p).length ≤ s.length := by
  induction s with
  | nil => simp
  | cons a t ih =>
    by_cases h : p a
    · simp [h]; omega
    · simp [h]

theorem take_strlen (s : Bytes) : s.take (strlen s) = cstr s := takeWhile_eq_take _ s

theorem strlen_le (s : Bytes) : strlen s ≤ s.length := by
  unfold strlen cstr
  exact length_takeWhile_le _ _

theorem setLastErr_fmt_ne (f : Bytes) (h : startsLit f = true) (args : List Arg) :
    setLastErr (fmt f args) ≠ [] := by
  cases f with
  | nil => simp [startsLit] at h
  | cons c r =>
    simp only [startsLit, Bool.and_eq_true, bne_iff_ne, ne_eq] at h
    obtain ⟨h37, h0⟩ := h
    obtain ⟨m, hm⟩ : ∃ m, lastErrSize - 1 = m + 1 := ⟨lastErrSize - 2, by have := lastErr_room; omega⟩
    have h1 : cstr (c :: r) = c :: cstr r := by simp [cstr, h0]
    have h2 : fmt (c :: r) args = c :: fmtGo false (cstr r) args := by
      unfold fmt; rw [h1]; simp [fmtGo, h37]
    unfold setLastErr
    rw [h2, hm]
    simp [cstr, h0]

theorem getLastErr_fmt (f : Bytes) (h : startsLit f = true) (args : List Arg) :
    getLastErr (setLastErr (fmt f args)) ≠ none := by
  simp [getLastErr, setLastErr_fmt_ne f h args]

/-! ### write loop -/

theorem take_drop_within (str : Bytes) (wsize wpos d : Nat) (h : wpos + d ≤ wsize) :
    ((str.take wsize).drop wpos).take d = (str.drop wpos).take d := by
  rw [List.drop_take, List.take_take]
  congr 1; omega

/-- the invariant of `while (wpos < wsize)`, for *every* list of OS answers (zero counts included) -/
theorem writeLoop_sound (str : Bytes) (wsize : Nat) (fn le : Bytes) (hws : wsize ≤ str.length) :
    ∀ (sched : List WRes) (wpos : Nat), wpos ≤ wsize →
    ∃ o, writeLoop str wsize fn le sched wpos = .ok o ∧
      o.ret = (if wsize - wpos ≤ (okPrefix (sched.map WRes.ans)).sum then some 0
               else if (okPrefix (sched.map WRes.ans)).length < sched.length then some (-1) else none) ∧
      delivered o = (str.drop wpos).take (min (okPrefix (sched.map WRes.ans)).sum (wsize - wpos)) ∧
      Chained (str.take wsize) wpos o.calls ∧
      o.fdsLeft = 0 ∧
      (o.ret = some 0 → o.lastErr = le ∧ ∀ c ∈ o.calls, c.got ≠ none) ∧
      (o.ret = none → o.lastErr = le ∧ o.calls.length = sched.length) ∧
      (o.ret = some (-1) → o.calls.length = (okPrefix (sched.map WRes.ans)).length + 1 ∧
          ∃ e, sched[(okPrefix (sched.map WRes.ans)).length]? = some (.err e) ∧
            o.lastErr = setLastErr (fmt fmtToFdWrite [.s fn, .s e])) ∧
      ((∀ r ∈ sched, r.Progress) → o.calls.length ≤ wsize - wpos) := by
  intro sched
  induction sched with
  | nil =>
    intro wpos hw
    unfold writeLoop
    by_cases h : wpos < wsize
    · simp [h, okPrefix, delivered, Chained]; omega
    · simp [h, okPrefix, delivered, Chained]; omega
  | cons r rest ih =>
    intro wpos hw
    unfold writeLoop
    by_cases h : wpos < wsize
    · simp only [h, if_true]
      have hnf : ¬ (wpos + (wsize - wpos) > str.length + 1) := by omega
      simp only [hnf, if_false]
      cases r with
      | err e =>
        simp [okPrefix, WRes.ans, delivered, Chained]
        have hl : (str.take wsize).length = wsize := by simp; omega
        omega
      | n k =>
        obtain ⟨o', ho', hret, hdel, hch, hfd, h0, hn, he, hb⟩ := ih (wpos + min k (wsize - wpos)) (by omega)
        simp only [ho']
        have hlen : (str.take wsize).length = wsize := by simp; omega
        have hcl : ((str.drop wpos).take (min k (wsize - wpos))).length = min k (wsize - wpos) := by
          simp; omega
        refine ⟨_, rfl, ?_, ?_, ?_, hfd, ?_, ?_, ?_, ?_⟩
        · simp only [hret, List.map_cons, WRes.ans, okPrefix, List.sum_cons, List.length_cons]
          repeat' split
          all_goals first | rfl | (exfalso; omega)
        · have hd : delivered { o' with calls := ⟨wpos, wsize - wpos, some ((str.drop wpos).take (min k (wsize - wpos)))⟩ :: o'.calls }
              = (str.drop wpos).take (min k (wsize - wpos)) ++ delivered o' := by
            simp [delivered]
          rw [hd, hdel]
          simp only [List.map_cons, WRes.ans, okPrefix, List.sum_cons]
          rw [show min (k + (okPrefix (List.map WRes.ans rest)).sum) (wsize - wpos)
              = min k (wsize - wpos) + min (okPrefix (List.map WRes.ans rest)).sum (wsize - (wpos + min k (wsize - wpos))) by omega]
          rw [List.take_add, List.drop_drop]
        · simp only [Chained, hlen, hcl]
          refine ⟨trivial, h, trivial, ?_, by omega, hch⟩
          rw [take_drop_within _ _ _ _ (by omega)]
        · intro hr
          obtain ⟨h1, h2⟩ := h0 hr
          refine ⟨h1, ?_⟩
          intro c hc
          simp only [List.mem_cons] at hc
          rcases hc with hc | hc
          · subst hc; simp
          · exact h2 c hc
        · intro hr
          obtain ⟨h1, h2⟩ := hn hr
          exact ⟨h1, by simp [h2]⟩
        · intro hr
          obtain ⟨h1, e, h2, h3⟩ := he hr
          refine ⟨by simp [h1, okPrefix, WRes.ans], e, ?_, h3⟩
          simpa [okPrefix, WRes.ans] using h2
        · intro hp
          have hk : 1 ≤ k := hp (.n k) (by simp)
          have := hb (fun r hr => hp r (by simp [hr]))
          simp only [List.length_cons]
          omega
    · have hz : wsize - wpos = 0 := by omega
      simp [h, delivered, Chained, hz]

/-- under `Progress` the accepted counts add up to at least the number of successful calls -/
theorem okPrefix_progress (sched : List WRes) (hp : ∀ r ∈ sched, r.Progress) :
    (okPrefix (sched.map WRes.ans)).length ≤ (okPrefix (sched.map WRes.ans)).sum := by
  induction sched with
  | nil => simp [okPrefix]
  | cons r rest ih =>
    cases r with
    | err e => simp [okPrefix, WRes.ans]
    | n k =>
      have hk : 1 ≤ k := hp (.n k) (by simp)
      have := ih (fun r hr => hp r (by simp [hr]))
      simp only [List.map_cons, WRes.ans, okPrefix, List.length_cons, List.sum_cons]
      omega

/-- the calls before position `(okPrefix …).length` all succeeded -/
theorem okPrefix_get (sched : List WRes) (j : Nat) (hj : j < (okPrefix (sched.map WRes.ans)).length) :
    ∃ k, sched[j]? = some (.n k) := by
  induction sched generalizing j with
  | nil => simp [okPrefix] at hj
  | cons r rest ih =>
    cases r with
    | err e => simp [okPrefix, WRes.ans] at hj
    | n k =>
      cases j with
      | zero => exact ⟨k, rfl⟩
      | succ j =>
        simp only [List.map_cons, WRes.ans, okPrefix, List.length_cons] at hj
        simpa using ih j (by omega)

theorem okPrefix_length_le (sched : List WRes) : (okPrefix (sched.map WRes.ans)).length ≤ sched.length := by
  induction sched with
  | nil => simp [okPrefix]
  | cons r rest ih =>
    cases r with
    | err e => simp [okPrefix, WRes.ans]
    | n k => simp only [List.map_cons, WRes.ans, okPrefix, List.length_cons]; omega

/-! ### read loop -/

theorem bufAfter_length (buf bs : Bytes) (h : bs.length ≤ buf.length) : (bufAfter buf bs).length = buf.length := by
  simp [bufAfter]; omega

theorem bufAfter_take (buf bs : Bytes) : (bufAfter buf bs).take bs.length = bs := by
  simp [bufAfter]

theorem addReads_addReads {ρ : Type} (a b : List (Nat × Int)) (x : Outcome (ROut ρ)) :
    addReads a (addReads b x) = addReads (a ++ b) x := by
  cases x <;> simp [addReads]

/-- with the representation invariant the parser is handed initialised bytes inside the allocation -/
theorem finishRead_ok {ρ : Type} (env : Env ρ) (le : Bytes) (depth : Int) (pb : Pb) (h : Inv pb) :
    finishRead env le depth pb = .ok ⟨true, (env.parse depth (contents pb)).obj, [],
      some (depth, contents pb),
      (match (env.parse depth (contents pb)).obj with
        | none => setLastErr (fmt fmtFromFdParse [.s (env.errDesc (env.parse depth (contents pb)).err)])
        | some _ => le), [], 0⟩ := by
  unfold finishRead
  have h1 : ¬ pb.bpos > pb.cells.length := by have := h.len; have := h.bpos_le; omega
  have h2 : (pb.cells.take pb.bpos).any (·.isNone) = false := by
    rw [List.any_eq_false]
    intro x hx
    obtain ⟨i, hi⟩ := List.mem_iff_getElem?.mp hx
    rw [List.getElem?_take] at hi
    by_cases hlt : i < pb.bpos
    · simp only [hlt, if_true] at hi
      obtain ⟨b, hb⟩ := h.init i hlt
      rw [hb] at hi
      cases hi; simp
    · simp [hlt] at hi
  have hc : ¬ (pb.bpos > pb.cells.length ∨ (pb.cells.take pb.bpos).any (·.isNone) = true) := by
    simp [h1, h2]
  rw [if_neg hc]
  rfl

/-- one loop iteration on a non-empty piece: appended (C19), or refused by the print buffer in the
INT_MAX band with the failure reported -/
theorem readLoop_data_step {ρ : Type} (env : Env ρ) (le : Bytes) (fd depth : Int) (b : UInt8) (p : Bytes)
    (rest : List RRes) (pb : Pb) (buf : Bytes) (hinv : Inv pb) (hbuf : buf.length = fileBufSize)
    (hp : (b :: p).length ≤ fileBufSize) :
    (∃ pb', Inv pb' ∧ contents pb' = contents pb ++ (b :: p) ∧ pb'.bpos = pb.bpos + (b :: p).length ∧
        readLoop env le fd depth (.data (b :: p) :: rest) pb buf =
          addReads [(fileBufSize, ((b :: p).length : Int))] (readLoop env le fd depth rest pb' (bufAfter buf (b :: p)))) ∨
    ((pb.bpos : Int) + (b :: p).length + 1 > Printbuf.INT_MAX - pbExtendGuard ∧
        readLoop env le fd depth (.data (b :: p) :: rest) pb buf =
          .ok ⟨true, none, [(fileBufSize, ((b :: p).length : Int))], none,
            setLastErr (fmt fmtFromFdAppend [.d pb.bpos, .d (b :: p).length, .s (env.strerror .EFBIG)]), [], 0⟩) := by
  have hlen : (bufAfter buf (b :: p)).length = fileBufSize := by
    rw [bufAfter_length _ _ (by omega)]; exact hbuf
  obtain ⟨r, hr, hrinv, hcase⟩ := memappend_refines pb hinv (bufAfter buf (b :: p)) ((b :: p).length : Int)
    (Or.inl (by rw [hlen]; exact_mod_cast hp))
  have h1 : ¬ ((b :: p).length > fileBufSize ∨ buf.length ≠ fileBufSize) := by omega
  have h2 : ¬ ((b :: p).length = 0) := by simp
  rcases hcase with ⟨hret, _, _, hc, _, hb⟩ | ⟨hret, herr, hpb, hbig⟩
  · left
    refine ⟨r.pb, hrinv, ?_, ?_, ?_⟩
    · rw [hc]; congr 1
      have : ((b :: p).length : Int).toNat = (b :: p).length := by simp
      rw [this, bufAfter_take]
    · rw [hb]; simp
    · rw [readLoop]
      simp only [h1, h2, if_false, hr]
      have : ¬ r.ret < 0 := by rw [hret]; omega
      simp only [this, if_false]
  · right
    refine ⟨by rcases hbig with hb | hb <;> omega, ?_⟩
    rw [readLoop]
    simp only [h1, h2, if_false, hr]
    have : r.ret < 0 := by rw [hret]; omega
    simp only [this, if_true, hpb, herr]

/-- the invariant of the read loop against the specification, for every schedule that stays below the
print buffer's INT_MAX band -/
theorem readLoop_sound {ρ : Type} (env : Env ρ) (le : Bytes) (fd depth : Int) :
    ∀ (sched : List RRes) (pb : Pb) (buf : Bytes), Inv pb → buf.length = fileBufSize →
    PiecesOk sched →
    (pb.bpos : Int) + totalData sched + 1 ≤ Printbuf.INT_MAX - pbExtendGuard →
    ∃ o, readLoop env le fd depth sched pb buf = .ok o ∧ o.reads = readLog sched ∧ o.fdsLeft = 0 ∧
      match specRead (sched.map RRes.ans) (contents pb) with
      | .pending => o.done = false ∧ o.obj = none ∧ o.parsed = none ∧ o.lastErr = le
      | .ioError => o.done = true ∧ o.obj = none ∧ o.parsed = none ∧ o.live = [] ∧
          ∃ e, RRes.err e ∈ sched ∧ o.lastErr = setLastErr (fmt fmtFromFdRead [.d fd, .s e])
      | .parse data => o.done = true ∧ o.parsed = some (depth, data) ∧ o.obj = (env.parse depth data).obj ∧
          o.live = [] ∧
          o.lastErr = (match (env.parse depth data).obj with
            | none => setLastErr (fmt fmtFromFdParse [.s (env.errDesc (env.parse depth data).err)])
            | some _ => le) := by
  intro sched
  induction sched with
  | nil => intro pb buf _ _ _ _; exact ⟨_, rfl, rfl, rfl, by simp [specRead]⟩
  | cons r rest ih =>
    intro pb buf hinv hbuf hsz hcap
    cases r with
    | err e =>
      refine ⟨_, rfl, rfl, rfl, ?_⟩
      simp [RRes.ans, specRead]
    | data bs =>
      cases bs with
      | nil =>
        have h1 : ¬ (([] : Bytes).length > fileBufSize ∨ buf.length ≠ fileBufSize) := by simp [hbuf]
        rw [readLoop, if_neg h1, if_pos List.length_nil, finishRead_ok env le depth pb hinv]
        simp only [addReads]
        refine ⟨_, rfl, ?_, ?_, ?_⟩
        · simp [readLog]
        · rfl
        · simp [RRes.ans, specRead]
      | cons b p =>
        have hp : (b :: p).length ≤ fileBufSize := hsz.1
        rcases readLoop_data_step env le fd depth b p rest pb buf hinv hbuf hp with
          ⟨pb', hinv', hc', hb', heq⟩ | ⟨hbig, _⟩
        · have hbuf' : (bufAfter buf (b :: p)).length = fileBufSize := by
            rw [bufAfter_length _ _ (by omega)]; exact hbuf
          obtain ⟨o, ho, hreads, hfd, hspec⟩ := ih pb' (bufAfter buf (b :: p)) hinv' hbuf'
            hsz.2
            (by rw [hb']; simp only [totalData] at hcap; push_cast; push_cast at hcap; omega)
          rw [heq, ho]
          refine ⟨_, rfl, by simp [readLog, hreads], hfd, ?_⟩
          simp only [List.map_cons, RRes.ans, specRead]
          rw [← hc']
          cases hs : specRead (rest.map RRes.ans) (contents pb') with
          | pending => rw [hs] at hspec; exact hspec
          | ioError =>
            rw [hs] at hspec
            obtain ⟨h1, h2, h3, h4, e, he, h5⟩ := hspec
            exact ⟨h1, h2, h3, h4, e, by simp [he], h5⟩
          | parse data => rw [hs] at hspec; exact hspec
        · exfalso
          simp only [totalData] at hcap
          have : (0 : Int) ≤ (totalData rest : Int) := by omega
          push_cast at hcap
          omega

/-- for *every* schedule (no size limit): no fault; a finished call has released everything, and a
NULL result always comes with a non-empty message -/
theorem readLoop_total {ρ : Type} (env : Env ρ) (le : Bytes) (fd depth : Int) :
    ∀ (sched : List RRes) (pb : Pb) (buf : Bytes), Inv pb → buf.length = fileBufSize →
    PiecesOk sched →
    ∃ o, readLoop env le fd depth sched pb buf = .ok o ∧ o.fdsLeft = 0 ∧
      (o.done = true → o.live = [] ∧ (o.obj = none → o.lastErr ≠ [])) ∧
      (o.done = false → o.obj = none ∧ o.lastErr = le) := by
  intro sched
  induction sched with
  | nil => intro pb buf _ _ _; exact ⟨_, rfl, rfl, by simp, by simp⟩
  | cons r rest ih =>
    intro pb buf hinv hbuf hsz
    cases r with
    | err e =>
      refine ⟨_, rfl, rfl, ?_, by simp⟩
      intro _
      exact ⟨rfl, fun _ => setLastErr_fmt_ne _ fmtFromFdRead_lit _⟩
    | data bs =>
      cases bs with
      | nil =>
        have h1 : ¬ (([] : Bytes).length > fileBufSize ∨ buf.length ≠ fileBufSize) := by simp [hbuf]
        rw [readLoop, if_neg h1, if_pos List.length_nil, finishRead_ok env le depth pb hinv]
        simp only [addReads]
        refine ⟨_, rfl, rfl, ?_, by simp⟩
        intro _
        refine ⟨rfl, ?_⟩
        intro hnone
        simp only at hnone
        simp only [hnone]
        exact setLastErr_fmt_ne _ fmtFromFdParse_lit _
      | cons b p =>
        have hp : (b :: p).length ≤ fileBufSize := hsz.1
        rcases readLoop_data_step env le fd depth b p rest pb buf hinv hbuf hp with
          ⟨pb', hinv', _, _, heq⟩ | ⟨_, heq⟩
        · have hbuf' : (bufAfter buf (b :: p)).length = fileBufSize := by
            rw [bufAfter_length _ _ (by omega)]; exact hbuf
          obtain ⟨o, ho, hfd, h1, h2⟩ := ih pb' (bufAfter buf (b :: p)) hinv' hbuf'
            hsz.2
          rw [heq, ho]
          exact ⟨_, rfl, hfd, h1, h2⟩
        · rw [heq]
          refine ⟨_, rfl, rfl, ?_, by simp⟩
          intro _
          exact ⟨rfl, fun _ => setLastErr_fmt_ne _ fmtFromFdAppend_lit _⟩

theorem piecesOk_of_all (sched : List RRes) (h : ∀ b, RRes.data b ∈ sched → b.length ≤ fileBufSize) :
    PiecesOk sched := by
  induction sched with
  | nil => trivial
  | cons r rest ih =>
    cases r with
    | err e => trivial
    | data bs =>
      cases bs with
      | nil => trivial
      | cons b p => exact ⟨h _ (by simp), ih (fun x hx => h x (by simp [hx]))⟩

theorem piecesOk_pieces (ps : List Bytes) (hps : ∀ p ∈ ps, Piece p) (last : RRes) (rest : List RRes)
    (hlast : last = .data [] ∨ ∃ e, last = .err e) : PiecesOk (ps.map .data ++ last :: rest) := by
  induction ps with
  | nil => rcases hlast with h | ⟨e, h⟩ <;> simp [h, PiecesOk]
  | cons p ps ih =>
    cases p with
    | nil => have := (hps [] (by simp)).1; simp at this
    | cons b t =>
      exact ⟨(hps _ (by simp)).2, ih (fun q hq => hps q (by simp [hq]))⟩

/-! ### schedules made of pieces -/

theorem specRead_pieces (ps : List Bytes) (hps : ∀ p ∈ ps, 1 ≤ p.length) (rest : List (Option Bytes)) (acc : Bytes) :
    specRead (ps.map some ++ some [] :: rest) acc = .parse (acc ++ ps.flatten) := by
  induction ps generalizing acc with
  | nil => simp [specRead]
  | cons p ps ih =>
    cases p with
    | nil => have := hps [] (by simp); simp at this
    | cons b t =>
      simp only [List.map_cons, List.cons_append, specRead, List.flatten_cons]
      rw [ih (fun q hq => hps q (by simp [hq]))]
      simp

theorem specRead_pieces_err (ps : List Bytes) (hps : ∀ p ∈ ps, 1 ≤ p.length) (rest : List (Option Bytes)) (acc : Bytes) :
    specRead (ps.map some ++ none :: rest) acc = .ioError := by
  induction ps generalizing acc with
  | nil => simp [specRead]
  | cons p ps ih =>
    cases p with
    | nil => have := hps [] (by simp); simp at this
    | cons b t =>
      simp only [List.map_cons, List.cons_append, specRead]
      exact ih (fun q hq => hps q (by simp [hq])) _

theorem readLog_pieces (ps : List Bytes) (hps : ∀ p ∈ ps, 1 ≤ p.length) (last : RRes) (rest : List RRes)
    (hlast : last = .data [] ∨ ∃ e, last = .err e) :
    readLog (ps.map .data ++ last :: rest) =
      ps.map (fun p => (fileBufSize, (p.length : Int))) ++ readLog [last] := by
  induction ps with
  | nil => rcases hlast with h | ⟨e, h⟩ <;> simp [h, readLog]
  | cons p ps ih =>
    cases p with
    | nil => have := hps [] (by simp); simp at this
    | cons b t =>
      simp only [List.map_cons, List.cons_append, readLog]
      rw [ih (fun q hq => hps q (by simp [hq]))]

theorem totalData_pieces (ps : List Bytes) (hps : ∀ p ∈ ps, 1 ≤ p.length) (last : RRes) (rest : List RRes)
    (hlast : last = .data [] ∨ ∃ e, last = .err e) :
    totalData (ps.map .data ++ last :: rest) = ps.flatten.length := by
  induction ps with
  | nil => rcases hlast with h | ⟨e, h⟩ <;> simp [h, totalData]
  | cons p ps ih =>
    cases p with
    | nil => have := hps [] (by simp); simp at this
    | cons b t =>
      simp only [List.map_cons, List.cons_append, totalData, List.flatten_cons]
      rw [ih (fun q hq => hps q (by simp [hq]))]
      simp only [List.length_cons, List.length_append]
      omega

theorem okPrefix_zeros (m : Nat) :
    (okPrefix (List.replicate m (some 0))).sum = 0 ∧ (okPrefix (List.replicate m (some 0))).length = m := by
  induction m with
  | zero => simp [okPrefix]
  | succ m ih => simp [List.replicate_succ, okPrefix, ih.1, ih.2]

/-! ### the byte source -/

/-- what `serve` answers, re-attached to strerror texts (`e` for every failing call) -/
def toRRes (e : Bytes) : Option Bytes → RRes
  | some p => .data p
  | none => .err e

def serveR (e : Bytes) (req : Nat) (data : Bytes) (sizes : List (Option Nat)) : List RRes :=
  (serve req data sizes).map (toRRes e)

/-- a source that hands over at least one byte per call until its data is exhausted, asked for `req ≥ 1`
bytes per call, delivers the data in pieces of 1..req bytes followed by end of file -/
theorem serve_pieces (req : Nat) (hreq : 1 ≤ req) :
    ∀ (sizes : List (Option Nat)) (data : Bytes), (∀ x ∈ sizes, ∃ k, x = some k ∧ 1 ≤ k) →
    data.length < sizes.length →
    ∃ (ps : List Bytes) (rest : List (Option Bytes)), serve req data sizes = ps.map some ++ some [] :: rest ∧ ps.flatten = data ∧
      ∀ p ∈ ps, 1 ≤ p.length ∧ p.length ≤ req := by
  intro sizes
  induction sizes with
  | nil => intro data _ h; simp at h
  | cons x xs ih =>
    intro data hpos hlen
    obtain ⟨k, rfl, hk⟩ := hpos x (by simp)
    cases data with
    | nil =>
      refine ⟨[], serve req [] xs, ?_, rfl, by simp⟩
      simp [serve]
    | cons a t =>
      have hm : 1 ≤ min k req := by omega
      obtain ⟨ps, rest, h1, h2, h3⟩ := ih ((a :: t).drop (min k req)) (fun y hy => hpos y (by simp [hy]))
        (by simp only [List.length_drop, List.length_cons] at *; omega)
      refine ⟨(a :: t).take (min k req) :: ps, rest, ?_, ?_, ?_⟩
      · simp [serve, h1]
      · simp only [List.flatten_cons, h2, List.take_append_drop]
      · intro p hp
        simp only [List.mem_cons] at hp
        rcases hp with hp | hp
        · subst hp
          simp only [List.length_take, List.length_cons]
          omega
        · exact h3 p hp

end JsonC.FdIO
