/-
  Helper lemmas for C05: association-list heap, edge counting, payload edits.
  (No property statements here.)
-/
import JsonC.Model.Heap

namespace JsonC.Heap
open JsonC

namespace Heap

@[simp] theorem get?_nil (i : Id) : get? [] i = none := rfl
theorem get?_cons (j : Id) (n : Node) (h : Heap) (i : Id) :
    get? ((j, n) :: h) i = if j = i then some n else get? h i := rfl

theorem get?_set (h : Heap) (i : Id) (n' : Node) (j : Id) :
    get? (set h i n') j = if j = i then (get? h i).map (fun _ => n') else get? h j := by
  induction h with
  | nil => simp [set]
  | cons a h ih =>
    obtain ⟨k, m⟩ := a
    by_cases hk : k = i
    · subst hk
      by_cases hj : j = k
      · subst hj; simp [set, get?_cons]
      · have : ¬ k = j := fun e => hj e.symm
        simp [set, get?_cons, hj, this]
    · by_cases hj : j = i
      · subst hj
        simp [set, hk, get?_cons, ih]
      · by_cases hkj : k = j
        · simp [set, get?_cons, hkj, hj]
        · simp [set, hk, get?_cons, hkj, hj, ih]

theorem get?_set_self (h : Heap) (i : Id) (n n' : Node) (hg : get? h i = some n) :
    get? (set h i n') i = some n' := by
  rw [get?_set]; simp [hg]

theorem get?_set_ne (h : Heap) (i : Id) (n' : Node) (j : Id) (hne : j ≠ i) :
    get? (set h i n') j = get? h j := by
  rw [get?_set]; simp [hne]

theorem isSome_get?_set (h : Heap) (i : Id) (n' : Node) (j : Id) :
    (get? (set h i n') j).isSome = (get? h j).isSome := by
  rw [get?_set]
  by_cases hj : j = i
  · subst hj; simp
  · simp [hj]

theorem keys_set (h : Heap) (i : Id) (n' : Node) : keys (set h i n') = keys h := by
  induction h with
  | nil => rfl
  | cons a h ih =>
    obtain ⟨k, m⟩ := a
    by_cases hk : k = i
    · simp [set, hk, keys]
    · simp only [set, hk, if_false, keys, List.map_cons] at ih ⊢
      rw [ih]

theorem length_set (h : Heap) (i : Id) (n' : Node) : (set h i n').length = h.length := by
  have := congrArg List.length (keys_set h i n')
  simpa [keys] using this

theorem mem_keys_iff (h : Heap) (i : Id) : i ∈ keys h ↔ (get? h i).isSome = true := by
  induction h with
  | nil => simp [keys]
  | cons a h ih =>
    obtain ⟨k, m⟩ := a
    by_cases hk : k = i
    · simp [keys, get?_cons, hk]
    · have : ¬ i = k := fun e => hk e.symm
      simp only [keys, List.map_cons, List.mem_cons, this, false_or, get?_cons, hk, if_false]
      exact ih

theorem get?_erase_ne (h : Heap) (i j : Id) (hne : j ≠ i) : get? (erase h i) j = get? h j := by
  induction h with
  | nil => rfl
  | cons a h ih =>
    obtain ⟨k, m⟩ := a
    by_cases hk : k = i
    · subst hk
      have : ¬ k = j := fun e => hne e.symm
      simp [erase, get?_cons, this]
    · by_cases hkj : k = j
      · subst hkj; simp [erase, hk, get?_cons]
      · simp [erase, hk, get?_cons, hkj, ih]

theorem get?_erase_self (h : Heap) (i : Id) (hnd : (keys h).Nodup) : get? (erase h i) i = none := by
  induction h with
  | nil => rfl
  | cons a h ih =>
    obtain ⟨k, m⟩ := a
    simp only [keys, List.map_cons, List.nodup_cons] at hnd
    by_cases hk : k = i
    · subst hk
      simp only [erase, if_true]
      have : ¬ (get? h k).isSome = true := fun hc => hnd.1 ((mem_keys_iff h k).mpr hc)
      simpa using this
    · simp only [erase, hk, if_false, get?_cons]
      exact ih hnd.2

theorem keys_erase_sublist (h : Heap) (i : Id) : (keys (erase h i)).Sublist (keys h) := by
  induction h with
  | nil => exact List.Sublist.slnil
  | cons a h ih =>
    obtain ⟨k, m⟩ := a
    by_cases hk : k = i
    · simp only [erase, hk, if_true, keys, List.map_cons]
      exact List.sublist_cons_self _ _
    · simp only [erase, hk, if_false, keys, List.map_cons]
      exact List.Sublist.cons_cons _ ih

theorem nodup_erase (h : Heap) (i : Id) (hnd : (keys h).Nodup) : (keys (erase h i)).Nodup :=
  List.Sublist.nodup (keys_erase_sublist h i) hnd

theorem length_erase (h : Heap) (i : Id) (n : Node) (hg : get? h i = some n) :
    (erase h i).length + 1 = h.length := by
  induction h with
  | nil => simp at hg
  | cons a h ih =>
    obtain ⟨k, m⟩ := a
    by_cases hk : k = i
    · simp [erase, hk]
    · simp only [get?_cons, hk, if_false] at hg
      simp [erase, hk, ih hg]

theorem get?_append_single (h : Heap) (i : Id) (n : Node) (j : Id) :
    get? (h ++ [(i, n)]) j = match get? h j with
      | some x => some x
      | none => if i = j then some n else none := by
  induction h with
  | nil => simp [get?_cons]
  | cons a h ih =>
    obtain ⟨k, m⟩ := a
    by_cases hk : k = j
    · simp [get?_cons, hk]
    · simp only [List.cons_append, get?_cons, hk, if_false]; exact ih

/-! ### edge counting -/

theorem edges_cons (j : Id) (n : Node) (h : Heap) : edges ((j, n) :: h) = n.body.children ++ edges h := by
  simp [edges]

theorem edges_append_single (h : Heap) (i : Id) (n : Node) :
    edges (h ++ [(i, n)]) = edges h ++ n.body.children := by
  simp [edges]

theorem count_edges_set (h : Heap) (i : Id) (n n' : Node) (hg : get? h i = some n) (x : Id) :
    (edges (set h i n')).count x + n.body.children.count x =
      (edges h).count x + n'.body.children.count x := by
  induction h with
  | nil => simp at hg
  | cons a h ih =>
    obtain ⟨k, m⟩ := a
    by_cases hk : k = i
    · simp only [get?_cons, hk, if_true, Option.some.injEq] at hg
      subst hg
      simp only [set, hk, if_true, edges_cons, List.count_append]
      omega
    · simp only [get?_cons, hk, if_false] at hg
      have := ih hg
      simp only [set, hk, if_false, edges_cons, List.count_append]
      omega

theorem length_edges_set (h : Heap) (i : Id) (n n' : Node) (hg : get? h i = some n) :
    (edges (set h i n')).length + n.body.children.length =
      (edges h).length + n'.body.children.length := by
  induction h with
  | nil => simp at hg
  | cons a h ih =>
    obtain ⟨k, m⟩ := a
    by_cases hk : k = i
    · simp only [get?_cons, hk, if_true, Option.some.injEq] at hg
      subst hg
      simp only [set, hk, if_true, edges_cons, List.length_append]
      omega
    · simp only [get?_cons, hk, if_false] at hg
      have := ih hg
      simp only [set, hk, if_false, edges_cons, List.length_append]
      omega

theorem edges_set_same_body (h : Heap) (i : Id) (n n' : Node) (hg : get? h i = some n)
    (hb : n'.body = n.body) : edges (set h i n') = edges h := by
  induction h with
  | nil => rfl
  | cons a h ih =>
    obtain ⟨k, m⟩ := a
    by_cases hk : k = i
    · simp only [get?_cons, hk, if_true, Option.some.injEq] at hg
      subst hg
      simp [set, hk, edges_cons, hb]
    · simp only [get?_cons, hk, if_false] at hg
      simp [set, hk, edges_cons, ih hg]

theorem count_edges_erase (h : Heap) (i : Id) (n : Node) (hg : get? h i = some n) (x : Id) :
    (edges (erase h i)).count x + n.body.children.count x = (edges h).count x := by
  induction h with
  | nil => simp at hg
  | cons a h ih =>
    obtain ⟨k, m⟩ := a
    by_cases hk : k = i
    · simp only [get?_cons, hk, if_true, Option.some.injEq] at hg
      subst hg
      simp only [erase, hk, if_true, edges_cons, List.count_append]
      omega
    · simp only [get?_cons, hk, if_false] at hg
      have := ih hg
      simp only [erase, hk, if_false, edges_cons, List.count_append]
      omega

theorem length_edges_erase (h : Heap) (i : Id) (n : Node) (hg : get? h i = some n) :
    (edges (erase h i)).length + n.body.children.length = (edges h).length := by
  induction h with
  | nil => simp at hg
  | cons a h ih =>
    obtain ⟨k, m⟩ := a
    by_cases hk : k = i
    · simp only [get?_cons, hk, if_true, Option.some.injEq] at hg
      subst hg
      simp only [erase, hk, if_true, edges_cons, List.length_append]
      omega
    · simp only [get?_cons, hk, if_false] at hg
      have := ih hg
      simp only [erase, hk, if_false, edges_cons, List.length_append]
      omega

/-- a stored edge comes from a live node -/
theorem count_edges_pos (h : Heap) (x : Id) (hx : 0 < (edges h).count x) :
    ∃ p n, p ∈ keys h ∧ (p, n) ∈ h ∧ 0 < n.body.children.count x := by
  induction h with
  | nil => simp [edges] at hx
  | cons a h ih =>
    obtain ⟨k, m⟩ := a
    simp only [edges_cons, List.count_append] at hx
    by_cases hm : 0 < m.body.children.count x
    · exact ⟨k, m, by simp [keys], by simp, hm⟩
    · obtain ⟨p, n, hp, hmem, hc⟩ := ih (by omega)
      exact ⟨p, n, by simp [keys] at hp ⊢; exact Or.inr hp, List.mem_cons_of_mem _ hmem, hc⟩

theorem get?_of_mem (h : Heap) (hnd : (keys h).Nodup) (p : Id) (n : Node) (hm : (p, n) ∈ h) :
    get? h p = some n := by
  induction h with
  | nil => simp at hm
  | cons a h ih =>
    obtain ⟨k, m⟩ := a
    simp only [keys, List.map_cons, List.nodup_cons] at hnd
    rcases List.mem_cons.mp hm with e | hm'
    · cases e; simp [get?_cons]
    · have hpk : p ∈ keys h := List.mem_map.mpr ⟨(p, n), hm', rfl⟩
      have : k ≠ p := fun e => hnd.1 (e ▸ hpk)
      simp only [get?_cons, this, if_false]
      exact ih hnd.2 hm'

theorem mem_of_get? (h : Heap) (p : Id) (n : Node) (hg : get? h p = some n) : (p, n) ∈ h := by
  induction h with
  | nil => simp at hg
  | cons a h ih =>
    obtain ⟨k, m⟩ := a
    by_cases hk : k = p
    · simp only [get?_cons, hk, if_true, Option.some.injEq] at hg
      subst hg; subst hk; simp
    · simp only [get?_cons, hk, if_false] at hg
      exact List.mem_cons_of_mem _ (ih hg)

/-- a stored edge, seen through `get?` (needs distinct keys) -/
theorem edge_source (h : Heap) (hnd : (keys h).Nodup) (x : Id) (hx : 0 < (edges h).count x) :
    ∃ p n, get? h p = some n ∧ x ∈ n.body.children := by
  obtain ⟨p, n, _, hmem, hc⟩ := count_edges_pos h x hx
  exact ⟨p, n, get?_of_mem h hnd p n hmem, List.count_pos_iff.mp hc⟩

theorem count_edges_of_get? (h : Heap) (p : Id) (n : Node) (hg : get? h p = some n) (x : Id) :
    n.body.children.count x ≤ (edges h).count x := by
  induction h with
  | nil => simp at hg
  | cons a h ih =>
    obtain ⟨k, m⟩ := a
    by_cases hk : k = p
    · simp only [get?_cons, hk, if_true, Option.some.injEq] at hg
      subst hg
      simp only [edges_cons, List.count_append]; omega
    · simp only [get?_cons, hk, if_false] at hg
      have := ih hg
      simp only [edges_cons, List.count_append]; omega

end Heap

/-! ### payload edits: what each container operation does to the multiset of child references -/

theorem count_toList (v : Option Id) (x : Id) : v.toList.count x = if v = some x then 1 else 0 := by
  cases v with
  | none => simp
  | some j =>
    by_cases h : j = x
    · subst h; simp
    · simp [h]

theorem count_toList_pos (v : Option Id) (x : Id) (h : 0 < v.toList.count x) : v = some x := by
  rw [count_toList] at h
  by_cases e : v = some x
  · exact e
  · simp [e] at h

theorem filterMap_id_replicate_none (k : Nat) : (List.replicate k (none : Option Id)).filterMap id = [] := by
  induction k with
  | zero => rfl
  | succ k ih => simp [List.replicate_succ, ih]

theorem children_arr_append (xs : List (Option Id)) (v : Option Id) :
    (Body.arr (xs ++ [v])).children = (Body.arr xs).children ++ v.toList := by
  cases v <;> simp [Body.children]

theorem children_arr_pad (xs : List (Option Id)) (k : Nat) (v : Option Id) :
    (Body.arr (xs ++ List.replicate k none ++ [v])).children = (Body.arr xs).children ++ v.toList := by
  cases v <;> simp [Body.children]

theorem count_children_arr_set (xs : List (Option Id)) (idx : Nat) (v : Option Id) (hi : idx < xs.length)
    (x : Id) :
    (Body.arr (xs.set idx v)).children.count x + (xs.getD idx none).toList.count x =
      (Body.arr xs).children.count x + v.toList.count x := by
  induction xs generalizing idx with
  | nil => simp at hi
  | cons a xs ih =>
    cases idx with
    | zero =>
      simp only [List.set_cons_zero, Body.children, List.getD_cons_zero]
      cases a <;> cases v <;> simp [List.count_cons] <;> omega
    | succ idx =>
      have := ih idx (by simpa using hi)
      simp only [Body.children, List.set_cons_succ, List.getD_cons_succ] at this ⊢
      cases a with
      | none => simpa using this
      | some b =>
        simp only [List.filterMap_cons, id_eq, List.count_cons] at this ⊢
        omega

theorem count_children_arr_insert (xs : List (Option Id)) (idx : Nat) (v : Option Id) (x : Id) :
    (Body.arr (xs.take idx ++ v :: xs.drop idx)).children.count x =
      (Body.arr xs).children.count x + v.toList.count x := by
  have h : (Body.arr xs).children = (xs.take idx).filterMap id ++ (xs.drop idx).filterMap id := by
    simp only [Body.children]
    rw [← List.filterMap_append, List.take_append_drop]
  rw [h]
  simp only [Body.children, List.filterMap_append, List.count_append]
  cases v with
  | none => simp
  | some j => simp [List.count_cons]; omega

theorem count_children_arr_del (xs : List (Option Id)) (idx cnt : Nat) (x : Id) :
    (Body.arr (xs.take idx ++ xs.drop (idx + cnt))).children.count x +
        (((xs.drop idx).take cnt).filterMap id).count x =
      (Body.arr xs).children.count x := by
  have h : xs = xs.take idx ++ ((xs.drop idx).take cnt ++ xs.drop (idx + cnt)) := by
    have h2 : (xs.drop idx).take cnt ++ xs.drop (idx + cnt) = xs.drop idx := by
      rw [← List.drop_drop, List.take_append_drop]
    rw [h2, List.take_append_drop]
  have : (Body.arr xs).children.count x =
      ((xs.take idx).filterMap id).count x + ((((xs.drop idx).take cnt).filterMap id).count x +
        ((xs.drop (idx + cnt)).filterMap id).count x) := by
    simp only [Body.children]
    conv => lhs; rw [h]
    simp only [List.filterMap_append, List.count_append]
  rw [this]
  simp only [Body.children, List.filterMap_append, List.count_append]
  omega

theorem children_obj_append (kvs : List (Key × Option Id)) (k : Key) (v : Option Id) :
    (Body.obj (kvs ++ [(k, v)])).children = (Body.obj kvs).children ++ v.toList := by
  cases v <;> simp [Body.children]

theorem count_children_setKey (kvs : List (Key × Option Id)) (k : Key) (v old : Option Id)
    (hf : findKey kvs k = some old) (x : Id) :
    (Body.obj (setKey kvs k v)).children.count x + old.toList.count x =
      (Body.obj kvs).children.count x + v.toList.count x := by
  induction kvs with
  | nil => simp [findKey] at hf
  | cons a kvs ih =>
    obtain ⟨k', v'⟩ := a
    by_cases hk : k' = k
    · simp only [findKey, hk, if_true, Option.some.injEq] at hf
      subst hf
      simp only [setKey, hk, if_true, Body.children]
      cases v' <;> cases v <;> simp [List.count_cons] <;> omega
    · simp only [findKey, hk, if_false] at hf
      have := ih hf
      simp only [setKey, hk, if_false, Body.children] at this ⊢
      cases v' with
      | none => simpa using this
      | some b =>
        simp only [List.filterMap_cons, List.count_cons] at this ⊢
        omega

theorem count_children_eraseKey (kvs : List (Key × Option Id)) (k : Key) (old : Option Id)
    (hf : findKey kvs k = some old) (x : Id) :
    (Body.obj (eraseKey kvs k)).children.count x + old.toList.count x =
      (Body.obj kvs).children.count x := by
  induction kvs with
  | nil => simp [findKey] at hf
  | cons a kvs ih =>
    obtain ⟨k', v'⟩ := a
    by_cases hk : k' = k
    · simp only [findKey, hk, if_true, Option.some.injEq] at hf
      subst hf
      simp only [eraseKey, hk, if_true, Body.children]
      cases v' <;> simp [List.count_cons]
    · simp only [findKey, hk, if_false] at hf
      have := ih hf
      simp only [eraseKey, hk, if_false, Body.children] at this ⊢
      cases v' with
      | none => simpa using this
      | some b =>
        simp only [List.filterMap_cons, List.count_cons] at this ⊢
        omega

end JsonC.Heap
