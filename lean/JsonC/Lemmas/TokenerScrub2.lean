/-
  Consequences of "dead scratch fields do not matter" (Lemmas/TokenerScrub):

   * a reset tokener behaves exactly like a new one (C04), for one call and for any sequence of calls;
   * after a call that returned success the tokener is as good as new for the next document (C03,
     stream clause).  This needs the one non-scratch register that `json_tokener_reset` clears and the
     success path does not: `high_surrogate` (`hs`).  `HsInv` - a pending high surrogate only exists
     while the top level is in one of the three \u-continuation states - is established by
     new / reset, preserved by every dispatch, and at a success the top level is (eatws, finish) or
     finish, so `hs = 0`.
-/
import JsonC.Lemmas.TokenerScrub
import JsonC.Lemmas.TokenerStep
namespace JsonC.Tokener
open JsonC

/-! ### reset ≈ new -/

/-- what `json_tokener_new_ex(depth, flags)` returns (for depth ≥ 1) -/
def freshTok (maxDepth flags : Nat) : Tok :=
  { stack := [freshLevel], maxDepth := maxDepth, pb := [], stPos := 0, isDouble := false, ucs := 0, hs := 0,
    quote := 0, flags := flags }

theorem new_eq_fresh {d : Int} {f : Nat} {n : Tok} (h : Tokener.new d f = some n) : n = freshTok d.toNat f := by
  unfold Tokener.new at h
  split at h
  · cases h
  · cases h; rfl

theorem reset_eqv_fresh (t : Tok) : Eqv (reset t) (freshTok t.maxDepth t.flags) :=
  eqv_of_fresh rfl rfl rfl rfl rfl

/-- the observable part of a call's result -/
def Final.obs (f : Final) : Err × Option JVal × Nat × Bool × Option String :=
  (f.err, f.value, f.offset, f.stuck, f.fault)

/-- a sequence of `json_tokener_parse_ex` calls on the same tokener: the observable results -/
def runCalls (lc : Libc) (t : Tok) : List Bytes → List (Err × Option JVal × Nat × Bool × Option String)
  | [] => []
  | d :: ds => (parseEx lc t d).obs :: runCalls lc (parseEx lc t d).tok ds

theorem runCalls_eqv (lc : Libc) (calls : List Bytes) : ∀ {t t' : Tok}, Eqv t t' →
    runCalls lc t calls = runCalls lc t' calls := by
  induction calls with
  | nil => intro t t' _; rfl
  | cons d ds ih =>
    intro t t' h
    have r := parseEx_finalEqv lc h d
    simp only [runCalls, Final.obs, r.err, r.value, r.offset, r.stuck, r.fault, ih r.tok]

/-- **C04: a reset parser behaves exactly like a new one** (same status, value, end offset for any
bytes; the tokeners left behind are again equal up to dead scratch fields) -/
theorem reset_like_new (lc : Libc) (t : Tok) (data : Bytes) :
    let fresh : Tok := { stack := [freshLevel], maxDepth := t.maxDepth, pb := [], stPos := 0, isDouble := false,
                         ucs := 0, hs := 0, quote := 0, flags := t.flags }
    let f := parseEx lc (reset t) data; let g := parseEx lc fresh data
    f.err = g.err ∧ f.value = g.value ∧ f.offset = g.offset ∧ f.stuck = g.stuck ∧ f.fault = g.fault ∧
      Eqv f.tok g.tok :=
  parseEx_eqv lc (reset t) (freshTok t.maxDepth t.flags) (reset_eqv_fresh t) data

/-- the same, phrased with `json_tokener_new_ex` -/
theorem reset_like_new' (lc : Libc) (t n : Tok) (d : Int) (fl : Nat) (hn : Tokener.new d fl = some n)
    (hd : t.maxDepth = d.toNat) (hf : t.flags = fl) (data : Bytes) :
    let f := parseEx lc (reset t) data; let g := parseEx lc n data
    f.err = g.err ∧ f.value = g.value ∧ f.offset = g.offset ∧ f.stuck = g.stuck ∧ f.fault = g.fault ∧
      Eqv f.tok g.tok := by
  rw [new_eq_fresh hn, ← hd, ← hf]
  exact reset_like_new lc t data

/-- **C04, iterated**: any sequence of calls after a reset gives the results the same sequence of calls
gives on a new tokener -/
theorem reset_like_new_calls (lc : Libc) (t : Tok) (calls : List Bytes) :
    runCalls lc (reset t) calls = runCalls lc (freshTok t.maxDepth t.flags) calls :=
  runCalls_eqv lc calls (reset_eqv_fresh t)

theorem reset_like_new_calls' (lc : Libc) (t n : Tok) (d : Int) (fl : Nat) (hn : Tokener.new d fl = some n)
    (hd : t.maxDepth = d.toNat) (hf : t.flags = fl) (calls : List Bytes) :
    runCalls lc (reset t) calls = runCalls lc n calls := by
  rw [new_eq_fresh hn, ← hd, ← hf]
  exact reset_like_new_calls lc t calls

/-! ### the pending high surrogate -/

/-- the states in which `tok->high_surrogate` may be pending (set by the \uD8xx unit just read) -/
def hsState : St → Bool
  | .escapeUnicode | .needEscape | .needU => true
  | .eatws | .start | .finish | .null | .commentStart | .comment | .commentEol | .commentEnd | .string | .stringEscape | .boolean | .number | .array | .arrayAdd | .arraySep | .objectFieldStart | .objectField | .objectFieldEnd | .objectValue | .objectValueAdd | .objectSep | .arrayAfterSep | .objectFieldStartAfterSep | .inf => false

theorem hsState_tab : hsState .eatws = false ∧ hsState .start = false ∧ hsState .finish = false ∧ hsState .null = false ∧ hsState .commentStart = false ∧ hsState .comment = false ∧ hsState .commentEol = false ∧ hsState .commentEnd = false ∧ hsState .string = false ∧ hsState .stringEscape = false ∧ hsState .escapeUnicode = true ∧ hsState .needEscape = true ∧ hsState .needU = true ∧ hsState .boolean = false ∧ hsState .number = false ∧ hsState .array = false ∧ hsState .arrayAdd = false ∧ hsState .arraySep = false ∧ hsState .objectFieldStart = false ∧ hsState .objectField = false ∧ hsState .objectFieldEnd = false ∧ hsState .objectValue = false ∧ hsState .objectValueAdd = false ∧ hsState .objectSep = false ∧ hsState .arrayAfterSep = false ∧ hsState .objectFieldStartAfterSep = false ∧ hsState .inf = false := by
  decide

def hsTop (t : Tok) : Bool :=
  match t.stack with
  | [] => false
  | top :: _ => hsState top.state

/-- a pending high surrogate exists only while the top level is in a \u-continuation state -/
def HsInv (t : Tok) : Prop := t.hs ≠ 0 → hsTop t = true

theorem hsInv_of_zero {t : Tok} (h : t.hs = 0) : HsInv t := fun hn => absurd h hn

theorem hsInv_fresh (md fl : Nat) : HsInv (freshTok md fl) := hsInv_of_zero rfl
theorem hsInv_new {d : Int} {f : Nat} {n : Tok} (h : Tokener.new d f = some n) : HsInv n := by
  rw [new_eq_fresh h]; exact hsInv_fresh _ _
theorem hsInv_reset (t : Tok) : HsInv (reset t) := hsInv_of_zero rfl
theorem hsInv_setFlags {t : Tok} (h : HsInv t) (f : Nat) : HsInv (setFlags t f) := h

/-- what one dispatch guarantees about `hs` (and that it never touches `max_depth` / `flags`) -/
def HsAct (t : Tok) : Act → Prop
  | .consume t' _ => HsInv t' ∧ t'.maxDepth = t.maxDepth ∧ t'.flags = t.flags
  | .redo t' _ => HsInv t' ∧ t'.maxDepth = t.maxDepth ∧ t'.flags = t.flags
  | .err _ t' _ => HsInv t' ∧ t'.maxDepth = t.maxDepth ∧ t'.flags = t.flags
  | .done t' _ => (HsInv t' ∧ t'.hs = 0) ∧ t'.maxDepth = t.maxDepth ∧ t'.flags = t.flags
  | .fault _ => True

section states
variable {t : Tok} {top : Level} {rest : List Level} (l : Loc) (c : UInt8)

local macro "hs_open" h:ident hs:ident hst:ident : tactic => `(tactic|
  (obtain ⟨st, sv, cur, nm⟩ := top
   obtain ⟨stack, md, pb, pos, dbl, ucs, hs0, q, fl⟩ := t
   simp only at $hs:ident $hst:ident
   subst $hst; subst $hs
   simp [HsInv, hsTop, hsState_tab] at $h:ident
   try subst $h))

local macro "hs_close" : tactic => `(tactic|
  ((repeat' split) <;> simp_all [HsAct, HsInv, hsTop, hsState_tab, setTop, finishWith, freshLevel]))

theorem dEatws_hs (h : HsInv t) (hs : t.stack = top :: rest) (hst : top.state = .eatws) :
    HsAct t (dEatws t l top rest c) := by
  hs_open h hs hst
  unfold dEatws
  hs_close

theorem dStart_hs (h : HsInv t) (hs : t.stack = top :: rest) (hst : top.state = .start) :
    HsAct t (dStart t l top rest c) := by
  hs_open h hs hst
  unfold dStart
  hs_close

theorem dFinish_hs (h : HsInv t) (hs : t.stack = top :: rest) (hst : top.state = .finish) :
    HsAct t (dFinish t l top rest) := by
  hs_open h hs hst
  unfold dFinish
  hs_close

theorem dInf_hs (h : HsInv t) (hs : t.stack = top :: rest) (hst : top.state = .inf) :
    HsAct t (dInf t l top rest c) := by
  hs_open h hs hst
  unfold dInf
  hs_close

theorem dNull_hs (h : HsInv t) (hs : t.stack = top :: rest) (hst : top.state = .null) :
    HsAct t (dNull t l top rest c) := by
  hs_open h hs hst
  unfold dNull
  simp only
  hs_close

theorem dBoolean_hs (h : HsInv t) (hs : t.stack = top :: rest) (hst : top.state = .boolean) :
    HsAct t (dBoolean t l top rest c) := by
  hs_open h hs hst
  unfold dBoolean
  simp only
  hs_close

theorem dCommentStart_hs (h : HsInv t) (hs : t.stack = top :: rest) (hst : top.state = .commentStart) :
    HsAct t (dCommentStart t l top rest c) := by
  hs_open h hs hst
  unfold dCommentStart
  hs_close

theorem dComment_hs (h : HsInv t) (hs : t.stack = top :: rest) (hst : top.state = .comment) :
    HsAct t (dComment t l top rest c) := by
  hs_open h hs hst
  unfold dComment
  hs_close

theorem dCommentEol_hs (h : HsInv t) (hs : t.stack = top :: rest) (hst : top.state = .commentEol) :
    HsAct t (dCommentEol t l top rest c) := by
  hs_open h hs hst
  unfold dCommentEol
  hs_close

theorem dCommentEnd_hs (h : HsInv t) (hs : t.stack = top :: rest) (hst : top.state = .commentEnd) :
    HsAct t (dCommentEnd t l top rest c) := by
  hs_open h hs hst
  unfold dCommentEnd
  simp only
  hs_close

theorem dString_hs (h : HsInv t) (hs : t.stack = top :: rest) (hst : top.state = .string) :
    HsAct t (dString t l top rest c) := by
  hs_open h hs hst
  unfold dString
  hs_close

theorem dObjectField_hs (h : HsInv t) (hs : t.stack = top :: rest) (hst : top.state = .objectField) :
    HsAct t (dObjectField t l top rest c) := by
  hs_open h hs hst
  unfold dObjectField
  hs_close

theorem dStringEscape_hs (h : HsInv t) (hs : t.stack = top :: rest) (hst : top.state = .stringEscape) :
    HsAct t (dStringEscape t l top rest c) := by
  hs_open h hs hst
  unfold dStringEscape
  simp only
  hs_close

theorem dNeedEscape_hs (h : HsInv t) (hs : t.stack = top :: rest) (hst : top.state = .needEscape) :
    HsAct t (dNeedEscape t l top rest c) := by
  hs_open h hs hst
  unfold dNeedEscape
  hs_close

theorem dNeedU_hs (h : HsInv t) (hs : t.stack = top :: rest) (hst : top.state = .needU) :
    HsAct t (dNeedU t l top rest c) := by
  hs_open h hs hst
  unfold dNeedU
  hs_close

theorem dArraySep_hs (h : HsInv t) (hs : t.stack = top :: rest) (hst : top.state = .arraySep) :
    HsAct t (dArraySep t l top rest c) := by
  hs_open h hs hst
  unfold dArraySep
  hs_close

theorem dObjectFieldEnd_hs (h : HsInv t) (hs : t.stack = top :: rest) (hst : top.state = .objectFieldEnd) :
    HsAct t (dObjectFieldEnd t l top rest c) := by
  hs_open h hs hst
  unfold dObjectFieldEnd
  hs_close

theorem dObjectSep_hs (h : HsInv t) (hs : t.stack = top :: rest) (hst : top.state = .objectSep) :
    HsAct t (dObjectSep t l top rest c) := by
  hs_open h hs hst
  unfold dObjectSep
  hs_close

/-- every exit of the UTF-8 ladder either clears `hs` or stores a high surrogate and enters `need_escape` -/
theorem emitUnit_hs (t0 : Tok) (h1 : t0.maxDepth = t.maxDepth) (h2 : t0.flags = t.flags) (u : Nat) (b : Bytes) :
    HsAct t (emitUnit t0 l top rest u b) := by
  unfold emitUnit
  simp only
  (repeat' split) <;> simp [HsAct, HsInv, hsTop, hsState_tab, setTop, h1, h2]

set_option maxRecDepth 4000 in
theorem unicodeUnit_hs (t0 : Tok) (h1 : t0.maxDepth = t.maxDepth) (h2 : t0.flags = t.flags) (u : Nat) :
    HsAct t (unicodeUnit t0 l top rest u) := by
  unfold unicodeUnit
  split
  · split
    · exact emitUnit_hs l t0 h1 h2 _ _
    · exact emitUnit_hs l t0 h1 h2 _ _
  · exact emitUnit_hs l t0 h1 h2 _ _

theorem dEscapeUnicode_hs (h : HsInv t) (hs : t.stack = top :: rest) (hst : top.state = .escapeUnicode) :
    HsAct t (dEscapeUnicode t l top rest c) := by
  unfold dEscapeUnicode
  split
  · exact ⟨h, rfl, rfl⟩
  · split
    · trivial
    · split
      · refine ⟨fun hn => ?_, rfl, rfl⟩
        simp [hsTop, hs, hst, hsState_tab]
      · exact unicodeUnit_hs l _ rfl rfl _

theorem hs_zero_of (h : HsInv t) (hs : t.stack = top :: rest) (hst : hsState top.state = false) : t.hs = 0 := by
  by_cases hz : t.hs = 0
  · exact hz
  · have := h hz
    simp [hsTop, hs, hst] at this

theorem pushLevel_hs (st' : St) (h : HsInv t) (hs : t.stack = top :: rest) (hst : hsState top.state = false) :
    HsAct t (pushLevel t l top rest st') := by
  have h0 := hs_zero_of h hs hst
  unfold pushLevel
  (repeat' split) <;> simp [HsAct, h, hsInv_of_zero, h0]

theorem dArray_hs (b : Bool) (h : HsInv t) (hs : t.stack = top :: rest) (hst : hsState top.state = false) :
    HsAct t (dArray t l top rest c b) := by
  have h0 := hs_zero_of h hs hst
  unfold dArray
  split
  · split
    · exact ⟨h, rfl, rfl⟩
    · exact ⟨hsInv_of_zero h0, rfl, rfl⟩
  · exact pushLevel_hs l _ h hs hst

theorem dObjectFieldStart_hs (b : Bool) (h : HsInv t) (hs : t.stack = top :: rest) (hst : hsState top.state = false) :
    HsAct t (dObjectFieldStart t l top rest c b) := by
  have h0 := hs_zero_of h hs hst
  unfold dObjectFieldStart
  (repeat' split) <;> simp [HsAct, h, hsInv_of_zero, h0, setTop]

theorem dNumber_hs (lc : Libc) (h : HsInv t) (hs : t.stack = top :: rest) (hst : top.state = .number) :
    HsAct t (dNumber lc t l top rest c) := by
  have h0 := hs_zero_of h hs (by rw [hst]; exact hsState_tab.2.2.2.2.2.2.2.2.2.2.2.2.2.2.1)
  unfold dNumber dNumberCore
  split
  · exact ⟨hsInv_of_zero h0, rfl, rfl⟩
  · split
    · exact ⟨h, rfl, rfl⟩
    · split
      · exact ⟨hsInv_of_zero h0, rfl, rfl⟩
      · simp only
        cases classifyNum lc _ _ <;> exact ⟨hsInv_of_zero h0, rfl, rfl⟩

end states
/-- **`HsInv` is preserved by every dispatch**; `done` is only reported with `hs = 0` -/
theorem disp_hs (lc : Libc) {t : Tok} (h : HsInv t) (l : Loc) (c : UInt8) : HsAct t (disp lc t l c) := by
  unfold disp
  cases hs : t.stack with
  | nil => trivial
  | cons top rest =>
    simp only
    cases hst : top.state <;> simp only
    · exact dEatws_hs l c h hs hst
    · exact dStart_hs l c h hs hst
    · exact dFinish_hs l h hs hst
    · exact dNull_hs l c h hs hst
    · exact dCommentStart_hs l c h hs hst
    · exact dComment_hs l c h hs hst
    · exact dCommentEol_hs l c h hs hst
    · exact dCommentEnd_hs l c h hs hst
    · exact dString_hs l c h hs hst
    · exact dStringEscape_hs l c h hs hst
    · exact dEscapeUnicode_hs l c h hs hst
    · exact dNeedEscape_hs l c h hs hst
    · exact dNeedU_hs l c h hs hst
    · exact dBoolean_hs l c h hs hst
    · exact dNumber_hs l c lc h hs hst
    · exact dArray_hs l c _ h hs (by rw [hst]; decide)
    · trivial
    · exact dArraySep_hs l c h hs hst
    · exact dObjectFieldStart_hs l c _ h hs (by rw [hst]; decide)
    · exact dObjectField_hs l c h hs hst
    · exact dObjectFieldEnd_hs l c h hs hst
    · exact pushLevel_hs l _ h hs (by rw [hst]; decide)
    · trivial
    · exact dObjectSep_hs l c h hs hst
    · exact dArray_hs l c _ h hs (by rw [hst]; decide)
    · exact dObjectFieldStart_hs l c _ h hs (by rw [hst]; decide)
    · exact dInf_hs l c h hs hst

theorem HsAct.mono {t t' : Tok} {a : Act} (h1 : t'.maxDepth = t.maxDepth) (h2 : t'.flags = t.flags)
    (ha : HsAct t' a) : HsAct t a := by
  cases a <;> simp only [HsAct] at ha ⊢ <;>
    first | trivial | exact ⟨ha.1, ha.2.1.trans h1, ha.2.2.trans h2⟩

theorem feedN_hs (lc : Libc) : ∀ (n : Nat) {t : Tok}, HsInv t → ∀ (l : Loc) (c : UInt8),
    HsAct t (feedN lc n t l c) := by
  intro n
  induction n with
  | zero => intro t h l c; exact ⟨h, rfl, rfl⟩
  | succ n ih =>
    intro t h l c
    have hd := disp_hs lc h l c
    simp only [feedN]
    cases hdd : disp lc t l c with
    | redo t' l' => rw [hdd] at hd; exact HsAct.mono hd.2.1 hd.2.2 (ih hd.1 l' c)
    | consume t' l' => rw [hdd] at hd; exact hd
    | err e t' l' => rw [hdd] at hd; exact hd
    | done t' l' => rw [hdd] at hd; exact hd
    | fault w => trivial

theorem feed_hs (lc : Libc) {t : Tok} (h : HsInv t) (l : Loc) (c : UInt8) : HsAct t (feed lc t l c) :=
  feedN_hs lc fuel h l c

/-- what the loop guarantees from a well-formed tokener satisfying `HsInv` -/
structure RunHs (t : Tok) (e : LoopEnd) : Prop where
  wf : WF e.tok
  inv : HsInv e.tok
  maxDepth : e.tok.maxDepth = t.maxDepth
  flags : e.tok.flags = t.flags
  notFault : ∀ w, e.stop ≠ .fault w
  notStuck : e.stop ≠ .stuck
  nul : e.stop = .nul → e.c = 0
  done : e.stop = .done → e.tok.hs = 0

theorem run_hs (lc : Libc) (data : Bytes) : ∀ (t : Tok) (l : Loc) (c : UInt8) (off : Nat), WF t → HsInv t →
    RunHs t (run lc t l c off data) := by
  induction data with
  | nil => intro t l c off hw hi; exact ⟨hw, hi, rfl, rfl, by simp [run], by simp [run], by simp [run], by simp [run]⟩
  | cons b bs ih =>
    intro t l c off hw hi
    cases hpk : peek t l b with
    | none => simp only [run, hpk]; exact ⟨hw, hi, rfl, rfl, by simp, by simp, by simp, by simp⟩
    | some l1 =>
      have hf := feed_ok lc t l1 b hw
      have hh := feed_hs lc hi l1 b
      cases hfd : feed lc t l1 b with
      | consume t' l' =>
        rw [hfd] at hf hh
        simp only [run, hpk, hfd]
        by_cases hb : (b == 0) = true
        · rw [if_pos hb]
          exact ⟨hf, hh.1, hh.2.1, hh.2.2, by simp, by simp, fun _ => by simpa using hb, by simp⟩
        · rw [if_neg hb]
          have r := ih t' l' b (off + 1) hf hh.1
          exact ⟨r.wf, r.inv, r.maxDepth.trans hh.2.1, r.flags.trans hh.2.2, r.notFault, r.notStuck, r.nul, r.done⟩
      | err e t' l' =>
        rw [hfd] at hf hh; simp only [run, hpk, hfd]
        exact ⟨hf, hh.1, hh.2.1, hh.2.2, by simp, by simp, by simp, by simp⟩
      | done t' l' =>
        rw [hfd] at hf hh; simp only [run, hpk, hfd]
        exact ⟨hf, hh.1.1, hh.2.1, hh.2.2, by simp, by simp, by simp, fun _ => hh.1.2⟩
      | redo t' l' => rw [hfd] at hf; exact hf.elim
      | fault w => rw [hfd] at hf; exact hf.elim

/-! ### a success leaves no pending high surrogate -/

/-- in a well-formed top level a \u-continuation state has saved state string / object_field (finite table) -/
theorem hs_shape (st sv : St) (a o n : Bool) (h1 : hsState st = true) (h2 : topShape st sv a o n = true) :
    st ≠ .finish ∧ st ≠ .eatws ∧ sv ≠ .finish := by
  cases st <;> simp [hsState_tab] at h1 <;> cases sv <;> cases a <;> cases o <;> cases n <;> revert h2 <;> decide

theorem success_hs_zero (e : LoopEnd) (hwf : WF e.tok) (hinv : HsInv e.tok)
    (hnul : e.stop = .nul → e.c = 0) (hdone : e.stop = .done → e.tok.hs = 0)
    (hnf : ∀ w, e.stop ≠ .fault w) (hns : e.stop ≠ .stuck) (h : finalErr e = .success) : e.tok.hs = 0 := by
  by_cases hz : e.tok.hs = 0
  · exact hz
  · exfalso
    obtain ⟨top, rest, hs, -, hok, -, -⟩ := hwf.ex
    have hst := hinv hz
    simp only [hsTop, hs] at hst
    obtain ⟨st, sv, cur, nm⟩ := top
    simp only [Level.topOk] at hok
    obtain ⟨h1, h2, h3⟩ := hs_shape st sv _ _ _ hst hok
    unfold finalErr at h
    simp only [topState, hs] at h
    by_cases hc : e.c = 0
    · simp [hc, h1, h3] at h
    · have hnn : e.stop ≠ .nul := fun hh => hc (hnul hh)
      have hnd : e.stop ≠ .done := fun hh => hz (hdone hh)
      split at h
      · cases h
      split at h
      · cases h
      split at h
      · cases h
      unfold loopErr at h
      cases hstop : e.stop with
      | endOfChunk => simp [hstop, topState, hs, h2] at h
      | err x => rw [hstop] at h; simp only at h; cases x <;> cases h
      | done => exact hnd hstop
      | nul => exact hnn hstop
      | stuck => exact hns hstop
      | fault w => exact hnf w hstop

/-- **C03, stream clause: after a success the parser is as good as new for the next document**: the
tokener a successful call leaves behind equals a new one (same depth and flags) up to dead scratch fields -/
theorem success_like_new (lc : Libc) (t : Tok) (A : Bytes) (hwf : WF t) (hhs : HsInv t)
    (h : (parseEx lc t A).err = .success) :
    Eqv (parseEx lc t A).tok (freshTok t.maxDepth t.flags) := by
  have r := run_hs lc A t {} 1 0 hwf hhs
  unfold parseEx epilogue at h ⊢
  generalize run lc t {} 1 0 A = e at *
  simp only at h ⊢
  split at h
  · rename_i hfe
    rw [if_pos hfe]
    have hfe' : finalErr e = .success := by simpa using hfe
    exact eqv_of_fresh rfl rfl r.maxDepth r.flags
      (success_hs_zero e r.wf r.inv r.nul r.done r.notFault r.notStuck hfe')
  · rename_i hfe
    simp only at h
    exact absurd (by simpa using h) hfe

/-- `HsInv` (and well-formedness) survive a call, so the stream clause applies call after call -/
theorem parseEx_hsInv (lc : Libc) (t : Tok) (A : Bytes) (hwf : WF t) (hhs : HsInv t) :
    HsInv (parseEx lc t A).tok := by
  have r := run_hs lc A t {} 1 0 hwf hhs
  unfold parseEx epilogue
  generalize run lc t {} 1 0 A = e at *
  simp only
  split
  · rename_i hfe
    have hfe' : finalErr e = .success := by simpa using hfe
    exact hsInv_of_zero (success_hs_zero e r.wf r.inv r.nul r.done r.notFault r.notStuck hfe')
  · exact r.inv

/-- the next document: parsing `B` with the tokener a successful call left behind gives exactly what a
new tokener of the same depth and flags gives -/
theorem next_doc_like_new (lc : Libc) (t : Tok) (A B : Bytes) (hwf : WF t) (hhs : HsInv t)
    (h : (parseEx lc t A).err = .success) :
    let f := parseEx lc (parseEx lc t A).tok B; let g := parseEx lc (freshTok t.maxDepth t.flags) B
    f.err = g.err ∧ f.value = g.value ∧ f.offset = g.offset ∧ f.stuck = g.stuck ∧ f.fault = g.fault ∧
      Eqv f.tok g.tok :=
  parseEx_eqv lc _ _ (success_like_new lc t A hwf hhs h) B

/-- ... and so do all later calls -/
theorem next_calls_like_new (lc : Libc) (t : Tok) (A : Bytes) (calls : List Bytes) (hwf : WF t) (hhs : HsInv t)
    (h : (parseEx lc t A).err = .success) :
    runCalls lc (parseEx lc t A).tok calls = runCalls lc (freshTok t.maxDepth t.flags) calls :=
  runCalls_eqv lc calls (success_like_new lc t A hwf hhs h)

theorem parseExZ_tok (lc : Libc) (t : Tok) (str : Bytes) :
    (parseExZ lc t str).tok = (parseEx lc t (cstr str ++ [0])).tok := by
  unfold parseExZ
  simp only
  split <;> rfl

theorem parseExZ_hsInv (lc : Libc) (t : Tok) (str : Bytes) (hwf : WF t) (hhs : HsInv t) :
    HsInv (parseExZ lc t str).tok := by
  rw [parseExZ_tok]; exact parseEx_hsInv lc t _ hwf hhs

/-! ### non-vacuity -/

/-- scratch garbage does not matter ... -/
example : Eqv { stack := [freshLevel], maxDepth := 32, pb := [1, 2, 3], stPos := 7, isDouble := true, ucs := 99,
                hs := 0, quote := 39, flags := 0 } (freshTok 32 0) :=
  eqv_of_fresh rfl rfl rfl rfl rfl

/-- ... but `hs` is not scratch (which is why `Eqv` equates it, `json_tokener_reset` clears it and the
stream clause needs `HsInv`): a stale high surrogate changes what `"\uDC00"` parses to -/
example :
    (parseEx refLibc { freshTok 32 0 with hs := 0xD800 } [34, 92, 117, 68, 67, 48, 48, 34]).tok.pb = [0xF0, 0x90, 0x80, 0x80] ∧
    (parseEx refLibc (freshTok 32 0) [34, 92, 117, 68, 67, 48, 48, 34]).tok.pb = [0xEF, 0xBF, 0xBD] := by
  decide

end JsonC.Tokener
