/-
  Helper lemmas for C13, part 5: remove / add / replace / move / copy against RFC 6902, one loop
  iteration (`step`) against `decodeOp` + `applyOp`, and the loop against sequential application.
-/
import JsonC.Lemmas.PatchRefine

namespace JsonC.Patch
open JsonC

theorem opRemove_refines (doc : JVal) (ps : Bytes) (P' : Rfc6902.Pointer)
    (hp : Rfc6902.parsePointer ps = some P') (hs : small doc = true) :
    ∃ o, opRemove doc (some ps) = .ok o ∧ (o.tags = [] → OpAgrees o (Rfc6902.applyOp doc (.remove P'))) := by
  simp only [opRemove]
  cases hg : getInternal doc (some ps) with
  | fault w => exact absurd hg (getInternal_nofault _ _ w)
  | err e =>
    refine ⟨_, rfl, ?_⟩
    intro ht
    rcases getInternal_err_spec doc ps P' hp hs e hg with h | h
    · exact absurd h (nullRootTags_nil doc ps ht)
    · have hne : P' ≠ [] := by intro h'; subst h'; simp [Rfc6902.get] at h
      obtain ⟨last, hl⟩ := getLast?_of_ne_nil P' hne
      have : Rfc6902.remove doc P' = none := by
        simp only [Rfc6902.remove, hl]
        cases hgp : Rfc6902.get doc P'.dropLast with
        | none => exact modify_none_of_get_none _ doc _ hgp
        | some parent =>
          apply modify_none_of_leaf_none _ doc parent _ hgp
          rw [get_snoc doc P' last parent hl hgp] at h
          cases parent with
          | arr xs =>
            simp only [Rfc6902.child] at h
            simp only [Rfc6902.removeLeaf]
            split
            · rename_i i hi
              rw [hi] at h
              simp only at h
              have : ¬ i < xs.length := by
                intro hlt; rw [List.getElem?_eq_getElem hlt] at h; simp at h
              simp [this]
            · rfl
          | obj kvs => simp only [Rfc6902.child] at h; simp [Rfc6902.removeLeaf, h]
          | null => rfl
          | bool b => rfl
          | int s n => rfl
          | dbl b t => rfl
          | str s => rfl
      simp [OpAgrees, Rfc6902.applyOp, this]
  | ok g =>
    simp only
    by_cases hnil : ps = []
    · subst hnil
      obtain ⟨_, _, _, hcase⟩ := getInternal_ok_spec doc [] P' hp hs g hg
      rcases hcase with ⟨hpl, _, hP, _⟩ | ⟨_, _, _, _, _, _, hloc, _⟩ | ⟨_, _, _, _, _, hloc, _⟩
      · subst hP
        simp only [removeAt, hpl]
        exact ⟨_, rfl, fun _ => by simp [OpAgrees, Rfc6902.applyOp, Rfc6902.remove]⟩
      · exact absurd rfl hloc.nonempty
      · exact absurd rfl hloc.nonempty
    · have hsp := removeAt_spec doc ps P' hp hs g hg hnil
      have hplace : g.place ≠ .root := by
        obtain ⟨_, _, _, hcase⟩ := getInternal_ok_spec doc ps P' hp hs g hg
        rcases hcase with ⟨_, h, _⟩ | ⟨_, _, _, _, _, hpl, _⟩ | ⟨_, _, _, _, hpl, _⟩
        · exact absurd h hnil
        · rw [hpl]; simp
        · rw [hpl]; simp
      cases hr : removeAt doc g with
      | fault w => rw [hr] at hsp; exact absurd hsp id
      | err e =>
        rw [hr] at hsp
        exact ⟨_, rfl, fun _ => by simp [OpAgrees, Rfc6902.applyOp, hsp]⟩
      | ok dd =>
        obtain ⟨d1, obj⟩ := dd
        rw [hr] at hsp
        simp only
        cases hpl : g.place with
        | root => exact absurd hpl hplace
        | elem loc i => exact ⟨_, rfl, fun _ => by simp [OpAgrees, Rfc6902.applyOp, hsp.1]⟩
        | member loc k => exact ⟨_, rfl, fun _ => by simp [OpAgrees, Rfc6902.applyOp, hsp.1]⟩

theorem opAdd_refines (doc elem v : JVal) (ps : Bytes) (P' : Rfc6902.Pointer)
    (hp : Rfc6902.parsePointer ps = some P') (hs : small doc = true) (hv : objGet elem kValue = some v) :
    ∃ o, opAddReplace doc elem (some ps) true = .ok o ∧ (o.tags = [] → OpAgrees o (Rfc6902.applyOp doc (.add P' v))) := by
  simp only [opAddReplace, hv, if_true]
  have hag := setWithCb_add doc v ps P' hp hs .insert (by decide)
  cases hset : setWithCb doc (some ps) v .insert with
  | fault w => exact absurd hset (setWithCb_nofault _ _ _ _ w)
  | err e =>
    rw [hset] at hag
    cases ha : Rfc6902.add doc P' v with
    | none => exact ⟨_, rfl, fun _ => by simp [OpAgrees, Rfc6902.applyOp, ha]⟩
    | some d => rw [ha] at hag; exact absurd hag id
  | ok d =>
    rw [hset] at hag
    cases ha : Rfc6902.add doc P' v with
    | none => rw [ha] at hag; exact absurd hag id
    | some d' =>
      rw [ha] at hag
      simp only [Agree] at hag
      subst hag
      exact ⟨_, rfl, fun _ => by simp [OpAgrees, Rfc6902.applyOp, ha]⟩

theorem isValidIndex_dash : isValidIndex [0x2d] = none := by decide

theorem opReplace_refines (doc elem v : JVal) (ps : Bytes) (P' : Rfc6902.Pointer)
    (hp : Rfc6902.parsePointer ps = some P') (hs : small doc = true) (hv : objGet elem kValue = some v) :
    ∃ o, opAddReplace doc elem (some ps) false = .ok o ∧
      (o.tags = [] → OpAgrees o (Rfc6902.applyOp doc (.replace P' v))) := by
  simp only [opAddReplace, hv, Bool.false_eq_true, if_false]
  cases hg : getInternal doc (some ps) with
  | fault w => exact absurd hg (getInternal_nofault _ _ w)
  | err e =>
    simp only [R.map']
    refine ⟨_, rfl, ?_⟩
    intro ht
    rcases getInternal_err_spec doc ps P' hp hs e hg with h | h
    · exact absurd h (nullRootTags_nil doc ps ht)
    · simp [OpAgrees, Rfc6902.applyOp, replace_none_of_get_none doc P' v h]
  | ok g =>
    simp only [R.map']
    obtain ⟨_, _, _, hcase⟩ := getInternal_ok_spec doc ps P' hp hs g hg
    rcases hcase with ⟨_, hps, hP, _⟩ | ⟨loc, parent, last, last', i, _, hloc, xs, rfl, hai, hlt, hvi⟩ |
        ⟨loc, parent, last, last', _, hloc, kvs, rfl, hlk⟩
    · subst hps; subst hP
      simp only [setWithCb]
      exact ⟨_, rfl, fun _ => by simp [OpAgrees, Rfc6902.applyOp, Rfc6902.replace]⟩
    · obtain ⟨T, hT, hl, hw⟩ := hloc.raw
      cases ps with
      | nil => exact absurd rfl hloc.nonempty
      | cons c r =>
        rw [setWithCb_cons doc c r v .put T last hT hl, hw]
        simp only
        have hnd : last ≠ [0x2d] := by
          intro h; rw [h, isValidIndex_dash] at hvi; simp at hvi
        have hag := hloc.update (setSingle last v .put) (Rfc6902.replaceLeaf last' v) (by
          have hx : xs[i]? = some g.obj := by simpa [Rfc6902.child, hai] using hloc.childObj
          simp [setSingle, hnd, hvi, arrayCb, Nat.not_lt.mpr (Nat.le_of_lt hlt), arrPutIdx_lt xs i v hlt,
            Rfc6902.replaceLeaf, Rfc6902.child, hai, hx, Rfc6902.setChild, Agree])
        simp only [Rfc6902.applyOp, Rfc6902.replace, hloc.lastTok]
        cases hu : updateAt doc loc (setSingle last v .put) with
        | fault w => rw [hu] at hag; cases hm : Rfc6902.modify doc P'.dropLast (Rfc6902.replaceLeaf last' v) <;>
            (rw [hm] at hag; simp [Agree] at hag)
        | err e =>
          rw [hu] at hag
          cases hm : Rfc6902.modify doc P'.dropLast (Rfc6902.replaceLeaf last' v) with
          | none => exact ⟨_, rfl, fun _ => by simp [OpAgrees]⟩
          | some d' => rw [hm] at hag; simp [Agree] at hag
        | ok d =>
          rw [hu] at hag
          cases hm : Rfc6902.modify doc P'.dropLast (Rfc6902.replaceLeaf last' v) with
          | none => rw [hm] at hag; simp [Agree] at hag
          | some d' =>
            rw [hm] at hag; simp only [Agree] at hag; subst hag
            exact ⟨_, rfl, fun _ => by simp [OpAgrees]⟩
    · obtain ⟨T, hT, hl, hw⟩ := hloc.raw
      cases ps with
      | nil => exact absurd rfl hloc.nonempty
      | cons c r =>
        rw [setWithCb_cons doc c r v .put T last hT hl, hw]
        simp only
        have hag := hloc.update (setSingle last v .put) (Rfc6902.replaceLeaf last' v) (by
          simp [setSingle, unescapeC_of_unescape last last' hloc.unesc, objAdd_eq, Rfc6902.putMember, hlk,
            Rfc6902.replaceLeaf, Rfc6902.child, Rfc6902.setChild, Agree])
        simp only [Rfc6902.applyOp, Rfc6902.replace, hloc.lastTok]
        cases hu : updateAt doc loc (setSingle last v .put) with
        | fault w => rw [hu] at hag; cases hm : Rfc6902.modify doc P'.dropLast (Rfc6902.replaceLeaf last' v) <;>
            (rw [hm] at hag; simp [Agree] at hag)
        | err e =>
          rw [hu] at hag
          cases hm : Rfc6902.modify doc P'.dropLast (Rfc6902.replaceLeaf last' v) with
          | none => exact ⟨_, rfl, fun _ => by simp [OpAgrees]⟩
          | some d' => rw [hm] at hag; simp [Agree] at hag
        | ok d =>
          rw [hu] at hag
          cases hm : Rfc6902.modify doc P'.dropLast (Rfc6902.replaceLeaf last' v) with
          | none => rw [hm] at hag; simp [Agree] at hag
          | some d' =>
            rw [hm] at hag; simp only [Agree] at hag; subst hag
            exact ⟨_, rfl, fun _ => by simp [OpAgrees]⟩

/-! ### move / copy -/

theorem isPrefixOf_eq_of_length {α : Type} [BEq α] [LawfulBEq α] (a b : List α) (h : a.isPrefixOf b = true)
    (hl : a.length = b.length) : a = b :=
  (List.isPrefixOf_iff_prefix.mp h).eq_of_length hl

theorem isPrefixOf_self {α : Type} [BEq α] [LawfulBEq α] (a : List α) : a.isPrefixOf a = true :=
  List.isPrefixOf_iff_prefix.mpr (List.prefix_refl a)

theorem fromIsPrefix_isPrefixOf (fs ps : Bytes) (h : fromIsPrefix fs ps = true) : fs.isPrefixOf ps = true := by
  simp only [fromIsPrefix, Bool.and_eq_true] at h; exact h.1

theorem opCopy_refines (ser : JVal → Bytes) (doc elem jfrom : JVal) (fs ps : Bytes) (F' P' : Rfc6902.Pointer)
    (hf : Rfc6902.parsePointer fs = some F') (hp : Rfc6902.parsePointer ps = some P') (hs : small doc = true)
    (hfrom : objGet elem kFrom = some jfrom) (hgs : getString ser jfrom = some fs) :
    ∃ o, opMoveCopy ser doc elem (some ps) false = .ok o ∧
      (o.tags = [] → OpAgrees o (Rfc6902.applyOp doc (.copy F' P'))) := by
  simp only [opMoveCopy, hfrom, hgs, Bool.and_false, Bool.false_and, Bool.false_eq_true, if_false, Bool.not_false, if_true]
  cases hg : getInternal doc (some fs) with
  | fault w => exact absurd hg (getInternal_nofault _ _ w)
  | err e =>
    refine ⟨_, rfl, ?_⟩
    intro ht
    rcases getInternal_err_spec doc fs F' hf hs e hg with h | h
    · exact absurd h (nullRootTags_nil doc fs ht)
    · simp [OpAgrees, Rfc6902.applyOp, h]
  | ok g =>
    obtain ⟨hget, _, _, _⟩ := getInternal_ok_spec doc fs F' hf hs g hg
    simp only
    have hag := setWithCb_add doc g.obj ps P' hp hs .insert (by decide)
    cases hset : setWithCb doc (some ps) g.obj .insert with
    | fault w => exact absurd hset (setWithCb_nofault _ _ _ _ w)
    | err e =>
      rw [hset] at hag
      cases ha : Rfc6902.add doc P' g.obj with
      | none => exact ⟨_, rfl, fun _ => by simp [OpAgrees, Rfc6902.applyOp, hget, ha]⟩
      | some d => rw [ha] at hag; exact absurd hag id
    | ok d =>
      rw [hset] at hag
      cases ha : Rfc6902.add doc P' g.obj with
      | none => rw [ha] at hag; exact absurd hag id
      | some d' =>
        rw [ha] at hag
        simp only [Agree] at hag
        subst hag
        exact ⟨_, rfl, fun _ => by simp [OpAgrees, Rfc6902.applyOp, hget, ha]⟩

theorem opMove_refines (ser : JVal → Bytes) (doc elem jfrom : JVal) (fs ps : Bytes) (F' P' : Rfc6902.Pointer)
    (hf : Rfc6902.parsePointer fs = some F') (hp : Rfc6902.parsePointer ps = some P') (hs : small doc = true)
    (hfrom : objGet elem kFrom = some jfrom) (hgs : getString ser jfrom = some fs) :
    ∃ o, opMoveCopy ser doc elem (some ps) true = .ok o ∧
      (o.tags = [] → OpAgrees o (Rfc6902.applyOp doc (.move F' P'))) := by
  obtain ⟨hpre, heq⟩ := fromIsPrefix_spec fs ps F' P' hf hp
  simp only [opMoveCopy, hfrom, hgs, Bool.and_true, Bool.not_true, Bool.false_eq_true, if_false]
  by_cases hpr : fromIsPrefix fs ps = true
  · have hF : F'.isPrefixOf P' = true := by rw [← hpre]; exact hpr
    by_cases hlen : (fs.length == ps.length) = true
    · -- same location
      have hsame : fs = ps := isPrefixOf_eq_of_length fs ps (fromIsPrefix_isPrefixOf fs ps hpr) (by simpa using hlen)
      have hFP : F' = P' := heq.mp hsame
      subst hFP
      have hpp : Rfc6902.properPrefix F' F' = false := by simp [Rfc6902.properPrefix]
      simp only [hpr, hlen, Bool.and_self, if_true]
      cases hg : getInternal doc (some fs) with
      | fault w => exact absurd hg (getInternal_nofault _ _ w)
      | err e =>
        refine ⟨_, rfl, ?_⟩
        intro ht
        rcases getInternal_err_spec doc fs F' hf hs e hg with h | h
        · exact absurd h (nullRootTags_nil doc fs ht)
        · simp [OpAgrees, Rfc6902.applyOp, hpp, h]
      | ok g =>
        obtain ⟨hget, _, _, _⟩ := getInternal_ok_spec doc fs F' hf hs g hg
        exact ⟨_, rfl, fun _ => by simp [OpAgrees, Rfc6902.applyOp, hpp, hget]⟩
    · -- proper prefix: a location cannot be moved into one of its children
      have hne : F'.length ≠ P'.length := by
        intro hl
        have := isPrefixOf_eq_of_length F' P' hF hl
        have hsame := heq.mpr this
        rw [hsame] at hlen; simp at hlen
      have hpp : Rfc6902.properPrefix F' P' = true := by simp [Rfc6902.properPrefix, hF, hne]
      have hlen' : (fs.length == ps.length) = false := by simpa using hlen
      simp only [hpr, hlen', Bool.and_false, Bool.false_eq_true, if_false, if_true]
      exact ⟨_, rfl, fun _ => by simp [OpAgrees, Rfc6902.applyOp, hpp]⟩
  · have hpr' : fromIsPrefix fs ps = false := by simpa using hpr
    have hF : F'.isPrefixOf P' = false := by rw [← hpre]; exact hpr'
    have hpp : Rfc6902.properPrefix F' P' = false := by simp [Rfc6902.properPrefix, hF]
    have hFP : F' ≠ P' := by intro h; rw [h, isPrefixOf_self] at hF; simp at hF
    have hfs : fs ≠ [] := by
      intro h; subst h
      have : F' = [] := by simpa [Rfc6902.parsePointer] using hf.symm
      subst this; simp at hF
    simp only [hpr', Bool.false_and, Bool.false_eq_true, if_false]
    cases hg : getInternal doc (some fs) with
    | fault w => exact absurd hg (getInternal_nofault _ _ w)
    | err e =>
      refine ⟨_, rfl, ?_⟩
      intro ht
      rcases getInternal_err_spec doc fs F' hf hs e hg with h | h
      · exact absurd h (nullRootTags_nil doc fs ht)
      · simp [OpAgrees, Rfc6902.applyOp, hpp, h]
    | ok g =>
      obtain ⟨hget, _, _, _⟩ := getInternal_ok_spec doc fs F' hf hs g hg
      have hsp := removeAt_spec doc fs F' hf hs g hg hfs
      simp only
      cases hr : removeAt doc g with
      | fault w => rw [hr] at hsp; exact absurd hsp id
      | err e =>
        rw [hr] at hsp
        exact ⟨_, rfl, fun _ => by simp [OpAgrees, Rfc6902.applyOp, hpp, hget, hFP, hsp]⟩
      | ok dd =>
        obtain ⟨d1, obj⟩ := dd
        rw [hr] at hsp
        obtain ⟨hrem, hobj⟩ := hsp
        subst hobj
        simp only
        have hs1 := remove_small doc d1 F' hs hrem
        have hag := setWithCb_add d1 g.obj ps P' hp hs1 .move (by decide)
        cases hset : setWithCb d1 (some ps) g.obj .move with
        | fault w => exact absurd hset (setWithCb_nofault _ _ _ _ w)
        | err e =>
          rw [hset] at hag
          cases ha : Rfc6902.add d1 P' g.obj with
          | none => exact ⟨_, rfl, fun _ => by simp [OpAgrees, Rfc6902.applyOp, hpp, hget, hFP, hrem, ha]⟩
          | some d => rw [ha] at hag; exact absurd hag id
        | ok d =>
          rw [hset] at hag
          cases ha : Rfc6902.add d1 P' g.obj with
          | none => rw [ha] at hag; exact absurd hag id
          | some d' =>
            rw [ha] at hag
            simp only [Agree] at hag
            subst hag
            exact ⟨_, rfl, fun _ => by simp [OpAgrees, Rfc6902.applyOp, hpp, hget, hFP, hrem, ha]⟩

/-! ### one loop iteration -/

theorem cstr_of_noNul (s : Bytes) (h : s.any (· == 0) = false) : cstr s = s := by
  induction s with
  | nil => rfl
  | cons c r ih =>
    simp only [List.any_cons, Bool.or_eq_false_iff] at h
    have hc : (c != 0) = true := by simpa [bne] using h.1
    simp only [cstr, List.takeWhile_cons, hc, if_true]
    exact congrArg (c :: ·) (ih h.2)

theorem fieldTags_str_nil (ser : JVal → Bytes) (s : Bytes) (b : Bool) (h : fieldTags ser (.str s) b = []) :
    getString ser (.str s) = some s := by
  have hn : hasNul (.str s) = false := by
    cases hh : hasNul (.str s) with
    | false => rfl
    | true => simp [fieldTags, hh] at h
  have : s.any (· == 0) = false := by simpa [hasNul] using hn
  simp [getString, cstr_of_noNul s this]

theorem pointerMember_some (kvs : List (Bytes × JVal)) (k : Bytes) (P : Rfc6902.Pointer)
    (h : Rfc6902.pointerMember kvs k = some P) :
    ∃ s, Rfc6902.lookup k kvs = some (.str s) ∧ Rfc6902.parsePointer s = some P := by
  unfold Rfc6902.pointerMember at h
  split at h
  · rename_i s hs; exact ⟨s, hs, h⟩
  · simp at h

/-- what a decodable element looks like -/
theorem decodeOp_fields (elem : JVal) (op : Rfc6902.Op) (h : Rfc6902.decodeOp elem = some op) :
    ∃ kvs o ps P, elem = .obj kvs ∧ Rfc6902.lookup Rfc6902.kOp kvs = some (.str o) ∧
      Rfc6902.lookup Rfc6902.kPath kvs = some (.str ps) ∧ Rfc6902.parsePointer ps = some P ∧
      ((o = Rfc6902.sAdd ∧ ∃ v, Rfc6902.lookup Rfc6902.kValue kvs = some v ∧ op = .add P v) ∨
       (o = Rfc6902.sRemove ∧ op = .remove P) ∨
       (o = Rfc6902.sReplace ∧ ∃ v, Rfc6902.lookup Rfc6902.kValue kvs = some v ∧ op = .replace P v) ∨
       (o = Rfc6902.sMove ∧ ∃ fs F, Rfc6902.lookup Rfc6902.kFrom kvs = some (.str fs) ∧
          Rfc6902.parsePointer fs = some F ∧ op = .move F P) ∨
       (o = Rfc6902.sCopy ∧ ∃ fs F, Rfc6902.lookup Rfc6902.kFrom kvs = some (.str fs) ∧
          Rfc6902.parsePointer fs = some F ∧ op = .copy F P) ∨
       (o = Rfc6902.sTest ∧ ∃ v, Rfc6902.lookup Rfc6902.kValue kvs = some v ∧ op = .test P v)) := by
  cases elem with
  | obj kvs =>
    simp only [Rfc6902.decodeOp] at h
    split at h
    · rename_i o P ho hP
      obtain ⟨ps, hps, hpp⟩ := pointerMember_some kvs _ P hP
      refine ⟨kvs, o, ps, P, rfl, ho, hps, hpp, ?_⟩
      split at h
      · rename_i hoo
        cases hv : Rfc6902.lookup Rfc6902.kValue kvs with
        | none => rw [hv] at h; simp at h
        | some v => rw [hv] at h; simp at h; exact Or.inl ⟨hoo, v, rfl, h.symm⟩
      · split at h
        · rename_i hoo; simp at h; exact Or.inr (Or.inl ⟨hoo, h.symm⟩)
        · split at h
          · rename_i hoo
            cases hv : Rfc6902.lookup Rfc6902.kValue kvs with
            | none => rw [hv] at h; simp at h
            | some v => rw [hv] at h; simp at h; exact Or.inr (Or.inr (Or.inl ⟨hoo, v, rfl, h.symm⟩))
          · split at h
            · rename_i hoo
              cases hF : Rfc6902.pointerMember kvs Rfc6902.kFrom with
              | none => rw [hF] at h; simp at h
              | some F =>
                rw [hF] at h; simp at h
                obtain ⟨fs, hfs, hfp⟩ := pointerMember_some kvs _ F hF
                exact Or.inr (Or.inr (Or.inr (Or.inl ⟨hoo, fs, F, hfs, hfp, h.symm⟩)))
            · split at h
              · rename_i hoo
                cases hF : Rfc6902.pointerMember kvs Rfc6902.kFrom with
                | none => rw [hF] at h; simp at h
                | some F =>
                  rw [hF] at h; simp at h
                  obtain ⟨fs, hfs, hfp⟩ := pointerMember_some kvs _ F hF
                  exact Or.inr (Or.inr (Or.inr (Or.inr (Or.inl ⟨hoo, fs, F, hfs, hfp, h.symm⟩))))
              · split at h
                · rename_i hoo
                  cases hv : Rfc6902.lookup Rfc6902.kValue kvs with
                  | none => rw [hv] at h; simp at h
                  | some v =>
                    rw [hv] at h; simp at h
                    exact Or.inr (Or.inr (Or.inr (Or.inr (Or.inr ⟨hoo, v, rfl, h.symm⟩))))
                · simp at h
    · simp at h
  | null => simp [Rfc6902.decodeOp] at h
  | bool b => simp [Rfc6902.decodeOp] at h
  | int s n => simp [Rfc6902.decodeOp] at h
  | dbl b t => simp [Rfc6902.decodeOp] at h
  | str s => simp [Rfc6902.decodeOp] at h
  | arr xs => simp [Rfc6902.decodeOp] at h

theorem kOp_eq : kOp = Rfc6902.kOp := rfl
theorem kPath_eq : kPath = Rfc6902.kPath := rfl
theorem kFrom_eq : kFrom = Rfc6902.kFrom := rfl
theorem kValue_eq : kValue = Rfc6902.kValue := rfl

/-- the dispatch of `step`, once the three fields have been fetched -/
def dispatch (ser : JVal → Bytes) (eq : JVal → JVal → Bool) (doc elem : JVal) (op : Bytes) (path : Option Bytes) :
    Outcome OpRes :=
  if op = sTest then opTest eq doc elem path
  else if op = sRemove then opRemove doc path
  else if op = sAdd then opAddReplace doc elem path true
  else if op = sReplace then opAddReplace doc elem path false
  else if op = sMove then opMoveCopy ser doc elem path true
  else if op = sCopy then opMoveCopy ser doc elem path false
  else OpRes.fail doc .EINVAL

theorem dispatch_test (ser : JVal → Bytes) (eq : JVal → JVal → Bool) (doc elem : JVal) (path : Option Bytes) :
    dispatch ser eq doc elem Rfc6902.sTest path = opTest eq doc elem path := rfl
theorem dispatch_remove (ser : JVal → Bytes) (eq : JVal → JVal → Bool) (doc elem : JVal) (path : Option Bytes) :
    dispatch ser eq doc elem Rfc6902.sRemove path = opRemove doc path := rfl
theorem dispatch_add (ser : JVal → Bytes) (eq : JVal → JVal → Bool) (doc elem : JVal) (path : Option Bytes) :
    dispatch ser eq doc elem Rfc6902.sAdd path = opAddReplace doc elem path true := rfl
theorem dispatch_replace (ser : JVal → Bytes) (eq : JVal → JVal → Bool) (doc elem : JVal) (path : Option Bytes) :
    dispatch ser eq doc elem Rfc6902.sReplace path = opAddReplace doc elem path false := rfl
theorem dispatch_move (ser : JVal → Bytes) (eq : JVal → JVal → Bool) (doc elem : JVal) (path : Option Bytes) :
    dispatch ser eq doc elem Rfc6902.sMove path = opMoveCopy ser doc elem path true := rfl
theorem dispatch_copy (ser : JVal → Bytes) (eq : JVal → JVal → Bool) (doc elem : JVal) (path : Option Bytes) :
    dispatch ser eq doc elem Rfc6902.sCopy path = opMoveCopy ser doc elem path false := rfl

theorem step_obj (ser : JVal → Bytes) (eq : JVal → JVal → Bool) (doc : JVal) (kvs : List (Bytes × JVal))
    (jop jpath : JVal) (op : Bytes) (hop : objLookup kOp kvs = some jop) (hgs : getString ser jop = some op)
    (hpath : objLookup kPath kvs = some jpath) (o : OpRes) (h : step ser eq doc (.obj kvs) = .ok o) :
    ∃ o', dispatch ser eq doc (.obj kvs) op (getString ser jpath) = .ok o' ∧
      o.rc = o'.rc ∧ o.doc = o'.doc ∧ o.err = o'.err ∧
      o.tags = (fieldTags ser jop false ++ fieldTags ser jpath true ++
          (if op = sMove ∨ op = sCopy then
            match objLookup kFrom kvs with
            | some jfrom => fieldTags ser jfrom true
            | none => []
           else [])) ++ o'.tags := by
  simp only [step, objGet, hop, hgs, hpath] at h
  change (match dispatch ser eq doc (.obj kvs) op (getString ser jpath) with
    | .fault w => Outcome.fault w
    | .ok o => Outcome.ok { o with tags := _ ++ o.tags }) = .ok o at h
  cases hd : dispatch ser eq doc (.obj kvs) op (getString ser jpath) with
  | fault w => rw [hd] at h; simp at h
  | ok o' =>
    rw [hd] at h
    simp only [Outcome.ok.injEq] at h
    subst h
    exact ⟨o', rfl, rfl, rfl, rfl, rfl⟩

theorem step_refines (ser : JVal → Bytes) (eq : JVal → JVal → Bool) (doc elem : JVal) (op : Rfc6902.Op)
    (hd : Rfc6902.decodeOp elem = some op) (hs : small doc = true) :
    ∃ o, step ser eq doc elem = .ok o ∧ (o.tags = [] → OpAgrees o (Rfc6902.applyOp doc op)) := by
  obtain ⟨o, ho⟩ := step_total ser eq doc elem
  refine ⟨o, ho, ?_⟩
  intro ht
  obtain ⟨kvs, ostr, ps, P, rfl, hop, hps, hpp, hcase⟩ := decodeOp_fields elem op hd
  have hop' : objLookup kOp kvs = some (.str ostr) := by rw [objLookup_eq, kOp_eq]; exact hop
  have hps' : objLookup kPath kvs = some (.str ps) := by rw [objLookup_eq, kPath_eq]; exact hps
  obtain ⟨o', hdisp, hrc, hdoc, _, htags⟩ :=
    step_obj ser eq doc kvs (.str ostr) (.str ps) (cstr ostr) hop' rfl hps' o ho
  rw [ht] at htags
  have htags' := htags.symm
  simp only [List.append_eq_nil_iff] at htags'
  obtain ⟨⟨⟨hto, htp⟩, htf⟩, ht'⟩ := htags'
  have hgo := fieldTags_str_nil ser ostr false hto
  have hgp := fieldTags_str_nil ser ps true htp
  have hco : cstr ostr = ostr := by simpa [getString] using hgo
  rw [hco] at hdisp htf
  rw [hgp] at hdisp
  have agree_of : ∀ x, (∃ o2, x = Outcome.ok o2 ∧ (o2.tags = [] → OpAgrees o2 (Rfc6902.applyOp doc op))) →
      dispatch ser eq doc (.obj kvs) ostr (some ps) = x → OpAgrees o (Rfc6902.applyOp doc op) := by
    intro x ⟨o2, hx, hag⟩ hdx
    rw [hdx, hx] at hdisp
    simp only [Outcome.ok.injEq] at hdisp
    subst hdisp
    have := hag ht'
    unfold OpAgrees at this ⊢
    rw [hrc, hdoc]; exact this
  have hval : ∀ v, Rfc6902.lookup Rfc6902.kValue kvs = some v → objGet (.obj kvs) kValue = some v := by
    intro v hv; simp only [objGet, objLookup_eq, kValue_eq, hv]
  rcases hcase with ⟨ho1, v, hv, rfl⟩ | ⟨ho1, rfl⟩ | ⟨ho1, v, hv, rfl⟩ | ⟨ho1, fs, F, hfs, hfp, rfl⟩ |
      ⟨ho1, fs, F, hfs, hfp, rfl⟩ | ⟨ho1, v, hv, rfl⟩
  · subst ho1
    exact agree_of _ (opAdd_refines doc _ v ps P hpp hs (hval v hv)) (dispatch_add ..)
  · subst ho1
    exact agree_of _ (opRemove_refines doc ps P hpp hs) (dispatch_remove ..)
  · subst ho1
    exact agree_of _ (opReplace_refines doc _ v ps P hpp hs (hval v hv)) (dispatch_replace ..)
  · subst ho1
    have hfs' : objLookup kFrom kvs = some (.str fs) := by rw [objLookup_eq, kFrom_eq]; exact hfs
    rw [hfs'] at htf
    have htf' : fieldTags ser (.str fs) true = [] := by
      have := (by simpa using htf : Rfc6902.sMove = sMove ∨ Rfc6902.sMove = sCopy → fieldTags ser (JVal.str fs) true = [])
      exact this (Or.inl rfl)
    have hgf := fieldTags_str_nil ser fs true htf'
    exact agree_of _ (opMove_refines ser doc _ (.str fs) fs ps F P hfp hpp hs (by simp only [objGet, hfs']) hgf)
      (dispatch_move ..)
  · subst ho1
    have hfs' : objLookup kFrom kvs = some (.str fs) := by rw [objLookup_eq, kFrom_eq]; exact hfs
    rw [hfs'] at htf
    have htf' : fieldTags ser (.str fs) true = [] := by
      have := (by simpa using htf : Rfc6902.sCopy = sMove ∨ Rfc6902.sCopy = sCopy → fieldTags ser (JVal.str fs) true = [])
      exact this (Or.inr rfl)
    have hgf := fieldTags_str_nil ser fs true htf'
    exact agree_of _ (opCopy_refines ser doc _ (.str fs) fs ps F P hfp hpp hs (by simp only [objGet, hfs']) hgf)
      (dispatch_copy ..)
  · subst ho1
    exact agree_of _ (opTest_refines eq doc _ v ps P hpp hs (hval v hv)) (dispatch_test ..)

end JsonC.Patch
