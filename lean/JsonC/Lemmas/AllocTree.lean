/-
  Helper lemmas for C08 (no property statements): releasing a tree (json_object_put with reference
  count 1) frees the blocks the tree owns, each exactly once.
-/
import JsonC.Lemmas.AllocOps

namespace JsonC.Alloc
open JsonC Generated


/-- the blocks of `t` are pairwise distinct and live -/
def OwnedIn (h : Heap) (S : List Blk) : Prop := S.Nodup ∧ ∀ b ∈ S, b ∈ h.live

def PutPost (h : Heap) (S : List Blk) : Unit → Heap → Prop :=
  fun _ h' => WF h' ∧ h'.next = h.next ∧ h'.errno = h.errno ∧ h'.live = h.live.filter (keep S)

theorem free_keep {b : Blk} {site : String} {g : Oracle} {h : Heap} {Q : Unit → Heap → Prop} (hwf : WF h)
    (hb : b ∈ h.live)
    (hq : ∀ h1 : Heap, h1.next = h.next → h1.live = h.live.filter (keep [b]) → h1.errno = h.errno → WF h1 → Q () h1) :
    Post (free b site) g h Q :=
  Post.free hwf hb (fun h1 hn hl he hw => hq h1 hn (by rw [hl, filter_ne_eq_keep]) he hw)

theorem not_mem_snoc {a x : Blk} {S : List Blk} (h1 : a ∉ S) (h2 : a ≠ x) : a ∉ S ++ [x] := by
  intro hm
  rw [List.mem_append, List.mem_singleton] at hm
  rcases hm with hm | hm
  · exact h1 hm
  · exact h2 hm

theorem putList_spec (es : List Node)
    (ih : ∀ e ∈ es, ∀ (g : Oracle) (h : Heap), WF h → OwnedIn h (owned e) → Post (putNode e) g h (PutPost h (owned e))) :
    ∀ (g : Oracle) (h : Heap), WF h → OwnedIn h (ownedList es) → Post (putList es) g h (PutPost h (ownedList es)) := by
  induction es with
  | nil =>
    intro g h hwf _
    rw [putList]
    apply Post.pure
    exact ⟨hwf, rfl, rfl, by rw [ownedList, filter_keep_nil]⟩
  | cons e es ihl =>
    intro g h hwf ⟨hnd, hlive⟩
    rw [putList]
    rw [ownedList] at hnd hlive
    have hnd' := List.nodup_append.mp hnd
    apply Post.seq (ih e (by simp) g h hwf ⟨hnd'.1, fun b hb => hlive b (by simp [hb])⟩)
    rintro _ h1 ⟨hwf1, hn1, he1, hl1⟩
    apply Post.mono (ihl (fun x hx => ih x (by simp [hx])) g h1 hwf1 ⟨hnd'.2.1, ?_⟩)
    · rintro _ h2 ⟨hwf2, hn2, he2, hl2⟩
      refine ⟨hwf2, by omega, by rw [he2, he1], ?_⟩
      rw [hl2, hl1, filter_keep_keep, ownedList]
    · intro b hb
      rw [hl1, mem_filter_keep]
      refine ⟨hlive b (by simp [hb]), ?_⟩
      intro hbe
      exact hnd'.2.2 b hbe b hb rfl

theorem putMembers_spec (ms : List (Bytes × Option Blk × Node))
    (ih : ∀ m ∈ ms, ∀ (g : Oracle) (h : Heap), WF h → OwnedIn h (owned m.2.2) → Post (putNode m.2.2) g h (PutPost h (owned m.2.2))) :
    ∀ (g : Oracle) (h : Heap), WF h → OwnedIn h (ownedMembers ms) → Post (putMembers ms) g h (PutPost h (ownedMembers ms)) := by
  induction ms with
  | nil =>
    intro g h hwf _
    rw [putMembers]
    apply Post.pure
    exact ⟨hwf, rfl, rfl, by rw [ownedMembers, filter_keep_nil]⟩
  | cons m ms ihl =>
    obtain ⟨k, kb, v⟩ := m
    intro g h hwf ⟨hnd, hlive⟩
    simp only [putMembers]
    rw [ownedMembers] at hnd hlive
    have hnd1 := List.nodup_append.mp hnd
    have hnd2 := List.nodup_append.mp hnd1.1
    have hrest : ∀ h1 : Heap, WF h1 → h1.next = h.next → h1.errno = h.errno → h1.live = h.live.filter (keep kb.toList) →
        Post (do putNode v; putMembers ms) g h1 (PutPost h (kb.toList ++ owned v ++ ownedMembers ms)) := by
      intro h1 hwf1 hn1 he1 hl1
      have hv : OwnedIn h1 (owned v) := by
        refine ⟨hnd2.2.1, ?_⟩
        intro b hb
        rw [hl1, mem_filter_keep]
        exact ⟨hlive b (by simp [hb]), fun hk => hnd2.2.2 b hk b hb rfl⟩
      apply Post.seq (ih (k, kb, v) (by simp) g h1 hwf1 hv)
      rintro _ h2 ⟨hwf2, hn2, he2, hl2⟩
      apply Post.mono (ihl (fun x hx => ih x (by simp [hx])) g h2 hwf2 ⟨hnd1.2.1, ?_⟩)
      · rintro _ h3 ⟨hwf3, hn3, he3, hl3⟩
        refine ⟨hwf3, by omega, by rw [he3, he2, he1], ?_⟩
        rw [hl3, hl2, hl1, filter_keep_keep, filter_keep_keep, List.append_assoc]
      · intro b hb
        rw [hl2, hl1, filter_keep_keep, mem_filter_keep]
        refine ⟨hlive b (by simp [hb]), ?_⟩
        intro hbe
        exact hnd1.2.2 b hbe b hb rfl
    cases kb with
    | none => exact hrest h hwf rfl rfl (by simp [filter_keep_nil])
    | some kblk =>
      apply Post.bind
      apply free_keep hwf (hlive kblk (by simp))
      intro h1 hn hl he hw
      exact hrest h1 hw hn he (by simpa using hl)

/-- json_object_put of an unshared tree releases exactly the blocks the tree owns -/
theorem putNode_spec : ∀ (t : Node) (g : Oracle) (h : Heap), WF h → OwnedIn h (owned t) →
    Post (putNode t) g h (PutPost h (owned t)) := by
  intro t
  induction t using Node.induct with
  | hnull =>
    intro g h hwf _
    rw [putNode]
    apply Post.pure
    exact ⟨hwf, rfl, rfl, by rw [owned, filter_keep_nil]⟩
  | hprim k b =>
    intro g h hwf ⟨_, hlive⟩
    rw [putNode]
    apply free_keep hwf (hlive b (by simp [owned]))
    intro h1 hn hl he hw
    exact ⟨hw, hn, he, by rw [owned]; exact hl⟩
  | hdbls b ud =>
    intro g h hwf ⟨hnd, hlive⟩
    rw [putNode]
    rw [owned] at hnd hlive
    apply Post.bind
    apply free_keep hwf (hlive ud (by simp))
    intro h1 hn hl he hw
    apply free_keep hw
    · rw [hl, mem_filter_keep]
      refine ⟨hlive b (by simp), ?_⟩
      simp only [List.mem_singleton]
      intro e; subst e; simp at hnd
    · intro h2 hn2 hl2 he2 hw2
      refine ⟨hw2, by omega, by rw [he2, he], ?_⟩
      rw [hl2, hl, filter_keep_keep, owned]
      apply filter_keep_congr
      intro x; simp [or_comm]
  | hstr b s pd =>
    intro g h hwf ⟨hnd, hlive⟩
    simp only [putNode]
    rw [owned] at hnd hlive
    have hrest : ∀ h1 : Heap, WF h1 → h1.next = h.next → h1.errno = h.errno → h1.live = h.live.filter (keep pd.toList) →
        Post (free b "json_object_generic_delete: free(jso)") g h1 (PutPost h (b :: pd.toList)) := by
      intro h1 hwf1 hn1 he1 hl1
      apply free_keep hwf1
      · rw [hl1, mem_filter_keep]
        refine ⟨hlive b (by simp), ?_⟩
        intro hm
        simp [hm] at hnd
      · intro h2 hn2 hl2 he2 hw2
        refine ⟨hw2, by omega, by rw [he2, he1], ?_⟩
        rw [hl2, hl1, filter_keep_keep]
        apply filter_keep_congr
        intro x; simp [or_comm]
    cases pd with
    | none => exact hrest h hwf rfl rfl (by simp [filter_keep_nil])
    | some p =>
      apply Post.bind
      apply free_keep hwf (hlive p (by simp))
      intro h1 hn hl he hw
      exact hrest h1 hw hn he (by simpa using hl)
  | harr b al es ih =>
    intro g h hwf ⟨hnd, hlive⟩
    rw [putNode]
    rw [owned] at hnd hlive
    have n1 := List.nodup_cons.mp hnd
    have n2 := List.nodup_cons.mp n1.2
    have n3 := List.nodup_cons.mp n2.2
    have hnd3 : (ownedList es).Nodup ∧ al.array ∉ ownedList es ∧ al.self ∉ ownedList es ∧ b ∉ ownedList es ∧
        al.array ≠ al.self ∧ al.array ≠ b ∧ al.self ≠ b := by
      refine ⟨n3.2, n3.1, ?_, ?_, ?_, ?_, ?_⟩
      · intro hm; exact n2.1 (by simp [hm])
      · intro hm; exact n1.1 (by simp [hm])
      · intro e; exact n2.1 (by simp [e])
      · intro e; exact n1.1 (by simp [e])
      · intro e; exact n1.1 (by simp [e])
    obtain ⟨hes, ha, hs, hbb, has, hab, hsb⟩ := hnd3
    apply Post.seq (putList_spec es ih g h hwf ⟨hes, fun x hx => hlive x (by simp [hx])⟩)
    rintro _ h1 ⟨hwf1, hn1, he1, hl1⟩
    unfold alFree
    apply Post.bind
    apply Post.bind
    apply free_keep hwf1
    · rw [hl1, mem_filter_keep]; exact ⟨hlive _ (by simp), ha⟩
    intro h2 hn2 hl2 he2 hw2
    apply free_keep hw2
    · rw [hl2, hl1, filter_keep_keep, mem_filter_keep]
      exact ⟨hlive _ (by simp), not_mem_snoc hs (fun e => has e.symm)⟩
    intro h3 hn3 hl3 he3 hw3
    apply free_keep hw3
    · rw [hl3, hl2, hl1, filter_keep_keep, filter_keep_keep, mem_filter_keep]
      refine ⟨hlive _ (by simp), ?_⟩
      rw [← List.append_assoc]
      exact not_mem_snoc (not_mem_snoc hbb (fun e => hab e.symm)) (fun e => hsb e.symm)
    intro h4 hn4 hl4 he4 hw4
    refine ⟨hw4, by omega, by rw [he4, he3, he2, he1], ?_⟩
    rw [hl4, hl3, hl2, hl1, filter_keep_keep, filter_keep_keep, filter_keep_keep, owned]
    apply filter_keep_congr
    intro x
    simp only [List.mem_append, List.mem_cons, List.not_mem_nil, false_or, or_assoc, or_comm, or_left_comm]
  | hobj b lh ms ih =>
    intro g h hwf ⟨hnd, hlive⟩
    rw [putNode]
    rw [owned] at hnd hlive
    have n1 := List.nodup_cons.mp hnd
    have n2 := List.nodup_cons.mp n1.2
    have n3 := List.nodup_cons.mp n2.2
    have hnd3 : (ownedMembers ms).Nodup ∧ lh.table ∉ ownedMembers ms ∧ lh.self ∉ ownedMembers ms ∧ b ∉ ownedMembers ms ∧
        lh.table ≠ lh.self ∧ lh.table ≠ b ∧ lh.self ≠ b := by
      refine ⟨n3.2, n3.1, ?_, ?_, ?_, ?_, ?_⟩
      · intro hm; exact n2.1 (by simp [hm])
      · intro hm; exact n1.1 (by simp [hm])
      · intro e; exact n2.1 (by simp [e])
      · intro e; exact n1.1 (by simp [e])
      · intro e; exact n1.1 (by simp [e])
    obtain ⟨hes, ha, hs, hbb, has, hab, hsb⟩ := hnd3
    apply Post.seq (putMembers_spec ms ih g h hwf ⟨hes, fun x hx => hlive x (by simp [hx])⟩)
    rintro _ h1 ⟨hwf1, hn1, he1, hl1⟩
    unfold lhFree
    apply Post.bind
    apply Post.bind
    apply free_keep hwf1
    · rw [hl1, mem_filter_keep]; exact ⟨hlive _ (by simp), ha⟩
    intro h2 hn2 hl2 he2 hw2
    apply free_keep hw2
    · rw [hl2, hl1, filter_keep_keep, mem_filter_keep]
      exact ⟨hlive _ (by simp), not_mem_snoc hs (fun e => has e.symm)⟩
    intro h3 hn3 hl3 he3 hw3
    apply free_keep hw3
    · rw [hl3, hl2, hl1, filter_keep_keep, filter_keep_keep, mem_filter_keep]
      refine ⟨hlive _ (by simp), ?_⟩
      rw [← List.append_assoc]
      exact not_mem_snoc (not_mem_snoc hbb (fun e => hab e.symm)) (fun e => hsb e.symm)
    intro h4 hn4 hl4 he4 hw4
    refine ⟨hw4, by omega, by rw [he4, he3, he2, he1], ?_⟩
    rw [hl4, hl3, hl2, hl1, filter_keep_keep, filter_keep_keep, filter_keep_keep, owned]
    apply filter_keep_congr
    intro x
    simp only [List.mem_append, List.mem_cons, List.not_mem_nil, false_or, or_assoc, or_comm, or_left_comm]

end JsonC.Alloc
