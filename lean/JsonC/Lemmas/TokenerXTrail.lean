/-
  C16: bytes after the complete top-level value ("trailing non-whitespace"), on whole documents.
  Default mode and STRICT|ALLOW_TRAILING_CHARS return the value and report where it ended; STRICT
  alone answers "unexpected character".
-/
import JsonC.Lemmas.TokenerXRej5
import JsonC.Lemmas.TokenerScrub2
import JsonC.Props.C04
namespace JsonC.Tokener
open JsonC Rfc8259

/-- what `json_tokener_new_ex(depth, flags)` gives for the four flag words without UTF-8 validation -/
theorem new_facts (d : Int) (f : Nat) (t : Tok) (h : Tokener.new d f = some t) (hf : f = 0 ∨ f = 1 ∨ f = 2 ∨ f = 3) :
    NoVal t ∧ t.hs = 0 ∧ t.stack = [⟨.eatws, .start, .null, none⟩] ∧ t.maxDepth = d.toNat ∧
      (t.strict = true ↔ (f = 1 ∨ f = 3)) ∧ (t.allowTrailing = true ↔ (f = 2 ∨ f = 3)) := by
  rw [new_eq_fresh h]
  have a0 : (0 &&& Generated.tokenerStrict) = 0 := by decide
  have a1 : (1 &&& Generated.tokenerStrict) = 1 := by decide
  have a2 : (2 &&& Generated.tokenerStrict) = 0 := by decide
  have a3 : (3 &&& Generated.tokenerStrict) = 1 := by decide
  have b0 : (0 &&& Generated.tokenerAllowTrailing) = 0 := by decide
  have b1 : (1 &&& Generated.tokenerAllowTrailing) = 0 := by decide
  have b2 : (2 &&& Generated.tokenerAllowTrailing) = 2 := by decide
  have b3 : (3 &&& Generated.tokenerAllowTrailing) = 2 := by decide
  have c0 : (0 &&& Generated.tokenerValidateUtf8) = 0 := by decide
  have c1 : (1 &&& Generated.tokenerValidateUtf8) = 0 := by decide
  have c2 : (2 &&& Generated.tokenerValidateUtf8) = 0 := by decide
  have c3 : (3 &&& Generated.tokenerValidateUtf8) = 0 := by decide
  rcases hf with h | h | h | h <;> subst h <;>
    simp [NoVal, Tok.strict, Tok.allowTrailing, freshTok, freshLevel, a0, a1, a2, a3, b0, b1, b2, b3, c0, c1, c2, c3]

/-- a non-space, non-NUL byte (other than the comment opener) after the complete top-level value ends the loop at `finish` -/
theorem run_trailing_byte (lc : Libc) (t : Tok) (l : Loc) (hv : NoVal t) (v : JVal) (nm : Option Bytes)
    (hs : t.stack = [⟨.eatws, .finish, v, nm⟩]) (g : UInt8) (hgw : isWs g = false) (hg47 : g ≠ 47)
    (c : UInt8) (off : Nat) (rs : Bytes) :
    run lc t l c off (g :: rs) = ⟨{ t with stack := [⟨.finish, .finish, v, nm⟩] }, l, g, off, .done⟩ := by
  have e47 : (g == 47) = false := by simpa using hg47
  have hf : feed lc t l g = .done { t with stack := [⟨.finish, .finish, v, nm⟩] } l := by
    simp [feed, fuel, feedN, disp, hs, dEatws, dFinish, hgw, e47, setTop]
  have hpk : peek t l g = some l := by simp [peek, hv.validate]
  simp only [run, hpk, hf]

/-- the epilogue on that loop result -/
theorem epilogue_trailing (t : Tok) (l : Loc) (hv : NoVal t) (v : JVal) (nm : Option Bytes) (g : UInt8) (hg0 : g ≠ 0) (off : Nat) :
    let e : LoopEnd := ⟨{ t with stack := [⟨.finish, .finish, v, nm⟩] }, l, g, off, .done⟩
    ((t.strict = true ∧ t.allowTrailing = false) → (epilogue e).err = .unexpected ∧ (epilogue e).value = none) ∧
    (¬ (t.strict = true ∧ t.allowTrailing = false) →
      (epilogue e).err = .success ∧ (epilogue e).value = some v ∧ (epilogue e).offset = off) ∧
    (epilogue e).stuck = false ∧ (epilogue e).fault = none := by
  have hv' := hv.validate
  have hvf : ({ t with stack := [⟨.finish, .finish, v, nm⟩] } : Tok).validateUtf8 = false := by simpa [Tok.validateUtf8] using hv'
  have hst : ({ t with stack := [⟨.finish, .finish, v, nm⟩] } : Tok).strict = t.strict := by simp [Tok.strict]
  have hat : ({ t with stack := [⟨.finish, .finish, v, nm⟩] } : Tok).allowTrailing = t.allowTrailing := by simp [Tok.allowTrailing]
  have hc : (g == 0) = false := by simpa using hg0
  have hcn : (g != 0) = true := by simpa using hg0
  have hsf : ∀ e : LoopEnd, e.stop = .done → (epilogue e).stuck = false ∧ (epilogue e).fault = none := by
    intro e he
    unfold epilogue
    simp only [he]
    split <;> exact ⟨rfl, rfl⟩
  refine ⟨?_, ?_, (hsf _ rfl).1, (hsf _ rfl).2⟩
  · intro ⟨h1, h2⟩
    have hst2 : ({ t with stack := [⟨.finish, .finish, v, nm⟩] } : Tok).strict = true := by rw [hst]; exact h1
    have hat2 : ({ t with stack := [⟨.finish, .finish, v, nm⟩] } : Tok).allowTrailing = false := by rw [hat]; exact h2
    have hfe : finalErr ⟨{ t with stack := [⟨.finish, .finish, v, nm⟩] }, l, g, off, .done⟩ = .unexpected := by
      simp [finalErr, topState, hst2, hat2, hc, hcn]
    simp [epilogue, hfe]
  · intro hn
    have hsa : (({ t with stack := [⟨.finish, .finish, v, nm⟩] } : Tok).strict &&
        !({ t with stack := [⟨.finish, .finish, v, nm⟩] } : Tok).allowTrailing) = false := by
      rw [hst, hat]
      cases h1 : t.strict <;> cases h2 : t.allowTrailing <;> simp_all
    have hfe : finalErr ⟨{ t with stack := [⟨.finish, .finish, v, nm⟩] }, l, g, off, .done⟩ = .success := by
      unfold finalErr loopErr
      simp only [topState, hc, Bool.false_and, Bool.false_eq_true, if_false, hvf]
      rw [show ((g != 0) && (St.finish == St.finish) &&
          (({ t with stack := [⟨.finish, .finish, v, nm⟩] } : Tok).stack.length == 1) &&
          ({ t with stack := [⟨.finish, .finish, v, nm⟩] } : Tok).strict &&
          !({ t with stack := [⟨.finish, .finish, v, nm⟩] } : Tok).allowTrailing) = false from by
        rw [Bool.and_assoc, hsa]; simp]
      simp
    simp [epilogue, hfe, topCurrent]

/-- **trailing bytes on whole documents**: an RFC 8259 text followed by a byte `g` that is neither
white space nor NUL nor '/' (and, when no white space separates it from the value, is one of the
bytes that can end any token), then anything.  STRICT alone: "unexpected character", no value.
Default mode and STRICT|ALLOW_TRAILING_CHARS: success, the value of the document, and the reported
end position is where the text ended (the trailing bytes are left for the caller). -/
theorem trailing_bytes_top (lc : Libc) (hl : LibcSpec lc) (depth : Int) (f : Nat) (hf : f = 0 ∨ f = 1 ∨ f = 2 ∨ f = 3) (t : Tok)
    (hnew : Tokener.new depth f = some t) (x : Text) (hok : x.doc.ok = true) (hknf : x.doc.keysNulFree = true)
    (hfit : (f = 1 ∨ f = 3) → x.doc.intsFit = true) (hdepth : x.doc.nest + 1 ≤ depth.toNat)
    (g : UInt8) (hg0 : g ≠ 0) (hgw : isWs g = false) (hg47 : g ≠ 47) (hsep : x.trail ≠ [] ∨ Follow g) (more : Bytes) :
    let r := parseEx lc t (x.text ++ g :: more)
    (f = 1 → r.err = .unexpected ∧ r.value = none) ∧
    (f ≠ 1 → r.err = .success ∧ r.value = some x.doc.denote ∧ r.offset = x.text.length) ∧
    r.stuck = false ∧ r.fault = none := by
  obtain ⟨hv, hhs, hst, hmd, hstrict, hallow⟩ := new_facts depth f t hnew hf
  have hwf := new_wf depth f t hnew
  have hsplit : x.text ++ g :: more = x.lead.text ++ (x.doc.text ++ (x.trail.text ++ g :: more)) := by simp [Text.text]
  unfold parseEx
  rw [hsplit, run_ws lc t {} .start .null none [] hst hv x.lead.text (ws_bytes_ws x.lead) 1 0 _]
  -- the byte after the value
  obtain ⟨nb, rs, htl, hfol⟩ : ∃ nb rs, x.trail.text ++ g :: more = nb :: rs ∧ Follow nb := by
    cases htr : x.trail with
    | nil =>
      rcases hsep with h | h
      · exact absurd htr h
      · exact ⟨g, more, by simp [Ws.text], h⟩
    | cons w ws' =>
      refine ⟨w.byte, Ws.text ws' ++ g :: more, by simp [Ws.text], Or.inl ?_⟩
      cases w <;> simp [WsChar.byte, isWs]
  rw [htl]
  obtain ⟨t', l', hs', f', hwf', hl', hrun⟩ := doc_goal lc hl x.doc t {} .null [] hwf hst hv hhs rfl hok
    (fun h => hfit (hstrict.mp h)) hknf (by rw [hmd]; simp only [List.length_nil]; omega) nb hfol (fun _ => rfl)
    (lastOr 1 x.lead.text) (0 + x.lead.text.length) rs
  rw [hrun, ← htl, run_ws lc t' l' .finish x.doc.denote none [] hs' (f'.noVal hv) x.trail.text (ws_bytes_ws x.trail),
    run_trailing_byte lc t' l' (f'.noVal hv) x.doc.denote none hs' g hgw hg47]
  have hep := epilogue_trailing t' l' (f'.noVal hv) x.doc.denote none g hg0
    (0 + x.lead.text.length + x.doc.text.length + x.trail.text.length)
  simp only at hep
  have hst' : t'.strict = t.strict := f'.strict
  have hat' : t'.allowTrailing = t.allowTrailing := by simp [Tok.allowTrailing, f'.fl]
  refine ⟨?_, ?_, hep.2.2.1, hep.2.2.2⟩
  · intro h1
    subst h1
    apply hep.1
    rw [hst', hat']
    refine ⟨hstrict.mpr (Or.inl rfl), ?_⟩
    cases h : t.allowTrailing with
    | false => rfl
    | true => have := hallow.mp h; omega
  · intro hne
    have hn : ¬ (t'.strict = true ∧ t'.allowTrailing = false) := by
      rw [hst', hat']
      intro ⟨h1, h2⟩
      have := hstrict.mp h1
      rcases this with h | h
      · exact hne h
      · have : t.allowTrailing = true := hallow.mpr (Or.inr h)
        rw [this] at h2; cases h2
    have := hep.2.1 hn
    refine ⟨this.1, this.2.1, ?_⟩
    rw [this.2.2]; simp [Text.text]; omega

end JsonC.Tokener
