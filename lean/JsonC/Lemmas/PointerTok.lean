import JsonC.Lemmas.PointerWalk
namespace JsonC.Pointer
open JsonC Generated Rfc6901

theorem isPlainDigit_eq (c : UInt8) : isPlainDigit c = isDigit c := rfl

theorem decVal_eq_aux (ds : Bytes) (a : Nat) :
    ds.foldl (fun a d => a * 10 + (d.toNat - 48)) a = ds.foldl (fun a d => 10 * a + (d.toNat - 48)) a := by
  induction ds generalizing a with
  | nil => rfl
  | cons d ds ih => simp only [List.foldl_cons]; rw [Nat.mul_comm a 10]; exact ih _

theorem decVal_eq (ds : Bytes) : decVal ds = decimal ds := decVal_eq_aux ds 0

theorem sizeMax_eq_ullongMax : sizeMax = ullongMax := by decide

theorem arrayIndex_single (c : UInt8) :
    arrayIndex [c] = if isDigit c then some (c.toNat - 48) else none := rfl
theorem arrayIndex_cons2 (c d : UInt8) (rest : Bytes) :
    arrayIndex (c :: d :: rest) =
      if c ≠ 48 ∧ (c :: d :: rest).all isDigit then some (decimal (c :: d :: rest)) else none := rfl
theorem isValidIndex_single (c : UInt8) :
    isValidIndex [c] = if isPlainDigit c then some (c.toNat - 48, false) else none := rfl
theorem isValidIndex_cons2 (c d : UInt8) (rest : Bytes) :
    isValidIndex (c :: d :: rest) =
      if (c :: d :: rest).head? = some 48 then none
      else if !(c :: d :: rest).all isPlainDigit then none
      else some (toSizeT (strtoullDigits (c :: d :: rest)).1, (strtoullDigits (c :: d :: rest)).2) := rfl

/-- what the C index test computes, against the RFC's array-index: same tokens accepted, and the
index is the token's value saturated at SIZE_MAX -/
theorem isValidIndex_of_arrayIndex_none (tok : Bytes) (h : arrayIndex tok = none) :
    isValidIndex tok = none := by
  match tok, h with
  | [], _ => rfl
  | [c], h =>
    rw [arrayIndex_single] at h
    rw [isValidIndex_single, isPlainDigit_eq]
    by_cases hd : isDigit c = true
    · rw [if_pos hd] at h; cases h
    · rw [if_neg hd]
  | c :: d :: rest, h =>
    rw [arrayIndex_cons2] at h
    rw [isValidIndex_cons2]
    by_cases hc : c = 48
    · subst hc; simp
    · have hh : ¬ ((c :: d :: rest).head? = some 48) := by simpa using hc
      rw [if_neg hh]
      by_cases hall : (c :: d :: rest).all isDigit = true
      · rw [if_pos ⟨hc, hall⟩] at h; cases h
      · have hall' : ¬ ((c :: d :: rest).all isPlainDigit = true) := hall
        rw [if_pos]
        rw [Bool.not_eq_true] at hall'
        rw [hall']; rfl

theorem isValidIndex_of_arrayIndex_some (tok : Bytes) (v : Nat) (h : arrayIndex tok = some v) :
    ∃ e, isValidIndex tok = some (min v sizeMax, e) ∧ (e = true ↔ v > sizeMax) := by
  match tok, h with
  | [], h => cases h
  | [c], h =>
    rw [arrayIndex_single] at h
    rw [isValidIndex_single, isPlainDigit_eq]
    by_cases hd : isDigit c = true
    · rw [if_pos hd] at h
      injection h with h
      subst h
      rw [if_pos hd]
      have hlt : c.toNat < 256 := c.toNat_lt
      have hsm : c.toNat - 48 ≤ sizeMax := by simp [sizeMax]; omega
      exact ⟨false, by rw [Nat.min_eq_left hsm], by simp; omega⟩
    · rw [if_neg hd] at h; cases h
  | c :: d :: rest, h =>
    rw [arrayIndex_cons2] at h
    rw [isValidIndex_cons2]
    by_cases hcond : c ≠ 48 ∧ (c :: d :: rest).all isDigit = true
    · rw [if_pos hcond] at h
      injection h with h
      subst h
      have hh : ¬ ((c :: d :: rest).head? = some 48) := by simpa using hcond.1
      have hall' : (c :: d :: rest).all isPlainDigit = true := hcond.2
      rw [if_neg hh, hall']
      simp only [Bool.not_true, Bool.false_eq_true, if_false, strtoullDigits, toSizeT, decVal_eq,
        ← sizeMax_eq_ullongMax]
      by_cases hbig : decimal (c :: d :: rest) > sizeMax
      · rw [if_pos hbig]
        refine ⟨true, ?_, by simpa using hbig⟩
        rw [Nat.min_eq_right (by omega), Nat.mod_eq_of_lt (by omega)]
      · rw [if_neg hbig]
        refine ⟨false, ?_, by simpa using hbig⟩
        rw [Nat.min_eq_left (by omega), Nat.mod_eq_of_lt (by omega)]
    · rw [if_neg hcond] at h; cases h


/-! ### unescaping never produces or removes a character of a class that excludes `~`, `/` -/

theorem subst2_id_of_all_result (P : UInt8 → Bool) (b r : UInt8) (s : Bytes) (hr : P r = false)
    (h : (subst2 126 b r s).all P = true) : subst2 126 b r s = s := by
  fun_induction subst2 126 b r s with
  | case1 x y rest hxy ih =>
    simp only [List.all_cons, Bool.and_eq_true] at h
    rw [hr] at h; cases h.1
  | case2 x y rest hxy ih =>
    simp only [List.all_cons, Bool.and_eq_true] at h
    rw [ih h.2]
  | case3 l hl => rfl

theorem subst2_id_of_all (P : UInt8 → Bool) (b r : UInt8) (s : Bytes) (h126 : P 126 = false)
    (h : s.all P = true) : subst2 126 b r s = s := by
  fun_induction subst2 126 b r s with
  | case1 x y rest hxy ih =>
    simp only [List.all_cons, Bool.and_eq_true] at h
    rw [hxy.1, h126] at h; cases h.1
  | case2 x y rest hxy ih =>
    simp only [List.all_cons, Bool.and_eq_true] at h
    rw [ih (by simp only [List.all_cons, Bool.and_eq_true]; exact h.2)]
  | case3 l hl => rfl

/-- for a character class `P` that contains neither `~` nor `/`: the decoded token is all-`P` iff
the token is, and then decoding changes nothing -/
theorem unescape_all (P : UInt8 → Bool) (h126 : P 126 = false) (h47 : P 47 = false) (tok : Bytes) :
    ((unescape tok).all P = true ↔ tok.all P = true) ∧
    ((unescape tok).all P = true → unescape tok = tok) := by
  have fwd : (unescape tok).all P = true → unescape tok = tok := by
    intro h
    unfold unescape at h ⊢
    have h1 := subst2_id_of_all_result P 48 126 _ h126 h
    rw [h1] at h ⊢
    exact subst2_id_of_all_result P 49 47 _ h47 h
  refine ⟨⟨fun h => by rw [← fwd h]; exact h, fun h => ?_⟩, fwd⟩
  have : unescape tok = tok := by
    unfold unescape
    rw [subst2_id_of_all P 49 47 tok h126 h, subst2_id_of_all P 48 126 tok h126 h]
  rw [this]; exact h

theorem arrayIndex_all (tok : Bytes) (v : Nat) (h : arrayIndex tok = some v) : tok.all isDigit = true := by
  match tok, h with
  | [], h => cases h
  | [c], h =>
    rw [arrayIndex_single] at h
    by_cases hd : isDigit c = true
    · simp [hd]
    · rw [if_neg hd] at h; cases h
  | c :: d :: rest, h =>
    rw [arrayIndex_cons2] at h
    by_cases hcond : c ≠ 48 ∧ (c :: d :: rest).all isDigit = true
    · exact hcond.2
    · rw [if_neg hcond] at h; cases h

/-- RFC 6901 decodes every token first; for an array step that makes no difference -/
theorem arrayIndex_unescape (tok : Bytes) : arrayIndex (unescape tok) = arrayIndex tok := by
  have hP := unescape_all isDigit (by decide) (by decide) tok
  by_cases h : (unescape tok).all isDigit = true
  · rw [hP.2 h]
  · have h1 : arrayIndex (unescape tok) = none := by
      cases hv : arrayIndex (unescape tok) with
      | none => rfl
      | some v => exact absurd (arrayIndex_all _ v hv) h
    have h2 : arrayIndex tok = none := by
      cases hv : arrayIndex tok with
      | none => rfl
      | some v => exact absurd (hP.1.2 (arrayIndex_all _ v hv)) h
    rw [h1, h2]

/-- `-` is `-` before and after decoding -/
theorem unescape_eq_dash (tok : Bytes) : unescape tok = [45] ↔ tok = [45] := by
  have hP := unescape_all (fun c => c == 45) (by decide) (by decide) tok
  constructor
  · intro h
    have : (unescape tok).all (fun c => c == 45) = true := by rw [h]; rfl
    rw [← hP.2 this]; exact h
  · intro h; subst h; rfl

/-! ### objects -/

theorem member_eq_lookupIdx (k : Bytes) (kvs : List (Bytes × JVal)) : member k kvs = lookupIdx k kvs := by
  induction kvs with
  | nil => rfl
  | cons p kvs ih => obtain ⟨k', v⟩ := p; simp only [member, lookupIdx, ih]

theorem lookupIdx_getElem (k : Bytes) (kvs : List (Bytes × JVal)) (i : Nat) (v : JVal)
    (h : lookupIdx k kvs = some (i, v)) : kvs[i]? = some (k, v) := by
  induction kvs generalizing i with
  | nil => cases h
  | cons p kvs ih =>
    obtain ⟨k', v'⟩ := p
    unfold lookupIdx at h
    by_cases hk : k' = k
    · rw [if_pos hk] at h
      injection h with h; injection h with h1 h2
      subst h1 h2 hk; rfl
    · rw [if_neg hk] at h
      cases hl : lookupIdx k kvs with
      | none => rw [hl] at h; cases h
      | some r =>
        obtain ⟨j, w⟩ := r
        rw [hl] at h
        injection h with h; injection h with h1 h2
        subst h1 h2
        simpa using ih j hl

/-! ### array sizes: a `size_t` length -/

/-- every array in the tree has a length that fits `size_t` (true of anything in memory) -/
def Sized (t : JVal) : Prop := ∀ q xs, nodeAt t q = some (.arr xs) → xs.length ≤ sizeMax

theorem Sized_child (t c : JVal) (i : Nat) (h : Sized t) (hc : child t i = some c) : Sized c := by
  intro q xs hq
  apply h (i :: q) xs
  simp only [nodeAt, hc]; exact hq

theorem stepC_child (obj : JVal) (tok : Bytes) (i : Nat) (c : JVal) (h : stepC obj tok = .found i c) :
    child obj i = some c := by
  cases obj with
  | arr xs =>
    simp only [stepC] at h
    cases hv : isValidIndex tok with
    | none => rw [hv] at h; cases h
    | some r =>
      obtain ⟨idx, e⟩ := r
      rw [hv] at h
      simp only [] at h
      by_cases hi : idx ≥ xs.length
      · rw [if_pos hi] at h; cases h
      · rw [if_neg hi] at h
        cases hx : xs[idx]? with
        | none => rw [hx] at h; cases h
        | some c' =>
          rw [hx] at h
          injection h with h1 h2
          subst h1 h2
          exact hx
  | obj kvs =>
    simp only [stepC] at h
    cases hl : lookupIdx (unescape tok) kvs with
    | none => rw [hl] at h; cases h
    | some r =>
      obtain ⟨j, w⟩ := r
      rw [hl] at h
      injection h with h1 h2
      subst h1 h2
      simp only [child, lookupIdx_getElem _ _ _ _ hl, Option.map_some]
  | _ => cases h

/-- one step of the C walk against one step of RFC 6901 evaluation -/
theorem stepC_step (obj : JVal) (tok : Bytes) (hs : Sized obj) :
    match step obj tok with
    | some (i, c) => stepC obj tok = .found i c
    | none => stepC obj tok = .fail .ENOENT ∨ stepC obj tok = .fail .EINVAL := by
  cases obj with
  | arr xs =>
    have hlen : xs.length ≤ sizeMax := hs [] xs rfl
    simp only [step, stepC, arrayIndex_unescape]
    cases hv : arrayIndex tok with
    | none =>
      rw [isValidIndex_of_arrayIndex_none tok hv]
      right; rfl
    | some v =>
      obtain ⟨e, hiv, _⟩ := isValidIndex_of_arrayIndex_some tok v hv
      rw [hiv]
      simp only []
      by_cases hi : v < xs.length
      · have hmin : min v sizeMax = v := Nat.min_eq_left (by omega)
        rw [hmin, List.getElem?_eq_getElem hi, if_neg (by omega)]
        simp
      · have hge : min v sizeMax ≥ xs.length := by
          exact Nat.le_min.mpr ⟨by omega, hlen⟩
        rw [if_pos hge, List.getElem?_eq_none (by omega)]
        left; rfl
  | obj kvs =>
    simp only [step, stepC, member_eq_lookupIdx]
    cases lookupIdx (unescape tok) kvs with
    | none => left; rfl
    | some r => obtain ⟨i, v⟩ := r; rfl
  | _ => left; rfl

end JsonC.Pointer
