/-
  C02 helper lemmas, part 8: the token sequence of `docOf` does not depend on the layout flags
  (SPACED / PRETTY / PRETTY_TAB / COLOR / NOZERO, nor on the nesting level); NOSLASHESCAPE changes the
  spelling of string tokens, never their value.
-/
import JsonC.Lemmas.SerializeDenote

namespace JsonC.Serialize
open JsonC Generated SerSpec Rfc8259

variable (fmt : UInt64 → Bytes)

theorem commaSep_map {α β : Type} (g : α → β) (sep : α) : ∀ (l : List (List α)),
    (commaSep sep l).map g = commaSep (g sep) (l.map (·.map g)) := by
  intro l
  induction l with
  | nil => rfl
  | cons x r ih =>
    cases r with
    | nil => simp [commaSep]
    | cons y r' =>
      simp only [List.map_cons] at ih ⊢
      simp only [commaSep, List.map_append, List.map_cons, ih]

theorem setLastElem_tokens : ∀ (es : List (Ws × Doc × Ws)) (w : Ws), elemsTokens (setLastElem w es) = elemsTokens es := by
  intro es
  induction es with
  | nil => intro w; rfl
  | cons e r ih =>
    intro w
    obtain ⟨w1, d, w2⟩ := e
    cases r with
    | nil => simp [setLastElem, elemsTokens]
    | cons e' r' =>
      obtain ⟨w1', d', w2'⟩ := e'
      have e1 : setLastElem w ((w1, d, w2) :: (w1', d', w2') :: r') = (w1, d, w2) :: setLastElem w ((w1', d', w2') :: r') := rfl
      rw [e1, elemsTokens, ih w]; simp [elemsTokens]

theorem setLastMember_tokens : ∀ (ms : List (Ws × List StrItem × Ws × Ws × Doc × Ws)) (w : Ws),
    membersTokens (setLastMember w ms) = membersTokens ms := by
  intro ms
  induction ms with
  | nil => intro w; rfl
  | cons m r ih =>
    intro w
    obtain ⟨w1, k, w2, w3, d, w4⟩ := m
    cases r with
    | nil => simp [setLastMember, membersTokens]
    | cons m' r' =>
      obtain ⟨w1', k', w2', w3', d', w4'⟩ := m'
      have e1 : setLastMember w ((w1, k, w2, w3, d, w4) :: (w1', k', w2', w3', d', w4') :: r') =
          (w1, k, w2, w3, d, w4) :: setLastMember w ((w1', k', w2', w3', d', w4') :: r') := rfl
      rw [e1, membersTokens, ih w]; simp [membersTokens]

/-- token values of a token list -/
abbrev vals (l : List Token) : List TokVal := l.map Token.value

theorem tokens_all :
    (∀ v, ∀ (f1 f2 : Fl) (l1 l2 : Nat) (d1 d2 : Doc), docOf fmt f1 l1 v = some d1 → docOf fmt f2 l2 v = some d2 →
      vals (docTokens d1) = vals (docTokens d2) ∧ (f1.noSlash = f2.noSlash → docTokens d1 = docTokens d2)) ∧
    (∀ xs, ∀ (f1 f2 : Fl) (l1 l2 : Nat) (e1 e2 : List (Ws × Doc × Ws)), elemsOf fmt f1 l1 xs = some e1 →
      elemsOf fmt f2 l2 xs = some e2 →
      (elemsTokens e1).map vals = (elemsTokens e2).map vals ∧ (f1.noSlash = f2.noSlash → elemsTokens e1 = elemsTokens e2)) ∧
    (∀ kvs, ∀ (f1 f2 : Fl) (l1 l2 : Nat) (m1 m2 : List (Ws × List StrItem × Ws × Ws × Doc × Ws)),
      membersOf fmt f1 l1 kvs = some m1 → membersOf fmt f2 l2 kvs = some m2 →
      (membersTokens m1).map vals = (membersTokens m2).map vals ∧
      (f1.noSlash = f2.noSlash → membersTokens m1 = membersTokens m2)) := by
  refine tree_ind ?_ ?_ ?_ ?_ ?_ ?_ ?_ ?_ ?_ ?_ ?_
  · intro f1 f2 l1 l2 d1 d2 h1 h2
    simp [docOf] at h1 h2; subst h1 h2; exact ⟨rfl, fun _ => rfl⟩
  · intro b f1 f2 l1 l2 d1 d2 h1 h2
    simp [docOf] at h1 h2; subst h1 h2; exact ⟨rfl, fun _ => rfl⟩
  · intro s v f1 f2 l1 l2 d1 d2 h1 h2
    simp [docOf] at h1 h2; subst h1 h2; exact ⟨rfl, fun _ => rfl⟩
  · intro bits t f1 f2 l1 l2 d1 d2 h1 h2
    cases t with
    | none =>
      simp only [docOf] at h1 h2
      rw [h1] at h2; cases h2; exact ⟨rfl, fun _ => rfl⟩
    | some t =>
      simp only [docOf] at h1 h2
      rw [h1] at h2; cases h2; exact ⟨rfl, fun _ => rfl⟩
  · intro s f1 f2 l1 l2 d1 d2 h1 h2
    simp [docOf] at h1 h2; subst h1 h2
    refine ⟨?_, fun h => by rw [h]⟩
    simp [docTokens, Token.value, decodeItems_itemsOf]
  · intro xs ih f1 f2 l1 l2 d1 d2 h1 h2
    cases he1 : elemsOf fmt f1 (l1 + 1) xs with
    | none => simp [docOf, he1] at h1
    | some e1 =>
      cases he2 : elemsOf fmt f2 (l2 + 1) xs with
      | none => simp [docOf, he2] at h2
      | some e2 =>
        simp [docOf, he1] at h1; simp [docOf, he2] at h2; subst h1 h2
        obtain ⟨hv, hs⟩ := ih f1 f2 (l1 + 1) (l2 + 1) e1 e2 he1 he2
        simp only [docTokens, setLastElem_tokens]
        refine ⟨?_, fun h => by rw [hs h]⟩
        simp only [vals, List.map_cons, List.map_append, commaSep_map]
        rw [show (elemsTokens e1).map (·.map Token.value) = (elemsTokens e1).map vals from rfl, hv]
  · intro kvs ih f1 f2 l1 l2 d1 d2 h1 h2
    cases hm1 : membersOf fmt f1 (l1 + 1) kvs with
    | none => simp [docOf, hm1] at h1
    | some m1 =>
      cases hm2 : membersOf fmt f2 (l2 + 1) kvs with
      | none => simp [docOf, hm2] at h2
      | some m2 =>
        simp [docOf, hm1] at h1; simp [docOf, hm2] at h2; subst h1 h2
        obtain ⟨hv, hs⟩ := ih f1 f2 (l1 + 1) (l2 + 1) m1 m2 hm1 hm2
        simp only [docTokens, setLastMember_tokens]
        refine ⟨?_, fun h => by rw [hs h]⟩
        simp only [vals, List.map_cons, List.map_append, commaSep_map]
        rw [show (membersTokens m1).map (·.map Token.value) = (membersTokens m1).map vals from rfl, hv]
  · intro f1 f2 l1 l2 e1 e2 h1 h2
    simp [elemsOf] at h1 h2; subst h1 h2; exact ⟨rfl, fun _ => rfl⟩
  · intro x xs ihx ihxs f1 f2 l1 l2 e1 e2 h1 h2
    cases hd1 : docOf fmt f1 l1 x with
    | none => simp [elemsOf, hd1] at h1
    | some d1 =>
      cases hr1 : elemsOf fmt f1 l1 xs with
      | none => simp [elemsOf, hd1, hr1] at h1
      | some r1 =>
        cases hd2 : docOf fmt f2 l2 x with
        | none => simp [elemsOf, hd2] at h2
        | some d2 =>
          cases hr2 : elemsOf fmt f2 l2 xs with
          | none => simp [elemsOf, hd2, hr2] at h2
          | some r2 =>
            simp [elemsOf, hd1, hr1] at h1; simp [elemsOf, hd2, hr2] at h2; subst h1 h2
            obtain ⟨a1, a2⟩ := ihx f1 f2 l1 l2 d1 d2 hd1 hd2
            obtain ⟨b1, b2⟩ := ihxs f1 f2 l1 l2 r1 r2 hr1 hr2
            simp only [elemsTokens, List.map_cons]
            exact ⟨by rw [a1, b1], fun h => by rw [a2 h, b2 h]⟩
  · intro f1 f2 l1 l2 m1 m2 h1 h2
    simp [membersOf] at h1 h2; subst h1 h2; exact ⟨rfl, fun _ => rfl⟩
  · intro k x kvs ihx ihkvs f1 f2 l1 l2 m1 m2 h1 h2
    cases hd1 : docOf fmt f1 l1 x with
    | none => simp [membersOf, hd1] at h1
    | some d1 =>
      cases hr1 : membersOf fmt f1 l1 kvs with
      | none => simp [membersOf, hd1, hr1] at h1
      | some r1 =>
        cases hd2 : docOf fmt f2 l2 x with
        | none => simp [membersOf, hd2] at h2
        | some d2 =>
          cases hr2 : membersOf fmt f2 l2 kvs with
          | none => simp [membersOf, hd2, hr2] at h2
          | some r2 =>
            simp [membersOf, hd1, hr1] at h1; simp [membersOf, hd2, hr2] at h2; subst h1 h2
            obtain ⟨a1, a2⟩ := ihx f1 f2 l1 l2 d1 d2 hd1 hd2
            obtain ⟨b1, b2⟩ := ihkvs f1 f2 l1 l2 r1 r2 hr1 hr2
            simp only [membersTokens, List.map_cons]
            refine ⟨?_, fun h => by rw [a2 h, b2 h, h]⟩
            rw [b1]
            simp only [vals, Token.value, decodeItems_itemsOf] at a1 ⊢
            rw [a1]

end JsonC.Serialize
