/-
  The nesting limit, reject half (C15), part 3: element and member loops up to the first value that is too deep.
-/
import JsonC.Lemmas.TokenerDeep2
namespace JsonC.Tokener
open JsonC Rfc8259

/-- white space, then a value some part of which is too deep (or which itself does not fit on the level array) -/
theorem child_rej (lc : Libc) (d : Doc) (ihd : DocRej lc d) (w1 : Ws) (t : Tok) (l : Loc) (hwf : WF t) (hv : NoVal t)
    (hhs : t.hs = 0) (hl0 : l.num = none) (sv pst : St)
    (hsv : (sv = .array ∧ pst = .arrayAdd) ∨ (sv = .arrayAfterSep ∧ pst = .arrayAdd) ∨ (sv = .objectValue ∧ pst = .objectValueAdd))
    (cur : JVal) (nm : Option Bytes) (rest : List Level) (hs : t.stack = ⟨.eatws, sv, cur, nm⟩ :: rest)
    (hok : d.ok = true) (hfit : t.strict = true → d.intsFit = true) (hknf : d.keysNulFree = true)
    (off o : Nat) (hd : Doc.firstDeep t.maxDepth (rest.length + 1) d (off + w1.text.length) = some o)
    (X : Bytes) (c : UInt8) :
    DepthStop (run lc t l c off (w1.text ++ (d.text ++ X))) o := by
  rw [run_ws lc t l sv cur nm rest hs hv w1.text (ws_bytes_ws w1) c off _]
  obtain ⟨b, dr, hdt, hb⟩ := doc_first d hok
  have e1 : d.text ++ X = b :: (dr ++ X) := by rw [hdt]; rfl
  by_cases hfull : t.maxDepth ≤ rest.length + 1
  · -- the element itself does not fit
    have ho : o = off + w1.text.length := by
      unfold Doc.firstDeep at hd
      rw [if_pos (by omega)] at hd
      cases hd; rfl
    rw [e1, ho]
    have hsv' : sv = .array ∨ sv = .arrayAfterSep ∨ sv = .objectValue := by
      rcases hsv with h | h | h
      · exact Or.inl h.1
      · exact Or.inr (Or.inl h.1)
      · exact Or.inr (Or.inr h.1)
    exact push_fail lc t l hwf hv sv hsv' cur nm rest hs b hb hfull _ _ _
  · obtain ⟨hwfp, hpush⟩ := push_child lc t l hwf hv sv pst hsv cur nm rest hs b hb (by omega)
    rw [e1, hpush, ← e1]
    exact ihd { t with stack := freshLevel :: ⟨pst, sv, cur, nm⟩ :: rest } l .null (⟨pst, sv, cur, nm⟩ :: rest) hwfp rfl hv hhs hl0
      hok hfit hknf (off + w1.text.length) o (by simpa using hd) _ X

theorem elems_rej (lc : Libc) (hl : LibcSpec lc) (es : List (Ws × Doc × Ws)) (ih : ∀ e ∈ es, DocRej lc e.2.1) :
    ∀ (t : Tok) (l : Loc) (sv : St) (_ : sv = .array ∨ sv = .arrayAfterSep) (xs : List JVal) (rest : List Level),
      WF t → t.stack = ⟨.eatws, sv, .arr xs, none⟩ :: rest → NoVal t → t.hs = 0 → l.num = none →
      elemsOk es = true → (t.strict = true → elemsFit es = true) → elemsKNF es = true →
      ∀ (off k : Nat), elemsFirstDeep t.maxDepth (rest.length + 1) es off = some k →
      ∀ (c : UInt8) (rs : Bytes), DepthStop (run lc t l c off (intercalateB 44 (elemsText es) ++ rs)) k := by
  induction es with
  | nil => intro t l sv _ xs rest _ _ _ _ _ _ _ _ off k hk; simp [elemsFirstDeep] at hk
  | cons e r ihr =>
    obtain ⟨w1, d, w2⟩ := e
    intro t l sv hsv xs rest hwf hs hv hhs hl0 hok hfit hknf off k hk c rs
    simp only [elemsOk, Bool.and_eq_true] at hok
    simp only [elemsKNF, Bool.and_eq_true] at hknf
    have hfit' : t.strict = true → d.intsFit = true ∧ elemsFit r = true := by
      intro h; have := hfit h; simpa [elemsFit] using this
    have hsv' : (sv = .array ∧ St.arrayAdd = .arrayAdd) ∨ (sv = .arrayAfterSep ∧ St.arrayAdd = .arrayAdd) ∨
        (sv = .objectValue ∧ St.arrayAdd = .objectValueAdd) := by
      rcases hsv with h | h
      · exact Or.inl ⟨h, rfl⟩
      · exact Or.inr (Or.inl ⟨h, rfl⟩)
    simp only [elemsFirstDeep] at hk
    cases hd : Doc.firstDeep t.maxDepth (rest.length + 1) d (off + w1.length) with
    | some o =>
      rw [hd] at hk
      cases hk
      obtain ⟨X, hX⟩ : ∃ X, intercalateB 44 (elemsText ((w1, d, w2) :: r)) ++ rs = w1.text ++ (d.text ++ X) := by
        cases r with
        | nil => exact ⟨w2.text ++ rs, by simp [intercalateB, elemsText]⟩
        | cons e2 r2 =>
          obtain ⟨a1, a2, a3⟩ := e2
          exact ⟨w2.text ++ 44 :: (intercalateB 44 (elemsText ((a1, a2, a3) :: r2)) ++ rs), by simp [intercalateB, elemsText]⟩
      rw [hX]
      exact child_rej lc d (ih (w1, d, w2) (by simp)) w1 t l hwf hv hhs hl0 sv .arrayAdd hsv' (.arr xs) none rest hs hok.1
        (fun h => (hfit' h).1) hknf.1 off k (by rw [ws_len]; exact hd) X c
    | none =>
      rw [hd] at hk
      simp only at hk
      have hfits := fits_of_firstDeep_none t.maxDepth d (rest.length + 1) _ hd
      cases r with
      | nil => simp [elemsFirstDeep] at hk
      | cons e2 r2 =>
        have e0 : intercalateB 44 (elemsText ((w1, d, w2) :: e2 :: r2)) ++ rs =
            w1.text ++ (d.text ++ (w2.text ++ 44 :: (intercalateB 44 (elemsText (e2 :: r2)) ++ rs))) := by
          obtain ⟨a1, a2, a3⟩ := e2
          simp [intercalateB, elemsText]
        obtain ⟨t2, l2, c2, hs2, f2, hl2, hrun⟩ := child_value lc d (doc_goal lc hl d) w1 w2 t l hwf hv hhs hl0 sv .arrayAdd hsv' (.arr xs)
          none rest hs hok.1 (fun h => (hfit' h).1) hknf.1 (by omega) 44 (by simp) (intercalateB 44 (elemsText (e2 :: r2)) ++ rs) c off
        have h3 := after_elem_comma lc t2 l2 (f2.noVal hv) d.denote none sv xs none rest hs2 c2
          (off + w1.text.length + d.text.length + w2.text.length) (intercalateB 44 (elemsText (e2 :: r2)) ++ rs)
        simp only [List.cons_append, List.nil_append, lastOr, List.getLast?_singleton, Option.getD_some, List.length_singleton] at h3
        let t3 : Tok := { t2 with stack := ⟨.eatws, .arrayAfterSep, .arr (xs ++ [d.denote]), none⟩ :: rest }
        have f3 : Frm t t3 := ⟨f2.md, f2.fl, f2.hs⟩
        have hwf3 : WF t3 := wf_restack hwf hs rfl f2.md (topOk_container _ _ (Or.inl ⟨rfl, _, rfl⟩))
          (posOk_of_ne (by simp) (by simp) (by simp))
        rw [e0, hrun, h3]
        refine ihr (fun e he => ih e (by simp [he])) t3 l2 .arrayAfterSep (Or.inr rfl) (xs ++ [d.denote]) rest hwf3 rfl (f3.noVal hv)
          f3.hs hl2 hok.2 (fun h => (hfit' (by rw [← f3.strict]; exact h)).2) hknf.2 _ k ?_ 44 rs
        rw [f3.md, ws_len, ws_len]
        exact hk

theorem members_rej (lc : Libc) (hl : LibcSpec lc) (ms : List (Ws × List StrItem × Ws × Ws × Doc × Ws))
    (ih : ∀ m ∈ ms, DocRej lc m.2.2.2.2.1) :
    ∀ (t : Tok) (l : Loc) (sv : St) (_ : sv = .objectFieldStart ∨ sv = .objectFieldStartAfterSep)
      (kvs : List (Bytes × JVal)) (nm : Option Bytes) (rest : List Level),
      WF t → t.stack = ⟨.eatws, sv, .obj kvs, nm⟩ :: rest → NoVal t → t.hs = 0 → l.num = none →
      membersOk ms = true → (t.strict = true → membersFit ms = true) → membersKNF ms = true →
      ∀ (off k : Nat), membersFirstDeep t.maxDepth (rest.length + 1) ms off = some k →
      ∀ (c : UInt8) (rs : Bytes), DepthStop (run lc t l c off (intercalateB 44 (membersText ms) ++ rs)) k := by
  induction ms with
  | nil => intro t l sv _ kvs nm rest _ _ _ _ _ _ _ _ off k hk; simp [membersFirstDeep] at hk
  | cons m r ihr =>
    obtain ⟨w1, k, w2, w3, d, w4⟩ := m
    intro t l sv hsv kvs nm rest hwf hs hv hhs hl0 hok hfit hknf off kk hk c rs
    simp only [membersOk, Bool.and_eq_true] at hok
    simp only [membersKNF, Bool.and_eq_true, Bool.not_eq_true'] at hknf
    have hfit' : t.strict = true → d.intsFit = true ∧ membersFit r = true := by
      intro h; have := hfit h; simpa [membersFit] using this
    have hkok : ∀ i ∈ k, i.ok = true := by
      intro i hi; exact (List.all_eq_true.mp hok.1.1) i hi
    have hkey : cstr (decodeItems k) = decodeItems k := cstr_of_nulfree _ hknf.1.1
    simp only [membersFirstDeep] at hk
    -- up to the colon
    have upto : ∀ (Y : Bytes), ∃ tc, tc.stack = ⟨.eatws, .objectValue, .obj kvs, some (decodeItems k)⟩ :: rest ∧ Frm t tc ∧ WF tc ∧
        run lc t l c off (w1.text ++ (strText k ++ (w2.text ++ 58 :: Y))) =
          run lc tc l 58 (off + w1.text.length + (strText k).length + w2.text.length + 1) Y := by
      intro Y
      rw [run_ws lc t l sv (.obj kvs) nm rest hs hv w1.text (ws_bytes_ws w1) c off _]
      obtain ⟨tn, hsn, fn, hrn⟩ := reaches_name lc t l sv hsv (.obj kvs) nm rest hs hv hhs k hkok
      rw [hrn, hkey] at *
      rw [run_ws lc tn l .objectFieldEnd (.obj kvs) (some (decodeItems k)) rest hsn (fn.noVal hv) w2.text (ws_bytes_ws w2)]
      have hc := colon_step lc tn l (fn.noVal hv) (.obj kvs) (some (decodeItems k)) rest hsn
        (lastOr (lastOr (lastOr c w1.text) (strText k)) w2.text) (off + w1.text.length + (strText k).length + w2.text.length) Y
      simp only [List.cons_append, List.nil_append, lastOr, List.getLast?_singleton, Option.getD_some, List.length_singleton] at hc
      simp only [lastOr] at *
      rw [hc]
      exact ⟨{ tn with stack := ⟨.eatws, .objectValue, .obj kvs, some (decodeItems k)⟩ :: rest }, rfl, ⟨fn.md, fn.fl, fn.hs⟩,
        wf_restack hwf hs rfl fn.md (topOk_objectValue _ _) (posOk_of_ne (by simp) (by simp) (by simp)), rfl⟩
    cases hd : Doc.firstDeep t.maxDepth (rest.length + 1) d (off + w1.length + (strText k).length + w2.length + 1 + w3.length) with
    | some o =>
      rw [hd] at hk
      cases hk
      obtain ⟨X, hX⟩ : ∃ X, intercalateB 44 (membersText ((w1, k, w2, w3, d, w4) :: r)) ++ rs =
          w1.text ++ (strText k ++ (w2.text ++ 58 :: (w3.text ++ (d.text ++ X)))) := by
        cases r with
        | nil => exact ⟨w4.text ++ rs, by simp [intercalateB, membersText]⟩
        | cons e2 r2 =>
          obtain ⟨a1, a2, a3, a4, a5, a6⟩ := e2
          exact ⟨w4.text ++ 44 :: (intercalateB 44 (membersText ((a1, a2, a3, a4, a5, a6) :: r2)) ++ rs),
            by simp [intercalateB, membersText]⟩
      obtain ⟨tc, hsc, fc, hwfc, hrc⟩ := upto (w3.text ++ (d.text ++ X))
      rw [hX, hrc]
      exact child_rej lc d (ih (w1, k, w2, w3, d, w4) (by simp)) w3 tc l hwfc (fc.noVal hv) fc.hs hl0 .objectValue .objectValueAdd
        (Or.inr (Or.inr ⟨rfl, rfl⟩)) (.obj kvs) (some (decodeItems k)) rest hsc hok.1.2
        (fun h => (hfit' (by rw [← fc.strict]; exact h)).1) hknf.1.2 _ kk (by rw [fc.md, ws_len, ws_len, ws_len]; exact hd) X 58
    | none =>
      rw [hd] at hk
      simp only at hk
      have hfits := fits_of_firstDeep_none t.maxDepth d (rest.length + 1) _ hd
      cases r with
      | nil => simp [membersFirstDeep] at hk
      | cons m2 r2 =>
        have e0 : intercalateB 44 (membersText ((w1, k, w2, w3, d, w4) :: m2 :: r2)) ++ rs =
            w1.text ++ (strText k ++ (w2.text ++ 58 :: (w3.text ++ (d.text ++ (w4.text ++ 44 ::
              (intercalateB 44 (membersText (m2 :: r2)) ++ rs)))))) := by
          obtain ⟨a1, a2, a3, a4, a5, a6⟩ := m2
          simp [intercalateB, membersText]
        obtain ⟨tc, hsc, fc, hwfc, hrc⟩ := upto (w3.text ++ (d.text ++ (w4.text ++ 44 :: (intercalateB 44 (membersText (m2 :: r2)) ++ rs))))
        obtain ⟨t2, l2, c2, hs2, f2, hl2, hrun⟩ := child_value lc d (doc_goal lc hl d) w3 w4 tc l hwfc (fc.noVal hv) fc.hs hl0 .objectValue
          .objectValueAdd (Or.inr (Or.inr ⟨rfl, rfl⟩)) (.obj kvs) (some (decodeItems k)) rest hsc hok.1.2
          (fun h => (hfit' (by rw [← fc.strict]; exact h)).1) hknf.1.2 (by rw [fc.md]; omega) 44 (by simp)
          (intercalateB 44 (membersText (m2 :: r2)) ++ rs) 58 (off + w1.text.length + (strText k).length + w2.text.length + 1)
        have f2' : Frm t t2 := fc.trans f2
        have h3 := after_member_comma lc t2 l2 (f2'.noVal hv) d.denote none .objectValue kvs (decodeItems k) rest hs2 c2
          (off + w1.text.length + (strText k).length + w2.text.length + 1 + w3.text.length + d.text.length + w4.text.length)
          (intercalateB 44 (membersText (m2 :: r2)) ++ rs)
        simp only [List.cons_append, List.nil_append, lastOr, List.getLast?_singleton, Option.getD_some, List.length_singleton] at h3
        let t3 : Tok := { t2 with stack := ⟨.eatws, .objectFieldStartAfterSep,
          .obj (Tokener.addOrReplace kvs (decodeItems k) d.denote), none⟩ :: rest }
        have f3 : Frm t t3 := ⟨f2'.md, f2'.fl, f2'.hs⟩
        have hwf3 : WF t3 := wf_restack hwf hs rfl f2'.md (topOk_container _ _ (Or.inr ⟨rfl, _, rfl⟩))
          (posOk_of_ne (by simp) (by simp) (by simp))
        rw [e0, hrc, hrun, h3]
        refine ihr (fun e he => ih e (by simp [he])) t3 l2 .objectFieldStartAfterSep (Or.inr rfl)
          (Tokener.addOrReplace kvs (decodeItems k) d.denote) none rest hwf3 rfl (f3.noVal hv) f3.hs hl2 hok.2
          (fun h => (hfit' (by rw [← f3.strict]; exact h)).2) hknf.2 _ kk ?_ 44 rs
        rw [f3.md, ws_len, ws_len, ws_len, ws_len]
        exact hk

end JsonC.Tokener
