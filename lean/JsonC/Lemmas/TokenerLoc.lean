/-
  How a dispatch treats the per-call locals (`Loc`): outside the number state they are passed
  through unchanged (or the dead number-scanner flags are dropped); inside it they are a function of
  the saved text.  Helper lemmas for C03 (split invariance).
-/
import JsonC.Model.Tokener
namespace JsonC.Tokener
open JsonC

/-- how one dispatch may change the per-call locals when the top level is not scanning a number -/
def LocStep (l : Loc) : Act → Prop
  | .consume _ l' => l' = l ∨ l' = { l with num := none }
  | .redo _ l' => l' = l ∨ l' = { l with num := none }
  | .err _ _ l' => l' = l ∨ l' = { l with num := none }
  | .done _ l' => l' = l ∨ l' = { l with num := none }
  | .fault _ => True

section
variable (t : Tok) (l : Loc) (top : Level) (rest : List Level) (c : UInt8)

theorem dEatws_loc : LocStep l (dEatws t l top rest c) := by
  unfold dEatws; repeat' split
  all_goals simp [LocStep]
theorem dStart_loc : LocStep l (dStart t l top rest c) := by
  unfold dStart; repeat' split
  all_goals simp [LocStep]
theorem dFinish_loc : LocStep l (dFinish t l top rest) := by
  unfold dFinish; repeat' split
  all_goals simp [LocStep]
theorem dInf_loc : LocStep l (dInf t l top rest c) := by
  unfold dInf; repeat' split
  all_goals simp [LocStep]
theorem dNull_loc : LocStep l (dNull t l top rest c) := by
  unfold dNull; simp only; repeat' split
  all_goals simp [LocStep]
theorem dBoolean_loc : LocStep l (dBoolean t l top rest c) := by
  unfold dBoolean; simp only; repeat' split
  all_goals simp [LocStep]
theorem dCommentStart_loc : LocStep l (dCommentStart t l top rest c) := by
  unfold dCommentStart; repeat' split
  all_goals simp [LocStep]
theorem dComment_loc : LocStep l (dComment t l top rest c) := by
  unfold dComment; repeat' split
  all_goals simp [LocStep]
theorem dCommentEol_loc : LocStep l (dCommentEol t l top rest c) := by
  unfold dCommentEol; repeat' split
  all_goals simp [LocStep]
theorem dCommentEnd_loc : LocStep l (dCommentEnd t l top rest c) := by
  unfold dCommentEnd; simp only; repeat' split
  all_goals simp [LocStep]
theorem dString_loc : LocStep l (dString t l top rest c) := by
  unfold dString; repeat' split
  all_goals simp [LocStep]
theorem dObjectField_loc : LocStep l (dObjectField t l top rest c) := by
  unfold dObjectField; repeat' split
  all_goals simp [LocStep]
theorem dStringEscape_loc : LocStep l (dStringEscape t l top rest c) := by
  unfold dStringEscape; simp only; repeat' split
  all_goals simp [LocStep]
theorem emitUnit_loc (u : Nat) (pb : Bytes) : LocStep l (emitUnit t l top rest u pb) := by
  unfold emitUnit; simp only; repeat' split
  all_goals simp [LocStep]
set_option maxRecDepth 4000 in
theorem unicodeUnit_loc (u : Nat) : LocStep l (unicodeUnit t l top rest u) := by
  unfold unicodeUnit
  split
  · split
    · exact emitUnit_loc t l top rest _ _
    · exact emitUnit_loc t l top rest _ _
  · exact emitUnit_loc t l top rest _ _
theorem dEscapeUnicode_loc : LocStep l (dEscapeUnicode t l top rest c) := by
  unfold dEscapeUnicode
  split
  · simp [LocStep]
  · split
    · simp [LocStep]
    · split
      · simp [LocStep]
      · exact unicodeUnit_loc _ l top rest _
theorem dNeedEscape_loc : LocStep l (dNeedEscape t l top rest c) := by
  unfold dNeedEscape; repeat' split
  all_goals simp [LocStep]
theorem dNeedU_loc : LocStep l (dNeedU t l top rest c) := by
  unfold dNeedU; repeat' split
  all_goals simp [LocStep]
theorem pushLevel_loc (st : St) : LocStep l (pushLevel t l top rest st) := by
  unfold pushLevel; repeat' split
  all_goals simp [LocStep]
theorem dArray_loc (b : Bool) : LocStep l (dArray t l top rest c b) := by
  unfold dArray
  split
  · split <;> simp [LocStep]
  · exact pushLevel_loc t l top rest _
theorem dArraySep_loc : LocStep l (dArraySep t l top rest c) := by
  unfold dArraySep; repeat' split
  all_goals simp [LocStep]
theorem dObjectFieldStart_loc (b : Bool) : LocStep l (dObjectFieldStart t l top rest c b) := by
  unfold dObjectFieldStart; repeat' split
  all_goals simp [LocStep]
theorem dObjectFieldEnd_loc : LocStep l (dObjectFieldEnd t l top rest c) := by
  unfold dObjectFieldEnd; repeat' split
  all_goals simp [LocStep]
theorem dObjectSep_loc : LocStep l (dObjectSep t l top rest c) := by
  unfold dObjectSep; repeat' split
  all_goals simp [LocStep]
end

/-- outside the number state a dispatch passes the locals through -/
theorem disp_loc (lc : Libc) (t : Tok) (l : Loc) (c : UInt8) (h : (topState t).1 ≠ .number) :
    LocStep l (disp lc t l c) := by
  unfold disp
  cases hs : t.stack with
  | nil => simp [LocStep]
  | cons top rest =>
    simp only
    have hn : top.state ≠ .number := by simpa [topState, hs] using h
    cases hst : top.state <;> simp only
    · exact dEatws_loc ..
    · exact dStart_loc ..
    · exact dFinish_loc ..
    · exact dNull_loc ..
    · exact dCommentStart_loc ..
    · exact dComment_loc ..
    · exact dCommentEol_loc ..
    · exact dCommentEnd_loc ..
    · exact dString_loc ..
    · exact dStringEscape_loc ..
    · exact dEscapeUnicode_loc ..
    · exact dNeedEscape_loc ..
    · exact dNeedU_loc ..
    · exact dBoolean_loc ..
    · exact absurd hst hn
    · exact dArray_loc ..
    · simp [LocStep]
    · exact dArraySep_loc ..
    · exact dObjectFieldStart_loc ..
    · exact dObjectField_loc ..
    · exact dObjectFieldEnd_loc ..
    · exact pushLevel_loc ..
    · simp [LocStep]
    · exact dObjectSep_loc ..
    · exact dArray_loc ..
    · exact dObjectFieldStart_loc ..
    · exact dInf_loc ..

/-! ### frame: a dispatch never touches `flags`, `max_depth` or the UTF-8 counter -/

def Frame (t : Tok) (l : Loc) : Act → Prop
  | .consume t' l' => t'.flags = t.flags ∧ t'.maxDepth = t.maxDepth ∧ l'.nBytes = l.nBytes
  | .redo t' l' => t'.flags = t.flags ∧ t'.maxDepth = t.maxDepth ∧ l'.nBytes = l.nBytes
  | .err _ t' l' => t'.flags = t.flags ∧ t'.maxDepth = t.maxDepth ∧ l'.nBytes = l.nBytes
  | .done t' l' => t'.flags = t.flags ∧ t'.maxDepth = t.maxDepth ∧ l'.nBytes = l.nBytes
  | .fault _ => True

section
variable (t : Tok) (l : Loc) (top : Level) (rest : List Level) (c : UInt8)
local macro "frame_tac" : tactic => `(tactic| (repeat' split) <;> simp [Frame, setTop, finishWith])

theorem dEatws_frame : Frame t l (dEatws t l top rest c) := by unfold dEatws; frame_tac
theorem dStart_frame : Frame t l (dStart t l top rest c) := by unfold dStart; frame_tac
theorem dFinish_frame : Frame t l (dFinish t l top rest) := by unfold dFinish; frame_tac
theorem dInf_frame : Frame t l (dInf t l top rest c) := by unfold dInf; frame_tac
theorem dNull_frame : Frame t l (dNull t l top rest c) := by unfold dNull; simp only; frame_tac
theorem dBoolean_frame : Frame t l (dBoolean t l top rest c) := by unfold dBoolean; simp only; frame_tac
theorem dCommentStart_frame : Frame t l (dCommentStart t l top rest c) := by unfold dCommentStart; frame_tac
theorem dComment_frame : Frame t l (dComment t l top rest c) := by unfold dComment; frame_tac
theorem dCommentEol_frame : Frame t l (dCommentEol t l top rest c) := by unfold dCommentEol; frame_tac
theorem dCommentEnd_frame : Frame t l (dCommentEnd t l top rest c) := by unfold dCommentEnd; simp only; frame_tac
theorem dString_frame : Frame t l (dString t l top rest c) := by unfold dString; frame_tac
theorem dObjectField_frame : Frame t l (dObjectField t l top rest c) := by unfold dObjectField; frame_tac
theorem dStringEscape_frame : Frame t l (dStringEscape t l top rest c) := by unfold dStringEscape; simp only; frame_tac
theorem emitUnit_frame (t0 : Tok) (h1 : t0.flags = t.flags) (h2 : t0.maxDepth = t.maxDepth) (u : Nat) (pb : Bytes) :
    Frame t l (emitUnit t0 l top rest u pb) := by
  unfold emitUnit; simp only; (repeat' split) <;> simp [Frame, setTop, h1, h2]
set_option maxRecDepth 4000 in
theorem unicodeUnit_frame (t0 : Tok) (h1 : t0.flags = t.flags) (h2 : t0.maxDepth = t.maxDepth) (u : Nat) :
    Frame t l (unicodeUnit t0 l top rest u) := by
  unfold unicodeUnit
  split
  · split
    · exact emitUnit_frame t l top rest t0 h1 h2 _ _
    · exact emitUnit_frame t l top rest t0 h1 h2 _ _
  · exact emitUnit_frame t l top rest t0 h1 h2 _ _
theorem dEscapeUnicode_frame : Frame t l (dEscapeUnicode t l top rest c) := by
  unfold dEscapeUnicode
  split
  · simp [Frame]
  · split
    · simp [Frame]
    · split
      · simp [Frame]
      · exact unicodeUnit_frame t l top rest _ rfl rfl _
theorem dNeedEscape_frame : Frame t l (dNeedEscape t l top rest c) := by unfold dNeedEscape; frame_tac
theorem dNeedU_frame : Frame t l (dNeedU t l top rest c) := by unfold dNeedU; frame_tac
theorem pushLevel_frame (st : St) : Frame t l (pushLevel t l top rest st) := by unfold pushLevel; frame_tac
theorem dArray_frame (b : Bool) : Frame t l (dArray t l top rest c b) := by
  unfold dArray
  split
  · split <;> simp [Frame, setTop]
  · exact pushLevel_frame t l top rest _
theorem dArraySep_frame : Frame t l (dArraySep t l top rest c) := by unfold dArraySep; frame_tac
theorem dObjectFieldStart_frame (b : Bool) : Frame t l (dObjectFieldStart t l top rest c b) := by
  unfold dObjectFieldStart; frame_tac
theorem dObjectFieldEnd_frame : Frame t l (dObjectFieldEnd t l top rest c) := by unfold dObjectFieldEnd; frame_tac
theorem dObjectSep_frame : Frame t l (dObjectSep t l top rest c) := by unfold dObjectSep; frame_tac
theorem dNumber_frame (lc : Libc) : Frame t l (dNumber lc t l top rest c) := by
  unfold dNumber dNumberCore
  split
  · simp [Frame]
  · split
    · simp [Frame]
    · split
      · simp [Frame, setTop]
      · simp only
        cases classifyNum lc _ _ <;> simp [Frame, finishWith, setTop]
end

theorem disp_frame (lc : Libc) (t : Tok) (l : Loc) (c : UInt8) : Frame t l (disp lc t l c) := by
  unfold disp
  cases hs : t.stack with
  | nil => simp [Frame]
  | cons top rest =>
    simp only
    cases hst : top.state <;> simp only
    · exact dEatws_frame ..
    · exact dStart_frame ..
    · exact dFinish_frame ..
    · exact dNull_frame ..
    · exact dCommentStart_frame ..
    · exact dComment_frame ..
    · exact dCommentEol_frame ..
    · exact dCommentEnd_frame ..
    · exact dString_frame ..
    · exact dStringEscape_frame ..
    · exact dEscapeUnicode_frame ..
    · exact dNeedEscape_frame ..
    · exact dNeedU_frame ..
    · exact dBoolean_frame ..
    · exact dNumber_frame ..
    · exact dArray_frame ..
    · simp [Frame]
    · exact dArraySep_frame ..
    · exact dObjectFieldStart_frame ..
    · exact dObjectField_frame ..
    · exact dObjectFieldEnd_frame ..
    · exact pushLevel_frame ..
    · simp [Frame]
    · exact dObjectSep_frame ..
    · exact dArray_frame ..
    · exact dObjectFieldStart_frame ..
    · exact dInf_frame ..

theorem Frame.trans {t t' : Tok} {l l' : Loc} {a : Act}
    (h : t'.flags = t.flags ∧ t'.maxDepth = t.maxDepth ∧ l'.nBytes = l.nBytes) (ha : Frame t' l' a) : Frame t l a := by
  cases a <;> simp only [Frame] at ha ⊢ <;>
    first | trivial | exact ⟨ha.1.trans h.1, ha.2.1.trans h.2.1, ha.2.2.trans h.2.2⟩

theorem feedN_frame (lc : Libc) : ∀ (n : Nat) (t : Tok) (l : Loc) (c : UInt8), Frame t l (feedN lc n t l c) := by
  intro n
  induction n with
  | zero => intro t l c; simp [feedN, Frame]
  | succ n ih =>
    intro t l c
    have hd := disp_frame lc t l c
    simp only [feedN]
    cases hdd : disp lc t l c with
    | redo t' l' => rw [hdd] at hd; exact Frame.trans hd (ih t' l' c)
    | consume t' l' => rw [hdd] at hd; exact hd
    | err e t' l' => rw [hdd] at hd; exact hd
    | done t' l' => rw [hdd] at hd; exact hd
    | fault w => trivial

theorem feed_frame (lc : Libc) (t : Tok) (l : Loc) (c : UInt8) : Frame t l (feed lc t l c) :=
  feedN_frame lc fuel t l c

end JsonC.Tokener
