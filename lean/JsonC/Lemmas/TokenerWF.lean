/-
  Well-formedness invariant of the tokener machine and what one dispatch guarantees (helper lemmas
  for C04 / C15 / C03; never property statements).

  The invariant of a level depends on finitely many things - (state, saved_state), whether `current`
  is an array / an object, whether a member name is pending - so every "this transition keeps the
  shape" fact is a statement over a finite table and is checked by exhaustive `cases … <;> decide`
  (the whole table, not a sample).
-/
import JsonC.Model.Tokener
namespace JsonC.Tokener
open JsonC

def St.isLayout : St → Bool
  | .eatws | .commentStart | .comment | .commentEol | .commentEnd => true
  | _ => false
def St.isEscape : St → Bool
  | .stringEscape | .escapeUnicode | .needEscape | .needU => true
  | _ => false
def St.isSavable : St → Bool
  | .start | .finish | .array | .arraySep | .arrayAfterSep | .objectFieldStart | .objectFieldStartAfterSep
  | .objectFieldEnd | .objectValue | .objectSep | .string | .objectField => true
  | _ => false
def St.isArr : St → Bool
  | .array | .arrayAfterSep | .arrayAdd | .arraySep => true
  | _ => false
def St.isObj : St → Bool
  | .objectFieldStart | .objectFieldStartAfterSep | .objectField | .objectFieldEnd | .objectValue
  | .objectValueAdd | .objectSep => true
  | _ => false
def St.needsName : St → Bool
  | .objectFieldEnd | .objectValue | .objectValueAdd => true
  | _ => false

def isArrV : JVal → Bool | .arr _ => true | _ => false
def isObjV : JVal → Bool | .obj _ => true | _ => false

/-- shape invariant of one level, as a function of the finitely many things it depends on -/
def okShape (st sv : St) (a o n : Bool) : Bool :=
  let ctx := if st.isLayout || st.isEscape then sv else st
  sv.isSavable &&
  (!st.isEscape || sv == .string || sv == .objectField) &&
  (!ctx.isArr || a) && (!ctx.isObj || o) && (!ctx.needsName || n)

def Level.ok (l : Level) : Bool := okShape l.state l.saved (isArrV l.current) (isObjV l.current) l.name.isSome


def topShape (st sv : St) (a o n : Bool) : Bool :=
  okShape st sv a o n && st != .arrayAdd && st != .objectValueAdd

def Level.topOk (l : Level) : Bool :=
  topShape l.state l.saved (isArrV l.current) (isObjV l.current) l.name.isSome

def Level.belowOk (l : Level) : Bool := (l.state == .arrayAdd || l.state == .objectValueAdd) && l.ok

/-- facts about `st_pos` the escape states rely on -/
def posOk (st : St) (stPos : Nat) : Prop :=
  (st = .escapeUnicode → stPos ≤ 3) ∧ ((st = .needEscape ∨ st = .needU) → stPos = 0)

structure WF (t : Tok) : Prop where
  ex : ∃ top rest, t.stack = top :: rest ∧ rest.length + 1 ≤ t.maxDepth ∧ top.topOk = true ∧
    posOk top.state t.stPos ∧ ∀ l ∈ rest, l.belowOk = true

def stRank : St → Nat
  | .finish => 2
  | .inf | .null | .boolean => 4
  | .number => 5
  | .start => 6
  | .array | .arrayAfterSep | .objectValue => 8
  | .needEscape | .needU => 1
  | _ => 0

def lvlRank (st sv : St) : Nat := if st == .eatws then stRank sv + 1 else stRank st

def rank (t : Tok) : Nat :=
  match t.stack with
  | [] => 0
  | top :: _ => lvlRank top.state top.saved

def ActOK (t : Tok) : Act → Prop
  | .consume t' _ => WF t'
  | .redo t' _ => WF t' ∧ rank t' < rank t
  | .err _ t' _ => WF t'
  | .done t' _ => WF t'
  | .fault _ => False

/-- leaf obligation: same `rest`, new top -/
theorem wf_top {t t' : Tok} {top' : Level} {rest : List Level}
    (hd : rest.length + 1 ≤ t.maxDepth) (hb : ∀ l ∈ rest, l.belowOk = true)
    (hs' : t'.stack = top' :: rest) (hm : t'.maxDepth = t.maxDepth)
    (hok : top'.topOk = true) (hp : posOk top'.state t'.stPos) : WF t' :=
  ⟨top', rest, hs', by rw [hm]; exact hd, hok, hp, hb⟩

/-! ### shape facts (finite tables) -/

theorem shape_eatws_redo (sv : St) (a o n : Bool) :
    topShape .eatws sv a o n = true →
    (topShape sv sv a o n = true ∧ lvlRank sv sv < lvlRank .eatws sv ∧ sv ≠ .escapeUnicode ∧ sv ≠ .needEscape ∧ sv ≠ .needU) := by
  cases sv <;> cases a <;> cases o <;> cases n <;> decide

theorem shape_eatws_comment (sv : St) (a o n : Bool) :
    topShape .eatws sv a o n = true → topShape .commentStart sv a o n = true := by
  cases sv <;> cases a <;> cases o <;> cases n <;> decide

/-- from a layout state to another layout state with the same saved state -/
theorem shape_layout (st st' sv : St) (a o n : Bool) (h1 : st.isLayout = true) (h2 : st'.isLayout = true) :
    topShape st sv a o n = true → topShape st' sv a o n = true := by
  cases st <;> simp [St.isLayout] at h1 <;> cases st' <;> simp [St.isLayout] at h2 <;>
    cases sv <;> cases a <;> cases o <;> cases n <;> decide

/-- value complete / container closed: (eatws, finish) is fine whatever `current` is -/
theorem shape_finish (a o n : Bool) : topShape .eatws .finish a o n = true := by
  cases a <;> cases o <;> cases n <;> decide

theorem shape_start_token (st' sv : St) (a o n : Bool)
    (h' : st' = .inf ∨ st' = .null ∨ st' = .boolean ∨ st' = .number ∨ st' = .string) :
    topShape .start sv a o n = true → (topShape st' sv a o n = true ∧ lvlRank st' sv < lvlRank .start sv) := by
  rcases h' with h | h | h | h | h <;> subst h <;> cases sv <;> cases a <;> cases o <;> cases n <;> decide

theorem shape_open_obj (n : Bool) : topShape .eatws .objectFieldStart false true n = true := by cases n <;> decide
theorem shape_open_arr (n : Bool) : topShape .eatws .array true false n = true := by cases n <;> decide

theorem shape_number_inf (sv : St) (a o n : Bool) :
    topShape .number sv a o n = true → (topShape .inf sv a o n = true ∧ lvlRank .inf sv < lvlRank .number sv) := by
  cases sv <;> cases a <;> cases o <;> cases n <;> decide

theorem shape_string_escape (sv : St) (a o n : Bool) :
    topShape .string sv a o n = true → topShape .stringEscape .string a o n = true := by
  cases sv <;> cases a <;> cases o <;> cases n <;> decide

theorem shape_field_escape (sv : St) (a o n : Bool) :
    topShape .objectField sv a o n = true → topShape .stringEscape .objectField a o n = true := by
  cases sv <;> cases a <;> cases o <;> cases n <;> decide

theorem shape_field_done (sv : St) (a o n : Bool) :
    topShape .objectField sv a o n = true → topShape .eatws .objectFieldEnd a o true = true := by
  cases sv <;> cases a <;> cases o <;> cases n <;> decide

/-- leaving an escape state for the saved string / member-name state -/
theorem shape_escape_back (st sv : St) (a o n : Bool) (h : st.isEscape = true) :
    topShape st sv a o n = true →
    (topShape sv sv a o n = true ∧ lvlRank sv sv = 0 ∧ sv ≠ .escapeUnicode ∧ sv ≠ .needEscape ∧ sv ≠ .needU) := by
  cases st <;> simp [St.isEscape] at h <;> cases sv <;> cases a <;> cases o <;> cases n <;> decide

/-- moving between escape states keeps the shape -/
theorem shape_escape_move (st st' sv : St) (a o n : Bool) (h : st.isEscape = true) (h' : st'.isEscape = true) :
    topShape st sv a o n = true → topShape st' sv a o n = true := by
  cases st <;> simp [St.isEscape] at h <;> cases st' <;> simp [St.isEscape] at h' <;>
    cases sv <;> cases a <;> cases o <;> cases n <;> decide

theorem shape_arr_state (st sv : St) (a o n : Bool) (h : st = .array ∨ st = .arrayAfterSep ∨ st = .arraySep) :
    topShape st sv a o n = true →
    (a = true ∧ topShape .eatws .arrayAfterSep a o n = true ∧ okShape .arrayAdd sv a o n = true) := by
  rcases h with h | h | h <;> subst h <;> cases sv <;> cases a <;> cases o <;> cases n <;> decide

theorem shape_obj_state (st sv : St) (a o n : Bool)
    (h : st = .objectFieldStart ∨ st = .objectFieldStartAfterSep ∨ st = .objectSep ∨ st = .objectFieldEnd ∨ st = .objectValue) :
    topShape st sv a o n = true →
    (o = true ∧ topShape .objectField sv a o n = true ∧ topShape .eatws .objectFieldStartAfterSep a o n = true) := by
  rcases h with h | h | h | h | h <;> subst h <;> cases sv <;> cases a <;> cases o <;> cases n <;> decide

theorem shape_named_state (st sv : St) (a o n : Bool) (h : st = .objectFieldEnd ∨ st = .objectValue) :
    topShape st sv a o n = true →
    (o = true ∧ n = true ∧ topShape .eatws .objectValue a o n = true ∧ okShape .objectValueAdd sv a o n = true) := by
  rcases h with h | h <;> subst h <;> cases sv <;> cases a <;> cases o <;> cases n <;> decide

theorem shape_fresh : topShape .eatws .start false false false = true := by decide

theorem shape_below_arr (sv : St) (a o n : Bool) : okShape .arrayAdd sv a o n = true → a = true := by
  cases sv <;> cases a <;> cases o <;> cases n <;> decide
theorem shape_below_obj (sv : St) (a o n : Bool) : okShape .objectValueAdd sv a o n = true → (o = true ∧ n = true) := by
  cases sv <;> cases a <;> cases o <;> cases n <;> decide
theorem shape_after_elem (n : Bool) : topShape .eatws .arraySep true false n = true := by cases n <;> decide
theorem shape_after_member : topShape .eatws .objectSep false true false = true := by decide

theorem shape_not_add (st sv : St) (a o n : Bool) : topShape st sv a o n = true → st ≠ .arrayAdd ∧ st ≠ .objectValueAdd := by
  cases st <;> cases sv <;> cases a <;> cases o <;> cases n <;> decide

theorem rank_le (st sv : St) (a o n : Bool) : topShape st sv a o n = true → lvlRank st sv ≤ 9 := by
  cases st <;> cases sv <;> cases a <;> cases o <;> cases n <;> decide

theorem isArrV_arr {v : JVal} (h : isArrV v = true) : ∃ xs, v = .arr xs := by
  cases v <;> simp [isArrV] at h; exact ⟨_, rfl⟩
theorem isObjV_obj {v : JVal} (h : isObjV v = true) : ∃ kvs, v = .obj kvs := by
  cases v <;> simp [isObjV] at h; exact ⟨_, rfl⟩

end JsonC.Tokener
