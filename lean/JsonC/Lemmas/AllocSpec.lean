/-
  Proofs for C08 (the statements are repeated, and explained, in Props/C08.lean): each allocation-aware
  function of Model/Alloc.lean, from every well-formed heap and for every oracle, does not fault and
  ends in the normal result or in a clean failure.
-/
import JsonC.Lemmas.AllocTree

namespace JsonC.Alloc
open JsonC Generated



/-! ## printbuf.c -/

/-- printbuf_new: both blocks or none -/
theorem pbNew_spec (g : Oracle) (h : Heap) (hwf : WF h) :
    Post pbNew g h (fun r h' => WF h' ∧ h.next ≤ h'.next ∧
      ((∃ p, r = some p ∧ h'.live = h.live ++ [p.self, p.buf] ∧ p.size = pbInitSize ∧ p.bpos = 0 ∧ h'.errno = h.errno) ∨
       (r = none ∧ h'.live = h.live ∧ Failed g h h'))) := by
  unfold pbNew calloc malloc
  apply Post.bind
  apply Post.alloc hwf
  · intro hg h1 hn hl he hwf1
    dsimp only
    apply Post.bind
    apply Post.alloc hwf1
    · intro hg2 h2 hn2 hl2 he2 hwf2
      dsimp only
      apply Post.pure
      refine ⟨hwf2, by omega, Or.inl ⟨_, rfl, ?_, rfl, rfl, by rw [he2, he]⟩⟩
      simp [hl2, hl, hn]
    · intro hg2 h2 hn2 hl2 he2 hwf2
      dsimp only
      apply Post.bind
      apply Post.free hwf2 (by simp [hl2, hl])
      intro h3 hn3 hl3 he3 hwf3
      apply Post.pure
      refine ⟨hwf3, by omega, Or.inr ⟨rfl, ?_, ?_⟩⟩
      · rw [hl3, hl2, hl, filter_append_self (fresh_not_mem hwf _)]
      · exact ⟨h1.next + 1, by omega, by omega, hg2⟩
  · intro hg h1 hn hl he hwf1
    dsimp only
    apply Post.pure
    exact ⟨hwf1, by omega, Or.inr ⟨rfl, hl, ⟨h.next + 1, by omega, by omega, hg⟩⟩⟩

/-- printbuf_extend: nothing to do, or the buffer block replaced by a larger one, or -1 with the
printbuf and the heap unchanged (EFBIG without any allocation, or the realloc was refused) -/
theorem pbExtend_spec (g : Oracle) (h : Heap) (hwf : WF h) (p : PbA) (m : Int) (hb : p.buf ∈ h.live) (hm : 0 ≤ m) :
    Post (pbExtend p m) g h (fun r h' => WF h' ∧ h.next ≤ h'.next ∧
      ((r.2 = 0 ∧ r.1 = p ∧ (p.size : Int) ≥ m ∧ h'.live = h.live ∧ h'.next = h.next) ∨
       (r.2 = 0 ∧ r.1.self = p.self ∧ r.1.bpos = p.bpos ∧ m ≤ r.1.size ∧ p.size ≤ r.1.size ∧
          h'.live = h.live.filter (· != p.buf) ++ [r.1.buf] ∧ h'.next = h.next + 1 ∧ r.1.buf.id = h.next + 1) ∨
       (r.2 = -1 ∧ r.1 = p ∧ h'.live = h.live ∧
          ((h'.errno = .EFBIG ∧ m > INT_MAX - pbExtendGuard ∧ h'.next = h.next) ∨ Failed g h h')))) := by
  obtain ⟨_, _, _, ht, _⟩ := shape_facts
  unfold pbExtend
  by_cases h1 : (p.size : Int) ≥ m
  · rw [if_pos h1]
    apply Post.pure
    exact ⟨hwf, Nat.le_refl _, Or.inl ⟨rfl, rfl, h1, rfl, rfl⟩⟩
  · rw [if_neg h1]
    by_cases h2 : m > INT_MAX - pbExtendGuard
    · rw [if_pos h2]
      apply Post.bind
      apply Post.setErrno
      intro h1' hn hl he
      apply Post.pure
      exact ⟨hwf.step (by omega) hl, by omega, Or.inr (Or.inr ⟨rfl, rfl, hl, Or.inl ⟨he, h2, hn⟩⟩)⟩
    · rw [if_neg h2, if_neg (by rw [ht]; decide)]
      obtain ⟨n, hn, hpos, hmn, hsn⟩ := pbNewSize_ok p.size m hm h2 (by omega)
      apply Post.bind
      apply Post.liftO hn
      rw [if_neg (by omega)]
      apply Post.bind
      apply Post.realloc hwf hb
      · intro hg h1' hn1 hl1 he1 hwf1
        dsimp only
        apply Post.pure
        refine ⟨hwf1, by omega, Or.inr (Or.inl ⟨rfl, rfl, rfl, ?_, ?_, hl1, hn1, rfl⟩)⟩
        · dsimp only; omega
        · dsimp only; omega
      · intro hg h1' hn1 hl1 he1 hwf1
        dsimp only
        apply Post.pure
        exact ⟨hwf1, by omega, Or.inr (Or.inr ⟨rfl, rfl, hl1, Or.inr ⟨h.next + 1, by omega, by omega, hg⟩⟩)⟩

/-- printbuf_memappend (contents abstracted): served with the buffer kept or replaced, or refused with
the printbuf and the heap unchanged -/
theorem pbMemappend_spec (g : Oracle) (h : Heap) (hwf : WF h) (p : PbA) (size : Int) (hb : p.buf ∈ h.live) :
    Post (pbMemappend p size) g h (fun r h' => WF h' ∧ h.next ≤ h'.next ∧
      ((r.2 = size ∧ 0 ≤ size ∧ r.1.self = p.self ∧ r.1.bpos = p.bpos + size.toNat ∧ r.1.bpos < r.1.size ∧
          ((r.1.buf = p.buf ∧ r.1.size = p.size ∧ h'.live = h.live ∧ h'.next = h.next) ∨
           (h'.live = h.live.filter (· != p.buf) ++ [r.1.buf] ∧ h'.next = h.next + 1 ∧ r.1.buf.id = h.next + 1))) ∨
       (r.2 = -1 ∧ r.1 = p ∧ h'.live = h.live ∧ (h'.errno = .EFBIG ∨ Failed g h h')))) := by
  unfold pbMemappend
  by_cases h0 : size < 0 ∨ size > INT_MAX - p.bpos - 1
  · rw [if_pos h0]
    apply Post.bind
    apply Post.setErrno
    intro h1 hn hl he
    apply Post.pure
    exact ⟨hwf.step (by omega) hl, by omega, Or.inr ⟨rfl, rfl, hl, Or.inl he⟩⟩
  · rw [if_neg h0]
    by_cases h1 : (p.size : Int) ≤ p.bpos + size + 1
    · rw [if_pos h1]
      apply Post.seq (pbExtend_spec g h hwf p _ hb (by omega))
      rintro ⟨q, rc⟩ h' ⟨hwf', hn', hcase⟩
      rcases hcase with ⟨hrc, hq, hge, hl, hnx⟩ | ⟨hrc, hs, hbp, hmq, hpq, hl, hnx, hid⟩ | ⟨hrc, hq, hl, herr⟩
      · simp only at hrc hq hge hl hnx
        subst hrc; subst hq
        dsimp only
        rw [if_neg (by decide)]
        apply Post.pure
        refine ⟨hwf', hn', Or.inl ⟨rfl, by omega, rfl, rfl, ?_, Or.inl ⟨rfl, rfl, hl, hnx⟩⟩⟩
        dsimp only; omega
      · simp only at hrc hs hbp hmq hpq hl hnx hid
        subst hrc
        dsimp only
        rw [if_neg (by decide)]
        apply Post.pure
        refine ⟨hwf', hn', Or.inl ⟨rfl, by omega, hs, ?_, ?_, Or.inr ⟨hl, hnx, hid⟩⟩⟩
        · dsimp only; rw [hbp]
        · dsimp only; omega
      · simp only at hrc hq hl
        subst hrc; subst hq
        dsimp only
        rw [if_pos (by decide)]
        apply Post.pure
        refine ⟨hwf', hn', Or.inr ⟨rfl, rfl, hl, ?_⟩⟩
        rcases herr with ⟨he, _, _⟩ | hf
        · exact Or.inl he
        · exact Or.inr hf
    · rw [if_neg h1]
      apply Post.bind
      apply Post.pure
      dsimp only
      rw [if_neg (by decide)]
      apply Post.pure
      refine ⟨hwf, Nat.le_refl _, Or.inl ⟨rfl, by omega, rfl, rfl, ?_, Or.inl ⟨rfl, rfl, rfl, rfl⟩⟩⟩
      dsimp only; omega


/-! ## arraylist.c -/

/-- array_list_new2: both blocks or none -/
theorem alNew2_spec (g : Oracle) (h : Heap) (hwf : WF h) (n : Int) :
    Post (alNew2 n) g h (fun r h' => WF h' ∧ h.next ≤ h'.next ∧
      ((∃ a, r = some a ∧ h'.live = h.live ++ [a.self, a.array] ∧ a.size = n.toNat ∧ a.length = 0 ∧ 0 ≤ n) ∨
       (r = none ∧ h'.live = h.live ∧
          (Failed g h h' ∨ ((n < 0 ∨ n.toNat ≥ SIZE_T_MAX / PTR) ∧ h'.next = h.next))))) := by
  unfold alNew2
  by_cases h0 : n < 0 ∨ n.toNat ≥ SIZE_T_MAX / PTR
  · rw [if_pos h0]
    apply Post.pure
    exact ⟨hwf, Nat.le_refl _, Or.inr ⟨rfl, rfl, Or.inr ⟨h0, rfl⟩⟩⟩
  · rw [if_neg h0]
    unfold malloc
    apply Post.bind
    apply Post.alloc hwf
    · intro hg h1 hn hl he hwf1
      dsimp only
      apply Post.bind
      apply Post.alloc hwf1
      · intro hg2 h2 hn2 hl2 he2 hwf2
        dsimp only
        apply Post.pure
        refine ⟨hwf2, by omega, Or.inl ⟨_, rfl, ?_, rfl, rfl, by omega⟩⟩
        simp [hl2, hl, hn]
      · intro hg2 h2 hn2 hl2 he2 hwf2
        dsimp only
        apply Post.bind
        apply Post.free hwf2 (by simp [hl2, hl])
        intro h3 hn3 hl3 he3 hwf3
        apply Post.pure
        refine ⟨hwf3, by omega, Or.inr ⟨rfl, ?_, Or.inl ⟨h1.next + 1, by omega, by omega, hg2⟩⟩⟩
        rw [hl3, hl2, hl, filter_append_self (fresh_not_mem hwf _)]
    · intro hg h1 hn hl he hwf1
      dsimp only
      apply Post.pure
      exact ⟨hwf1, by omega, Or.inr ⟨rfl, hl, Or.inl ⟨h.next + 1, by omega, by omega, hg⟩⟩⟩

/-- array_list_expand_internal: capacity reached (array kept or replaced), or -1 with the list and the
heap unchanged.  (The realloc result goes through a temporary: `allocAlExpandChecksTemp`.) -/
theorem alExpand_spec (g : Oracle) (h : Heap) (hwf : WF h) (a : AlA) (max : Nat) (hb : a.array ∈ h.live) :
    Post (alExpand a max) g h (fun r h' => WF h' ∧ h.next ≤ h'.next ∧
      ((r.2 = 0 ∧ AlKeptOrMoved h a r.1 h' ∧ r.1.length = a.length ∧ max ≤ r.1.size ∧
          (r.1.size = a.size ∨ (a.size ≤ max ∧ (r.1.size = max ∨ r.1.size = a.size * 2)))) ∨
       (r.2 = -1 ∧ r.1 = a ∧ h'.live = h.live ∧
          (Failed g h h' ∨ (h'.next = h.next ∧ (max > SIZE_T_MAX / PTR ∨ a.size * 2 > SIZE_T_MAX / PTR)))))) := by
  obtain ⟨_, hexp, _⟩ := shape_facts
  unfold alExpand
  by_cases h0 : max < a.size
  · rw [if_pos h0]
    apply Post.pure
    exact ⟨hwf, Nat.le_refl _, Or.inl ⟨rfl, ⟨rfl, Or.inl ⟨rfl, rfl, rfl, rfl⟩⟩, rfl, Nat.le_of_lt h0, Or.inl rfl⟩⟩
  · rw [if_neg h0]
    obtain ⟨n, hn, hmax, hnc⟩ := alNewSize_ok a.size max
    apply Post.bind
    apply Post.liftO hn
    by_cases h1 : n > SIZE_T_MAX / PTR
    · rw [if_pos h1]
      apply Post.pure
      refine ⟨hwf, Nat.le_refl _, Or.inr ⟨rfl, rfl, rfl, Or.inr ⟨rfl, ?_⟩⟩⟩
      rcases hnc with hnc | hnc
      · exact Or.inl (hnc ▸ h1)
      · exact Or.inr (hnc ▸ h1)
    · rw [if_neg h1, if_neg (by rw [hexp]; decide)]
      apply Post.bind
      apply Post.liftO (bytes_ok n _ h1)
      apply Post.bind
      apply Post.realloc hwf hb
      · intro hg h1' hn1 hl1 he1 hwf1
        dsimp only
        apply Post.pure
        exact ⟨hwf1, by omega, Or.inl ⟨rfl, ⟨rfl, Or.inr ⟨hl1, hn1, rfl⟩⟩, rfl, hmax, Or.inr ⟨by omega, hnc⟩⟩⟩
      · intro hg h1' hn1 hl1 he1 hwf1
        dsimp only
        apply Post.pure
        exact ⟨hwf1, by omega, Or.inr ⟨rfl, rfl, hl1, Or.inl ⟨h.next + 1, by omega, by omega, hg⟩⟩⟩

/-- array_list_shrink: same shape (a failed realloc leaves the larger array in place) -/
theorem alShrink_spec (g : Oracle) (h : Heap) (hwf : WF h) (a : AlA) (e : Nat) (hb : a.array ∈ h.live)
    (hlen : a.length ≤ SIZE_T_MAX / PTR) :
    Post (alShrink a e) g h (fun r h' => WF h' ∧ h.next ≤ h'.next ∧
      ((r.2 = 0 ∧ AlKeptOrMoved h a r.1 h' ∧ r.1.length = a.length) ∨
       (r.2 = -1 ∧ r.1 = a ∧ h'.live = h.live ∧ (Failed g h h' ∨ h'.next = h.next)))) := by
  obtain ⟨_, _, hshr, _⟩ := shape_facts
  obtain ⟨_, _, _, _, _, _, _, hmin⟩ := al_consts
  have hS := sizeMax_val
  have hP := ptr_val
  unfold alShrink
  apply Post.bind
  apply Post.liftO (Arraylist.ckSub_ok _ _ _ hlen)
  by_cases h0 : e ≥ SIZE_T_MAX / PTR - a.length
  · rw [if_pos h0]
    apply Post.pure
    exact ⟨hwf, Nat.le_refl _, Or.inr ⟨rfl, rfl, rfl, Or.inr rfl⟩⟩
  · rw [if_neg h0]
    apply Post.bind
    apply Post.liftO (ckSize_ok _ _ (by rw [hS, hP] at *; omega))
    by_cases h1 : a.length + e = a.size
    · rw [if_pos h1]
      apply Post.pure
      exact ⟨hwf, Nat.le_refl _, Or.inl ⟨rfl, ⟨rfl, Or.inl ⟨rfl, rfl, rfl, rfl⟩⟩, rfl⟩⟩
    · rw [if_neg h1]
      by_cases h2 : a.length + e > a.size
      · rw [if_pos h2]
        apply Post.mono (alExpand_spec g h hwf a _ hb)
        rintro r h' ⟨hwf', hn', hcase⟩
        refine ⟨hwf', hn', ?_⟩
        rcases hcase with ⟨h1', h2', h3', _⟩ | ⟨h1', h2', h3', hf⟩
        · exact Or.inl ⟨h1', h2', h3'⟩
        · refine Or.inr ⟨h1', h2', h3', ?_⟩
          rcases hf with hf | ⟨hf, _⟩
          · exact Or.inl hf
          · exact Or.inr hf
      · rw [if_neg h2, if_neg (by rw [hshr]; decide)]
        apply Post.bind
        apply Post.liftO (bytes_ok _ _ (by rw [hmin, hS, hP] at *; split <;> omega))
        apply Post.bind
        apply Post.realloc hwf hb
        · intro hg h1' hn1 hl1 he1 hwf1
          dsimp only
          apply Post.pure
          exact ⟨hwf1, by omega, Or.inl ⟨rfl, ⟨rfl, Or.inr ⟨hl1, hn1, rfl⟩⟩, rfl⟩⟩
        · intro hg h1' hn1 hl1 he1 hwf1
          dsimp only
          apply Post.pure
          exact ⟨hwf1, by omega, Or.inr ⟨rfl, rfl, hl1, Or.inl ⟨h.next + 1, by omega, by omega, hg⟩⟩⟩

/-- array_list_add: length + 1 inside the capacity, or -1 with the list and the heap unchanged -/
theorem alAdd_spec (g : Oracle) (h : Heap) (hwf : WF h) (a : AlA) (hb : a.array ∈ h.live) :
    Post (alAdd a) g h (fun r h' => WF h' ∧ h.next ≤ h'.next ∧
      ((r.2 = 0 ∧ AlKeptOrMoved h a r.1 h' ∧ r.1.length = a.length + 1 ∧ r.1.length ≤ r.1.size ∧
          (r.1.size = a.size ∨ (a.size ≤ a.length + 1 ∧ (r.1.size = a.length + 1 ∨ r.1.size = a.size * 2)))) ∨
       (r.2 = -1 ∧ r.1 = a ∧ h'.live = h.live ∧
          (Failed g h h' ∨ (h'.next = h.next ∧ (a.length + 1 > SIZE_T_MAX / PTR ∨ a.size * 2 > SIZE_T_MAX / PTR)))))) := by
  obtain ⟨_, _, hg1, hn1, _⟩ := al_consts
  have hS := sizeMax_val
  have hP := ptr_val
  unfold alAdd
  by_cases h0 : a.length > SIZE_T_MAX - alAddGuard
  · rw [if_pos h0]
    apply Post.pure
    refine ⟨hwf, Nat.le_refl _, Or.inr ⟨rfl, rfl, rfl, Or.inr ⟨rfl, Or.inl ?_⟩⟩⟩
    rw [hg1, hS] at h0; rw [hS, hP]; omega
  · rw [if_neg h0]
    apply Post.seq (alExpand_spec g h hwf a _ hb)
    rintro ⟨a1, rc⟩ h' ⟨hwf', hn', hcase⟩
    rcases hcase with ⟨hrc, hk, hlen, hcap, hsz⟩ | ⟨hrc, ha, hl, hf⟩
    · simp only at hrc hk hlen hcap hsz
      subst hrc
      dsimp only
      rw [if_neg (by decide)]
      apply Post.pure
      refine ⟨hwf', hn', Or.inl ⟨rfl, ⟨hk.1, ?_⟩, ?_, ?_, ?_⟩⟩
      · exact hk.2
      · dsimp only; rw [hlen]
      · dsimp only; rw [hlen]; rw [hn1] at hcap; exact hcap
      · dsimp only; rw [hn1] at hsz; exact hsz
    · simp only at hrc ha hl
      subst hrc; subst ha
      dsimp only
      rw [if_pos (by decide)]
      apply Post.pure
      refine ⟨hwf', hn', Or.inr ⟨rfl, rfl, hl, ?_⟩⟩
      rw [hn1] at hf; exact hf

/-! ## linkhash.c -/

/-- lh_table_new: both blocks or none -/
theorem lhNew_spec (g : Oracle) (h : Heap) (hwf : WF h) (size : Nat) (hs : 0 < size) :
    Post (lhNew size) g h (fun r h' => WF h' ∧ h.next ≤ h'.next ∧
      ((∃ t, r = some t ∧ h'.live = h.live ++ [t.self, t.table] ∧ t.size = size ∧ t.count = 0 ∧
          h'.next = h.next + 2 ∧ t.self.id = h.next + 1 ∧ t.table.id = h.next + 2) ∨
       (r = none ∧ h'.live = h.live ∧ Failed g h h'))) := by
  unfold lhNew
  rw [if_neg (by omega)]
  unfold calloc
  apply Post.bind
  apply Post.alloc hwf
  · intro hg h1 hn hl he hwf1
    dsimp only
    apply Post.bind
    apply Post.alloc hwf1
    · intro hg2 h2 hn2 hl2 he2 hwf2
      dsimp only
      apply Post.pure
      refine ⟨hwf2, by omega, Or.inl ⟨_, rfl, ?_, rfl, rfl, by omega, rfl, by dsimp only; omega⟩⟩
      simp [hl2, hl, hn]
    · intro hg2 h2 hn2 hl2 he2 hwf2
      dsimp only
      apply Post.bind
      apply Post.free hwf2 (by simp [hl2, hl])
      intro h3 hn3 hl3 he3 hwf3
      apply Post.pure
      refine ⟨hwf3, by omega, Or.inr ⟨rfl, ?_, ⟨h1.next + 1, by omega, by omega, hg2⟩⟩⟩
      rw [hl3, hl2, hl, filter_append_self (fresh_not_mem hwf _)]
  · intro hg h1 hn hl he hwf1
    dsimp only
    apply Post.pure
    exact ⟨hwf1, by omega, Or.inr ⟨rfl, hl, ⟨h.next + 1, by omega, by omega, hg⟩⟩⟩

/-- lh_table_resize when re-filling the new table cannot itself trigger a resize (`new_size = 2 S`
with at most `S` entries; this is how lh_table_insert_w_hash calls it): the entry array is replaced,
or -1 with the table and the heap unchanged — the half-built new table is released. -/
theorem lhResizeWith_spec (g : Oracle) (h : Heap) (hwf : WF h) (f : Nat) (t : LhA) (S : Nat)
    (htab : t.table ∈ h.live) (hS : 0 < S) (hSm : S ≤ intMax) (hc : t.count ≤ S) :
    Post (lhResizeWith (lhInsertN f) t (S * 2)) g h (fun r h' => WF h' ∧ h.next ≤ h'.next ∧
      ((r.2 = 0 ∧ r.1.self = t.self ∧ r.1.count = t.count ∧ r.1.size = S * 2 ∧
          h'.live = h.live.filter (· != t.table) ++ [r.1.table] ∧ h'.next = h.next + 2 ∧ r.1.table.id = h.next + 2) ∨
       (r.2 = -1 ∧ r.1 = t ∧ h'.live = h.live ∧ Failed g h h'))) := by
  unfold lhResizeWith
  apply Post.seq (lhNew_spec g h hwf (S * 2) (by omega))
  rintro r h1 ⟨hwf1, hn1, hcase⟩
  rcases hcase with ⟨nt, rfl, hl1, hsz, hcnt, hnx, hid1, hid2⟩ | ⟨rfl, hl1, hf⟩
  · dsimp only
    apply Post.bind
    apply Post.of_eq (lhRebuild_noalloc f S hSm t.count nt hsz (by omega) g h1)
    dsimp only
    have htab1 : t.table ∈ h1.live := by rw [hl1]; simp [htab]
    apply Post.bind
    apply Post.free hwf1 htab1
    intro h2 hn2 hl2 he2 hwf2
    apply Post.bind
    apply Post.free hwf2
    · rw [hl2, hl1]
      rw [mem_filter_ne]
      refine ⟨by simp, ?_⟩
      show nt.self ≠ t.table
      have : nt.self ≠ t.table := by
        intro e
        have := hwf.2 _ htab
        rw [← e, hid1] at this
        omega
      exact this
    · intro h3 hn3 hl3 he3 hwf3
      apply Post.pure
      refine ⟨hwf3, by omega, Or.inl ⟨rfl, rfl, rfl, ?_, ?_, by omega, hid2⟩⟩
      · dsimp only; split
        · rfl
        · exact hsz
      · rw [hl3, hl2, hl1]
        dsimp only
        apply resize_live
        · intro hm; have := hwf.2 _ hm; omega
        · intro e; have := hwf.2 _ htab; rw [← e, hid1] at this; omega
        · intro e; have := hwf.2 _ htab; rw [← e, hid2] at this; omega
        · intro e; rw [e] at hid2; omega
  · dsimp only
    apply Post.pure
    exact ⟨hwf1, hn1, Or.inr ⟨rfl, rfl, hl1, hf⟩⟩

/-- lh_table_insert_w_hash (allocation behaviour): count + 1 with the entry array kept or doubled, or
-1 (the resize could not allocate) with the table and the heap unchanged -/
theorem lhInsert_spec (g : Oracle) (h : Heap) (hwf : WF h) (t : LhA) (htab : t.table ∈ h.live) (hok : LhOK t) :
    Post (lhInsert t) g h (fun r h' => WF h' ∧ h.next ≤ h'.next ∧
      ((r.2 = 0 ∧ r.1.self = t.self ∧ r.1.count = t.count + 1 ∧ r.1.count ≤ r.1.size ∧
          ((r.1.table = t.table ∧ r.1.size = t.size ∧ h'.live = h.live ∧ h'.next = h.next) ∨
           (r.1.size = t.size * 2 ∧ h'.live = h.live.filter (· != t.table) ++ [r.1.table] ∧
              h'.next = h.next + 2 ∧ r.1.table.id = h.next + 2 ∧ t.size ≤ 2 * t.count + 1))) ∨
       (r.2 = -1 ∧ r.1 = t ∧ h'.live = h.live ∧ Failed g h h'))) := by
  obtain ⟨hpos, hcs, hsm⟩ := hok
  have hI := intMax_nat
  unfold lhInsert lhFuel
  show Post (lhInsertN (63 + 1) t) g h _
  unfold lhInsertN
  cases hlt : Linkhash.loadTest t.count t.size
  · simp only [Bool.false_eq_true, ↓reduceIte]
    apply Post.pure
    have := Linkhash.lt_size_of_loadTest_false t.count t.size (by omega) hlt
    exact ⟨hwf, Nat.le_refl _, Or.inl ⟨rfl, rfl, rfl, by dsimp only; omega, Or.inl ⟨rfl, rfl, rfl, rfl⟩⟩⟩
  · simp only [↓reduceIte]
    rw [if_neg (by omega)]
    rw [if_neg (by omega)]
    apply Post.seq (lhResizeWith_spec g h hwf 63 t t.size htab hpos (by omega) hcs)
    rintro ⟨t1, rc⟩ h' ⟨hwf', hn', hcase⟩
    rcases hcase with ⟨hrc, hs, hc, hsz, hl, hnx, hid⟩ | ⟨hrc, ht, hl, hf⟩
    · simp only at hrc hs hc hsz hl hnx hid
      subst hrc
      dsimp only
      rw [if_neg (by decide)]
      apply Post.pure
      refine ⟨hwf', hn', Or.inl ⟨rfl, hs, by dsimp only; rw [hc], by dsimp only; omega,
        Or.inr ⟨hsz, hl, hnx, hid, size_le_of_loadTest t.count t.size (by omega) hlt⟩⟩⟩
    · simp only at hrc ht hl
      subst hrc; subst ht
      dsimp only
      rw [if_pos (by decide)]
      apply Post.pure
      exact ⟨hwf', hn', Or.inr ⟨rfl, rfl, hl, hf⟩⟩

/-! ## json_object.c: constructors -/

/-- json_object_new_boolean / _double / _int64 / _uint64: one block or NULL -/
theorem newPrim_spec (g : Oracle) (h : Heap) (hwf : WF h) (k : PrimKind) :
    Post (newPrim k) g h (fun r h' => WF h' ∧ h.next ≤ h'.next ∧ h'.live = h.live ++ owned r ∧
      ((∃ b, r = .prim k b ∧ b.id = h.next + 1 ∧ h'.errno = h.errno) ∨ (r = .null ∧ Failed g h h'))) := by
  unfold newPrim malloc
  apply Post.bind
  apply Post.alloc hwf
  · intro hg h1 hn hl he hwf1
    dsimp only
    apply Post.pure
    exact ⟨hwf1, by omega, by simp [owned, hl], Or.inl ⟨_, rfl, rfl, he⟩⟩
  · intro hg h1 hn hl he hwf1
    dsimp only
    apply Post.pure
    exact ⟨hwf1, by omega, by simp [owned, hl], Or.inr ⟨rfl, ⟨h.next + 1, by omega, by omega, hg⟩⟩⟩

/-- json_object_new_string_len: one block holding header and bytes, or NULL (refused length: no call) -/
theorem newStringLen_spec (g : Oracle) (h : Heap) (hwf : WF h) (s : Bytes) :
    Post (newStringLen s) g h (fun r h' => WF h' ∧ h.next ≤ h'.next ∧ h'.live = h.live ++ owned r ∧
      ((∃ b, r = .str b s none ∧ b.size = strObjSize s.length ∧ b.id = h.next + 1) ∨
       (r = .null ∧ (Failed g h h' ∨ (s.length ≥ intMax - strNewIntGuardSlack ∧ h'.next = h.next))))) := by
  have hI := intMax_nat
  have hc : strNewIntGuardSlack = 1 ∧ strNewGuardSlack = 1 ∧ ssizeMax = 9223372036854775807 ∧
      sizeofJsonObjectString - sizeofStringUnion ≤ 1000 := by decide
  unfold newStringLen
  by_cases h0 : s.length > ssizeMax - (sizeofJsonObjectString - sizeofStringUnion) - strNewGuardSlack
  · rw [if_pos h0]
    apply Post.pure
    refine ⟨hwf, Nat.le_refl _, by simp [owned], Or.inr ⟨rfl, Or.inr ⟨?_, rfl⟩⟩⟩
    obtain ⟨c1, c2, c3, c4⟩ := hc
    rw [c2, c3] at h0; rw [c1, hI]; omega
  · rw [if_neg h0]
    by_cases h1 : s.length ≥ intMax - strNewIntGuardSlack
    · rw [if_pos h1]
      apply Post.pure
      exact ⟨hwf, Nat.le_refl _, by simp [owned], Or.inr ⟨rfl, Or.inr ⟨h1, rfl⟩⟩⟩
    · rw [if_neg h1]
      unfold malloc
      apply Post.bind
      apply Post.alloc hwf
      · intro hg h1' hn hl he hwf1
        dsimp only
        apply Post.pure
        exact ⟨hwf1, by omega, by simp [owned, hl], Or.inl ⟨_, rfl, rfl, rfl⟩⟩
      · intro hg h1' hn hl he hwf1
        dsimp only
        apply Post.pure
        exact ⟨hwf1, by omega, by simp [owned, hl], Or.inr ⟨rfl, Or.inl ⟨h.next + 1, by omega, by omega, hg⟩⟩⟩

/-- json_object_new_double_s: node + copy of the text, or NULL with errno ENOMEM and nothing kept -/
theorem newDoubleS_spec (g : Oracle) (h : Heap) (hwf : WF h) (n : Nat) :
    Post (newDoubleS n) g h (fun r h' => WF h' ∧ h.next ≤ h'.next ∧ h'.live = h.live ++ owned r ∧
      ((∃ b ud, r = .dbls b ud ∧ ud.size = n + 1 ∧ b.id = h.next + 1 ∧ ud.id = h.next + 2) ∨
       (r = .null ∧ Failed g h h' ∧ h'.errno = .ENOMEM))) := by
  unfold newDoubleS malloc strdup
  apply Post.bind
  apply Post.alloc hwf
  · intro hg h1 hn hl he hwf1
    dsimp only
    apply Post.bind
    apply Post.alloc hwf1
    · intro hg2 h2 hn2 hl2 he2 hwf2
      dsimp only
      apply Post.pure
      exact ⟨hwf2, by omega, by simp [owned, hl2, hl, hn], Or.inl ⟨_, _, rfl, rfl, rfl, by dsimp only; omega⟩⟩
    · intro hg2 h2 hn2 hl2 he2 hwf2
      dsimp only
      apply Post.bind
      apply Post.free hwf2 (by simp [hl2, hl])
      intro h3 hn3 hl3 he3 hwf3
      apply Post.bind
      apply Post.setErrno
      intro h4 hn4 hl4 he4
      apply Post.pure
      refine ⟨hwf3.step (by omega) hl4, by omega, ?_, Or.inr ⟨rfl, ⟨h1.next + 1, by omega, by omega, hg2⟩, he4⟩⟩
      rw [hl4, hl3, hl2, hl, filter_append_self (fresh_not_mem hwf _)]; simp [owned]
  · intro hg h1 hn hl he hwf1
    dsimp only
    apply Post.pure
    exact ⟨hwf1, by omega, by simp [owned, hl], Or.inr ⟨rfl, ⟨h.next + 1, by omega, by omega, hg⟩, he⟩⟩

/-- json_object_new_array_ext: node + array_list + slot array, or NULL with nothing kept -/
theorem newArrayExt_spec (g : Oracle) (h : Heap) (hwf : WF h) (n : Int) :
    Post (newArrayExt n) g h (fun r h' => WF h' ∧ h.next ≤ h'.next ∧ h'.live = h.live ++ owned r ∧
      ((∃ b al, r = .arr b al [] ∧ al.size = n.toNat ∧ al.length = 0 ∧ 0 ≤ n) ∨
       (r = .null ∧ (Failed g h h' ∨ n < 0 ∨ n.toNat ≥ SIZE_T_MAX / PTR)))) := by
  unfold newArrayExt malloc
  apply Post.bind
  apply Post.alloc hwf
  · intro hg h1 hn hl he hwf1
    dsimp only
    apply Post.seq (alNew2_spec g h1 hwf1 n)
    rintro r h2 ⟨hwf2, hn2, hcase⟩
    rcases hcase with ⟨a, rfl, hl2, hsz, hlen, hpos⟩ | ⟨rfl, hl2, hf⟩
    · dsimp only
      apply Post.pure
      exact ⟨hwf2, by omega, by simp [owned, ownedList, hl2, hl], Or.inl ⟨_, _, rfl, hsz, hlen, hpos⟩⟩
    · dsimp only
      apply Post.bind
      apply Post.free hwf2 (by simp [hl2, hl])
      intro h3 hn3 hl3 he3 hwf3
      apply Post.pure
      refine ⟨hwf3, by omega, ?_, Or.inr ⟨rfl, ?_⟩⟩
      · rw [hl3, hl2, hl, filter_append_self (fresh_not_mem hwf _)]; simp [owned]
      · rcases hf with hf | ⟨hr, _⟩
        · exact Or.inl (hf.widen (by omega) (by omega))
        · exact Or.inr hr
  · intro hg h1 hn hl he hwf1
    dsimp only
    apply Post.pure
    exact ⟨hwf1, by omega, by simp [owned, hl], Or.inr ⟨rfl, Or.inl ⟨h.next + 1, by omega, by omega, hg⟩⟩⟩

/-- json_object_new_object: node + lh_table + entry array, or NULL with errno ENOMEM and nothing kept -/
theorem newObject_spec (g : Oracle) (h : Heap) (hwf : WF h) :
    Post newObject g h (fun r h' => WF h' ∧ h.next ≤ h'.next ∧ h'.live = h.live ++ owned r ∧
      ((∃ b lh, r = .obj b lh [] ∧ lh.size = objectDefHashEntries ∧ lh.count = 0) ∨
       (r = .null ∧ Failed g h h' ∧ h'.errno = .ENOMEM))) := by
  unfold newObject malloc
  apply Post.bind
  apply Post.alloc hwf
  · intro hg h1 hn hl he hwf1
    dsimp only
    apply Post.seq (lhNew_spec g h1 hwf1 objectDefHashEntries (by decide))
    rintro r h2 ⟨hwf2, hn2, hcase⟩
    rcases hcase with ⟨t, rfl, hl2, hsz, hcnt, _⟩ | ⟨rfl, hl2, hf⟩
    · dsimp only
      apply Post.pure
      exact ⟨hwf2, by omega, by simp [owned, ownedMembers, hl2, hl], Or.inl ⟨_, _, rfl, hsz, hcnt⟩⟩
    · dsimp only
      apply Post.bind
      apply Post.free hwf2 (by simp [hl2, hl])
      intro h3 hn3 hl3 he3 hwf3
      apply Post.bind
      apply Post.setErrno
      intro h4 hn4 hl4 he4
      apply Post.pure
      refine ⟨hwf3.step (by omega) hl4, by omega, ?_, Or.inr ⟨rfl, hf.widen (by omega) (by omega), he4⟩⟩
      rw [hl4, hl3, hl2, hl, filter_append_self (fresh_not_mem hwf _)]; simp [owned]
  · intro hg h1 hn hl he hwf1
    dsimp only
    apply Post.pure
    exact ⟨hwf1, by omega, by simp [owned, hl], Or.inr ⟨rfl, ⟨h.next + 1, by omega, by omega, hg⟩, he⟩⟩

/-! ## json_tokener.c: constructor -/

/-- json_tokener_new_ex: tokener + stack + printbuf (4 blocks), or NULL with nothing kept -/
theorem tokenerNewEx_spec (g : Oracle) (h : Heap) (hwf : WF h) (depth : Int) :
    Post (tokenerNewEx depth) g h (fun r h' => WF h' ∧ h.next ≤ h'.next ∧
      ((∃ t, r = some t ∧ h'.live = h.live ++ [t.self, t.stack, t.pb.self, t.pb.buf] ∧ t.depth = depth.toNat) ∨
       (r = none ∧ h'.live = h.live ∧ (Failed g h h' ∨ (depth < 1 ∧ h'.next = h.next))))) := by
  unfold tokenerNewEx
  by_cases h0 : depth < 1
  · rw [if_pos h0]
    apply Post.pure
    exact ⟨hwf, Nat.le_refl _, Or.inr ⟨rfl, rfl, Or.inr ⟨h0, rfl⟩⟩⟩
  · rw [if_neg h0]
    unfold calloc
    apply Post.bind
    apply Post.alloc hwf
    · intro hg h1 hn hl he hwf1
      dsimp only
      apply Post.bind
      apply Post.alloc hwf1
      · intro hg2 h2 hn2 hl2 he2 hwf2
        dsimp only
        apply Post.seq (pbNew_spec g h2 hwf2)
        rintro r h3 ⟨hwf3, hn3, hcase⟩
        rcases hcase with ⟨p, rfl, hl3, _⟩ | ⟨rfl, hl3, hf⟩
        · dsimp only
          apply Post.pure
          exact ⟨hwf3, by omega, Or.inl ⟨_, rfl, by simp [hl3, hl2, hl, hn], rfl⟩⟩
        · dsimp only
          apply Post.bind
          apply Post.free hwf3 (by simp [hl3, hl2, hl])
          intro h4 hn4 hl4 he4 hwf4
          apply Post.bind
          apply Post.free hwf4
          · rw [hl4, hl3, hl2, hl, hn, mem_filter_ne]
            refine ⟨by simp, ?_⟩
            intro e
            have := congrArg Blk.id e
            simp at this
          · intro h5 hn5 hl5 he5 hwf5
            apply Post.pure
            refine ⟨hwf5, by omega, Or.inr ⟨rfl, ?_, Or.inl (hf.widen (by omega) (by omega))⟩⟩
            rw [hl5, hl4, hl3, hl2, hl, hn]
            have f1 := fresh_not_mem hwf (1 * sizeofJsonTokener)
            have hw1 : WF { h with next := h.next + 1, live := h.live ++ [⟨h.next + 1, 1 * sizeofJsonTokener⟩] } :=
              hwf.push _ rfl rfl
            have f2 := fresh_not_mem hw1 (depth.toNat * sizeofJsonTokenerSrec)
            rw [filter_append_self f2, filter_append_self f1]
      · intro hg2 h2 hn2 hl2 he2 hwf2
        dsimp only
        apply Post.bind
        apply Post.free hwf2 (by simp [hl2, hl])
        intro h3 hn3 hl3 he3 hwf3
        apply Post.pure
        refine ⟨hwf3, by omega, Or.inr ⟨rfl, ?_, Or.inl ⟨h1.next + 1, by omega, by omega, hg2⟩⟩⟩
        rw [hl3, hl2, hl, filter_append_self (fresh_not_mem hwf _)]
    · intro hg h1 hn hl he hwf1
      dsimp only
      apply Post.pure
      exact ⟨hwf1, by omega, Or.inr ⟨rfl, hl, Or.inl ⟨h.next + 1, by omega, by omega, hg⟩⟩⟩


/-! ## json_object.c: set_string -/


/-- _json_object_set_string_len: the node takes the new bytes (storage kept, external buffer released
for the empty string, or a fresh buffer replacing the old one — the old one is freed only after the
malloc succeeded: `allocSetStrFreeAfterMalloc`), or returns 0 with the node and the heap unchanged -/
theorem setStringLen_spec (g : Oracle) (h : Heap) (hwf : WF h) (b : Blk) (old s : Bytes) (pd : Option Blk)
    (hpd : ∀ p, pd = some p → p ∈ h.live) :
    Post (setStringLen (.str b old pd) s) g h (fun r h' => WF h' ∧ h.next ≤ h'.next ∧
      ((r.2 = 1 ∧ ∃ pd', r.1 = .str b s pd' ∧
          ((pd' = pd ∧ h'.live = h.live ∧ h'.next = h.next) ∨
           (∃ p, pd = some p ∧ pd' = none ∧ s.length = 0 ∧ h'.live = h.live.filter (· != p) ∧ h'.next = h.next) ∨
           (∃ nb, pd' = some nb ∧ nb.size = s.length + strGrowNulRoom ∧ nb.id = h.next + 1 ∧
              h'.live = h.live.filter (keep pd.toList) ++ [nb] ∧ h'.next = h.next + 1))) ∨
       (r.2 = 0 ∧ r.1 = .str b old pd ∧ h'.live = h.live ∧
          (Failed g h h' ∨ (s.length ≥ intMax - strSetGuardSlack ∧ h'.next = h.next))))) := by
  obtain ⟨hshape, _⟩ := shape_facts
  unfold setStringLen
  dsimp only
  by_cases h0 : s.length ≥ intMax - strSetGuardSlack
  · rw [if_pos h0]
    apply Post.pure
    exact ⟨hwf, Nat.le_refl _, Or.inr ⟨rfl, rfl, rfl, Or.inr ⟨h0, rfl⟩⟩⟩
  · rw [if_neg h0]
    cases pd with
    | none =>
      dsimp only
      apply Post.bind
      apply Post.pure
      dsimp only
      by_cases h1 : s.length > old.length
      · rw [if_pos h1, if_neg (by rw [hshape]; decide)]
        unfold malloc
        apply Post.bind
        apply Post.alloc hwf
        · intro hg h1' hn hl he hwf1
          dsimp only
          apply Post.pure
          refine ⟨hwf1, by omega, Or.inl ⟨rfl, _, rfl, Or.inr (Or.inr ⟨_, rfl, rfl, rfl, ?_, hn⟩)⟩⟩
          rw [hl]; simp [filter_keep_nil]
        · intro hg h1' hn hl he hwf1
          dsimp only
          apply Post.pure
          exact ⟨hwf1, by omega, Or.inr ⟨rfl, rfl, hl, Or.inl ⟨h.next + 1, by omega, by omega, hg⟩⟩⟩
      · rw [if_neg h1]
        apply Post.pure
        exact ⟨hwf, Nat.le_refl _, Or.inl ⟨rfl, _, rfl, Or.inl ⟨rfl, rfl, rfl⟩⟩⟩
    | some p =>
      have hp := hpd p rfl
      dsimp only
      by_cases hz : s.length = 0
      · rw [if_pos hz]
        apply Post.bind
        apply Post.free hwf hp
        intro h1 hn1 hl1 he1 hwf1
        apply Post.bind
        apply Post.pure
        dsimp only
        rw [if_neg (by omega)]
        apply Post.pure
        exact ⟨hwf1, by omega, Or.inl ⟨rfl, _, rfl, Or.inr (Or.inl ⟨p, rfl, rfl, hz, hl1, hn1⟩)⟩⟩
      · rw [if_neg hz]
        apply Post.bind
        apply Post.pure
        dsimp only
        by_cases h1 : s.length > old.length
        · rw [if_pos h1, if_neg (by rw [hshape]; decide)]
          unfold malloc
          apply Post.bind
          apply Post.alloc hwf
          · intro hg h1' hn hl he hwf1
            dsimp only
            apply Post.bind
            apply Post.free hwf1 (by rw [hl]; simp [hp])
            intro h2 hn2 hl2 he2 hwf2
            apply Post.pure
            refine ⟨hwf2, by omega, Or.inl ⟨rfl, _, rfl, Or.inr (Or.inr ⟨_, rfl, rfl, rfl, ?_, by omega⟩)⟩⟩
            rw [hl2, hl, List.filter_append]
            have hne : (⟨h.next + 1, s.length + strGrowNulRoom⟩ : Blk) ≠ p := ne_of_fresh hwf hp _ _ (by omega)
            simp [filter_ne_eq_keep, hne]
          · intro hg h1' hn hl he hwf1
            dsimp only
            apply Post.pure
            exact ⟨hwf1, by omega, Or.inr ⟨rfl, rfl, hl, Or.inl ⟨h.next + 1, by omega, by omega, hg⟩⟩⟩
        · rw [if_neg h1]
          apply Post.pure
          exact ⟨hwf, Nat.le_refl _, Or.inl ⟨rfl, _, rfl, Or.inl ⟨rfl, rfl, rfl⟩⟩⟩


/-! ## json_object.c: array add, member add -/

/-- json_object_array_add: the value is appended (slot array kept or replaced), or -1 with the array
and the heap unchanged (the caller still owns the value) -/
theorem arrayAdd_spec (g : Oracle) (h : Heap) (hwf : WF h) (b : Blk) (al : AlA) (es : List Node) (val : Node)
    (hb : al.array ∈ h.live) :
    Post (arrayAdd (.arr b al es) val) g h (fun r h' => WF h' ∧ h.next ≤ h'.next ∧
      ((r.2 = 0 ∧ ∃ al', r.1 = .arr b al' (es ++ [val]) ∧ AlKeptOrMoved h al al' h' ∧ al'.length = al.length + 1 ∧
          (al'.size = al.size ∨ (al.size ≤ al.length + 1 ∧ (al'.size = al.length + 1 ∨ al'.size = al.size * 2)))) ∨
       (r.2 = -1 ∧ r.1 = .arr b al es ∧ h'.live = h.live ∧
          (Failed g h h' ∨ (h'.next = h.next ∧ (al.length + 1 > SIZE_T_MAX / PTR ∨ al.size * 2 > SIZE_T_MAX / PTR)))))) := by
  unfold arrayAdd
  apply Post.seq (alAdd_spec g h hwf al hb)
  rintro ⟨al1, rc⟩ h' ⟨hwf', hn', hcase⟩
  rcases hcase with ⟨hrc, hk, hlen, _, hsz⟩ | ⟨hrc, ha, hl, hf⟩
  · simp only at hrc hk hlen hsz
    subst hrc
    dsimp only
    rw [if_neg (by decide)]
    apply Post.pure
    exact ⟨hwf', hn', Or.inl ⟨rfl, al1, rfl, hk, hlen, hsz⟩⟩
  · simp only at hrc ha hl
    subst hrc; subst ha
    dsimp only
    rw [if_pos (by decide)]
    apply Post.pure
    exact ⟨hwf', hn', Or.inr ⟨rfl, rfl, hl, hf⟩⟩

theorem objectAddInsert_spec (g : Oracle) (h h1 : Heap) (hwf : WF h) (b : Blk) (lh : LhA)
    (ms : List (Bytes × Option Blk × Node)) (key : Bytes) (val : Node) (constKey : Bool)
    (htab : lh.table ∈ h.live) (hok : LhOK lh)
    (kb : Option Blk) (hwf1 : WF h1) (hl1 : h1.live = h.live ++ kb.toList)
    (hn1 : h1.next = h.next + kb.toList.length) (hck : constKey = true ↔ kb = none)
    (hkid : ∀ k, kb = some k → k.id = h.next + 1 ∧ k.size = key.length + 1) :
    Post (objectAddInsert b lh ms key kb val) g h1 (fun r h' => WF h' ∧ h.next ≤ h'.next ∧
      ((r.2 = 0 ∧ ObjAdded h b lh ms key val constKey r.1 h') ∨
       (r.2 = -1 ∧ r.1 = .obj b lh ms ∧ h'.live = h.live ∧ Failed g h1 h'))) := by
  obtain ⟨_, _, _, _, _, hfree, _⟩ := shape_facts
  have htab1 : lh.table ∈ h1.live := by rw [hl1]; simp [htab]
  unfold objectAddInsert
  apply Post.seq (lhInsert_spec g h1 hwf1 lh htab1 hok)
  rintro ⟨lh1, rc⟩ h2 ⟨hwf2, hn2, hcase⟩
  rcases hcase with ⟨hrc, hs, hc, hcs, hkm⟩ | ⟨hrc, ht, hl2, hf⟩
  · simp only at hrc hs hc hcs hkm
    subst hrc
    dsimp only
    rw [if_neg (by decide)]
    apply Post.pure
    refine ⟨hwf2, by omega, Or.inl ⟨rfl, kb, lh1, rfl, hs, hc, hcs, hck, hkid, ?_⟩⟩
    rcases hkm with ⟨ht, hsz, hl2, hnx⟩ | ⟨hsz, hl2, hnx, hid, hgrow⟩
    · exact Or.inl ⟨ht, hsz, by rw [hl2, hl1], by omega⟩
    · refine Or.inr ⟨hsz, ?_, by omega, by omega, hgrow⟩
      rw [hl2, hl1, List.filter_append]
      congr 2
      apply filter_ne_fresh
      intro hm
      cases kb with
      | none => simp at hm
      | some k =>
        simp only [Option.toList_some, List.mem_singleton] at hm
        have hk1 := (hkid k rfl).1
        have hk2 := hwf.2 _ htab
        rw [hm] at hk2
        omega
  · simp only at hrc ht hl2
    subst hrc; subst ht
    dsimp only
    rw [if_pos (by decide), hfree]
    simp only [↓reduceIte]
    cases kb with
    | none =>
      dsimp only
      apply Post.pure
      refine ⟨hwf2, by omega, Or.inr ⟨rfl, rfl, ?_, hf⟩⟩
      rw [hl2, hl1]; simp
    | some k =>
      dsimp only
      apply Post.bind
      apply Post.free hwf2 (by rw [hl2, hl1]; simp)
      intro h3 hn3 hl3 he3 hwf3
      apply Post.pure
      refine ⟨hwf3, by omega, Or.inr ⟨rfl, rfl, ?_, hf.widen (Nat.le_refl _) (by omega)⟩⟩
      rw [hl3, hl2, hl1]
      simp only [Option.toList_some]
      apply filter_append_self
      intro hm
      have hk1 := (hkid k rfl).1
      have hk2 := hwf.2 _ hm
      omega

/-- json_object_object_add_ex.
  * existing key: the old value is released and replaced, no allocation, rc 0;
  * new key: the key is copied (unless CONSTANT_KEY) and the entry inserted, the entry array kept or
    doubled, rc 0;
  * -1 with the object and the heap unchanged — in particular the key copy is freed when the insert
    fails (`allocObjAddFreesKeyOnFail`); the caller still owns the value. -/
theorem objectAddEx_spec (g : Oracle) (h : Heap) (hwf : WF h) (b : Blk) (lh : LhA)
    (ms : List (Bytes × Option Blk × Node)) (key : Bytes) (val : Node) (keyIsNew constKey : Bool)
    (htab : lh.table ∈ h.live) (hok : LhOK lh)
    (hold : ∀ i, keyIsNew = false → findKey key ms = some i → OwnedIn h (owned (memberVal ms i))) :
    Post (objectAddEx (.obj b lh ms) key val keyIsNew constKey) g h (fun r h' => WF h' ∧ h.next ≤ h'.next ∧
      ((r.2 = 0 ∧ ∃ i, keyIsNew = false ∧ findKey key ms = some i ∧ r.1 = .obj b lh (setMemberVal ms i val) ∧
          h'.live = h.live.filter (keep (owned (memberVal ms i))) ∧ h'.next = h.next) ∨
       (r.2 = 0 ∧ (keyIsNew = true ∨ findKey key ms = none) ∧ ObjAdded h b lh ms key val constKey r.1 h') ∨
       (r.2 = -1 ∧ r.1 = .obj b lh ms ∧ h'.live = h.live ∧ Failed g h h'))) := by
  obtain ⟨_, _, _, _, _, _, hchk, _⟩ := shape_facts
  unfold objectAddEx
  dsimp only
  cases hfk : (if keyIsNew = true then none else findKey key ms) with
  | some i =>
    have hnew : keyIsNew = false := by
      cases keyIsNew with
      | true => simp at hfk
      | false => rfl
    have hfind : findKey key ms = some i := by rw [hnew] at hfk; simpa using hfk
    dsimp only
    apply Post.seq (putNode_spec _ g h hwf (hold i hnew hfind))
    rintro _ h1 ⟨hwf1, hn1, he1, hl1⟩
    apply Post.pure
    exact ⟨hwf1, by omega, Or.inl ⟨rfl, i, hnew, hfind, rfl, hl1, hn1⟩⟩
  | none =>
    have hnone : keyIsNew = true ∨ findKey key ms = none := by
      cases keyIsNew with
      | true => exact Or.inl rfl
      | false => right; simpa using hfk
    dsimp only
    rw [if_neg (by rw [hchk]; decide)]
    cases constKey with
    | true =>
      rw [if_pos rfl]
      apply Post.mono (objectAddInsert_spec g h h hwf b lh ms key val true htab hok none hwf (by simp) (by simp) (by simp) (by simp))
      rintro r h' ⟨hw, hn, hc⟩
      refine ⟨hw, hn, ?_⟩
      rcases hc with ⟨h1', h2'⟩ | hc
      · exact Or.inr (Or.inl ⟨h1', hnone, h2'⟩)
      · exact Or.inr (Or.inr hc)
    | false =>
      rw [if_neg (by decide)]
      unfold strdup
      apply Post.bind
      apply Post.alloc hwf
      · intro hg h1 hn hl he hwf1
        dsimp only
        apply Post.mono (objectAddInsert_spec g h h1 hwf b lh ms key val false htab hok (some ⟨h.next + 1, key.length + 1⟩) hwf1
          (by simpa using hl) (by simpa using hn) (by simp) (by simp))
        rintro r h' ⟨hw, hn', hc⟩
        refine ⟨hw, hn', ?_⟩
        rcases hc with ⟨h1', h2'⟩ | ⟨h1', h2', h3', h4'⟩
        · exact Or.inr (Or.inl ⟨h1', hnone, h2'⟩)
        · exact Or.inr (Or.inr ⟨h1', h2', h3', h4'.widen (by omega) (Nat.le_refl _)⟩)
      · intro hg h1 hn hl he hwf1
        dsimp only
        apply Post.pure
        exact ⟨hwf1, by omega, Or.inr (Or.inr ⟨rfl, rfl, hl, ⟨h.next + 1, by omega, by omega, hg⟩⟩)⟩




/-- array_list_put_idx (capacity and length): like add -/
theorem alPutIdx_spec (g : Oracle) (h : Heap) (hwf : WF h) (a : AlA) (idx : Nat) (hb : a.array ∈ h.live) :
    Post (alPutIdx a idx) g h (fun r h' => WF h' ∧ h.next ≤ h'.next ∧
      ((r.2 = 0 ∧ AlKeptOrMoved h a r.1 h' ∧ idx < r.1.size) ∨
       (r.2 = -1 ∧ r.1 = a ∧ h'.live = h.live))) := by
  obtain ⟨_, _, _, _, _, hn1, _⟩ := al_consts
  unfold alPutIdx
  by_cases h0 : idx > SIZE_T_MAX - alPutGuard
  · rw [if_pos h0]
    apply Post.pure
    exact ⟨hwf, Nat.le_refl _, Or.inr ⟨rfl, rfl, rfl⟩⟩
  · rw [if_neg h0]
    apply Post.seq (alExpand_spec g h hwf a _ hb)
    rintro ⟨a1, rc⟩ h' ⟨hwf', hn', hcase⟩
    rcases hcase with ⟨hrc, hk, hlen, hcap, _⟩ | ⟨hrc, ha, hl, _⟩
    · simp only at hrc hk hlen hcap
      subst hrc
      dsimp only
      rw [if_neg (by decide)]
      apply Post.pure
      refine ⟨hwf', hn', Or.inl ⟨rfl, ⟨hk.1, ?_⟩, ?_⟩⟩
      · exact hk.2
      · dsimp only; rw [hn1] at hcap; omega
    · simp only at hrc ha hl
      subst hrc; subst ha
      dsimp only
      rw [if_pos (by decide)]
      apply Post.pure
      exact ⟨hwf', hn', Or.inr ⟨rfl, rfl, hl⟩⟩

theorem ownedIn_elem {h : Heap} {es : List Node} (ho : OwnedIn h (ownedList es)) : ∀ e ∈ es, OwnedIn h (owned e) := by
  induction es with
  | nil => intro e he; cases he
  | cons x xs ih =>
    obtain ⟨hnd, hl⟩ := ho
    rw [ownedList] at hnd hl
    have hnd' := List.nodup_append.mp hnd
    intro e he
    rcases List.mem_cons.mp he with rfl | he
    · exact ⟨hnd'.1, fun b hb => hl b (List.mem_append_left _ hb)⟩
    · exact ih ⟨hnd'.2.1, fun b hb => hl b (List.mem_append_right _ hb)⟩ e he

theorem owned_elem_sub {es : List Node} {e : Node} (he : e ∈ es) : ∀ b ∈ owned e, b ∈ ownedList es := by
  induction es with
  | nil => cases he
  | cons x xs ih =>
    intro b hb
    rw [ownedList]
    rcases List.mem_cons.mp he with rfl | he
    · exact List.mem_append_left _ hb
    · exact List.mem_append_right _ (ih he b hb)

/-- json_object_array_put_idx: the slot takes the value (the element it held is released), or -1 with
the array and the heap unchanged -/
theorem arrayPutIdx_spec (g : Oracle) (h : Heap) (hwf : WF h) (b : Blk) (al : AlA) (es : List Node) (idx : Nat)
    (val : Node) (ho : OwnedIn h (owned (.arr b al es))) :
    Post (arrayPutIdx (.arr b al es) idx val) g h (fun r h' => WF h' ∧ h.next ≤ h'.next ∧
      ((r.2 = 0 ∧ ∃ al', r.1 = .arr b al' (putElems es idx val).2 ∧ al'.self = al.self) ∨
       (r.2 = -1 ∧ r.1 = .arr b al es ∧ h'.live = h.live))) := by
  obtain ⟨hnd, hlive⟩ := ho
  rw [owned] at hnd hlive
  have n1 := List.nodup_cons.mp hnd
  have n2 := List.nodup_cons.mp n1.2
  have n3 := List.nodup_cons.mp n2.2
  have hes : OwnedIn h (ownedList es) := ⟨n3.2, fun x hx => hlive x (by simp [hx])⟩
  unfold arrayPutIdx
  apply Post.seq (alPutIdx_spec g h hwf al idx (hlive _ (by simp)))
  rintro ⟨al1, rc⟩ h1 ⟨hwf1, hn1, hcase⟩
  rcases hcase with ⟨hrc, hk, _⟩ | ⟨hrc, ha, hl⟩
  · simp only at hrc hk
    subst hrc
    dsimp only
    rw [if_neg (by decide)]
    -- the element that is overwritten is still live
    have hold : OwnedIn h1 (owned (putElems es idx val).1) := by
      unfold putElems
      by_cases hi : idx < es.length
      · rw [if_pos hi]
        dsimp only
        have hmem : es.getD idx .null ∈ es := by
          rw [List.getD_eq_getElem?_getD, List.getElem?_eq_getElem hi]; simp
        have hoe := ownedIn_elem hes _ hmem
        refine ⟨hoe.1, fun x hx => ?_⟩
        rcases hk.2 with ⟨_, _, hl1, _⟩ | ⟨hl1, _, _⟩
        · rw [hl1]; exact hoe.2 x hx
        · rw [hl1]
          apply List.mem_append_left
          rw [mem_filter_ne]
          refine ⟨hoe.2 x hx, ?_⟩
          intro e
          exact n3.1 (e ▸ owned_elem_sub hmem x hx)
      · rw [if_neg hi]
        exact ⟨by simp [owned], by simp [owned]⟩
    apply Post.seq (putNode_spec _ g h1 hwf1 hold)
    rintro _ h2 ⟨hwf2, hn2, _, _⟩
    apply Post.pure
    exact ⟨hwf2, by omega, Or.inl ⟨rfl, al1, rfl, hk.1⟩⟩
  · simp only at hrc ha hl
    subst hrc; subst ha
    dsimp only
    rw [if_pos (by decide)]
    apply Post.pure
    exact ⟨hwf1, hn1, Or.inr ⟨rfl, rfl, hl⟩⟩


theorem ownedIn_memberVal {h : Heap} {ms : List (Bytes × Option Blk × Node)} (ho : OwnedIn h (ownedMembers ms)) :
    ∀ i, i < ms.length → OwnedIn h (owned (memberVal ms i)) := by
  induction ms with
  | nil => intro i hi; cases hi
  | cons m ms ih =>
    obtain ⟨k, kb, v⟩ := m
    obtain ⟨hnd, hl⟩ := ho
    rw [ownedMembers] at hnd hl
    have hnd1 := List.nodup_append.mp hnd
    have hnd2 := List.nodup_append.mp hnd1.1
    intro i hi
    cases i with
    | zero =>
      show OwnedIn h (owned v)
      exact ⟨hnd2.2.1, fun b hb => hl b (by simp [hb])⟩
    | succ j =>
      have := ih ⟨hnd1.2.1, fun b hb => hl b (by simp [hb])⟩ j (by simpa using hi)
      simpa [memberVal] using this

theorem owned_memberVal_sub {ms : List (Bytes × Option Blk × Node)} {i : Nat} (hi : i < ms.length) :
    ∀ x ∈ owned (memberVal ms i), x ∈ ownedMembers ms := by
  induction ms generalizing i with
  | nil => cases hi
  | cons m ms ih =>
    obtain ⟨k, kb, v⟩ := m
    intro x hx
    rw [ownedMembers]
    cases i with
    | zero =>
      have hx' : x ∈ owned v := hx
      simp [hx']
    | succ j =>
      have hx' : x ∈ owned (memberVal ms j) := by simpa [memberVal] using hx
      exact List.mem_append_right _ (ih (by simpa using hi) x hx')

theorem findKey_lt {key : Bytes} {ms : List (Bytes × Option Blk × Node)} {i : Nat} (hf : findKey key ms = some i) :
    i < ms.length := by
  induction ms generalizing i with
  | nil => simp [findKey] at hf
  | cons m ms ih =>
    obtain ⟨k, kb, v⟩ := m
    simp only [findKey] at hf
    by_cases hk : k = key
    · rw [if_pos hk] at hf; cases hf; simp
    · rw [if_neg hk] at hf
      cases hfk : findKey key ms with
      | none => rw [hfk] at hf; simp at hf
      | some j =>
        rw [hfk] at hf
        simp at hf
        subst hf
        have := ih hfk
        simp; omega

/-- json_pointer_set_single_path: 0, or -1 with the parent and the heap unchanged (the working copy of
the key is freed on both paths: `allocPtrSetFreesKey`) -/
theorem ptrSetSingle_spec (g : Oracle) (h : Heap) (hwf : WF h) (parent : Node) (plan : PtrPlan) (value : Node)
    (ho : OwnedIn h (owned parent)) (hlh : ∀ b lh ms, parent = .obj b lh ms → LhOK lh) :
    Post (ptrSetSingle parent plan value) g h (fun r h' => WF h' ∧ h.next ≤ h'.next ∧
      (r.2 = 0 ∨ (r.2 = -1 ∧ r.1 = parent ∧ h'.live = h.live))) := by
  obtain ⟨_, _, _, _, _, _, _, _, _, hfk, _⟩ := shape_facts
  cases parent with
  | arr b al es =>
    simp only [ptrSetSingle]
    cases plan.tok with
    | dash =>
      dsimp only
      apply Post.mono (arrayAdd_spec g h hwf b al es value (ho.2 _ (by simp [owned])))
      rintro r h' ⟨hw, hn, hc⟩
      refine ⟨hw, hn, ?_⟩
      rcases hc with ⟨h1, _⟩ | ⟨h1, h2, h3, _⟩
      · exact Or.inl h1
      · exact Or.inr ⟨h1, h2, h3⟩
    | index i =>
      dsimp only
      apply Post.mono (arrayPutIdx_spec g h hwf b al es i value ho)
      rintro r h' ⟨hw, hn, hc⟩
      refine ⟨hw, hn, ?_⟩
      rcases hc with ⟨h1, _⟩ | ⟨h1, h2, h3⟩
      · exact Or.inl h1
      · exact Or.inr ⟨h1, h2, h3⟩
    | other =>
      dsimp only
      apply Post.bind
      apply Post.setErrno
      intro h1 hn hl he
      apply Post.pure
      exact ⟨hwf.step (by omega) hl, by omega, Or.inr ⟨rfl, rfl, hl⟩⟩
  | obj b lh ms =>
    simp only [ptrSetSingle]
    obtain ⟨hnd, hlive⟩ := ho
    rw [owned] at hnd hlive
    have n1 := List.nodup_cons.mp hnd
    have n2 := List.nodup_cons.mp n1.2
    have n3 := List.nodup_cons.mp n2.2
    unfold strdup
    apply Post.bind
    apply Post.alloc hwf
    · intro hg h1 hn1 hl1 he1 hwf1
      dsimp only
      have hms : OwnedIn h1 (ownedMembers ms) :=
        ⟨n3.2, fun x hx => by rw [hl1]; exact List.mem_append_left _ (hlive x (by simp [hx]))⟩
      apply Post.seq (objectAddEx_spec g h1 hwf1 b lh ms plan.key value false false
        (by rw [hl1]; exact List.mem_append_left _ (hlive _ (by simp))) (hlh b lh ms rfl)
        (fun i _ hf => ownedIn_memberVal hms i (findKey_lt hf)))
      rintro ⟨p1, rc⟩ h2 ⟨hwf2, hn2, hcase⟩
      dsimp only
      rw [hfk]
      simp only [↓reduceIte]
      have hkc1 : (⟨h.next + 1, plan.tokLen + 1⟩ : Blk) ∈ h1.live := by rw [hl1]; simp
      have hkcfresh := fresh_not_mem hwf (plan.tokLen + 1)
      -- the working copy is still live whatever the add did
      have hkc2 : (⟨h.next + 1, plan.tokLen + 1⟩ : Blk) ∈ h2.live := by
        rcases hcase with ⟨_, i, _, hf, _, hl2, _⟩ | ⟨_, _, kb, lh', _, _, _, _, _, _, hkm⟩ | ⟨_, _, hl2, _⟩
        · rw [hl2, mem_filter_keep]
          refine ⟨hkc1, fun hm => hkcfresh ?_⟩
          exact hlive _ (by simp [owned_memberVal_sub (findKey_lt hf) _ hm])
        · rcases hkm with ⟨_, _, hl2, _⟩ | ⟨_, hl2, _⟩
          · rw [hl2]; exact List.mem_append_left _ hkc1
          · rw [hl2]
            apply List.mem_append_left; apply List.mem_append_left
            rw [mem_filter_ne]
            refine ⟨hkc1, fun e => hkcfresh ?_⟩
            rw [e]; exact hlive _ (by simp)
        · rw [hl2]; exact hkc1
      apply Post.bind
      apply Post.free hwf2 hkc2
      intro h3 hn3 hl3 he3 hwf3
      apply Post.pure
      refine ⟨hwf3, by omega, ?_⟩
      rcases hcase with ⟨hrc, _⟩ | ⟨hrc, _⟩ | ⟨hrc, hp, hl2, _⟩
      · exact Or.inl hrc
      · exact Or.inl hrc
      · refine Or.inr ⟨hrc, hp, ?_⟩
        rw [hl3, hl2, hl1, filter_append_self hkcfresh]
    · intro hg h1 hn1 hl1 he1 hwf1
      dsimp only
      apply Post.bind
      apply Post.setErrno
      intro h2 hn2 hl2 he2
      apply Post.pure
      exact ⟨hwf1.step (by omega) hl2, by omega, Or.inr ⟨rfl, rfl, by rw [hl2, hl1]⟩⟩
  | null =>
    simp only [ptrSetSingle]
    apply Post.bind
    apply Post.setErrno
    intro h1 hn hl he
    apply Post.pure
    exact ⟨hwf.step (by omega) hl, by omega, Or.inr ⟨rfl, rfl, hl⟩⟩
  | prim k b =>
    simp only [ptrSetSingle]
    apply Post.bind
    apply Post.setErrno
    intro h1 hn hl he
    apply Post.pure
    exact ⟨hwf.step (by omega) hl, by omega, Or.inr ⟨rfl, rfl, hl⟩⟩
  | dbls b ud =>
    simp only [ptrSetSingle]
    apply Post.bind
    apply Post.setErrno
    intro h1 hn hl he
    apply Post.pure
    exact ⟨hwf.step (by omega) hl, by omega, Or.inr ⟨rfl, rfl, hl⟩⟩
  | str b s pd =>
    simp only [ptrSetSingle]
    apply Post.bind
    apply Post.setErrno
    intro h1 hn hl he
    apply Post.pure
    exact ⟨hwf.step (by omega) hl, by omega, Or.inr ⟨rfl, rfl, hl⟩⟩


theorem set_self {α : Type} (l : List α) (i : Nat) (c : α) (h : l[i]? = some c) : l.set i c = l := by
  induction l generalizing i with
  | nil => rfl
  | cons x xs ih =>
    cases i with
    | zero => simp at h; subst h; rfl
    | succ j => simp at h; simp [ih j h]

theorem setChildAt_self (n : Node) (i : Nat) (c : Node) (h : childAt n i = some c) : setChildAt n i c = n := by
  cases n with
  | arr b al es => simp only [childAt] at h; simp only [setChildAt, set_self es i c h]
  | obj b lh ms =>
    simp only [childAt] at h
    cases hm : ms[i]? with
    | none => rw [hm] at h; simp at h
    | some m =>
      obtain ⟨k, kb, v⟩ := m
      rw [hm] at h
      simp at h; subst h
      simp only [setChildAt, setMemberVal, hm, set_self ms i _ hm]
  | null => simp [childAt] at h
  | prim k b => simp [childAt] at h
  | dbls b ud => simp [childAt] at h
  | str b s pd => simp [childAt] at h

theorem replaceAt_self : ∀ (pos : List Nat) (root p : Node), nodeAt root pos = some p → replaceAt root pos p = root := by
  intro pos
  induction pos with
  | nil => intro root p h; simp [nodeAt] at h; subst h; rfl
  | cons i is ih =>
    intro root p h
    simp only [nodeAt] at h
    cases hc : childAt root i with
    | none => rw [hc] at h; simp at h
    | some c =>
      rw [hc] at h
      simp only [Option.bind_some] at h
      simp only [replaceAt, hc, ih c p h]
      exact setChildAt_self root i c hc

theorem ownedIn_childAt {h : Heap} {n c : Node} {i : Nat} (ho : OwnedIn h (owned n)) (hc : childAt n i = some c) :
    OwnedIn h (owned c) := by
  cases n with
  | arr b al es =>
    simp only [childAt] at hc
    obtain ⟨hnd, hl⟩ := ho
    rw [owned] at hnd hl
    have n1 := List.nodup_cons.mp hnd
    have n2 := List.nodup_cons.mp n1.2
    have n3 := List.nodup_cons.mp n2.2
    exact ownedIn_elem ⟨n3.2, fun x hx => hl x (by simp [hx])⟩ c (List.mem_of_getElem? hc)
  | obj b lh ms =>
    simp only [childAt] at hc
    obtain ⟨hnd, hl⟩ := ho
    rw [owned] at hnd hl
    have n1 := List.nodup_cons.mp hnd
    have n2 := List.nodup_cons.mp n1.2
    have n3 := List.nodup_cons.mp n2.2
    cases hm : ms[i]? with
    | none => rw [hm] at hc; simp at hc
    | some m =>
      rw [hm] at hc
      simp at hc
      have hi : i < ms.length := by
        rcases Nat.lt_or_ge i ms.length with hlt | hge
        · exact hlt
        · rw [List.getElem?_eq_none hge] at hm; cases hm
      have := ownedIn_memberVal ⟨n3.2, fun x hx => hl x (by simp [hx])⟩ i hi
      simp only [memberVal, hm] at this
      rw [← hc]; exact this
  | null => simp [childAt] at hc
  | prim k b => simp [childAt] at hc
  | dbls b ud => simp [childAt] at hc
  | str b s pd => simp [childAt] at hc

theorem ownedIn_nodeAt {h : Heap} : ∀ (pos : List Nat) (root p : Node), OwnedIn h (owned root) → nodeAt root pos = some p →
    OwnedIn h (owned p) := by
  intro pos
  induction pos with
  | nil => intro root p ho hn; simp [nodeAt] at hn; subst hn; exact ho
  | cons i is ih =>
    intro root p ho hn
    simp only [nodeAt] at hn
    cases hc : childAt root i with
    | none => rw [hc] at hn; simp at hn
    | some c =>
      rw [hc] at hn
      simp only [Option.bind_some] at hn
      exact ih c p (ownedIn_childAt ho hc) hn

/-- the full statement for json_pointer_set would also account for the heap after a successful set
(value owned by the tree, replaced element released, containers grown) as the theorems of its
building blocks do (arrayAdd_spec, arrayPutIdx_spec, objectAddEx_spec); proved here: the call never
faults and a failing call leaves the tree and the heap exactly as they were. -/
def pointerSetStatement : Prop :=
  ∀ (g : Oracle) (h : Heap) (root value : Node) (plan : PtrPlan), WF h → OwnedIn h (owned root) →
    (∀ pos b lh ms, nodeAt root pos = some (.obj b lh ms) → LhOK lh) →
    (∀ pos, plan.parentPos = some pos → (nodeAt root pos).isSome) →
    Post (pointerSet root plan value) g h (fun r h' => WF h' ∧
      ((r.2 = 0 ∧ ∃ F N, h'.live = h.live.filter (keep F) ++ N ∧ (∀ x ∈ F, x ∈ owned root) ∧
          (∀ x ∈ N, x ∈ owned r.1 ∧ h.next < x.id)) ∨
       (r.2 = -1 ∧ r.1 = root ∧ h'.live = h.live)))

/-- json_pointer_set: never faults; on failure (bad path, missing parent, refused allocation — the
working copy of the path is freed first: `allocPtrSetFreesPathCopy`) the tree and the heap are unchanged -/
theorem pointerSet_partial_spec (g : Oracle) (h : Heap) (hwf : WF h) (root value : Node) (plan : PtrPlan)
    (ho : OwnedIn h (owned root))
    (hlh : ∀ pos b lh ms, nodeAt root pos = some (.obj b lh ms) → LhOK lh)
    (hplan : ∀ pos, plan.parentPos = some pos → (nodeAt root pos).isSome) :
    Post (pointerSet root plan value) g h (fun r h' => WF h' ∧ h.next ≤ h'.next ∧
      (r.2 = 0 ∨ (r.2 = -1 ∧ r.1 = root ∧ h'.live = h.live))) := by
  obtain ⟨_, _, _, _, _, _, _, _, _, _, hfp⟩ := shape_facts
  unfold pointerSet
  by_cases h0 : plan.pathLen = 0
  · rw [if_pos h0]
    apply Post.seq (putNode_spec root g h hwf ho)
    rintro _ h1 ⟨hwf1, hn1, _, _⟩
    apply Post.pure
    exact ⟨hwf1, by omega, Or.inl rfl⟩
  · rw [if_neg h0]
    by_cases h1 : plan.startsWithSlash = false
    · rw [if_pos h1]
      apply Post.bind
      apply Post.setErrno
      intro h1' hn hl he
      apply Post.pure
      exact ⟨hwf.step (by omega) hl, by omega, Or.inr ⟨rfl, rfl, hl⟩⟩
    · rw [if_neg h1]
      by_cases h2 : plan.multi = false
      · rw [if_pos h2]
        exact ptrSetSingle_spec g h hwf root plan value ho (fun b lh ms e => hlh [] b lh ms (by rw [e]; rfl))
      · rw [if_neg h2]
        unfold strdup
        apply Post.bind
        apply Post.alloc hwf
        · intro hg h1' hn1 hl1 he1 hwf1
          dsimp only
          rw [hfp]
          simp only [↓reduceIte]
          apply Post.bind
          apply Post.free hwf1 (by rw [hl1]; simp)
          intro h2' hn2 hl2 he2 hwf2
          have hlive2 : h2'.live = h.live := by
            rw [hl2, hl1, filter_append_self (fresh_not_mem hwf _)]
          cases hpp : plan.parentPos with
          | none =>
            dsimp only
            apply Post.bind
            apply Post.setErrno
            intro h3 hn3 hl3 he3
            apply Post.pure
            exact ⟨hwf2.step (by omega) hl3, by omega, Or.inr ⟨rfl, rfl, by rw [hl3, hlive2]⟩⟩
          | some pos =>
            dsimp only
            have hsome := hplan pos hpp
            cases hna : nodeAt root pos with
            | none => rw [hna] at hsome; cases hsome
            | some parent =>
              dsimp only
              have hop : OwnedIn h2' (owned parent) := by
                have := ownedIn_nodeAt pos root parent ho hna
                exact ⟨this.1, fun x hx => by rw [hlive2]; exact this.2 x hx⟩
              apply Post.seq (ptrSetSingle_spec g h2' hwf2 parent plan value hop
                (fun b lh ms e => hlh pos b lh ms (by rw [hna, e])))
              rintro ⟨p1, rc⟩ h3 ⟨hwf3, hn3, hc⟩
              dsimp only
              apply Post.pure
              refine ⟨hwf3, by omega, ?_⟩
              rcases hc with hc | ⟨hrc, hp, hl3⟩
              · exact Or.inl hc
              · simp only at hrc hp hl3
                subst hp
                exact Or.inr ⟨hrc, replaceAt_self pos root p1 hna, by rw [hl3, hlive2]⟩
        · intro hg h1' hn1 hl1 he1 hwf1
          dsimp only
          apply Post.bind
          apply Post.setErrno
          intro h2' hn2 hl2 he2
          apply Post.pure
          exact ⟨hwf1.step (by omega) hl2, by omega, Or.inr ⟨rfl, rfl, by rw [hl2, hl1]⟩⟩


/-! ## json_tokener.c: attaching a completed child -/

/-- json_tokener_parse_ex, state array_add: the child is attached, or — memory error — the array and
everything else is unchanged and the child (which has no other owner) is released:
`allocTokAttachPutsChild` (the fix of the `obj` leak) -/
theorem tokAttachArray_spec (g : Oracle) (h : Heap) (hwf : WF h) (b : Blk) (al : AlA) (es : List Node) (child : Node)
    (hb : al.array ∈ h.live) (hc : OwnedIn h (owned child)) :
    Post (tokAttachArray (.arr b al es) child) g h (fun r h' => WF h' ∧ h.next ≤ h'.next ∧
      ((r.2 = false ∧ ∃ al', r.1 = .arr b al' (es ++ [child]) ∧ AlKeptOrMoved h al al' h') ∨
       (r.2 = true ∧ r.1 = .arr b al es ∧ h'.live = h.live.filter (keep (owned child))))) := by
  obtain ⟨_, _, _, _, hput, _⟩ := shape_facts
  unfold tokAttachArray
  apply Post.seq (arrayAdd_spec g h hwf b al es child hb)
  rintro ⟨c1, rc⟩ h1 ⟨hwf1, hn1, hcase⟩
  rcases hcase with ⟨hrc, al', hc1, hk, _⟩ | ⟨hrc, hc1, hl1, _⟩
  · simp only at hrc hc1
    subst hrc; subst hc1
    dsimp only
    rw [if_neg (by decide)]
    apply Post.pure
    exact ⟨hwf1, hn1, Or.inl ⟨rfl, al', rfl, hk⟩⟩
  · simp only at hrc hc1 hl1
    subst hrc; subst hc1
    dsimp only
    rw [if_pos (by decide), hput]
    simp only [↓reduceIte]
    apply Post.bind
    apply Post.mono (putNode_spec child g h1 hwf1 ⟨hc.1, fun x hx => by rw [hl1]; exact hc.2 x hx⟩)
    rintro _ h2 ⟨hwf2, hn2, _, hl2⟩
    apply Post.pure
    exact ⟨hwf2, by omega, Or.inr ⟨rfl, rfl, by rw [hl2, hl1]⟩⟩

/-- json_tokener_parse_ex, state object_value_add: same for json_object_object_add (a repeated member
name replaces — and releases — the earlier value) -/
theorem tokAttachObject_spec (g : Oracle) (h : Heap) (hwf : WF h) (b : Blk) (lh : LhA)
    (ms : List (Bytes × Option Blk × Node)) (key : Bytes) (child : Node)
    (htab : lh.table ∈ h.live) (hok : LhOK lh) (hms : OwnedIn h (ownedMembers ms)) (hc : OwnedIn h (owned child)) :
    Post (tokAttachObject (.obj b lh ms) key child) g h (fun r h' => WF h' ∧ h.next ≤ h'.next ∧
      ((r.2 = false ∧ ((∃ i, findKey key ms = some i ∧ r.1 = .obj b lh (setMemberVal ms i child) ∧
              h'.live = h.live.filter (keep (owned (memberVal ms i)))) ∨
           (findKey key ms = none ∧ ObjAdded h b lh ms key child false r.1 h'))) ∨
       (r.2 = true ∧ r.1 = .obj b lh ms ∧ h'.live = h.live.filter (keep (owned child))))) := by
  obtain ⟨_, _, _, _, hput, _⟩ := shape_facts
  unfold tokAttachObject
  apply Post.seq (objectAddEx_spec g h hwf b lh ms key child false false htab hok
    (fun i _ hf => ownedIn_memberVal hms i (findKey_lt hf)))
  rintro ⟨c1, rc⟩ h1 ⟨hwf1, hn1, hcase⟩
  rcases hcase with ⟨hrc, i, _, hf, hc1, hl1, _⟩ | ⟨hrc, hnone, hadd⟩ | ⟨hrc, hc1, hl1, _⟩
  · simp only at hrc hc1 hl1
    subst hrc; subst hc1
    dsimp only
    rw [if_neg (by decide)]
    apply Post.pure
    exact ⟨hwf1, hn1, Or.inl ⟨rfl, Or.inl ⟨i, hf, rfl, hl1⟩⟩⟩
  · simp only at hrc hadd
    subst hrc
    dsimp only
    rw [if_neg (by decide)]
    apply Post.pure
    refine ⟨hwf1, hn1, Or.inl ⟨rfl, Or.inr ⟨?_, hadd⟩⟩⟩
    rcases hnone with hn | hn
    · cases hn
    · exact hn
  · simp only at hrc hc1 hl1
    subst hrc; subst hc1
    dsimp only
    rw [if_pos (by decide), hput]
    simp only [↓reduceIte]
    apply Post.bind
    apply Post.mono (putNode_spec child g h1 hwf1 ⟨hc.1, fun x hx => by rw [hl1]; exact hc.2 x hx⟩)
    rintro _ h2 ⟨hwf2, hn2, _, hl2⟩
    apply Post.pure
    exact ⟨hwf2, by omega, Or.inr ⟨rfl, rfl, by rw [hl2, hl1]⟩⟩

end JsonC.Alloc
