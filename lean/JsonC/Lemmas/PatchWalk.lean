/-
  Helper lemmas for C13, part 2: the value-level containers, the pointer walk
  (json_pointer_get_internal / json_pointer_set_with_array_cb: locate, then mutate through the
  pointer) against RFC 6901 evaluation (`get` / `modify`), and the operations on the parent.
-/
import JsonC.Lemmas.PatchPtr

namespace JsonC.Patch
open JsonC

/-! ### containers -/

theorem objLookup_eq (k : Bytes) (kvs : List (Bytes × JVal)) : objLookup k kvs = Rfc6902.lookup k kvs := by
  induction kvs with
  | nil => rfl
  | cons p r ih => obtain ⟨k', v⟩ := p; simp only [objLookup, Rfc6902.lookup, ih]

theorem objSetVal_eq (k : Bytes) (v : JVal) (kvs : List (Bytes × JVal)) :
    objSetVal k v kvs = Rfc6902.setMember k v kvs := by
  induction kvs with
  | nil => rfl
  | cons p r ih => obtain ⟨k', v'⟩ := p; simp only [objSetVal, Rfc6902.setMember, ih]

theorem objDel_eq (k : Bytes) (kvs : List (Bytes × JVal)) : objDel k kvs = Rfc6902.eraseMember k kvs := by
  induction kvs with
  | nil => rfl
  | cons p r ih => obtain ⟨k', v'⟩ := p; simp only [objDel, Rfc6902.eraseMember, ih]

theorem objAdd_eq (kvs : List (Bytes × JVal)) (k : Bytes) (v : JVal) :
    objAdd kvs k v = Rfc6902.putMember kvs k v := by
  simp only [objAdd, Rfc6902.putMember, objLookup_eq, objSetVal_eq]; rfl

theorem arrInsertIdx_eq (xs : List JVal) (i : Nat) (v : JVal) (h : i ≤ xs.length) :
    arrInsertIdx xs i v = Rfc6902.insertAt xs i v := by
  unfold arrInsertIdx Rfc6902.insertAt
  by_cases hi : i ≥ xs.length
  · have : i = xs.length := by omega
    subst this
    simp [arrPutIdx]
  · rw [if_neg hi]

theorem arrPutIdx_lt (xs : List JVal) (i : Nat) (v : JVal) (h : i < xs.length) : arrPutIdx xs i v = xs.set i v := by
  simp [arrPutIdx, h]

/-! ### arrays shorter than 2^32 -/

mutual
  /-- every array inside the value has fewer than 2^32 elements -/
  def small : JVal → Bool
    | .arr xs => decide (xs.length < UINT32_MOD) && smallList xs
    | .obj kvs => smallMembers kvs
    | _ => true
  def smallList : List JVal → Bool
    | [] => true
    | x :: xs => small x && smallList xs
  def smallMembers : List (Bytes × JVal) → Bool
    | [] => true
    | (_, v) :: r => small v && smallMembers r
end

theorem smallList_get (xs : List JVal) : ∀ (i : Nat) (c : JVal), smallList xs = true → xs[i]? = some c → small c = true := by
  induction xs with
  | nil => intro i c _ h; simp at h
  | cons x xs ih =>
    intro i c hs h
    simp only [smallList, Bool.and_eq_true] at hs
    cases i with
    | zero => simp at h; subst h; exact hs.1
    | succ j => simp at h; exact ih j c hs.2 h

theorem smallList_set (xs : List JVal) : ∀ (i : Nat) (c : JVal), smallList xs = true → small c = true →
    smallList (xs.set i c) = true := by
  induction xs with
  | nil => intro i c _ _; rfl
  | cons x xs ih =>
    intro i c hs hc
    simp only [smallList, Bool.and_eq_true] at hs
    cases i with
    | zero => simp [smallList, hs.2, hc]
    | succ j => simp [smallList, hs.1, ih j c hs.2 hc]

theorem smallList_eraseIdx (xs : List JVal) : ∀ (i : Nat), smallList xs = true → smallList (xs.eraseIdx i) = true := by
  induction xs with
  | nil => intro i _; rfl
  | cons x xs ih =>
    intro i hs
    simp only [smallList, Bool.and_eq_true] at hs
    cases i with
    | zero => simpa using hs.2
    | succ j => simp [smallList, hs.1, ih j hs.2]

theorem smallMembers_lookup (kvs : List (Bytes × JVal)) : ∀ (k : Bytes) (c : JVal), smallMembers kvs = true →
    Rfc6902.lookup k kvs = some c → small c = true := by
  induction kvs with
  | nil => intro k c _ h; simp [Rfc6902.lookup] at h
  | cons p r ih =>
    obtain ⟨k', v⟩ := p
    intro k c hs h
    simp only [smallMembers, Bool.and_eq_true] at hs
    simp only [Rfc6902.lookup] at h
    split at h
    · cases h; exact hs.1
    · exact ih k c hs.2 h

theorem smallMembers_set (kvs : List (Bytes × JVal)) : ∀ (k : Bytes) (c : JVal), smallMembers kvs = true →
    small c = true → smallMembers (Rfc6902.setMember k c kvs) = true := by
  induction kvs with
  | nil => intro k c _ _; rfl
  | cons p r ih =>
    obtain ⟨k', v⟩ := p
    intro k c hs hc
    simp only [smallMembers, Bool.and_eq_true] at hs
    simp only [Rfc6902.setMember]
    split
    · simp [smallMembers, hc, hs.2]
    · simp [smallMembers, hs.1, ih k c hs.2 hc]

theorem smallMembers_erase (kvs : List (Bytes × JVal)) : ∀ (k : Bytes), smallMembers kvs = true →
    smallMembers (Rfc6902.eraseMember k kvs) = true := by
  induction kvs with
  | nil => intro k _; rfl
  | cons p r ih =>
    obtain ⟨k', v⟩ := p
    intro k hs
    simp only [smallMembers, Bool.and_eq_true] at hs
    simp only [Rfc6902.eraseMember]
    split
    · exact hs.2
    · simp [smallMembers, hs.1, ih k hs.2]

theorem small_arr (xs : List JVal) (h : small (.arr xs) = true) : xs.length < UINT32_MOD ∧ smallList xs = true := by
  simpa [small] using h

theorem small_child (v : JVal) (t : Rfc6902.Token) (c : JVal) (hs : small v = true)
    (h : Rfc6902.child v t = some c) : small c = true := by
  cases v with
  | arr xs =>
    simp only [Rfc6902.child] at h
    split at h
    · exact smallList_get xs _ c (small_arr xs hs).2 h
    · simp at h
  | obj kvs => exact smallMembers_lookup kvs t c (by simpa [small] using hs) h
  | _ => simp [Rfc6902.child] at h

theorem uint32_le_ullong : UINT32_MOD ≤ ULLONG_MAX := by decide

/-! ### one step -/

/-- a step returned by json_pointer_get_single_path, read in RFC terms -/
def StepFor (v : JVal) (tok : Rfc6902.Token) (c : JVal) : Step → Prop
  | .idx i => ∃ xs, v = .arr xs ∧ Rfc6902.arrayIndex tok = some i ∧ xs[i]? = some c ∧ i < xs.length
  | .key k => ∃ kvs, v = .obj kvs ∧ k = tok ∧ Rfc6902.lookup tok kvs = some c

theorem getSingle_ok (v : JVal) (raw tok : Bytes) (hu : Rfc6902.unescape raw = some tok) (hs : small v = true)
    (c : JVal) (s : Step) (h : getSingle v raw = .ok (c, s)) :
    Rfc6902.child v tok = some c ∧ StepFor v tok c s ∧ (∀ i, s = .idx i → isValidIndex raw = some i) := by
  cases v with
  | arr xs =>
    have hlen := (small_arr xs hs).1
    simp only [getSingle, isValidIndex_eq, ← arrayIndex_unescape raw tok hu] at h
    simp only [Rfc6902.child, isValidIndex_eq, ← arrayIndex_unescape raw tok hu]
    cases hai : Rfc6902.arrayIndex tok with
    | none => rw [hai] at h; simp at h
    | some n =>
      rw [hai] at h
      simp only [Option.map_some] at h ⊢
      by_cases hn : n ≤ ULLONG_MAX
      · rw [Nat.min_eq_left hn] at h ⊢
        cases hx : xs[n]? with
        | none => rw [hx] at h; simp at h
        | some c0 =>
          rw [hx] at h
          simp only [Except.ok.injEq, Prod.mk.injEq] at h
          obtain ⟨rfl, rfl⟩ := h
          have hlt : n < xs.length := by
            rcases List.getElem?_eq_some_iff.mp hx with ⟨h', _⟩; exact h'
          exact ⟨rfl, ⟨xs, rfl, hai, hx, hlt⟩, fun i hi => by cases hi; rfl⟩
      · have hM : min n ULLONG_MAX = ULLONG_MAX := Nat.min_eq_right (by omega)
        have h32 := uint32_le_ullong
        rw [hM] at h
        have h1 : xs[ULLONG_MAX]? = none := List.getElem?_eq_none (by omega)
        rw [h1] at h; simp at h
  | obj kvs =>
    simp only [getSingle, unescapeC_of_unescape raw tok hu, objLookup_eq] at h
    simp only [Rfc6902.child]
    cases hl : Rfc6902.lookup tok kvs with
    | none => rw [hl] at h; simp at h
    | some c0 =>
      rw [hl] at h
      simp only [Except.ok.injEq, Prod.mk.injEq] at h
      obtain ⟨rfl, rfl⟩ := h
      exact ⟨rfl, ⟨kvs, rfl, rfl, hl⟩, fun i hi => by cases hi⟩
  | null => simp [getSingle] at h
  | bool b => simp [getSingle] at h
  | int s n => simp [getSingle] at h
  | dbl b t => simp [getSingle] at h
  | str s => simp [getSingle] at h

theorem getSingle_err (v : JVal) (raw tok : Bytes) (hu : Rfc6902.unescape raw = some tok) (hs : small v = true)
    (e : PErr) (h : getSingle v raw = .error e) : Rfc6902.child v tok = none := by
  cases v with
  | arr xs =>
    have hlen := (small_arr xs hs).1
    simp only [getSingle, isValidIndex_eq, ← arrayIndex_unescape raw tok hu] at h
    simp only [Rfc6902.child]
    cases hai : Rfc6902.arrayIndex tok with
    | none => rfl
    | some n =>
      rw [hai] at h
      simp only [Option.map_some] at h ⊢
      by_cases hn : n ≤ ULLONG_MAX
      · rw [Nat.min_eq_left hn] at h
        cases hx : xs[n]? with
        | none => rfl
        | some c0 => rw [hx] at h; simp at h
      · have h32 := uint32_le_ullong
        exact List.getElem?_eq_none (by omega)
  | obj kvs =>
    simp only [getSingle, unescapeC_of_unescape raw tok hu, objLookup_eq] at h
    simp only [Rfc6902.child]
    cases hl : Rfc6902.lookup tok kvs with
    | none => rfl
    | some c0 => rw [hl] at h; simp at h
  | null => rfl
  | bool b => rfl
  | int s n => rfl
  | dbl b t => rfl
  | str s => rfl

/-! ### the walk -/

/-- a C result and the specification's answer say the same -/
def Agree {α : Type} : R α → Option α → Prop
  | .ok a, some b => a = b
  | .err _, none => True
  | _, _ => False

theorem agree_map {α : Type} (x : R α) (y : Option α) (g : α → α) (h : Agree x y) : Agree (x.map' g) (y.map g) := by
  cases x <;> cases y <;> simp_all [Agree, R.map']

theorem walk_cons_ok (v : JVal) (raw : Bytes) (raws : List Bytes) (loc : List Step) (p : JVal)
    (h : walk v (raw :: raws) = .ok (loc, p)) :
    ∃ c s loc', getSingle v raw = .ok (c, s) ∧ walk c raws = .ok (loc', p) ∧ loc = s :: loc' := by
  simp only [walk] at h
  cases hg : getSingle v raw with
  | error e => rw [hg] at h; simp at h
  | ok cs =>
    obtain ⟨c, s⟩ := cs
    rw [hg] at h
    simp only at h
    cases hw : walk c raws with
    | error e => rw [hw] at h; simp at h
    | ok lp =>
      obtain ⟨loc', p'⟩ := lp
      rw [hw] at h
      simp only [Except.ok.injEq, Prod.mk.injEq] at h
      obtain ⟨rfl, rfl⟩ := h
      exact ⟨c, s, loc', rfl, hw, rfl⟩

theorem walk_cons_err (v : JVal) (raw : Bytes) (raws : List Bytes) (e : PErr)
    (h : walk v (raw :: raws) = .error e) :
    getSingle v raw = .error e ∨ ∃ c s, getSingle v raw = .ok (c, s) ∧ walk c raws = .error e := by
  simp only [walk] at h
  cases hg : getSingle v raw with
  | error e' => rw [hg] at h; simp at h; left; rw [h]
  | ok cs =>
    obtain ⟨c, s⟩ := cs
    rw [hg] at h
    simp only at h
    cases hw : walk c raws with
    | error e' => rw [hw] at h; simp at h; right; exact ⟨c, s, rfl, by rw [hw, h]⟩
    | ok lp => rw [hw] at h; simp at h

/-- Locating a node with the C walk and then mutating it in place is RFC 6901 evaluation followed
by a functional update. -/
theorem walk_ok (raws : List Bytes) : ∀ (v : JVal) (toks : Rfc6902.Pointer) (loc : List Step) (p : JVal),
    Rfc6902.unescapeAll raws = some toks → small v = true → walk v raws = .ok (loc, p) →
    Rfc6902.get v toks = some p ∧ small p = true ∧
      ∀ (f : JVal → R JVal) (f' : JVal → Option JVal), Agree (f p) (f' p) →
        Agree (updateAt v loc f) (Rfc6902.modify v toks f') := by
  induction raws with
  | nil =>
    intro v toks loc p hu hs hw
    rw [unescapeAll_nil toks hu]
    simp only [walk, Except.ok.injEq, Prod.mk.injEq] at hw
    obtain ⟨rfl, rfl⟩ := hw
    simp only [Rfc6902.get, Rfc6902.modify, updateAt]
    exact ⟨trivial, hs, fun f f' h => h⟩
  | cons raw raws ih =>
    intro v toks loc p hu hs hw
    obtain ⟨tok, toks', rfl, hu1, hu2⟩ := unescapeAll_cons raw raws toks hu
    obtain ⟨c, s, loc', hg, hw', rfl⟩ := walk_cons_ok v raw raws loc p hw
    obtain ⟨hc, hstep, _⟩ := getSingle_ok v raw tok hu1 hs c s hg
    have hsc := small_child v tok c hs hc
    obtain ⟨hget, hsp, hupd⟩ := ih c toks' loc' p hu2 hsc hw'
    refine ⟨by simp only [Rfc6902.get, hc, hget], hsp, ?_⟩
    intro f f' hff
    have hrec := hupd f f' hff
    cases s with
    | idx i =>
      obtain ⟨xs, rfl, hai, hx, _⟩ := hstep
      simp only [updateAt, hx, Rfc6902.modify, hc]
      have := agree_map _ _ (fun c' => JVal.arr (xs.set i c')) hrec
      cases hm : Rfc6902.modify c toks' f' with
      | none => rw [hm] at this; simpa using this
      | some c' => rw [hm] at this; simpa [Rfc6902.setChild, hai] using this
    | key k =>
      obtain ⟨kvs, rfl, rfl, hl⟩ := hstep
      simp only [updateAt, objLookup_eq, hl, Rfc6902.modify, hc]
      have := agree_map _ _ (fun c' => JVal.obj (objSetVal k c' kvs)) hrec
      cases hm : Rfc6902.modify c toks' f' with
      | none => rw [hm] at this; simpa using this
      | some c' => rw [hm] at this; simpa [Rfc6902.setChild, objSetVal_eq] using this

/-- a failed walk means the pointer references nothing -/
theorem walk_err (raws : List Bytes) : ∀ (v : JVal) (toks : Rfc6902.Pointer) (e : PErr),
    Rfc6902.unescapeAll raws = some toks → small v = true → walk v raws = .error e →
    Rfc6902.get v toks = none ∧ ∀ f', Rfc6902.modify v toks f' = none := by
  induction raws with
  | nil => intro v toks e _ _ hw; simp [walk] at hw
  | cons raw raws ih =>
    intro v toks e hu hs hw
    obtain ⟨tok, toks', rfl, hu1, hu2⟩ := unescapeAll_cons raw raws toks hu
    rcases walk_cons_err v raw raws e hw with hg | ⟨c, s, hg, hw'⟩
    · have hc := getSingle_err v raw tok hu1 hs e hg
      simp only [Rfc6902.get, Rfc6902.modify, hc]
      exact ⟨trivial, fun _ => trivial⟩
    · obtain ⟨hc, _, _⟩ := getSingle_ok v raw tok hu1 hs c s hg
      have hsc := small_child v tok c hs hc
      obtain ⟨h1, h2⟩ := ih c toks' e hu2 hsc hw'
      simp only [Rfc6902.get, Rfc6902.modify, hc, h1, h2]
      exact ⟨trivial, fun _ => trivial⟩

theorem getSingle_step (v c : JVal) (raw : Bytes) (s : Step) (h : getSingle v raw = .ok (c, s)) :
    (∃ xs i, v = .arr xs ∧ s = .idx i ∧ xs[i]? = some c) ∨
    (∃ kvs k, v = .obj kvs ∧ s = .key k ∧ objLookup k kvs = some c) := by
  cases v with
  | arr xs =>
    simp only [getSingle] at h
    split at h
    · simp at h
    · rename_i i hi
      split at h
      · rename_i c0 hx
        simp only [Except.ok.injEq, Prod.mk.injEq] at h
        obtain ⟨rfl, rfl⟩ := h
        exact Or.inl ⟨xs, i, rfl, rfl, hx⟩
      · simp at h
  | obj kvs =>
    simp only [getSingle] at h
    split at h
    · rename_i c0 hl
      simp only [Except.ok.injEq, Prod.mk.injEq] at h
      obtain ⟨rfl, rfl⟩ := h
      exact Or.inr ⟨kvs, _, rfl, rfl, hl⟩
    · simp at h
  | null => simp [getSingle] at h
  | bool b => simp [getSingle] at h
  | int s n => simp [getSingle] at h
  | dbl b t => simp [getSingle] at h
  | str s => simp [getSingle] at h

/-- mutation through a pointer obtained by the walk never finds the pointer dangling -/
theorem updateAt_walk_nofault (raws : List Bytes) : ∀ (v : JVal) (loc : List Step) (p : JVal),
    walk v raws = .ok (loc, p) → ∀ (f : JVal → R JVal), (∀ w, f p ≠ .fault w) → ∀ w, updateAt v loc f ≠ .fault w := by
  induction raws with
  | nil =>
    intro v loc p h f hf w
    simp only [walk, Except.ok.injEq, Prod.mk.injEq] at h
    obtain ⟨rfl, rfl⟩ := h
    simpa [updateAt] using hf w
  | cons raw raws ih =>
    intro v loc p h f hf w
    obtain ⟨c, s, loc', hg, hw, rfl⟩ := walk_cons_ok v raw raws loc p h
    have hrec := ih c loc' p hw f hf
    rcases getSingle_step v c raw s hg with ⟨xs, i, rfl, rfl, hx⟩ | ⟨kvs, k, rfl, rfl, hl⟩
    · simp only [updateAt, hx]
      cases hu : updateAt c loc' f with
      | ok a => simp [R.map']
      | err e => simp [R.map']
      | fault w' => exact absurd hu (hrec w')
    · simp only [updateAt, hl]
      cases hu : updateAt c loc' f with
      | ok a => simp [R.map']
      | err e => simp [R.map']
      | fault w' => exact absurd hu (hrec w')

/-- ... and applies `f` to exactly the node the walk reached -/
theorem updateAt_walk_congr (raws : List Bytes) : ∀ (v : JVal) (loc : List Step) (p : JVal),
    walk v raws = .ok (loc, p) → ∀ (f g : JVal → R JVal), f p = g p → updateAt v loc f = updateAt v loc g := by
  induction raws with
  | nil =>
    intro v loc p h f g hfg
    simp only [walk, Except.ok.injEq, Prod.mk.injEq] at h
    obtain ⟨rfl, rfl⟩ := h
    simpa [updateAt] using hfg
  | cons raw raws ih =>
    intro v loc p h f g hfg
    obtain ⟨c, s, loc', hg, hw, rfl⟩ := walk_cons_ok v raw raws loc p h
    have hrec := ih c loc' p hw f g hfg
    rcases getSingle_step v c raw s hg with ⟨xs, i, rfl, rfl, hx⟩ | ⟨kvs, k, rfl, rfl, hl⟩
    · simp only [updateAt, hx, hrec]
    · simp only [updateAt, hl, hrec]

end JsonC.Patch
