/-
  C02 helper lemmas, part 10: what the round trip needs of `docOf`: its nesting is the tree's, its
  integers fit 64 bits, its member names are NUL-free, and serializing what it denotes gives the
  same bytes as serializing the tree.
-/
import JsonC.Lemmas.SerializeNoNul

namespace JsonC.Serialize
open JsonC Generated SerSpec Rfc8259

variable (fmt : UInt64 → Bytes)

/-! ### trailing whitespace does not matter (nest / intsFit / keysNulFree) -/

theorem setLastElem_cons2 (w : Ws) (e e' : Ws × Doc × Ws) (r : List (Ws × Doc × Ws)) :
    setLastElem w (e :: e' :: r) = e :: setLastElem w (e' :: r) := by
  obtain ⟨w1, d, w2⟩ := e; obtain ⟨w1', d', w2'⟩ := e'; rfl

theorem setLastMember_cons2 (w : Ws) (m m' : Ws × List StrItem × Ws × Ws × Doc × Ws)
    (r : List (Ws × List StrItem × Ws × Ws × Doc × Ws)) :
    setLastMember w (m :: m' :: r) = m :: setLastMember w (m' :: r) := by
  obtain ⟨w1, k, w2, w3, d, w4⟩ := m; obtain ⟨w1', k', w2', w3', d', w4'⟩ := m'; rfl

theorem setLastElem_nest : ∀ (es : List (Ws × Doc × Ws)) (w : Ws), elemsNest (setLastElem w es) = elemsNest es := by
  intro es
  induction es with
  | nil => intro w; rfl
  | cons e r ih =>
    intro w
    cases r with
    | nil => obtain ⟨w1, d, w2⟩ := e; simp [setLastElem, elemsNest]
    | cons e' r' =>
      rw [setLastElem_cons2]; obtain ⟨w1, d, w2⟩ := e
      rw [elemsNest, ih w]; simp [elemsNest]

theorem setLastMember_nest : ∀ (ms : List (Ws × List StrItem × Ws × Ws × Doc × Ws)) (w : Ws),
    membersNest (setLastMember w ms) = membersNest ms := by
  intro ms
  induction ms with
  | nil => intro w; rfl
  | cons m r ih =>
    intro w
    cases r with
    | nil => obtain ⟨w1, k, w2, w3, d, w4⟩ := m; simp [setLastMember, membersNest]
    | cons m' r' =>
      rw [setLastMember_cons2]; obtain ⟨w1, k, w2, w3, d, w4⟩ := m
      rw [membersNest, ih w]; simp [membersNest]

theorem setLastElem_fit : ∀ (es : List (Ws × Doc × Ws)) (w : Ws), elemsFit (setLastElem w es) = elemsFit es := by
  intro es
  induction es with
  | nil => intro w; rfl
  | cons e r ih =>
    intro w
    cases r with
    | nil => obtain ⟨w1, d, w2⟩ := e; simp [setLastElem, elemsFit]
    | cons e' r' =>
      rw [setLastElem_cons2]; obtain ⟨w1, d, w2⟩ := e
      rw [elemsFit, ih w]; simp [elemsFit]

theorem setLastMember_fit : ∀ (ms : List (Ws × List StrItem × Ws × Ws × Doc × Ws)) (w : Ws),
    membersFit (setLastMember w ms) = membersFit ms := by
  intro ms
  induction ms with
  | nil => intro w; rfl
  | cons m r ih =>
    intro w
    cases r with
    | nil => obtain ⟨w1, k, w2, w3, d, w4⟩ := m; simp [setLastMember, membersFit]
    | cons m' r' =>
      rw [setLastMember_cons2]; obtain ⟨w1, k, w2, w3, d, w4⟩ := m
      rw [membersFit, ih w]; simp [membersFit]

theorem setLastElem_knf : ∀ (es : List (Ws × Doc × Ws)) (w : Ws), elemsKNF (setLastElem w es) = elemsKNF es := by
  intro es
  induction es with
  | nil => intro w; rfl
  | cons e r ih =>
    intro w
    cases r with
    | nil => obtain ⟨w1, d, w2⟩ := e; simp [setLastElem, elemsKNF]
    | cons e' r' =>
      rw [setLastElem_cons2]; obtain ⟨w1, d, w2⟩ := e
      rw [elemsKNF, ih w]; simp [elemsKNF]

theorem setLastMember_knf : ∀ (ms : List (Ws × List StrItem × Ws × Ws × Doc × Ws)) (w : Ws),
    membersKNF (setLastMember w ms) = membersKNF ms := by
  intro ms
  induction ms with
  | nil => intro w; rfl
  | cons m r ih =>
    intro w
    cases r with
    | nil => obtain ⟨w1, k, w2, w3, d, w4⟩ := m; simp [setLastMember, membersKNF]
    | cons m' r' =>
      rw [setLastMember_cons2]; obtain ⟨w1, k, w2, w3, d, w4⟩ := m
      rw [membersKNF, ih w]; simp [membersKNF]

theorem numOfInt_fits (v : Int) (h : INT64_MIN ≤ v ∧ v ≤ UINT64_MAX) : (numOfInt v).fits64 = true := by
  unfold Num.fits64 numOfInt
  simp only [natOfDigits_natDigs]
  unfold INT64_MIN UINT64_MAX at h
  by_cases hv : v < 0
  · simp only [hv, decide_true, if_true, decide_eq_true_eq]; unfold INT64_MIN; omega
  · simp only [hv, decide_false, Bool.false_eq_true, if_false, decide_eq_true_eq]; unfold UINT64_MAX; omega

theorem dbl_fits {n : Num} (h : (n.frac.isSome || n.exp.isSome) = true) : n.fits64 = true := by
  unfold Num.fits64
  cases hf : n.frac <;> cases he : n.exp <;> simp [hf, he] at h ⊢

/-- nesting, 64-bit integers and NUL-free names of the document `docOf` -/
theorem shape_all :
    (∀ v, ∀ (f : Fl) (level : Nat) (d : Doc), treeOk fmt v = true → docOf fmt f level v = some d →
      d.nest = nest v ∧ d.intsFit = true ∧ d.keysNulFree = true) ∧
    (∀ xs, ∀ (f : Fl) (level : Nat) (es : List (Ws × Doc × Ws)), treeOkList fmt xs = true → elemsOf fmt f level xs = some es →
      elemsNest es = nestList xs ∧ elemsFit es = true ∧ elemsKNF es = true) ∧
    (∀ kvs, ∀ (f : Fl) (level : Nat) (ms : List (Ws × List StrItem × Ws × Ws × Doc × Ws)), treeOkMembers fmt kvs = true →
      membersOf fmt f level kvs = some ms →
      membersNest ms = nestMembers kvs ∧ membersFit ms = true ∧ membersKNF ms = true) := by
  refine tree_ind ?_ ?_ ?_ ?_ ?_ ?_ ?_ ?_ ?_ ?_ ?_
  · intro f level d _ hd; simp [docOf] at hd; subst hd; exact ⟨rfl, rfl, rfl⟩
  · intro b f level d _ hd; simp [docOf] at hd; subst hd; cases b <;> exact ⟨rfl, rfl, rfl⟩
  · intro s v f level d hok hd
    simp [docOf] at hd; subst hd
    have hr : INT64_MIN ≤ v ∧ v ≤ UINT64_MAX := by
      cases s
      · simp only [treeOk, Bool.and_eq_true, decide_eq_true_eq] at hok
        unfold INT64_MIN; unfold UINT64_MAX at hok ⊢; omega
      · simp only [treeOk, Bool.and_eq_true, decide_eq_true_eq] at hok
        unfold INT64_MIN INT64_MAX at hok; unfold INT64_MIN UINT64_MAX; omega
    exact ⟨rfl, numOfInt_fits v hr, rfl⟩
  · intro bits t f level d hok hd
    cases t with
    | none =>
      simp only [treeOk, Bool.and_eq_true, Bool.not_eq_true'] at hok
      obtain ⟨⟨hnan, hinf⟩, hshape⟩ := hok
      obtain ⟨n', hn', _, hfe, _⟩ := doublePost_shape false (fmt bits) hshape
      simp [docOf, hnan, hinf, hn'] at hd; subst hd
      exact ⟨rfl, dbl_fits hfe, rfl⟩
    | some t =>
      simp only [treeOk, Bool.and_eq_true] at hok
      cases hdt : dblTokenOfText t with
      | none => simp [hdt] at hok
      | some n =>
        obtain ⟨_, hfe⟩ := dblToken_some hdt
        simp [docOf, hdt] at hd; subst hd
        exact ⟨rfl, dbl_fits hfe, rfl⟩
  · intro s f level d _ hd; simp [docOf] at hd; subst hd; exact ⟨rfl, rfl, rfl⟩
  · intro xs ih f level d hok hd
    simp only [treeOk] at hok
    cases hes : elemsOf fmt f (level + 1) xs with
    | none => simp [docOf, hes] at hd
    | some es =>
      simp [docOf, hes] at hd; subst hd
      obtain ⟨a, b, c⟩ := ih f (level + 1) es hok hes
      simp only [Doc.nest, Doc.intsFit, Doc.keysNulFree, setLastElem_nest, setLastElem_fit, setLastElem_knf, nest]
      exact ⟨a, b, c⟩
  · intro kvs ih f level d hok hd
    simp only [treeOk, Bool.and_eq_true] at hok
    cases hms : membersOf fmt f (level + 1) kvs with
    | none => simp [docOf, hms] at hd
    | some ms =>
      simp [docOf, hms] at hd; subst hd
      obtain ⟨a, b, c⟩ := ih f (level + 1) ms hok.1 hms
      simp only [Doc.nest, Doc.intsFit, Doc.keysNulFree, setLastMember_nest, setLastMember_fit, setLastMember_knf, nest]
      exact ⟨a, b, c⟩
  · intro f level es _ hes; simp [elemsOf] at hes; subst hes; exact ⟨rfl, rfl, rfl⟩
  · intro x xs ihx ihxs f level es hok hes
    simp only [treeOkList, Bool.and_eq_true] at hok
    cases hd : docOf fmt f level x with
    | none => simp [elemsOf, hd] at hes
    | some d =>
      cases hr : elemsOf fmt f level xs with
      | none => simp [elemsOf, hd, hr] at hes
      | some r =>
        simp [elemsOf, hd, hr] at hes; subst hes
        obtain ⟨a, b, c⟩ := ihx f level d hok.1 hd
        obtain ⟨a', b', c'⟩ := ihxs f level r hok.2 hr
        simp only [elemsNest, elemsFit, elemsKNF, nestList, a, a', b, b', c, c', Bool.and_self, and_self]
  · intro f level ms _ hms; simp [membersOf] at hms; subst hms; exact ⟨rfl, rfl, rfl⟩
  · intro k x kvs ihx ihkvs f level ms hok hms
    simp only [treeOkMembers, Bool.and_eq_true] at hok
    cases hd : docOf fmt f level x with
    | none => simp [membersOf, hd] at hms
    | some d =>
      cases hr : membersOf fmt f level kvs with
      | none => simp [membersOf, hd, hr] at hms
      | some r =>
        simp [membersOf, hd, hr] at hms; subst hms
        obtain ⟨a, b, c⟩ := ihx f level d hok.1.2 hd
        obtain ⟨a', b', c'⟩ := ihkvs f level r hok.2 hr
        have hk : (decodeItems (itemsOf f.noSlash k)).contains 0 = false := by
          rw [decodeItems_itemsOf]
          have := hok.1.1
          simpa [nulFree] using this
        simp only [membersNest, membersFit, membersKNF, nestMembers, a, a', b, b', c, c', hk, Bool.not_false, Bool.and_self, and_self]

/-! ### re-serialization of the denoted tree -/

theorem ckInt_inv {x l : Nat} {site : String} (h : ckInt x site = .ok l) : l = x := by
  unfold ckInt at h; split at h <;> cases h; rfl

theorem pairsOf_cons (w1 : Ws) (k : List StrItem) (w2 w3 : Ws) (d : Doc) (w4 : Ws)
    (r : List (Ws × List StrItem × Ws × Ws × Doc × Ws)) :
    pairsOf ((w1, k, w2, w3, d, w4) :: r) = (decodeItems k, d.denote) :: pairsOf r := rfl

theorem reser_all :
    (∀ v, ∀ (f : Fl) (level : Nat) (d : Doc) (t : Bytes), treeOk fmt v = true → docOf fmt f level v = some d →
      serChild fmt f level v = .ok t → serChild fmt f level d.denote = .ok t) ∧
    (∀ xs, ∀ (f : Fl) (level : Nat) (had : Bool) (es : List (Ws × Doc × Ws)) (t : Bytes), treeOkList fmt xs = true →
      elemsOf fmt f (level + 1) xs = some es → serElems fmt f level xs had = .ok t →
      serElems fmt f level (elemsDenote es) had = .ok t ∧ (elemsDenote es).isEmpty = xs.isEmpty) ∧
    (∀ kvs, ∀ (f : Fl) (level : Nat) (had : Bool) (ms : List (Ws × List StrItem × Ws × Ws × Doc × Ws)) (t : Bytes),
      treeOkMembers fmt kvs = true → membersOf fmt f (level + 1) kvs = some ms → serMembers fmt f level kvs had = .ok t →
      serMembers fmt f level (pairsOf ms) had = .ok t ∧ (pairsOf ms).isEmpty = kvs.isEmpty ∧
      (pairsOf ms).map (·.1) = keysOf fmt kvs) := by
  refine tree_ind ?_ ?_ ?_ ?_ ?_ ?_ ?_ ?_ ?_ ?_ ?_
  · intro f level d t _ hd h; simp [docOf] at hd; subst hd; exact h
  · intro b f level d t _ hd h; simp [docOf] at hd; subst hd; cases b <;> exact h
  · intro s v f level d t hok hd h
    simp [docOf] at hd; subst hd
    have hr : INT64_MIN ≤ v ∧ v ≤ UINT64_MAX := by
      cases s
      · simp only [treeOk, Bool.and_eq_true, decide_eq_true_eq] at hok
        unfold INT64_MIN; unfold UINT64_MAX at hok ⊢; omega
      · simp only [treeOk, Bool.and_eq_true, decide_eq_true_eq] at hok
        unfold INT64_MIN INT64_MAX at hok; unfold INT64_MIN UINT64_MAX; omega
    obtain ⟨sg, hsg⟩ := numOfInt_denote v hr
    simp only [Doc.denote, hsg]
    simpa [serChild, intText] using h
  · intro bits tx f level d t hok hd h
    cases tx with
    | none =>
      simp only [treeOk, Bool.and_eq_true, Bool.not_eq_true'] at hok
      obtain ⟨⟨hnan, hinf⟩, hshape⟩ := hok
      obtain ⟨n', hn', hok', hfe, hpost⟩ := doublePost_shape f.noZero (fmt bits) hshape
      simp [docOf, hnan, hinf, hn'] at hd; subst hd
      simp only [serChild, doubleText, hnan, hinf, Bool.false_eq_true, if_false, hpost] at h
      cases h
      simp only [Doc.denote, num_denote_dbl hfe, serChild, userdataText]
      have hnul : 0 ∉ n'.text := num_text_no_nul hok'
      have e1 : n'.text.takeWhile (· != 0) = n'.text := by
        apply takeWhile_all; intro x hx
        simp only [bne_iff_ne, ne_eq]; intro e; subst e; exact hnul hx
      -- the text is shorter than the 128-byte buffer it came from
      have hlen : n'.text.length ≤ intMax := by
        have hg := hshape
        unfold g17Shape at hg
        unfold numOfG17 at hn'
        simp only [hshape, if_true] at hn'
        cases hnt : numOfText (fmt bits) with
        | none => simp [hnt] at hn'
        | some n =>
          simp only [hnt, Bool.and_eq_true, decide_eq_true_eq] at hg
          obtain ⟨_, htx⟩ := numOfText_some hnt
          simp only [hnt, Option.map_some, Option.some.injEq] at hn'
          have h128 : serDblBuf = 128 := rfl
          have hmax : intMax = 2147483647 := rfl
          have hl := hg.1.1
          rw [← htx] at hl
          subst hn'
          split
          · rename_i hc
            simp only [Bool.and_eq_true, Option.isNone_iff_eq_none] at hc
            rw [Num.text_parts] at hl ⊢
            simp only [hc.1, hc.2, fracText, expText, List.append_nil, List.length_append, List.length_cons,
              List.length_nil, digitsText, List.length_map] at hl ⊢
            omega
          · omega
      rw [e1]
      have : ckInt n'.text.length "userdata_to_json_string: int userdata_len = strlen(..)" = .ok n'.text.length := by
        unfold ckInt; rw [if_pos hlen]
      simp [this]
    | some tx =>
      simp only [treeOk, Bool.and_eq_true] at hok
      cases hdt : dblTokenOfText tx with
      | none => simp [hdt] at hok
      | some n =>
        obtain ⟨hn, hfe⟩ := dblToken_some hdt
        obtain ⟨_, htext⟩ := numOfText_some hn
        simp [docOf, hdt] at hd; subst hd
        simp only [Doc.denote, num_denote_dbl hfe, htext]
        simpa [serChild] using h
  · intro s f level d t _ hd h
    simp [docOf] at hd; subst hd
    simpa [Doc.denote, decodeItems_itemsOf] using h
  · intro xs ih f level d t hok hd h
    simp only [treeOk] at hok
    cases hes : elemsOf fmt f (level + 1) xs with
    | none => simp [docOf, hes] at hd
    | some es =>
      simp [docOf, hes] at hd; subst hd
      simp only [serChild] at h
      obtain ⟨body, hb, h⟩ := bind_ok_inv h
      obtain ⟨e1, e2⟩ := ih f level false es body hok hes hb
      simp only [Doc.denote, setLastElem_denote, serChild, e1, Outcome.bind_ok, e2]
      exact h
  · intro kvs ih f level d t hok hd h
    simp only [treeOk, Bool.and_eq_true] at hok
    cases hms : membersOf fmt f (level + 1) kvs with
    | none => simp [docOf, hms] at hd
    | some ms =>
      simp [docOf, hms] at hd; subst hd
      simp only [serChild] at h
      obtain ⟨body, hb, h⟩ := bind_ok_inv h
      obtain ⟨e1, e2, e3⟩ := ih f level false ms body hok.1 hms hb
      have hden : membersDenote (setLastMember (closeWs f level) ms) [] = pairsOf ms := by
        rw [setLastMember_denote, membersDenote_nodup ms [] (by rw [e3]; exact hok.2) (by simp)]; simp
      simp only [Doc.denote, hden, serChild, e1, Outcome.bind_ok, e2]
      exact h
  · intro f level had es t _ hes h
    simp [elemsOf] at hes; subst hes
    exact ⟨h, rfl⟩
  · intro x xs ihx ihxs f level had es t hok hes h
    simp only [treeOkList, Bool.and_eq_true] at hok
    cases hd : docOf fmt f (level + 1) x with
    | none => simp [elemsOf, hd] at hes
    | some d =>
      cases hr : elemsOf fmt f (level + 1) xs with
      | none => simp [elemsOf, hd, hr] at hes
      | some r =>
        simp [elemsOf, hd, hr] at hes; subst hes
        simp only [serElems] at h
        obtain ⟨l1, hl1, h1⟩ := bind_ok_inv h
        obtain ⟨ind, hi, h2⟩ := bind_ok_inv h1
        obtain ⟨v, hv, h3⟩ := bind_ok_inv h2
        obtain ⟨rest, hrest, h4⟩ := bind_ok_inv h3
        have hl := ckInt_inv hl1
        rw [hl] at hi hv
        have a := ihx f (level + 1) d v hok.1 hd hv
        obtain ⟨b, _⟩ := ihxs f level true r rest hok.2 hr hrest
        refine ⟨?_, rfl⟩
        rw [hl] at hl1
        simp only [elemsDenote, serElems, hl1, hi, a, b, Outcome.bind_ok]
        exact h4
  · intro f level had ms t _ hms h
    simp [membersOf] at hms; subst hms
    exact ⟨h, rfl, rfl⟩
  · intro k x kvs ihx ihkvs f level had ms t hok hms h
    simp only [treeOkMembers, Bool.and_eq_true] at hok
    cases hd : docOf fmt f (level + 1) x with
    | none => simp [membersOf, hd] at hms
    | some d =>
      cases hr : membersOf fmt f (level + 1) kvs with
      | none => simp [membersOf, hd, hr] at hms
      | some r =>
        simp [membersOf, hd, hr] at hms; subst hms
        simp only [serMembers] at h
        obtain ⟨l1, hl1, h1⟩ := bind_ok_inv h
        obtain ⟨ind, hi, h2⟩ := bind_ok_inv h1
        obtain ⟨ke, hke, h3⟩ := bind_ok_inv h2
        obtain ⟨v, hv, h4⟩ := bind_ok_inv h3
        obtain ⟨rest, hrest, h5⟩ := bind_ok_inv h4
        have hl := ckInt_inv hl1
        rw [hl] at hi hv
        have a := ihx f (level + 1) d v hok.1.2 hd hv
        obtain ⟨b, _, c⟩ := ihkvs f level true r rest hok.2 hr hrest
        have hkk := decodeItems_itemsOf f.noSlash k
        rw [hl] at hl1
        refine ⟨?_, rfl, ?_⟩
        · simp only [pairsOf_cons, hkk, serMembers, hl1, hi, hke, a, b, Outcome.bind_ok]
          exact h5
        · simp only [pairsOf_cons, hkk, List.map_cons, keysOf, c]

/-- without COLOR a NULL `jso` and a null child print the same bytes: the whole tree is a child slot at level 0 -/
theorem serialize_eq_child (flags : Nat) (v : JVal) (hc : (Fl.ofNat flags).color = false) :
    serialize fmt flags v = serChild fmt (Fl.ofNat flags) 0 v := by
  cases v <;> try rfl
  simp [serialize, serChild, withColor, hc]

end JsonC.Serialize
