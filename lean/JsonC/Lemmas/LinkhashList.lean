/-
  Helper lemmas for C06 (never property statements): linear probing arithmetic, a pigeonhole
  lemma, and the successor / predecessor functions of a duplicate-free list (the doubly linked
  list threaded through the slots of a linkhash table).
-/
import JsonC.Model.Linkhash

namespace JsonC.Linkhash

/-! ### linear probing -/

/-- the slot visited at step `i` when starting from `home` -/
def probe (size home i : Nat) : Nat := (home + i) % size

theorem probe_lt (size home i : Nat) (h : 0 < size) : probe size home i < size := Nat.mod_lt _ h

theorem probe_zero (size home : Nat) (h : home < size) : probe size home 0 = home := by
  simp [probe, Nat.mod_eq_of_lt h]

theorem probe_inj (size home i j : Nat) (hi : i < size) (hj : j < size)
    (h : probe size home i = probe size home j) : i = j := by
  unfold probe at h
  have h1 := Nat.mod_add_div (home + i) size
  have h2 := Nat.mod_add_div (home + j) size
  rw [h] at h1
  rcases Nat.lt_trichotomy ((home + i) / size) ((home + j) / size) with hlt | heq | hgt
  · have : size * ((home + i) / size) + size ≤ size * ((home + j) / size) := by
      have := Nat.mul_le_mul_left size hlt
      simpa [Nat.mul_succ] using this
    omega
  · rw [heq] at h1; omega
  · have : size * ((home + j) / size) + size ≤ size * ((home + i) / size) := by
      have := Nat.mul_le_mul_left size hgt
      simpa [Nat.mul_succ] using this
    omega

/-- `if (++n == size) n = 0` is one step of the probe sequence -/
theorem nextIdx_probe (size home i : Nat) (h : 0 < size) :
    nextIdx size (probe size home i) = probe size home (i + 1) := by
  unfold nextIdx probe
  have hm := Nat.mod_lt (home + i) h
  have e : (home + (i + 1)) % size = ((home + i) % size + 1) % size := by
    rw [Nat.mod_add_mod]; rfl
  rw [e]
  generalize (home + i) % size = m at hm ⊢
  by_cases hc : m + 1 = size
  · rw [if_pos hc, hc, Nat.mod_self]
  · rw [if_neg hc, Nat.mod_eq_of_lt (by omega)]

/-- every slot is visited within `size` steps -/
theorem probe_surj (size home p : Nat) (hh : home < size) (hp : p < size) :
    ∃ i, i < size ∧ probe size home i = p := by
  by_cases h : home ≤ p
  · refine ⟨p - home, by omega, ?_⟩
    unfold probe
    have : home + (p - home) = p := by omega
    rw [this, Nat.mod_eq_of_lt hp]
  · refine ⟨p + size - home, by omega, ?_⟩
    unfold probe
    have : home + (p + size - home) = p + size := by omega
    rw [this, Nat.add_mod_right, Nat.mod_eq_of_lt hp]

/-! ### pigeonhole -/

theorem length_ge_of_all_mem (n : Nat) : ∀ (o : List Nat), (∀ i, i < n → i ∈ o) → n ≤ o.length := by
  induction n with
  | zero => intro o _; exact Nat.zero_le _
  | succ n ih =>
    intro o h
    have hn : n ∈ o := h n (by omega)
    have h' : ∀ i, i < n → i ∈ o.erase n := by
      intro i hi
      rw [List.mem_erase_of_ne (by omega)]
      exact h i (by omega)
    have := ih (o.erase n) h'
    rw [List.length_erase_of_mem hn] at this
    have : 0 < o.length := List.length_pos_of_mem hn
    omega

/-- a duplicate-free list of numbers below `n` that is shorter than `n` misses one of them -/
theorem exists_not_mem_of_length_lt (n : Nat) (o : List Nat) (h : o.length < n) : ∃ i, i < n ∧ i ∉ o := by
  apply Classical.byContradiction
  intro hc
  have : ∀ i, i < n → i ∈ o := by
    intro i hi
    apply Classical.byContradiction
    intro hni
    exact hc ⟨i, hi, hni⟩
  have := length_ge_of_all_mem n o this
  omega

/-! ### successor and predecessor along a duplicate-free list -/

/-- the element after `i` (none when `i` is last or absent) -/
def succOf : List Nat → Nat → Option Nat
  | [], _ => none
  | a :: rest, i => if i = a then rest.head? else succOf rest i

def predAux (p : Option Nat) : List Nat → Nat → Option Nat
  | [], _ => none
  | a :: rest, i => if i = a then p else predAux (some a) rest i

/-- the element before `i` (none when `i` is first or absent) -/
def predOf (l : List Nat) (i : Nat) : Option Nat := predAux none l i

theorem succOf_not_mem (l : List Nat) (i : Nat) (h : i ∉ l) : succOf l i = none := by
  induction l with
  | nil => rfl
  | cons a rest ih =>
    simp only [List.mem_cons, not_or] at h
    simp only [succOf, if_neg h.1]
    exact ih h.2

theorem predAux_not_mem (p : Option Nat) (l : List Nat) (i : Nat) (h : i ∉ l) : predAux p l i = none := by
  induction l generalizing p with
  | nil => rfl
  | cons a rest ih =>
    simp only [List.mem_cons, not_or] at h
    simp only [predAux, if_neg h.1]
    exact ih _ h.2

theorem predOf_not_mem (l : List Nat) (i : Nat) (h : i ∉ l) : predOf l i = none :=
  predAux_not_mem none l i h

theorem succOf_mem (l : List Nat) (i j : Nat) (h : succOf l i = some j) : i ∈ l ∧ j ∈ l := by
  induction l with
  | nil => simp [succOf] at h
  | cons a rest ih =>
    simp only [succOf] at h
    by_cases hi : i = a
    · rw [if_pos hi] at h
      refine ⟨by simp [hi], ?_⟩
      have := List.mem_of_mem_head? h
      simp [this]
    · rw [if_neg hi] at h
      have := ih h
      exact ⟨by simp [this.1], by simp [this.2]⟩

theorem predAux_mem (p : Option Nat) (l : List Nat) (i j : Nat) (h : predAux p l i = some j) :
    i ∈ l ∧ (p = some j ∨ j ∈ l) := by
  induction l generalizing p with
  | nil => simp [predAux] at h
  | cons a rest ih =>
    simp only [predAux] at h
    by_cases hi : i = a
    · rw [if_pos hi] at h
      exact ⟨by simp [hi], Or.inl h⟩
    · rw [if_neg hi] at h
      have := ih _ h
      refine ⟨by simp [this.1], ?_⟩
      rcases this.2 with h2 | h2
      · right; simp at h2; simp [h2]
      · right; simp [h2]

theorem predOf_mem (l : List Nat) (i j : Nat) (h : predOf l i = some j) : i ∈ l ∧ j ∈ l := by
  have := predAux_mem none l i j h
  refine ⟨this.1, ?_⟩
  rcases this.2 with h2 | h2
  · cases h2
  · exact h2

/-- the successor of the last element is none -/
theorem succOf_last (l : List Nat) (a : Nat) (hn : l.Nodup) (h : l.getLast? = some a) : succOf l a = none := by
  induction l with
  | nil => rfl
  | cons b rest ih =>
    rw [List.nodup_cons] at hn
    simp only [succOf]
    cases rest with
    | nil => simp at h; simp [h]
    | cons c rest' =>
      have h' : (c :: rest').getLast? = some a := by simpa [List.getLast?_cons_cons] using h
      have ha : a ∈ c :: rest' := List.mem_of_getLast? h'
      have : a ≠ b := fun e => hn.1 (e ▸ ha)
      rw [if_neg this]
      exact ih hn.2 h'

/-- an element that is not last has a successor -/
theorem succOf_some_of_not_last (l : List Nat) (a : Nat) (ha : a ∈ l) (h : l.getLast? ≠ some a) :
    ∃ j, succOf l a = some j := by
  induction l with
  | nil => simp at ha
  | cons b rest ih =>
    simp only [succOf]
    by_cases hab : a = b
    · rw [if_pos hab]
      cases rest with
      | nil => simp [hab] at h
      | cons c rest' => exact ⟨c, rfl⟩
    · rw [if_neg hab]
      have ha' : a ∈ rest := by simpa [hab] using ha
      apply ih ha'
      cases rest with
      | nil => simp at ha'
      | cons c rest' => simpa [List.getLast?_cons_cons] using h

theorem predAux_head (p : Option Nat) (l : List Nat) (a : Nat) (h : l.head? = some a) : predAux p l a = p := by
  cases l with
  | nil => simp at h
  | cons b rest => simp at h; simp [predAux, h]

theorem predOf_head (l : List Nat) (a : Nat) (h : l.head? = some a) : predOf l a = none :=
  predAux_head none l a h

theorem predAux_some_of_mem (p : Option Nat) (l : List Nat) (a : Nat) (ha : a ∈ l) (hp : p.isSome) :
    ∃ j, predAux p l a = some j := by
  induction l generalizing p with
  | nil => simp at ha
  | cons b rest ih =>
    simp only [predAux]
    by_cases hab : a = b
    · rw [if_pos hab]
      cases p with
      | none => simp at hp
      | some j => exact ⟨j, rfl⟩
    · rw [if_neg hab]
      exact ih _ (by simpa [hab] using ha) rfl

/-- an element that is not first has a predecessor -/
theorem predOf_some_of_not_head (l : List Nat) (a : Nat) (ha : a ∈ l) (h : l.head? ≠ some a) :
    ∃ j, predOf l a = some j := by
  cases l with
  | nil => simp at ha
  | cons b rest =>
    have hab : a ≠ b := by intro e; simp [e] at h
    simp only [predOf, predAux, if_neg hab]
    exact predAux_some_of_mem _ _ _ (by simpa [hab] using ha) rfl

/-- in a duplicate-free list `j` follows `i` exactly when `i` precedes `j` -/
theorem succ_pred_aux (p : Option Nat) (l : List Nat) (hn : l.Nodup) (i j : Nat) (hp : ∀ x, p = some x → x ∉ l) :
    (predAux p l j = some i) ↔ ((p = some i ∧ l.head? = some j) ∨ succOf l i = some j) := by
  induction l generalizing p with
  | nil => simp [predAux, succOf]
  | cons a rest ih =>
    rw [List.nodup_cons] at hn
    simp only [predAux, succOf, List.head?_cons, Option.some.injEq]
    by_cases hja : j = a
    · subst hja
      rw [if_pos rfl]
      constructor
      · intro h; exact Or.inl ⟨h, rfl⟩
      · rintro (⟨h, _⟩ | h)
        · exact h
        · exfalso
          by_cases hij : i = j
          · rw [if_pos hij] at h
            exact hn.1 (List.mem_of_mem_head? h)
          · rw [if_neg hij] at h
            exact hn.1 (succOf_mem _ _ _ h).2
    · rw [if_neg hja]
      have := ih (p := some a) hn.2 (by intro x hx; cases hx; exact hn.1)
      rw [this]
      constructor
      · rintro (⟨h1, h2⟩ | h)
        · cases h1
          right; rw [if_pos rfl]; exact h2
        · right
          have hi : i ≠ a := fun e => hn.1 (e ▸ (succOf_mem _ _ _ h).1)
          rw [if_neg hi]; exact h
      · rintro (⟨_, h2⟩ | h)
        · exact absurd h2.symm hja
        · by_cases hia : i = a
          · rw [if_pos hia] at h
            left; exact ⟨by rw [hia], h⟩
          · rw [if_neg hia] at h
            right; exact h

theorem succ_pred (l : List Nat) (hn : l.Nodup) (i j : Nat) :
    predOf l j = some i ↔ succOf l i = some j := by
  have := succ_pred_aux none l hn i j (by intro x hx; cases hx)
  unfold predOf
  rw [this]
  constructor
  · rintro (⟨h, _⟩ | h)
    · cases h
    · exact h
  · intro h; exact Or.inr h

/-- nobody precedes the head -/
theorem succOf_ne_head (l : List Nat) (hn : l.Nodup) (a i : Nat) (h : l.head? = some a) : succOf l i ≠ some a := by
  intro hs
  have := (succ_pred l hn i a).mpr hs
  rw [predOf_head l a h] at this
  cases this

/-- nobody follows the last element -/
theorem predOf_ne_last (l : List Nat) (hn : l.Nodup) (a i : Nat) (h : l.getLast? = some a) : predOf l i ≠ some a := by
  intro hs
  have := (succ_pred l hn a i).mp hs
  rw [succOf_last l a hn h] at this
  cases this

theorem succOf_ne_self (l : List Nat) (hn : l.Nodup) (i : Nat) : succOf l i ≠ some i := by
  induction l with
  | nil => simp [succOf]
  | cons a rest ih =>
    rw [List.nodup_cons] at hn
    simp only [succOf]
    by_cases hi : i = a
    · rw [if_pos hi]
      intro h
      exact hn.1 (hi ▸ List.mem_of_mem_head? h)
    · rw [if_neg hi]; exact ih hn.2

/-- inside a duplicate-free list the successor of `e` is the head of what follows it -/
theorem succOf_append_cons (done rest : List Nat) (e : Nat) (hn : (done ++ e :: rest).Nodup) :
    succOf (done ++ e :: rest) e = rest.head? := by
  induction done with
  | nil => simp [succOf]
  | cons a d ih =>
    rw [List.cons_append, List.nodup_cons] at hn
    have : e ≠ a := by
      intro h; subst h; exact hn.1 (by simp)
    simp only [List.cons_append, succOf, if_neg this]
    exact ih hn.2

/-! #### appending a new last element -/

theorem succOf_append (l : List Nat) (p i : Nat) (hn : l.Nodup) (hp : p ∉ l) :
    succOf (l ++ [p]) i = if l.getLast? = some i then some p else succOf l i := by
  induction l with
  | nil => simp [succOf]
  | cons a rest ih =>
    rw [List.nodup_cons] at hn
    simp only [List.mem_cons, not_or] at hp
    simp only [List.cons_append, succOf]
    by_cases hi : i = a
    · subst hi
      rw [if_pos rfl, if_pos rfl]
      cases rest with
      | nil => simp
      | cons c rest' =>
        have : (i :: c :: rest').getLast? ≠ some i := by
          rw [List.getLast?_cons_cons]
          intro h; exact hn.1 (List.mem_of_getLast? h)
        rw [if_neg this]; simp
    · rw [if_neg hi, if_neg hi, ih hn.2 hp.2]
      cases rest with
      | nil => simp [Ne.symm hi, succOf]
      | cons c rest' => rw [List.getLast?_cons_cons]

theorem predAux_append (q : Option Nat) (l : List Nat) (p i : Nat) (hp : p ∉ l) :
    predAux q (l ++ [p]) i = if i = p then (l.getLast?.or q) else predAux q l i := by
  induction l generalizing q with
  | nil => simp [predAux]
  | cons a rest ih =>
    simp only [List.mem_cons, not_or] at hp
    simp only [List.cons_append, predAux]
    by_cases hi : i = a
    · subst hi
      rw [if_pos rfl, if_pos rfl, if_neg (Ne.symm hp.1)]
    · rw [if_neg hi, if_neg hi, ih _ hp.2]
      by_cases hip : i = p
      · rw [if_pos hip, if_pos hip]
        cases rest with
        | nil => simp
        | cons c rest' =>
          rw [List.getLast?_cons_cons]
          cases hgl : (c :: rest').getLast? with
          | none => simp at hgl
          | some x => simp
      · rw [if_neg hip, if_neg hip]

theorem predOf_append (l : List Nat) (p i : Nat) (hp : p ∉ l) :
    predOf (l ++ [p]) i = if i = p then l.getLast? else predOf l i := by
  unfold predOf
  rw [predAux_append none l p i hp]
  simp

/-! #### erasing an element -/

theorem head?_erase (l : List Nat) (a : Nat) :
    (l.erase a).head? = if l.head? = some a then succOf l a else l.head? := by
  cases l with
  | nil => simp
  | cons b rest =>
    rw [List.erase_cons]
    by_cases hb : b = a
    · subst hb; simp [succOf]
    · have : ¬ (b == a) = true := by simpa using hb
      rw [if_neg this]
      simp [hb]

theorem succOf_erase (l : List Nat) (a i : Nat) (hn : l.Nodup) :
    succOf (l.erase a) i =
      if i = a then none else if succOf l i = some a then succOf l a else succOf l i := by
  induction l with
  | nil => simp [succOf]
  | cons b rest ih =>
    rw [List.nodup_cons] at hn
    rw [List.erase_cons]
    by_cases hb : b = a
    · subst hb
      rw [if_pos (by simp)]
      by_cases hi : i = b
      · subst hi; rw [if_pos rfl]; exact succOf_not_mem _ _ hn.1
      · rw [if_neg hi]
        simp only [succOf, if_neg hi]
        rw [if_neg]
        intro h; exact hn.1 (succOf_mem _ _ _ h).2
    · have hb' : ¬ (b == a) = true := by simpa using hb
      rw [if_neg hb']
      simp only [succOf]
      by_cases hi : i = b
      · subst hi
        simp only [↓reduceIte]
        rw [if_neg hb, head?_erase, if_neg (Ne.symm hb)]
      · simp only [hi, ↓reduceIte]
        rw [ih hn.2]
        by_cases hia : i = a
        · simp only [hia, ↓reduceIte]
        · simp only [hia, Ne.symm hb, ↓reduceIte]

theorem predAux_erase (q : Option Nat) (l : List Nat) (a i : Nat) (hn : l.Nodup) (hq : q ≠ some a) :
    predAux q (l.erase a) i =
      if i = a then none else if predAux q l i = some a then predAux q l a else predAux q l i := by
  induction l generalizing q with
  | nil => simp [predAux]
  | cons b rest ih =>
    rw [List.nodup_cons] at hn
    rw [List.erase_cons]
    by_cases hb : b = a
    · subst hb
      rw [if_pos (by simp)]
      by_cases hi : i = b
      · subst hi; rw [if_pos rfl]; exact predAux_not_mem _ _ _ hn.1
      · rw [if_neg hi]
        simp only [predAux, if_neg hi, if_pos]
        -- predecessor inside `rest` with initial predecessor `b`: replaced by `q`
        clear ih
        have key : ∀ (rest : List Nat) (q' : Option Nat), b ∉ rest → i ≠ b →
            predAux q' rest i = if predAux (some b) rest i = some b then q' else predAux (some b) rest i := by
          intro rest
          induction rest with
          | nil => intro q' _ _; simp [predAux]
          | cons c rest' ih' =>
            intro q' hb' hi'
            simp only [List.mem_cons, not_or] at hb'
            simp only [predAux]
            by_cases hic : i = c
            · simp only [hic, ↓reduceIte]
            · simp only [hic, ↓reduceIte]
              -- both sides start from `some c`
              rw [if_neg]
              intro h
              have := predAux_mem _ _ _ _ h
              rcases this.2 with h2 | h2
              · cases h2; exact hb'.1 rfl
              · exact hb'.2 h2
        exact key rest q hn.1 hi
    · have hb' : ¬ (b == a) = true := by simpa using hb
      rw [if_neg hb']
      simp only [predAux]
      by_cases hi : i = b
      · subst hi
        simp only [↓reduceIte, hb, hq]
      · simp only [hi, ↓reduceIte]
        rw [ih (some b) hn.2 (by simpa using hb)]
        by_cases hia : i = a
        · simp only [hia, ↓reduceIte]
        · simp only [hia, Ne.symm hb, ↓reduceIte]

theorem predOf_erase (l : List Nat) (a i : Nat) (hn : l.Nodup) :
    predOf (l.erase a) i =
      if i = a then none else if predOf l i = some a then predOf l a else predOf l i :=
  predAux_erase none l a i hn (by simp)

theorem getLast?_cons_or (b : Nat) (rest : List Nat) : (b :: rest).getLast? = rest.getLast?.or (some b) := by
  cases rest with
  | nil => simp
  | cons c r =>
    rw [List.getLast?_cons_cons]
    cases h : (c :: r).getLast? with
    | none => simp at h
    | some x => simp

theorem getLast?_erase_aux (l : List Nat) (a : Nat) (hn : l.Nodup) : ∀ (q : Option Nat),
    ((l.erase a).getLast?.or q) = if l.getLast? = some a then predAux q l a else (l.getLast?.or q) := by
  induction l with
  | nil => intro q; simp
  | cons b rest ih =>
    intro q
    rw [List.nodup_cons] at hn
    rw [List.erase_cons, getLast?_cons_or b rest]
    by_cases hb : b = a
    · subst hb
      rw [if_pos (by simp)]
      cases hg : rest.getLast? with
      | none => simp [predAux]
      | some x =>
        have : x ≠ b := fun e => hn.1 (e ▸ List.mem_of_getLast? hg)
        simp [this]
    · have hb' : ¬ (b == a) = true := by simpa using hb
      rw [if_neg hb', getLast?_cons_or b (rest.erase a)]
      have ih' := ih hn.2 (some b)
      cases hg : rest.getLast? with
      | none =>
        have : rest = [] := List.getLast?_eq_none_iff.mp hg
        subst this
        simp [hb]
      | some x =>
        rw [hg] at ih'
        by_cases hx : x = a
        · subst hx
          simp only [↓reduceIte, Option.or_some] at ih' ⊢
          simp only [predAux, if_neg (Ne.symm hb)]
          rw [← ih']
          cases h2 : (rest.erase x).getLast? <;> simp
        · have hx' : ¬ (some x = some a) := by simpa using hx
          simp only [hx', ↓reduceIte, Option.or_some] at ih' ⊢
          cases h2 : (rest.erase a).getLast? with
          | none => rw [h2] at ih'; simp at ih'; simp [ih']; intro h; exact absurd h hx
          | some y => rw [h2] at ih'; simp at ih'; simp [ih']; intro h; exact absurd h hx

theorem getLast?_erase (l : List Nat) (a : Nat) (hn : l.Nodup) :
    (l.erase a).getLast? = if l.getLast? = some a then predOf l a else l.getLast? := by
  have := getLast?_erase_aux l a hn none
  simpa [predOf] using this

end JsonC.Linkhash
