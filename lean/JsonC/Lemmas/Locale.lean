/-
  Helper lemmas for C14 (locale): the libc locale primitives of Model/Locale.lean as rewriting
  equations under their preconditions, the well-formedness predicate of locale states, the evaluation
  of the extracted epilogue, and byte-level facts about strchr / the separator fix-up.
  No property statements here (those are in Props/C14.lean).
-/
import JsonC.Model.Locale
import JsonC.Spec.Locale

namespace JsonC.Locale
open JsonC Generated

structure WF (s : LState) : Prop where
  curLive : ∀ i, s.cur = .obj i → isLive s i = true
  bound : ∀ p ∈ s.live, p.1 < s.next

def Valid (s : LState) : Handle → Prop
  | .global => True
  | .obj i => isLive s i = true

theorem removeObj_fresh (l : List (Nat × Numeric)) (n m : Nat) (h : ∀ p ∈ l, p.1 < n) (hm : n ≤ m) : removeObj l m = l := by
  unfold removeObj
  rw [List.filter_eq_self]
  intro p hp
  have := h p hp
  simp; omega

theorem removeObj_append_self (l : List (Nat × Numeric)) (n m : Nat) (x : Numeric) (h : ∀ p ∈ l, p.1 < n) (hm : n ≤ m) :
    removeObj (l ++ [(m, x)]) m = l := by
  have := removeObj_fresh l n m h hm
  unfold removeObj at this ⊢
  rw [List.filter_append, this]; simp

theorem any_lt (l : List (Nat × Numeric)) (i n : Nat) (h : ∀ p ∈ l, p.1 < n) (hi : l.any (·.1 == i) = true) : i < n := by
  rw [List.any_eq_true] at hi
  obtain ⟨p, hp, he⟩ := hi
  have := h p hp
  simp at he; omega

theorem uselocale_query (c : Ctx) :
    uselocale c none = .ok (c.st.cur, { c with trace := c.trace ++ [.uselocale none c.st.cur] }) := rfl

theorem uselocale_set (c : Ctx) (h : Handle) (hv : Valid c.st h) :
    uselocale c (some h) =
      .ok (c.st.cur, { st := { c.st with cur := h }, trace := c.trace ++ [.uselocale (some h) c.st.cur] }) := by
  cases h with
  | global => rfl
  | obj i => simp only [uselocale]; rw [if_pos (show isLive c.st i = true from hv)]

theorem duplocale_ok (c : Ctx) (h : Handle) (hv : Valid c.st h) :
    duplocale c h true = .ok (some (.obj c.st.next),
      { st := { c.st with live := c.st.live ++ [(c.st.next, numericOf c.st h)], next := c.st.next + 1 },
        trace := c.trace ++ [.duplocale h (some (.obj c.st.next))] }) := by
  cases h with
  | global => rfl
  | obj i => simp [duplocale, show isLive c.st i = true from hv]

theorem duplocale_fail (c : Ctx) (h : Handle) (hv : Valid c.st h) :
    duplocale c h false = .ok (none, { c with trace := c.trace ++ [.duplocale h none] }) := by
  cases h with
  | global => rfl
  | obj i => simp [duplocale, show isLive c.st i = true from hv]

theorem newlocale_base_ok (c : Ctx) (i : Nat) (hl : isLive c.st i = true) :
    newlocaleNumericC c (some (.obj i)) true = .ok (some (.obj c.st.next),
      { st := { c.st with live := removeObj c.st.live i ++ [(c.st.next, .C)], next := c.st.next + 1 },
        trace := c.trace ++ [.newlocale (some (.obj i)) (some (.obj c.st.next))] }) := by
  simp [newlocaleNumericC, hl]

theorem newlocale_base_fail (c : Ctx) (i : Nat) (hl : isLive c.st i = true) :
    newlocaleNumericC c (some (.obj i)) false =
      .ok (none, { c with trace := c.trace ++ [.newlocale (some (.obj i)) none] }) := by
  simp [newlocaleNumericC, hl]

theorem newlocale_null_ok (c : Ctx) :
    newlocaleNumericC c none true = .ok (some (.obj c.st.next),
      { st := { c.st with live := c.st.live ++ [(c.st.next, .C)], next := c.st.next + 1 },
        trace := c.trace ++ [.newlocale none (some (.obj c.st.next))] }) := rfl

theorem freelocale_ok (c : Ctx) (i : Nat) (hl : isLive c.st i = true) (hne : c.st.cur ≠ .obj i) :
    freelocale c (some (.obj i)) =
      .ok { st := { c.st with live := removeObj c.st.live i }, trace := c.trace ++ [.freelocale (some (.obj i))] } := by
  simp [freelocale, hl, hne]

theorem epilogue_eq (l : Locals) (c : Ctx) :
    runEpilogue l c epilogueLocaleCalls =
      (uselocale c (some l.oldlocale)) >>= fun r => freelocale r.2 (some l.newloc) := by
  simp only [epilogueLocaleCalls, runEpilogue, epilogueCall]
  cases uselocale c (some l.oldlocale) with
  | ok r => cases h : freelocale r.2 (some l.newloc) <;> simp [h, bind, Outcome.bind]
  | fault w => rfl

theorem isLive_snoc_self (cu : Handle) (l : List (Nat × Numeric)) (n : Nat) (x : Numeric) (nx : Nat) (g : Numeric) :
    isLive ⟨cu, l ++ [(n, x)], nx, g⟩ n = true := by
  simp [isLive]

theorem numOf_snoc_fresh (cu : Handle) (l : List (Nat × Numeric)) (n m : Nat) (x : Numeric) (nx : Nat) (g : Numeric)
    (h : ∀ p ∈ l, p.1 < n) (hm : n ≤ m) : numOf ⟨cu, l ++ [(m, x)], nx, g⟩ m = x := by
  have : List.find? (fun p => p.fst == m) l = none := by
    rw [List.find?_eq_none]; intro p hp; have := h p hp; simp; omega
  simp [numOf, List.find?_append, this]

theorem valid_snoc (cu cu' : Handle) (l : List (Nat × Numeric)) (y : Nat × Numeric) (nx nx' : Nat) (g g' : Numeric)
    (h : Handle) (hv : Valid ⟨cu, l, nx, g⟩ h) : Valid ⟨cu', l ++ [y], nx', g'⟩ h := by
  cases h with
  | global => trivial
  | obj i =>
    have : l.any (·.1 == i) = true := hv
    simp [Valid, isLive, this]

/-- the part of parse_ex from `uselocale(newloc)` on, for a freshly made `newloc` -/
theorem switch_and_restore (cur : Handle) (live : List (Nat × Numeric)) (next : Nat) (g : Numeric)
    (hwf : WF ⟨cur, live, next, g⟩) (t : List Ev) (m : Nat) (hm : next ≤ m) (nx : Nat) :
    uselocale ⟨⟨cur, live ++ [(m, .C)], nx, g⟩, t⟩ (some (.obj m)) =
        .ok (cur, ⟨⟨.obj m, live ++ [(m, .C)], nx, g⟩, t ++ [.uselocale (some (.obj m)) cur]⟩) ∧
      effective ⟨.obj m, live ++ [(m, .C)], nx, g⟩ = .C ∧
      ∀ t', runEpilogue ⟨cur, .obj m⟩ ⟨⟨.obj m, live ++ [(m, .C)], nx, g⟩, t'⟩ epilogueLocaleCalls =
        .ok ⟨⟨cur, live, nx, g⟩, t' ++ [.uselocale (some cur) (.obj m)] ++ [.freelocale (some (.obj m))]⟩ := by
  have hb := hwf.bound
  have hc := hwf.curLive
  dsimp only at hb hc
  have hv : Valid ⟨cur, live, next, g⟩ cur := by
    cases cur with
    | global => trivial
    | obj i => exact hc i rfl
  refine ⟨uselocale_set _ (.obj m) (isLive_snoc_self _ _ _ _ _ _), ?_, ?_⟩
  · exact numOf_snoc_fresh _ _ next m .C _ _ hb hm
  · intro t'
    rw [epilogue_eq]
    dsimp only
    rw [uselocale_set _ _ (valid_snoc _ _ _ _ _ _ _ _ _ hv)]
    rw [Outcome.bind_ok]
    dsimp only
    rw [freelocale_ok _ m (isLive_snoc_self _ _ _ _ _ _)]
    · dsimp only
      rw [removeObj_append_self live next m .C hb hm]
    · intro he
      dsimp only at he
      subst he
      have := any_lt live m next hb (hc m rfl)
      omega


/-! ## bytes: strchr and the separator fix-up -/

theorem strchr_none_of_not_mem (l : Bytes) (b : UInt8) (h : b ∉ l) : strchr l b = none := by
  induction l with
  | nil => rfl
  | cons x xs ih =>
    have hx : x ≠ b := fun e => h (by simp [e])
    have hxs : b ∉ xs := fun e => h (by simp [e])
    simp [strchr, hx, ih hxs]

theorem strchr_append_cons (pre suf : Bytes) (b : UInt8) (h : b ∉ pre) :
    strchr (pre ++ b :: suf) b = some pre.length := by
  induction pre with
  | nil => simp [strchr]
  | cons x xs ih =>
    have hx : x ≠ b := fun e => h (by simp [e])
    have hxs : b ∉ xs := fun e => h (by simp [e])
    simp [strchr, hx, ih hxs]

theorem set_append_cons (pre suf : Bytes) (x y : UInt8) :
    (pre ++ x :: suf).set pre.length y = pre ++ y :: suf := by
  induction pre with
  | nil => rfl
  | cons a as ih => simp [ih]

/-- `SepOnly` in the model's byte names -/
theorem sepOnly_iff (c k : Bytes) : SepOnly c k ↔
    cComma ∉ c ∧ ((cPoint ∉ c ∧ k = c) ∨
      ∃ pre suf, c = pre ++ cPoint :: suf ∧ cPoint ∉ pre ∧ k = pre ++ cComma :: suf) := Iff.rfl

theorem fixSep_sepOnly (c k : Bytes) (h : SepOnly c k) : fixSep k = fixSep c := by
  obtain ⟨hc, h | ⟨pre, suf, rfl, hp, rfl⟩⟩ := (sepOnly_iff c k).mp h
  · rw [h.2]
  · have hpre : cComma ∉ pre := fun e => hc (by simp [e])
    unfold fixSep
    rw [strchr_append_cons pre suf cComma hpre, strchr_none_of_not_mem _ _ hc, strchr_append_cons pre suf cPoint hp]
    simp only [set_append_cons]

theorem sepOnly_take (c k : Bytes) (n : Nat) (h : SepOnly c k) : SepOnly (c.take n) (k.take n) := by
  obtain ⟨hc, h | ⟨pre, suf, rfl, hp, rfl⟩⟩ := (sepOnly_iff c k).mp h
  · refine (sepOnly_iff _ _).mpr ⟨fun e => hc (List.mem_of_mem_take e), Or.inl ⟨fun e => h.1 (List.mem_of_mem_take e), by rw [h.2]⟩⟩
  · refine (sepOnly_iff _ _).mpr ⟨fun e => hc (List.mem_of_mem_take e), ?_⟩
    by_cases hn : n ≤ pre.length
    · left
      rw [List.take_append_of_le_length hn, List.take_append_of_le_length hn]
      exact ⟨fun e => hp (List.mem_of_mem_take e), rfl⟩
    · right
      refine ⟨pre, suf.take (n - pre.length - 1), ?_, hp, ?_⟩ <;>
      · rw [List.take_append]
        have : n - pre.length = (n - pre.length - 1) + 1 := by omega
        rw [List.take_of_length_le (by omega), this, List.take_succ_cons]
        simp

theorem sepOnly_length (c k : Bytes) (h : SepOnly c k) : k.length = c.length := by
  obtain ⟨_, h | ⟨pre, suf, rfl, _, rfl⟩⟩ := (sepOnly_iff c k).mp h
  · rw [h.2]
  · simp


theorem fixSep_length (b : Bytes) : (fixSep b).1.length = b.length := by
  unfold fixSep
  split <;> simp

theorem trimZeros_length (buf : Bytes) (p : Nat) : (trimZeros buf p).length ≤ buf.length := by
  unfold trimZeros
  dsimp only
  split
  · simp; omega
  · exact Nat.le_refl _


end JsonC.Locale
