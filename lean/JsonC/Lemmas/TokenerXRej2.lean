/-
  C16, strict mode on documents with extensions, part 2: in strict mode a '/' is a syntax error
  wherever a gap may stand; a single quote is a syntax error where a value or a member name starts;
  a closing bracket directly after a comma is a syntax error.
-/
import JsonC.Lemmas.TokenerXRej1
namespace JsonC.Tokener
open JsonC Rfc8259 Rfc8259X

/-- where a gap can stand: the level's saved state, and (for `finish`) the parent below -/
inductive GapPos : St → List Level → Prop where
  | start (rest) : GapPos .start rest
  | array (rest) : GapPos .array rest
  | arrayAfterSep (rest) : GapPos .arrayAfterSep rest
  | arraySep (rest) : GapPos .arraySep rest
  | objectFieldStart (rest) : GapPos .objectFieldStart rest
  | objectFieldStartAfterSep (rest) : GapPos .objectFieldStartAfterSep rest
  | objectFieldEnd (rest) : GapPos .objectFieldEnd rest
  | objectValue (rest) : GapPos .objectValue rest
  | objectSep (rest) : GapPos .objectSep rest
  | finishInArray (psv xs pnm rest) : GapPos .finish (⟨.arrayAdd, psv, .arr xs, pnm⟩ :: rest)
  | finishInObject (psv kvs k rest) : GapPos .finish (⟨.objectValueAdd, psv, .obj kvs, some k⟩ :: rest)

/-- strict mode: '/' at a gap position is a syntax error -/
theorem slash_err (lc : Libc) (t : Tok) (l : Loc) (hv : NoVal t) (hst : t.strict = true)
    (sv : St) (cur : JVal) (nm : Option Bytes) (rest : List Level) (hs : t.stack = ⟨.eatws, sv, cur, nm⟩ :: rest)
    (hp : GapPos sv rest) (c : UInt8) (off : Nat) (rs : Bytes) : ErrStop (run lc t l c off (47 :: rs)) := by
  have hst' : ¬ t.flags &&& Generated.tokenerStrict = 0 := by simpa [Tok.strict] using hst
  have : (feed lc t l 47).isErr = true := by
    cases hp with
    | start _ => simp [feed, fuel, feedN, disp, hs, dEatws, dStart, isWs, isDigit, setTop, Tok.strict, hst', Act.isErr]
    | arraySep _ => simp [feed, fuel, feedN, disp, hs, dEatws, dArraySep, isWs, setTop, Tok.strict, hst', Act.isErr]
    | objectSep _ => simp [feed, fuel, feedN, disp, hs, dEatws, dObjectSep, isWs, setTop, Tok.strict, hst', Act.isErr]
    | objectFieldStart _ => simp [feed, fuel, feedN, disp, hs, dEatws, dObjectFieldStart, isWs, setTop, Tok.strict, hst', Act.isErr]
    | objectFieldStartAfterSep _ =>
      simp [feed, fuel, feedN, disp, hs, dEatws, dObjectFieldStart, isWs, setTop, Tok.strict, hst', Act.isErr]
    | objectFieldEnd _ => simp [feed, fuel, feedN, disp, hs, dEatws, dObjectFieldEnd, isWs, setTop, Tok.strict, hst', Act.isErr]
    | array _ =>
      by_cases hd : (rest.length : Int) ≥ (t.maxDepth : Int) - 1
      · simp [feed, fuel, feedN, disp, hs, dEatws, dArray, pushLevel, isWs, setTop, Tok.strict, hst', hd, Act.isErr]
      · have hd2 : ¬ (rest.length + 1 ≥ t.maxDepth) := by omega
        simp [feed, fuel, feedN, disp, hs, dEatws, dArray, dStart, pushLevel, isWs, isDigit, setTop, Tok.strict, hst', hd, hd2,
          freshLevel, Act.isErr]
    | arrayAfterSep _ =>
      by_cases hd : (rest.length : Int) ≥ (t.maxDepth : Int) - 1
      · simp [feed, fuel, feedN, disp, hs, dEatws, dArray, pushLevel, isWs, setTop, Tok.strict, hst', hd, Act.isErr]
      · have hd2 : ¬ (rest.length + 1 ≥ t.maxDepth) := by omega
        simp [feed, fuel, feedN, disp, hs, dEatws, dArray, dStart, pushLevel, isWs, isDigit, setTop, Tok.strict, hst', hd, hd2,
          freshLevel, Act.isErr]
    | objectValue _ =>
      by_cases hd : (rest.length : Int) ≥ (t.maxDepth : Int) - 1
      · simp [feed, fuel, feedN, disp, hs, dEatws, pushLevel, isWs, setTop, Tok.strict, hst', hd, Act.isErr]
      · have hd2 : ¬ (rest.length + 1 ≥ t.maxDepth) := by omega
        simp [feed, fuel, feedN, disp, hs, dEatws, dStart, pushLevel, isWs, isDigit, setTop, Tok.strict, hst', hd, hd2,
          freshLevel, Act.isErr]
    | finishInArray psv xs pnm rest' =>
      simp [feed, fuel, feedN, disp, hs, dEatws, dFinish, dArraySep, isWs, setTop, Tok.strict, hst', Act.isErr]
    | finishInObject psv kvs k rest' =>
      simp [feed, fuel, feedN, disp, hs, dEatws, dFinish, dObjectSep, isWs, setTop, Tok.strict, hst', Act.isErr]
  exact run_err_of_isErr lc t l hv 47 this c off rs

/-- strict mode: a gap that contains a comment is a syntax error at every gap position -/
theorem gap_err (lc : Libc) (t : Tok) (l : Loc) (hv : NoVal t) (hst : t.strict = true)
    (sv : St) (cur : JVal) (nm : Option Bytes) (rest : List Level) (hs : t.stack = ⟨.eatws, sv, cur, nm⟩ :: rest)
    (hp : GapPos sv rest) (g : Gap) (hnp : g.plain = false) :
    ∀ (c : UInt8) (off : Nat) (rs : Bytes), ErrStop (run lc t l c off (g.text ++ rs)) := by
  induction g with
  | nil => simp [Gap.plain] at hnp
  | cons i r ih =>
    intro c off rs
    cases i with
    | ws w =>
      have hb : isWs w.byte = true ∧ w.byte ≠ 0 := by cases w <;> simp [WsChar.byte, isWs]
      have hf : feed lc t l w.byte = .consume t l := by
        apply feed_of_disp
        · simp [disp, hs, dEatws, hb.1]
        · intro t' l' h; cases h
      have e : Gap.text (GapItem.ws w :: r) ++ rs = w.byte :: (Gap.text r ++ rs) := by simp [Gap.text, GapItem.text]
      rw [e, run_consume lc t l w.byte t l hv hb.2 hf]
      exact ih (by simpa [Gap.plain, GapItem.plain] using hnp) _ _ _
    | block b =>
      have e : Gap.text (GapItem.block b :: r) ++ rs = 47 :: (42 :: (b ++ [42, 47] ++ Gap.text r ++ rs)) := by
        simp [Gap.text, GapItem.text]
      rw [e]; exact slash_err lc t l hv hst sv cur nm rest hs hp _ _ _
    | line b =>
      have e : Gap.text (GapItem.line b :: r) ++ rs = 47 :: (47 :: (b ++ [10] ++ Gap.text r ++ rs)) := by
        simp [Gap.text, GapItem.text]
      rw [e]; exact slash_err lc t l hv hst sv cur nm rest hs hp _ _ _

/-- strict mode: a single quote where a value starts -/
theorem sq_value_err (lc : Libc) (t : Tok) (l : Loc) (hv : NoVal t) (hst : t.strict = true)
    (cur : JVal) (nm : Option Bytes) (rest : List Level) (hs : t.stack = ⟨.eatws, .start, cur, nm⟩ :: rest)
    (c : UInt8) (off : Nat) (rs : Bytes) : ErrStop (run lc t l c off (39 :: rs)) := by
  have hst' : ¬ t.flags &&& Generated.tokenerStrict = 0 := by simpa [Tok.strict] using hst
  have : (feed lc t l 39).isErr = true := by
    simp [feed, fuel, feedN, disp, hs, dEatws, dStart, isWs, setTop, Tok.strict, hst', Act.isErr]
  exact run_err_of_isErr lc t l hv 39 this c off rs

/-- strict mode: a single quote where a member name starts -/
theorem sq_name_err (lc : Libc) (t : Tok) (l : Loc) (hv : NoVal t) (hst : t.strict = true)
    (sv : St) (hsv : sv = .objectFieldStart ∨ sv = .objectFieldStartAfterSep)
    (cur : JVal) (nm : Option Bytes) (rest : List Level) (hs : t.stack = ⟨.eatws, sv, cur, nm⟩ :: rest)
    (c : UInt8) (off : Nat) (rs : Bytes) : ErrStop (run lc t l c off (39 :: rs)) := by
  have hst' : ¬ t.flags &&& Generated.tokenerStrict = 0 := by simpa [Tok.strict] using hst
  have : (feed lc t l 39).isErr = true := by
    rcases hsv with h | h <;> subst h <;>
      simp [feed, fuel, feedN, disp, hs, dEatws, dObjectFieldStart, isWs, setTop, Tok.strict, hst', Act.isErr]
  exact run_err_of_isErr lc t l hv 39 this c off rs

/-- strict mode: `]` directly after a comma -/
theorem trailing_comma_array_err (lc : Libc) (t : Tok) (l : Loc) (hv : NoVal t) (hst : t.strict = true)
    (cur : JVal) (nm : Option Bytes) (rest : List Level) (hs : t.stack = ⟨.eatws, .arrayAfterSep, cur, nm⟩ :: rest)
    (c : UInt8) (off : Nat) (rs : Bytes) : ErrStop (run lc t l c off (93 :: rs)) := by
  have hst' : ¬ t.flags &&& Generated.tokenerStrict = 0 := by simpa [Tok.strict] using hst
  have : (feed lc t l 93).isErr = true := by
    simp [feed, fuel, feedN, disp, hs, dEatws, dArray, isWs, setTop, Tok.strict, hst', Act.isErr]
  exact run_err_of_isErr lc t l hv 93 this c off rs

/-- strict mode: `}` directly after a comma -/
theorem trailing_comma_object_err (lc : Libc) (t : Tok) (l : Loc) (hv : NoVal t) (hst : t.strict = true)
    (cur : JVal) (nm : Option Bytes) (rest : List Level) (hs : t.stack = ⟨.eatws, .objectFieldStartAfterSep, cur, nm⟩ :: rest)
    (c : UInt8) (off : Nat) (rs : Bytes) : ErrStop (run lc t l c off (125 :: rs)) := by
  have hst' : ¬ t.flags &&& Generated.tokenerStrict = 0 := by simpa [Tok.strict] using hst
  have : (feed lc t l 125).isErr = true := by
    simp [feed, fuel, feedN, disp, hs, dEatws, dObjectFieldStart, isWs, setTop, Tok.strict, hst', Act.isErr]
  exact run_err_of_isErr lc t l hv 125 this c off rs

end JsonC.Tokener
