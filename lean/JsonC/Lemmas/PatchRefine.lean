/-
  Helper lemmas for C13, part 4: each operation of json_patch.c against RFC 6902 (`Rfc6902.applyOp`).
-/
import JsonC.Lemmas.PatchOps

namespace JsonC.Patch
open JsonC

/-! ### last reference token -/

theorem unescapeAll_mk (t : Bytes) (ts : List Bytes) (u : Bytes) (us : Rfc6902.Pointer)
    (h1 : Rfc6902.unescape t = some u) (h2 : Rfc6902.unescapeAll ts = some us) :
    Rfc6902.unescapeAll (t :: ts) = some (u :: us) := by
  simp [Rfc6902.unescapeAll, h1, h2]

theorem unescapeAll_last (T : List Bytes) : ∀ (P' : Rfc6902.Pointer), T ≠ [] → Rfc6902.unescapeAll T = some P' →
    ∃ last last', T.getLast? = some last ∧ P'.getLast? = some last' ∧ Rfc6902.unescape last = some last' ∧
      Rfc6902.unescapeAll T.dropLast = some P'.dropLast := by
  induction T with
  | nil => intro P' h; exact absurd rfl h
  | cons t ts ih =>
    intro P' _ hu
    obtain ⟨u, us, rfl, hu1, hu2⟩ := unescapeAll_cons t ts P' hu
    cases ts with
    | nil =>
      rw [unescapeAll_nil us hu2]
      exact ⟨t, u, rfl, rfl, hu1, rfl⟩
    | cons t2 ts2 =>
      obtain ⟨last, last', h1, h2, h3, h4⟩ := ih us (by simp) hu2
      obtain ⟨u2, us2, rfl, _, _⟩ := unescapeAll_cons t2 ts2 us hu2
      refine ⟨last, last', ?_, ?_, h3, ?_⟩
      · rw [List.getLast?_cons_cons]; exact h1
      · rw [List.getLast?_cons_cons]; exact h2
      · simp only [List.dropLast_cons_cons]
        exact unescapeAll_mk t _ u _ hu1 h4

/-! ### json_pointer_set_with_array_cb as "add" -/

theorem setSingle_add (last last' : Bytes) (hu : Rfc6902.unescape last = some last') (v : JVal) (mode : SetMode)
    (hm : mode ≠ .put) (parent : JVal) (hs : small parent = true) :
    Agree (setSingle last v mode parent) (Rfc6902.addLeaf last' v parent) := by
  cases parent with
  | arr xs =>
    have hlen := (small_arr xs hs).1
    have h32 := uint32_le_ullong
    simp only [setSingle, Rfc6902.addLeaf]
    by_cases hd : last = [0x2d]
    · have := (dash_unescape last last' hu).mpr hd
      simp [hd, this, Agree]
    · have hd' : last' ≠ Rfc6902.dash := fun h => hd ((dash_unescape last last' hu).mp h)
      rw [if_neg hd, if_neg hd', isValidIndex_eq, ← arrayIndex_unescape last last' hu]
      cases hai : Rfc6902.arrayIndex last' with
      | none => simp [Agree]
      | some n =>
        simp only [Option.map_some, arrayCb]
        by_cases hn : n ≤ ULLONG_MAX
        · rw [Nat.min_eq_left hn]
          by_cases hle : n ≤ xs.length
          · have : ¬ n > xs.length := by omega
            rw [if_neg this, if_pos hle]
            cases mode with
            | put => exact absurd rfl hm
            | insert => simp [Agree, arrInsertIdx_eq xs n v hle]
            | move => simp [Agree, arrInsertIdx_eq xs n v hle]
          · have : n > xs.length := by omega
            rw [if_pos this, if_neg hle]; simp [Agree]
        · rw [Nat.min_eq_right (by omega)]
          have h1 : ULLONG_MAX > xs.length := by omega
          have h2 : ¬ n ≤ xs.length := by omega
          rw [if_pos h1, if_neg h2]; simp [Agree]
  | obj kvs =>
    simp [setSingle, Rfc6902.addLeaf, Agree, unescapeC_of_unescape last last' hu, objAdd_eq]
  | null => simp [setSingle, Rfc6902.addLeaf, Agree]
  | bool b => simp [setSingle, Rfc6902.addLeaf, Agree]
  | int s n => simp [setSingle, Rfc6902.addLeaf, Agree]
  | dbl b t => simp [setSingle, Rfc6902.addLeaf, Agree]
  | str s => simp [setSingle, Rfc6902.addLeaf, Agree]

theorem setWithCb_cons (doc : JVal) (c : UInt8) (r : Bytes) (v : JVal) (mode : SetMode) (T : List Bytes) (last : Bytes)
    (hT : rawTokens (c :: r) = some T) (hl : T.getLast? = some last) :
    setWithCb doc (some (c :: r)) v mode =
      match walk doc T.dropLast with
      | .error e => .err e
      | .ok (steps, _) => updateAt doc steps (setSingle last v mode) := by
  simp only [setWithCb, hT, hl]; rfl

theorem setWithCb_add (doc v : JVal) (ps : Bytes) (P' : Rfc6902.Pointer) (hp : Rfc6902.parsePointer ps = some P')
    (hs : small doc = true) (mode : SetMode) (hm : mode ≠ .put) :
    Agree (setWithCb doc (some ps) v mode) (Rfc6902.add doc P' v) := by
  obtain ⟨T, hT, uT, _, _, hnil⟩ := parsePointer_raw ps P' hp
  cases ps with
  | nil =>
    have : T = [] := hnil.mp rfl
    subst this
    rw [unescapeAll_nil P' uT]
    simp [setWithCb, Rfc6902.add, Agree]
  | cons c r =>
    have hne : T ≠ [] := fun h => by simpa using hnil.mpr h
    obtain ⟨last, last', hl, hl', hul, hud⟩ := unescapeAll_last T P' hne uT
    rw [setWithCb_cons doc c r v mode T last hT hl]
    simp only [Rfc6902.add, hl']
    cases hw : walk doc T.dropLast with
    | error e =>
      have := (walk_err _ doc _ e hud hs hw).2 (Rfc6902.addLeaf last' v)
      simp [this, Agree]
    | ok lp =>
      obtain ⟨loc, parent⟩ := lp
      obtain ⟨_, hsp, hupd⟩ := walk_ok _ doc _ loc parent hud hs hw
      exact hupd _ _ (setSingle_add last last' hul v mode hm parent hsp)

/-! ### json_pointer_get_internal against `get` -/

/-- everything the callers of json_pointer_get_internal use about a found location -/
structure Located (doc : JVal) (ps : Bytes) (P' : Rfc6902.Pointer) (loc : List Step) (parent obj : JVal)
    (last last' : Bytes) : Prop where
  raw : ∃ T, rawTokens ps = some T ∧ T.getLast? = some last ∧ walk doc T.dropLast = .ok (loc, parent)
  nonempty : ps ≠ []
  lastTok : P'.getLast? = some last'
  unesc : Rfc6902.unescape last = some last'
  getParent : Rfc6902.get doc P'.dropLast = some parent
  smallParent : small parent = true
  childObj : Rfc6902.child parent last' = some obj
  update : ∀ (f : JVal → R JVal) (f' : JVal → Option JVal), Agree (f parent) (f' parent) →
    Agree (updateAt doc loc f) (Rfc6902.modify doc P'.dropLast f')

theorem get_snoc (v : JVal) (P : Rfc6902.Pointer) : ∀ (last : Bytes) (parent : JVal),
    P.getLast? = some last → Rfc6902.get v P.dropLast = some parent →
    Rfc6902.get v P = Rfc6902.child parent last := by
  induction P generalizing v with
  | nil => intro last parent h; simp at h
  | cons t ts ih =>
    intro last parent hl hg
    cases ts with
    | nil =>
      simp only [List.getLast?_singleton, Option.some.injEq] at hl
      subst hl
      simp only [List.dropLast_singleton, Rfc6902.get, Option.some.injEq] at hg
      subst hg
      simp only [Rfc6902.get]
      cases Rfc6902.child v t <;> rfl
    | cons t2 ts2 =>
      rw [List.getLast?_cons_cons] at hl
      simp only [List.dropLast_cons_cons, Rfc6902.get] at hg
      simp only [Rfc6902.get]
      cases hc : Rfc6902.child v t with
      | none => rw [hc] at hg; simp at hg
      | some c =>
        rw [hc] at hg
        simp only at hg ⊢
        exact ih c last parent hl hg

theorem get_none_of_parent_none (v : JVal) (P : Rfc6902.Pointer) (hne : P ≠ [])
    (h : Rfc6902.get v P.dropLast = none) : Rfc6902.get v P = none := by
  induction P generalizing v with
  | nil => exact absurd rfl hne
  | cons t ts ih =>
    cases ts with
    | nil => simp [Rfc6902.get] at h
    | cons t2 ts2 =>
      simp only [List.dropLast_cons_cons, Rfc6902.get] at h
      simp only [Rfc6902.get]
      cases hc : Rfc6902.child v t with
      | none => rfl
      | some c =>
        rw [hc] at h
        exact ih c (by simp) h

theorem getInternal_ok_spec (doc : JVal) (ps : Bytes) (P' : Rfc6902.Pointer)
    (hp : Rfc6902.parsePointer ps = some P') (hs : small doc = true) (g : GetRes)
    (h : getInternal doc (some ps) = .ok g) :
    Rfc6902.get doc P' = some g.obj ∧ small g.obj = true ∧ isNull doc = false ∧
    ((g.place = .root ∧ ps = [] ∧ P' = [] ∧ g.obj = doc) ∨
     (∃ loc parent last last' i, g.place = .elem loc i ∧ Located doc ps P' loc parent g.obj last last' ∧
        ∃ xs, parent = .arr xs ∧ Rfc6902.arrayIndex last' = some i ∧ i < xs.length ∧ isValidIndex last = some i) ∨
     (∃ loc parent last last', g.place = .member loc last' ∧ Located doc ps P' loc parent g.obj last last' ∧
        ∃ kvs, parent = .obj kvs ∧ Rfc6902.lookup last' kvs = some g.obj)) := by
  obtain ⟨hnn, hr⟩ := getInternal_ok_raw doc (some ps) g h
  obtain ⟨T0, hT0, uT, _, _, hnil⟩ := parsePointer_raw ps P' hp
  rcases hr with ⟨hpl, hobj, hpath⟩ | ⟨ps1, T, last, loc, parent, s, hps, hne, hT, hl, hw, hg, hcase⟩
  · simp only [Option.some.injEq] at hpath
    subst hpath
    have : T0 = [] := hnil.mp rfl
    subst this
    have hP := unescapeAll_nil P' uT
    subst hP
    refine ⟨by rw [hobj]; rfl, by rw [hobj]; exact hs, hnn, Or.inl ⟨hpl, rfl, rfl, hobj⟩⟩
  · simp only [Option.some.injEq] at hps
    subst hps
    rw [hT0] at hT
    simp only [Option.some.injEq] at hT
    subst hT
    have hTne : T0 ≠ [] := fun h' => hne (hnil.mpr h')
    obtain ⟨last2, last', hl2, hl', hul, hud⟩ := unescapeAll_last T0 P' hTne uT
    rw [hl] at hl2
    simp only [Option.some.injEq] at hl2
    subst hl2
    obtain ⟨hgetp, hsp, hupd⟩ := walk_ok _ doc _ loc parent hud hs hw
    obtain ⟨hchild, hstep, hidx⟩ := getSingle_ok parent last last' hul hsp g.obj s hg
    have hloc : Located doc ps P' loc parent g.obj last last' :=
      ⟨⟨T0, hT0, hl, hw⟩, hne, hl', hul, hgetp, hsp, hchild, hupd⟩
    have hget : Rfc6902.get doc P' = some g.obj := by rw [get_snoc doc P' last' parent hl' hgetp, hchild]
    refine ⟨hget, small_child parent last' g.obj hsp hchild, hnn, Or.inr ?_⟩
    rcases hcase with ⟨i, rfl, hpl⟩ | ⟨k, rfl, hpl⟩
    · obtain ⟨xs, rfl, hai, hx, hlt⟩ := hstep
      have hlen := (small_arr xs hsp).1
      have hmod : i % UINT32_MOD = i := Nat.mod_eq_of_lt (by omega)
      rw [hmod] at hpl
      exact Or.inl ⟨loc, _, last, last', i, hpl, hloc, xs, rfl, hai, hlt, hidx i rfl⟩
    · obtain ⟨kvs, rfl, rfl, hlk⟩ := hstep
      exact Or.inr ⟨loc, _, last, _, hpl, hloc, kvs, rfl, hlk⟩

theorem get_null_cons (t : Bytes) (ts : Rfc6902.Pointer) : Rfc6902.get .null (t :: ts) = none := by
  simp [Rfc6902.get, Rfc6902.child]

theorem isNull_eq (v : JVal) (h : isNull v = true) : v = .null := by
  cases v <;> simp_all [isNull]

theorem getInternal_err_spec (doc : JVal) (ps : Bytes) (P' : Rfc6902.Pointer)
    (hp : Rfc6902.parsePointer ps = some P') (hs : small doc = true) (e : PErr)
    (h : getInternal doc (some ps) = .err e) :
    (doc = .null ∧ ps = []) ∨ Rfc6902.get doc P' = none := by
  obtain ⟨T0, hT0, uT, _, _, hnil⟩ := parsePointer_raw ps P' hp
  unfold getInternal at h
  simp only at h
  cases hn : isNull doc with
  | true =>
    have hd := isNull_eq doc hn
    subst hd
    cases ps with
    | nil => exact Or.inl ⟨rfl, rfl⟩
    | cons c r =>
      right
      have hTne : T0 ≠ [] := fun h' => by simpa using hnil.mpr h'
      cases T0 with
      | nil => exact absurd rfl hTne
      | cons t ts =>
        obtain ⟨u, us, rfl, _, _⟩ := unescapeAll_cons t ts P' uT
        exact get_null_cons u us
  | false =>
    rw [hn] at h
    simp only [Bool.false_eq_true, if_false] at h
    right
    cases ps with
    | nil => simp at h
    | cons c r =>
      simp only [hT0] at h
      have hTne : T0 ≠ [] := fun h' => by simpa using hnil.mpr h'
      obtain ⟨last, last', hl, hl', hul, hud⟩ := unescapeAll_last T0 P' hTne uT
      rw [hl] at h
      simp only at h
      have hPne : P' ≠ [] := by intro h'; rw [h'] at hl'; simp at hl'
      cases hw : walk doc T0.dropLast with
      | error e' =>
        exact get_none_of_parent_none doc P' hPne (walk_err _ doc _ e' hud hs hw).1
      | ok lp =>
        obtain ⟨loc, parent⟩ := lp
        rw [hw] at h
        simp only at h
        obtain ⟨hgetp, hsp, _⟩ := walk_ok _ doc _ loc parent hud hs hw
        cases hg : getSingle parent last with
        | error e' =>
          rw [get_snoc doc P' last' parent hl' hgetp]
          exact getSingle_err parent last last' hul hsp e' hg
        | ok cs =>
          obtain ⟨c0, s⟩ := cs
          rw [hg] at h
          cases s <;> simp at h

/-! ### facts about the specification used below -/

theorem modify_none_of_get_none (ptr : Rfc6902.Pointer) : ∀ (v : JVal) (f : JVal → Option JVal),
    Rfc6902.get v ptr = none → Rfc6902.modify v ptr f = none := by
  induction ptr with
  | nil => intro v f h; simp [Rfc6902.get] at h
  | cons t ts ih =>
    intro v f h
    simp only [Rfc6902.get] at h
    simp only [Rfc6902.modify]
    cases hc : Rfc6902.child v t with
    | none => rfl
    | some c => rw [hc] at h; simp only at h ⊢; rw [ih c f h]

theorem modify_none_of_leaf_none (ptr : Rfc6902.Pointer) : ∀ (v p : JVal) (f : JVal → Option JVal),
    Rfc6902.get v ptr = some p → f p = none → Rfc6902.modify v ptr f = none := by
  induction ptr with
  | nil => intro v p f h hf; simp only [Rfc6902.get, Option.some.injEq] at h; subst h; simpa [Rfc6902.modify] using hf
  | cons t ts ih =>
    intro v p f h hf
    simp only [Rfc6902.get] at h
    simp only [Rfc6902.modify]
    cases hc : Rfc6902.child v t with
    | none => rfl
    | some c => rw [hc] at h; simp only at h ⊢; rw [ih c p f h hf]

theorem replace_none_of_get_none (doc : JVal) (P : Rfc6902.Pointer) (v : JVal) (h : Rfc6902.get doc P = none) :
    Rfc6902.replace doc P v = none := by
  unfold Rfc6902.replace
  cases hl : P.getLast? with
  | none =>
    have := List.getLast?_eq_none_iff.mp hl
    subst this; simp [Rfc6902.get] at h
  | some last =>
    simp only
    cases hg : Rfc6902.get doc P.dropLast with
    | none => exact modify_none_of_get_none _ doc _ hg
    | some parent =>
      apply modify_none_of_leaf_none _ doc parent _ hg
      rw [get_snoc doc P last parent hl hg] at h
      simp [Rfc6902.replaceLeaf, h]

theorem small_setChild (v : JVal) (t : Rfc6902.Token) (c : JVal) (hv : small v = true) (hc : small c = true) :
    small (Rfc6902.setChild v t c) = true := by
  cases v with
  | arr xs =>
    simp only [Rfc6902.setChild]
    split
    · obtain ⟨h1, h2⟩ := small_arr xs hv
      simp [small, h1, smallList_set xs _ c h2 hc]
    · exact hv
  | obj kvs =>
    simp only [Rfc6902.setChild, small]
    exact smallMembers_set kvs t c (by simpa [small] using hv) hc
  | null => exact hv
  | bool b => exact hv
  | int s n => exact hv
  | dbl b t => exact hv
  | str s => exact hv

theorem modify_small (ptr : Rfc6902.Pointer) : ∀ (v v' : JVal) (f : JVal → Option JVal),
    small v = true → (∀ p p', small p = true → f p = some p' → small p' = true) →
    Rfc6902.modify v ptr f = some v' → small v' = true := by
  induction ptr with
  | nil => intro v v' f hv hf h; exact hf v v' hv (by simpa [Rfc6902.modify] using h)
  | cons t ts ih =>
    intro v v' f hv hf h
    simp only [Rfc6902.modify] at h
    cases hc : Rfc6902.child v t with
    | none => rw [hc] at h; simp at h
    | some c =>
      rw [hc] at h
      simp only at h
      cases hm : Rfc6902.modify c ts f with
      | none => rw [hm] at h; simp at h
      | some c' =>
        rw [hm] at h
        simp only [Option.some.injEq] at h
        subst h
        exact small_setChild v t c' hv (ih c c' f (small_child v t c hv hc) hf hm)

theorem removeLeaf_small (t : Rfc6902.Token) (p p' : JVal) (hp : small p = true)
    (h : Rfc6902.removeLeaf t p = some p') : small p' = true := by
  cases p with
  | arr xs =>
    simp only [Rfc6902.removeLeaf] at h
    split at h
    · split at h
      · rename_i n _ _
        simp only [Option.some.injEq] at h; subst h
        obtain ⟨h1, h2⟩ := small_arr xs hp
        have : (xs.eraseIdx n).length ≤ xs.length := List.length_eraseIdx_le xs n
        simp only [small, Bool.and_eq_true, decide_eq_true_eq]
        exact ⟨by omega, smallList_eraseIdx xs n h2⟩
      · simp at h
    · simp at h
  | obj kvs =>
    simp only [Rfc6902.removeLeaf] at h
    split at h
    · simp only [Option.some.injEq] at h; subst h
      simp only [small]
      exact smallMembers_erase kvs t (by simpa [small] using hp)
    · simp at h
  | null => simp [Rfc6902.removeLeaf] at h
  | bool b => simp [Rfc6902.removeLeaf] at h
  | int s n => simp [Rfc6902.removeLeaf] at h
  | dbl b t => simp [Rfc6902.removeLeaf] at h
  | str s => simp [Rfc6902.removeLeaf] at h

/-- removing a value does not make any array longer -/
theorem remove_small (doc d1 : JVal) (P : Rfc6902.Pointer) (hs : small doc = true)
    (h : Rfc6902.remove doc P = some d1) : small d1 = true := by
  unfold Rfc6902.remove at h
  split at h
  · simp only [Option.some.injEq] at h; subst h; rfl
  · exact modify_small _ doc d1 _ hs (fun p p' hp hf => removeLeaf_small _ p p' hp hf) h

/-! ### one operation -/

/-- the outcome of one operation of the model agrees with RFC 6902 -/
def OpAgrees (o : OpRes) (x : Except Rfc6902.Err JVal) : Prop :=
  match x with
  | .ok d => o.rc = 0 ∧ o.doc = d
  | .error _ => o.rc = -1

theorem nullRootTags_nil (doc : JVal) (ps : Bytes) (h : nullRootTags doc (some ps) = []) : ¬ (doc = .null ∧ ps = []) := by
  intro ⟨h1, h2⟩; subst h1; subst h2; simp [nullRootTags] at h

theorem opTest_refines (eq : JVal → JVal → Bool) (doc elem v : JVal) (ps : Bytes) (P' : Rfc6902.Pointer)
    (hp : Rfc6902.parsePointer ps = some P') (hs : small doc = true) (hv : objGet elem kValue = some v) :
    ∃ o, opTest eq doc elem (some ps) = .ok o ∧ (o.tags = [] → OpAgrees o (Rfc6902.applyOp doc (.test P' v))) := by
  simp only [opTest, hv]
  cases hg : getInternal doc (some ps) with
  | fault w => exact absurd hg (getInternal_nofault _ _ w)
  | err e =>
    refine ⟨_, rfl, ?_⟩
    intro ht
    rcases getInternal_err_spec doc ps P' hp hs e hg with h | h
    · exact absurd h (nullRootTags_nil doc ps ht)
    · simp [OpAgrees, Rfc6902.applyOp, h]
  | ok g =>
    obtain ⟨hget, _, _, _⟩ := getInternal_ok_spec doc ps P' hp hs g hg
    simp only
    cases he : eq v g.obj <;> cases hv' : Rfc6902.valEq v g.obj <;>
      simp [OpRes.done, OpRes.fail, OpAgrees, Rfc6902.applyOp, hget, hv']

/-- __json_patch_apply_remove on a found, non-root location is RFC "remove" -/
theorem removeAt_spec (doc : JVal) (fs : Bytes) (F' : Rfc6902.Pointer) (hf : Rfc6902.parsePointer fs = some F')
    (hs : small doc = true) (g : GetRes) (hg : getInternal doc (some fs) = .ok g) (hnr : fs ≠ []) :
    match removeAt doc g with
    | .ok (d1, obj) => Rfc6902.remove doc F' = some d1 ∧ obj = g.obj
    | .err _ => Rfc6902.remove doc F' = none
    | .fault _ => False := by
  obtain ⟨_, _, _, hcase⟩ := getInternal_ok_spec doc fs F' hf hs g hg
  rcases hcase with ⟨_, h, _⟩ | ⟨loc, parent, last, last', i, hpl, hloc, xs, rfl, hai, hlt, _⟩ |
      ⟨loc, parent, last, last', hpl, hloc, kvs, rfl, hlk⟩
  · exact absurd h hnr
  · have hag := hloc.update (delIdxFn i) (Rfc6902.removeLeaf last')
      (by simp [delIdxFn, Rfc6902.removeLeaf, hai, hlt, Agree])
    simp only [removeAt, hpl, Rfc6902.remove, hloc.lastTok]
    cases hu : updateAt doc loc (delIdxFn i) with
    | ok d => rw [hu] at hag; cases hm : Rfc6902.modify doc F'.dropLast (Rfc6902.removeLeaf last') with
      | none => rw [hm] at hag; simp [Agree] at hag
      | some d' => rw [hm] at hag; simp only [Agree] at hag; subst hag; simp [R.map']
    | err e => rw [hu] at hag; cases hm : Rfc6902.modify doc F'.dropLast (Rfc6902.removeLeaf last') with
      | none => simp [R.map']
      | some d' => rw [hm] at hag; simp [Agree] at hag
    | fault w => rw [hu] at hag; cases hm : Rfc6902.modify doc F'.dropLast (Rfc6902.removeLeaf last') <;>
        (rw [hm] at hag; simp [Agree] at hag)
  · have hag := hloc.update (delKeyFn last') (Rfc6902.removeLeaf last')
      (by simp [delKeyFn, Rfc6902.removeLeaf, hlk, Agree, objDel_eq])
    simp only [removeAt, hpl, Rfc6902.remove, hloc.lastTok]
    cases hu : updateAt doc loc (delKeyFn last') with
    | ok d => rw [hu] at hag; cases hm : Rfc6902.modify doc F'.dropLast (Rfc6902.removeLeaf last') with
      | none => rw [hm] at hag; simp [Agree] at hag
      | some d' => rw [hm] at hag; simp only [Agree] at hag; subst hag; simp [R.map']
    | err e => rw [hu] at hag; cases hm : Rfc6902.modify doc F'.dropLast (Rfc6902.removeLeaf last') with
      | none => simp [R.map']
      | some d' => rw [hm] at hag; simp [Agree] at hag
    | fault w => rw [hu] at hag; cases hm : Rfc6902.modify doc F'.dropLast (Rfc6902.removeLeaf last') <;>
        (rw [hm] at hag; simp [Agree] at hag)

end JsonC.Patch
