/-
  Helper lemmas for C12: the token-level C walk (`walkC`) against RFC 6901 evaluation
  (`Rfc6901.evalTokens`), and the lookup entry points against their token-level reading.
-/
import JsonC.Lemmas.PointerTok

namespace JsonC.Pointer
open JsonC Generated Rfc6901


theorem evalTokens_snoc (init : List Bytes) (last : Bytes) : ∀ (obj : JVal),
    evalTokens obj (init ++ [last]) =
      match evalTokens obj init with
      | none => none
      | some (ppos, par) => (step par last).map (fun r => (ppos ++ [r.1], r.2)) := by
  induction init with
  | nil =>
    intro obj
    simp only [List.nil_append, evalTokens]
    cases step obj last with
    | none => rfl
    | some r => obtain ⟨i, c⟩ := r; rfl
  | cons tok init ih =>
    intro obj
    simp only [List.cons_append, evalTokens]
    cases step obj tok with
    | none => rfl
    | some r =>
      obtain ⟨i, c⟩ := r
      simp only [ih c]
      cases evalTokens c init with
      | none => rfl
      | some q =>
        obtain ⟨pp, par⟩ := q
        simp only [Option.map_some]
        cases step par last with
        | none => rfl
        | some r2 => rfl

theorem walkC_snoc (init : List Bytes) (last : Bytes) : ∀ (obj : JVal) (pos : List Nat), Sized obj →
    (∀ ppos par, evalTokens obj init = some (ppos, par) →
        Sized par ∧ walkC obj (init ++ [last]) pos =
          (match stepC par last with
           | .fail e => GetRes.fail e
           | .found i c => finalRes par (pos ++ ppos) last i c)) ∧
    (evalTokens obj init = none →
        ∃ e, walkC obj (init ++ [last]) pos = GetRes.fail e ∧ (e = .ENOENT ∨ e = .EINVAL)) := by
  induction init with
  | nil =>
    intro obj pos hs
    refine ⟨?_, by intro h; cases h⟩
    intro ppos par h
    simp only [evalTokens] at h
    injection h with h; injection h with h1 h2
    subst h1 h2
    refine ⟨hs, ?_⟩
    show walkC obj [last] pos = _
    rw [walkC, List.append_nil]
    cases stepC obj last <;> rfl
  | cons tok init ih =>
    intro obj pos hs
    obtain ⟨t2, ts, hts⟩ : ∃ t2 ts, init ++ [last] = t2 :: ts := by
      cases init with
      | nil => exact ⟨last, [], rfl⟩
      | cons a b => exact ⟨a, b ++ [last], rfl⟩
    have hw : walkC obj (tok :: init ++ [last]) pos =
        match stepC obj tok with
        | .fail e => GetRes.fail e
        | .found i c => walkC c (init ++ [last]) (pos ++ [i]) := by
      rw [List.cons_append, hts]; exact walkC_cons2 obj tok t2 ts pos
    have hstep := stepC_step obj tok hs
    simp only [evalTokens]
    cases hst : step obj tok with
    | none =>
      rw [hst] at hstep
      refine ⟨(by intro _ _ h; cases h), fun _ => ?_⟩
      rcases hstep with h | h
      · exact ⟨.ENOENT, by rw [hw, h], Or.inl rfl⟩
      · exact ⟨.EINVAL, by rw [hw, h], Or.inr rfl⟩
    | some r =>
      obtain ⟨i, c⟩ := r
      rw [hst] at hstep
      simp only [] at hstep
      have hsc : Sized c := Sized_child obj c i hs (stepC_child obj tok i c hstep)
      obtain ⟨ih1, ih2⟩ := ih c (pos ++ [i]) hsc
      simp only []
      refine ⟨?_, ?_⟩
      · intro ppos par h
        cases he : evalTokens c init with
        | none => rw [he] at h; cases h
        | some q =>
          obtain ⟨pp, par'⟩ := q
          rw [he] at h
          simp only [Option.map_some] at h
          injection h with h; injection h with h1 h2
          subst h1 h2
          obtain ⟨hsp, hwalk⟩ := ih1 pp par' he
          refine ⟨hsp, ?_⟩
          rw [hw, hstep]
          simp only []
          rw [hwalk]
          simp [List.append_assoc]
      · intro h
        cases he : evalTokens c init with
        | some q => rw [he] at h; cases h
        | none =>
          obtain ⟨e, hwalk, hee⟩ := ih2 he
          exact ⟨e, by rw [hw, hstep]; exact hwalk, hee⟩

theorem exists_snoc {α : Type} (l : List α) (h : l ≠ []) : ∃ init last, l = init ++ [last] :=
  ⟨l.dropLast, l.getLast h, (List.dropLast_concat_getLast h).symm⟩

/-- the root record of json_pointer_get_internal for the empty pointer -/
def rootRes (obj : JVal) : GetRes :=
  { rc := 0, pos := [], val := obj, parent := .set none, key := .set none,
    index := .set (uint32Max % 2 ^ (8 * ptrIndexFieldBytes)) }

/-- json_pointer_get_internal at token level -/
def getTok (obj : JVal) (p : Bytes) : GetRes :=
  match p with
  | [] => rootRes obj
  | c :: body => if c = 47 then walkC obj (splitSlash body) [] else GetRes.fail .EINVAL

theorem finalRes_rc (par : JVal) (pos : List Nat) (tok : Bytes) (i : Nat) (c : JVal) :
    (finalRes par pos tok i c).rc = 0 ∧ (finalRes par pos tok i c).pos = pos ++ [i] ∧
    (finalRes par pos tok i c).val = c := by
  cases par <;> exact ⟨rfl, rfl, rfl⟩

/-- the walk from the root (`pos = []`) over a non-empty token list against RFC evaluation -/
theorem walkC_evalTokens (toks : List Bytes) (hne : toks ≠ []) (obj : JVal) (hs : Sized obj) :
    (∀ pos v, evalTokens obj toks = some (pos, v) →
      (walkC obj toks []).rc = 0 ∧ (walkC obj toks []).pos = pos ∧ (walkC obj toks []).val = v) ∧
    (evalTokens obj toks = none →
      ∃ e, walkC obj toks [] = GetRes.fail e ∧ (e = .ENOENT ∨ e = .EINVAL)) := by
  obtain ⟨init, last, hl⟩ := exists_snoc toks hne
  subst hl
  obtain ⟨w1, w2⟩ := walkC_snoc init last obj [] hs
  rw [evalTokens_snoc]
  cases he : evalTokens obj init with
  | none =>
    obtain ⟨e, hw, hee⟩ := w2 he
    exact ⟨(by intro _ _ h; cases h), fun _ => ⟨e, hw, hee⟩⟩
  | some q =>
    obtain ⟨ppos, par⟩ := q
    obtain ⟨hsp, hw⟩ := w1 ppos par he
    have hstep := stepC_step par last hsp
    simp only []
    cases hst : step par last with
    | none =>
      rw [hst] at hstep
      refine ⟨(by intro _ _ h; cases h), fun _ => ?_⟩
      rcases hstep with h | h
      · exact ⟨.ENOENT, by rw [hw, h], Or.inl rfl⟩
      · exact ⟨.EINVAL, by rw [hw, h], Or.inr rfl⟩
    | some r =>
      obtain ⟨i, c⟩ := r
      rw [hst] at hstep
      simp only [] at hstep
      refine ⟨?_, (by intro h; cases h)⟩
      intro pos v h
      simp only [Option.map_some] at h
      injection h with h; injection h with h1 h2
      subst h1 h2
      rw [hw, hstep]
      simp only [List.nil_append]
      exact finalRes_rc par ppos last i c

theorem getTok_eval (obj : JVal) (p : Bytes) (hs : Sized obj) :
    (∀ pos v, eval obj p = some (pos, v) →
      (getTok obj p).rc = 0 ∧ (getTok obj p).pos = pos ∧ (getTok obj p).val = v) ∧
    (eval obj p = none → ∃ e, getTok obj p = GetRes.fail e ∧ (e = .ENOENT ∨ e = .EINVAL)) := by
  match p with
  | [] =>
    refine ⟨?_, (by intro h; cases h)⟩
    intro pos v h
    simp only [eval, tokens, evalTokens] at h
    injection h with h; injection h with h1 h2
    subst h1 h2
    exact ⟨rfl, rfl, rfl⟩
  | c :: body =>
    by_cases hc : c = 47
    · subst hc
      have hne : splitSlash body ≠ [] := by
        obtain ⟨t, ts, h⟩ := splitSlash_ne_nil body; rw [h]; simp
      have := walkC_evalTokens (splitSlash body) hne obj hs
      simpa [eval, tokens, getTok] using this
    · simp only [eval, tokens, getTok, if_neg hc]
      exact ⟨(by intro _ _ h; cases h), fun _ => ⟨.EINVAL, rfl, Or.inr rfl⟩⟩

/-- the recursive walk on a fresh copy of a NUL-free path = the token-level reading -/
theorem getRecursive_copy (obj : JVal) (c : UInt8) (body : Bytes) (h0 : (0 : UInt8) ∉ c :: body) :
    getRecursive ((c :: body) ++ [0]).length obj ((c :: body) ++ [0]) 0 [] = .ok (getTok obj (c :: body)) := by
  have h0b : (0 : UInt8) ∉ body := by intro e; apply h0; simp [e]
  by_cases hc : c = 47
  · subst hc
    have := getRecursive_walk ((47 :: body) ++ [0]).length obj [] body [] [] h0b (by simp; omega)
    simp only [getTok, if_true]
    simpa using this
  · simp only [getTok, if_neg hc]
    have : ((c :: body) ++ [0]).length = body.length + 1 + 1 := by simp
    rw [this, getRecursive]
    have hrd2 : rd ((c :: body) ++ [0]) 0 "path[0]" = .ok c := rfl
    simp only [hrd2, Outcome.bind_ok, if_pos hc]
    rfl

theorem getInternalBody_eq (obj : JVal) (p : Bytes) (h0 : (0 : UInt8) ∉ p) :
    getInternalBody obj p = .ok (getTok obj p) := by
  match p, h0 with
  | [], _ => rfl
  | c :: body, h0 =>
    have hc0 : c ≠ 0 := by intro e; apply h0; simp [e]
    have hrd : rd ((c :: body) ++ [0]) 0 "path[0]" = .ok c := rfl
    have hcs : cstrAt ((c :: body) ++ [0]) 0 "strdup(path)" = .ok (c :: body) := by
      have := cstrAt_mid [] (c :: body) [] h0 0 rfl "strdup(path)"
      simpa using this
    simp only [getInternalBody, hrd, Outcome.bind_ok, if_neg hc0, hcs]
    exact getRecursive_copy obj c body h0

/-- json_pointer_get_internal = its token-level reading, for every document and NUL-free path -/
theorem getInternal_eq (obj : JVal) (p : Bytes) (hobj : obj ≠ .null) (h0 : (0 : UInt8) ∉ p) :
    getInternal obj p = .ok (getTok obj p) := by
  cases obj with
  | null => exact absurd rfl hobj
  | _ => exact getInternalBody_eq _ p h0

theorem getfBody_eq (obj : JVal) (out : Bytes) (h0 : (0 : UInt8) ∉ out) :
    getfBody obj out = .ok (if (getTok obj out).rc ≠ 0 then { rc := (getTok obj out).rc, errno := (getTok obj out).errno }
      else { rc := 0, node := some ((getTok obj out).pos, (getTok obj out).val) }) := by
  match out, h0 with
  | [], _ => rfl
  | c :: body, h0 =>
    have hc0 : c ≠ 0 := by intro e; apply h0; simp [e]
    have hrd : rd ((c :: body) ++ [0]) 0 "path_copy[0]" = .ok c := rfl
    simp only [getfBody, hrd, Outcome.bind_ok, if_neg hc0, getRecursive_copy obj c body h0]
    split <;> rfl

end JsonC.Pointer
