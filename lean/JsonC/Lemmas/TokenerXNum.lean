/-
  C16, numbers with the number extensions (`Rfc8259X.XNum`): superfluous leading zeros and exponents
  without digits.  Token lemmas: default mode scans, trims and classifies them to `XNum.denote`
  (`parsed_xnum`); strict mode stops on "number expected" (`xnum_rej`).  What is assumed of strtod on
  such texts is the named hypothesis `LibcSpecX`; the reference conversion satisfies it
  (`refLibc_x`).
-/
import JsonC.Lemmas.TokenerLibc
import JsonC.Lemmas.TokenerErrStop
import JsonC.Spec.Rfc8259X
namespace JsonC.Tokener
open JsonC Rfc8259 Rfc8259X

/-- what the C16 theorems assume of strtod on numbers with number extensions (named hypotheses,
never axioms; `refLibc_x` below; the correspondence runs compare with glibc) -/
structure LibcSpecX (lc : Libc) : Prop where
  /-- a number with superfluous leading zeros (and a number without fraction and exponent) is read
  completely, to the correctly rounded value of the number without the zeros -/
  dblLit : ∀ x : XNum, x.ok = true → lc.strtod x.lit = ((Dbl.strtod x.base.text).1, x.lit.length)
  /-- an exponent marker without digits is not consumed -/
  bareStops : ∀ x : XNum, x.ok = true → x.bare.isSome = true → (lc.strtod x.text).2 ≠ x.text.length

/-! ### the shape of the text -/

/-- the number as written, as a `Num` whose integer digits start with the superfluous zeros -/
def _root_.JsonC.Rfc8259X.XNum.zn (x : XNum) : Num := ⟨x.base.neg, List.replicate x.zeros 0 ++ x.base.int, x.base.frac, x.base.exp⟩

theorem digitsText_zeros (z : Nat) (ds : List Nat) :
    digitsText (List.replicate z 0 ++ ds) = List.replicate z 48 ++ digitsText ds := by
  simp [digitsText, digitByte]

theorem xnum_lit_eq (x : XNum) : x.lit = x.zn.text := by
  simp [XNum.lit, XNum.zn, Num.text, digitsText_zeros, List.append_assoc]

theorem digitsOk_zeros (z : Nat) (ds : List Nat) (h : digitsOk ds = true) : digitsOk (List.replicate z 0 ++ ds) = true := by
  simp only [digitsOk, Bool.and_eq_true, Bool.not_eq_true', List.isEmpty_eq_false_iff, List.all_eq_true,
    decide_eq_true_eq, ne_eq] at h ⊢
  refine ⟨by intro he; simp at he; exact h.1 he.2, ?_⟩
  intro d hd
  rcases List.mem_append.mp hd with h1 | h1
  · have := List.eq_of_mem_replicate h1; omega
  · exact h.2 d h1

theorem natOfDigits_zeros (z : Nat) (ds : List Nat) : natOfDigits (List.replicate z 0 ++ ds) = natOfDigits ds := by
  unfold natOfDigits
  induction z with
  | zero => simp
  | succ k ih => simpa [List.replicate_succ] using ih

theorem xnum_ok_parts (x : XNum) (h : x.ok = true) :
    x.base.ok = true ∧ (x.bare.isSome = true → x.base.exp = none) := by
  simp only [XNum.ok, Bool.and_eq_true, Bool.or_eq_true] at h
  refine ⟨h.1, fun hb => ?_⟩
  rcases h.2 with h2 | h2
  · rw [Option.isNone_iff_eq_none] at h2; rw [h2] at hb; cases hb
  · exact Option.isNone_iff_eq_none.mp h2

theorem getLast?_append_ne {α} (a b : List α) (hb : b ≠ []) : (a ++ b).getLast? = b.getLast? := by
  rw [List.getLast?_append]
  cases h : b.getLast? with
  | none => exact absurd (List.getLast?_eq_none_iff.mp h) hb
  | some x => rfl

/-- the text as written (without a digit-less exponent) ends in a digit -/
theorem xnum_lit_last (x : XNum) (hok : x.base.ok = true) : ∃ b, x.lit.getLast? = some b ∧ isDigit b = true := by
  obtain ⟨b, hb, hd⟩ := num_text_last x.base hok
  refine ⟨b, ?_, hd⟩
  obtain ⟨hi, _, _⟩ := num_ok_parts x.base hok
  have hne : digitsText x.base.int ++ (fracText x.base.frac ++ expText x.base.exp) ≠ [] := by
    have := (allDig_text x.base.int hi).2
    intro he; exact this (List.append_eq_nil_iff.mp he).1
  have e1 : x.lit = (signByte x.base.neg ++ List.replicate x.zeros 48) ++
      (digitsText x.base.int ++ (fracText x.base.frac ++ expText x.base.exp)) := by
    simp [XNum.lit, List.append_assoc]
  have e2 : x.base.text = signByte x.base.neg ++
      (digitsText x.base.int ++ (fracText x.base.frac ++ expText x.base.exp)) := by
    simp [Num.text, List.append_assoc]
  rw [e2, getLast?_append_ne _ _ hne] at hb
  rw [e1, getLast?_append_ne _ _ hne]
  exact hb

/-! ### the reference strtod on these texts -/

theorem scanDec'_of_eq (s : Bytes) (neg : Bool) (k0 kdot : Nat) (I R Fd E : Bytes)
    (h1 : signPart s = (neg, I ++ R, k0)) (hI : AllDig I) (hne : I ≠ []) (hR : Stops R)
    (h2 : fracPart R = (Fd, E, kdot)) :
    scanDec' s = some (neg, (I ++ Fd).foldl (fun a c => a * 10 + (c.toNat - 48)) 0, (expPart E).1 - Fd.length,
      k0 + I.length + kdot + Fd.length + (expPart E).2) := by
  have hemp : I.isEmpty = false := by cases I with | nil => exact absurd rfl hne | cons _ _ => rfl
  simp only [scanDec', h1, takeWhile_run I R hI hR, drop_run, h2, hemp, Bool.false_and, Bool.false_eq_true, if_false]

theorem allDig_zeros (z : Nat) : AllDig (List.replicate z 48) := by
  intro b hb; rw [List.eq_of_mem_replicate hb]; decide

theorem AllDig.append {a b : Bytes} (ha : AllDig a) (hb : AllDig b) : AllDig (a ++ b) := by
  intro x hx; rcases List.mem_append.mp hx with h | h
  · exact ha x h
  · exact hb x h

theorem fold_zeros (z : Nat) (r : Bytes) :
    (List.replicate z (48 : UInt8) ++ r).foldl (fun a c => a * 10 + (c.toNat - 48)) 0 =
      r.foldl (fun a c => a * 10 + (c.toNat - 48)) 0 := by
  induction z with
  | zero => simp
  | succ k ih => simpa [List.replicate_succ] using ih

/-- the tail of a number text after the integer digits, with an arbitrary exponent section `E` that
starts neither with a digit nor with '.' -/
theorem fracPart_gen (frac : Option (List Nat)) (E : Bytes) (hok : ∀ f, frac = some f → digitsOk f = true)
    (hE : Stops E) (h46 : ∀ c t, E = c :: t → c ≠ 46) :
    ∃ Fd kdot, fracPart (fracText frac ++ E) = (Fd, E, kdot) ∧ kdot + Fd.length = (fracText frac).length := by
  cases frac with
  | none =>
    refine ⟨[], 0, ?_, rfl⟩
    simp only [fracText, List.nil_append]
    cases he : E with
    | nil => rfl
    | cons c t => exact fracPart_other c t (h46 c t he)
  | some f =>
    obtain ⟨hD, _⟩ := allDig_text f (hok f rfl)
    refine ⟨digitsText f, 1, ?_, ?_⟩
    · exact fracPart_dot (digitsText f) E hD hE
    · simp only [fracText, List.length_cons]; omega

theorem fracText_stops_gen (frac : Option (List Nat)) (E : Bytes) (hE : Stops E) : Stops (fracText frac ++ E) := by
  cases frac with
  | none => simpa [fracText] using hE
  | some f => exact stops_cons _ _ (by decide)

/-- `scanDec` on sign, zeros, integer digits, fraction and an exponent section `E` -/
theorem scanDec_gen (neg : Bool) (z : Nat) (ip : List Nat) (frac : Option (List Nat)) (E : Bytes)
    (hi : digitsOk ip = true) (hf : ∀ f, frac = some f → digitsOk f = true) (hE : Stops E) (h46 : ∀ c t, E = c :: t → c ≠ 46) :
    ∃ (m : Nat) (Fd : Bytes) (kdot : Nat), kdot + Fd.length = (fracText frac).length ∧ ∀ z' : Nat,
      Dbl.scanDec (signByte neg ++ List.replicate z' 48 ++ digitsText ip ++ fracText frac ++ E) =
        some (neg, m, (expPart E).1 - Fd.length,
          (signByte neg).length + (z' + (digitsText ip).length) + kdot + Fd.length + (expPart E).2) := by
  obtain ⟨hI, hIne⟩ := allDig_text ip hi
  obtain ⟨Fd, kdot, h2, hk⟩ := fracPart_gen frac E hf hE h46
  refine ⟨(digitsText ip ++ Fd).foldl (fun a c => a * 10 + (c.toNat - 48)) 0, Fd, kdot, hk, ?_⟩
  intro z'
  have hZI : AllDig (List.replicate z' 48 ++ digitsText ip) := (allDig_zeros z').append hI
  have hZIne : List.replicate z' 48 ++ digitsText ip ≠ [] := by
    intro he; exact hIne (List.append_eq_nil_iff.mp he).2
  have h1 := signByte_part neg (List.replicate z' 48 ++ digitsText ip) (fracText frac ++ E) hZI hZIne
  have htxt : signByte neg ++ List.replicate z' 48 ++ digitsText ip ++ fracText frac ++ E =
      signByte neg ++ ((List.replicate z' 48 ++ digitsText ip) ++ (fracText frac ++ E)) := by
    simp only [List.append_assoc]
  rw [scanDec_eq, htxt, scanDec'_of_eq _ neg _ kdot _ _ Fd E h1 hZI hZIne (fracText_stops_gen frac E hE) h2]
  simp only [List.append_assoc, fold_zeros, List.length_append, List.length_replicate]

theorem expText_46 (ex : Option (Bool × Option Bool × List Nat)) : ∀ c t, expText ex = c :: t → c ≠ 46 :=
  expText_ne46 ex

theorem bareText_stops (b : Option (Bool × Option Bool)) : Stops (bareText b) := by
  cases b with
  | none => exact stops_nil
  | some p => obtain ⟨up, sg⟩ := p; cases up <;> exact stops_cons _ _ (by decide)

theorem bareText_46 (b : Option (Bool × Option Bool)) : ∀ c t, bareText b = c :: t → c ≠ 46 := by
  intro c t h
  cases b with
  | none => cases h
  | some p =>
    obtain ⟨up, sg⟩ := p
    cases up <;> (simp only [bareText] at h; injection h with h1 _; rw [← h1]; decide)

/-- an exponent marker without digits is not an exponent -/
theorem expPart_bare (b : Option (Bool × Option Bool)) : expPart (bareText b) = (0, 0) := by
  cases b with
  | none => rfl
  | some p =>
    obtain ⟨up, sg⟩ := p
    cases up <;> cases sg with
    | none => rfl
    | some s => cases s <;> rfl

theorem strtod_of_scan (s : Bytes) (neg : Bool) (m : Nat) (x : Int) (k : Nat) (h : Dbl.scanDec s = some (neg, m, x, k)) :
    (Dbl.strtod s).2 = k ∧ ∀ s' k', Dbl.scanDec s' = some (neg, m, x, k') → (Dbl.strtod s').1 = (Dbl.strtod s).1 := by
  refine ⟨by simp only [Dbl.strtod, h], ?_⟩
  intro s' k' h'
  simp only [Dbl.strtod, h, h']

/-- the reference strtod reads the text as written completely and to the value of the original number -/
theorem refLibc_dblLit (x : XNum) (hok : x.ok = true) :
    refLibc.strtod x.lit = ((Dbl.strtod x.base.text).1, x.lit.length) := by
  obtain ⟨hb, _⟩ := xnum_ok_parts x hok
  obtain ⟨hi, hf, he⟩ := num_ok_parts x.base hb
  obtain ⟨m, Fd, kdot, hk, hsc⟩ := scanDec_gen x.base.neg x.zeros x.base.int x.base.frac (expText x.base.exp) hi hf
    (expText_stops _) (expText_46 _)
  have h0 := hsc 0
  have hz := hsc x.zeros
  have e0 : signByte x.base.neg ++ List.replicate 0 48 ++ digitsText x.base.int ++ fracText x.base.frac ++ expText x.base.exp =
      x.base.text := by simp [Num.text]
  rw [e0] at h0
  have ez : signByte x.base.neg ++ List.replicate x.zeros 48 ++ digitsText x.base.int ++ fracText x.base.frac ++ expText x.base.exp =
      x.lit := rfl
  rw [ez] at hz
  obtain ⟨hlen, _⟩ := strtod_of_scan _ _ _ _ _ hz
  obtain ⟨_, hbits⟩ := strtod_of_scan _ _ _ _ _ h0
  have hb1 := hbits x.lit _ hz
  show Dbl.strtod x.lit = _
  have hx := expPart_text x.base.exp he
  refine Prod.ext hb1 ?_
  show (Dbl.strtod x.lit).2 = x.lit.length
  rw [hlen, hx]
  simp only [XNum.lit, List.length_append, List.length_replicate]
  omega

theorem refLibc_bareStops (x : XNum) (hok : x.ok = true) (hbare : x.bare.isSome = true) :
    (refLibc.strtod x.text).2 ≠ x.text.length := by
  obtain ⟨hb, hex⟩ := xnum_ok_parts x hok
  have hex := hex hbare
  obtain ⟨hi, hf, _⟩ := num_ok_parts x.base hb
  obtain ⟨m, Fd, kdot, hk, hsc⟩ := scanDec_gen x.base.neg x.zeros x.base.int x.base.frac (bareText x.bare) hi hf
    (bareText_stops _) (bareText_46 _)
  have hz := hsc x.zeros
  have ez : signByte x.base.neg ++ List.replicate x.zeros 48 ++ digitsText x.base.int ++ fracText x.base.frac ++ bareText x.bare =
      x.text := by simp [XNum.text, XNum.lit, hex, expText]
  rw [ez] at hz
  obtain ⟨hlen, _⟩ := strtod_of_scan _ _ _ _ _ hz
  show (Dbl.strtod x.text).2 ≠ _
  rw [hlen, expPart_bare]
  have hbl : 0 < (bareText x.bare).length := by
    cases hbb : x.bare with
    | none => rw [hbb] at hbare; cases hbare
    | some p => obtain ⟨up, sg⟩ := p; simp [bareText]
  simp only [XNum.text, XNum.lit, hex, expText, List.length_append, List.length_replicate, List.append_nil]
  omega

/-- the reference libc satisfies what the C16 theorems assume of strtod -/
theorem refLibc_x : LibcSpecX refLibc := ⟨refLibc_dblLit, refLibc_bareStops⟩

/-! ### scanning -/

/-- scanning the whole text of a number with number extensions -/
theorem xnum_scan (lc : Libc) (t : Tok) (l : Loc) (cur : JVal) (nm : Option Bytes) (rest : List Level)
    (hs : t.stack = ⟨.eatws, .start, cur, nm⟩ :: rest) (hv : NoVal t) (x : XNum) (hok : x.ok = true) :
    ∃ t' l', NumSt t t' l' cur nm rest x.text x.isDouble ∧ Reaches lc t l x.text t' l' := by
  obtain ⟨hb, hex⟩ := xnum_ok_parts x hok
  have hb' := hb
  simp only [Num.ok, Bool.and_eq_true] at hb'
  obtain ⟨⟨⟨hip, _⟩, hfr⟩, hexd⟩ := hb'
  obtain ⟨t1, l1, s1, r1, ne1⟩ := num_scan_parts lc t l cur nm rest hs hv x.base.neg (List.replicate x.zeros 0 ++ x.base.int)
    x.base.frac x.base.exp (digitsOk_zeros _ _ hip) hfr hexd
  have hlit : Num.text ⟨x.base.neg, List.replicate x.zeros 0 ++ x.base.int, x.base.frac, x.base.exp⟩ = x.lit :=
    (xnum_lit_eq x).symm
  rw [hlit] at s1 r1 ne1
  cases hbare : x.bare with
  | none =>
    refine ⟨t1, l1, ?_, ?_⟩
    · simpa [XNum.text, XNum.isDouble, hbare, bareText] using s1
    · simpa [XNum.text, hbare, bareText] using r1
  | some p =>
    obtain ⟨up, sg⟩ := p
    have hexn : x.base.exp = none := hex (by rw [hbare]; rfl)
    have ne1 := ne1 hexn
    let eb : UInt8 := if up then 69 else 101
    have heb : eb = 101 ∨ eb = 69 := by cases up <;> simp [eb]
    obtain ⟨ta, la, sa, ra⟩ := num_accept lc t t1 l1 cur nm rest _ _ hv s1 eb
      (by have := noE_isExp _ ne1; unfold numAccepts; rw [this]; rcases heb with h | h <;> simp [h])
    have hd : (x.base.frac.isSome || x.base.exp.isSome || eb == 46 || eb == 101 || eb == 69) = true := by
      rcases heb with h | h <;> simp [h]
    rw [hd] at sa
    have hsg := deriveNum_after_e x.lit eb heb
    have hdbl : x.isDouble = true := by simp [XNum.isDouble, hbare]
    cases sg with
    | none =>
      refine ⟨ta, la, ?_, ?_⟩
      · simpa [XNum.text, hbare, bareText, signText, hdbl, eb] using sa
      · have := Reaches.trans r1 ra
        simpa [XNum.text, hbare, bareText, signText, eb] using this
    | some b =>
      cases b with
      | true =>
        obtain ⟨tb, lb, sb, rb⟩ := num_accept lc t ta la cur nm rest _ true hv sa 45 (by unfold numAccepts; rw [hsg.1]; simp)
        refine ⟨tb, lb, ?_, ?_⟩
        · simpa [XNum.text, hbare, bareText, signText, hdbl, eb, List.append_assoc] using sb
        · have := Reaches.trans r1 (Reaches.trans ra rb)
          simpa [XNum.text, hbare, bareText, signText, eb, List.append_assoc] using this
      | false =>
        obtain ⟨tb, lb, sb, rb⟩ := num_accept lc t ta la cur nm rest _ true hv sa 43 (by unfold numAccepts; rw [hsg.2]; simp)
        refine ⟨tb, lb, ?_, ?_⟩
        · simpa [XNum.text, hbare, bareText, signText, hdbl, eb, List.append_assoc] using sb
        · have := Reaches.trans r1 (Reaches.trans ra rb)
          simpa [XNum.text, hbare, bareText, signText, eb, List.append_assoc] using this

/-! ### default mode: trimming and classification -/

/-- trimming drops one trailing e E + - (when something remains) -/
theorem trimNum_snoc (p : Bytes) (hne : p ≠ []) (b : UInt8) (hb : b = 101 ∨ b = 69 ∨ b = 45 ∨ b = 43) :
    trimNum (p ++ [b]) = trimNum p := by
  unfold trimNum
  simp only [List.reverse_append, List.reverse_cons, List.reverse_nil, List.nil_append, List.singleton_append]
  cases hr : p.reverse with
  | nil => exact absurd (by simpa using hr) hne
  | cons y ys =>
    have hbb : (b == 101 || b == 69 || b == 45 || b == 43) = true := by
      rcases hb with h | h | h | h <;> subst h <;> rfl
    simp [trimNum.go, hbb]

/-- default mode trims a digit-less exponent away: what is classified is the text as written -/
theorem xnum_trim (x : XNum) (hok : x.ok = true) : trimNum x.text = x.lit := by
  obtain ⟨hb, _⟩ := xnum_ok_parts x hok
  obtain ⟨lb, hlb, hld⟩ := xnum_lit_last x hb
  have hne : x.lit ≠ [] := by intro he; rw [he] at hlb; cases hlb
  have h0 := trimNum_digit_end x.lit lb hlb hld
  cases hbare : x.bare with
  | none => simpa [XNum.text, hbare, bareText] using h0
  | some p =>
    obtain ⟨up, sg⟩ := p
    have heb : (if up then (69 : UInt8) else 101) = 101 ∨ (if up then (69 : UInt8) else 101) = 69 ∨
        (if up then (69 : UInt8) else 101) = 45 ∨ (if up then (69 : UInt8) else 101) = 43 := by cases up <;> simp
    have h1 := trimNum_snoc x.lit hne _ heb
    cases sg with
    | none =>
      simp only [XNum.text, hbare, bareText, signText, List.append_nil]
      rw [h1, h0]
    | some s =>
      have hne2 : x.lit ++ [if up then (69 : UInt8) else 101] ≠ [] := by simp
      have hsb : (if s then (45 : UInt8) else 43) = 101 ∨ (if s then (45 : UInt8) else 43) = 69 ∨
          (if s then (45 : UInt8) else 43) = 45 ∨ (if s then (45 : UInt8) else 43) = 43 := by cases s <;> simp
      have h2 := trimNum_snoc _ hne2 _ hsb
      have e : x.text = (x.lit ++ [if up then (69 : UInt8) else 101]) ++ [if s then (45 : UInt8) else 43] := by
        cases s <;> simp [XNum.text, hbare, bareText, signText]
      rw [e, h2, h1, h0]

/-- **classification in default mode**: the text as written yields `XNum.denote` -/
theorem classify_xnum (lc : Libc) (hl : LibcSpec lc) (hx : LibcSpecX lc) (t : Tok) (x : XNum) (hok : x.ok = true)
    (hd : t.isDouble = x.isDouble) (hns : t.strict = false) : classifyNum lc t x.lit = .ok x.denote := by
  obtain ⟨hb, _⟩ := xnum_ok_parts x hok
  obtain ⟨hi, _, _⟩ := num_ok_parts x.base hb
  unfold classifyNum
  simp only [hns, Bool.false_and, Bool.false_eq_true, if_false, Bool.and_false]
  cases hdbl : x.isDouble with
  | true =>
    rw [hdbl] at hd
    have := hx.dblLit x hok
    simp [hd, this, XNum.denote, hdbl]
  | false =>
    rw [hdbl] at hd
    simp only [XNum.isDouble, Bool.or_eq_false_iff] at hdbl
    obtain ⟨⟨hfr, hex⟩, _⟩ := hdbl
    have hfr : x.base.frac = none := by cases h : x.base.frac <;> simp_all
    have hex : x.base.exp = none := by cases h : x.base.exp <;> simp_all
    have hz := digitsOk_zeros x.zeros x.base.int hi
    have htxt : x.lit = signByte x.base.neg ++ digitsText (List.replicate x.zeros 0 ++ x.base.int) := by
      simp [XNum.lit, hfr, hex, fracText, expText, digitsText_zeros]
    have hden : x.denote = x.base.denote := by simp [XNum.denote, XNum.isDouble, hfr, hex, *]
    rw [hden]
    simp only [hd, Bool.not_false, Bool.true_and, htxt]
    have hnat := natOfDigits_zeros x.zeros x.base.int
    cases hneg : x.base.neg with
    | true =>
      have hh : (signByte true ++ digitsText (List.replicate x.zeros 0 ++ x.base.int)).head? == some 45 := by simp [signByte]
      simp only [hh, if_true]
      have hi64 := hl.int64 _ hz
      have : signByte true ++ digitsText (List.replicate x.zeros 0 ++ x.base.int) =
          45 :: digitsText (List.replicate x.zeros 0 ++ x.base.int) := by simp [signByte]
      rw [this, hi64, hnat]
      simp only [Num.denote, hfr, hex, hneg]
      by_cases hlt : -(natOfDigits x.base.int : Int) < INT64_MIN
      · simp [hlt]
      · simp [hlt]
    | false =>
      obtain ⟨hZ, hZne⟩ := allDig_text _ hz
      have hh : ((signByte false ++ digitsText (List.replicate x.zeros 0 ++ x.base.int)).head? == some 45) = false := by
        cases hdt : digitsText (List.replicate x.zeros 0 ++ x.base.int) with
        | nil => exact absurd hdt hZne
        | cons b r =>
          have hbd : isDigit b = true := hZ b (by rw [hdt]; simp)
          have := digit_ne b 45 hbd (by decide)
          simp [signByte, this]
      simp only [hh, Bool.false_eq_true, if_false]
      have hu := hl.uint64 _ hz
      have : signByte false ++ digitsText (List.replicate x.zeros 0 ++ x.base.int) =
          digitsText (List.replicate x.zeros 0 ++ x.base.int) := by simp [signByte]
      rw [this, hu, hnat]
      simp only [Num.denote, hfr, hex, hneg]
      have hnn := natOfDigits_nonneg x.base.int
      by_cases hgt : (natOfDigits x.base.int : Int) > UINT64_MAX
      · rw [if_pos hgt, if_pos hgt]
        have h1 : ¬ ((natOfDigits x.base.int : Int) ≤ 9223372036854775807) := by
          simp only [UINT64_MAX] at hgt; omega
        simp [UINT64_MAX, INT64_MAX, h1]
      · rw [if_neg hgt, if_neg hgt]
        by_cases hle : (natOfDigits x.base.int : Int) ≤ INT64_MAX
        · simp [hle]
        · simp [hle]

/-- **a number with number extensions, default mode**: the whole token, ended by the byte that follows it -/
theorem parsed_xnum (lc : Libc) (hl : LibcSpec lc) (hx : LibcSpecX lc) (t : Tok) (l : Loc) (cur : JVal) (nm : Option Bytes)
    (rest : List Level) (hwf : WF t) (hs : t.stack = ⟨.eatws, .start, cur, nm⟩ :: rest) (hv : NoVal t) (hhs : t.hs = 0)
    (x : XNum) (hok : x.ok = true) (hns : t.strict = false) :
    Parsed lc t l x.text x.denote nm rest := by
  intro nb hnb hnul c off rs
  obtain ⟨t1, l1, s1, r1⟩ := xnum_scan lc t l cur nm rest hs hv x hok
  have hv1 := s1.noVal hv
  have hwf1 : WF t1 := wf_restack hwf hs s1.st s1.md (topOk_token .number (by simp) .start (by simp) cur nm)
    (posOk_of_ne (by simp) (by simp) (by simp))
  have hstrict1 : t1.strict = false := by simp [Tok.strict, s1.fl]; simpa [Tok.strict] using hns
  -- the text classified: trimmed when read as a double, untouched (and equal to the text as written) otherwise
  have htrim : (if t1.isDouble && !t1.strict then trimNum t1.pb else t1.pb) = x.lit := by
    rw [s1.pb, s1.d, hstrict1]
    cases hdbl : x.isDouble with
    | true => simpa using xnum_trim x hok
    | false =>
      have hb : x.bare = none := by
        simp only [XNum.isDouble, Bool.or_eq_false_iff] at hdbl
        cases h : x.bare <;> simp_all
      simp [XNum.text, hb, bareText]
  let tt : Tok := { t1 with stack := ⟨.number, .start, cur, nm⟩ :: rest, pb := x.lit }
  have hstrict : tt.strict = false := by simpa [tt, Tok.strict] using hstrict1
  have hcls : classifyNum lc tt x.lit = .ok x.denote :=
    classify_xnum lc hl hx tt x hok (by simp [tt, s1.d]) hstrict
  let tf : Tok := finishWith tt ⟨.number, .start, cur, nm⟩ rest x.denote
  have hd : disp lc t1 l1 nb = .redo tf { l1 with num := none } := by
    simp only [disp, s1.st, dNumber, dNumberCore, s1.fg, follow_not_accepted t1 _ nb hnb]
    have hdepth : (!rest.isEmpty && nb != 44 && nb != 93 && nb != 125 && nb != 47 && nb != 73 && nb != 105 && !isWs nb) = false := by
      rcases hnb with h | h | h | h | h | h
      · simp [h]
      · subst h; simp
      · subst h; simp
      · subst h; simp
      · have := hnul h; subst this; simp
      · subst h; simp
    have hinf : (t1.pb.head? == some 45 && t1.pb.length == 1 && (nb == 105 || nb == 73)) = false := by
      rcases hnb with h | h | h | h | h | h
      · have : (nb == 105) = false ∧ (nb == 73) = false := by
          simp only [isWs, Bool.or_eq_true, beq_iff_eq] at h
          rcases h with ((h | h) | h) | h <;> subst h <;> decide
        simp [this.1, this.2]
      all_goals subst h; simp
    simp only [Bool.false_eq_true, if_false, hdepth, hinf]
    rw [htrim]
    show (match classifyNum lc tt x.lit with
      | .ok v => Act.redo (finishWith tt ⟨.number, .start, cur, nm⟩ rest v) { l1 with num := none }
      | .error e => Act.err e tt { l1 with num := none }) = _
    rw [hcls]
  refine ⟨tf, { l1 with num := none }, rfl, ⟨s1.md, s1.fl, by simp [tf, finishWith, setTop, tt, s1.hs, hhs]⟩, ?_, rfl, ?_⟩
  · exact wf_restack hwf hs rfl s1.md (topOk_finish _ _) (posOk_of_ne (by simp) (by simp) (by simp))
  · rw [r1 c off (nb :: rs)]
    have hvf : tf.validateUtf8 = false := by
      have := hv1.validate; simpa [tf, finishWith, setTop, tt, Tok.validateUtf8] using this
    rw [run_redo lc t1 l1 nb tf _ hwf1 hv1.validate hvf hd]

/-! ### strict mode: rejection -/

theorem ite_err (A : Prop) [Decidable A] (B : Except PErr JVal) (h : B = .error .number) :
    (if A then .error .number else B) = .error .number := by
  by_cases hA : A <;> simp [hA, h]

/-- strict mode: the text of a number with a superfluous leading zero or a digit-less exponent is
classified as an error, whatever libc's integer conversions say -/
theorem classify_xnum_strict (lc : Libc) (hx : LibcSpecX lc) (t : Tok) (x : XNum) (hok : x.ok = true)
    (hd : t.isDouble = x.isDouble) (hst : t.strict = true) (hnp : x.plain = false) :
    classifyNum lc t x.text = .error .number := by
  obtain ⟨hb, _⟩ := xnum_ok_parts x hok
  obtain ⟨hi, _, _⟩ := num_ok_parts x.base hb
  unfold classifyNum
  simp only [hst, Bool.true_and]
  by_cases hz : x.zeros = 0
  · -- no superfluous zero: the extension is the digit-less exponent
    have hbare : x.bare.isSome = true := by
      simp only [XNum.plain, hz, beq_self_eq_true, Bool.true_and] at hnp
      cases h : x.bare <;> simp_all
    have hdbl : t.isDouble = true := by rw [hd]; simp [XNum.isDouble, hbare]
    have hstop := hx.bareStops x hok hbare
    apply ite_err
    simp only [hdbl, Bool.not_true, Bool.false_and, Bool.false_eq_true, if_false]
    have hne : ((lc.strtod x.text).2 == x.text.length) = false := by simpa using hstop
    simp [hne]
  · -- a superfluous zero: the strict-mode test on the first two digits fires
    obtain ⟨k, hk⟩ : ∃ k, x.zeros = k + 1 := ⟨x.zeros - 1, by omega⟩
    obtain ⟨hI, hIne⟩ := allDig_text x.base.int hi
    obtain ⟨d, more, hdm, hdd⟩ : ∃ d more, List.replicate k 48 ++ digitsText x.base.int = d :: more ∧ isDigit d = true := by
      cases k with
      | zero =>
        cases hdt : digitsText x.base.int with
        | nil => exact absurd hdt hIne
        | cons b r => exact ⟨b, r, by simp, hI b (by rw [hdt]; simp)⟩
      | succ j => exact ⟨48, List.replicate j 48 ++ digitsText x.base.int, by simp [List.replicate_succ], by decide⟩
    have htxt : x.text = signByte x.base.neg ++ 48 :: d :: (more ++ (fracText x.base.frac ++ (expText x.base.exp ++ bareText x.bare))) := by
      have : List.replicate x.zeros (48 : UInt8) ++ digitsText x.base.int = 48 :: d :: more := by
        rw [hk, List.replicate_succ, List.cons_append, hdm]
      simp only [XNum.text, XNum.lit, List.append_assoc]
      rw [← List.append_assoc (List.replicate x.zeros 48), this]
      simp
    rw [htxt]
    cases x.base.neg <;> simp [signByte, hdd, startsWithDigit]

/-- **strict mode rejects a number with a number extension**: the loop stops on "number expected"
at the byte that follows the token -/
theorem xnum_rej (lc : Libc) (hx : LibcSpecX lc) (t : Tok) (l : Loc) (cur : JVal) (nm : Option Bytes)
    (rest : List Level) (hs : t.stack = ⟨.eatws, .start, cur, nm⟩ :: rest) (hv : NoVal t)
    (x : XNum) (hok : x.ok = true) (hst : t.strict = true) (hnp : x.plain = false)
    (nb : UInt8) (hnb : Follow nb) (hnul : nb = 0 → rest = []) (c : UInt8) (off : Nat) (rs : Bytes) :
    ErrStop (run lc t l c off (x.text ++ nb :: rs)) := by
  obtain ⟨t1, l1, s1, r1⟩ := xnum_scan lc t l cur nm rest hs hv x hok
  have hv1 := s1.noVal hv
  have hstrict1 : t1.strict = true := by simp [Tok.strict, s1.fl]; simpa [Tok.strict] using hst
  let tt : Tok := { t1 with stack := ⟨.number, .start, cur, nm⟩ :: rest, pb := x.text }
  have hstrict : tt.strict = true := by simpa [tt, Tok.strict] using hstrict1
  have hcls : classifyNum lc tt x.text = .error .number :=
    classify_xnum_strict lc hx tt x hok (by simp [tt, s1.d]) hstrict hnp
  have hd : disp lc t1 l1 nb = .err .number tt { l1 with num := none } := by
    simp only [disp, s1.st, dNumber, dNumberCore, s1.fg, follow_not_accepted t1 _ nb hnb]
    have hdepth : (!rest.isEmpty && nb != 44 && nb != 93 && nb != 125 && nb != 47 && nb != 73 && nb != 105 && !isWs nb) = false := by
      rcases hnb with h | h | h | h | h | h
      · simp [h]
      · subst h; simp
      · subst h; simp
      · subst h; simp
      · have := hnul h; subst this; simp
      · subst h; simp
    have hinf : (x.text.head? == some 45 && x.text.length == 1 && (nb == 105 || nb == 73)) = false := by
      rcases hnb with h | h | h | h | h | h
      · have : (nb == 105) = false ∧ (nb == 73) = false := by
          simp only [isWs, Bool.or_eq_true, beq_iff_eq] at h
          rcases h with ((h | h) | h) | h <;> subst h <;> decide
        simp [this.1, this.2]
      all_goals subst h; simp
    simp only [s1.pb, Bool.false_eq_true, if_false, hdepth, hinf, hstrict1, Bool.not_true, Bool.and_false]
    show (match classifyNum lc tt x.text with
      | .ok v => Act.redo (finishWith tt ⟨.number, .start, cur, nm⟩ rest v) { l1 with num := none }
      | .error e => Act.err e tt { l1 with num := none }) = _
    rw [hcls]
  rw [r1 c off (nb :: rs)]
  exact run_err_of_feed lc t1 l1 hv1 nb .number tt _ (feed_of_disp lc t1 l1 nb _ hd (fun _ _ h => by cases h)) _ _ _

end JsonC.Tokener
