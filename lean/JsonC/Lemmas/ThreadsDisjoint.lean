/-
  Non-interference between threads that work on different nodes, and the "last operation" reading of
  `okTrace` (both for every update semantics).
-/
import JsonC.Lemmas.ThreadsBasic

namespace JsonC.Threads
open JsonC Generated

/-- a step of a thread whose current operation is on another node leaves node `n` alone -/
theorem step_other_node (sem : Sem) (c : Cfg) (t n : Nat)
    (h : ∀ th op rest, c.threads[t]? = some th → th.prog = op :: rest → op.node ≠ n) :
    (step sem c t).nodes[n]? = c.nodes[n]? := by
  unfold step
  split
  · rfl
  · split
    · rfl
    · rename_i th hth
      split
      · rfl
      · rename_i op rest hp
        have hne := h th op rest hth hp
        split
        · rfl
        · split
          · unfold stepOp
            split
            · simp only [finishOp]; rw [List.getElem?_set_ne]; simpa [Op.node] using hne
            · split
              · split <;> rfl
              · split
                · simp only [finishOp]; rw [List.getElem?_set_ne hne]
                · rfl
              · simp only [finishOp]; rw [List.getElem?_set_ne hne]
          · rfl

theorem progAt_withFault (c : Cfg) (w : String) (t : Nat) : progAt (withFault c w) t = progAt c t := rfl

/-- a step never adds operations to any thread's program -/
theorem progAt_step_subset (sem : Sem) (c : Cfg) (s t : Nat) (o : Op) (ho : o ∈ progAt (step sem c s) t) :
    o ∈ progAt c t := by
  unfold step at ho
  split at ho
  · exact ho
  · split at ho
    · exact ho
    · rename_i th hth
      split at ho
      · exact ho
      · rename_i op rest hp
        have hfin : ∀ nd old, o ∈ progAt (finishOp c s rest op nd old) t → o ∈ progAt c t := by
          intro nd old h
          rw [progAt_finishOp hth] at h
          by_cases hts : t = s
          · subst hts
            rw [if_pos rfl] at h
            rw [progAt_of hth, hp]
            exact List.mem_cons_of_mem _ h
          · rw [if_neg hts] at h; exact h
        have hset : ∀ pc, o ∈ progAt (setPc c s (op :: rest) pc) t → o ∈ progAt c t := by
          intro pc h
          rw [← hp, progAt_setPc hth] at h
          exact h
        split at ho
        · exact ho
        · split at ho
          · unfold stepOp at ho
            split at ho
            · exact hfin _ _ ho
            · split at ho
              · split at ho
                · exact hset _ ho
                · exact ho
              · split at ho
                · exact hfin _ _ ho
                · exact hset _ ho
              · exact hfin _ _ ho
          · exact ho

theorem run_other_node (sem : Sem) (c : Cfg) (sched : List Nat) (n : Nat)
    (h : ∀ t, t ∈ sched → ∀ o, o ∈ progAt c t → o.node ≠ n) :
    (run sem c sched).nodes[n]? = c.nodes[n]? := by
  induction sched generalizing c with
  | nil => rfl
  | cons s ss ih =>
    show (run sem (step sem c s) ss).nodes[n]? = c.nodes[n]?
    rw [ih (step sem c s) (fun t ht o ho => h t (List.mem_cons_of_mem _ ht) o (progAt_step_subset sem c s t o ho))]
    apply step_other_node
    intro th op rest hth hp
    apply h s (List.mem_cons_self ..) op
    rw [progAt_of hth, hp]
    exact List.mem_cons_self ..

theorem zeroPutsOn_append (a b : List Ev) (n : Nat) : zeroPutsOn (a ++ b) n = zeroPutsOn a n + zeroPutsOn b n := by
  simp [zeroPutsOn, List.countP_append]

/-- in a well-formed trace nothing on node `n` comes after (= is newer than) a put on `n` that observed 0 -/
theorem okTrace_last {newer older : List Ev} {e : Ev} {n : Nat} (h : okTrace (newer ++ e :: older))
    (hp : e.op = .put n) (hz : e.new = 0) : ∀ e', e' ∈ newer → e'.op.node ≠ n := by
  induction newer with
  | nil => intro e' he'; cases he'
  | cons x xs ih =>
    intro e' he'
    have h' : zeroPutsOn (xs ++ e :: older) x.op.node = 0 ∧ okTrace (xs ++ e :: older) := h
    obtain ⟨h0, hrest⟩ := h'
    cases he' with
    | head =>
      intro hx
      rw [hx, zeroPutsOn_append, zeroPutsOn_cons, if_pos ⟨hp, hz⟩] at h0
      omega
    | tail _ hmem => exact ih hrest e' hmem

end JsonC.Threads
