/-
  Model/Arraylist.lean computes what arraylist.c's growth / shrink functions, as translated from the current C source
  (Generated/Translated.lean, tools/extract/c2lean.py), compute: `array_list_expand_internal` and `array_list_shrink`
  return the same value, leave the same `size` / `length`, and ask `realloc` for exactly `new size * sizeof(void *)`
  bytes, for every array state and every argument.  `realloc`'s answer `c` is any value that is non-NULL exactly
  when the model's allocator grants the request.  The C code computes in wrapping `size_t` arithmetic
  (`% 18446744073709551616` in the translation), the model in unbounded naturals with a fault on wrap: the theorems
  show that on every defined run of the model no wrap occurs in the C code either.
-/
import JsonC.Model.Arraylist
import JsonC.Lemmas.TranslatedPb
namespace JsonC.TranslatedAl
open JsonC JsonC.Arraylist JsonC.Generated JsonC.CSem JsonC.TranslatedPb

theorem ckSize_bind {β : Type} (x : Nat) (s : String) (f : Nat → Outcome β) :
    (ckSize x s >>= f) = if x ≤ 18446744073709551615 then f x else .fault ("size_t wrap: " ++ s) := by
  unfold ckSize; split <;> rename_i h <;> simp [SIZE_T_MAX, sizeMax] at h <;> split <;> first | rfl | omega

/-- `array_list_expand_internal` -/
theorem expandInternal_agrees (alloc : Alloc) (a : Al) (max : Nat) (hmax : max ≤ SIZE_T_MAX) (hsz : a.size ≤ SIZE_T_MAX)
    (arr arrp t0 ns0 c : Int) (r : Al × Int) (h : expandInternal alloc a max = .ok r) (hc : c ≠ 0 ↔ r.2 = 0) :
    ∃ out, Translated.array_list_expand_internal arr max a.size arrp t0 ns0 c = .ok out ∧
      out.ret = r.2 ∧ out.arr_size = r.1.size ∧ r.1.length = a.length ∧ (r.2 = 0 ∨ r.2 = -1) ∧ (r.2 = -1 → r.1 = a ∧ out.arr_array = arrp) ∧
      (r.2 = 0 → (out.calls = [] ∧ r.1 = a ∧ max < a.size ∧ out.arr_array = arrp) ∨
         (out.calls = [("realloc", [arrp, (r.1.size : Int) * 8])] ∧ out.arr_array = c ∧ a.size ≤ max ∧ max ≤ r.1.size ∧ alloc (r.1.size * 8) = true)) := by
  unfold expandInternal at h
  unfold Translated.array_list_expand_internal Translated.array_list_expand_internal.j1
  simp only [SIZE_T_MAX, sizeMax, PTR, sizeofPtr, alHalfDiv, alGrowShift, ckSize_bind, Outcome.pure_eq, Outcome.bind_ok,
    Nat.reduceDiv, Nat.shiftLeft_eq, Nat.reducePow] at h hmax hsz ⊢
  repeat' split at h
  all_goals cases h
  all_goals (try simp only at hc ⊢)
  all_goals (by_cases hc0 : c = 0 <;> try omega)
  all_goals resolve_ifs
  all_goals refine ⟨_, rfl, ?_⟩
  all_goals try (simp <;> omega)
  all_goals (simp_all <;> omega)

theorem expandInternal_length (alloc : Alloc) (a : Al) (m : Nat) (hm : m ≤ SIZE_T_MAX) (hsz : a.size ≤ SIZE_T_MAX)
    (r : Al × Int) (h : expandInternal alloc a m = .ok r) : r.1.length = a.length := by
  obtain ⟨_, _, _, _, hl, _⟩ := expandInternal_agrees alloc a m hm hsz 0 0 0 0 (if r.2 = 0 then 1 else 0) r h
    (by by_cases h0 : r.2 = 0 <;> simp [h0])
  exact hl

/-- `array_list_shrink`; `cx` is the answer of the nested `array_list_expand_internal` call (tied by
`expandInternal_agrees`), `c` the answer of `realloc` -/
theorem shrink_agrees (alloc : Alloc) (a : Al) (es : Nat) (hes : es ≤ SIZE_T_MAX) (hsz : a.size ≤ SIZE_T_MAX)
    (hlen : a.length ≤ SIZE_T_MAX)
    (arr arrp t0 ns0 hp cx c : Int) (r : Res) (h : shrink alloc a es = .ok r) (hc : c ≠ 0 ↔ r.ret = 0)
    (hcx : cx = r.ret) :
    ∃ out, Translated.array_list_shrink arr es a.length a.size arrp t0 ns0 a.length r.al.size hp cx c = .ok out ∧
      out.ret = r.ret ∧ out.arr_size = r.al.size ∧ out.arr_length = a.length ∧ r.al.length = a.length := by
  unfold shrink at h
  unfold Translated.array_list_shrink Translated.array_list_shrink.j1
  simp only [SIZE_T_MAX, sizeMax, PTR, sizeofPtr, alShrinkMin, ckSize_bind, ckSub, Outcome.pure_eq, Outcome.bind_ok,
    Nat.reduceDiv] at h hes hsz hlen ⊢
  by_cases hlim : a.length ≤ 2305843009213693951
  · -- lim computed
    simp only [hlim, ↓reduceIte, Outcome.bind_ok] at h
    split at h
    · cases h; simp only at hc hcx ⊢; resolve_ifs; exact ⟨_, rfl, by simp <;> omega⟩
    · split at h
      · split at h
        · cases h; simp only at hc hcx ⊢; resolve_ifs; exact ⟨_, rfl, by simp <;> omega⟩
        · split at h
          · -- grows through expand_internal
            cases hx : expandInternal alloc a (a.length + es) with
            | fault w => rw [hx] at h; cases h
            | ok e =>
              rw [hx] at h
              have hl := expandInternal_length alloc a _ (by simp only [SIZE_T_MAX, sizeMax]; omega) (by simp only [SIZE_T_MAX, sizeMax]; omega) e hx
              simp only [Outcome.bind_ok] at h
              cases h
              simp only at hc hcx ⊢
              resolve_ifs
              exact ⟨_, rfl, by simp [hcx, hl] <;> omega⟩
          · try simp only [Outcome.bind_ok] at h
            repeat' split at h
            all_goals cases h
            all_goals (try simp only at hc hcx ⊢)
            all_goals (by_cases hc0 : c = 0 <;> try omega)
            all_goals resolve_ifs
            all_goals refine ⟨_, rfl, ?_⟩
            all_goals try (simp <;> omega)
            all_goals (simp_all <;> omega)
      · cases h
  · simp only [hlim, ↓reduceIte] at h
    cases h

/-- the release loop of `array_list_del_idx` from `i` to `stop`: whatever the slots hold, it ends after `stop - i`
iterations in the common tail (memmove of the elements behind the range, `length -= count`) -/
theorem delLoop_agrees (u1 u2 : Int) (fuelP : Nat) (cm : Int) (m1 m2 : Nat → Int) (arr idx count len ap fp : Int) (stop : Nat)
    (hstop : (stop : Int) < 18446744073709551616) :
    ∀ (rem i : Nat), i + rem = stop →
      ∀ (fuel0 it : Nat) (tr : List (String × List Int)), rem < fuel0 →
        ∃ out pre, Translated.array_list_del_idx.loop1 u1 u2 fuelP cm m1 m2 fuel0 it arr idx count len ap fp tr i stop = .ok out ∧
          out.ret = 0 ∧ out.arr_length = (len - count) % 18446744073709551616 ∧
          out.calls = tr ++ pre ++ [("memmove", [ap + idx * 8, ap + (stop : Int) * 8,
            (((len - stop) % 18446744073709551616) * 8) % 18446744073709551616])] := by
  intro rem
  induction rem with
  | zero =>
    intro i hi fuel0 it tr hf
    cases fuel0 with
    | zero => omega
    | succ f =>
      unfold Translated.array_list_del_idx.loop1 Translated.array_list_del_idx.j1
      rw [if_neg (by omega)]
      exact ⟨_, [], rfl, rfl, rfl, by simp⟩
  | succ r ih =>
    intro i hi fuel0 it tr hf
    cases fuel0 with
    | zero => omega
    | succ f =>
      unfold Translated.array_list_del_idx.loop1
      rw [if_pos (by omega)]
      have hn : ((i : Int) + 1) % 18446744073709551616 = ((i + 1 : Nat) : Int) := by omega
      simp only [hn]
      by_cases hz : m1 it ≠ 0
      · rw [if_pos hz]
        obtain ⟨out, pre, ho, h1, h2, h3⟩ := ih (i + 1) (by omega) f (it + 1)
          (tr ++ [("load8", [ap + (i : Int) * 8])] ++ [("load8", [ap + (i : Int) * 8])] ++ [("via_free_fn", [fp, m2 it])]) (by omega)
        exact ⟨out, [("load8", [ap + (i : Int) * 8]), ("load8", [ap + (i : Int) * 8]), ("via_free_fn", [fp, m2 it])] ++ pre,
          ho, h1, h2, by rw [h3]; simp⟩
      · rw [if_neg hz]
        obtain ⟨out, pre, ho, h1, h2, h3⟩ := ih (i + 1) (by omega) f (it + 1)
          (tr ++ [("load8", [ap + (i : Int) * 8])]) (by omega)
        exact ⟨out, [("load8", [ap + (i : Int) * 8])] ++ pre, ho, h1, h2, by rw [h3]; simp⟩

/-- `array_list_del_idx`: the three refusals and, when the range is inside the array, the new length and the memmove -/
theorem delIdx_agrees (a : Al) (idx count : Nat) (hidx : idx ≤ SIZE_T_MAX) (hcnt : count ≤ SIZE_T_MAX) (hlen : a.length ≤ SIZE_T_MAX)
    (arr ap fp u1 u2 cm : Int) (fuel : Nat) (hfuel : count < fuel) (m1 m2 : Nat → Int)
    (r : Res) (h : delIdx a idx count = .ok r) :
    ∃ out, Translated.array_list_del_idx arr idx count a.length ap fp u1 u2 fuel cm m1 m2 = .ok out ∧
      out.ret = r.ret ∧ out.arr_length = r.al.length ∧ (r.ret = -1 → out.calls = [] ∧ r.al = a) ∧
      (r.ret = 0 → ∃ pre, out.calls = pre ++ [("memmove", [ap + (idx : Int) * 8, ap + ((idx + count : Nat) : Int) * 8,
            ((a.length - (idx + count) : Nat) : Int) * 8])]) := by
  unfold delIdx at h
  unfold Translated.array_list_del_idx
  simp only [SIZE_T_MAX, sizeMax, PTR, sizeofPtr, ckSize_bind, ckSub, Outcome.pure_eq] at h hidx hcnt hlen
  have hc : count ≤ 18446744073709551615 := hcnt
  simp only [hc, ↓reduceIte, Outcome.bind_ok] at h
  split at h
  · cases h
    rw [if_pos (by omega)]
    exact ⟨_, rfl, rfl, rfl, by simp, by simp⟩
  · rw [if_neg (by omega)]
    split at h
    · split at h
      · rename_i hg
        cases h
        rcases hg with hg | hg
        · rw [if_pos (by omega)]
          exact ⟨_, rfl, rfl, rfl, by simp, by simp⟩
        · by_cases h1 : idx ≥ a.length
          · rw [if_pos (by omega)]
            exact ⟨_, rfl, rfl, rfl, by simp, by simp⟩
          · rw [if_neg (by omega), if_pos (by omega)]
            exact ⟨_, rfl, rfl, rfl, by simp, by simp⟩
      · rename_i hg
        rw [if_neg (by omega), if_neg (by omega)]
        have hs : ((idx : Int) + count) % 18446744073709551616 = ((idx + count : Nat) : Int) := by omega
        simp only [hs]
        obtain ⟨out, pre, ho, h1, h2, h3⟩ := delLoop_agrees u1 u2 fuel cm m1 m2 arr idx count a.length ap fp (idx + count) (by omega)
          count idx rfl fuel 0 [] hfuel
        -- the model's result on this path
        cases hrel : releaseLoop a idx (idx + count - idx) with
        | fault w => rw [hrel] at h; cases h
        | ok rel =>
          rw [hrel] at h
          simp only [Outcome.bind_ok] at h
          split at h
          · split at h
            · rename_i hl1 hl2
              simp only [Outcome.bind_ok] at h
              split at h
              · cases hmm : memmoveSlots a.slots idx (idx + count) (a.length - (idx + count)) "del_idx" with
                | fault w => rw [hmm] at h; cases h
                | ok sl =>
                  rw [hmm] at h
                  simp only [Outcome.bind_ok] at h
                  cases h
                  refine ⟨out, ho, by simp [h1], ?_, by simp, ?_⟩
                  · simp only [h2]; omega
                  · intro _
                    refine ⟨pre, ?_⟩
                    rw [h3]
                    simp only [List.nil_append, List.append_cancel_left_eq, List.cons.injEq, and_true, Prod.mk.injEq, true_and]
                    omega
              · first | cases h | omega
            · first | omega | cases h
          · first | omega | cases h
    · cases h


/-- `array_list_add`: `cx` is the answer of the nested `array_list_expand_internal(arr, length + 1)` (tied by
`expandInternal_agrees`), zero exactly when the model's expansion succeeds; `ap'` the array pointer after it -/
theorem add_agrees (alloc : Alloc) (a : Al) (data : Elem) (hlen : a.length ≤ SIZE_T_MAX) (hsz : a.size ≤ SIZE_T_MAX)
    (arr dp ap ap' cx : Int) (r : Res) (h : add alloc a data = .ok r)
    (hcx : cx ≠ 0 ↔ (r.ret = -1 ∧ a.length ≤ SIZE_T_MAX - 1)) :
    ∃ out, Translated.array_list_add arr dp a.length ap a.length ap' cx = .ok out ∧
      out.ret = r.ret ∧ out.arr_length = r.al.length ∧ (r.ret = 0 ∨ r.ret = -1) ∧
      (r.ret = 0 → out.calls = [("array_list_expand_internal", [arr, (a.length : Int) + 1]), ("store8", [ap' + (a.length : Int) * 8, dp])]) := by
  unfold add at h
  unfold Translated.array_list_add
  simp only [SIZE_T_MAX, sizeMax, alAddGuard, alAddNeed, ckSize_bind, Outcome.pure_eq] at h hlen hsz hcx
  split at h
  · cases h
    rw [if_pos (by omega)]
    exact ⟨_, rfl, rfl, rfl, by simp, by simp⟩
  · rw [if_neg (by omega)]
    split at h
    · cases hx : expandInternal alloc a (a.length + 1) with
      | fault w => rw [hx] at h; cases h
      | ok e =>
        rw [hx] at h
        have hl := expandInternal_length alloc a _ (by simp only [SIZE_T_MAX, sizeMax]; omega) (by simp only [SIZE_T_MAX, sizeMax]; omega) e hx
        obtain ⟨a1, rc⟩ := e
        simp only [Outcome.bind_ok] at h hl
        split at h
        · cases h
          have : cx ≠ 0 := hcx.mpr ⟨rfl, by omega⟩
          rw [if_pos this]
          exact ⟨_, rfl, rfl, by simp [hl], by simp, by simp⟩
        · cases hw : writeSlot a1 a.length data "add: arr->array[idx] = data" with
          | fault w => rw [hw] at h; cases h
          | ok a2 =>
            rw [hw] at h
            have hl2 : a2.length = a1.length := by
              unfold writeSlot at hw; split at hw <;> cases hw; rfl
            simp only [Outcome.bind_ok] at h
            split at h
            · cases h
              have : ¬ cx ≠ 0 := fun hc => by have := (hcx.mp hc).1; simp at this
              rw [if_neg this]
              have hm : (((a.length : Int) + 1) % 18446744073709551616) = (a.length : Int) + 1 := by omega
              simp only [hm]
              refine ⟨_, rfl, rfl, ?_, by simp, ?_⟩
              · simp only [hl2, hl]; push_cast; rfl
              · intro _; simp
            · cases h
    · cases h


theorem writeSlot_length (a : Al) (i : Nat) (e : Elem) (s : String) (a' : Al) (h : writeSlot a i e s = .ok a') :
    a'.length = a.length ∧ a'.size = a.size := by
  unfold writeSlot at h; split at h <;> cases h; exact ⟨rfl, rfl⟩

/-- what `putIdx` does after a successful expansion, as far as return value and length go -/
theorem putIdx_tail (a1 : Al) (idx : Nat) (data : Elem) (r : Res)
    (h : (do
      let rel ←
        if idx < a1.length then do
          let e ← readSlot a1 idx "put_idx: arr->array[idx]"
          pure (releaseOf e)
        else pure []
      let a ← writeSlot a1 idx data "put_idx: arr->array[idx] = data"
      let a ←
        if idx > a.length then do
          let d ← ckSub idx a.length "put_idx: idx - arr->length"
          let _ ← ckSize (d * PTR) "put_idx: (idx - arr->length) * sizeof(void *)"
          let s ← memsetNull a.slots a.length d "put_idx: gap"
          pure { a with slots := s }
        else pure a
      if a.length ≤ idx then do
        let len ← ckSize (idx + 1) "put_idx: arr->length = idx + 1"
        Outcome.ok (⟨{ a with length := len }, 0, none, none, rel⟩ : Res)
      else Outcome.ok ⟨a, 0, none, none, rel⟩) = Outcome.ok r) :
    r.ret = 0 ∧ r.al.length = (if a1.length ≤ idx then idx + 1 else a1.length) := by
  simp only [] at h
  have tail : ∀ (rel : List Arraylist.Id), (do
        let a ← writeSlot a1 idx data "put_idx: arr->array[idx] = data"
        if idx > a.length then do
            let d ← ckSub idx a.length "put_idx: idx - arr->length"
            let _ ← ckSize (d * PTR) "put_idx: (idx - arr->length) * sizeof(void *)"
            let s ← memsetNull a.slots a.length d "put_idx: gap"
            let a ← pure { slots := s, length := a.length, size := a.size }
            (if a.length ≤ idx then do
              let len ← ckSize (idx + 1) "put_idx: arr->length = idx + 1"
              Outcome.ok (⟨{ slots := a.slots, length := len, size := a.size }, 0, none, none, rel⟩ : Res)
            else Outcome.ok ⟨a, 0, none, none, rel⟩)
          else do
            let a ← pure a
            (if a.length ≤ idx then do
              let len ← ckSize (idx + 1) "put_idx: arr->length = idx + 1"
              Outcome.ok (⟨{ slots := a.slots, length := len, size := a.size }, 0, none, none, rel⟩ : Res)
            else Outcome.ok ⟨a, 0, none, none, rel⟩)) = Outcome.ok r →
      r.ret = 0 ∧ r.al.length = (if a1.length ≤ idx then idx + 1 else a1.length) := by
    intro rel h
    cases hw : writeSlot a1 idx data "put_idx: arr->array[idx] = data" with
    | fault w => rw [hw] at h; cases h
    | ok a2 =>
      rw [hw] at h
      have ⟨hl2, _⟩ := writeSlot_length _ _ _ _ _ hw
      simp only [Outcome.bind_ok] at h
      by_cases hgt : idx > a2.length
      · rw [if_pos hgt] at h
        simp only [ckSub, ckSize_bind] at h
        rw [if_pos (by omega)] at h
        simp only [Outcome.bind_ok] at h
        split at h
        · cases hm : memsetNull a2.slots a2.length (idx - a2.length) "put_idx: gap" with
          | fault w => rw [hm] at h; cases h
          | ok sl =>
            rw [hm] at h
            simp only [Outcome.bind_ok, Outcome.pure_eq] at h
            rw [if_pos (by omega)] at h
            split at h
            · cases h; refine ⟨rfl, ?_⟩; dsimp only; split <;> omega
            · cases h
        · cases h
      · rw [if_neg hgt] at h
        simp only [Outcome.bind_ok, Outcome.pure_eq, ckSize_bind] at h
        by_cases hle : a2.length ≤ idx
        · rw [if_pos hle] at h
          split at h
          · cases h; refine ⟨rfl, ?_⟩; dsimp only; split <;> omega
          · cases h
        · rw [if_neg hle] at h
          cases h; refine ⟨rfl, ?_⟩; dsimp only; split <;> omega
  by_cases h1 : idx < a1.length
  · rw [if_pos h1] at h
    cases hr : readSlot a1 idx "put_idx: arr->array[idx]" with
    | fault w => rw [hr] at h; cases h
    | ok e =>
      rw [hr] at h
      simp only [Outcome.bind_ok, Outcome.pure_eq] at h
      exact tail _ h
  · rw [if_neg h1] at h
    simp only [Outcome.bind_ok, Outcome.pure_eq] at h
    exact tail _ h

/-- the shape of `putIdx`: refused by the guard; or expansion failed; or the tail ran -/
theorem putIdx_shape (alloc : Alloc) (a : Al) (idx : Nat) (data : Elem) (r : Res) (h : putIdx alloc a idx data = .ok r) :
    (idx > SIZE_T_MAX - 1 ∧ r.ret = -1 ∧ r.al = a) ∨
    (idx ≤ SIZE_T_MAX - 1 ∧ ∃ a1 rc, expandInternal alloc a (idx + 1) = .ok (a1, rc) ∧
      ((rc ≠ 0 ∧ r.ret = -1 ∧ r.al = a1) ∨
       (rc = 0 ∧ r.ret = 0 ∧ r.al.length = (if a1.length ≤ idx then idx + 1 else a1.length)))) := by
  unfold putIdx at h
  have hg1 : alPutGuard = 1 := rfl
  have hn1 : alPutNeed = 1 := rfl
  rw [hg1, hn1] at h
  by_cases hg : idx > SIZE_T_MAX - 1
  · rw [if_pos hg] at h
    cases h
    exact Or.inl ⟨hg, rfl, rfl⟩
  · rw [if_neg hg] at h
    have hck : ckSize (idx + 1) "put_idx: idx + 1" = .ok (idx + 1) := by
      have hmx : SIZE_T_MAX = 18446744073709551615 := rfl
      unfold ckSize; rw [if_pos (by rw [hmx] at hg ⊢; omega)]
    rw [hck] at h
    simp only [Outcome.bind_ok] at h
    cases hx : expandInternal alloc a (idx + 1) with
    | fault w => rw [hx] at h; cases h
    | ok e =>
      rw [hx] at h
      obtain ⟨a1, rc⟩ := e
      simp only [Outcome.bind_ok] at h
      refine Or.inr ⟨by have hmx : SIZE_T_MAX = 18446744073709551615 := rfl; rw [hmx] at hg ⊢; omega, a1, rc, rfl, ?_⟩
      by_cases hrc : rc ≠ 0
      · rw [if_pos hrc] at h
        cases h
        exact Or.inl ⟨hrc, rfl, rfl⟩
      · rw [if_neg hrc] at h
        have ⟨h1, h2⟩ := putIdx_tail a1 idx data r h
        exact Or.inr ⟨by simpa using hrc, h1, h2⟩

/-- `array_list_put_idx`: return value and new length, whatever the overwritten slot holds (`m1`, `m2` are the two loads of
it); `cx` is the answer of `array_list_expand_internal(arr, idx + 1)`, zero exactly when the model's expansion succeeds -/
theorem putIdx_agrees (alloc : Alloc) (a : Al) (idx : Nat) (data : Elem) (hidx : idx ≤ SIZE_T_MAX) (hlen : a.length ≤ SIZE_T_MAX)
    (hsz : a.size ≤ SIZE_T_MAX)
    (arr dp ap ap' fp fp' cx cm m1 m2 : Int) (r : Res) (h : putIdx alloc a idx data = .ok r)
    (hcx : cx ≠ 0 ↔ (r.ret = -1 ∧ idx ≤ SIZE_T_MAX - 1)) :
    ∃ out, Translated.array_list_put_idx arr idx dp ap a.length fp ap' a.length fp' cx cm m1 m2 = .ok out ∧
      out.ret = r.ret ∧ out.arr_length = r.al.length ∧ (r.ret = 0 ∨ r.ret = -1) ∧
      (r.ret = 0 → ("store8", [ap' + (idx : Int) * 8, dp]) ∈ out.calls) := by
  have hsh := putIdx_shape alloc a idx data r h
  unfold Translated.array_list_put_idx Translated.array_list_put_idx.j2 Translated.array_list_put_idx.j1
  simp only [SIZE_T_MAX, sizeMax] at hsh hidx hlen hsz hcx
  rcases hsh with ⟨hg, hret, hal⟩ | ⟨hg, a1, rc, hx, hcase⟩
  · rw [if_pos (by omega)]
    exact ⟨_, rfl, by simp [hret], by simp [hal], by simp [hret], by simp [hret]⟩
  · rw [if_neg (by omega)]
    have hl := expandInternal_length alloc a _ (by simp only [SIZE_T_MAX, sizeMax]; omega) (by simp only [SIZE_T_MAX, sizeMax]; omega) (a1, rc) hx
    simp only at hl
    rcases hcase with ⟨hrc, hret, hal⟩ | ⟨hrc, hret, hlen'⟩
    · have : cx ≠ 0 := hcx.mpr ⟨hret, by omega⟩
      rw [if_pos this]
      exact ⟨_, rfl, by simp [hret], by simp [hal, hl], by simp [hret], by simp [hret]⟩
    · have hcx0 : ¬ cx ≠ 0 := fun hc => by have := (hcx.mp hc).1; omega
      rw [if_neg hcx0]
      rw [hl] at hlen'
      have hm : (((idx : Int) + 1) % 18446744073709551616) = (idx : Int) + 1 := by omega
      simp only [hm]
      by_cases hlt : idx < a.length
      · rw [if_pos (by omega)]
        by_cases hz : m1 ≠ 0
        · rw [if_pos hz, if_neg (by omega), if_neg (by omega)]
          refine ⟨_, rfl, by simp [hret], ?_, by simp [hret], by intro _; simp⟩
          simp only [hlen']; rw [if_neg (by omega)]
        · rw [if_neg hz, if_neg (by omega), if_neg (by omega)]
          refine ⟨_, rfl, by simp [hret], ?_, by simp [hret], by intro _; simp⟩
          simp only [hlen']; rw [if_neg (by omega)]
      · rw [if_neg (by omega)]
        by_cases hgt : idx > a.length
        · rw [if_pos (by omega), if_pos (by omega)]
          refine ⟨_, rfl, by simp [hret], ?_, by simp [hret], by intro _; simp⟩
          simp only [hlen']; rw [if_pos (by omega)]; push_cast; rfl
        · rw [if_neg (by omega), if_pos (by omega)]
          refine ⟨_, rfl, by simp [hret], ?_, by simp [hret], by intro _; simp⟩
          simp only [hlen']; rw [if_pos (by omega)]; push_cast; rfl


/-- `array_list_insert_idx`.  `cp` = the answer of the nested `array_list_put_idx` (taken when `idx >= length`; tied by
`putIdx_agrees`), `lp` the length it leaves; `cx` = the answer of `array_list_expand_internal(arr, length + 1)`. -/
theorem insertIdx_agrees (alloc : Alloc) (a : Al) (idx : Nat) (data : Elem) (hidx : idx ≤ SIZE_T_MAX) (hlen : a.length ≤ SIZE_T_MAX)
    (hsz : a.size ≤ SIZE_T_MAX)
    (arr dp ap u1 lp ap2 cp ap3 cx cm : Int) (r : Res) (h : insertIdx alloc a idx data = .ok r)
    (hcp : idx ≥ a.length → cp = r.ret ∧ lp = r.al.length)
    (hcx : cx ≠ 0 ↔ (r.ret = -1 ∧ idx < a.length ∧ a.length ≠ SIZE_T_MAX)) :
    ∃ out, Translated.array_list_insert_idx arr idx dp a.length ap u1 lp ap2 cp a.length ap3 cx cm = .ok out ∧
      out.ret = r.ret ∧ out.arr_length = r.al.length ∧
      (idx < a.length → r.ret = 0 →
        out.calls = [("array_list_expand_internal", [arr, (a.length : Int) + 1]),
                     ("memmove", [ap3 + (idx : Int) * 8 + 1 * 8, ap3 + (idx : Int) * 8, ((a.length - idx : Nat) : Int) * 8]),
                     ("store8", [ap3 + (idx : Int) * 8, dp])]) := by
  unfold insertIdx at h
  unfold Translated.array_list_insert_idx
  have hmx : SIZE_T_MAX = 18446744073709551615 := rfl
  rw [hmx] at hidx hlen hsz hcx
  by_cases hge : idx ≥ a.length
  · rw [if_pos hge] at h
    rw [if_pos (by omega)]
    have ⟨h1, h2⟩ := hcp hge
    exact ⟨_, rfl, h1, h2, by intro hlt; omega⟩
  · rw [if_neg hge] at h
    rw [if_neg (by omega)]
    by_cases hfull : a.length = SIZE_T_MAX
    · rw [if_pos hfull] at h
      cases h
      rw [hmx] at hfull
      rw [if_pos (by omega)]
      exact ⟨_, rfl, rfl, rfl, by intro _ h0; simp at h0⟩
    · rw [if_neg hfull] at h
      rw [hmx] at hfull
      rw [if_neg (by omega)]
      have hn1 : alInsNeed = 1 := rfl
      rw [hn1] at h
      have hck : ckSize (a.length + 1) "insert_idx: arr->length + 1" = .ok (a.length + 1) := by
        unfold ckSize; rw [if_pos (by rw [hmx]; omega)]
      rw [hck] at h
      simp only [Outcome.bind_ok] at h
      cases hx : expandInternal alloc a (a.length + 1) with
      | fault w => rw [hx] at h; cases h
      | ok e =>
        rw [hx] at h
        have hl := expandInternal_length alloc a _ (by rw [hmx]; omega) (by rw [hmx]; omega) e hx
        obtain ⟨a1, rc⟩ := e
        simp only [Outcome.bind_ok] at h hl
        by_cases hrc : rc ≠ 0
        · rw [if_pos hrc] at h
          cases h
          have : cx ≠ 0 := hcx.mpr ⟨rfl, by omega, by omega⟩
          rw [if_pos this]
          exact ⟨_, rfl, rfl, by simp [hl], by intro _ h0; simp at h0⟩
        · rw [if_neg hrc] at h
          -- the tail: d, memmove, store, length + 1
          simp only [ckSub, ckSize_bind, PTR, sizeofPtr] at h
          rw [if_pos (by omega)] at h
          simp only [Outcome.bind_ok] at h
          split at h
          · cases hmv : memmoveSlots a1.slots (idx + 1) idx (a1.length - idx) "insert_idx" with
            | fault w => rw [hmv] at h; cases h
            | ok sl =>
              rw [hmv] at h
              simp only [Outcome.bind_ok] at h
              cases hw : writeSlot { slots := sl, length := a1.length, size := a1.size } idx data "insert_idx: arr->array[idx] = data" with
              | fault w => rw [hw] at h; cases h
              | ok a2 =>
                rw [hw] at h
                have ⟨hl2, _⟩ := writeSlot_length _ _ _ _ _ hw
                simp only [Outcome.bind_ok] at h hl2
                split at h
                · cases h
                  have hcx0 : ¬ cx ≠ 0 := fun hc => by have := (hcx.mp hc).1; simp at this
                  rw [if_neg hcx0]
                  have hm1 : (((a.length : Int) + 1) % 18446744073709551616) = (a.length : Int) + 1 := by omega
                  have hm2 : ((((a.length : Int) - (idx : Int)) % 18446744073709551616) * 8) % 18446744073709551616 = ((a.length - idx : Nat) : Int) * 8 := by
                    rw [hl] at *; omega
                  simp only [hm1, hm2]
                  refine ⟨_, rfl, rfl, ?_, ?_⟩
                  · simp only [hl2, hl]; push_cast; rfl
                  · intro _ _; simp
                · cases h
          · cases h


/-- `array_list_get_idx`: NULL (and no load at all) at and past the end; otherwise the slot `array + i * sizeof(void *)` is
loaded and returned -/
theorem getIdx_agrees (a : Al) (i : Nat) (arr ap m : Int) :
    Translated.array_list_get_idx arr i a.length ap m =
      .ok (if i ≥ a.length then { ret := 0, calls := [] } else { ret := m, calls := [("load8", [ap + (i : Int) * 8])] }) := by
  unfold Translated.array_list_get_idx
  by_cases h : i ≥ a.length
  · rw [if_pos (by omega), if_pos h]; rfl
  · rw [if_neg (by omega), if_neg h]; rfl

end JsonC.TranslatedAl
