/-
  Model/Arraylist.lean computes what arraylist.c's growth / shrink functions, as translated from the current C source
  (Generated/Translated.lean, tools/extract/c2lean.py), compute: `array_list_expand_internal` and `array_list_shrink`
  return the same value, leave the same `size` / `length`, and ask `realloc` for exactly `new size * sizeof(void *)`
  bytes, for every array state and every argument.  `realloc`'s answer `c` is any value that is non-NULL exactly
  when the model's allocator grants the request.  The C code computes in wrapping `size_t` arithmetic
  (`% 18446744073709551616` in the translation), the model in unbounded naturals with a fault on wrap: the theorems
  show that on every defined run of the model no wrap occurs in the C code either.
-/
import JsonC.Model.Arraylist
import JsonC.Lemmas.TranslatedPb
namespace JsonC.TranslatedAl
open JsonC JsonC.Arraylist JsonC.Generated JsonC.CSem JsonC.TranslatedPb

theorem ckSize_bind {β : Type} (x : Nat) (s : String) (f : Nat → Outcome β) :
    (ckSize x s >>= f) = if x ≤ 18446744073709551615 then f x else .fault ("size_t wrap: " ++ s) := by
  unfold ckSize; split <;> rename_i h <;> simp [SIZE_T_MAX, sizeMax] at h <;> split <;> first | rfl | omega

/-- `array_list_expand_internal` -/
theorem expandInternal_agrees (alloc : Alloc) (a : Al) (max : Nat) (hmax : max ≤ SIZE_T_MAX) (hsz : a.size ≤ SIZE_T_MAX)
    (arr arrp t0 ns0 c : Int) (r : Al × Int) (h : expandInternal alloc a max = .ok r) (hc : c ≠ 0 ↔ r.2 = 0) :
    ∃ out, Translated.array_list_expand_internal arr max a.size arrp t0 ns0 c = .ok out ∧
      out.ret = r.2 ∧ out.arr_size = r.1.size ∧ r.1.length = a.length ∧ (r.2 = 0 ∨ r.2 = -1) ∧ (r.2 = -1 → r.1 = a ∧ out.arr_array = arrp) ∧
      (r.2 = 0 → (out.calls = [] ∧ r.1 = a ∧ max < a.size ∧ out.arr_array = arrp) ∨
         (out.calls = [("realloc", [arrp, (r.1.size : Int) * 8])] ∧ out.arr_array = c ∧ a.size ≤ max ∧ max ≤ r.1.size ∧ alloc (r.1.size * 8) = true)) := by
  unfold expandInternal at h
  unfold Translated.array_list_expand_internal Translated.array_list_expand_internal.j1
  simp only [SIZE_T_MAX, sizeMax, PTR, sizeofPtr, alHalfDiv, alGrowShift, ckSize_bind, Outcome.pure_eq, Outcome.bind_ok,
    Nat.reduceDiv, Nat.shiftLeft_eq, Nat.reducePow] at h hmax hsz ⊢
  repeat' split at h
  all_goals cases h
  all_goals (try simp only at hc ⊢)
  all_goals (by_cases hc0 : c = 0 <;> try omega)
  all_goals resolve_ifs
  all_goals refine ⟨_, rfl, ?_⟩
  all_goals try (simp <;> omega)
  all_goals (simp_all <;> omega)

theorem expandInternal_length (alloc : Alloc) (a : Al) (m : Nat) (hm : m ≤ SIZE_T_MAX) (hsz : a.size ≤ SIZE_T_MAX)
    (r : Al × Int) (h : expandInternal alloc a m = .ok r) : r.1.length = a.length := by
  obtain ⟨_, _, _, _, hl, _⟩ := expandInternal_agrees alloc a m hm hsz 0 0 0 0 (if r.2 = 0 then 1 else 0) r h
    (by by_cases h0 : r.2 = 0 <;> simp [h0])
  exact hl

/-- `array_list_shrink`; `cx` is the answer of the nested `array_list_expand_internal` call (tied by
`expandInternal_agrees`), `c` the answer of `realloc` -/
theorem shrink_agrees (alloc : Alloc) (a : Al) (es : Nat) (hes : es ≤ SIZE_T_MAX) (hsz : a.size ≤ SIZE_T_MAX)
    (hlen : a.length ≤ SIZE_T_MAX)
    (arr arrp t0 ns0 hp cx c : Int) (r : Res) (h : shrink alloc a es = .ok r) (hc : c ≠ 0 ↔ r.ret = 0)
    (hcx : cx = r.ret) :
    ∃ out, Translated.array_list_shrink arr es a.length a.size arrp t0 ns0 a.length r.al.size hp cx c = .ok out ∧
      out.ret = r.ret ∧ out.arr_size = r.al.size ∧ out.arr_length = a.length ∧ r.al.length = a.length := by
  unfold shrink at h
  unfold Translated.array_list_shrink Translated.array_list_shrink.j1
  simp only [SIZE_T_MAX, sizeMax, PTR, sizeofPtr, alShrinkMin, ckSize_bind, ckSub, Outcome.pure_eq, Outcome.bind_ok,
    Nat.reduceDiv] at h hes hsz hlen ⊢
  by_cases hlim : a.length ≤ 2305843009213693951
  · -- lim computed
    simp only [hlim, ↓reduceIte, Outcome.bind_ok] at h
    split at h
    · cases h; simp only at hc hcx ⊢; resolve_ifs; exact ⟨_, rfl, by simp <;> omega⟩
    · split at h
      · split at h
        · cases h; simp only at hc hcx ⊢; resolve_ifs; exact ⟨_, rfl, by simp <;> omega⟩
        · split at h
          · -- grows through expand_internal
            cases hx : expandInternal alloc a (a.length + es) with
            | fault w => rw [hx] at h; cases h
            | ok e =>
              rw [hx] at h
              have hl := expandInternal_length alloc a _ (by simp only [SIZE_T_MAX, sizeMax]; omega) (by simp only [SIZE_T_MAX, sizeMax]; omega) e hx
              simp only [Outcome.bind_ok] at h
              cases h
              simp only at hc hcx ⊢
              resolve_ifs
              exact ⟨_, rfl, by simp [hcx, hl] <;> omega⟩
          · try simp only [Outcome.bind_ok] at h
            repeat' split at h
            all_goals cases h
            all_goals (try simp only at hc hcx ⊢)
            all_goals (by_cases hc0 : c = 0 <;> try omega)
            all_goals resolve_ifs
            all_goals refine ⟨_, rfl, ?_⟩
            all_goals try (simp <;> omega)
            all_goals (simp_all <;> omega)
      · cases h
  · simp only [hlim, ↓reduceIte] at h
    cases h
end JsonC.TranslatedAl
