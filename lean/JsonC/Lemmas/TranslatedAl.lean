/-
  Model/Arraylist.lean computes what arraylist.c's growth / shrink functions, as translated from the current C source
  (Generated/Translated.lean, tools/extract/c2lean.py), compute: `array_list_expand_internal` and `array_list_shrink`
  return the same value, leave the same `size` / `length`, and ask `realloc` for exactly `new size * sizeof(void *)`
  bytes, for every array state and every argument.  `realloc`'s answer `c` is any value that is non-NULL exactly
  when the model's allocator grants the request.  The C code computes in wrapping `size_t` arithmetic
  (`% 18446744073709551616` in the translation), the model in unbounded naturals with a fault on wrap: the theorems
  show that on every defined run of the model no wrap occurs in the C code either.
-/
import JsonC.Model.Arraylist
import JsonC.Lemmas.TranslatedPb
namespace JsonC.TranslatedAl
open JsonC JsonC.Arraylist JsonC.Generated JsonC.CSem JsonC.TranslatedPb

theorem ckSize_bind {β : Type} (x : Nat) (s : String) (f : Nat → Outcome β) :
    (ckSize x s >>= f) = if x ≤ 18446744073709551615 then f x else .fault ("size_t wrap: " ++ s) := by
  unfold ckSize; split <;> rename_i h <;> simp [SIZE_T_MAX, sizeMax] at h <;> split <;> first | rfl | omega

/-- `array_list_expand_internal` -/
theorem expandInternal_agrees (alloc : Alloc) (a : Al) (max : Nat) (hmax : max ≤ SIZE_T_MAX) (hsz : a.size ≤ SIZE_T_MAX)
    (arr arrp t0 ns0 c : Int) (r : Al × Int) (h : expandInternal alloc a max = .ok r) (hc : c ≠ 0 ↔ r.2 = 0) :
    ∃ out, Translated.array_list_expand_internal arr max a.size arrp t0 ns0 c = .ok out ∧
      out.ret = r.2 ∧ out.arr_size = r.1.size ∧ r.1.length = a.length ∧ (r.2 = 0 ∨ r.2 = -1) ∧ (r.2 = -1 → r.1 = a ∧ out.arr_array = arrp) ∧
      (r.2 = 0 → (out.calls = [] ∧ r.1 = a ∧ max < a.size ∧ out.arr_array = arrp) ∨
         (out.calls = [("realloc", [arrp, (r.1.size : Int) * 8])] ∧ out.arr_array = c ∧ a.size ≤ max ∧ max ≤ r.1.size ∧ alloc (r.1.size * 8) = true)) := by
  unfold expandInternal at h
  unfold Translated.array_list_expand_internal Translated.array_list_expand_internal.j1
  simp only [SIZE_T_MAX, sizeMax, PTR, sizeofPtr, alHalfDiv, alGrowShift, ckSize_bind, Outcome.pure_eq, Outcome.bind_ok,
    Nat.reduceDiv, Nat.shiftLeft_eq, Nat.reducePow] at h hmax hsz ⊢
  repeat' split at h
  all_goals cases h
  all_goals (try simp only at hc ⊢)
  all_goals (by_cases hc0 : c = 0 <;> try omega)
  all_goals resolve_ifs
  all_goals refine ⟨_, rfl, ?_⟩
  all_goals try (simp <;> omega)
  all_goals (simp_all <;> omega)

theorem expandInternal_length (alloc : Alloc) (a : Al) (m : Nat) (hm : m ≤ SIZE_T_MAX) (hsz : a.size ≤ SIZE_T_MAX)
    (r : Al × Int) (h : expandInternal alloc a m = .ok r) : r.1.length = a.length := by
  obtain ⟨_, _, _, _, hl, _⟩ := expandInternal_agrees alloc a m hm hsz 0 0 0 0 (if r.2 = 0 then 1 else 0) r h
    (by by_cases h0 : r.2 = 0 <;> simp [h0])
  exact hl

/-- `array_list_shrink`; `cx` is the answer of the nested `array_list_expand_internal` call (tied by
`expandInternal_agrees`), `c` the answer of `realloc` -/
theorem shrink_agrees (alloc : Alloc) (a : Al) (es : Nat) (hes : es ≤ SIZE_T_MAX) (hsz : a.size ≤ SIZE_T_MAX)
    (hlen : a.length ≤ SIZE_T_MAX)
    (arr arrp t0 ns0 hp cx c : Int) (r : Res) (h : shrink alloc a es = .ok r) (hc : c ≠ 0 ↔ r.ret = 0)
    (hcx : cx = r.ret) :
    ∃ out, Translated.array_list_shrink arr es a.length a.size arrp t0 ns0 a.length r.al.size hp cx c = .ok out ∧
      out.ret = r.ret ∧ out.arr_size = r.al.size ∧ out.arr_length = a.length ∧ r.al.length = a.length := by
  unfold shrink at h
  unfold Translated.array_list_shrink Translated.array_list_shrink.j1
  simp only [SIZE_T_MAX, sizeMax, PTR, sizeofPtr, alShrinkMin, ckSize_bind, ckSub, Outcome.pure_eq, Outcome.bind_ok,
    Nat.reduceDiv] at h hes hsz hlen ⊢
  by_cases hlim : a.length ≤ 2305843009213693951
  · -- lim computed
    simp only [hlim, ↓reduceIte, Outcome.bind_ok] at h
    split at h
    · cases h; simp only at hc hcx ⊢; resolve_ifs; exact ⟨_, rfl, by simp <;> omega⟩
    · split at h
      · split at h
        · cases h; simp only at hc hcx ⊢; resolve_ifs; exact ⟨_, rfl, by simp <;> omega⟩
        · split at h
          · -- grows through expand_internal
            cases hx : expandInternal alloc a (a.length + es) with
            | fault w => rw [hx] at h; cases h
            | ok e =>
              rw [hx] at h
              have hl := expandInternal_length alloc a _ (by simp only [SIZE_T_MAX, sizeMax]; omega) (by simp only [SIZE_T_MAX, sizeMax]; omega) e hx
              simp only [Outcome.bind_ok] at h
              cases h
              simp only at hc hcx ⊢
              resolve_ifs
              exact ⟨_, rfl, by simp [hcx, hl] <;> omega⟩
          · try simp only [Outcome.bind_ok] at h
            repeat' split at h
            all_goals cases h
            all_goals (try simp only at hc hcx ⊢)
            all_goals (by_cases hc0 : c = 0 <;> try omega)
            all_goals resolve_ifs
            all_goals refine ⟨_, rfl, ?_⟩
            all_goals try (simp <;> omega)
            all_goals (simp_all <;> omega)
      · cases h
  · simp only [hlim, ↓reduceIte] at h
    cases h

/-- the release loop of `array_list_del_idx` from `i` to `stop`: whatever the slots hold, it ends after `stop - i`
iterations in the common tail (memmove of the elements behind the range, `length -= count`) -/
theorem delLoop_agrees (u1 u2 : Int) (fuelP : Nat) (cm : Int) (m1 m2 : Nat → Int) (arr idx count len ap fp : Int) (stop : Nat)
    (hstop : (stop : Int) < 18446744073709551616) :
    ∀ (rem i : Nat), i + rem = stop →
      ∀ (fuel0 it : Nat) (tr : List (String × List Int)), rem < fuel0 →
        ∃ out pre, Translated.array_list_del_idx.loop1 u1 u2 fuelP cm m1 m2 fuel0 it arr idx count len ap fp tr i stop = .ok out ∧
          out.ret = 0 ∧ out.arr_length = (len - count) % 18446744073709551616 ∧
          out.calls = tr ++ pre ++ [("memmove", [ap + idx * 8, ap + (stop : Int) * 8,
            (((len - stop) % 18446744073709551616) * 8) % 18446744073709551616])] := by
  intro rem
  induction rem with
  | zero =>
    intro i hi fuel0 it tr hf
    cases fuel0 with
    | zero => omega
    | succ f =>
      unfold Translated.array_list_del_idx.loop1 Translated.array_list_del_idx.j1
      rw [if_neg (by omega)]
      exact ⟨_, [], rfl, rfl, rfl, by simp⟩
  | succ r ih =>
    intro i hi fuel0 it tr hf
    cases fuel0 with
    | zero => omega
    | succ f =>
      unfold Translated.array_list_del_idx.loop1
      rw [if_pos (by omega)]
      have hn : ((i : Int) + 1) % 18446744073709551616 = ((i + 1 : Nat) : Int) := by omega
      simp only [hn]
      by_cases hz : m1 it ≠ 0
      · rw [if_pos hz]
        obtain ⟨out, pre, ho, h1, h2, h3⟩ := ih (i + 1) (by omega) f (it + 1)
          (tr ++ [("load8", [ap + (i : Int) * 8])] ++ [("load8", [ap + (i : Int) * 8])] ++ [("via_free_fn", [fp, m2 it])]) (by omega)
        exact ⟨out, [("load8", [ap + (i : Int) * 8]), ("load8", [ap + (i : Int) * 8]), ("via_free_fn", [fp, m2 it])] ++ pre,
          ho, h1, h2, by rw [h3]; simp⟩
      · rw [if_neg hz]
        obtain ⟨out, pre, ho, h1, h2, h3⟩ := ih (i + 1) (by omega) f (it + 1)
          (tr ++ [("load8", [ap + (i : Int) * 8])]) (by omega)
        exact ⟨out, [("load8", [ap + (i : Int) * 8])] ++ pre, ho, h1, h2, by rw [h3]; simp⟩

/-- `array_list_del_idx`: the three refusals and, when the range is inside the array, the new length and the memmove -/
theorem delIdx_agrees (a : Al) (idx count : Nat) (hidx : idx ≤ SIZE_T_MAX) (hcnt : count ≤ SIZE_T_MAX) (hlen : a.length ≤ SIZE_T_MAX)
    (arr ap fp u1 u2 cm : Int) (fuel : Nat) (hfuel : count < fuel) (m1 m2 : Nat → Int)
    (r : Res) (h : delIdx a idx count = .ok r) :
    ∃ out, Translated.array_list_del_idx arr idx count a.length ap fp u1 u2 fuel cm m1 m2 = .ok out ∧
      out.ret = r.ret ∧ out.arr_length = r.al.length ∧ (r.ret = -1 → out.calls = [] ∧ r.al = a) ∧
      (r.ret = 0 → ∃ pre, out.calls = pre ++ [("memmove", [ap + (idx : Int) * 8, ap + ((idx + count : Nat) : Int) * 8,
            ((a.length - (idx + count) : Nat) : Int) * 8])]) := by
  unfold delIdx at h
  unfold Translated.array_list_del_idx
  simp only [SIZE_T_MAX, sizeMax, PTR, sizeofPtr, ckSize_bind, ckSub, Outcome.pure_eq] at h hidx hcnt hlen
  have hc : count ≤ 18446744073709551615 := hcnt
  simp only [hc, ↓reduceIte, Outcome.bind_ok] at h
  split at h
  · cases h
    rw [if_pos (by omega)]
    exact ⟨_, rfl, rfl, rfl, by simp, by simp⟩
  · rw [if_neg (by omega)]
    split at h
    · split at h
      · rename_i hg
        cases h
        rcases hg with hg | hg
        · rw [if_pos (by omega)]
          exact ⟨_, rfl, rfl, rfl, by simp, by simp⟩
        · by_cases h1 : idx ≥ a.length
          · rw [if_pos (by omega)]
            exact ⟨_, rfl, rfl, rfl, by simp, by simp⟩
          · rw [if_neg (by omega), if_pos (by omega)]
            exact ⟨_, rfl, rfl, rfl, by simp, by simp⟩
      · rename_i hg
        rw [if_neg (by omega), if_neg (by omega)]
        have hs : ((idx : Int) + count) % 18446744073709551616 = ((idx + count : Nat) : Int) := by omega
        simp only [hs]
        obtain ⟨out, pre, ho, h1, h2, h3⟩ := delLoop_agrees u1 u2 fuel cm m1 m2 arr idx count a.length ap fp (idx + count) (by omega)
          count idx rfl fuel 0 [] hfuel
        -- the model's result on this path
        cases hrel : releaseLoop a idx (idx + count - idx) with
        | fault w => rw [hrel] at h; cases h
        | ok rel =>
          rw [hrel] at h
          simp only [Outcome.bind_ok] at h
          split at h
          · split at h
            · rename_i hl1 hl2
              simp only [Outcome.bind_ok] at h
              split at h
              · cases hmm : memmoveSlots a.slots idx (idx + count) (a.length - (idx + count)) "del_idx" with
                | fault w => rw [hmm] at h; cases h
                | ok sl =>
                  rw [hmm] at h
                  simp only [Outcome.bind_ok] at h
                  cases h
                  refine ⟨out, ho, by simp [h1], ?_, by simp, ?_⟩
                  · simp only [h2]; omega
                  · intro _
                    refine ⟨pre, ?_⟩
                    rw [h3]
                    simp only [List.nil_append, List.append_cancel_left_eq, List.cons.injEq, and_true, Prod.mk.injEq, true_and]
                    omega
              · first | cases h | omega
            · first | omega | cases h
          · first | omega | cases h
    · cases h


/-- `array_list_add`: `cx` is the answer of the nested `array_list_expand_internal(arr, length + 1)` (tied by
`expandInternal_agrees`), zero exactly when the model's expansion succeeds; `ap'` the array pointer after it -/
theorem add_agrees (alloc : Alloc) (a : Al) (data : Elem) (hlen : a.length ≤ SIZE_T_MAX) (hsz : a.size ≤ SIZE_T_MAX)
    (arr dp ap ap' cx : Int) (r : Res) (h : add alloc a data = .ok r)
    (hcx : cx ≠ 0 ↔ (r.ret = -1 ∧ a.length ≤ SIZE_T_MAX - 1)) :
    ∃ out, Translated.array_list_add arr dp a.length ap a.length ap' cx = .ok out ∧
      out.ret = r.ret ∧ out.arr_length = r.al.length ∧ (r.ret = 0 ∨ r.ret = -1) ∧
      (r.ret = 0 → out.calls = [("array_list_expand_internal", [arr, (a.length : Int) + 1]), ("store8", [ap' + (a.length : Int) * 8, dp])]) := by
  unfold add at h
  unfold Translated.array_list_add
  simp only [SIZE_T_MAX, sizeMax, alAddGuard, alAddNeed, ckSize_bind, Outcome.pure_eq] at h hlen hsz hcx
  split at h
  · cases h
    rw [if_pos (by omega)]
    exact ⟨_, rfl, rfl, rfl, by simp, by simp⟩
  · rw [if_neg (by omega)]
    split at h
    · cases hx : expandInternal alloc a (a.length + 1) with
      | fault w => rw [hx] at h; cases h
      | ok e =>
        rw [hx] at h
        have hl := expandInternal_length alloc a _ (by simp only [SIZE_T_MAX, sizeMax]; omega) (by simp only [SIZE_T_MAX, sizeMax]; omega) e hx
        obtain ⟨a1, rc⟩ := e
        simp only [Outcome.bind_ok] at h hl
        split at h
        · cases h
          have : cx ≠ 0 := hcx.mpr ⟨rfl, by omega⟩
          rw [if_pos this]
          exact ⟨_, rfl, rfl, by simp [hl], by simp, by simp⟩
        · cases hw : writeSlot a1 a.length data "add: arr->array[idx] = data" with
          | fault w => rw [hw] at h; cases h
          | ok a2 =>
            rw [hw] at h
            have hl2 : a2.length = a1.length := by
              unfold writeSlot at hw; split at hw <;> cases hw; rfl
            simp only [Outcome.bind_ok] at h
            split at h
            · cases h
              have : ¬ cx ≠ 0 := fun hc => by have := (hcx.mp hc).1; simp at this
              rw [if_neg this]
              have hm : (((a.length : Int) + 1) % 18446744073709551616) = (a.length : Int) + 1 := by omega
              simp only [hm]
              refine ⟨_, rfl, rfl, ?_, by simp, ?_⟩
              · simp only [hl2, hl]; push_cast; rfl
              · intro _; simp
            · cases h
    · cases h

end JsonC.TranslatedAl
