/-
  C02 helper lemmas, part 5: induction principle for trees, colour stripping, and the layout
  pieces (separators, indentation, closing bracket) as whitespace of the RFC document.
-/
import JsonC.Lemmas.SerializeDbl

namespace JsonC.Serialize
open JsonC Generated SerSpec Rfc8259

/-- mutual induction over a tree, its element lists and its member lists -/
theorem tree_ind {P : JVal → Prop} {PL : List JVal → Prop} {PM : List (Bytes × JVal) → Prop}
    (hnull : P .null) (hbool : ∀ b, P (.bool b)) (hint : ∀ s v, P (.int s v)) (hdbl : ∀ b t, P (.dbl b t))
    (hstr : ∀ s, P (.str s)) (harr : ∀ xs, PL xs → P (.arr xs)) (hobj : ∀ kvs, PM kvs → P (.obj kvs))
    (hnil : PL []) (hcons : ∀ x xs, P x → PL xs → PL (x :: xs))
    (hmnil : PM []) (hmcons : ∀ k v kvs, P v → PM kvs → PM ((k, v) :: kvs)) :
    (∀ v, P v) ∧ (∀ xs, PL xs) ∧ (∀ kvs, PM kvs) := by
  refine ⟨fun v => ?_, fun xs => ?_, fun kvs => ?_⟩
  · exact JVal.rec (motive_1 := P) (motive_2 := PL) (motive_3 := PM) (motive_4 := fun kv => P kv.2)
      hnull hbool hint hdbl hstr harr hobj hnil hcons hmnil
      (fun kv kvs h1 h2 => by cases kv; exact hmcons _ _ _ h1 h2) (fun _ _ h => h) v
  · exact JVal.rec_1 (motive_1 := P) (motive_2 := PL) (motive_3 := PM) (motive_4 := fun kv => P kv.2)
      hnull hbool hint hdbl hstr harr hobj hnil hcons hmnil
      (fun kv kvs h1 h2 => by cases kv; exact hmcons _ _ _ h1 h2) (fun _ _ h => h) xs
  · exact JVal.rec_2 (motive_1 := P) (motive_2 := PL) (motive_3 := PM) (motive_4 := fun kv => P kv.2)
      hnull hbool hint hdbl hstr harr hobj hnil hcons hmnil
      (fun kv kvs h1 h2 => by cases kv; exact hmcons _ _ _ h1 h2) (fun _ _ h => h) kvs

/-! ### Outcome inversion -/

theorem bind_ok_inv {α β : Type} {x : Outcome α} {g : α → Outcome β} {b : β} (h : (x >>= g) = .ok b) :
    ∃ a, x = .ok a ∧ g a = .ok b := by
  cases x with
  | ok a => exact ⟨a, rfl, h⟩
  | fault w => cases h

/-! ### colour stripping -/

theorem strip_noesc : ∀ (a r : Bytes), 27 ∉ a → strip false (a ++ r) = a ++ strip false r := by
  intro a
  induction a with
  | nil => intro r _; rfl
  | cons c a ih =>
    intro r h
    have hc : (c == 27) = false := by
      simp only [beq_eq_false_iff_ne, ne_eq]; intro e; exact h (by simp [e])
    simp only [List.cons_append, strip, hc, Bool.false_eq_true, if_false]
    rw [ih r (fun hm => h (by simp [hm]))]

theorem strip_noesc' (a : Bytes) (h : 27 ∉ a) : strip false a = a := by
  have := strip_noesc a [] h
  simpa [strip] using this

theorem strip_reset (r : Bytes) : strip false (serColorReset ++ r) = strip false r := by
  simp [serColorReset, strip]
theorem strip_green (r : Bytes) : strip false (serColorGreen ++ r) = strip false r := by
  simp [serColorGreen, strip]
theorem strip_blue (r : Bytes) : strip false (serColorBlue ++ r) = strip false r := by
  simp [serColorBlue, strip]
theorem strip_magenta (r : Bytes) : strip false (serColorMagenta ++ r) = strip false r := by
  simp [serColorMagenta, strip]

/-- a coloured piece strips to its body -/
theorem strip_withColor (f : Fl) (col body r : Bytes) (hcol : ∀ r', strip false (col ++ r') = strip false r')
    (hb : 27 ∉ body) : strip false (withColor f col body ++ r) = body ++ strip false r := by
  unfold withColor
  split
  · rw [List.append_assoc, List.append_assoc, hcol, strip_noesc _ _ hb, strip_reset]
  · exact strip_noesc _ _ hb

/-! ### whitespace -/

theorem ws_no_esc (w : Ws) : 27 ∉ w.text := by
  simp only [Ws.text, List.mem_map, not_exists, not_and]
  intro c _; cases c <;> decide

theorem ws_text_append (a b : Ws) : Ws.text (a ++ b) = Ws.text a ++ Ws.text b := by
  simp [Ws.text]

theorem ws_text_replicate (n : Nat) (c : WsChar) : Ws.text (List.replicate n c) = List.replicate n c.byte := by
  simp [Ws.text]

/-- indent(pb, level, flags) emits the whitespace `indentWs` (no `int` overflow below 2^30 levels) -/
theorem indent_eq (f : Fl) (level : Nat) (h : 2 * level ≤ intMax) : indent f level = .ok (indentWs f level).text := by
  unfold indent indentWs
  cases f.pretty with
  | false => rfl
  | true =>
    cases f.prettyTab with
    | true => simp [ws_text_replicate, WsChar.byte]
    | false =>
      have : ckInt (level * 2) "indent: level * 2" = .ok (level * 2) := by
        unfold ckInt; rw [if_pos (by omega)]
      simp [this, ws_text_replicate, WsChar.byte]

theorem ckLevel (level : Nat) (site : String) (h : 2 * (level + 1) ≤ intMax) : ckInt (level + 1) site = .ok (level + 1) := by
  unfold ckInt; rw [if_pos (by omega)]

/-- the separator bytes and the indentation are the optional comma followed by `leadWs` -/
theorem sep_indent (f : Fl) (had : Bool) (level : Nat) :
    sepBytes f had ++ (indentWs f level).text = (if had then [44] else []) ++ (leadWs f level).text := by
  unfold sepBytes leadWs
  cases had <;> cases f.pretty <;> cases f.spacedOnly <;> simp [Ws.text, WsChar.byte]

/-- what precedes the closing bracket is `closeWs` (after children) resp. `emptyWs` -/
theorem closeBytes_eq (f : Fl) (level : Nat) (had : Bool) (closer : UInt8) (h : 2 * level ≤ intMax) :
    closeBytes f level had closer = .ok ((if had then (closeWs f level).text else (emptyWs f).text) ++ [closer]) := by
  unfold closeBytes closeWs emptyWs
  rw [indent_eq f level h]
  cases had <;> cases f.pretty <;> cases f.spacedOnly <;>
    simp [Ws.text, WsChar.byte]

theorem colon_eq (f : Fl) : (if f.spaced then [58, 32] else [58] : Bytes) = 58 :: (colonWs f).text := by
  unfold colonWs; cases f.spaced <;> rfl

/-! ### comma-separated lists -/

/-- the text of a list of pieces: comma before every piece (`had`) or between pieces -/
def joinB (had : Bool) (l : List Bytes) : Bytes := if had then l.flatMap (44 :: ·) else intercalateB 44 l

theorem intercalateB_single (sep : UInt8) (x : Bytes) : intercalateB sep [x] = x := rfl
theorem intercalateB_cons_cons (sep : UInt8) (x y : Bytes) (r : List Bytes) :
    intercalateB sep (x :: y :: r) = x ++ sep :: intercalateB sep (y :: r) := rfl

theorem joinB_nil (had : Bool) : joinB had [] = [] := by cases had <;> rfl

theorem joinB_true_cons (x : Bytes) (xs : List Bytes) : joinB true (x :: xs) = 44 :: x ++ joinB true xs := by
  simp [joinB]

theorem joinB_false_cons : ∀ (xs : List Bytes) (x : Bytes), joinB false (x :: xs) = x ++ joinB true xs := by
  intro xs
  induction xs with
  | nil => intro x; simp [joinB, intercalateB]
  | cons y ys ih =>
    intro x
    have h := ih y
    simp only [joinB, Bool.false_eq_true, if_false, if_true, List.flatMap_cons] at h ⊢
    rw [intercalateB_cons_cons, h]
    simp

theorem joinB_cons (had : Bool) (x : Bytes) (xs : List Bytes) :
    joinB had (x :: xs) = (if had then [44] else []) ++ x ++ joinB true xs := by
  cases had
  · simp [joinB_false_cons]
  · simp [joinB_true_cons]

/-! ### the trailing whitespace of the last element / member -/

theorem setLastElem_text : ∀ (es : List (Ws × Doc × Ws)) (w : Ws), es ≠ [] → (∀ e ∈ es, e.2.2 = []) →
    intercalateB 44 (elemsText (setLastElem w es)) = intercalateB 44 (elemsText es) ++ w.text := by
  intro es
  induction es with
  | nil => intro w h; exact absurd rfl h
  | cons e r ih =>
    intro w _ hall
    obtain ⟨w1, d, w2⟩ := e
    have hw2 : w2 = [] := hall (w1, d, w2) (by simp)
    subst hw2
    cases r with
    | nil => simp [setLastElem, elemsText, intercalateB, Ws.text]
    | cons e' r' =>
      have := ih w (by simp) (fun x hx => hall x (by simp [hx]))
      obtain ⟨w1', d', w2'⟩ := e'
      have e1 : setLastElem w ((w1, d, []) :: (w1', d', w2') :: r') = (w1, d, []) :: setLastElem w ((w1', d', w2') :: r') := rfl
      rw [e1]
      cases hs : setLastElem w ((w1', d', w2') :: r') with
      | nil => exact absurd hs (by cases r' <;> simp [setLastElem])
      | cons s1 sr =>
        rw [hs] at this
        obtain ⟨a1, a2, a3⟩ := s1
        simp only [elemsText] at this ⊢
        rw [intercalateB_cons_cons, this, intercalateB_cons_cons]
        simp

theorem setLastMember_text : ∀ (ms : List (Ws × List StrItem × Ws × Ws × Doc × Ws)) (w : Ws), ms ≠ [] →
    (∀ m ∈ ms, m.2.2.2.2.2 = []) →
    intercalateB 44 (membersText (setLastMember w ms)) = intercalateB 44 (membersText ms) ++ w.text := by
  intro ms
  induction ms with
  | nil => intro w h; exact absurd rfl h
  | cons m r ih =>
    intro w _ hall
    obtain ⟨w1, k, w2, w3, d, w4⟩ := m
    have hw4 : w4 = [] := hall (w1, k, w2, w3, d, w4) (by simp)
    subst hw4
    cases r with
    | nil => simp [setLastMember, membersText, intercalateB, Ws.text]
    | cons m' r' =>
      have := ih w (by simp) (fun x hx => hall x (by simp [hx]))
      obtain ⟨w1', k', w2', w3', d', w4'⟩ := m'
      have e1 : setLastMember w ((w1, k, w2, w3, d, []) :: (w1', k', w2', w3', d', w4') :: r') =
          (w1, k, w2, w3, d, []) :: setLastMember w ((w1', k', w2', w3', d', w4') :: r') := rfl
      rw [e1]
      cases hs : setLastMember w ((w1', k', w2', w3', d', w4') :: r') with
      | nil => exact absurd hs (by cases r' <;> simp [setLastMember])
      | cons s1 sr =>
        rw [hs] at this
        obtain ⟨a1, a2, a3, a4, a5, a6⟩ := s1
        simp only [membersText] at this ⊢
        rw [intercalateB_cons_cons, this, intercalateB_cons_cons]
        simp

theorem setLastElem_ok : ∀ (es : List (Ws × Doc × Ws)) (w : Ws), elemsOk (setLastElem w es) = elemsOk es := by
  intro es
  induction es with
  | nil => intro w; rfl
  | cons e r ih =>
    intro w
    obtain ⟨w1, d, w2⟩ := e
    cases r with
    | nil => simp [setLastElem, elemsOk]
    | cons e' r' =>
      have := ih w
      obtain ⟨w1', d', w2'⟩ := e'
      have e1 : setLastElem w ((w1, d, w2) :: (w1', d', w2') :: r') = (w1, d, w2) :: setLastElem w ((w1', d', w2') :: r') := rfl
      rw [e1, elemsOk, this]; simp [elemsOk]

theorem setLastMember_ok : ∀ (ms : List (Ws × List StrItem × Ws × Ws × Doc × Ws)) (w : Ws),
    membersOk (setLastMember w ms) = membersOk ms := by
  intro ms
  induction ms with
  | nil => intro w; rfl
  | cons m r ih =>
    intro w
    obtain ⟨w1, k, w2, w3, d, w4⟩ := m
    cases r with
    | nil => simp [setLastMember, membersOk]
    | cons m' r' =>
      have := ih w
      obtain ⟨w1', k', w2', w3', d', w4'⟩ := m'
      have e1 : setLastMember w ((w1, k, w2, w3, d, w4) :: (w1', k', w2', w3', d', w4') :: r') =
          (w1, k, w2, w3, d, w4) :: setLastMember w ((w1', k', w2', w3', d', w4') :: r') := rfl
      rw [e1, membersOk, this]; simp [membersOk]

theorem setLastElem_ne_nil (es : List (Ws × Doc × Ws)) (w : Ws) (h : es ≠ []) : setLastElem w es ≠ [] := by
  cases es with
  | nil => exact absurd rfl h
  | cons e r => obtain ⟨w1, d, w2⟩ := e; cases r <;> simp [setLastElem]

theorem setLastMember_ne_nil (ms : List (Ws × List StrItem × Ws × Ws × Doc × Ws)) (w : Ws) (h : ms ≠ []) :
    setLastMember w ms ≠ [] := by
  cases ms with
  | nil => exact absurd rfl h
  | cons m r => obtain ⟨w1, k, w2, w3, d, w4⟩ := m; cases r <;> simp [setLastMember]

/-- the text of an array document -/
theorem arr_text (w : Ws) (es : List (Ws × Doc × Ws)) :
    Doc.text (.arr w es) = 91 :: (if es = [] then w.text else intercalateB 44 (elemsText es)) ++ [93] := by
  cases es with
  | nil => simp [Doc.text]
  | cons e r => simp [Doc.text]

theorem obj_text (w : Ws) (ms : List (Ws × List StrItem × Ws × Ws × Doc × Ws)) :
    Doc.text (.obj w ms) = 123 :: (if ms = [] then w.text else intercalateB 44 (membersText ms)) ++ [125] := by
  cases ms with
  | nil => simp [Doc.text]
  | cons m r => simp [Doc.text]

end JsonC.Serialize
