/-
  Helper lemmas for C19 (never property statements).
-/
import JsonC.Model.Printbuf
import JsonC.Spec.ByteBuf

namespace JsonC.Printbuf
open JsonC Generated

/-! ### facts about the regenerated constants (re-checked on every run) -/
theorem init_pos : 0 < pbInitSize := by decide
theorem slack_le_guard : pbExtendSlack ≤ pbExtendGuard := by decide
theorem heap_lt_stack : sprintbufHeapAbove < sprintbufStack := by decide
theorem intMax_big : 4096 ≤ intMax := by decide
theorem init_le_intMax : pbInitSize ≤ intMax := by decide

/-! ### the representation invariant -/
structure Inv (p : Pb) : Prop where
  len : p.cells.length = p.size
  pos : 0 < p.size
  le_max : p.size ≤ intMax
  bpos_le : p.bpos ≤ p.size
  init : ∀ i, i < p.bpos → ∃ b, p.cells[i]? = some (some b)

/-- `buf[bpos]` is inside the allocation and holds NUL -/
def Term (p : Pb) : Prop := p.bpos < p.size ∧ p.cells[p.bpos]? = some (some 0)

/-! ### list plumbing -/
theorem writeAt_length (cells : List (Option UInt8)) (off : Nat) (bs : Bytes)
    (h : off + bs.length ≤ cells.length) : (writeAt cells off bs).length = cells.length := by
  simp [writeAt]; omega

theorem writeAt_get_lt (cells : List (Option UInt8)) (off : Nat) (bs : Bytes) (i : Nat)
    (h : off + bs.length ≤ cells.length) (hi : i < off) : (writeAt cells off bs)[i]? = cells[i]? := by
  unfold writeAt
  rw [List.append_assoc, List.getElem?_append_left (by simp; omega)]
  simp [hi]

theorem writeAt_get_mid (cells : List (Option UInt8)) (off : Nat) (bs : Bytes) (i : Nat)
    (h : off + bs.length ≤ cells.length) (hi : off ≤ i) (hi2 : i < off + bs.length) :
    (writeAt cells off bs)[i]? = (bs[i - off]?).map some := by
  unfold writeAt
  rw [List.append_assoc, List.getElem?_append_right (by simp; omega)]
  rw [List.getElem?_append_left (by simp; omega)]
  simp
  have : min off cells.length = off := by omega
  rw [this]

theorem writeAt_get_ge (cells : List (Option UInt8)) (off : Nat) (bs : Bytes) (i : Nat)
    (h : off + bs.length ≤ cells.length) (hi : off + bs.length ≤ i) :
    (writeAt cells off bs)[i]? = cells[i]? := by
  unfold writeAt
  rw [List.getElem?_append_right (by simp; omega)]
  simp
  have : min off cells.length = off := by omega
  rw [this]
  congr 1; omega

theorem writeAt_take (cells : List (Option UInt8)) (off : Nat) (bs : Bytes)
    (h : off + bs.length ≤ cells.length) :
    (writeAt cells off bs).take (off + bs.length) = cells.take off ++ bs.map some := by
  unfold writeAt
  rw [List.take_append_of_le_length (by simp; omega)]
  rw [List.take_of_length_le (by simp; omega)]

theorem reallocCells_length (cells : List (Option UInt8)) (n : Nat) (h : cells.length ≤ n) :
    (reallocCells cells n).length = n := by
  simp [reallocCells]; omega

theorem reallocCells_get (cells : List (Option UInt8)) (n i : Nat) (h : cells.length ≤ n)
    (hi : i < cells.length) : (reallocCells cells n)[i]? = cells[i]? := by
  unfold reallocCells
  rw [List.take_of_length_le h, List.getElem?_append_left hi]

theorem reallocCells_take (cells : List (Option UInt8)) (n k : Nat) (h : cells.length ≤ n)
    (hk : k ≤ cells.length) : (reallocCells cells n).take k = cells.take k := by
  unfold reallocCells
  rw [List.take_of_length_le h, List.take_append_of_le_length hk]


theorem guard_le_8 : pbExtendGuard ≤ 8 := by decide

/-! ### printbuf_extend -/
theorem extend_spec (p : Pb) (h : Inv p) (m : Int) (hm : 0 ≤ m) :
    ∃ r, extend p m = .ok r ∧
      ((r.ret = 0 ∧ r.errno = .none ∧ Inv r.pb ∧ r.pb.bpos = p.bpos ∧ m ≤ r.pb.size ∧
          p.size ≤ r.pb.size ∧ (∀ i, i < p.size → r.pb.cells[i]? = p.cells[i]?) ∧
          (r.pb.size = p.size → r.pb = p)) ∨
       (r.ret = -1 ∧ r.errno = .EFBIG ∧ r.pb = p ∧ m > INT_MAX - pbExtendGuard)) := by
  obtain ⟨hlen, hpos, hmax, hb, hinit⟩ := h
  have hsl := slack_le_guard
  unfold extend
  by_cases h1 : (p.size : Int) ≥ m
  · rw [if_pos h1]
    refine ⟨_, rfl, Or.inl ?_⟩
    dsimp only
    exact ⟨rfl, rfl, ⟨hlen, hpos, hmax, hb, hinit⟩, rfl, by omega, by omega, fun _ _ => rfl, fun _ => rfl⟩
  · rw [if_neg h1]
    by_cases h2 : m > INT_MAX - pbExtendGuard
    · rw [if_pos h2]
      exact ⟨_, rfl, Or.inr ⟨rfl, rfl, rfl, h2⟩⟩
    · rw [if_neg h2]
      have hI : INT_MAX = (intMax : Int) := rfl
      -- the new size, whichever branch computes it
      have key : ∀ ns : Int, m + pbExtendSlack ≤ ns → ns ≤ INT_MAX → (p.size : Int) < ns →
          ∃ r, (if ns ≤ 0 then (Outcome.fault "extend: realloc with non-positive size" : Outcome Res)
                else .ok ⟨{ p with cells := reallocCells p.cells ns.toNat, size := ns.toNat }, 0, .none⟩) = .ok r ∧
            ((r.ret = 0 ∧ r.errno = .none ∧ Inv r.pb ∧ r.pb.bpos = p.bpos ∧ m ≤ r.pb.size ∧
              p.size ≤ r.pb.size ∧ (∀ i, i < p.size → r.pb.cells[i]? = p.cells[i]?) ∧
              (r.pb.size = p.size → r.pb = p)) ∨
             (r.ret = -1 ∧ r.errno = .EFBIG ∧ r.pb = p ∧ m > INT_MAX - pbExtendGuard)) := by
        intro ns hns1 hns2 hns3
        have hpos' : ¬ ns ≤ 0 := by omega
        simp only [hpos', if_false]
        refine ⟨_, rfl, Or.inl ?_⟩
        dsimp only
        refine ⟨rfl, rfl, ?_, rfl, ?_, ?_, ?_, ?_⟩
        · refine ⟨?_, ?_, ?_, ?_, ?_⟩
          · dsimp only; rw [reallocCells_length]; omega
          · dsimp only; omega
          · dsimp only; omega
          · dsimp only; omega
          · intro i hi
            dsimp only at hi ⊢
            rw [reallocCells_get _ _ _ (by omega) (by omega)]
            exact hinit i hi
        · omega
        · omega
        · intro i hi
          rw [reallocCells_get _ _ _ (by omega) (by omega)]
        · intro hh; omega
      by_cases h3 : (p.size : Int) > INT_MAX / 2
      · simp only [h3, if_true]
        have hck : ckInt (m + pbExtendSlack) "extend: min_size + 8" = .ok (m + pbExtendSlack) := by
          unfold ckInt; rw [if_pos]; omega
        rw [hck]; simp only [Outcome.bind_ok]
        exact key _ (by omega) (by omega) (by omega)
      · simp only [h3, if_false]
        have hck1 : ckInt ((p.size : Int) * 2) "extend: p->size * 2" = .ok ((p.size : Int) * 2) := by
          unfold ckInt; rw [if_pos]; omega
        have hck2 : ckInt (m + pbExtendSlack) "extend: min_size + 8" = .ok (m + pbExtendSlack) := by
          unfold ckInt; rw [if_pos]; omega
        rw [hck1]; simp only [Outcome.bind_ok]
        rw [hck2]; simp only [Outcome.bind_ok, Outcome.pure_eq]
        by_cases h4 : (p.size : Int) * 2 < m + pbExtendSlack
        · simp only [h4, if_true]
          exact key _ (by omega) (by omega) (by omega)
        · simp only [h4, if_false]
          exact key _ (by omega) (by omega) (by omega)

/-! ### contents / fill by index -/
theorem fill_get (b : Bytes) (off : Nat) (ch : UInt8) (n i : Nat) :
    (ByteBuf.fill b off ch n)[i]? =
      if i < off then (if i < b.length then b[i]? else some 0)
      else if i < off + n then some ch else b[i]? := by
  unfold ByteBuf.fill
  simp only [List.getElem?_append, List.getElem?_take, List.getElem?_drop, List.getElem?_replicate,
    List.length_append, List.length_take, List.length_replicate]
  grind

theorem contents_get (p : Pb) (i : Nat) :
    (contents p)[i]? = if i < p.bpos then (p.cells[i]?).map (·.getD 0) else none := by
  unfold contents
  simp only [List.getElem?_map, List.getElem?_take]
  split <;> simp

theorem contents_length (p : Pb) (h : Inv p) : (contents p).length = p.bpos := by
  unfold contents
  have := h.len; have := h.bpos_le
  simp; omega

theorem writeAt_get (cells : List (Option UInt8)) (off : Nat) (bs : Bytes) (i : Nat)
    (h : off + bs.length ≤ cells.length) :
    (writeAt cells off bs)[i]? =
      if i < off then cells[i]? else if i < off + bs.length then (bs[i - off]?).map some else cells[i]? := by
  by_cases h1 : i < off
  · rw [if_pos h1, writeAt_get_lt _ _ _ _ h h1]
  · rw [if_neg h1]
    by_cases h2 : i < off + bs.length
    · rw [if_pos h2, writeAt_get_mid _ _ _ _ h (by omega) h2]
    · rw [if_neg h2, writeAt_get_ge _ _ _ _ h (by omega)]

/-- the state after the (possible) extension: the two fills -/
theorem memset_core (p q : Pb) (hq : Inv q) (hqb : q.bpos = p.bpos)
    (hqc : ∀ i, i < p.bpos → q.cells[i]? = p.cells[i]?) (hp : Inv p)
    (off n : Nat) (c : UInt8) (hfit : off + n ≤ q.size) :
    let cells := if q.bpos < off then writeAt q.cells q.bpos (List.replicate (off - q.bpos) 0) else q.cells
    let cells2 := writeAt cells off (List.replicate n c)
    let bpos := if q.bpos < off + n then off + n else q.bpos
    Inv { cells := cells2, bpos := bpos, size := q.size } ∧
    contents { cells := cells2, bpos := bpos, size := q.size } = ByteBuf.fill (contents p) off c n := by
  have hlen := hq.len
  have hbl := hq.bpos_le
  intro cells cells2 bpos
  have hc1 : cells.length = q.cells.length := by
    simp only [cells]; split
    · rw [writeAt_length]; simp; omega
    · rfl
  have hc2 : cells2.length = q.cells.length := by
    simp only [cells2]; rw [writeAt_length]; exact hc1; simp; omega
  have hget1 : ∀ i, cells[i]? = if q.bpos ≤ i ∧ i < off then some (some 0) else q.cells[i]? := by
    intro i
    simp only [cells]; split
    · rw [writeAt_get _ _ _ _ (by simp; omega)]
      simp only [List.length_replicate, List.getElem?_replicate]
      grind
    · grind
  have hget2 : ∀ i, cells2[i]? = if off ≤ i ∧ i < off + n then some (some c) else cells[i]? := by
    intro i
    simp only [cells2]
    rw [writeAt_get _ _ _ _ (by simp; omega)]
    simp only [List.length_replicate, List.getElem?_replicate]
    grind
  refine ⟨⟨?_, hq.pos, hq.le_max, ?_, ?_⟩, ?_⟩
  · dsimp only; omega
  · dsimp only; simp only [bpos]; split <;> omega
  · intro i hi
    dsimp only at hi ⊢
    rw [hget2, hget1]
    by_cases h1 : off ≤ i ∧ i < off + n
    · rw [if_pos h1]; exact ⟨_, rfl⟩
    · rw [if_neg h1]
      by_cases h2 : q.bpos ≤ i ∧ i < off
      · rw [if_pos h2]; exact ⟨_, rfl⟩
      · rw [if_neg h2]; apply hq.init; simp only [bpos] at hi; grind
  · apply List.ext_getElem?
    intro i
    rw [fill_get, contents_get, contents_length p hp]
    dsimp only
    rw [hget2, hget1]
    simp only [contents_get]
    have hpi := hp.init
    have hqi := hq.init
    simp only [bpos]
    by_cases h1 : off ≤ i ∧ i < off + n
    · grind
    · by_cases h2 : q.bpos ≤ i ∧ i < off
      · grind
      · by_cases h3 : i < p.bpos
        · have := hqc i h3
          grind
        · grind

theorem append_core (p q : Pb) (hq : Inv q) (hp : Inv p) (hqb : q.bpos = p.bpos)
    (hqc : ∀ i, i < p.bpos → q.cells[i]? = p.cells[i]?)
    (data : Bytes) (n : Nat) (hn : n ≤ data.length) (hfit : q.bpos + n < q.size) :
    let r : Pb := { cells := (writeAt q.cells q.bpos (data.take n)).set (q.bpos + n) (some 0),
                    bpos := q.bpos + n, size := q.size }
    Inv r ∧ contents r = contents p ++ data.take n ∧ Term r := by
  intro r
  have hlen := hq.len
  have htl : (data.take n).length = n := by simp; omega
  have hw : q.bpos + (data.take n).length ≤ q.cells.length := by omega
  have hget : ∀ i, r.cells[i]? = if i = q.bpos + n then some (some 0) else
      if i < q.bpos then q.cells[i]? else if i < q.bpos + n then ((data.take n)[i - q.bpos]?).map some else q.cells[i]? := by
    intro i
    simp only [r]
    rw [List.getElem?_set, writeAt_length _ _ _ hw, writeAt_get _ _ _ _ hw, htl]
    grind
  refine ⟨⟨?_, hq.pos, hq.le_max, ?_, ?_⟩, ?_, ?_, ?_⟩
  · simp only [r]; rw [List.length_set, writeAt_length _ _ _ hw]; exact hlen
  · simp only [r]; omega
  · intro i hi
    simp only [r] at hi
    rw [hget]
    have := hq.init i
    by_cases h1 : i < q.bpos
    · grind
    · have h2 : i - q.bpos < (data.take n).length := by omega
      rw [if_neg (by omega), if_neg h1, if_pos (by omega), List.getElem?_eq_getElem h2]
      exact ⟨_, rfl⟩
  · apply List.ext_getElem?
    intro i
    rw [contents_get, hget, List.getElem?_append, contents_get, contents_length p hp]
    simp only [r]
    have := hp.init i
    by_cases h1 : i < p.bpos
    · have := hqc i h1; grind
    · by_cases h2 : i < q.bpos + n
      · have h3 : i - q.bpos < (data.take n).length := by omega
        rw [if_pos h2, if_neg (by omega), if_neg (by omega), if_pos h2, if_neg h1, hqb,
          List.getElem?_eq_getElem (by omega)]
        simp
      · rw [if_neg h2, if_neg h1]
        rw [List.getElem?_eq_none (by omega)]
  · simp only [r]; omega
  · rw [hget]; simp [r]


theorem stackImage_take (out : Bytes) (n : Nat) (hn : n = out.length) (h : n ≤ sprintbufHeapAbove) :
    (stackImage out).take n = out ∧ n ≤ (stackImage out).length := by
  have := heap_lt_stack
  unfold stackImage
  subst hn
  constructor
  · rw [List.take_append_of_le_length (by simp; omega)]
    rw [List.take_take]
    rw [List.take_of_length_le (by omega)]
  · simp; omega


/-- the offset a request designates (−1 = current end) -/
def effOffset (p : Pb) (offset : Int) : Int := if offset = -1 then (p.bpos : Int) else offset


theorem fill_length (b : Bytes) (off : Nat) (ch : UInt8) (n : Nat) :
    (ByteBuf.fill b off ch n).length = max b.length (off + n) := by
  unfold ByteBuf.fill
  simp only [List.length_append, List.length_take, List.length_replicate, List.length_drop]
  omega

/-! ### verdicts of the specification -/
theorem verdict_served (b : Bytes) (size : Int) (hs : 0 ≤ size) (h : (b.length : Int) + size + 1 ≤ INT_MAX) :
    ByteBuf.appendVerdict b size ≠ .mustRefuse := by
  unfold ByteBuf.appendVerdict
  have : ByteBuf.INT_MAX = INT_MAX := rfl
  rw [if_neg (by omega), if_neg (by omega)]
  split <;> simp

theorem verdict_refused (b : Bytes) (size : Int)
    (h : size < 0 ∨ (b.length : Int) + size + 1 > INT_MAX - pbExtendGuard) :
    ByteBuf.appendVerdict b size ≠ .mustServe := by
  unfold ByteBuf.appendVerdict
  have : ByteBuf.INT_MAX = INT_MAX := rfl
  have := guard_le_8
  split
  · simp
  · split
    · simp
    · rw [if_neg (by omega)]; simp

theorem served_fits (p : Pb) (r : Pb) (hinv : Inv r) (ht : Term r) (d : Bytes)
    (hc : contents r = contents p ++ d) (_hp : Inv p) :
    ((contents p).length : Int) + (d.length : Int) + 1 ≤ INT_MAX := by
  have hI : INT_MAX = (intMax : Int) := rfl
  have h1 := contents_length r hinv
  rw [hc] at h1
  have := hinv.le_max; have := ht.1
  simp at h1; omega


end JsonC.Printbuf
