/-
  "The loop stopped on a syntax error" (used by the strict-mode rejection theorems of C16).
-/
import JsonC.Lemmas.TokenerDoc1
namespace JsonC.Tokener
open JsonC

/-- the loop stopped on a syntax error -/
def ErrStop (e : LoopEnd) : Prop := ∃ pe, e.stop = .err pe

def Act.isErr : Act → Bool
  | .err _ _ _ => true
  | _ => false

theorem run_err_of_isErr (lc : Libc) (t : Tok) (l : Loc) (hv : NoVal t) (b : UInt8)
    (h : (feed lc t l b).isErr = true) (c : UInt8) (off : Nat) (rs : Bytes) : ErrStop (run lc t l c off (b :: rs)) := by
  have hpk : peek t l b = some l := by simp [peek, hv.validate]
  cases hf : feed lc t l b with
  | err pe t' l' => exact ⟨pe, by simp only [run, hpk, hf]⟩
  | consume _ _ => rw [hf] at h; cases h
  | redo _ _ => rw [hf] at h; cases h
  | done _ _ => rw [hf] at h; cases h
  | fault _ => rw [hf] at h; cases h

theorem run_err_of_feed (lc : Libc) (t : Tok) (l : Loc) (hv : NoVal t) (b : UInt8) (pe : PErr) (t' : Tok) (l' : Loc)
    (h : feed lc t l b = .err pe t' l') (c : UInt8) (off : Nat) (rs : Bytes) : ErrStop (run lc t l c off (b :: rs)) := by
  have hpk : peek t l b = some l := by simp [peek, hv.validate]
  exact ⟨pe, by simp only [run, hpk, h]⟩

end JsonC.Tokener
