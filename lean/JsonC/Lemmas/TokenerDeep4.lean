/-
  The nesting limit, reject half (C15), part 4: the induction over documents and the top level.
-/
import JsonC.Lemmas.TokenerDeep3
namespace JsonC.Tokener
open JsonC Rfc8259

theorem doc_rej (lc : Libc) (hl : LibcSpec lc) : ∀ d, DocRej lc d := by
  intro d
  induction d using doc_induct with
  | hnull => exact scalar_rej lc _ (fun limit depth off h => by unfold Doc.firstDeep; rw [if_neg (by omega)])
  | htrue => exact scalar_rej lc _ (fun limit depth off h => by unfold Doc.firstDeep; rw [if_neg (by omega)])
  | hfalse => exact scalar_rej lc _ (fun limit depth off h => by unfold Doc.firstDeep; rw [if_neg (by omega)])
  | hnum n => exact scalar_rej lc _ (fun limit depth off h => by unfold Doc.firstDeep; rw [if_neg (by omega)])
  | hstr s => exact scalar_rej lc _ (fun limit depth off h => by unfold Doc.firstDeep; rw [if_neg (by omega)])
  | harr w es ih =>
    intro t l cur rest hwf hs hv hhs hl0 hok hfit hknf off k hk c rs
    have hdep := wf_depth hwf hs
    unfold Doc.firstDeep at hk
    rw [if_neg (by omega)] at hk
    simp only at hk
    cases es with
    | nil => simp [elemsFirstDeep] at hk
    | cons e0 r =>
      have h1 := open_array lc t l hv cur none rest hs
      let t1 : Tok := { t with stack := ⟨.eatws, .array, .arr [], none⟩ :: rest }
      have hwf1 : WF t1 := wf_restack hwf hs rfl rfl (topOk_open _ _ (Or.inl ⟨rfl, rfl⟩)) (posOk_of_ne (by simp) (by simp) (by simp))
      have e : (Doc.arr w (e0 :: r)).text ++ rs = [91] ++ (intercalateB 44 (elemsText (e0 :: r)) ++ (93 :: rs)) := by simp [Doc.text]
      have hh := h1 c off (intercalateB 44 (elemsText (e0 :: r)) ++ (93 :: rs))
      simp only [lastOr, List.getLast?_singleton, Option.getD_some, List.length_singleton] at hh
      rw [e, hh]
      exact elems_rej lc hl (e0 :: r) ih t1 l .array (Or.inl rfl) [] rest hwf1 rfl hv hhs hl0
        (by simpa [Doc.ok] using hok) (fun h => by simpa [Doc.intsFit] using hfit h) (by simpa [Doc.keysNulFree] using hknf)
        (off + 1) k hk 91 (93 :: rs)
  | hobj w ms ih =>
    intro t l cur rest hwf hs hv hhs hl0 hok hfit hknf off k hk c rs
    have hdep := wf_depth hwf hs
    unfold Doc.firstDeep at hk
    rw [if_neg (by omega)] at hk
    simp only at hk
    cases ms with
    | nil => simp [membersFirstDeep] at hk
    | cons e0 r =>
      have h1 := open_object lc t l hv cur none rest hs
      let t1 : Tok := { t with stack := ⟨.eatws, .objectFieldStart, .obj [], none⟩ :: rest }
      have hwf1 : WF t1 := wf_restack hwf hs rfl rfl (topOk_open _ _ (Or.inr ⟨rfl, rfl⟩)) (posOk_of_ne (by simp) (by simp) (by simp))
      have e : (Doc.obj w (e0 :: r)).text ++ rs = [123] ++ (intercalateB 44 (membersText (e0 :: r)) ++ (125 :: rs)) := by simp [Doc.text]
      have hh := h1 c off (intercalateB 44 (membersText (e0 :: r)) ++ (125 :: rs))
      simp only [lastOr, List.getLast?_singleton, Option.getD_some, List.length_singleton] at hh
      rw [e, hh]
      exact members_rej lc hl (e0 :: r) ih t1 l .objectFieldStart (Or.inl rfl) [] none rest hwf1 rfl hv hhs hl0
        (by simpa [Doc.ok] using hok) (fun h => by simpa [Doc.intsFit] using hfit h) (by simpa [Doc.keysNulFree] using hknf)
        (off + 1) k hk 123 (125 :: rs)

/-- **top level, too deep**: the call on `ws value ws NUL` fails with the nesting error at `firstDeep` -/
theorem top_level_deep (lc : Libc) (hl : LibcSpec lc) (t : Tok) (hwf : WF t) (hst : t.stack = [⟨.eatws, .start, .null, none⟩])
    (hv : NoVal t) (hhs : t.hs = 0) (x : Text) (hok : x.doc.ok = true) (hfit : t.strict = true → x.doc.intsFit = true)
    (hknf : x.doc.keysNulFree = true) (k : Nat) (hk : Doc.firstDeep t.maxDepth 0 x.doc x.lead.length = some k) :
    let f := parseEx lc t (x.text ++ [0])
    f.err = .depth ∧ f.value = none ∧ f.offset = k ∧ f.stuck = false ∧ f.fault = none := by
  have hsplit : x.text ++ [0] = x.lead.text ++ (x.doc.text ++ (x.trail.text ++ [0])) := by simp [Text.text]
  unfold parseEx
  rw [hsplit, run_ws lc t {} .start .null none [] hst hv x.lead.text (ws_bytes_ws x.lead) 1 0 _]
  apply epilogue_depth
  exact doc_rej lc hl x.doc t {} .null [] hwf hst hv hhs rfl hok hfit hknf (0 + x.lead.text.length) k
    (by rw [ws_len]; simpa using hk) _ _

end JsonC.Tokener
