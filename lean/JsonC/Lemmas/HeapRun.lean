/-
  Helper lemmas for C05: one step of the operation language, and whole histories.
-/
import JsonC.Lemmas.HeapCopy

namespace JsonC.Heap
open JsonC Generated

/-- the node whose payload / user data a call is meant to change -/
def Op.target : Op → Option Id
  | .objAdd p _ _ _ => some p
  | .objDel p _ => some p
  | .arrAdd p _ => some p
  | .arrPut p _ _ => some p
  | .arrIns p _ _ => some p
  | .arrDel p _ _ => some p
  | .setUserdata i _ => some i
  | .setSerializer i _ => some i
  | _ => none

/-- the node a call changes, which for json_pointer_set depends on the state -/
def targetOf (s : State) : Op → Option Id
  | .ptrSet root path _ => ptrParent s root path
  | op => op.target

theorem StepOk.with_ret {s s' : State} {t : Option Id} {r : Res} (h : StepOk s t s' r) (ret : Int)
    (hret : 0 ≤ ret) : StepOk s t s' { r with ret := ret } :=
  ⟨h.inv, h.next_le, h.log, h.deadNodup, h.deadWas, h.liveIff, h.frame,
    fun hneg => absurd hneg (by simp only; omega), h.cbFinal⟩

theorem mem_children_arr (xs : List (Option Id)) (idx : Nat) (c : Id) (h : xs.getD idx none = some c) :
    c ∈ (Body.arr xs).children := by
  simp only [Body.children, List.mem_filterMap, id]
  refine ⟨some c, ?_, rfl⟩
  rw [List.getD_eq_getElem?_getD] at h
  cases hg : xs[idx]? with
  | none => simp [hg] at h
  | some x =>
    simp [hg] at h
    subst h
    exact List.mem_of_getElem? hg

theorem mem_children_obj (kvs : List (Key × Option Id)) (k : Key) (c : Id)
    (h : findKey kvs k = some (some c)) : c ∈ (Body.obj kvs).children := by
  induction kvs with
  | nil => simp [findKey] at h
  | cons a kvs ih =>
    obtain ⟨k', v'⟩ := a
    by_cases hk : k' = k
    · simp only [findKey, hk, if_true, Option.some.injEq] at h
      subst h
      simp [Body.children]
    · simp only [findKey, hk, if_false] at h
      have := ih h
      simp only [Body.children, List.mem_filterMap] at this ⊢
      obtain ⟨x, hx, hx2⟩ := this
      exact ⟨x, List.mem_cons_of_mem _ hx, hx2⟩

/-- walking a pointer from a live node only meets live nodes -/
theorem ptrWalk_live (s : State) (hs : Inv s) : ∀ (ts : List Bytes) (i p : Id),
    (s.heap.get? i).isSome = true → ptrWalk s.heap (some i) ts = some (some p) →
    (s.heap.get? p).isSome = true := by
  intro ts
  induction ts with
  | nil => intro i p hl hw; simp [ptrWalk] at hw; subst hw; exact hl
  | cons t ts ih =>
    intro i p hl hw
    obtain ⟨n, hn⟩ := Option.isSome_iff_exists.mp hl
    simp only [ptrWalk, hn] at hw
    have step : ∀ c, c ∈ n.body.children → ptrWalk s.heap (some c) ts = some (some p) →
        (s.heap.get? p).isSome = true := by
      intro c hc hw'
      apply ih c p _ hw'
      apply hs.h.closed c
      have h1 := Heap.count_edges_of_get? s.heap i n hn c
      have h2 : 0 < n.body.children.count c := List.count_pos_iff.mpr hc
      simp only [List.count_nil, Nat.add_zero]; omega
    cases hb : n.body with
    | scalar k => simp [hb] at hw
    | arr xs =>
      simp only [hb] at hw
      cases hv : validIndex t with
      | none => simp [hv] at hw
      | some idx =>
        simp only [hv] at hw
        by_cases hi : idx < xs.length
        · rw [if_pos hi] at hw
          cases hx : xs.getD idx none with
          | none => rw [hx] at hw; cases ts <;> simp [ptrWalk] at hw
          | some c =>
            rw [hx] at hw
            exact step c (by rw [hb]; exact mem_children_arr xs idx c hx) hw
        · rw [if_neg hi] at hw; cases hw
    | obj kvs =>
      simp only [hb] at hw
      cases hf : findKey kvs t with
      | none => simp [hf] at hw
      | some v =>
        simp only [hf] at hw
        cases v with
        | none => cases ts <;> simp [ptrWalk] at hw
        | some c => exact step c (by rw [hb]; exact mem_children_obj kvs t c hf) hw

theorem ptrSet_spec (s : State) (hs : Inv s) (root : Id) (path : List Bytes) (v : Option Id) :
    Good s (ptrParent s root path) (ptrSet s root path v) := by
  have hgo : Good s (ptrParent s root path) (ptrSet.go s root path v) ∨ s.heap.get? root = none := by
    cases hroot : s.heap.get? root with
    | none => exact Or.inr rfl
    | some nroot =>
    left
    unfold ptrSet.go
    cases hl : path.getLast? with
    | none =>
      have hp : path = [] := List.getLast?_eq_none_iff.mp hl
      subst hp
      simp only [ptrParent]
      rcases put_spec s hs root with ⟨why, hm⟩ | ⟨s', r, h1, h2, _⟩
      · rw [hm]; exact Or.inl ⟨_, rfl⟩
      · rw [h1]; exact Or.inr ⟨s', _, rfl, h2.with_ret 0 (Int.le_refl _)⟩
    | some last =>
      simp only
      cases hpp : ptrParent s root path with
      | none => exact Or.inr ⟨s, _, rfl, StepOk.noop s hs _ _⟩
      | some p =>
        simp only
        have hplive : (s.heap.get? p).isSome = true := by
          unfold ptrParent at hpp
          cases path with
          | nil => simp at hl
          | cons t ts =>
            simp only at hpp
            cases hw : ptrWalk s.heap (some root) (t :: ts).dropLast with
            | none => rw [hw] at hpp; cases hpp
            | some o =>
              rw [hw] at hpp
              cases o with
              | none => cases hpp
              | some p' =>
                simp at hpp
                subst hpp
                exact ptrWalk_live s hs _ root p' (by simp [hroot]) hw
        obtain ⟨n, hn⟩ := Option.isSome_iff_exists.mp hplive
        simp only [hn]
        cases hb : n.body with
        | scalar k => exact Or.inr ⟨s, _, rfl, StepOk.noop s hs _ _⟩
        | arr xs =>
          simp only
          by_cases hd : last = [45]
          · rw [if_pos hd]; exact arrStore_spec s hs p .add v
          · rw [if_neg hd]
            cases hv : validIndex last with
            | none => exact Or.inr ⟨s, _, rfl, StepOk.noop s hs _ _⟩
            | some idx => exact arrStore_spec s hs p (.put idx) v
        | obj kvs => exact objAdd_spec s hs p last v false
  unfold ptrSet
  cases hroot : s.heap.get? root with
  | none => exact Or.inl ⟨_, rfl⟩
  | some nroot =>
    simp only
    have hgo' : Good s (ptrParent s root path) (ptrSet.go s root path v) := by
      rcases hgo with h | h
      · exact h
      · rw [hroot] at h; cases h
    cases v with
    | none => exact hgo'
    | some j =>
      simp only
      by_cases he : s.ext j = 0
      · rw [if_pos he]; exact Or.inl ⟨_, rfl⟩
      · rw [if_neg he]; exact hgo'

theorem construct_spec (s : State) (hs : Inv s) (body : Body) (hb : body.children = []) :
    ∃ s' r, construct s body = .ok (s', r) ∧ StepOk s none s' r ∧ r.made = some s.next ∧ r.dead = [] ∧
      r.ret = 0 := by
  have hc0 : CInv s ⟨s, 0, [], []⟩ [] := by
    refine ⟨hs, Nat.le_refl _, fun _ _ => rfl, fun _ _ => rfl, ?_, ?_, by simp, by simp, by simp⟩
    · intro i hi
      simp only [List.count_nil]
      cases he : s.ext i with
      | zero => rfl
      | succ k => exact absurd (hs.ext_lt i (by omega)) (Nat.not_lt.mpr hi)
    · intro p m hp hNp
      exact absurd (hs.fresh p (by simp [hp])) (Nat.not_lt.mpr hNp)
  obtain ⟨st2, r2, hset, hc2, _, _, _⟩ := cinv_new s ⟨s, 0, [], []⟩ [] hc0 body hb
  have hstep := cinv_stepOk s hs _ _ (hc2 0) 0 (some s.next) (fun h => by omega)
  simp only at hset hstep
  refine ⟨st2, { made := some s.next }, ?_, hstep, rfl, rfl, rfl⟩
  unfold construct
  have hal : (alloc s body).2 = s.next := rfl
  simp only [hal, hset]

theorem Good.of_construct {s : State} {x : Step (State × Res)}
    (h : ∃ s' r, x = .ok (s', r) ∧ StepOk s none s' r ∧ r.made = some s.next ∧ r.dead = [] ∧ r.ret = 0) :
    Good s none x := by
  obtain ⟨s', r, hx, hok, _⟩ := h
  exact Or.inr ⟨s', r, hx, hok⟩

/-- every call, from every state satisfying the invariant: reported as misuse, or it succeeds with
the uniform guarantees.  In particular no call faults. -/
theorem step_spec (s : State) (hs : Inv s) (op : Op) : Good s (targetOf s op) (step s op) := by
  cases op with
  | newObject => exact Good.of_construct (construct_spec s hs _ rfl)
  | newArray => exact Good.of_construct (construct_spec s hs _ rfl)
  | newScalar k => exact Good.of_construct (construct_spec s hs _ rfl)
  | get i =>
    rcases get_spec s hs i with h | ⟨s', r, h1, h2, _⟩
    · exact Or.inl h
    · exact Or.inr ⟨s', r, h1, h2⟩
  | put i =>
    rcases put_spec s hs i with h | ⟨s', r, h1, h2, _⟩
    · exact Or.inl h
    · exact Or.inr ⟨s', r, h1, h2⟩
  | objAdd p key v isNew => exact objAdd_spec s hs p key v isNew
  | objDel p key => exact objDel_spec s hs p key
  | arrAdd p v => exact arrStore_spec s hs p .add v
  | arrPut p idx v => exact arrStore_spec s hs p (.put idx) v
  | arrIns p idx v => exact arrStore_spec s hs p (.ins idx) v
  | arrDel p idx cnt => exact arrDel_spec s hs p idx cnt
  | setUserdata i tok =>
    rcases setUserdata_spec s hs i tok with h | ⟨s', r, _, h1, h2, _⟩
    · exact Or.inl h
    · exact Or.inr ⟨s', r, h1, h2⟩
  | setSerializer i tok =>
    rcases setUserdata_spec s hs i tok with h | ⟨s', r, _, h1, h2, _⟩
    · exact Or.inl h
    · exact Or.inr ⟨s', r, h1, h2⟩
  | deepCopy src failAt => exact deepCopy_spec s hs src failAt
  | ptrSet root path v => exact ptrSet_spec s hs root path v

/-! ### histories -/

theorem run_nil (s : State) : run s [] = .ok (s, []) := rfl

theorem run_cons (s : State) (op : Op) (ops : List Op) :
    run s (op :: ops) = (step s op >>= fun x => run x.1 ops >>= fun y => pure (y.1, x.2 :: y.2)) := by
  simp only [run]

/-- a run that is not `misuse` from a state satisfying the invariant is a success, and every
intermediate step is a success from a state satisfying the invariant -/
theorem run_spec : ∀ (ops : List Op) (s : State), Inv s → (run s ops).isMisuse = false →
    ∃ s' rs, run s ops = .ok (s', rs) ∧ Inv s' ∧ s.next ≤ s'.next ∧
      s'.log = s.log ++ rs.flatMap (·.dead) ∧ rs.length = ops.length := by
  intro ops
  induction ops with
  | nil => intro s hs _; exact ⟨s, [], rfl, hs, Nat.le_refl _, by simp, rfl⟩
  | cons op ops ih =>
    intro s hs hwf
    rw [run_cons] at hwf ⊢
    rcases step_spec s hs op with ⟨why, hm⟩ | ⟨s1, r, hst, hok⟩
    · rw [hm] at hwf; simp [Step.isMisuse] at hwf
    · rw [hst] at hwf ⊢
      simp only [Step.bind_ok] at hwf ⊢
      have hwf' : (run s1 ops).isMisuse = false := by
        cases hr : run s1 ops with
        | ok y => rfl
        | misuse w => rw [hr] at hwf; simp [Step.isMisuse] at hwf
        | fault w => rfl
      obtain ⟨s', rs, hrun, hinv, hnx, hlog, hlen⟩ := ih s1 hok.inv hwf'
      refine ⟨s', r :: rs, ?_, hinv, Nat.le_trans hok.next_le hnx, ?_, by simp [hlen]⟩
      · rw [hrun]; rfl
      · rw [hlog, hok.log]; simp

theorem run_append : ∀ (a b : List Op) (s : State),
    run s (a ++ b) = (run s a >>= fun x => run x.1 b >>= fun y => pure (y.1, x.2 ++ y.2)) := by
  intro a
  induction a with
  | nil =>
    intro b s
    simp only [List.nil_append, run_nil, Step.bind_ok, List.nil_append]
    cases run s b <;> simp only [Step.bind_ok, Step.pure_eq, Step.bind_misuse, Step.bind_fault]
  | cons op a ih =>
    intro b s
    rw [List.cons_append, run_cons, run_cons]
    cases step s op with
    | ok x =>
      simp only [Step.bind_ok]
      rw [ih b x.1]
      cases run x.1 a with
      | ok y =>
        simp only [Step.bind_ok, Step.pure_eq]
        cases run y.1 b <;>
          simp only [Step.bind_ok, Step.bind_misuse, Step.bind_fault, List.cons_append]
      | misuse w => simp only [Step.bind_misuse]
      | fault w => simp only [Step.bind_fault]
    | misuse w => simp only [Step.bind_misuse]
    | fault w => simp only [Step.bind_fault]

/-- with all caller references released, an acyclic heap satisfying the invariant is empty -/
theorem heap_empty_of_no_ext (s : State) (hs : Inv s) (hext : ∀ i, s.ext i = 0) : s.heap = [] := by
  obtain ⟨r, hr⟩ := hs.acyclic
  -- a key of maximal rank
  have hmax : ∀ (l : List Id), l ≠ [] → ∃ p ∈ l, ∀ q ∈ l, r q ≤ r p := by
    intro l
    induction l with
    | nil => intro h; exact absurd rfl h
    | cons a l ih =>
      intro _
      by_cases hl : l = []
      · subst hl; exact ⟨a, by simp, by simp⟩
      · obtain ⟨p, hp, hpm⟩ := ih hl
        by_cases hap : r p ≤ r a
        · refine ⟨a, by simp, ?_⟩
          intro q hq
          rcases List.mem_cons.mp hq with e | hq'
          · rw [e]; exact Nat.le_refl _
          · exact Nat.le_trans (hpm q hq') hap
        · refine ⟨p, List.mem_cons_of_mem _ hp, ?_⟩
          intro q hq
          rcases List.mem_cons.mp hq with e | hq'
          · rw [e]; omega
          · exact hpm q hq'
  cases hh : s.heap with
  | nil => rfl
  | cons a rest =>
    exfalso
    have hne : s.heap.keys ≠ [] := by rw [hh]; simp [Heap.keys]
    obtain ⟨p, hp, hpm⟩ := hmax _ hne
    obtain ⟨n, hn⟩ := Option.isSome_iff_exists.mp ((Heap.mem_keys_iff s.heap p).mp hp)
    have hrc := hs.h.rc p n hn
    have hpos := hs.h.pos p n hn
    rw [hext p] at hrc
    simp only [List.count_nil, Nat.add_zero, Nat.zero_add] at hrc
    obtain ⟨q, m, hq, hqm⟩ := Heap.edge_source s.heap hs.h.nodup p (by omega)
    have h1 := hr q m hq p hqm
    have h2 := hpm q ((Heap.mem_keys_iff s.heap q).mpr (by simp [hq]))
    omega

theorem Reach.tail {h : Heap} {a q i : Id} (haq : Reach h a q) (hi : i ∈ h.childrenOf q) : Reach h a i := by
  induction haq with
  | refl => exact Reach.step hi (Reach.refl i)
  | step hc _ ih => exact Reach.step hc (ih hi)

/-- every live node hangs, through container slots, below a node the caller holds a reference to -/
theorem live_has_root (s : State) (hs : Inv s) (i : Id) (hl : (s.heap.get? i).isSome = true) :
    ∃ root, 0 < s.ext root ∧ Reach s.heap root i := by
  obtain ⟨r, hr⟩ := hs.acyclic
  -- a bound on the ranks of live nodes
  have hbound : ∀ (l : List Id), ∃ M, ∀ q ∈ l, r q ≤ M := by
    intro l
    induction l with
    | nil => exact ⟨0, by simp⟩
    | cons a l ih =>
      obtain ⟨M, hM⟩ := ih
      refine ⟨max M (r a), ?_⟩
      intro q hq
      rcases List.mem_cons.mp hq with e | hq'
      · rw [e]; exact Nat.le_max_right _ _
      · exact Nat.le_trans (hM q hq') (Nat.le_max_left _ _)
  obtain ⟨M, hM⟩ := hbound s.heap.keys
  have key : ∀ k i, (s.heap.get? i).isSome = true → M - r i ≤ k →
      ∃ root, 0 < s.ext root ∧ Reach s.heap root i := by
    intro k
    induction k with
    | zero =>
      intro i hl hk
      by_cases he : 0 < s.ext i
      · exact ⟨i, he, Reach.refl i⟩
      · exfalso
        obtain ⟨n, hn⟩ := Option.isSome_iff_exists.mp hl
        have hrc := hs.h.rc i n hn
        have hpos := hs.h.pos i n hn
        simp only [List.count_nil, Nat.add_zero] at hrc
        obtain ⟨q, m, hq, hqm⟩ := Heap.edge_source s.heap hs.h.nodup i (by omega)
        have h1 := hr q m hq i hqm
        have h2 := hM q ((Heap.mem_keys_iff s.heap q).mpr (by simp [hq]))
        omega
    | succ k ih =>
      intro i hl hk
      by_cases he : 0 < s.ext i
      · exact ⟨i, he, Reach.refl i⟩
      · obtain ⟨n, hn⟩ := Option.isSome_iff_exists.mp hl
        have hrc := hs.h.rc i n hn
        have hpos := hs.h.pos i n hn
        simp only [List.count_nil, Nat.add_zero] at hrc
        obtain ⟨q, m, hq, hqm⟩ := Heap.edge_source s.heap hs.h.nodup i (by omega)
        have h1 := hr q m hq i hqm
        have h2 := hM q ((Heap.mem_keys_iff s.heap q).mpr (by simp [hq]))
        obtain ⟨root, hroot, hreach⟩ := ih q (by simp [hq]) (by omega)
        exact ⟨root, hroot, hreach.tail ((mem_childrenOf s.heap q i).mpr ⟨m, hq, hqm⟩)⟩
  exact key (M - r i) i hl (Nat.le_refl _)

end JsonC.Heap
