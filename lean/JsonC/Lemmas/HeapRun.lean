/-
  Helper lemmas for C05: one step of the operation language, and whole histories.
-/
import JsonC.Lemmas.HeapCopy

namespace JsonC.Heap
open JsonC Generated

/-- the node whose payload / user data a call is meant to change -/
def Op.target : Op → Option Id
  | .objAdd p _ _ _ => some p
  | .objDel p _ => some p
  | .arrAdd p _ => some p
  | .arrPut p _ _ => some p
  | .arrIns p _ _ => some p
  | .arrDel p _ _ => some p
  | .setUserdata i _ => some i
  | .setSerializer i _ => some i
  | _ => none

theorem construct_spec (s : State) (hs : Inv s) (body : Body) (hb : body.children = []) :
    ∃ s' r, construct s body = .ok (s', r) ∧ StepOk s none s' r ∧ r.made = some s.next ∧ r.dead = [] ∧
      r.ret = 0 := by
  have hc0 : CInv s ⟨s, 0, [], []⟩ [] := by
    refine ⟨hs, Nat.le_refl _, fun _ _ => rfl, fun _ _ => rfl, ?_, ?_, by simp, by simp, by simp⟩
    · intro i hi
      simp only [List.count_nil]
      cases he : s.ext i with
      | zero => rfl
      | succ k => exact absurd (hs.ext_lt i (by omega)) (Nat.not_lt.mpr hi)
    · intro p m hp hNp
      exact absurd (hs.fresh p (by simp [hp])) (Nat.not_lt.mpr hNp)
  obtain ⟨st2, r2, hset, hc2, _, _, _⟩ := cinv_new s ⟨s, 0, [], []⟩ [] hc0 body hb
  have hstep := cinv_stepOk s hs _ _ (hc2 0) 0 (some s.next) (fun h => by omega)
  simp only at hset hstep
  refine ⟨st2, { made := some s.next }, ?_, hstep, rfl, rfl, rfl⟩
  unfold construct
  have hal : (alloc s body).2 = s.next := rfl
  simp only [hal, hset]

theorem Good.of_construct {s : State} {x : Step (State × Res)}
    (h : ∃ s' r, x = .ok (s', r) ∧ StepOk s none s' r ∧ r.made = some s.next ∧ r.dead = [] ∧ r.ret = 0) :
    Good s none x := by
  obtain ⟨s', r, hx, hok, _⟩ := h
  exact Or.inr ⟨s', r, hx, hok⟩

/-- every call, from every state satisfying the invariant: reported as misuse, or it succeeds with
the uniform guarantees.  In particular no call faults. -/
theorem step_spec (s : State) (hs : Inv s) (op : Op) : Good s op.target (step s op) := by
  cases op with
  | newObject => exact Good.of_construct (construct_spec s hs _ rfl)
  | newArray => exact Good.of_construct (construct_spec s hs _ rfl)
  | newScalar k => exact Good.of_construct (construct_spec s hs _ rfl)
  | get i =>
    rcases get_spec s hs i with h | ⟨s', r, h1, h2, _⟩
    · exact Or.inl h
    · exact Or.inr ⟨s', r, h1, h2⟩
  | put i =>
    rcases put_spec s hs i with h | ⟨s', r, h1, h2, _⟩
    · exact Or.inl h
    · exact Or.inr ⟨s', r, h1, h2⟩
  | objAdd p key v isNew => exact objAdd_spec s hs p key v isNew
  | objDel p key => exact objDel_spec s hs p key
  | arrAdd p v => exact arrStore_spec s hs p .add v
  | arrPut p idx v => exact arrStore_spec s hs p (.put idx) v
  | arrIns p idx v => exact arrStore_spec s hs p (.ins idx) v
  | arrDel p idx cnt => exact arrDel_spec s hs p idx cnt
  | setUserdata i tok =>
    rcases setUserdata_spec s hs i tok with h | ⟨s', r, _, h1, h2, _⟩
    · exact Or.inl h
    · exact Or.inr ⟨s', r, h1, h2⟩
  | setSerializer i tok =>
    rcases setUserdata_spec s hs i tok with h | ⟨s', r, _, h1, h2, _⟩
    · exact Or.inl h
    · exact Or.inr ⟨s', r, h1, h2⟩
  | deepCopy src failAt => exact deepCopy_spec s hs src failAt

/-! ### histories -/

theorem run_nil (s : State) : run s [] = .ok (s, []) := rfl

theorem run_cons (s : State) (op : Op) (ops : List Op) :
    run s (op :: ops) = (step s op >>= fun x => run x.1 ops >>= fun y => pure (y.1, x.2 :: y.2)) := by
  simp only [run]

/-- a run that is not `misuse` from a state satisfying the invariant is a success, and every
intermediate step is a success from a state satisfying the invariant -/
theorem run_spec : ∀ (ops : List Op) (s : State), Inv s → (run s ops).isMisuse = false →
    ∃ s' rs, run s ops = .ok (s', rs) ∧ Inv s' ∧ s.next ≤ s'.next ∧
      s'.log = s.log ++ rs.flatMap (·.dead) ∧ rs.length = ops.length := by
  intro ops
  induction ops with
  | nil => intro s hs _; exact ⟨s, [], rfl, hs, Nat.le_refl _, by simp, rfl⟩
  | cons op ops ih =>
    intro s hs hwf
    rw [run_cons] at hwf ⊢
    rcases step_spec s hs op with ⟨why, hm⟩ | ⟨s1, r, hst, hok⟩
    · rw [hm] at hwf; simp [Step.isMisuse] at hwf
    · rw [hst] at hwf ⊢
      simp only [Step.bind_ok] at hwf ⊢
      have hwf' : (run s1 ops).isMisuse = false := by
        cases hr : run s1 ops with
        | ok y => rfl
        | misuse w => rw [hr] at hwf; simp [Step.isMisuse] at hwf
        | fault w => rfl
      obtain ⟨s', rs, hrun, hinv, hnx, hlog, hlen⟩ := ih s1 hok.inv hwf'
      refine ⟨s', r :: rs, ?_, hinv, Nat.le_trans hok.next_le hnx, ?_, by simp [hlen]⟩
      · rw [hrun]; rfl
      · rw [hlog, hok.log]; simp

theorem run_append : ∀ (a b : List Op) (s : State),
    run s (a ++ b) = (run s a >>= fun x => run x.1 b >>= fun y => pure (y.1, x.2 ++ y.2)) := by
  intro a
  induction a with
  | nil =>
    intro b s
    simp only [List.nil_append, run_nil, Step.bind_ok, List.nil_append]
    cases run s b <;> simp only [Step.bind_ok, Step.pure_eq, Step.bind_misuse, Step.bind_fault]
  | cons op a ih =>
    intro b s
    rw [List.cons_append, run_cons, run_cons]
    cases step s op with
    | ok x =>
      simp only [Step.bind_ok]
      rw [ih b x.1]
      cases run x.1 a with
      | ok y =>
        simp only [Step.bind_ok, Step.pure_eq]
        cases run y.1 b <;>
          simp only [Step.bind_ok, Step.bind_misuse, Step.bind_fault, List.cons_append]
      | misuse w => simp only [Step.bind_misuse]
      | fault w => simp only [Step.bind_fault]
    | misuse w => simp only [Step.bind_misuse]
    | fault w => simp only [Step.bind_fault]

/-- with all caller references released, an acyclic heap satisfying the invariant is empty -/
theorem heap_empty_of_no_ext (s : State) (hs : Inv s) (hext : ∀ i, s.ext i = 0) : s.heap = [] := by
  obtain ⟨r, hr⟩ := hs.acyclic
  -- a key of maximal rank
  have hmax : ∀ (l : List Id), l ≠ [] → ∃ p ∈ l, ∀ q ∈ l, r q ≤ r p := by
    intro l
    induction l with
    | nil => intro h; exact absurd rfl h
    | cons a l ih =>
      intro _
      by_cases hl : l = []
      · subst hl; exact ⟨a, by simp, by simp⟩
      · obtain ⟨p, hp, hpm⟩ := ih hl
        by_cases hap : r p ≤ r a
        · refine ⟨a, by simp, ?_⟩
          intro q hq
          rcases List.mem_cons.mp hq with e | hq'
          · rw [e]; exact Nat.le_refl _
          · exact Nat.le_trans (hpm q hq') hap
        · refine ⟨p, List.mem_cons_of_mem _ hp, ?_⟩
          intro q hq
          rcases List.mem_cons.mp hq with e | hq'
          · rw [e]; omega
          · exact hpm q hq'
  cases hh : s.heap with
  | nil => rfl
  | cons a rest =>
    exfalso
    have hne : s.heap.keys ≠ [] := by rw [hh]; simp [Heap.keys]
    obtain ⟨p, hp, hpm⟩ := hmax _ hne
    obtain ⟨n, hn⟩ := Option.isSome_iff_exists.mp ((Heap.mem_keys_iff s.heap p).mp hp)
    have hrc := hs.h.rc p n hn
    have hpos := hs.h.pos p n hn
    rw [hext p] at hrc
    simp only [List.count_nil, Nat.add_zero, Nat.zero_add] at hrc
    obtain ⟨q, m, hq, hqm⟩ := Heap.edge_source s.heap hs.h.nodup p (by omega)
    have h1 := hr q m hq p hqm
    have h2 := hpm q ((Heap.mem_keys_iff s.heap q).mpr (by simp [hq]))
    omega

end JsonC.Heap
