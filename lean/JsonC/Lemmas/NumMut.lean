/-
  Helper lemmas for C10: json_object_int_inc in closed form, json_object_get_boolean and
  json_object_get_double against the specification.
-/
import JsonC.Lemmas.NumDbl

set_option exponentiation.threshold 2000

namespace JsonC.Num
open JsonC JsonC.Dbl JsonC.Libc Generated JsonC.Coerce

theorem inc_int (s : Bool) (c v : Int) (hc : (JVal.int s c).NumWF) (hv : IsI64 v) :
    intInc (.int s c) v = .ok (1, .int (incSigned s c v) (incValue c v)) := by
  have e1 : INT64_MAX = 9223372036854775807 := rfl
  have e2 : INT64_MIN = -9223372036854775808 := rfl
  have e3 : UINT64_MAX = 18446744073709551615 := rfl
  have e4 : TWO64 = 18446744073709551616 := rfl
  unfold IsI64 at hv
  cases s
  · -- stored as uint64
    simp only [JVal.NumWF] at hc
    simp only [intInc, incSigned, incValue, negMag, numIncNegatesUnsigned, if_true, toU64, ckRange, Bool.false_eq_true, if_false]
    by_cases h1 : v > 0 ∧ c > UINT64_MAX - v % 18446744073709551616
    · rw [if_pos h1, clamp_hi (by omega) (by omega)]
      have : ¬ (c + v < 0) := by omega
      simp [this]
    · rw [if_neg h1]
      by_cases h2 : v < 0
      · rw [if_pos h2]
        simp only [Outcome.bind_ok]
        by_cases h3 : c < -(v % 18446744073709551616) % 18446744073709551616
        · rw [if_pos h3, if_pos (by omega)]
          simp only [Outcome.bind_ok]
          rw [if_pos (by omega)]
          simp only [Outcome.bind_ok]
          rw [clamp_id (by omega) (by omega)]
          have : c + v < 0 := by omega
          simp [this]
        · rw [if_neg h3, clamp_id (by omega) (by omega)]
          have : ¬ (c + v < 0) := by omega
          have hh : (c - -(v % 18446744073709551616) % 18446744073709551616) % 18446744073709551616 = c + v := by omega
          simp [this, hh]
      · rw [if_neg h2, clamp_id (by omega) (by omega)]
        have : ¬ (c + v < 0) := by omega
        have hh : (c + v % 18446744073709551616) % 18446744073709551616 = c + v := by omega
        simp [this, hh]
  · simp only [JVal.NumWF] at hc
    simp only [intInc, incSigned, incValue, toU64, ckRange, if_true]
    by_cases h1 : v > 0 ∧ c > INT64_MAX - v
    · rw [if_pos h1]
      have : ¬ (c + v ≤ INT64_MAX) := by omega
      have hh : (c % 18446744073709551616 + v % 18446744073709551616) % 18446744073709551616 = clamp INT64_MIN UINT64_MAX (c + v) := by
        rw [clamp_id (by omega) (by omega)]; omega
      simp [this, hh]
    · rw [if_neg h1]
      by_cases h2 : v < 0 ∧ c < INT64_MIN - v
      · rw [if_pos h2, clamp_lo (by omega) (by omega)]
        have : (c + v ≤ INT64_MAX) := by omega
        simp [this]
      · rw [if_neg h2, if_pos (by omega), clamp_id (by omega) (by omega)]
        have : (c + v ≤ INT64_MAX) := by omega
        simp [this]

theorem inc_other (n : JVal) (v : Int) (h : ∀ s c, n ≠ .int s c) : intInc n v = .ok (0, n) := by
  cases n <;> simp [intInc] at h ⊢

theorem getBoolean_eq (n : JVal) : getBoolean n = .ok ⟨Coerce.toBool n, .keep, []⟩ := by
  cases n with
  | dbl bits t =>
    simp only [getBoolean, Coerce.toBool]
    cases decode bits.toNat with
    | fin neg num den => by_cases h : num = 0 <;> simp [Dec.neZero, h]
    | inf neg => simp [Dec.neZero]
    | nan => simp [Dec.neZero]
  | _ => simp [getBoolean, Coerce.toBool]

theorem dallows_one (p : DPat) (b : Nat) (e : Errno) (es : List Errno) (hp : p.matches b = true) (he : e ∈ es) :
    (DAns.mk [p] es).allows b e := by
  unfold DAns.allows; simp [hp, he]

theorem getDouble_partial (L : LibcNum) (hEnd : ∀ t, (L.strtod t).consumed ≤ t.length) (n : JVal) (hn : n.NumWF) :
    ∃ r, getDouble L n = .ok r ∧ (r.tags = [] → (toDouble L.strtod n).allows r.val (r.err.after .none)) := by
  have e1 : INT64_MAX = 9223372036854775807 := rfl
  have e2 : INT64_MIN = -9223372036854775808 := rfl
  have e3 : UINT64_MAX = 18446744073709551615 := rfl
  cases n with
  | null => exact ⟨_, rfl, fun _ => dallows_one _ _ _ _ (by simp [DPat.matches]) (by simp [ErrEff.after])⟩
  | bool b => cases b <;> exact ⟨_, rfl, fun _ => dallows_one _ _ _ _ (by simp [DPat.matches]) (by simp [ErrEff.after])⟩
  | int s v =>
    refine ⟨_, rfl, fun _ => dallows_one _ _ _ _ ?_ (by simp [ErrEff.after])⟩
    simp only [DPat.matches]
    apply intToDbl_rne
    · cases s <;> simp only [JVal.NumWF] at hn <;> omega
    · cases s <;> simp only [JVal.NumWF] at hn <;> omega
  | dbl bits t => exact ⟨_, rfl, fun _ => dallows_one _ _ _ _ (by simp [DPat.matches]) (by simp [ErrEff.after])⟩
  | str s =>
    simp only [getDouble, toDouble, ofTextDouble]
    have hle := hEnd (cstr s)
    have hib : ∀ b, isInfBits b = true ↔ b % 2 ^ 63 = posInf := by intro b; unfold isInfBits; simp
    generalize L.strtod (cstr s) = r at *
    by_cases h0 : r.consumed = 0
    · rw [if_pos h0, if_pos (Or.inl h0)]
      refine ⟨_, rfl, fun _ => ?_⟩
      unfold DAns.allows; simp [DPat.matches, ErrEff.after]
    · rw [if_neg h0, if_neg (by omega)]
      by_cases h1 : r.consumed ≠ (cstr s).length
      · rw [if_pos h1, if_pos (Or.inr h1)]
        refine ⟨_, rfl, fun _ => ?_⟩
        unfold DAns.allows; simp [DPat.matches, ErrEff.after]
      · have hno : ¬(r.consumed = 0 ∨ r.consumed ≠ (cstr s).length) := by
          rintro (h | h)
          · exact h0 h
          · exact h1 h
        rw [if_neg h1, if_neg hno]
        by_cases h2 : r.bits % 2 ^ 63 = posInf ∧ r.errno = .ERANGE
        · rw [if_pos h2]
          exact ⟨_, rfl, fun h => by simp at h⟩
        · rw [if_neg h2]
          have : ¬(isInfBits r.bits = true ∧ r.errno = .ERANGE) := by
            rw [hib]; exact h2
          rw [if_neg this]
          exact ⟨_, rfl, fun _ => dallows_one _ _ _ _ (by simp [DPat.matches]) (by simp [ErrEff.after])⟩
  | arr xs => exact ⟨_, rfl, fun h => by simp at h⟩
  | obj kvs => exact ⟨_, rfl, fun _ => dallows_one _ _ _ _ (by simp [DPat.matches]) (by simp [ErrEff.after])⟩

end JsonC.Num
