/-
  Model/FdIO.lean's write side computes what `_json_object_to_fd` (json_util.c), as translated from the current C source
  (Generated/Translated.lean; the `while (wpos < wsize)` loop is the recursive definition `_json_object_to_fd.loop1` over
  explicit fuel, `write`'s answers one per iteration), computes: for every schedule of operating-system answers - short
  writes of any size, a failure at any point - the translated function returns the model's return value and issues
  exactly the model's `write(fd, json_str + off, req)` calls, in order (then the error report, when a write failed).
  Proof: induction over the schedule, one unfolding of the loop per answer; the fuel `number of calls + 1` suffices.
-/
import JsonC.Model.FdIO
import JsonC.Lemmas.FdIO
import JsonC.Lemmas.TranslatedPb
namespace JsonC.TranslatedFd
open JsonC JsonC.FdIO JsonC.Generated JsonC.CSem JsonC.TranslatedPb

/-- what write(2) returned, as the model's call record tells it: the number of bytes accepted, or -1 -/
def answerOf (c : WCall) : Int :=
  match c.got with
  | some d => (d.length : Int)
  | none => -1

/-- the `write` events of the trace for the model's call records -/
def writeEvents (fd js : Int) (cs : List WCall) : List (String × List Int) :=
  cs.map (fun c => ("write", [fd, js + (c.off : Int), (c.req : Int)]))

/-- the loop -/
theorem writeLoop_agrees (str : Bytes) (wsize : Nat) (fn le : Bytes) (hw : wsize ≤ str.length)
    (hws : (wsize : Int) < 18446744073709551616)
    (u1 u2 u3 u4 h6 c7 h8 c9 : Int) (fuel : Nat) (he1 cw he2 cs he3 : Nat → Int) (fd obj flags fnp js : Int) :
    ∀ (sched : List WRes) (wpos : Nat) (o : WOut) (rc : Int),
      writeLoop str wsize fn le sched wpos = .ok o → o.ret = some rc → wpos ≤ wsize →
      ∀ (fuel0 it : Nat) (errno retv : Int) (tr : List (String × List Int)),
        o.calls.length < fuel0 →
        (∀ j (hj : j < o.calls.length), cw (it + j) = answerOf (o.calls[j]'hj)) →
        ∃ out, Translated._json_object_to_fd.loop1 u1 u2 u3 u4 h6 c7 h8 c9 fuel he1 cw he2 cs he3 fuel0 it
              fd obj flags fnp errno tr retv js wpos wsize = .ok out ∧
          out.ret = rc ∧ (rc = 0 ∨ rc = -1) ∧
          ∃ tail, out.calls = tr ++ writeEvents fd js o.calls ++ tail ∧ (rc = 0 → tail = []) := by
  intro sched
  induction sched with
  | nil =>
    intro wpos o rc h hr hle fuel0 it errno retv tr hf hcw
    unfold writeLoop at h
    split at h
    · cases h; cases hr
    · cases h
      simp only [Option.some.injEq] at hr
      subst hr
      cases fuel0 with
      | zero => simp at hf
      | succ f =>
        unfold Translated._json_object_to_fd.loop1 Translated._json_object_to_fd.j1
        rw [if_neg (by omega)]
        exact ⟨_, rfl, rfl, Or.inl rfl, [], by simp [writeEvents], fun _ => rfl⟩
  | cons r rest ih =>
    intro wpos o rc h hr hle fuel0 it errno retv tr hf hcw
    unfold writeLoop at h
    split at h
    · rename_i hlt
      simp only at h
      split at h
      · cases h
      · cases r with
        | err e =>
          simp only at h
          cases h
          simp only [Option.some.injEq] at hr
          subst hr
          have h0 := hcw 0 (by simp)
          simp only [List.getElem_cons_zero, answerOf, Nat.add_zero] at h0
          cases fuel0 with
          | zero => simp at hf
          | succ f =>
            unfold Translated._json_object_to_fd.loop1
            rw [if_pos (by omega)]
            simp only [h0]
            rw [if_pos (by omega)]
            have hreq : ((wsize : Int) - (wpos : Int)) % 18446744073709551616 = ((wsize - wpos : Nat) : Int) := by omega
            simp only [hreq]
            refine ⟨_, rfl, rfl, by simp, ?tail, ?eq, ?imp⟩
            case eq =>
              simp only [writeEvents, List.map_cons, List.map_nil, List.append_assoc]
              rfl
            case imp => intro h; omega
        | n k =>
          simp only at h
          cases hrec : writeLoop str wsize fn le rest (wpos + min k (wsize - wpos)) with
          | fault w => rw [hrec] at h; cases h
          | ok o' =>
            rw [hrec] at h
            simp only at h
            cases h
            simp only at hr hf hcw
            have hd : ((List.take (min k (wsize - wpos)) (List.drop wpos str)).length : Int) = (min k (wsize - wpos) : Nat) := by
              simp; omega
            have h0 := hcw 0 (by simp)
            simp only [List.getElem_cons_zero, answerOf, Nat.add_zero, hd] at h0
            cases fuel0 with
            | zero => simp at hf
            | succ f =>
              have := ih (wpos + min k (wsize - wpos)) o' rc hrec hr (by omega) f (it + 1) (he1 it) ((min k (wsize - wpos) : Nat) : Int)
                (tr ++ [("write", [fd, js + (wpos : Int), (((wsize : Int) - wpos) % 18446744073709551616)])])
                (by simp at hf; omega)
                (by
                  intro j hj
                  have := hcw (j + 1) (by simp; omega)
                  simp only [List.getElem_cons_succ] at this
                  rw [← this]; congr 1; omega)
              obtain ⟨out, ho, hret, hrc, tail, hcalls, htail⟩ := this
              unfold Translated._json_object_to_fd.loop1
              rw [if_pos (by omega)]
              simp only [h0]
              rw [if_neg (by omega)]
              have hpos : ((wpos : Int) + ((min k (wsize - wpos) : Nat) : Int) % 18446744073709551616) % 18446744073709551616
                  = ((wpos + min k (wsize - wpos) : Nat) : Int) := by
                push_cast; omega
              have hreq : ((wsize : Int) - (wpos : Int)) % 18446744073709551616 = ((wsize - wpos : Nat) : Int) := by omega
              simp only [hpos, hreq] at ho ⊢
              refine ⟨out, ho, hret, hrc, tail, ?_, htail⟩
              rw [hcalls]
              simp only [writeEvents, List.map_cons, List.append_assoc, List.cons_append, List.nil_append, hreq]
    · rename_i hge
      cases h
      simp only [Option.some.injEq] at hr
      subst hr
      cases fuel0 with
      | zero => simp at hf
      | succ f =>
        unfold Translated._json_object_to_fd.loop1 Translated._json_object_to_fd.j1
        rw [if_neg (by omega)]
        exact ⟨_, rfl, rfl, Or.inl rfl, [], by simp [writeEvents], fun _ => rfl⟩

/-- the whole function: serialization (answer `js`, NULL exactly when the model's serializer fails), `strlen`, the loop -/
theorem toFdCore_agrees {τ : Type} (ser : τ → Int → Option Bytes) (le : Bytes) (obj : τ) (flags : Int)
    (filename : Option Bytes) (sched : List WRes) (o : WOut) (rc : Int)
    (h : toFdCore ser le obj flags filename sched = .ok o) (hr : o.ret = some rc)
    (u1 u2 u3 u4 h6 h8 errno : Int) (fuel : Nat) (he1 cw he2 cs he3 : Nat → Int) (fd objp fl fnp js wl : Int)
    (hjs : js ≠ 0 ↔ (ser obj flags).isSome)
    (hwl : ∀ s, ser obj flags = some s → wl = (strlen s : Int)) (hwr : wl < 18446744073709551616)
    (hfuel : o.calls.length < fuel)
    (hcw : ∀ j (hj : j < o.calls.length), cw j = answerOf (o.calls[j]'hj)) :
    ∃ out, Translated._json_object_to_fd fd objp fl fnp errno u1 u2 u3 u4 h6 js h8 wl fuel he1 cw he2 cs he3 = .ok out ∧
      out.ret = rc ∧ (rc = 0 ∨ rc = -1) := by
  unfold toFdCore at h
  unfold Translated._json_object_to_fd Translated._json_object_to_fd.j3
  cases hs : ser obj flags with
  | none =>
    rw [hs] at h hjs
    simp only at h
    cases h
    simp only [Option.some.injEq] at hr
    subst hr
    have hj0 : js = 0 := by
      by_cases hz : js = 0
      · exact hz
      · exact absurd (hjs.mp hz) (by simp)
    by_cases hf : fnp ≠ 0 <;> simp [hf, hj0]
  | some s =>
    rw [hs] at h hjs
    simp only at h
    have hjn : js ≠ 0 := hjs.mpr (by simp)
    have hwl' := hwl s hs
    subst hwl'
    have hsl := JsonC.FdIO.strlen_le s
    by_cases hbig : (strlen s : Int) < 18446744073709551616
    · have key := fun fnp' => writeLoop_agrees s (strlen s) _ le hsl hbig u1 u2 u3 u4 h6 js h8 (strlen s : Int) fuel he1 cw he2 cs he3 fd objp fl fnp' js
        sched 0 o rc h hr (Nat.zero_le _) fuel 0 h8 u1
      by_cases hf : fnp ≠ 0
      · obtain ⟨out, ho, hret, hrc, _⟩ := key fnp ([] ++ [("json_object_to_json_string_ext", [objp, fl])] ++ [("strlen", [js])]) hfuel
          (by intro j hj; simpa using hcw j hj)
        refine ⟨out, ?_, hret, hrc⟩
        simp only [hf, hjn, if_true, ne_eq, not_false_eq_true]
        simpa using ho
      · obtain ⟨out, ho, hret, hrc, _⟩ := key (CSem.addrOf "(fd)") ([] ++ [("json_object_to_json_string_ext", [objp, fl])] ++ [("strlen", [js])]) hfuel
          (by intro j hj; simpa using hcw j hj)
        refine ⟨out, ?_, hret, hrc⟩
        simp only [hf, hjn, if_true, if_false, ne_eq, not_false_eq_true]
        simpa using ho
    · exact absurd hwr hbig

end JsonC.TranslatedFd
