/-
  Helper lemmas for C05: the heap invariant with a pending work list, and the teardown loop.
-/
import JsonC.Lemmas.HeapBasic

namespace JsonC.Heap
open JsonC

/-- The reference-count invariant, valid also in the middle of a teardown: `w` is the list of
`json_object_put` calls still to be performed (each occurrence is a reference already taken away from
its former holder but not yet subtracted from the count). -/
structure HInv (h : Heap) (ext : Id → Nat) (w : List Id) : Prop where
  nodup : h.keys.Nodup
  rc : ∀ i n, h.get? i = some n → n.rc = ext i + (Heap.edges h).count i + w.count i
  pos : ∀ i n, h.get? i = some n → 0 < n.rc
  closed : ∀ j, 0 < (Heap.edges h).count j + w.count j → (h.get? j).isSome = true
  extLive : ∀ i, 0 < ext i → (h.get? i).isSome = true

/-- `h'` consists of nodes of `h`, unchanged except for their reference counts -/
def Sub (h h' : Heap) : Prop :=
  ∀ i n', h'.get? i = some n' → ∃ n, h.get? i = some n ∧ n'.body = n.body ∧ n'.ud = n.ud

theorem Sub.refl (h : Heap) : Sub h h := fun _ n' hg => ⟨n', hg, rfl, rfl⟩

theorem Sub.trans {a b c : Heap} (h1 : Sub a b) (h2 : Sub b c) : Sub a c := by
  intro i n' hg
  obtain ⟨n, hn, hb, hu⟩ := h2 i n' hg
  obtain ⟨m, hm, hb', hu'⟩ := h1 i n hn
  exact ⟨m, hm, hb.trans hb', hu.trans hu'⟩

theorem Sub.set_rc (h : Heap) (i : Id) (n : Node) (hg : h.get? i = some n) (k : Nat) :
    Sub h (h.set i { n with rc := k }) := by
  intro j n' hj
  rw [Heap.get?_set] at hj
  by_cases e : j = i
  · subst e
    simp [hg] at hj
    subst hj
    exact ⟨n, hg, rfl, rfl⟩
  · simp [e] at hj
    exact ⟨n', hj, rfl, rfl⟩

theorem Sub.erase (h : Heap) (i : Id) (hnd : h.keys.Nodup) : Sub h (h.erase i) := by
  intro j n' hj
  by_cases e : j = i
  · subst e; rw [Heap.get?_erase_self h j hnd] at hj; simp at hj
  · rw [Heap.get?_erase_ne h i j e] at hj
    exact ⟨n', hj, rfl, rfl⟩

/-- the delete callbacks of the nodes of `dead`, as they were in `h` -/
def cbsOf (h : Heap) (dead : List Id) : List Cb :=
  dead.flatMap (fun i => match h.get? i with | some n => cbOf i n true | none => [])

theorem cbsOf_congr (h h' : Heap) (dead : List Id)
    (hc : ∀ i ∈ dead, ∀ n, h'.get? i = some n → ∃ m, h.get? i = some m ∧ n.ud = m.ud)
    (hl : ∀ i ∈ dead, (h'.get? i).isSome = true) : cbsOf h' dead = cbsOf h dead := by
  induction dead with
  | nil => rfl
  | cons d dead ih =>
    have hd := hl d (by simp)
    obtain ⟨n, hn⟩ := Option.isSome_iff_exists.mp hd
    obtain ⟨m, hm, hu⟩ := hc d (by simp) n hn
    have ih' := ih (fun i hi => hc i (List.mem_cons_of_mem _ hi)) (fun i hi => hl i (List.mem_cons_of_mem _ hi))
    simp only [cbsOf, List.flatMap_cons] at ih' ⊢
    rw [ih', hn, hm]
    simp [cbOf, hu]

theorem relFuel_cons (h : Heap) (i : Id) (w : List Id) : relFuel h (i :: w) = relFuel h w + 1 := by
  simp [relFuel]; omega

/-- The teardown loop: from any state satisfying the invariant with work list `w`, with enough fuel,
`release` terminates without fault in a state satisfying the invariant with nothing pending; the
nodes it destroyed are distinct, were live, are exactly the ones that disappeared; every other node
is unchanged but for its count; callbacks are those of the destroyed nodes, in order. -/
theorem release_spec (ext : Id → Nat) : ∀ (fuel : Nat) (h : Heap) (w : List Id),
    HInv h ext w → relFuel h w ≤ fuel →
    ∃ r, release fuel h w = .ok r ∧ HInv r.heap ext [] ∧ Sub h r.heap ∧ r.dead.Nodup ∧
      (∀ i, (r.heap.get? i).isSome = true ↔ ((h.get? i).isSome = true ∧ i ∉ r.dead)) ∧
      (∀ i ∈ r.dead, (h.get? i).isSome = true) ∧
      r.cbs = cbsOf h r.dead := by
  intro fuel
  induction fuel with
  | zero =>
    intro h w hinv hf
    cases w with
    | nil =>
      refine ⟨⟨h, [], []⟩, by simp [release], hinv, Sub.refl h, List.nodup_nil, ?_, ?_, rfl⟩
      · intro i; simp
      · intro i hi; simp at hi
    | cons i w => simp [relFuel] at hf
  | succ fuel ih =>
    intro h w hinv hf
    cases w with
    | nil =>
      refine ⟨⟨h, [], []⟩, by simp [release], hinv, Sub.refl h, List.nodup_nil, ?_, ?_, rfl⟩
      · intro i; simp
      · intro i hi; simp at hi
    | cons i w =>
      have hlive : (h.get? i).isSome = true := hinv.closed i (by simp only [List.count_cons_self]; omega)
      obtain ⟨n, hn⟩ := Option.isSome_iff_exists.mp hlive
      have hrc := hinv.rc i n hn
      simp only [List.count_cons_self] at hrc
      rw [relFuel_cons] at hf
      unfold release
      simp only [hn]
      have h0 : ¬ n.rc = 0 := by omega
      rw [if_neg h0]
      by_cases h1 : n.rc > 1
      · -- the count stays positive: only the count changes
        rw [if_pos h1]
        have hsub := Sub.set_rc h i n hn (n.rc - 1)
        have hedges : Heap.edges (h.set i { n with rc := n.rc - 1 }) = Heap.edges h :=
          Heap.edges_set_same_body h i n _ hn rfl
        have hinv' : HInv (h.set i { n with rc := n.rc - 1 }) ext w := by
          refine ⟨by rw [Heap.keys_set]; exact hinv.nodup, ?_, ?_, ?_, ?_⟩
          · intro j m hj
            rw [hedges]
            rw [Heap.get?_set] at hj
            by_cases e : j = i
            · subst e
              simp [hn] at hj
              subst hj
              simp only
              omega
            · simp [e] at hj
              have := hinv.rc j m hj
              rw [List.count_cons_of_ne (fun x => e x.symm)] at this
              exact this
          · intro j m hj
            rw [Heap.get?_set] at hj
            by_cases e : j = i
            · subst e
              simp [hn] at hj
              subst hj
              simp only
              omega
            · simp [e] at hj
              exact hinv.pos j m hj
          · intro j hj
            rw [hedges] at hj
            rw [Heap.isSome_get?_set]
            apply hinv.closed j
            have := List.count_le_count_cons (a := j) (b := i) (l := w)
            omega
          · intro j hj
            rw [Heap.isSome_get?_set]
            exact hinv.extLive j hj
        have hfuel : relFuel (h.set i { n with rc := n.rc - 1 }) w ≤ fuel := by
          simp only [relFuel, hedges] at hf ⊢; omega
        obtain ⟨r, hr, hri, hrs, hrn, hrl, hrd, hrc'⟩ := ih _ w hinv' hfuel
        refine ⟨r, hr, hri, Sub.trans hsub hrs, hrn, ?_, ?_, ?_⟩
        · intro j; rw [hrl j, Heap.isSome_get?_set]
        · intro j hj; have := hrd j hj; rwa [Heap.isSome_get?_set] at this
        · rw [hrc']
          apply cbsOf_congr
          · intro j _ m hm
            obtain ⟨m', hm', _, hu⟩ := hsub j m hm
            exact ⟨m', hm', hu⟩
          · exact hrd
      · -- the count reaches 0: the node goes, its children join the work list
        rw [if_neg h1]
        have hrc1 : n.rc = 1 := by omega
        have hext0 : ext i = 0 := by omega
        have hedge0 : (Heap.edges h).count i = 0 := by omega
        have hw0 : w.count i = 0 := by omega
        have hinv' : HInv (h.erase i) ext (n.body.children ++ w) := by
          refine ⟨Heap.nodup_erase h i hinv.nodup, ?_, ?_, ?_, ?_⟩
          · intro j m hj
            have e : j ≠ i := by
              intro e; subst e; rw [Heap.get?_erase_self h j hinv.nodup] at hj; simp at hj
            rw [Heap.get?_erase_ne h i j e] at hj
            have := hinv.rc j m hj
            rw [List.count_cons_of_ne (fun x => e x.symm)] at this
            have hc := Heap.count_edges_erase h i n hn j
            rw [List.count_append]
            omega
          · intro j m hj
            have e : j ≠ i := by
              intro e; subst e; rw [Heap.get?_erase_self h j hinv.nodup] at hj; simp at hj
            rw [Heap.get?_erase_ne h i j e] at hj
            exact hinv.pos j m hj
          · intro j hj
            rw [List.count_append] at hj
            have hc := Heap.count_edges_erase h i n hn j
            have e : j ≠ i := by
              intro e; subst e
              have := Heap.count_edges_of_get? h j n hn j
              omega
            rw [Heap.get?_erase_ne h i j e]
            apply hinv.closed j
            rw [List.count_cons_of_ne (fun x => e x.symm)]
            omega
          · intro j hj
            have e : j ≠ i := by intro e; subst e; omega
            rw [Heap.get?_erase_ne h i j e]
            exact hinv.extLive j hj
        have hfuel : relFuel (h.erase i) (n.body.children ++ w) ≤ fuel := by
          have := Heap.length_edges_erase h i n hn
          simp only [relFuel, List.length_append] at hf ⊢; omega
        obtain ⟨r, hr, hri, hrs, hrn, hrl, hrd, hrc'⟩ := ih _ _ hinv' hfuel
        rw [hr]
        have hi_dead : i ∉ r.dead := by
          intro hi
          have := hrd i hi
          rw [Heap.get?_erase_self h i hinv.nodup] at this
          simp at this
        refine ⟨_, rfl, hri, Sub.trans (Sub.erase h i hinv.nodup) hrs, ?_, ?_, ?_, ?_⟩
        · exact List.nodup_cons.mpr ⟨hi_dead, hrn⟩
        · intro j
          simp only
          rw [hrl j]
          by_cases e : j = i
          · subst e
            rw [Heap.get?_erase_self h j hinv.nodup]
            simp
          · rw [Heap.get?_erase_ne h i j e]
            simp [e]
        · intro j hj
          rcases List.mem_cons.mp hj with e | hj'
          · subst e; exact hlive
          · have := hrd j hj'
            have e : j ≠ i := fun e => hi_dead (e ▸ hj')
            rwa [Heap.get?_erase_ne h i j e] at this
        · simp only
          rw [hrc']
          have : cbsOf (h.erase i) r.dead = cbsOf h r.dead := by
            apply cbsOf_congr
            · intro j hj m hm
              have e : j ≠ i := fun e => hi_dead (e ▸ hj)
              rw [Heap.get?_erase_ne h i j e] at hm
              exact ⟨m, hm, rfl⟩
            · exact hrd
          rw [this]
          simp [cbsOf, hn]

/-- one `json_object_put(i)`: the outermost call frees `i` exactly when its count was 1 -/
theorem release_single_head (fuel : Nat) (h : Heap) (i : Id) (n : Node) (hg : h.get? i = some n) (r : Rel)
    (hr : release fuel h [i] = .ok r) :
    (r.dead.head? = some i ↔ n.rc = 1) ∧ (i ∈ r.dead ↔ r.dead.head? = some i) := by
  cases fuel with
  | zero => simp [release] at hr
  | succ fuel =>
    unfold release at hr
    simp only [hg] at hr
    by_cases h0 : n.rc = 0
    · simp [h0] at hr
    · rw [if_neg h0] at hr
      by_cases h1 : n.rc > 1
      · rw [if_pos h1] at hr
        have : release fuel (h.set i { n with rc := n.rc - 1 }) [] = .ok ⟨h.set i { n with rc := n.rc - 1 }, [], []⟩ := by
          cases fuel <;> simp [release]
        rw [this] at hr
        cases hr
        simp; omega
      · rw [if_neg h1] at hr
        split at hr
        · cases hr
          simp; omega
        · cases hr
        · cases hr

end JsonC.Heap
